(* Fw/C02.v — proofs for property C02 (Interests go only to FIB next hops, without loops or duplicate forwarding). *)
From Coq Require Import List NArith Arith Bool Lia Permutation.
From Base Require Import Bytes.
From Fw Require Import Model Spec Run Lemmas Inv.
Import ListNotations.
Open Scope N_scope.

(* ---------------------------------------------------------------- the outgoing Interest pipeline, in closed form *)
Definition mk_out (tidv : N) (n : name) (hop : option N) (u : N) (h : nexthop) : out :=
  mk_interest_out (fst h) n hop (up_token tidv u).

Lemma insert_outrec_tok now f nonce life n e : pe_tok (insert_outrec now f nonce life n e) = pe_tok e.
Proof. reflexivity. Qed.

Lemma send_all_outs fs tidv now inface nonce life n hop nhs : forall e,
  snd (send_all fs tidv now inface nonce life n hop nhs e) =
  map (mk_out tidv n hop (pe_tok e)) (filter (fun h => can_send fs inface hop n (fst h)) nhs) /\
  pe_tok (fst (send_all fs tidv now inface nonce life n hop nhs e)) = pe_tok e.
Proof.
  induction nhs as [|h r IH]; intros e; cbn; [auto|].
  destruct (can_send fs inface hop n (fst h)).
  - specialize (IH (insert_outrec now (fst h) nonce life n e)).
    destruct (send_all fs tidv now inface nonce life n hop r (insert_outrec now (fst h) nonce life n e)) as [e2 os].
    cbn in *. destruct IH as [-> ->]. split; reflexivity.
  - apply IH.
Qed.

(* ---------------------------------------------------------------- the PIT entry the Interest lands in *)
Lemma entry_records s i tok pre e0 post ok :
  insert_interest (pit s) (i_name i) (i_cbp i) (i_mbf i)
    (match select_hint (regions s) (i_hints i) with Some h => h | None => [] end) tok = (pre, e0, post, ok) ->
  pe_ins e0 = c02_ins s i /\ pe_outs e0 = c02_outs s i.
Proof.
  unfold insert_interest, c02_ins, c02_outs, c02_entry.
  destruct (find_entry _ _ _ _ (pit s)) as [[[a x] b]|]; intros H; inversion H; subst; split; reflexivity.
Qed.

Lemma get_in_put_in l r x : In (ir_face r) (map ir_face l) ->
  get_in (put_in l r) x = if ir_face r =? x then Some r else get_in l x.
Proof.
  induction l as [|y t IH]; cbn; [intros []|].
  destruct (ir_face y =? ir_face r) eqn:E.
  - apply N.eqb_eq in E. intros _. cbn. rewrite E. destruct (ir_face r =? x); reflexivity.
  - apply N.eqb_neq in E. intros [H|H]; [congruence|]. cbn.
    destruct (ir_face y =? x) eqn:Ex.
    + apply N.eqb_eq in Ex. destruct (ir_face r =? x) eqn:Er; [apply N.eqb_eq in Er; congruence|reflexivity].
    + apply IH, H.
Qed.

Lemma get_in_app l r x : get_in (l ++ [r]) x = match get_in l x with Some y => Some y | None => if ir_face r =? x then Some r else None end.
Proof.
  induction l as [|y t IH]; cbn; [reflexivity|]. destruct (ir_face y =? x); [reflexivity|exact IH].
Qed.

(* the arrival face's own in-record does not exclude it; other faces are judged on the records before this Interest *)
Lemma allowed_same now f nonce life tok e0 e1 pending prev x :
  insert_inrec now f nonce life tok e0 = (e1, pending, prev) ->
  match get_in (pe_ins e1) x with None => true | Some _ => x =? f end =
  match get_in (pe_ins e0) x with None => true | Some _ => x =? f end.
Proof.
  unfold insert_inrec. destruct (get_in (pe_ins e0) f) as [r|] eqn:G; intros H; inversion H; subst; clear H; cbn [pe_ins set_ins].
  - destruct (get_in_some _ _ _ G) as [Hr Hf].
    rewrite get_in_put_in by (cbn; rewrite <- Hf; apply in_map; exact Hr). cbn [ir_face].
    destruct (f =? x) eqn:E.
    + apply N.eqb_eq in E. subst x. rewrite G. reflexivity.
    + reflexivity.
  - rewrite get_in_app. cbn [ir_face]. destruct (get_in (pe_ins e0) x) eqn:Gx; [reflexivity|].
    destruct (f =? x) eqn:E; [|reflexivity]. apply N.eqb_eq in E. subst x. rewrite N.eqb_refl. reflexivity.
Qed.

Lemma insert_inrec_outs now f nonce life tok e0 e1 pending prev :
  insert_inrec now f nonce life tok e0 = (e1, pending, prev) ->
  pe_outs e1 = pe_outs e0 /\ pe_tok e1 = pe_tok e0 /\ (pending = match get_in (pe_ins e0) f with Some _ => true | None => false end).
Proof.
  unfold insert_inrec. destruct (get_in (pe_ins e0) f); intros H; inversion H; subst; auto.
Qed.

Lemma filter_filter {A} (p q : A -> bool) l : filter p (filter q l) = filter (fun x => p x && q x) l.
Proof.
  induction l as [|a l IH]; cbn; [reflexivity|].
  destruct (q a); cbn; [destruct (p a); cbn; [f_equal|]; exact IH|rewrite andb_false_r; exact IH].
Qed.

(* ---------------------------------------------------------------- normal form of the Interest step *)
Definition usable_cands (s : fw) (i : interest) : list nexthop := filter (c02_usable s i) (c02_candidates s i).

(* what the strategy (or the consumer-chosen next hop) selects *)
Definition selection_ok (s : fw) (now : N) (i : interest) (sel : list nexthop) : Prop :=
  match i_nhf i with
  | Some _ => sel = usable_cands s i
  | None =>
    if c02_suppressed s now i then sel = []
    else if strat_of (strat s) (i_name i) =? 1 then sel = usable_cands s i
    else (sel = [] /\ usable_cands s i = []) \/
         (exists h, sel = [h] /\ In h (usable_cands s i) /\ snd h = min_cost (usable_cands s i))
  end.

Lemma code_spec_localhost n : code_localhost n = spec_localhost n. Proof. reflexivity. Qed.

Lemma min_cost_in l h0 : In h0 (filter (fun h => snd h =? min_cost l) l) -> In h0 l /\ snd h0 = min_cost l.
Proof. intros H. apply filter_In in H. destruct H as [H1 H2]. apply N.eqb_eq in H2. auto. Qed.

Lemma fold_min_le l : forall m, fold_left (fun m (x : nexthop) => N.min m (snd x)) l m <= m.
Proof. induction l as [|a l IH]; intros m; cbn; [lia|]. specialize (IH (N.min m (snd a))). lia. Qed.

Lemma fold_min_attained l : forall m,
  fold_left (fun m (x : nexthop) => N.min m (snd x)) l m = m \/
  exists x, In x l /\ fold_left (fun m (x : nexthop) => N.min m (snd x)) l m = snd x.
Proof.
  induction l as [|a l IH]; intros m; cbn; [left; reflexivity|].
  destruct (IH (N.min m (snd a))) as [E|(x & Hx & E)].
  - rewrite E. destruct (N.min_spec m (snd a)) as [[_ ->]|[_ ->]]; [left; reflexivity|right; exists a; auto].
  - right; exists x; auto.
Qed.

Lemma best_nonempty (u : nexthop) ur : exists b, In b (filter (fun h => snd h =? min_cost (u :: ur)) (u :: ur)).
Proof.
  assert (H : exists b, In b (u :: ur) /\ snd b = min_cost (u :: ur)).
  { unfold min_cost. destruct (fold_min_attained ur (snd u)) as [E|(x & Hx & E)].
    - exists u. split; [left; reflexivity|symmetry; exact E].
    - exists x. split; [right; exact Hx|symmetry; exact E]. }
  destruct H as (b & Hb & Eb). exists b. apply filter_In. split; [exact Hb|apply N.eqb_eq, Eb].
Qed.

Lemma send_data_no_interest fs n f tok : interest_outs (send_data fs n f tok) = [].
Proof.
  unfold send_data. destruct (get_face fs f) as [g|]; [|reflexivity].
  destruct (negb (f_local g) && code_localhost n); reflexivity.
Qed.

Theorem interest_normal_form s now i ch :
  c02_must_drop s i = false ->
  let r := step s (EInterest now i) ch in
  (exists n, r_disp r = CsHit n /\ interest_outs (r_outs r) = [] /\ c02_cached s now i = true) \/
  (exists u sel, r_disp r = Pending u /\
     r_outs r = map (mk_out (tid s) (i_name i) (hop_after (i_hop i)) u) sel /\ selection_ok s now i sel).
Proof.
  intros MD. cbn zeta. cbn [step]. unfold step_interest. unfold c02_must_drop in MD.
  destruct (get_face (faces s) (i_face i)) as [inf|]; [|discriminate].
  apply orb_false_iff in MD. destruct MD as [MD M3]. apply orb_false_iff in MD. destruct MD as [M1 M2].
  rewrite M1. rewrite code_spec_localhost, M2.
  destruct (i_nonce i) as [nonce|] eqn:EN; [|discriminate].
  apply orb_false_iff in M3. destruct M3 as [M3 M4]. rewrite M3.
  set (hk := match select_hint (regions s) (i_hints i) with Some h => h | None => [] end).
  destruct (insert_interest (pit s) (i_name i) (i_cbp i) (i_mbf i) hk (ch_tok ch)) as [[[pre e0] post] tok_ok] eqn:II.
  destruct (entry_records s i _ _ _ _ _ II) as [EI EO].
  unfold is_dup. rewrite EI, M4.
  destruct (insert_inrec now (i_face i) nonce (i_life i) (i_tok i) e0) as [[e1 pending] prev] eqn:IR.
  destruct (insert_inrec_outs _ _ _ _ _ _ _ _ _ IR) as (O1 & T1 & P1). rewrite EI in P1.
  destruct (cs_stage s now i inf pending ch) as [[hit lru'] cs_ok] eqn:CS.
  destruct hit as [c|].
  - left. exists (cs_name c). cbn [r_disp r_outs res]. split; [reflexivity|]. split.
    + apply send_data_no_interest.
    + unfold cs_stage in CS. unfold c02_cached.
      destruct pending; [cbn in CS; inversion CS|]. cbn [negb andb] in CS.
      destruct (cs_serve s); [|inversion CS]. cbn [andb].
      destruct (get_in (c02_ins s i) (i_face i)); [discriminate|]. cbn [andb].
      unfold cs_find in CS. destruct (i_cbp i).
      * destruct (cs_prefix_candidates (cs s) now (i_mbf i) (i_name i)); [destruct (ch_cs ch); inversion CS|reflexivity].
      * destruct (cs_get (cs s) (i_name i)) as [e|]; [|inversion CS]. destruct (cs_usable now (i_mbf i) e); [reflexivity|inversion CS].
  - right. unfold selection_ok, usable_cands, c02_candidates, c02_usable, c02_suppressed. rewrite EN. unfold nexthop in *.
    destruct (i_nhf i) as [nh|] eqn:ENH.
    + pose proof (send_all_outs (faces s) (tid s) now (i_face i) nonce (i_life i) (i_name i) (hop_after (i_hop i)) [(nh, 0)] (upd_expiry now e1)) as SO.
      destruct (send_all (faces s) (tid s) now (i_face i) nonce (i_life i) (i_name i) (hop_after (i_hop i)) [(nh, 0)] (upd_expiry now e1)) as [e3 os].
      cbn [fst snd] in SO. destruct SO as [-> TK]. cbn [r_disp r_outs res].
      exists (pe_tok e3), (filter (fun h => can_send (faces s) (i_face i) (hop_after (i_hop i)) (i_name i) (fst h)) [(nh, 0)]).
      split; [reflexivity|]. split; [rewrite TK; reflexivity|].
      apply filter_ext. intros h. rewrite andb_true_r. reflexivity.
    + set (cands := fib_nexthops (fib s) (match select_hint (regions s) (i_hints i) with Some h => h | None => i_name i end)).
      assert (AL : allowed_nexthops (fib s) (match select_hint (regions s) (i_hints i) with Some h => h | None => i_name i end) (i_face i) (upd_expiry now e1)
                   = filter (fun h => match get_in (c02_ins s i) (fst h) with None => true | Some _ => fst h =? i_face i end) cands).
      { unfold allowed_nexthops. fold cands. apply filter_ext. intros h. cbn [pe_ins upd_expiry set_q].
        rewrite (allowed_same _ _ _ _ _ _ _ _ _ (fst h) IR), EI. reflexivity. }
      rewrite AL. clear AL.
      match goal with |- context [strategy_interest _ _ _ _ _ _ _ _ _ ?al _ _] => remember al as allowed eqn:EAL end.
      assert (US : filter (fun h : N * N => can_send (faces s) (i_face i) (hop_after (i_hop i)) (i_name i) (fst h)) allowed =
                   filter (fun h : N * N => can_send (faces s) (i_face i) (hop_after (i_hop i)) (i_name i) (fst h) &&
                                    match get_in (c02_ins s i) (fst h) with None => true | Some _ => fst h =? i_face i end) cands).
      { rewrite EAL. apply filter_filter. }
      clear EAL.
      unfold lookup_name. fold cands.
      unfold strategy_interest.
      assert (SUP : suppressed (strat_of (strat s) (i_name i)) now nonce (upd_expiry now e1) =
                    existsb (fun o => negb (or_nonce o =? nonce) && (now <? or_at o + suppression (strat_of (strat s) (i_name i)))) (c02_outs s i)).
      { unfold suppressed. cbn [pe_outs upd_expiry set_q]. rewrite O1, EO. reflexivity. }
      destruct allowed as [|a0 ar] eqn:EA.
      * (* no next hop offered to the strategy *)
        cbn [r_disp r_outs res]. exists (pe_tok (upd_expiry now e1)), []. split; [reflexivity|]. split; [reflexivity|].
        cbn [filter] in US. rewrite <- US.
        destruct (existsb _ (c02_outs s i)); [reflexivity|]. destruct (strat_of (strat s) (i_name i) =? 1); [reflexivity|left; auto].
      * rewrite SUP. destruct (existsb _ (c02_outs s i)).
        -- cbn [r_disp r_outs res]. exists (pe_tok (upd_expiry now e1)), []. auto.
        -- destruct (strat_of (strat s) (i_name i) =? 1).
           ++ pose proof (send_all_outs (faces s) (tid s) now (i_face i) nonce (i_life i) (i_name i) (hop_after (i_hop i)) (a0 :: ar) (upd_expiry now e1)) as SO.
              destruct (send_all (faces s) (tid s) now (i_face i) nonce (i_life i) (i_name i) (hop_after (i_hop i)) (a0 :: ar) (upd_expiry now e1)) as [e3 os].
              cbn [fst snd] in SO. destruct SO as [-> TK]. cbn [r_disp r_outs res].
              eexists _, _. split; [reflexivity|]. split; [rewrite TK; reflexivity|]. exact US.
           ++ rewrite <- US.
              destruct (filter (fun h : N * N => can_send (faces s) (i_face i) (hop_after (i_hop i)) (i_name i) (fst h)) (a0 :: ar)) as [|u ur] eqn:EU.
              ** cbn [r_disp r_outs res]. exists (pe_tok (upd_expiry now e1)), []. split; [reflexivity|]. split; [reflexivity|left; auto].
              ** assert (SEND1 : forall h, In h (u :: ur) ->
                           exists e3, send_all (faces s) (tid s) now (i_face i) nonce (i_life i) (i_name i) (hop_after (i_hop i)) [h] (upd_expiry now e1)
                                      = (e3, [mk_out (tid s) (i_name i) (hop_after (i_hop i)) (pe_tok (upd_expiry now e1)) h]) /\ pe_tok e3 = pe_tok (upd_expiry now e1)).
                 { intros h Hh. rewrite <- EU in Hh. apply filter_In in Hh. destruct Hh as [_ Hc].
                   pose proof (send_all_outs (faces s) (tid s) now (i_face i) nonce (i_life i) (i_name i) (hop_after (i_hop i)) [h] (upd_expiry now e1)) as SO.
                   destruct (send_all (faces s) (tid s) now (i_face i) nonce (i_life i) (i_name i) (hop_after (i_hop i)) [h] (upd_expiry now e1)) as [e3 os].
                   cbn [fst snd filter] in SO. rewrite Hc in SO. destruct SO as [-> TK]. exists e3. auto. }
                 destruct (filter (fun h : N * N => snd h =? min_cost (u :: ur)) (u :: ur)) as [|b0 br] eqn:EB.
                 { exfalso. destruct (best_nonempty u ur) as [b Hb]. unfold nexthop in *. rewrite EB in Hb. destruct Hb. }
                 assert (BIN : forall h, In h (b0 :: br) -> In h (u :: ur) /\ snd h = min_cost (u :: ur)).
                 { intros h Hh. rewrite <- EB in Hh. apply min_cost_in in Hh. exact Hh. }
                 match goal with |- context [match ?p with Some _ => _ | None => _ end] => destruct p as [h|] eqn:PK end.
                 --- assert (Hb : In h (b0 :: br)).
                     { destruct (ch_tie ch) as [f|]; [|discriminate].
                       destruct (filter (fun h0 : N * N => fst h0 =? f) (b0 :: br)) as [|h0 hr] eqn:FF; [discriminate|].
                       inversion PK; subst h0. eapply proj1. apply filter_In. rewrite FF. left; reflexivity. }
                     destruct (BIN h Hb) as [Hu Hm].
                     destruct (SEND1 h Hu) as (e3 & -> & TK). cbn [r_disp r_outs res].
                     exists (pe_tok e3), [h]. split; [reflexivity|]. split; [rewrite TK; reflexivity|].
                     right. exists h. auto.
                 --- destruct (BIN b0 (or_introl eq_refl)) as [Hu Hm].
                     destruct (SEND1 b0 Hu) as (e3 & -> & TK). cbn [r_disp r_outs res].
                     exists (pe_tok e3), [b0]. split; [reflexivity|]. split; [rewrite TK; reflexivity|].
                     right. exists b0. auto.
Qed.

(* ---------------------------------------------------------------- dropped Interests *)
Definition is_drop (d : disp) : bool :=
  match d with DropNoFace | DropHop | DropScope | DropNoNonce | DropDead | DropDup => true | _ => false end.

Theorem must_drop_dropped s now i ch :
  c02_must_drop s i = true ->
  r_outs (step s (EInterest now i) ch) = [] /\ is_drop (r_disp (step s (EInterest now i) ch)) = true.
Proof.
  intros MD. cbn [step]. unfold step_interest. unfold c02_must_drop in MD.
  destruct (get_face (faces s) (i_face i)) as [inf|]; [|split; reflexivity].
  destruct (match i_hop i with Some 0 => true | _ => false end); [split; reflexivity|].
  rewrite code_spec_localhost.
  destruct (negb (f_local inf) && spec_localhost (i_name i)); [split; reflexivity|].
  cbn [orb] in MD.
  destruct (i_nonce i) as [nonce|]; [|split; reflexivity].
  destruct (dnl_has (dnl s) (i_name i) nonce); [split; reflexivity|]. cbn [orb] in MD.
  set (hk := match select_hint (regions s) (i_hints i) with Some h => h | None => [] end).
  destruct (insert_interest (pit s) (i_name i) (i_cbp i) (i_mbf i) hk (ch_tok ch)) as [[[pre e0] post] tok_ok] eqn:II.
  destruct (entry_records s i _ _ _ _ _ II) as [EI EO].
  unfold is_dup. rewrite EI, MD. split; reflexivity.
Qed.

(* ---------------------------------------------------------------- consequences of the normal form *)
Lemma interest_outs_mk tidv n hop u sel : interest_outs (map (mk_out tidv n hop u) sel) = map (mk_out tidv n hop u) sel.
Proof. induction sel as [|h r IH]; cbn; [reflexivity|]. f_equal. exact IH. Qed.

Lemma faces_mk tidv n hop u sel : map o_face (map (mk_out tidv n hop u) sel) = map fst sel.
Proof. rewrite map_map. reflexivity. Qed.

Lemma sel_incl s now i sel : selection_ok s now i sel -> incl sel (usable_cands s i).
Proof.
  unfold selection_ok. destruct (i_nhf i).
  - intros ->. apply incl_refl.
  - destruct (c02_suppressed s now i); [intros ->; intros x []|].
    destruct (strat_of (strat s) (i_name i) =? 1); [intros ->; apply incl_refl|].
    intros [[-> _]|(h & -> & Hh & _)]; [intros x []|intros x [<-|[]]; exact Hh].
Qed.

Lemma get_face_id fs id g : get_face fs id = Some g -> f_id g = id.
Proof.
  induction fs as [|f r IH]; cbn; [discriminate|].
  destruct (f_id f =? id) eqn:E; [intros H; inversion H; subst; apply N.eqb_eq, E|exact IH].
Qed.

Lemma usable_out_ok s i u h : In h (usable_cands s i) -> c02_out_ok s i (mk_out (tid s) (i_name i) (hop_after (i_hop i)) u h) = true.
Proof.
  intros Hh. unfold usable_cands in Hh. apply filter_In in Hh. destruct Hh as [Hc Hu].
  unfold c02_usable in Hu. apply andb_true_iff in Hu. destruct Hu as [Hs _].
  unfold c02_out_ok, mk_out, mk_interest_out. cbn [o_face o_name o_hop].
  apply andb_true_iff. split; [apply andb_true_iff; split; [apply andb_true_iff; split|]|].
  - apply existsb_exists. exists h. split; [exact Hc|apply N.eqb_refl].
  - unfold can_send in Hs. destruct (get_face (faces s) (fst h)) as [g|] eqn:G; [|discriminate].
    apply andb_true_iff in Hs. destruct Hs as [Hs _]. apply andb_true_iff in Hs. destruct Hs as [Hs _].
    rewrite (get_face_id _ _ _ G) in Hs. destruct (fst h =? i_face i); cbn in *; [|reflexivity].
    destruct (is_adhoc (f_link g)); [reflexivity|discriminate].
  - apply name_eqb_refl.
  - destruct (hop_after (i_hop i)); [apply N.eqb_refl|reflexivity].
Qed.

Lemma forallb_map_true {A B} (f : B -> bool) (g : A -> B) l : (forall x, In x l -> f (g x) = true) -> forallb f (map g l) = true.
Proof. intros H. apply forallb_forall. intros y Hy. apply in_map_iff in Hy. destruct Hy as (x & <- & Hx). apply H, Hx. Qed.

Theorem outs_ok s now i ch : c02_outs_ok s i (r_outs (step s (EInterest now i) ch)) = true.
Proof.
  destruct (c02_must_drop s i) eqn:MD.
  - destruct (must_drop_dropped s now i ch MD) as [-> _]. reflexivity.
  - destruct (interest_normal_form s now i ch MD) as [(n & _ & E & _)|(u & sel & _ & E & SEL)]; unfold c02_outs_ok.
    + rewrite E. reflexivity.
    + rewrite E, interest_outs_mk. apply forallb_map_true. intros h Hh. apply usable_out_ok. apply (sel_incl _ _ _ _ SEL), Hh.
Qed.

Theorem drop_ok s now i ch : c02_drop_ok s i (r_outs (step s (EInterest now i) ch)) = true.
Proof.
  unfold c02_drop_ok. destruct (c02_must_drop s i) eqn:MD; [|reflexivity].
  destruct (must_drop_dropped s now i ch MD) as [-> _]. reflexivity.
Qed.

Theorem suppress_ok s now i ch : c02_suppress_ok s now i (r_outs (step s (EInterest now i) ch)) = true.
Proof.
  unfold c02_suppress_ok. destruct (c02_suppressed s now i) eqn:SU; [|reflexivity].
  destruct (c02_must_drop s i) eqn:MD.
  - destruct (must_drop_dropped s now i ch MD) as [-> _]. reflexivity.
  - destruct (interest_normal_form s now i ch MD) as [(n & _ & E & _)|(u & sel & _ & E & SEL)].
    + rewrite E. reflexivity.
    + rewrite E, interest_outs_mk. unfold selection_ok, c02_suppressed in *.
      destruct (i_nhf i); [discriminate|]. rewrite SU in SEL. subst sel. reflexivity.
Qed.

Theorem strategy_ok s now i ch : c02_strategy_ok s i (r_outs (step s (EInterest now i) ch)) = true.
Proof.
  unfold c02_strategy_ok. destruct (i_nhf i) eqn:ENH; [reflexivity|].
  fold (usable_cands s i).
  destruct (c02_must_drop s i) eqn:MD.
  - destruct (must_drop_dropped s now i ch MD) as [-> _]. cbn. destruct (strat_of (strat s) (i_name i) =? 1); reflexivity.
  - destruct (interest_normal_form s now i ch MD) as [(n & _ & E & _)|(u & sel & _ & E & SEL)].
    + rewrite E. cbn. destruct (strat_of (strat s) (i_name i) =? 1); reflexivity.
    + rewrite E, interest_outs_mk, faces_mk. unfold selection_ok in SEL. rewrite ENH in SEL.
      destruct (c02_suppressed s now i).
      * subst sel. cbn. destruct (strat_of (strat s) (i_name i) =? 1); reflexivity.
      * destruct (strat_of (strat s) (i_name i) =? 1).
        -- subst sel. destruct (map fst (usable_cands s i)) as [|f0 fr] eqn:EM; [reflexivity|]. rewrite <- EM.
           apply andb_true_iff. split.
           ++ apply forallb_forall. intros h Hh. apply existsb_exists. exists (fst h). split; [apply in_map, Hh|apply N.eqb_refl].
           ++ apply forallb_forall. intros f Hf. apply in_map_iff in Hf. destruct Hf as (h & <- & Hh).
              apply existsb_exists. exists h. split; [exact Hh|apply N.eqb_refl].
        -- destruct SEL as [[-> _]|(h & -> & Hh & Hm)]; [reflexivity|]. cbn [map].
           apply existsb_exists. exists h. split; [exact Hh|]. rewrite N.eqb_refl. cbn. apply N.eqb_eq, Hm.
Qed.

Theorem forward_ok s now i ch : c02_forward_ok s now i (r_outs (step s (EInterest now i) ch)) = true.
Proof.
  unfold c02_forward_ok. fold (usable_cands s i).
  destruct (c02_must_drop s i) eqn:MD; [reflexivity|]. cbn [negb andb].
  destruct (c02_cached s now i) eqn:CA; [reflexivity|]. cbn [negb andb].
  destruct (c02_suppressed s now i) eqn:SU; [reflexivity|]. cbn [negb andb].
  destruct (usable_cands s i) as [|u0 ur] eqn:EU; [reflexivity|]. cbn [nonempty].
  destruct (interest_normal_form s now i ch MD) as [(n & _ & _ & C)|(u & sel & _ & E & SEL)]; [congruence|].
  rewrite E, interest_outs_mk. unfold selection_ok in SEL. rewrite SU, EU in SEL.
  destruct (i_nhf i).
  - subst sel. reflexivity.
  - destruct (strat_of (strat s) (i_name i) =? 1); [subst sel; reflexivity|].
    destruct SEL as [[_ C]|(h & -> & _)]; [discriminate|reflexivity].
Qed.

Lemma nodupb_true l : NoDup l -> nodupb l = true.
Proof.
  induction l as [|x r IH]; cbn; intros ND; [reflexivity|]. inversion ND as [|? ? Hn ND']; subst.
  rewrite (IH ND'), andb_true_r. apply negb_true_iff. destruct (existsb (N.eqb x) r) eqn:E; [|reflexivity].
  apply existsb_exists in E. destruct E as (y & Hy & Ey). apply N.eqb_eq in Ey. subst. contradiction.
Qed.

Theorem nodup_ok s now i ch :
  NoDup (map fst (c02_candidates s i)) -> c02_nodup_ok (r_outs (step s (EInterest now i) ch)) = true.
Proof.
  intros ND. unfold c02_nodup_ok.
  destruct (c02_must_drop s i) eqn:MD.
  - destruct (must_drop_dropped s now i ch MD) as [-> _]. reflexivity.
  - destruct (interest_normal_form s now i ch MD) as [(n & _ & E & _)|(u & sel & _ & E & SEL)].
    + rewrite E. reflexivity.
    + rewrite E, interest_outs_mk, faces_mk. apply nodupb_true.
      assert (NU : NoDup (map fst (usable_cands s i))) by (apply NoDup_map_filter, ND).
      unfold selection_ok in SEL. destruct (i_nhf i); [subst sel; exact NU|].
      destruct (c02_suppressed s now i); [subst sel; constructor|].
      destruct (strat_of (strat s) (i_name i) =? 1); [subst sel; exact NU|].
      destruct SEL as [[-> _]|(h & -> & _)]; cbn; repeat constructor; intros [].
Qed.

(* ---------------------------------------------------------------- FIB entries list each face once (history invariant) *)
Definition fib_wf (fb : fibtab) : Prop := Forall (fun e => NoDup (map fst (snd e))) fb.

Lemma nh_set_nodup l f c : NoDup (map fst l) -> NoDup (map fst (nh_set l f c)).
Proof.
  induction l as [|[g d] r IH]; cbn; intros ND; [constructor; [intros []|constructor]|].
  inversion ND as [|? ? Hn ND']; subst.
  destruct (g =? f) eqn:E; cbn; [constructor; assumption|].
  constructor; [|apply IH, ND'].
  intros Hin. apply N.eqb_neq in E. apply Hn.
  clear -Hin E. induction r as [|[g' d'] r IH]; cbn in *; [destruct Hin as [H|[]]; congruence|].
  destruct (g' =? f) eqn:E'; cbn in *; [exact Hin|]. destruct Hin as [H|H]; [left; exact H|right; apply IH, H].
Qed.

Lemma find_name_in {A} (tbl : list (name * A)) n a : find_name tbl n = Some a -> exists m, In (m, a) tbl.
Proof.
  induction tbl as [|[m b] r IH]; cbn; [discriminate|].
  destruct (name_eqb m n); [intros H; inversion H; subst; eauto|].
  intros H. destruct (IH H) as [m' Hm]. eauto.
Qed.

Lemma set_name_forall {A} (P : name * A -> Prop) tbl n a :
  Forall P tbl -> (forall m, P (m, a)) -> Forall P (set_name tbl n a).
Proof.
  intros F Pa. induction tbl as [|[m b] r IH]; cbn; [constructor; [apply Pa|constructor]|].
  inversion F; subst. destruct (name_eqb m n); constructor; auto.
Qed.

Lemma del_name_forall {A} (P : name * A -> Prop) tbl n : Forall P tbl -> Forall P (del_name tbl n).
Proof.
  intros F. unfold del_name. apply Forall_forall. intros x Hx. apply filter_In in Hx.
  rewrite Forall_forall in F. apply F, Hx.
Qed.

Lemma fib_wf_lookup fb n : fib_wf fb -> NoDup (map fst (fib_nexthops fb n)).
Proof.
  intros W. unfold fib_nexthops.
  assert (L : forall k a, lpm fb nonempty n k = Some a -> NoDup (map fst a)).
  { induction k as [|k IH]; intros a; cbn [lpm].
    - destruct (find_name fb (firstn 0 n)) as [b|] eqn:F; [|discriminate].
      destruct (nonempty b); [|discriminate]. intros H; inversion H; subst.
      destruct (find_name_in _ _ _ F) as [m Hm]. unfold fib_wf in W. rewrite Forall_forall in W. apply (W _ Hm).
    - destruct (find_name fb (firstn (S k) n)) as [b|] eqn:F; [|apply IH].
      destruct (nonempty b); [|apply IH]. intros H; inversion H; subst.
      destruct (find_name_in _ _ _ F) as [m Hm]. unfold fib_wf in W. rewrite Forall_forall in W. apply (W _ Hm). }
  destruct (lpm fb nonempty n (length n)) as [a|] eqn:E; [apply (L _ _ E)|constructor].
Qed.

Lemma fib_ins_wf fb n f c : fib_wf fb -> fib_wf (fib_ins fb n f c).
Proof.
  intros W. unfold fib_ins. apply set_name_forall; [exact W|]. intros m. cbn.
  apply nh_set_nodup. destruct (find_name fb n) as [l|] eqn:F; [|constructor].
  destruct (find_name_in _ _ _ F) as [m' Hm]. unfold fib_wf in W. rewrite Forall_forall in W. apply (W _ Hm).
Qed.

Lemma fib_rem_wf fb n f : fib_wf fb -> fib_wf (fib_rem fb n f).
Proof.
  intros W. unfold fib_rem. destruct (find_name fb n) as [l|] eqn:F; [|exact W].
  assert (NDl : NoDup (map fst l)).
  { destruct (find_name_in _ _ _ F) as [m' Hm]. unfold fib_wf in W. rewrite Forall_forall in W. apply (W _ Hm). }
  destruct (nh_del l f) as [|h r] eqn:D; [apply del_name_forall, W|].
  apply set_name_forall; [exact W|]. intros m. cbn [snd]. rewrite <- D. unfold nh_del. apply NoDup_map_filter, NDl.
Qed.

Lemma step_fib_wf s e c : fib_wf (fib s) -> fib_wf (fib (r_st (step s e c))).
Proof.
  intros W. destruct e; cbn; try exact W.
  - unfold step_interest.
    destruct (get_face (faces s) (i_face i)) as [inf|]; [|exact W].
    destruct (match i_hop i with Some 0 => true | _ => false end); [exact W|].
    destruct (negb (f_local inf) && code_localhost (i_name i)); [exact W|].
    destruct (i_nonce i) as [nonce|]; [|exact W].
    destruct (dnl_has (dnl s) (i_name i) nonce); [exact W|].
    destruct (insert_interest _ _ _ _ _ _) as [[[pre e0] post] tok_ok].
    destruct (is_dup (i_face i) nonce e0); [exact W|].
    destruct (insert_inrec now (i_face i) nonce (i_life i) (i_tok i) e0) as [[e1 pending] prev].
    destruct (cs_stage s now i inf pending c) as [[hit lru'] cs_ok].
    destruct hit; [exact W|].
    destruct (i_nhf i); [destruct (send_all _ _ _ _ _ _ _ _ _ _); exact W|].
    destruct (strategy_interest _ _ _ _ _ _ _ _ _ _ _ _) as [[e3 os] tie_ok]. exact W.
  - unfold step_data.
    assert (T : forall t, fib (r_st (step_data_thread s now d t)) = fib s).
    { intros t. unfold step_data_thread. destruct (get_face (faces s) (d_face d)); [|reflexivity].
      destruct (negb (f_local f) && code_localhost (d_name d)); [reflexivity|].
      assert (C : fib (if cs_admit s then cs_insert s now (d_name d) (d_fresh d) else s) = fib s).
      { destruct (cs_admit s); [|reflexivity]. unfold cs_insert. destruct (cs_get (cs s) (d_name d)); [reflexivity|].
        destruct (cs_evict _ _ _ _); reflexivity. }
      cbv zeta. destruct (data_matches _ _ _); cbn; exact C. }
    destruct (data_token (d_tok d)) as [[th tk]|]; [|rewrite T; exact W].
    destruct (th =? tid s); [rewrite T; exact W|]. exact W.
  - unfold step_tick. destruct (pop_chosen _ _ _ _ _) as [pd ok]. exact W.
  - apply fib_ins_wf, W.
  - apply fib_rem_wf, W.
  - apply del_name_forall, W.
  - destruct n; exact W.
Qed.

Lemma filter_all_false {A} (f : A -> bool) l : (forall x, In x l -> f x = false) -> filter f l = [].
Proof.
  induction l as [|a l IH]; cbn; [reflexivity|]. intros H. rewrite (H a (or_introl eq_refl)). apply IH.
  intros x Hx. apply H. right; exact Hx.
Qed.

Theorem no_duplicate_copies s0 (h : history) : fib_wf (fib s0) ->
  forall pre e r, In (pre, e, r) (trace s0 h) -> c02_nodup_ok (r_outs r) = true.
Proof.
  revert s0. induction h as [|[e c] t IH]; intros s0 W pre e' r; cbn; [intros []|].
  intros [E|Hin].
  - inversion E; subst. destruct e'; try reflexivity.
    + apply nodup_ok. unfold c02_candidates. destruct (i_nhf i); [cbn; repeat constructor; intros []|apply fib_wf_lookup, W].
    + (* Data: no Interest is sent *)
      unfold c02_nodup_ok. cbn [step]. unfold step_data.
      assert (T : forall topt, interest_outs (r_outs (step_data_thread pre now d topt)) = []).
      { intros topt. unfold step_data_thread. destruct (get_face (faces pre) (d_face d)); [|reflexivity].
        destruct (negb (f_local f) && code_localhost (d_name d)); [reflexivity|]. cbv zeta.
        destruct (data_matches _ _ _) as [|m0 rest]; [reflexivity|]. cbn [r_outs res].
        unfold interest_outs. apply filter_all_false. intros o Ho.
        apply in_flat_map in Ho. destruct Ho as (x & _ & Ho). apply in_flat_map in Ho. destruct Ho as (y & _ & Ho).
        destruct (negb _ && (ir_face y =? d_face d)); [destruct Ho|].
        unfold send_data in Ho. destruct (get_face _ (ir_face y)); [|destruct Ho].
        destruct (negb (f_local f0) && code_localhost (d_name d)); [destruct Ho|]. destruct Ho as [<-|[]]. reflexivity. }
      destruct (data_token (d_tok d)) as [[th tk]|]; [|rewrite T; reflexivity].
      destruct (th =? tid pre); [rewrite T; reflexivity|]. reflexivity.
    + cbn [step]. unfold step_tick. destruct (pop_chosen _ _ _ _ _); reflexivity.
    + cbn. destruct n; reflexivity.
  - eapply IH; [|exact Hin]. apply step_fib_wf, W.
Qed.

(* ---------------------------------------------------------------- statements in propositional form *)
Lemma interest_out_in os o : In o os -> o_kind o = KInterest -> In o (interest_outs os).
Proof. intros H K. unfold interest_outs. apply filter_In. split; [exact H|]. unfold is_interest_out. rewrite K. reflexivity. Qed.

Theorem only_fib_nexthops s now i ch o :
  In o (r_outs (step s (EInterest now i) ch)) -> o_kind o = KInterest ->
  In (o_face o) (map fst (c02_candidates s i)) /\
  (o_face o = i_face i -> exists g, get_face (faces s) (i_face i) = Some g /\ f_link g = AdHoc) /\
  o_name o = i_name i /\ o_hop o = hop_after (i_hop i).
Proof.
  intros Ho K. pose proof (outs_ok s now i ch) as OK. unfold c02_outs_ok in OK. rewrite forallb_forall in OK.
  specialize (OK o (interest_out_in _ _ Ho K)). unfold c02_out_ok in OK.
  apply andb_true_iff in OK. destruct OK as [OK H4]. apply andb_true_iff in OK. destruct OK as [OK H3].
  apply andb_true_iff in OK. destruct OK as [H1 H2].
  split; [|split; [|split]].
  - apply existsb_exists in H1. destruct H1 as (h & Hh & E). apply N.eqb_eq in E. rewrite <- E. apply in_map, Hh.
  - intros E. rewrite E, N.eqb_refl in H2. cbn in H2.
    destruct (get_face (faces s) (i_face i)) as [g|]; [|discriminate]. exists g. split; [reflexivity|].
    destruct (f_link g); cbn in H2; try discriminate. reflexivity.
  - apply name_eqb_spec, H3.
  - destruct (o_hop o), (hop_after (i_hop i)); try discriminate; [apply N.eqb_eq in H4; congruence|reflexivity].
Qed.

Theorem bestroute_min_cost s now i ch :
  i_nhf i = None -> strat_of (strat s) (i_name i) <> 1 ->
  interest_outs (r_outs (step s (EInterest now i) ch)) = [] \/
  exists o h, interest_outs (r_outs (step s (EInterest now i) ch)) = [o] /\ o_face o = fst h /\
              In h (usable_cands s i) /\ snd h = min_cost (usable_cands s i).
Proof.
  intros ENH ST. apply N.eqb_neq in ST.
  destruct (c02_must_drop s i) eqn:MD.
  - destruct (must_drop_dropped s now i ch MD) as [-> _]. left; reflexivity.
  - destruct (interest_normal_form s now i ch MD) as [(n & _ & E & _)|(u & sel & _ & E & SEL)]; [left; exact E|].
    rewrite E, interest_outs_mk. unfold selection_ok in SEL. rewrite ENH, ST in SEL.
    destruct (c02_suppressed s now i); [subst sel; left; reflexivity|].
    destruct SEL as [[-> _]|(h & -> & Hh & Hm)]; [left; reflexivity|right].
    eexists _, h. split; [reflexivity|]. auto.
Qed.

Theorem multicast_all s now i ch :
  i_nhf i = None -> strat_of (strat s) (i_name i) = 1 ->
  c02_must_drop s i = false -> c02_cached s now i = false -> c02_suppressed s now i = false ->
  map o_face (interest_outs (r_outs (step s (EInterest now i) ch))) = map fst (usable_cands s i).
Proof.
  intros ENH ST MD CA SU. apply N.eqb_eq in ST.
  destruct (interest_normal_form s now i ch MD) as [(n & _ & _ & C)|(u & sel & _ & E & SEL)]; [congruence|].
  rewrite E, interest_outs_mk, faces_mk. unfold selection_ok in SEL. rewrite ENH, SU, ST in SEL. subst sel. reflexivity.
Qed.

Theorem first_interest_forwarded s now i ch :
  c02_must_drop s i = false -> c02_cached s now i = false -> c02_suppressed s now i = false -> usable_cands s i <> [] ->
  exists u o, r_disp (step s (EInterest now i) ch) = Pending u /\ In o (r_outs (step s (EInterest now i) ch)) /\
              o_kind o = KInterest /\ In (o_face o) (map fst (usable_cands s i)) /\
              o_name o = i_name i /\ o_hop o = hop_after (i_hop i) /\ o_tok o = up_token (tid s) u.
Proof.
  intros MD CA SU NE.
  destruct (interest_normal_form s now i ch MD) as [(n & _ & _ & C)|(u & sel & D & E & SEL)]; [congruence|].
  assert (SN : sel <> []).
  { unfold selection_ok in SEL. rewrite SU in SEL. destruct (i_nhf i); [congruence|].
    destruct (strat_of (strat s) (i_name i) =? 1); [congruence|].
    destruct SEL as [[_ C]|(h & -> & _)]; [contradiction|discriminate]. }
  destruct sel as [|h r]; [contradiction|].
  exists u, (mk_out (tid s) (i_name i) (hop_after (i_hop i)) u h).
  split; [exact D|]. split; [rewrite E; left; reflexivity|]. split; [reflexivity|]. split; [|auto].
  cbn. apply in_map. apply (sel_incl _ _ _ _ SEL). left; reflexivity.
Qed.

Theorem retx_aggregated s now i ch :
  c02_suppressed s now i = true ->
  interest_outs (r_outs (step s (EInterest now i) ch)) = [] /\
  (c02_must_drop s i = false -> c02_cached s now i = false -> exists u, r_disp (step s (EInterest now i) ch) = Pending u).
Proof.
  intros SU. split.
  - pose proof (suppress_ok s now i ch) as H. unfold c02_suppress_ok in H. rewrite SU in H.
    destruct (interest_outs _); [reflexivity|discriminate].
  - intros MD CA. destruct (interest_normal_form s now i ch MD) as [(n & _ & _ & C)|(u & sel & D & _)]; [congruence|eauto].
Qed.
