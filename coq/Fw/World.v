(* Fw/World.v — several forwarding threads behind the link-service dispatch (fw/face/link-service.go dispatchInterest /
   dispatchData, fw/fw/thread.go HashNameToFwThread / HashNameToAllPrefixFwThreads, fw/dispatch/fw.go GetFWThread).
   Each thread is a Model.fw with its own PIT, CS and dead nonce list; faces, FIB, strategy choice and the CS switches are
   process-wide (every thread's copy is updated by the same events).  The name hash is abstract: [h n] is the thread
   HashNameToFwThread selects for name n (which is 0 for a name whose first component value is "localhost").  No proofs. *)
From Coq Require Import List NArith Arith Bool.
From Base Require Import Bytes.
From Fw Require Import Model Spec.
Import ListNotations.
Open Scope N_scope.

Definition thread_fun := name -> N.

Fixpoint nodup_n (l : list N) : list N :=
  match l with [] => [] | x :: r => if existsb (N.eqb x) r then nodup_n r else x :: nodup_n r end.

(* HashNameToAllPrefixFwThreads: the threads of every prefix of the name, the empty prefix included *)
Definition prefix_threads (h : thread_fun) (n : name) : list N :=
  nodup_n (map (fun k => h (firstn k n)) (seq 0 (S (length n)))).

(* dispatchData: a 6-byte PIT token names the thread (GetFWThread: nil from the thread count on, the Data is dropped); otherwise the Data goes to the thread of every prefix of its name *)
Definition dispatch_data (T : N) (h : thread_fun) (d : data) : list N * bool :=
  match data_token (d_tok d) with
  | Some (th, _) => if th <? T then ([th], false) else ([], false)
  | None => (prefix_threads h (d_name d), false)
  end.

Inductive wev :=
| WPacket (e : ev)            (* an Interest or Data arrival: dispatched *)
| WLocal (k : N) (e : ev)     (* a thread-local timer event: ETick / ESweep on thread k *)
| WGlobal (e : ev).           (* faces, FIB, strategy choice, CS switches, sleep: every thread's copy *)

Fixpoint step_threads (ws : list fw) (sel : N -> bool) (e : ev) (ch : choice) : list fw * list (N * list out) * bool * bool :=
  match ws with
  | [] => ([], [], true, false)
  | s :: r =>
    let '(r', os, ok, pn) := step_threads r sel e ch in
    if sel (tid s)
    then let x := step s e ch in (r_st x :: r', (tid s, r_outs x) :: os, r_ok x && ok, r_panic x || pn)
    else (s :: r', os, ok, pn)
  end.

Definition wev_ev (we : wev) : ev := match we with WPacket e | WLocal _ e | WGlobal e => e end.

(* which threads an event is handed to; an event in the wrong wrapper is handed to nobody *)
Definition selected (T : N) (h : thread_fun) (we : wev) (k : N) : bool :=
  match we with
  | WPacket (EInterest _ i) => k =? h (i_name i)
  | WPacket (EData _ d) => existsb (N.eqb k) (fst (dispatch_data T h d))
  | WPacket _ => false
  | WLocal j (ETick _) | WLocal j (ESweep _) => k =? j
  | WLocal _ _ => false
  | WGlobal (EInterest _ _) | WGlobal (EData _ _) | WGlobal (ETick _) | WGlobal (ESweep _) => false
  | WGlobal _ => true
  end.

Definition wstep (T : N) (h : thread_fun) (ws : list fw) (we : wev) (ch : choice)
  : list fw * list (N * list out) * bool * bool :=
  let '(ws', os, ok, pn) := step_threads ws (selected T h we) (wev_ev we) ch in
  (ws', os, ok, pn || match we with WPacket (EData _ d) => snd (dispatch_data T h d) | _ => false end).

Definition set_thread (s : fw) (k T : N) : fw :=
  {| faces := faces s; fib := fib s; strat := strat s; regions := regions s; pit := pit s; cs := cs s; lru := lru s;
     cs_cap := cs_cap s; cs_admit := cs_admit s; cs_serve := cs_serve s; dnl := dnl s; dnl_life := dnl_life s;
     tid := k; nthreads := T |}.

Definition winit (regs : list name) (dlife : N) (T : nat) : list fw :=
  map (fun k => set_thread (init regs dlife) (N.of_nat k) (N.of_nat T)) (seq 0 T).
