(* Fw/Extract.v — extraction of the executable forwarder model and the spec oracles for runner/Fw/driver.ml.
   ExtrOcamlBasic only: bool, option, unit, list, prod, sumbool -> OCaml natives; N/positive/nat stay Coq datatypes. *)
From Coq Require Import Extraction ExtrOcamlBasic.
From Coq Require Import List NArith.
From Base Require Import Bytes.
From Fw Require Import Model Spec World.
Extraction Language OCaml.
Extraction "fw_model.ml"
  step init wstep winit dispatch_data with_faces get_face name_eqb is_prefix dnl_has up_token
  c09_out_ok c09_outs_ok c09_inbound_violation
  pend_interest pend_data pend_tick c01_data_only_pending c01_data_complete c01_cs_reply_ok sat_rec select_hint data_effective
  c02_outs_ok c02_drop_ok c02_suppress_ok c02_strategy_ok c02_forward_ok c02_nodup_ok c02_must_drop c02_suppressed c02_cached c02_usable c02_candidates
  spec_localhost strat_of c02_drop_reason suppression data_token be_val
  N.add N.mul N.sub N.of_nat N.to_nat N.eqb N.ltb N.leb N.div N.modulo N.compare.
