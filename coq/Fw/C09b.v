(* Fw/C09b.v — C09, "local faces are unaffected": a /localhost Interest from a local application reaches a local next hop. *)
From Coq Require Import List NArith Arith Bool Lia.
From Fw Require Import Model Spec Run Lemmas C09 C02.
Import ListNotations.
Open Scope N_scope.

(* for a name under /localhost every usable next hop is a local face *)
Lemma localhost_usable_local s i h :
  spec_localhost (i_name i) = true -> c02_usable s i h = true ->
  exists g, get_face (faces s) (fst h) = Some g /\ f_local g = true.
Proof.
  intros L U. unfold c02_usable in U. apply andb_true_iff in U. destruct U as [U _].
  unfold can_send in U. destruct (get_face (faces s) (fst h)) as [g|]; [|discriminate].
  exists g. split; [reflexivity|]. apply andb_true_iff in U. destruct U as [_ U].
  change (code_localhost (i_name i)) with (spec_localhost (i_name i)) in U. rewrite L in U.
  destruct (f_local g); [reflexivity|discriminate].
Qed.

(* ... so whenever one exists (and the Interest need not be dropped, is not answered from the cache, not suppressed) the Interest is
   forwarded to a local face *)
Theorem local_exchange_forwarded s now i ch :
  spec_localhost (i_name i) = true ->
  c02_must_drop s i = false -> c02_cached s now i = false -> c02_suppressed s now i = false -> usable_cands s i <> [] ->
  exists o g, In o (r_outs (step s (EInterest now i) ch)) /\ o_kind o = KInterest /\ o_name o = i_name i /\
              get_face (faces s) (o_face o) = Some g /\ f_local g = true.
Proof.
  intros L MD CA SU NE.
  destruct (first_interest_forwarded s now i ch MD CA SU NE) as (u & o & _ & Ho & K & Hf & Hn & _).
  apply in_map_iff in Hf. destruct Hf as (h & E & Hh). unfold usable_cands in Hh. apply filter_In in Hh. destruct Hh as [_ Hu].
  destruct (localhost_usable_local s i h L Hu) as (g & Hg & Hl).
  exists o, g. rewrite <- E. auto.
Qed.
