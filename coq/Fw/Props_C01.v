(* Property C01 — Data is delivered exactly to the faces with a matching pending Interest.
   Only theorem statements closed by `exact`, each followed by Print Assumptions.

   Reading guide.  [run s0 [] 0 h] executes the history h (events with the implementation's oracle choices) on the forwarder
   model from state s0 and, in lock step, maintains the flat pending table of Spec.v from the history alone (spec_step):
   an Interest the forwarder took as pending adds/refreshes the record of its face (downstream token, own lifetime,
   upstream token of its group), a Data arrival removes the records it satisfies (sat_rec: token echo, or name rule when
   the Data carries no token in this forwarder's format), a PIT update removes groups past the largest lifetime recorded
   in them.  [mono 0 h] says time stamps never go back.  The initial state is arbitrary except for an empty PIT. *)
From Coq Require Import List NArith Bool Lia.
From Fw Require Import Model Spec Run Lemmas Inv Refine C01.
Import ListNotations.
Open Scope N_scope.

(* The abstraction relation Inv ties the model's PIT to the pending table after every history: every in-record is a
   possibly-pending record of the table with the same face, group, downstream token (rel_A: in-records ⊆ may), every
   record still inside its own lifetime is an in-record (rel_B: must ⊆ in-records), and entries expire no later than
   their group in the table (rel_C, rel_D). *)
Theorem fw_refines_pending : forall (h : history) s0, pit s0 = [] -> mono 0 h ->
  let '(s, sp, t) := run s0 [] 0 h in Inv t (pit s) sp.
Proof.
  exact (fun h s0 P0 M => run_inv h s0 [] 0 (eq_ind_r (fun p => Inv 0 p []) Inv_init P0) M).
Qed.
Print Assumptions fw_refines_pending.

(* Data arriving after any history is emitted only as copies of itself, each matched injectively by a pending record of
   that face which the Data satisfies, carrying the PIT token that face supplied (a); and every face other than the
   arrival face that holds a satisfied pending Interest still inside its lifetime gets its copy, scope permitting (b). *)
Theorem c01_data_delivery : forall s0 (h : history) now d ch,
  pit s0 = [] -> mono 0 (h ++ [(EData now d, ch)]) ->
  let '(s, sp, _) := run s0 [] 0 h in
  c01_data_only_pending (faces s) (tid s) sp d (r_outs (step s (EData now d) ch)) = true /\
  c01_data_complete (faces s) (tid s) now sp d (r_outs (step s (EData now d) ch)) = true.
Proof. exact data_delivery_history. Qed.
Print Assumptions c01_data_delivery.

(* The pending Interests are consumed: after a Data that was accepted (its face exists, no inbound scope violation), a
   later copy with the same name and token — from any face, at any later time, after any events that are not
   Interests — is delivered to nobody. *)
Theorem c01_repeat_data_silent : forall s0 (h h2 : history) now d ch now' d' ch',
  pit s0 = [] -> mono 0 (h ++ (EData now d, ch) :: h2 ++ [(EData now' d', ch')]) ->
  forallb (fun ec => not_interest (fst ec)) h2 = true ->
  d_name d' = d_name d -> d_tok d' = d_tok d ->
  (let '(s, _, _) := run s0 [] 0 h in data_effective (faces s) d = true) ->
  let '(s2, _, _) := run s0 [] 0 (h ++ (EData now d, ch) :: h2) in
  r_outs (step s2 (EData now' d') ch') = [].
Proof. exact repeat_data_silent. Qed.
Print Assumptions c01_repeat_data_silent.

(* Data served from the cache in answer to an Interest goes to that Interest's face alone, once, with the token of that
   Interest, and its name extends the Interest's name — in every state. *)
Theorem c01_cs_hit_single_face : forall s now i ch, c01_cs_reply_ok i (r_outs (step s (EInterest now i) ch)) = true.
Proof. exact cs_hit_single_face. Qed.
Print Assumptions c01_cs_hit_single_face.

(* non-vacuity: faces 1,2 local consumers, 3 non-local upstream.  /a/b (exact) from face 1 with token [9;9], /a (CanBePrefix) from
   face 2 without token, and /a/b (exact) again from face 2 with token [7]: Data /a/b without token from face 3 matches
   two PIT entries and is sent to face 1 once (token 9,9) and to face 2 twice (no token; token 7) — the pending table
   predicts exactly these three copies; a second copy of the Data is sent to nobody. *)
Example c01_example :
  let fs := [{| f_id := 1; f_local := true; f_link := P2P |}; {| f_id := 2; f_local := true; f_link := P2P |};
             {| f_id := 3; f_local := false; f_link := P2P |}] in
  let s0 := with_fib (with_faces (init [] 6000000000) fs) [([(8, 1)], [(3, 0)])] [] in
  let mk f n cbp tok nonce := {| i_face := f; i_name := n; i_cbp := cbp; i_mbf := false; i_nonce := Some nonce; i_life := None;
                                 i_hop := None; i_hints := []; i_tok := tok; i_nhf := None |} in
  let ch t := {| ch_tok := t; ch_tie := Some 3; ch_cs := None; ch_expired := [] |} in
  let a := [(8, 1)] in let ab := [(8, 1); (8, 2)] in
  let h := [(EInterest 10 (mk 1 ab false [9; 9] 100), ch 50); (EInterest 20 (mk 2 a true [] 101), ch 51);
            (EInterest 30 (mk 2 ab false [7] 102), ch 52)] in
  let d := {| d_face := 3; d_name := ab; d_fresh := None; d_tok := [] |} in
  mono 0 (h ++ [(EData 40 d, ch 0)]) /\
  (let '(s, sp, _) := run s0 [] 0 h in
   length sp = 3%nat /\
   map (fun o => (o_face o, o_tok o)) (r_outs (step s (EData 40 d) (ch 0))) = [(1, [9; 9]); (2, [7]); (2, [])]) /\
  (let '(s2, _, _) := run s0 [] 0 (h ++ [(EData 40 d, ch 0)]) in r_outs (step s2 (EData 50 d) (ch 0)) = []).
Proof.
  cbv zeta. split; [|split].
  - cbn. repeat split; intros ? H; inversion H; subst; discriminate.
  - vm_compute. split; reflexivity.
  - vm_compute. reflexivity.
Qed.

(* ---------------------------------------------------------------------------------------------------------------------
   Several forwarding threads (World.v): each thread has its own PIT; the link service hands an Interest to the thread hashed
   from its name and a Data to the thread named by its 6-byte PIT token or, without one, to the threads hashed from every
   prefix of its name.  h is the (abstract) name-to-thread hash. *)
From Fw Require Import World Dispatch.

(* dispatch_complete: a thread the Data is not handed to holds no pending record the Data satisfies (records of thread k
   are those of Interests whose name hashes to k) *)
Theorem dispatch_complete : forall T (h : thread_fun) d k (sp : pend),
  k < T -> (forall p, In p sp -> h (p_name p) = k) ->
  existsb (N.eqb k) (fst (dispatch_data T h d)) = false ->
  forall p, In p sp -> sat_rec k d p = false.
Proof. exact Dispatch.dispatch_complete. Qed.
Print Assumptions dispatch_complete.

(* after every time-monotone history of the T-thread forwarder every thread satisfies the abstraction relation with its own
   pending table, whose records are exactly of names hashed to that thread *)
Theorem c01_world_refines_pending : forall T (h : thread_fun) (hist : list (wev * choice)) w t,
  WInv T h t w -> wmono t hist -> let '(w', t') := wrun T h w t hist in WInv T h t' w'.
Proof. exact wrun_inv. Qed.
Print Assumptions c01_world_refines_pending.

(* ... and a Data arriving then is delivered, by the threads together, only and completely to the pending Interests it
   satisfies: (a) and (b) hold for every thread's emissions against that thread's table, whether or not the link service
   handed the Data to the thread *)
Theorem c01_world_data_delivery : forall T (h : thread_fun) t (w : list (fw * pend)) now d ch,
  WInv T h t w -> t <= now ->
  forall s sp, In (s, sp) w ->
  let os := snd (pstep T h (WPacket (EData now d)) ch (s, sp)) in
  c01_data_only_pending (faces s) (tid s) sp d os = true /\
  c01_data_complete (faces s) (tid s) now sp d os = true.
Proof. exact world_data_delivery. Qed.
Print Assumptions c01_world_data_delivery.

(* the thread states of this world are those of the extracted World.wstep, and the initial world satisfies the invariant *)
Theorem c01_world_is_wstep : forall T h we ch (w : list (fw * pend)),
  fst (fst (fst (wstep T h (map fst w) we ch))) = map fst (wpstep T h we ch w).
Proof. exact wpstep_wstep. Qed.
Print Assumptions c01_world_is_wstep.

Theorem c01_world_init : forall regs dlife (Tn : nat) h,
  WInv (N.of_nat Tn) h 0 (map (fun s => (s, [])) (winit regs dlife Tn)).
Proof. exact winit_inv. Qed.
Print Assumptions c01_world_init.
