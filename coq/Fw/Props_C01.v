(* Property C01 — placeholder while the proofs are being written (replaced below). *)
From Coq Require Import List NArith Bool.
From Fw Require Import Model Spec Run.
Import ListNotations.
Open Scope N_scope.
Example c01_placeholder : sub_multiset [(1, [])] [(2, [1]); (1, [])] = true.
Proof. vm_compute. reflexivity. Qed.
