(* Fw/Scope.v — face-scope classification (C09): the scope each transport constructor gives its face, as translated from the
   source into GenScope.v, against the specification "a face is local iff its peer is this host": loopback remote address for
   the IP transports, always for the Unix-stream and internal transports, never for multicast UDP and the null transport. *)
From Coq Require Import List NArith Arith Bool Lia.
From Fw Require Import Model Spec Run C09 ScopeDefs GenScope ScopeModel.
Import ListNotations.
Open Scope N_scope.

Lemma scope_table_checked : scope_table_ok = true.
Proof. vm_compute. reflexivity. Qed.

Lemma scope_classification c lb : c < n_ctors -> transport_scope c lb = Some (spec_local c lb).
Proof.
  intros Hc. pose proof scope_table_checked as T. unfold scope_table_ok in T. rewrite forallb_forall in T.
  assert (Hin : In c (map N.of_nat (seq 0 (N.to_nat n_ctors)))).
  { apply in_map_iff. exists (N.to_nat c). split; [apply N2Nat.id|]. apply in_seq. lia. }
  specialize (T c Hin). rewrite forallb_forall in T.
  assert (Hlb : In lb [true; false]) by (destruct lb; cbn; auto).
  specialize (T lb Hlb). destruct (transport_scope c lb) as [b|]; cbn in T; [|discriminate].
  apply Bool.eqb_prop in T. congruence.
Qed.

(* a face to a peer with a non-loopback IP address, built by any of the IP transports, is non-local ... *)
Lemma remote_peer_nonlocal c : c < n_ctors -> ctor_ip c = true -> transport_scope c false = Some false.
Proof. intros Hc Hip. rewrite scope_classification by exact Hc. unfold spec_local. rewrite Hip. reflexivity. Qed.

(* ... hence never gets a /localhost packet, after any history *)
Lemma remote_peer_never_localhost s0 (h : history) pre e r o g c :
  In (pre, e, r) (trace s0 h) -> In o (r_outs r) -> get_face (faces pre) (o_face o) = Some g ->
  c < n_ctors -> ctor_ip c = true -> transport_scope c false = Some (f_local g) ->
  spec_localhost (o_name o) = false.
Proof.
  intros Hin Ho Hg Hc Hip Hs. rewrite (remote_peer_nonlocal c Hc Hip) in Hs. inversion Hs as [E].
  eapply c09_scope_stmt; eauto.
Qed.

(* faces of this host stay local *)
Lemma local_peer_local c : c < n_ctors ->
  (ctor_ip c = true -> transport_scope c true = Some true) /\
  ((c = 3 \/ c = 5) -> forall lb, transport_scope c lb = Some true).
Proof.
  intros Hc. split.
  - intros Hip. rewrite scope_classification by exact Hc. unfold spec_local. rewrite Hip. reflexivity.
  - intros [-> | ->] lb; rewrite scope_classification by (vm_compute; reflexivity); reflexivity.
Qed.
