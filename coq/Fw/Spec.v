(* Fw/Spec.v — decidable property predicates (spec oracles) evaluated on observations of the implementation and on
   the outputs of the model.  No proofs in this file. *)
From Coq Require Import List NArith Arith Bool.
From Base Require Import Bytes.
From Fw Require Import GenConsts Model.
Import ListNotations.
Open Scope N_scope.

(* ---- C09: a packet whose name is under /localhost is never transmitted on a non-local face *)
Definition c09_out_ok (fs : list face) (o : out) : bool :=
  match get_face fs (o_face o) with
  | Some g => f_local g || negb (spec_localhost (o_name o))
  | None => true
  end.
Definition c09_outs_ok (fs : list face) (os : list out) : bool := forallb (c09_out_ok fs) os.

(* an inbound packet that violates the scope: /localhost name from a non-local face — or from a face that is not (or no longer)
   in the face table: nothing says it is local, and the pipelines drop every packet of an unknown face *)
Definition c09_inbound_violation (fs : list face) (f : N) (n : name) : bool :=
  match get_face fs f with
  | Some g => negb (f_local g) && spec_localhost n
  | None => spec_localhost n
  end.

(* ---- C01: Data is delivered exactly to the faces with a matching pending Interest.
   The reference semantics is a flat table of pending Interests maintained from the history alone: the events, plus, for
   each Interest, whether the forwarder took it as pending and under which upstream PIT token (that decision — drop rules,
   cache hit — is property C02's and C07's subject, and the token is the forwarder's visible random choice). *)
Record prec := { p_face : N; p_name : name; p_cbp : bool; p_mbf : bool; p_hint : name;
                 p_utok : N       (* entry token this forwarder attaches upstream for this group *);
                 p_dtok : bytes   (* PIT token the downstream face supplied *);
                 p_exp : N        (* arrival + lifetime of the latest Interest of this face: pending at least until then *);
                 p_expmax : N     (* the largest such value so far *) }.
Definition pend := list prec.

Definition same_group (a b : prec) : bool :=
  name_eqb (p_name a) (p_name b) && Bool.eqb (p_cbp a) (p_cbp b) && Bool.eqb (p_mbf a) (p_mbf b) &&
  name_eqb (p_hint a) (p_hint b) && (p_utok a =? p_utok b).
Definition same_slot (a b : prec) : bool := (p_face a =? p_face b) && same_group a b.

Fixpoint pend_upsert (sp : pend) (r : prec) : pend :=
  match sp with
  | [] => [r]
  | p :: t => if same_slot p r
              then {| p_face := p_face r; p_name := p_name r; p_cbp := p_cbp r; p_mbf := p_mbf r; p_hint := p_hint r;
                      p_utok := p_utok r; p_dtok := p_dtok r; p_exp := p_exp r;
                      p_expmax := N.max (p_expmax p) (p_expmax r) |} :: t
              else p :: pend_upsert t r
  end.

(* an Interest the forwarder took as pending under upstream token utok *)
Definition pend_interest (regs : list name) (sp : pend) (now : N) (i : interest) (utok : N) : pend :=
  let lt := match i_life i with Some l => l | None => default_lifetime_in end in
  pend_upsert sp {| p_face := i_face i; p_name := i_name i; p_cbp := i_cbp i; p_mbf := i_mbf i;
                    p_hint := match select_hint regs (i_hints i) with Some h => h | None => [] end;
                    p_utok := utok; p_dtok := i_tok i; p_exp := now + lt; p_expmax := now + lt |}.

(* the statement's satisfaction rule: the Data echoes the token this forwarder attached (thread id and entry token), or it
   carries no token in this forwarder's format and its name equals the Interest's name or extends it with CanBePrefix *)
Definition sat_rec (tidv : N) (d : data) (p : prec) : bool :=
  match data_token (d_tok d) with
  | Some (th, tk) => (th =? tidv) && (tk =? p_utok p)
  | None => is_prefix (p_name p) (d_name d) && (p_cbp p || (length (p_name p) =? length (d_name d))%nat)
  end.

(* a Data arrival counts if its face exists and it does not violate the /localhost scope inbound (C09) *)
Definition data_effective (fs : list face) (d : data) : bool :=
  match get_face fs (d_face d) with
  | Some g => negb (negb (f_local g) && spec_localhost (d_name d))
  | None => false
  end.

Definition pend_data (fs : list face) (tidv : N) (sp : pend) (d : data) : pend :=
  if data_effective fs d then filter (fun p => negb (sat_rec tidv d p)) sp else sp.

(* the reaper: a group may linger until the first PIT update at or after the largest lifetime recorded in it *)
Definition pend_tick (sp : pend) (now : N) : pend :=
  filter (fun p => existsb (fun q => same_group p q && (now <? p_expmax q)) sp) sp.

Definition pair_eqb (a b : N * bytes) : bool := (fst a =? fst b) && bytes_eqb (snd a) (snd b).
Fixpoint remove_one (x : N * bytes) (l : list (N * bytes)) : option (list (N * bytes)) :=
  match l with
  | [] => None
  | y :: r => if pair_eqb x y then Some r
              else match remove_one x r with Some r' => Some (y :: r') | None => None end
  end.
Fixpoint sub_multiset (xs pool : list (N * bytes)) : bool :=
  match xs with
  | [] => true
  | x :: r => match remove_one x pool with Some pool' => sub_multiset r pool' | None => false end
  end.

Definition deliverable (fs : list face) (n : name) (f : N) : bool :=
  match get_face fs f with
  | Some g => f_local g || negb (spec_localhost n)
  | None => false
  end.

Definition is_data_out (n : name) (o : out) : bool :=
  match o_kind o with KData => name_eqb (o_name o) n | KInterest => false end.

(* (a) every emission is a copy of this Data matched injectively by a pending record of that face which the Data satisfies,
       carrying the token that face supplied;
   (b) every satisfied record still inside its own lifetime, on another face than the arrival face, scope permitting,
       has its emission *)
Definition c01_data_only_pending (fs : list face) (tidv : N) (sp : pend) (d : data) (os : list out) : bool :=
  forallb (is_data_out (d_name d)) os &&
  sub_multiset (map (fun o => (o_face o, o_tok o)) os)
               (if data_effective fs d then map (fun p => (p_face p, p_dtok p)) (filter (sat_rec tidv d) sp) else []).
Definition c01_data_complete (fs : list face) (tidv now : N) (sp : pend) (d : data) (os : list out) : bool :=
  negb (data_effective fs d) ||
  sub_multiset (map (fun p => (p_face p, p_dtok p))
                    (filter (fun p => sat_rec tidv d p && (now <? p_exp p) && negb (p_face p =? d_face d) &&
                                      deliverable fs (d_name d) (p_face p)) sp))
               (map (fun o => (o_face o, o_tok o)) os).

(* (d) a reply from the cache goes to the requesting face alone (with the token of that Interest), at most once *)
Definition c01_cs_reply_ok (i : interest) (os : list out) : bool :=
  let ds := filter (fun o => match o_kind o with KData => true | _ => false end) os in
  match ds with
  | [] => true
  | [o] => (o_face o =? i_face i) && bytes_eqb (o_tok o) (i_tok i) && is_prefix (i_name i) (o_name o)
  | _ => false
  end.

(* ---- C02: Interests go only to FIB next hops, without loops or duplicate forwarding.
   All predicates are over the forwarder state before the Interest arrives (FIB, faces, PIT entry of the Interest's
   aggregation key, dead nonce list) and the Interest itself. *)
Definition lookup_name (regs : list name) (i : interest) : name :=
  match select_hint regs (i_hints i) with Some h => h | None => i_name i end.

(* where the Interest may go: the consumer-chosen next hop, else the next hops of the longest-prefix FIB entry for its
   name or for its forwarding hint outside the producer region *)
Definition c02_candidates (s : fw) (i : interest) : list nexthop :=
  match i_nhf i with
  | Some nh => [(nh, 0)]
  | None => fib_nexthops (fib s) (lookup_name (regions s) i)
  end.

Definition c02_entry (s : fw) (i : interest) : option pite :=
  match find_entry (i_name i) (i_cbp i) (i_mbf i)
                   (match select_hint (regions s) (i_hints i) with Some h => h | None => [] end) (pit s) with
  | Some (_, e, _) => Some e
  | None => None
  end.
Definition c02_ins (s : fw) (i : interest) : list inrec := match c02_entry s i with Some e => pe_ins e | None => [] end.
Definition c02_outs (s : fw) (i : interest) : list outrec := match c02_entry s i with Some e => pe_outs e | None => [] end.

(* not forwarded: unknown arrival face, hop limit zero on arrival, inbound scope violation, no nonce, nonce recorded as
   dead, nonce equal to that of a pending Interest from another face *)
Definition c02_must_drop (s : fw) (i : interest) : bool :=
  match get_face (faces s) (i_face i) with
  | None => true
  | Some inf =>
    match i_hop i with Some 0 => true | _ => false end ||
    (negb (f_local inf) && spec_localhost (i_name i)) ||
    match i_nonce i with
    | None => true
    | Some x => dnl_has (dnl s) (i_name i) x ||
                existsb (fun r => negb (ir_face r =? i_face i) && (ir_nonce r =? x)) (c02_ins s i)
    end
  end.

(* which rule drops it (for the coverage statistics): 0 none, 1 unknown face, 2 hop limit, 3 scope, 4 no nonce, 5 dead nonce, 6 duplicate *)
Definition c02_drop_reason (s : fw) (i : interest) : N :=
  match get_face (faces s) (i_face i) with
  | None => 1
  | Some inf =>
    if match i_hop i with Some 0 => true | _ => false end then 2
    else if negb (f_local inf) && spec_localhost (i_name i) then 3
    else match i_nonce i with
         | None => 4
         | Some x => if dnl_has (dnl s) (i_name i) x then 5
                     else if existsb (fun r => negb (ir_face r =? i_face i) && (ir_nonce r =? x)) (c02_ins s i) then 6 else 0
         end
  end.

(* a usable next hop: the face exists, is not the (non-ad-hoc) arrival face, may carry the hop limit and the scope, and
   is not a downstream of the same pending Interest (consumer-chosen next hops are not subject to the last rule) *)
Definition c02_usable (s : fw) (i : interest) (h : nexthop) : bool :=
  can_send (faces s) (i_face i) (hop_after (i_hop i)) (i_name i) (fst h) &&
  match i_nhf i with
  | Some _ => true
  | None => match get_in (c02_ins s i) (fst h) with None => true | Some _ => fst h =? i_face i end
  end.

(* inside the suppression interval of an upstream record with another nonce *)
Definition c02_suppressed (s : fw) (now : N) (i : interest) : bool :=
  match i_nhf i, i_nonce i with
  | None, Some x => existsb (fun o => negb (or_nonce o =? x) && (now <? or_at o + suppression (strat_of (strat s) (i_name i)))) (c02_outs s i)
  | _, _ => false
  end.

Definition is_interest_out (o : out) : bool := match o_kind o with KInterest => true | KData => false end.
Definition interest_outs (os : list out) : list out := filter is_interest_out os.

(* every forwarded copy: to a candidate next hop, never back to a non-ad-hoc arrival face, same name, hop limit - 1 *)
Definition c02_out_ok (s : fw) (i : interest) (o : out) : bool :=
  existsb (fun h => fst h =? o_face o) (c02_candidates s i) &&
  (negb (o_face o =? i_face i) ||
   match get_face (faces s) (o_face o) with Some g => is_adhoc (f_link g) | None => false end) &&
  name_eqb (o_name o) (i_name i) &&
  match o_hop o, hop_after (i_hop i) with
  | Some a, Some b => a =? b
  | None, None => true
  | _, _ => false
  end.

Definition c02_outs_ok (s : fw) (i : interest) (os : list out) : bool := forallb (c02_out_ok s i) (interest_outs os).

Definition c02_drop_ok (s : fw) (i : interest) (os : list out) : bool :=
  if c02_must_drop s i then match os with [] => true | _ => false end else true.

Definition c02_suppress_ok (s : fw) (now : N) (i : interest) (os : list out) : bool :=
  if c02_suppressed s now i then match interest_outs os with [] => true | _ => false end else true.

(* strategy choice among the usable candidates: best-route sends at most one copy, to a usable next hop of minimal cost;
   multicast sends to every usable next hop (once each) *)
Definition c02_strategy_ok (s : fw) (i : interest) (os : list out) : bool :=
  let usable := filter (c02_usable s i) (c02_candidates s i) in
  let sent := map o_face (interest_outs os) in
  match i_nhf i with
  | Some _ => true
  | None =>
    if strat_of (strat s) (i_name i) =? 1
    then match sent with
         | [] => true   (* nothing sent at all is judged by c02_forward_ok *)
         | _ => forallb (fun h => existsb (N.eqb (fst h)) sent) usable &&
                forallb (fun f => existsb (fun h => fst h =? f) usable) sent
         end
    else match sent with
         | [] => true
         | [f] => existsb (fun h => (fst h =? f) && (snd h =? min_cost usable)) usable
         | _ => false
         end
  end.

(* content in the cache: the cache is serving, the face has no Interest pending in this PIT entry yet (a retransmission
   is not looked up again) and a cached Data matches (name, CanBePrefix, MustBeFresh) *)
Definition c02_cached (s : fw) (now : N) (i : interest) : bool :=
  cs_serve s && match get_in (c02_ins s i) (i_face i) with Some _ => false | None => true end &&
  (if i_cbp i then nonempty (cs_prefix_candidates (cs s) now (i_mbf i) (i_name i))
   else match cs_get (cs s) (i_name i) with Some e => cs_usable now (i_mbf i) e | None => false end).

(* an Interest that is neither dropped, nor for content in the cache, nor suppressed, and has a usable next hop, is forwarded *)
Definition c02_forward_ok (s : fw) (now : N) (i : interest) (os : list out) : bool :=
  let usable := filter (c02_usable s i) (c02_candidates s i) in
  if negb (c02_must_drop s i) && negb (c02_cached s now i) && negb (c02_suppressed s now i) && nonempty usable
  then nonempty (interest_outs os)
  else true.

(* no face gets two copies of one Interest *)
Fixpoint nodupb (l : list N) : bool :=
  match l with [] => true | x :: r => negb (existsb (N.eqb x) r) && nodupb r end.
Definition c02_nodup_ok (os : list out) : bool := nodupb (map o_face (interest_outs os)).
