(* Fw/Spec.v — decidable property predicates (spec oracles) evaluated on observations of the implementation and on
   the outputs of the model.  No proofs in this file. *)
From Coq Require Import List NArith Arith Bool.
From Base Require Import Bytes.
From Fw Require Import Model.
Import ListNotations.
Open Scope N_scope.

(* ---- C09: a packet whose name is under /localhost is never transmitted on a non-local face *)
Definition c09_out_ok (fs : list face) (o : out) : bool :=
  match get_face fs (o_face o) with
  | Some g => f_local g || negb (spec_localhost (o_name o))
  | None => true
  end.
Definition c09_outs_ok (fs : list face) (os : list out) : bool := forallb (c09_out_ok fs) os.

(* an inbound packet that violates the scope: /localhost name from a non-local face *)
Definition c09_inbound_violation (fs : list face) (f : N) (n : name) : bool :=
  match get_face fs f with
  | Some g => negb (f_local g) && spec_localhost n
  | None => false
  end.
