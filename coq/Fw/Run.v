(* Fw/Run.v — histories: a history is a list of events, each with the oracle choice observed for it. No proofs. *)
From Coq Require Import List NArith Bool.
From Fw Require Import Model.
Import ListNotations.

Definition history := list (ev * choice).

(* every step of a history with the state it started from *)
Fixpoint trace (s : fw) (h : history) : list (fw * ev * result) :=
  match h with
  | [] => []
  | (e, c) :: r => let x := step s e c in (s, e, x) :: trace (r_st x) r
  end.

Definition final (s : fw) (h : history) : fw := fold_left (fun s ec => r_st (step s (fst ec) (snd ec))) h s.

Definition ev_time (e : ev) : option N :=
  match e with
  | EInterest now _ | EData now _ | ETick now | ESweep now => Some now
  | _ => None
  end.
