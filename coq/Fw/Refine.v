(* Fw/Refine.v — every step of the forwarder model preserves the abstraction relation with the pending table
   (fw_refines_pending). *)
From Coq Require Import List NArith Arith Bool Lia Permutation.
From Base Require Import Bytes.
From Fw Require Import Model Spec Run Lemmas Inv.
Import ListNotations.
Open Scope N_scope.

(* the pending table follows the history: Interests the forwarder took as pending, Data arrivals, PIT updates *)
Definition spec_step (pre : fw) (sp : pend) (e : ev) (r : result) : pend :=
  match e with
  | EInterest now i => match r_disp r with Pending u => pend_interest (regions pre) sp now i u | _ => sp end
  | EData now d => pend_data (faces pre) (tid pre) sp d
  | ETick now => pend_tick sp now
  | _ => sp
  end.

Definition new_time (t : N) (e : ev) : N := match ev_time e with Some now => now | None => t end.

(* model state and pending table after a history *)
Fixpoint run (s : fw) (sp : pend) (t : N) (h : history) : fw * pend * N :=
  match h with
  | [] => (s, sp, t)
  | (e, c) :: r => let x := step s e c in run (r_st x) (spec_step s sp e x) (new_time t e) r
  end.

(* time stamps of a history never go back *)
Fixpoint mono (t : N) (h : history) : Prop :=
  match h with
  | [] => True
  | (e, _) :: r => (forall now, ev_time e = Some now -> t <= now) /\ mono (new_time t e) r
  end.

(* ---------------------------------------------------------------- RemoveInterest *)
Lemma take_last_same_perm n l : forall z r, take_last_same n l = Some (z, r) -> Permutation l (z :: r).
Proof.
  induction l as [|x t IH]; intros z r; cbn; [discriminate|].
  destruct (take_last_same n t) as [[z' r']|].
  - intros H; inversion H; subst. specialize (IH z r' eq_refl).
    eapply perm_trans; [apply perm_skip, IH|apply perm_swap].
  - destruct (name_eqb (pe_name x) n); [|discriminate]. intros H; inversion H; subst. apply Permutation_refl.
Qed.

Lemma swap_remove_perm t l e : get_tok t l = Some e -> Permutation l (e :: swap_remove t l).
Proof.
  induction l as [|x r IH]; cbn; [discriminate|].
  destruct (pe_tok x =? t).
  - intros H; inversion H; subst. apply perm_skip.
    destruct (take_last_same (pe_name e) r) as [[z r']|] eqn:T; [apply take_last_same_perm in T; exact T|apply Permutation_refl].
  - intros H. specialize (IH H). eapply perm_trans; [apply perm_skip, IH|apply perm_swap].
Qed.

Lemma get_tok_in t l e : get_tok t l = Some e -> In e l.
Proof.
  induction l as [|x r IH]; cbn; [discriminate|].
  destruct (pe_tok x =? t); [intros H; inversion H; auto|auto].
Qed.

Lemma get_tok_tok t l e : get_tok t l = Some e -> pe_tok e = t.
Proof.
  induction l as [|x r IH]; cbn; [discriminate|].
  destruct (pe_tok x =? t) eqn:E; [intros H; inversion H; subst; apply N.eqb_eq, E|auto].
Qed.

(* what a sequence of pops leaves: a duplicate-free part of the PIT that still has every entry that is not due *)
Definition kept (now : N) (pt cur : list pite) : Prop :=
  incl cur pt /\ (forall x, In x pt -> due now x = false -> In x cur) /\
  NoDup (map key cur) /\ NoDup (map pe_tok cur).

Lemma kept_pop now pt cur t e : kept now pt cur -> get_tok t cur = Some e -> due now e = true -> kept now pt (swap_remove t cur).
Proof.
  intros (I & K & N1 & N2) G Dd. pose proof (swap_remove_perm t cur e G) as P.
  split; [|split; [|split]].
  - intros x Hx. apply I. eapply Permutation_in; [apply Permutation_sym, P|right; exact Hx].
  - intros x Hx Hd. pose proof (K x Hx Hd) as Hc.
    apply (Permutation_in _ P) in Hc. destruct Hc as [E|Hc]; [subst x; congruence|exact Hc].
  - apply (Permutation_map key) in P. apply (Permutation_NoDup P) in N1. cbn in N1. inversion N1; assumption.
  - apply (Permutation_map pe_tok) in P. apply (Permutation_NoDup P) in N2. cbn in N2. inversion N2; assumption.
Qed.

Lemma pop_chosen_kept life now pt toks : forall pd ok,
  kept now pt (fst pd) -> kept now pt (fst (fst (pop_chosen life now toks pd ok))).
Proof.
  induction toks as [|t r IH]; intros pd ok K; cbn; [exact K|].
  destruct (get_tok t (fst pd)) as [e|] eqn:G; [|apply IH; exact K].
  destruct (due now e) eqn:Dd; [|apply IH; exact K].
  apply IH. unfold expire_one; cbn [fst]. rewrite (get_tok_tok _ _ _ G). eapply kept_pop; eassumption.
Qed.

(* ---------------------------------------------------------------- which entries a Data matches *)
Definition data_pred (dn : name) (t : option N) (e : pite) : bool :=
  match t with
  | Some tk => pe_tok e =? tk
  | None => is_prefix (pe_name e) dn && (pe_cbp e || (length (pe_name e) =? length dn)%nat)
  end.

Lemma name_rule_iff e dn : (exists k, In k (rev (seq 0 (S (length dn)))) /\ name_rule e dn k = true) <->
  is_prefix (pe_name e) dn && (pe_cbp e || (length (pe_name e) =? length dn)%nat) = true.
Proof.
  unfold name_rule. split.
  - intros (k & Hk & H). rewrite <- in_rev in Hk. apply in_seq in Hk. apply andb_true_iff in H. destruct H as [H1 H2].
    apply name_eqb_spec in H1.
    assert (L : length (pe_name e) = k) by (rewrite H1; apply firstn_length_le; lia).
    apply andb_true_iff. split.
    + apply is_prefix_firstn. rewrite L. exact H1.
    + rewrite L. exact H2.
  - intros H. apply andb_true_iff in H. destruct H as [H1 H2].
    exists (length (pe_name e)). split.
    + rewrite <- in_rev. apply in_seq. pose proof (is_prefix_length _ _ H1). lia.
    + apply andb_true_iff. split; [apply name_eqb_spec, is_prefix_firstn, H1|exact H2].
Qed.

Lemma data_matches_in p dn t e : In e (data_matches p dn t) <-> In e p /\ data_pred dn t e = true.
Proof.
  unfold data_matches, data_pred. destruct t as [tk|].
  - apply filter_In.
  - unfold match_by_name. rewrite in_flat_map. rewrite <- name_rule_iff. split.
    + intros (k & Hk & H). apply filter_In in H. destruct H as [H1 H2]. split; [exact H1|eauto].
    + intros (H1 & k & Hk & H2). exists k. split; [exact Hk|apply filter_In; auto].
Qed.

Lemma is_matched_iff p dn t e : NoDup (map pe_tok p) -> In e p ->
  is_matched (data_matches p dn t) e = data_pred dn t e.
Proof.
  intros ND He. unfold is_matched.
  destruct (data_pred dn t e) eqn:P.
  - apply existsb_exists. exists e. split; [apply data_matches_in; auto|apply N.eqb_refl].
  - destruct (existsb _ _) eqn:E; [|reflexivity].
    apply existsb_exists in E. destruct E as (m & Hm & Et). apply N.eqb_eq in Et.
    apply data_matches_in in Hm. destruct Hm as [Hm Pm].
    assert (m = e) by (apply (NoDup_map_inj_in pe_tok p); auto). subst. congruence.
Qed.

(* ---------------------------------------------------------------- projections *)
Lemma cs_insert_pit s now n fr : pit (cs_insert s now n fr) = pit s.
Proof.
  unfold cs_insert. destruct (cs_get (cs s) n); [reflexivity|].
  destruct (cs_evict _ _ _ _); reflexivity.
Qed.

Lemma pkey_key_inv p e : pkey p = key e -> p_name p = pe_name e /\ p_cbp p = pe_cbp e /\ p_mbf p = pe_mbf e /\ p_hint p = pe_hint e.
Proof. unfold pkey, key. intros E. injection E as E1 E2 E3 E4. auto. Qed.

Lemma filter_all {A} (f : A -> bool) l : (forall x, In x l -> f x = true) -> filter f l = l.
Proof.
  induction l as [|a l IH]; cbn; [reflexivity|]. intros H.
  rewrite (H a (or_introl eq_refl)). f_equal. apply IH. intros x Hx. apply H. right; exact Hx.
Qed.

Lemma map_id_in {A} (g : A -> A) l : (forall x, In x l -> g x = x) -> map g l = l.
Proof.
  induction l as [|a l IH]; cbn; [reflexivity|]. intros H.
  rewrite (H a (or_introl eq_refl)). f_equal. apply IH. intros x Hx. apply H. right; exact Hx.
Qed.

(* ---------------------------------------------------------------- Data *)
Lemma step_data_thread_pit s now d t :
  pit (r_st (step_data_thread s now d t)) =
  if data_effective (faces s) d
  then map (fun e => if is_matched (data_matches (pit s) (d_name d) t) e then satisfy now e else e) (pit s)
  else pit s.
Proof.
  unfold step_data_thread, data_effective.
  destruct (get_face (faces s) (d_face d)) as [inf|]; [|reflexivity].
  change (code_localhost (d_name d)) with (spec_localhost (d_name d)).
  destruct (negb (f_local inf) && spec_localhost (d_name d)); [reflexivity|]. cbn [negb]. cbv zeta.
  remember (if cs_admit s then cs_insert s now (d_name d) (d_fresh d) else s) as s1 eqn:Es1.
  assert (P1 : pit s1 = pit s) by (rewrite Es1; destruct (cs_admit s); [apply cs_insert_pit|reflexivity]).
  clear Es1. rewrite P1.
  destruct (data_matches (pit s) (d_name d) t) as [|m0 rest] eqn:MS.
  - cbn. rewrite P1. symmetry. apply map_id_in. intros x _. reflexivity.
  - cbn. reflexivity.
Qed.

Lemma sat_rec_matched s d t e p th :
  NoDup (map pe_tok (pit s)) -> In e (pit s) -> in_group e p ->
  (match t with
   | Some tk => data_token (d_tok d) = Some (th, tk) /\ th = tid s
   | None => data_token (d_tok d) = None
   end) ->
  sat_rec (tid s) d p = is_matched (data_matches (pit s) (d_name d) t) e.
Proof.
  intros ND He [G1 G2] HT. rewrite (is_matched_iff _ _ _ _ ND He).
  unfold sat_rec, data_pred. destruct (pkey_key_inv p e G1) as (E1 & E2 & _ & _).
  destruct t as [tk|].
  - destruct HT as [-> ->]. rewrite N.eqb_refl. cbn. rewrite G2. apply N.eqb_sym.
  - rewrite HT, E1, E2. reflexivity.
Qed.

Lemma step_data_inv t s sp now d ch :
  Inv t (pit s) sp -> t <= now ->
  Inv now (pit (r_st (step s (EData now d) ch))) (pend_data (faces s) (tid s) sp d).
Proof.
  intros I Ht. cbn [step]. unfold step_data, pend_data.
  assert (ND : NoDup (map pe_tok (pit s))) by (destruct I as ([_ K2 _ _ _] & _); exact K2).
  assert (THREAD : forall topt th,
            (match topt with
             | Some tk => data_token (d_tok d) = Some (th, tk) /\ th = tid s
             | None => data_token (d_tok d) = None
             end) ->
            Inv now (pit (r_st (step_data_thread s now d topt)))
                (if data_effective (faces s) d then filter (fun p => negb (sat_rec (tid s) d p)) sp else sp)).
  { intros topt th HT. rewrite step_data_thread_pit.
    destruct (data_effective (faces s) d); [|eapply Inv_mono; eassumption].
    apply (Inv_satisfy t now (pit s) sp (is_matched (data_matches (pit s) (d_name d) topt)) (sat_rec (tid s) d) I Ht).
    intros e p He Hp Hg. eapply sat_rec_matched; eassumption. }
  destruct (data_token (d_tok d)) as [[th tk]|] eqn:DT.
  - destruct (th =? tid s) eqn:E.
    + apply N.eqb_eq in E. apply (THREAD (Some tk) th). split; [subst; reflexivity|exact E].
    + assert (NS : forall p, In p sp -> negb (sat_rec (tid s) d p) = true).
      { intros p _. unfold sat_rec. rewrite DT, E. reflexivity. }
      cbn [r_st res]. destruct (data_effective (faces s) d); [rewrite (filter_all _ _ NS)|]; eapply Inv_mono; eassumption.
  - apply (THREAD None 0). reflexivity.
Qed.

(* ---------------------------------------------------------------- PIT update *)
Lemma step_tick_inv t s sp now ch :
  Inv t (pit s) sp -> t <= now -> Inv now (pit (r_st (step s (ETick now) ch))) (pend_tick sp now).
Proof.
  intros I Ht. cbn [step]. unfold step_tick.
  assert (K0 : kept now (pit s) (fst (pit s, dnl s))).
  { destruct I as ([K1 K2 _ _ _] & _). split; [apply incl_refl|]. split; [auto|]. split; assumption. }
  pose proof (pop_chosen_kept (dnl_life s) now (pit s) (ch_expired ch) (pit s, dnl s) true K0) as K.
  destruct (pop_chosen (dnl_life s) now (ch_expired ch) (pit s, dnl s) true) as [pd ok]. cbn [fst] in K.
  cbn [r_st res pit with_dnl with_pit].
  destruct K as (KI & KK & N1 & N2).
  apply (Inv_reap t now (pit s)); auto.
  - intros x Hx. apply filter_In in Hx. apply KI, Hx.
  - intros x Hx. apply filter_In in Hx. destruct Hx as [_ H]. destruct (due now x); [discriminate|reflexivity].
  - intros x Hx Hd. apply filter_In. split; [apply KK; assumption|rewrite Hd; reflexivity].
  - apply NoDup_map_filter, N1.
  - apply NoDup_map_filter, N2.
Qed.

(* ---------------------------------------------------------------- Interest *)
Lemma insert_inrec_shape now f nonce life tok e0 e1 pending prev :
  insert_inrec now f nonce life tok e0 = (e1, pending, prev) -> exists l, e1 = set_ins e0 l.
Proof.
  unfold insert_inrec. destruct (get_in (pe_ins e0) f); intros H; inversion H; eauto.
Qed.

Lemma set_ins_set_ins e l l' : set_ins (set_ins e l) l' = set_ins e l'.
Proof. reflexivity. Qed.

Lemma step_interest_inv t s sp now i ch :
  Inv t (pit s) sp -> t <= now ->
  Inv now (pit (r_st (step s (EInterest now i) ch))) (spec_step s sp (EInterest now i) (step s (EInterest now i) ch)).
Proof.
  intros I Ht. cbn [step spec_step]. unfold step_interest.
  assert (I0 : Inv now (pit s) sp) by (eapply Inv_mono; eassumption).
  destruct (get_face (faces s) (i_face i)) as [inf|]; [|exact I0].
  destruct (match i_hop i with Some 0 => true | _ => false end); [exact I0|].
  destruct (negb (f_local inf) && code_localhost (i_name i)); [exact I0|].
  destruct (i_nonce i) as [nonce|]; [|exact I0].
  destruct (dnl_has (dnl s) (i_name i) nonce); [exact I0|].
  set (hk := match select_hint (regions s) (i_hints i) with Some h => h | None => [] end).
  destruct (insert_interest (pit s) (i_name i) (i_cbp i) (i_mbf i) hk (ch_tok ch)) as [[[pre e0] post] tok_ok] eqn:II.
  destruct (insert_interest_cases _ _ _ _ _ _ _ _ _ _ II) as [Hk Hc].
  assert (I1 : Inv t (pre ++ e0 :: post) sp).
  { destruct Hc as [<-|(-> & -> & H1 & H2 & H3 & H4 & H5)]; [exact I|]. apply Inv_add_empty; assumption. }
  clear Hc II.
  destruct (is_dup (i_face i) nonce e0); [cbn; eapply Inv_mono; eassumption|].
  destruct (insert_inrec now (i_face i) nonce (i_life i) (i_tok i) e0) as [[e1 pending] prev] eqn:IR.
  destruct (cs_stage s now i inf pending ch) as [[hit lru'] cs_ok] eqn:CS.
  destruct hit as [c|].
  - (* answered from the cache: the new in-record is consumed again and the entry re-queued *)
    destruct pending; [unfold cs_stage in CS; cbn in CS; inversion CS|].
    destruct I1 as (W1 & R1). pose proof (wf_faces _ W1 e0 (proj2 (in_mid e0 e0 pre post) (or_intror (or_introl eq_refl)))) as NDf.
    destruct (insert_inrec_spec _ _ _ _ _ _ _ _ _ IR NDf) as (_ & _ & _ & _ & _ & _ & _ & _ & Hnew).
    destruct (Hnew eq_refl) as [Hnot Hins].
    destruct (insert_inrec_shape _ _ _ _ _ _ _ _ _ IR) as [l ->].
    cbn [r_st res pit with_cs with_pit r_disp].
    cbn [pe_ins set_ins] in Hins. rewrite set_ins_set_ins. cbn [pe_ins set_ins]. rewrite Hins.
    rewrite del_in_app_new by (auto). rewrite set_ins_id.
    apply Inv_requeue with (t := t); [split; assumption|exact Ht].
  - destruct (i_nhf i) as [nh|].
    + pose proof (send_all_ext (faces s) (tid s) now (i_face i) nonce (i_life i) (i_name i) (hop_after (i_hop i)) [(nh, 0)] (upd_expiry now e1)) as EXT.
      destruct (send_all (faces s) (tid s) now (i_face i) nonce (i_life i) (i_name i) (hop_after (i_hop i)) [(nh, 0)] (upd_expiry now e1)) as [e3 os].
      cbn [fst] in EXT. cbn [r_st res pit with_dnl with_pit r_disp].
      assert (Et : pe_tok e3 = pe_tok e0).
      { destruct EXT as (_ & _ & E & _). rewrite E. cbn. destruct (insert_inrec_shape _ _ _ _ _ _ _ _ _ IR) as [l ->]. reflexivity. }
      rewrite Et. unfold pend_interest. fold hk.
      exact (Inv_pending t now pre e0 post sp (i_face i) nonce (i_life i) (i_tok i) e1 pending prev e3
               (i_name i) (i_cbp i) (i_mbf i) hk I1 Ht IR EXT Hk).
    + pose proof (strategy_interest_ext (strat_of (strat s) (i_name i)) (faces s) (tid s) now (i_face i) nonce (i_life i) (i_name i)
                    (hop_after (i_hop i))
                    (allowed_nexthops (fib s) (match select_hint (regions s) (i_hints i) with Some h => h | None => i_name i end) (i_face i) (upd_expiry now e1))
                    (ch_tie ch) (upd_expiry now e1)) as EXT.
      destruct (strategy_interest (strat_of (strat s) (i_name i)) (faces s) (tid s) now (i_face i) nonce (i_life i) (i_name i)
                    (hop_after (i_hop i))
                    (allowed_nexthops (fib s) (match select_hint (regions s) (i_hints i) with Some h => h | None => i_name i end) (i_face i) (upd_expiry now e1))
                    (ch_tie ch) (upd_expiry now e1)) as [[e3 os] tie_ok].
      cbn [fst] in EXT. cbn [r_st res pit with_dnl with_pit r_disp].
      assert (Et : pe_tok e3 = pe_tok e0).
      { destruct EXT as (_ & _ & E & _). rewrite E. cbn. destruct (insert_inrec_shape _ _ _ _ _ _ _ _ _ IR) as [l ->]. reflexivity. }
      rewrite Et. unfold pend_interest. fold hk.
      exact (Inv_pending t now pre e0 post sp (i_face i) nonce (i_life i) (i_tok i) e1 pending prev e3
               (i_name i) (i_cbp i) (i_mbf i) hk I1 Ht IR EXT Hk).
Qed.

(* ---------------------------------------------------------------- every step, every history *)
Lemma step_other_pit s e ch :
  match e with EInterest _ _ | EData _ _ | ETick _ => True | _ => pit (r_st (step s e ch)) = pit s end.
Proof. destruct e; cbn; auto. destruct n; reflexivity. Qed.

Theorem step_inv t s sp e ch :
  Inv t (pit s) sp -> (forall now, ev_time e = Some now -> t <= now) ->
  Inv (new_time t e) (pit (r_st (step s e ch))) (spec_step s sp e (step s e ch)).
Proof.
  intros I Ht. pose proof (step_other_pit s e ch) as OP.
  destruct e; unfold new_time; cbn [ev_time] in *;
    try (cbn [spec_step]; rewrite OP; first [exact I | eapply Inv_mono; [apply Ht; reflexivity|exact I]]).
  - apply step_interest_inv with (t := t); [exact I|apply Ht; reflexivity].
  - apply step_data_inv with (t := t); [exact I|apply Ht; reflexivity].
  - apply step_tick_inv with (t := t); [exact I|apply Ht; reflexivity].
Qed.

Lemma Inv_init : Inv 0 [] [].
Proof.
  split; [|split].
  - split; cbn; try constructor; intros; contradiction.
  - split; cbn; [constructor|intros; contradiction].
  - split; cbn; intros; contradiction.
Qed.

Theorem run_inv (h : history) : forall s sp t,
  Inv t (pit s) sp -> mono t h ->
  let '(s', sp', t') := run s sp t h in Inv t' (pit s') sp'.
Proof.
  induction h as [|[e c] r IH]; intros s sp t I M; cbn; [exact I|].
  destruct M as [M1 M2]. apply IH; [apply step_inv; assumption|exact M2].
Qed.
