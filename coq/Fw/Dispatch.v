(* Fw/Dispatch.v — several forwarding threads: the link-service dispatch reaches every thread that can hold a PIT entry the
   Data satisfies (dispatch_complete), so the per-thread refinement and delivery theorems compose to the whole forwarder. *)
From Coq Require Import List NArith Arith Bool Lia Permutation.
From Base Require Import Bytes.
From Fw Require Import Model Spec Run Lemmas Inv Refine C01 World.
Import ListNotations.
Open Scope N_scope.

(* one thread with its pending table *)
Definition pstep (T : N) (h : thread_fun) (we : wev) (ch : choice) (x : fw * pend) : (fw * pend) * list out :=
  let '(s, sp) := x in
  if selected T h we (tid s)
  then let r := step s (wev_ev we) ch in ((r_st r, spec_step s sp (wev_ev we) r), r_outs r)
  else match we with
       | WPacket (EData now d) => ((s, pend_data (faces s) (tid s) sp d), [])   (* the Data arrived at the forwarder all the same *)
       | _ => ((s, sp), [])
       end.

Definition thread_ok (T : N) (h : thread_fun) (t : N) (x : fw * pend) : Prop :=
  let '(s, sp) := x in
  tid s < T /\ Inv t (pit s) sp /\ forall p, In p sp -> h (p_name p) = tid s.

Definition WInv (T : N) (h : thread_fun) (t : N) (w : list (fw * pend)) : Prop := Forall (thread_ok T h t) w.

(* ---------------------------------------------------------------- dispatch completeness *)
Lemma in_nodup_n x l : In x (nodup_n l) <-> In x l.
Proof.
  induction l as [|y r IH]; cbn; [tauto|].
  destruct (existsb (N.eqb y) r) eqn:E.
  - rewrite IH. split; [auto|]. intros [<-|H]; [|exact H].
    apply existsb_exists in E. destruct E as (z & Hz & Ez). apply N.eqb_eq in Ez. subst; exact Hz.
  - cbn. rewrite IH. tauto.
Qed.

Lemma prefix_threads_in h n j : (j <= length n)%nat -> In (h (firstn j n)) (prefix_threads h n).
Proof.
  intros Hj. unfold prefix_threads. apply in_nodup_n. apply in_map_iff. exists j. split; [reflexivity|].
  apply in_seq. lia.
Qed.

(* a thread the Data is not handed to holds no pending record the Data satisfies *)
Theorem dispatch_complete T h d k (sp : pend) :
  k < T -> (forall p, In p sp -> h (p_name p) = k) ->
  existsb (N.eqb k) (fst (dispatch_data T h d)) = false ->
  forall p, In p sp -> sat_rec k d p = false.
Proof.
  intros HT HH NS p Hp. unfold sat_rec, dispatch_data in *.
  destruct (data_token (d_tok d)) as [[th tk]|].
  - destruct (th =? k) eqn:E; [|reflexivity]. apply N.eqb_eq in E. subst th. exfalso.
    assert (E2 : (k <? T) = true) by (apply N.ltb_lt; exact HT). rewrite E2 in NS. cbn in NS. rewrite N.eqb_refl in NS. discriminate.
  - cbn [fst] in NS. destruct (is_prefix (p_name p) (d_name d)) eqn:P; [|reflexivity]. exfalso.
    pose proof (proj1 (is_prefix_firstn _ _) P) as E. pose proof (is_prefix_length _ _ P) as L.
    assert (In k (prefix_threads h (d_name d))).
    { rewrite <- (HH p Hp), E. apply prefix_threads_in, L. }
    assert (existsb (N.eqb k) (prefix_threads h (d_name d)) = true) by (apply existsb_exists; exists k; split; [assumption|apply N.eqb_refl]).
    congruence.
Qed.

Definition wtime (t : N) (we : wev) : N := new_time t (wev_ev we).

Lemma filter_all_false_own {A} (f : A -> bool) l : (forall x, In x l -> f x = false) -> filter f l = [].
Proof.
  induction l as [|a l IH]; cbn; [reflexivity|]. intros H. rewrite (H a (or_introl eq_refl)). apply IH.
  intros x Hx. apply H. right; exact Hx.
Qed.

(* ---------------------------------------------------------------- the invariant is preserved by every world event *)
Lemma upsert_names sp r : forall p, In p (pend_upsert sp r) -> In p sp \/ p_name p = p_name r.
Proof.
  intros p Hp. destruct (upsert_cases sp r p Hp) as [H|(H & _)]; [left; exact H|right].
  apply slot_eq_inv in H. destruct H as (_ & H & _). unfold pkey in H. injection H as H _ _ _. exact H.
Qed.

Lemma spec_step_names (h : thread_fun) s sp e r (k : N) :
  (forall p, In p sp -> h (p_name p) = k) ->
  (forall now i, e = EInterest now i -> h (i_name i) = k) ->
  forall p, In p (spec_step s sp e r) -> h (p_name p) = k.
Proof.
  intros HH HI p Hp. destruct e; cbn in Hp; try (apply HH; exact Hp).
  - destruct (r_disp r); try (apply HH; exact Hp).
    unfold pend_interest in Hp. destruct (upsert_names _ _ _ Hp) as [H|H]; [apply HH, H|].
    rewrite H. cbn. apply (HI now i eq_refl).
  - unfold pend_data in Hp. destruct (data_effective (faces s) d); [apply filter_In in Hp; apply HH, Hp|apply HH, Hp].
  - unfold pend_tick in Hp. apply filter_In in Hp. apply HH, Hp.
Qed.

Lemma selected_interest T h we k now i :
  selected T h we k = true -> wev_ev we = EInterest now i -> k = h (i_name i).
Proof.
  destruct we as [e|j e|e]; cbn; intros S E; subst; cbn in S; try discriminate.
  apply N.eqb_eq, S.
Qed.

Lemma unselected_unchanged T h we ch s sp :
  selected T h we (tid s) = false ->
  (forall now d, we <> WPacket (EData now d)) ->
  pstep T h we ch (s, sp) = ((s, sp), []).
Proof.
  intros S ND. unfold pstep. rewrite S. destruct we as [e|j e|e]; try reflexivity.
  destruct e; try reflexivity. exfalso. eapply ND. reflexivity.
Qed.

Theorem pstep_ok T h t we ch x :
  thread_ok T h t x -> (forall now, ev_time (wev_ev we) = Some now -> t <= now) ->
  thread_ok T h (wtime t we) (fst (pstep T h we ch x)).
Proof.
  destruct x as [s sp]. intros (HT & I & HH) Ht. unfold pstep, wtime.
  destruct (selected T h we (tid s)) eqn:SEL.
  - cbn [fst]. split; [rewrite step_tid; exact HT|]. split; [apply step_inv; assumption|].
    rewrite step_tid. apply spec_step_names; [exact HH|].
    intros now i E. symmetry. eapply selected_interest; eassumption.
  - assert (MONO : thread_ok T h (new_time t (wev_ev we)) (s, sp)).
    { split; [exact HT|]. split; [|exact HH]. unfold new_time.
      destruct (ev_time (wev_ev we)) as [now|] eqn:E; [eapply Inv_mono; [apply Ht; reflexivity|exact I]|exact I]. }
    destruct we as [e|j e|e]; try exact MONO. destruct e; try exact MONO.
    (* a Data the link service does not hand to this thread satisfies none of its pending records *)
    cbn [fst]. cbn in SEL.
    assert (NS : forall p, In p sp -> sat_rec (tid s) d p = false) by (apply (dispatch_complete T h d (tid s) sp HT HH SEL)).
    assert (E : pend_data (faces s) (tid s) sp d = sp).
    { unfold pend_data. destruct (data_effective (faces s) d); [|reflexivity]. apply filter_all. intros p Hp. rewrite (NS p Hp). reflexivity. }
    rewrite E. exact MONO.
Qed.

(* ---------------------------------------------------------------- the whole forwarder *)
Definition wpstep (T : N) (h : thread_fun) (we : wev) (ch : choice) (w : list (fw * pend)) : list (fw * pend) :=
  map (fun x => fst (pstep T h we ch x)) w.

Fixpoint wrun (T : N) (h : thread_fun) (w : list (fw * pend)) (t : N) (hist : list (wev * choice)) : list (fw * pend) * N :=
  match hist with
  | [] => (w, t)
  | (we, ch) :: r => wrun T h (wpstep T h we ch w) (wtime t we) r
  end.

Fixpoint wmono (t : N) (hist : list (wev * choice)) : Prop :=
  match hist with
  | [] => True
  | (we, _) :: r => (forall now, ev_time (wev_ev we) = Some now -> t <= now) /\ wmono (wtime t we) r
  end.

Theorem wrun_inv T h (hist : list (wev * choice)) : forall w t,
  WInv T h t w -> wmono t hist -> let '(w', t') := wrun T h w t hist in WInv T h t' w'.
Proof.
  induction hist as [|[we ch] r IH]; intros w t W M; cbn; [exact W|].
  destruct M as [M1 M2]. apply IH; [|exact M2].
  unfold WInv, wpstep in *. apply Forall_forall. intros y Hy. apply in_map_iff in Hy. destruct Hy as (x & <- & Hx).
  rewrite Forall_forall in W. apply pstep_ok; [apply W, Hx|exact M1].
Qed.

(* the threads of the model world are those of World.wstep: projecting the tables away gives the extracted step *)
Lemma wpstep_wstep T h we ch (w : list (fw * pend)) :
  fst (fst (fst (wstep T h (map fst w) we ch))) = map fst (wpstep T h we ch w).
Proof.
  unfold wstep, wpstep.
  assert (G : forall w, fst (fst (fst (step_threads (map fst w) (selected T h we) (wev_ev we) ch))) =
                        map fst (map (fun x => fst (pstep T h we ch x)) w)).
  { induction w0 as [|[s sp] r IH]; cbn; [reflexivity|].
    destruct (step_threads (map fst r) (selected T h we) (wev_ev we) ch) as [[[r' os] ok] pn] eqn:E. cbn in IH.
    unfold pstep at 1. destruct (selected T h we (tid s)); cbn; [f_equal; exact IH|].
    destruct we as [e|j e|e]; try (cbn; f_equal; exact IH). destruct e; cbn; f_equal; exact IH. }
  specialize (G w). destruct (step_threads (map fst w) (selected T h we) (wev_ev we) ch) as [[[ws' os] ok] pn]. exact G.
Qed.

(* Data arriving at the forwarder: every thread — handed the Data or not — emits only to matching pending Interests of its own
   table, and no live pending Interest the Data satisfies is left without its copy in any thread *)
Theorem world_data_delivery T h t (w : list (fw * pend)) now d ch :
  WInv T h t w -> t <= now ->
  forall s sp, In (s, sp) w ->
  let os := snd (pstep T h (WPacket (EData now d)) ch (s, sp)) in
  c01_data_only_pending (faces s) (tid s) sp d os = true /\
  c01_data_complete (faces s) (tid s) now sp d os = true.
Proof.
  intros W Ht s sp Hin. unfold WInv in W. rewrite Forall_forall in W. destruct (W _ Hin) as (HT & I & HH).
  unfold pstep. destruct (selected T h (WPacket (EData now d)) (tid s)) eqn:SEL.
  - cbn [snd wev_ev]. apply (data_delivery t); assumption.
  - cbn [snd]. cbn in SEL.
    assert (NS : forall p, In p sp -> sat_rec (tid s) d p = false) by (apply (dispatch_complete T h d (tid s) sp HT HH SEL)).
    split; [unfold c01_data_only_pending; reflexivity|].
    unfold c01_data_complete. destruct (data_effective (faces s) d); [|reflexivity]. cbn [negb orb].
    assert (F : filter (fun p => sat_rec (tid s) d p && (now <? p_exp p) && negb (p_face p =? d_face d) &&
                                 deliverable (faces s) (d_name d) (p_face p)) sp = []).
    { apply filter_all_false_own. intros p Hp. rewrite (NS p Hp). reflexivity. }
    rewrite F. reflexivity.
Qed.

(* the initial world: T threads with ids 0..T-1, empty tables *)
Lemma winit_inv regs dlife (Tn : nat) h :
  WInv (N.of_nat Tn) h 0 (map (fun s => (s, [])) (winit regs dlife Tn)).
Proof.
  unfold WInv, winit. apply Forall_forall. intros x Hx. apply in_map_iff in Hx. destruct Hx as (s & <- & Hs).
  apply in_map_iff in Hs. destruct Hs as (k & <- & Hk). apply in_seq in Hk.
  cbn. split; [lia|]. split; [apply Inv_init|intros p []].
Qed.
