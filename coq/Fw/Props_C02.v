(* Property C02 — Interests go only to FIB next hops, without loops or duplicate forwarding.
   Only theorem statements closed by `exact`, each followed by Print Assumptions.

   All statements are about the Interest step of the forwarder model in an arbitrary state s (any faces, FIB, strategy
   choice, PIT, cache, dead nonce list — hence after any history) for an arbitrary Interest and arbitrary resolution ch of the
   implementation's nondeterminism.  Spec.v defines, from the state before the arrival:
   c02_candidates (consumer-chosen next hop, else next hops of the longest-prefix FIB entry of the name or of the forwarding
   hint outside the producer region), c02_usable (face exists, not the non-ad-hoc arrival face, hop limit and scope allow,
   not a downstream of the same pending Interest), c02_must_drop, c02_cached, c02_suppressed. *)
From Coq Require Import List NArith Bool.
From Fw Require Import Model Spec Run Lemmas C02.
Import ListNotations.
Open Scope N_scope.

(* Every forwarded copy goes to a candidate next hop, never back out of a non-ad-hoc arrival face (the consumer-chosen
   next hop included), with the Interest's name and the hop limit reduced by one. *)
Theorem c02_only_fib_nexthops : forall s now i ch o,
  In o (r_outs (step s (EInterest now i) ch)) -> o_kind o = KInterest ->
  In (o_face o) (map fst (c02_candidates s i)) /\
  (o_face o = i_face i -> exists g, get_face (faces s) (i_face i) = Some g /\ f_link g = AdHoc) /\
  o_name o = i_name i /\ o_hop o = hop_after (i_hop i).
Proof. exact only_fib_nexthops. Qed.
Print Assumptions c02_only_fib_nexthops.

Theorem c02_never_back_to_p2p_inface : forall s now i ch o,
  In o (r_outs (step s (EInterest now i) ch)) -> o_kind o = KInterest -> o_face o = i_face i ->
  exists g, get_face (faces s) (i_face i) = Some g /\ f_link g = AdHoc.
Proof. exact (fun s now i ch o H K => proj1 (proj2 (only_fib_nexthops s now i ch o H K))). Qed.
Print Assumptions c02_never_back_to_p2p_inface.

(* best-route: at most one copy, to a usable next hop of minimal cost — for every tie choice *)
Theorem c02_bestroute_min_cost : forall s now i ch,
  i_nhf i = None -> strat_of (strat s) (i_name i) <> 1 ->
  interest_outs (r_outs (step s (EInterest now i) ch)) = [] \/
  exists o h, interest_outs (r_outs (step s (EInterest now i) ch)) = [o] /\ o_face o = fst h /\
              In h (usable_cands s i) /\ snd h = min_cost (usable_cands s i).
Proof. exact bestroute_min_cost. Qed.
Print Assumptions c02_bestroute_min_cost.

(* multicast: exactly the usable next hops *)
Theorem c02_multicast_all : forall s now i ch,
  i_nhf i = None -> strat_of (strat s) (i_name i) = 1 ->
  c02_must_drop s i = false -> c02_cached s now i = false -> c02_suppressed s now i = false ->
  map o_face (interest_outs (r_outs (step s (EInterest now i) ch))) = map fst (usable_cands s i).
Proof. exact multicast_all. Qed.
Print Assumptions c02_multicast_all.

(* an Interest that need not be dropped, for content not in the cache, not suppressed (in particular the first one), with a
   usable next hop, is taken as pending and forwarded with hop limit - 1 under this forwarder's PIT token *)
Theorem c02_first_interest_forwarded : forall s now i ch,
  c02_must_drop s i = false -> c02_cached s now i = false -> c02_suppressed s now i = false -> usable_cands s i <> [] ->
  exists u o, r_disp (step s (EInterest now i) ch) = Pending u /\ In o (r_outs (step s (EInterest now i) ch)) /\
              o_kind o = KInterest /\ In (o_face o) (map fst (usable_cands s i)) /\
              o_name o = i_name i /\ o_hop o = hop_after (i_hop i) /\ o_tok o = up_token (tid s) u.
Proof. exact first_interest_forwarded. Qed.
Print Assumptions c02_first_interest_forwarded.

(* hop limit 0, no nonce, dead nonce, nonce of an Interest pending from another face (and unknown face / scope): nothing
   is sent and the Interest is dropped *)
Theorem c02_dup_dead_nohop_nononce_dropped : forall s now i ch,
  c02_must_drop s i = true ->
  r_outs (step s (EInterest now i) ch) = [] /\ is_drop (r_disp (step s (EInterest now i) ch)) = true.
Proof. exact must_drop_dropped. Qed.
Print Assumptions c02_dup_dead_nohop_nononce_dropped.

(* a different-nonce retransmission inside the suppression interval is not forwarded; unless it must be dropped or is answered
   from the cache it is aggregated (its in-record is created/refreshed: disposition Pending) *)
Theorem c02_retx_within_interval_aggregated : forall s now i ch,
  c02_suppressed s now i = true ->
  interest_outs (r_outs (step s (EInterest now i) ch)) = [] /\
  (c02_must_drop s i = false -> c02_cached s now i = false -> exists u, r_disp (step s (EInterest now i) ch) = Pending u).
Proof. exact retx_aggregated. Qed.
Print Assumptions c02_retx_within_interval_aggregated.

(* no face gets two copies of one Interest: over every history from a FIB whose entries list each face once (the FIB
   operations keep that) *)
Theorem c02_no_duplicate_forwarding : forall s0 (h : history), fib_wf (fib s0) ->
  forall pre e r, In (pre, e, r) (trace s0 h) -> c02_nodup_ok (r_outs r) = true.
Proof. exact no_duplicate_copies. Qed.
Print Assumptions c02_no_duplicate_forwarding.

(* non-vacuity: faces 1 (local consumer), 2, 3 (non-local); FIB /a -> {2 cost 5, 3 cost 1}.
   best-route sends /a/b to face 3 only (hop limit 9 -> 8); under multicast it goes to 2 and 3; the same nonce from face 2
   while pending is dropped as a loop; a different nonce 100 ms later is suppressed but aggregated. *)
Example c02_example :
  let fs := [{| f_id := 1; f_local := true; f_link := P2P |}; {| f_id := 2; f_local := false; f_link := P2P |};
             {| f_id := 3; f_local := false; f_link := P2P |}] in
  let s0 := with_fib (with_faces (init [] 6000000000) fs) [([(8, 1)], [(2, 5); (3, 1)])] [] in
  let s1 := with_fib s0 (fib s0) [([], 1)] in
  let mk f nonce := {| i_face := f; i_name := [(8, 1); (8, 2)]; i_cbp := false; i_mbf := false; i_nonce := Some nonce;
                       i_life := None; i_hop := Some 9; i_hints := []; i_tok := []; i_nhf := None |} in
  let ch := {| ch_tok := 77; ch_tie := Some 3; ch_cs := None; ch_expired := [] |} in
  map (fun o => (o_face o, o_hop o)) (r_outs (step s0 (EInterest 10 (mk 1 5)) ch)) = [(3, Some 8)] /\
  map o_face (r_outs (step s1 (EInterest 10 (mk 1 5)) ch)) = [2; 3] /\
  (let s2 := r_st (step s0 (EInterest 10 (mk 1 5)) ch) in
   c02_must_drop s2 (mk 2 5) = true /\ r_disp (step s2 (EInterest 20 (mk 2 5)) ch) = DropDup /\
   c02_suppressed s2 100000010 (mk 1 6) = true /\
   r_outs (step s2 (EInterest 100000010 (mk 1 6)) ch) = [] /\
   r_disp (step s2 (EInterest 100000010 (mk 1 6)) ch) = Pending 77).
Proof. vm_compute. repeat split. Qed.
