(* Property C09 — /localhost traffic never crosses a non-local face.
   Only theorem statements closed by `exact`, each followed by Print Assumptions. *)
From Coq Require Import List NArith Bool.
From Fw Require Import Model Spec Run C09.
Import ListNotations.
Open Scope N_scope.

(* No packet whose name is under /localhost is transmitted on a non-local face: for every initial state (any faces, FIB,
   strategy choice, PIT, cache contents), every history of events and every resolution of the implementation's
   nondeterminism, every send of every step goes to a local face or carries a name outside /localhost. *)
Theorem c09_scope : forall (s0 : fw) (h : history) pre e r o g,
  In (pre, e, r) (trace s0 h) -> In o (r_outs r) ->
  get_face (faces pre) (o_face o) = Some g -> f_local g = false -> spec_localhost (o_name o) = false.
Proof. exact c09_scope_stmt. Qed.
Print Assumptions c09_scope.

(* ... and none is accepted from one: such an Interest or Data leaves the forwarder state unchanged and causes no send. *)
Theorem c09_inbound : forall s now ch g,
  (forall i, get_face (faces s) (i_face i) = Some g -> f_local g = false -> spec_localhost (i_name i) = true ->
     r_st (step s (EInterest now i) ch) = s /\ r_outs (step s (EInterest now i) ch) = []) /\
  (forall d, get_face (faces s) (d_face d) = Some g -> f_local g = false -> spec_localhost (d_name d) = true ->
     r_st (step s (EData now d) ch) = s /\ r_outs (step s (EData now d) ch) = []).
Proof. exact (fun s now ch g => conj (fun i => c09_inbound_interest s now i ch g) (fun d => c09_inbound_data s now d ch g)). Qed.
Print Assumptions c09_inbound.

(* Local faces are unaffected: an Interest from a local face is never dropped for scope; the outgoing-Interest guards
   towards a local face do not depend on the name; Data towards a local face is always transmitted. (That the exchange
   then proceeds is C02's c02_first_interest_forwarded and C01's delivery theorem, whose scope side conditions these
   equations discharge for local faces.) *)
Theorem c09_local_ok :
  (forall s now i ch g, get_face (faces s) (i_face i) = Some g -> f_local g = true ->
     r_disp (step s (EInterest now i) ch) <> DropScope) /\
  (forall fs inface hop n nh g, get_face fs nh = Some g -> f_local g = true ->
     can_send fs inface hop n nh = can_send fs inface hop [] nh) /\
  (forall fs n f tok g, get_face fs f = Some g -> f_local g = true ->
     send_data fs n f tok = [{| o_face := f; o_kind := KData; o_name := n; o_hop := None; o_tok := tok |}]).
Proof. exact (conj c09_local_interest_not_scope_dropped (conj c09_local_can_send c09_local_send_data)). Qed.
Print Assumptions c09_local_ok.

(* non-vacuity: local face 1, non-local face 2, default route / -> 2.  /localhost/nfd from face 1 is not sent on 2
   (and stays pending), /a from face 1 is. *)
Example c09_example :
  let s0 := with_fib (with_faces (init [] 6000000000)
                        [{| f_id := 1; f_local := true; f_link := P2P |}; {| f_id := 2; f_local := false; f_link := P2P |}])
                     [([], [(2, 0)])] [] in
  let mk n := {| i_face := 1; i_name := n; i_cbp := false; i_mbf := false; i_nonce := Some 7; i_life := None;
                 i_hop := None; i_hints := []; i_tok := []; i_nhf := None |} in
  let ch := {| ch_tok := 5; ch_tie := Some 2; ch_cs := None; ch_expired := [] |} in
  r_outs (step s0 (EInterest 10 (mk [(8, 0); (8, 4)])) ch) = [] /\
  r_disp (step s0 (EInterest 10 (mk [(8, 0); (8, 4)])) ch) = Pending 5 /\
  map o_face (r_outs (step s0 (EInterest 10 (mk [(8, 1)])) ch)) = [2].
Proof. vm_compute. repeat split. Qed.

(* Hypothesis made visible: c09_scope speaks about the face an id denotes in the forwarder's face map (get_face), i.e. it assumes
   a well-formed face table in which an id denotes one face.  The model's table has that shape after every history of face
   additions and removals (below); that the real face table never hands one id to two concurrently registered faces is
   property C16's obligation, not C09's. *)
Theorem c09_face_table_wf : forall s0 (h : history), NoDup (map f_id (faces s0)) ->
  forall pre e r, In (pre, e, r) (trace s0 h) -> NoDup (map f_id (faces pre)).
Proof. exact face_table_wf. Qed.
Print Assumptions c09_face_table_wf.

(* A packet whose arrival face is not, or no longer, in the face table (removed between queueing and processing) is dropped
   by both pipelines — whatever its name: state unchanged, nothing sent.  With c09_inbound this covers "accepted from": a
   /localhost packet is only ever taken from a face that is in the table and local. *)
Theorem c09_unknown_face_dropped : forall s now ch,
  (forall i, get_face (faces s) (i_face i) = None ->
     r_st (step s (EInterest now i) ch) = s /\ r_outs (step s (EInterest now i) ch) = []) /\
  (forall d, get_face (faces s) (d_face d) = None ->
     r_st (step s (EData now d) ch) = s /\ r_outs (step s (EData now d) ch) = []).
Proof. exact unknown_face_dropped. Qed.
Print Assumptions c09_unknown_face_dropped.

(* "/localhost exchanges between local applications and the forwarder itself always work": a /localhost Interest (from a local
   face: c09_local_ok says it is not dropped for scope) that need not be dropped, is not answered from the cache and not suppressed,
   and has a usable next hop — for such a name every usable next hop is a local face — is forwarded to a local face. *)
From Fw Require Import C02 C09b.
Theorem c09_local_exchange_forwarded : forall s now i ch,
  spec_localhost (i_name i) = true ->
  c02_must_drop s i = false -> c02_cached s now i = false -> c02_suppressed s now i = false -> usable_cands s i <> [] ->
  exists o g, In o (r_outs (step s (EInterest now i) ch)) /\ o_kind o = KInterest /\ o_name o = i_name i /\
              get_face (faces s) (o_face o) = Some g /\ f_local g = true.
Proof. exact local_exchange_forwarded. Qed.
Print Assumptions c09_local_exchange_forwarded.
