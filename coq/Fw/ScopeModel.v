(* Fw/ScopeModel.v — face-scope classification (C09), definitions only (no proofs, so that the runner still builds when the
   classification theorem of Scope.v fails on a changed tree): the scope each transport constructor gives its face, evaluated
   from the statements translated into GenScope.v, and the specification "a face is local iff its peer is this host". *)
From Coq Require Import List NArith Arith Bool.
From Fw Require Import ScopeDefs GenScope.
Import ListNotations.
Open Scope N_scope.

(* constructors, numbered as in GenScope.ctor_rules:
   0 MakeUnicastTCPTransport  1 AcceptUnicastTCPTransport  2 MakeUnicastUDPTransport  3 MakeUnixStreamTransport
   4 NewWebSocketTransport    5 MakeInternalTransport      6 MakeMulticastUDPTransport 7 MakeNullTransport *)
Definition n_ctors : N := 8.

(* the peer is identified by an IP address *)
Definition ctor_ip (c : N) : bool := (c =? 0) || (c =? 1) || (c =? 2) || (c =? 4).

Definition spec_local (c : N) (remote_loopback : bool) : bool :=
  if ctor_ip c then remote_loopback else (c =? 3) || (c =? 5).

Fixpoint find_rule (l : list (N * N * sexpr)) (c : N) : option (N * sexpr) :=
  match l with
  | [] => None
  | (k, ut, e) :: r => if k =? c then Some (ut, e) else find_rule r c
  end.

(* the scope constructor c gives a face whose remote address is / is not a loopback IP, per the translated statements *)
Definition transport_scope (c : N) (remote_loopback : bool) : option bool :=
  match find_rule ctor_rules c with
  | Some (ut, e) => seval uri_scope_cases uri_scope_default ut e remote_loopback
  | None => None
  end.

Definition opt_bool_eqb (a b : option bool) : bool :=
  match a, b with Some x, Some y => Bool.eqb x y | None, None => true | _, _ => false end.

Definition scope_table_ok : bool :=
  forallb (fun c => forallb (fun lb => opt_bool_eqb (transport_scope c lb) (Some (spec_local c lb))) [true; false])
          (map N.of_nat (seq 0 (N.to_nat n_ctors))).

