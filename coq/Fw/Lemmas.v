(* Fw/Lemmas.v — generic lemmas: name equality, multiset inclusion, permutations. *)
From Coq Require Import List NArith Arith Bool Lia Permutation.
From Base Require Import Bytes.
From Fw Require Import Model Spec.
Import ListNotations.
Open Scope N_scope.

Lemma comp_eqb_spec a b : comp_eqb a b = true <-> a = b.
Proof.
  destruct a as [a1 a2], b as [b1 b2]; unfold comp_eqb; cbn.
  rewrite andb_true_iff, !N.eqb_eq. split; [intros [-> ->]; reflexivity|intros E; inversion E; auto].
Qed.

Lemma name_eqb_spec a b : name_eqb a b = true <-> a = b.
Proof. apply list_eqb_spec, comp_eqb_spec. Qed.

Lemma name_eqb_refl a : name_eqb a a = true.
Proof. apply name_eqb_spec; reflexivity. Qed.

Lemma name_eqb_false a b : name_eqb a b = false <-> a <> b.
Proof.
  split.
  - intros H E; apply name_eqb_spec in E; congruence.
  - intros H; destruct (name_eqb a b) eqn:E; [apply name_eqb_spec in E; contradiction|reflexivity].
Qed.

Lemma bool_eqb_spec a b : Bool.eqb a b = true <-> a = b.
Proof. destruct a, b; cbn; split; intros; congruence. Qed.

Lemma is_prefix_firstn p n : is_prefix p n = true <-> p = firstn (length p) n.
Proof.
  revert n; induction p as [|a p IH]; intros n; cbn; [split; reflexivity|].
  destruct n as [|b n]; [split; [discriminate|intros E; discriminate]|].
  rewrite andb_true_iff, comp_eqb_spec, IH. split.
  - intros [-> E]; cbn; f_equal; exact E.
  - intros E; cbn in E; injection E as E1 E2; split; [exact E1|exact E2].
Qed.

Lemma is_prefix_length p n : is_prefix p n = true -> (length p <= length n)%nat.
Proof.
  revert n; induction p as [|a p IH]; intros n; cbn; [lia|].
  destruct n as [|b n]; [discriminate|]. rewrite andb_true_iff; intros [_ H]; apply IH in H; cbn; lia.
Qed.

(* ---------------------------------------------------------------- multiset inclusion *)
Lemma pair_eqb_spec a b : pair_eqb a b = true <-> a = b.
Proof.
  destruct a as [a1 a2], b as [b1 b2]; unfold pair_eqb; cbn.
  rewrite andb_true_iff, N.eqb_eq, bytes_eqb_spec. split; [intros [-> ->]; reflexivity|intros E; inversion E; auto].
Qed.

Lemma pair_eqb_refl a : pair_eqb a a = true.
Proof. apply pair_eqb_spec; reflexivity. Qed.

Lemma remove_one_perm x l l' : remove_one x l = Some l' -> Permutation l (x :: l').
Proof.
  revert l'; induction l as [|y r IH]; intros l'; cbn; [discriminate|].
  destruct (pair_eqb x y) eqn:E.
  - intros H; inversion H; subst. apply pair_eqb_spec in E; subst. apply Permutation_refl.
  - destruct (remove_one x r) as [r'|]; [|discriminate].
    intros H; inversion H; subst. specialize (IH r' eq_refl).
    eapply perm_trans; [apply perm_skip, IH|apply perm_swap].
Qed.

Lemma remove_one_in x l : In x l -> exists l', remove_one x l = Some l'.
Proof.
  induction l as [|y r IH]; cbn; [intros []|].
  intros [->|H].
  - rewrite pair_eqb_refl; eauto.
  - destruct (pair_eqb x y); [eauto|]. destruct (IH H) as [l' ->]; eauto.
Qed.

Lemma remove_one_none x l : remove_one x l = None -> ~ In x l.
Proof. intros H Hin; destruct (remove_one_in x l Hin) as [l' E]; congruence. Qed.

(* sub_multiset xs pool holds exactly when pool is a permutation of xs ++ something *)
Lemma sub_multiset_perm xs : forall pool, (exists rest, Permutation pool (xs ++ rest)) -> sub_multiset xs pool = true.
Proof.
  induction xs as [|x r IH]; intros pool [rest P]; cbn; [reflexivity|].
  assert (Hin : In x pool) by (eapply Permutation_in; [apply Permutation_sym, P|left; reflexivity]).
  destruct (remove_one_in x pool Hin) as [pool' E]; rewrite E.
  apply IH. exists rest. apply remove_one_perm in E.
  apply Permutation_cons_inv with (a := x). eapply perm_trans; [apply Permutation_sym, E|exact P].
Qed.

(* a duplicate-free list included in another is, up to order, a part of it *)
Lemma NoDup_incl_perm {A} (l l' : list A) : NoDup l -> incl l l' -> exists rest, Permutation l' (l ++ rest).
Proof.
  revert l'; induction l as [|a t IH]; intros l' ND I; [exists l'; apply Permutation_refl|].
  inversion ND as [|? ? Hn ND']; subst.
  assert (Ha : In a l') by (apply I; left; reflexivity).
  destruct (in_split a l' Ha) as [l1 [l2 ->]].
  assert (I' : incl t (l1 ++ l2)).
  { intros x Hx. assert (Hx' : In x (l1 ++ a :: l2)) by (apply I; right; exact Hx).
    apply in_app_or in Hx'; apply in_or_app; destruct Hx' as [H|[H|H]]; auto.
    subst; contradiction. }
  destruct (IH (l1 ++ l2) ND' I') as [rest P].
  exists rest. eapply perm_trans; [apply Permutation_sym, Permutation_middle|]. cbn; apply perm_skip; exact P.
Qed.

Lemma sub_multiset_map_incl {A} (f : A -> N * bytes) (l l' : list A) :
  NoDup l -> incl l l' -> sub_multiset (map f l) (map f l') = true.
Proof.
  intros ND I. destruct (NoDup_incl_perm l l' ND I) as [rest P].
  apply sub_multiset_perm. exists (map f rest). rewrite <- map_app. apply Permutation_map; exact P.
Qed.

Lemma sub_multiset_perm_l xs ys pool : Permutation xs ys -> sub_multiset ys pool = true -> sub_multiset xs pool = true.
Proof.
  (* via the characterisation: need the converse direction *)
  intros P H.
  assert (C : forall zs pool0, sub_multiset zs pool0 = true -> exists rest, Permutation pool0 (zs ++ rest)).
  { induction zs as [|z r IH]; intros pool0; cbn; [intros _; exists pool0; apply Permutation_refl|].
    destruct (remove_one z pool0) as [pool'|] eqn:E; [|discriminate].
    intros H0; destruct (IH pool' H0) as [rest P0]. exists rest.
    eapply perm_trans; [apply remove_one_perm, E|]. cbn; apply perm_skip; exact P0. }
  destruct (C ys pool H) as [rest P0]. apply sub_multiset_perm. exists rest.
  eapply perm_trans; [exact P0|]. apply Permutation_app_tail, Permutation_sym, P.
Qed.

(* ---------------------------------------------------------------- lists *)
Lemma NoDup_map_filter {A B} (f : A -> B) (p : A -> bool) l : NoDup (map f l) -> NoDup (map f (filter p l)).
Proof.
  induction l as [|a l IH]; cbn; [auto|]. intros ND; inversion ND as [|? ? Hn ND']; subst.
  destruct (p a); cbn; [constructor|]; auto.
  intros Hin; apply Hn. apply in_map_iff in Hin; destruct Hin as [x [E Hx]].
  apply filter_In in Hx; destruct Hx as [Hx _]. apply in_map_iff; eauto.
Qed.

Lemma NoDup_map_inj_in {A B} (f : A -> B) l x y : NoDup (map f l) -> In x l -> In y l -> f x = f y -> x = y.
Proof.
  induction l as [|a l IH]; cbn; [intros _ []|].
  intros ND; inversion ND as [|? ? Hn ND']; subst.
  intros [->|Hx] [->|Hy] E; auto.
  - exfalso; apply Hn; rewrite E; apply in_map; exact Hy.
  - exfalso; apply Hn; rewrite <- E; apply in_map; exact Hx.
Qed.

Lemma NoDup_map_NoDup {A B} (f : A -> B) l : NoDup (map f l) -> NoDup l.
Proof.
  induction l as [|a l IH]; cbn; intros ND; [constructor|].
  inversion ND as [|? ? Hn ND']; subst. constructor; [|auto].
  intros Hin; apply Hn; apply in_map; exact Hin.
Qed.

Lemma fold_max_ge {A} (f : A -> N) l : forall m, m <= fold_left (fun m x => N.max m (f x)) l m.
Proof. induction l as [|a l IH]; intros m; cbn; [lia|]. specialize (IH (N.max m (f a))); lia. Qed.

Lemma fold_max_in {A} (f : A -> N) l : forall m x, In x l -> f x <= fold_left (fun m x => N.max m (f x)) l m.
Proof.
  induction l as [|a l IH]; intros m x; cbn; [intros []|].
  intros [->|H]; [|apply IH; exact H].
  pose proof (fold_max_ge f l (N.max m (f x))); lia.
Qed.

Lemma fold_max_cases {A} (f : A -> N) l : forall m,
  fold_left (fun m x => N.max m (f x)) l m = m \/ exists x, In x l /\ fold_left (fun m x => N.max m (f x)) l m = f x.
Proof.
  induction l as [|a l IH]; intros m; cbn; [left; reflexivity|].
  destruct (IH (N.max m (f a))) as [E|[x [Hx E]]].
  - rewrite E. destruct (N.max_spec m (f a)) as [[_ ->]|[_ ->]]; [right; exists a; auto|left; reflexivity].
  - right; exists x; auto.
Qed.
