(* Engine/Keys.v — the model works on names as lists of trie keys. What the theorems of Props_C20 say about keys carries
   over to the real names exactly when the key function is injective on components: with the TLV encoding as key (the
   code now; injective by C14 compare_eq_iff_encoding_eq / component encoding) equal key paths are equal names; with the
   URI form as key (the code as pinned; not injective, C14 comp_to_str_injective_refuted: type 50 values 05 and 00 05
   both print "seg=5") a Data with ANOTHER name satisfies a pending Interest as far as the engine can tell. *)
From Coq Require Import List NArith Bool Arith.
From Engine Require Import Model Spec PitSteps.
Import ListNotations.

Section Keys.
  Variable C : Type.                 (* name components *)
  Variable keyf : C -> key.          (* the trie key of a component *)
  Definition kname (n : list C) : name := map keyf n.

  Lemma injective_keys_same_name : (forall a b, keyf a = keyf b -> a = b) -> forall n m, kname n = kname m -> n = m.
  Proof.
    intros Hinj n. induction n as [|a n IH]; intros [|b m] H; simpl in H; try discriminate; [reflexivity|].
    inversion H. f_equal; [apply Hinj; assumption|apply IH; assumption].
  Qed.

  (* with injective keys "satisfies" on keys is "satisfies" on names: equal name, or proper extension with CanBePrefix *)
  Lemma injective_keys_satisfies : (forall a b, keyf a = keyf b -> a = b) ->
    forall pid n cbp dig dl m dd, satisfies (mkSint pid (kname n) cbp dig dl) (kname m) dd = true ->
    n = m \/ (cbp = true /\ exists x, m = n ++ x).
  Proof.
    intros Hinj pid n cbp dig dl m dd H. unfold satisfies in H. simpl in H.
    apply andb_true_iff in H. destruct H as (H & _). apply orb_true_iff in H. destruct H as [H|H].
    - left. apply name_eqb_eq in H. apply injective_keys_same_name; assumption.
    - right. apply andb_true_iff in H. destruct H as (Hc & Hp). split; [exact Hc|].
      apply is_prefix_app in Hp. destruct Hp as (x & Hx). exists (skipn (length n) m).
      assert (E : kname m = kname (n ++ skipn (length n) m)).
      { unfold kname in *. rewrite map_app, Hx. f_equal. rewrite <- (map_length keyf n), <- skipn_map, Hx.
        rewrite skipn_app, skipn_all, Nat.sub_diag. reflexivity. }
      apply injective_keys_same_name in E; assumption.
  Qed.

  (* a key collision: the engine resolves an Interest with a Data of another name *)
  Lemma key_collision_refuted : forall a b, a <> b -> keyf a = keyf b ->
    forall dd, exists n m, n <> m /\ satisfies (mkSint 0 (kname n) false None 0) (kname m) dd = true.
  Proof.
    intros a b Hne Hk dd. exists [a], [b]. split; [intros E; inversion E; contradiction|].
    unfold satisfies. simpl. rewrite Hk, N.eqb_refl. reflexivity.
  Qed.
End Keys.
