(* Engine/Refute.v — the code as pinned (and each single repair left out) violates the property: concrete histories,
   decided by computation on the faithful model of that code, with the spec checker naming the broken clause.
   The same histories are corpus/C20/defects.ops and were replayed on the real code (docs/C20.md). *)
From Coq Require Import List NArith Bool Arith.
From Engine Require Import Model Spec.
Import ListNotations.
Local Open Scope N_scope.

Fixpoint hist_v (v : variant) (s : state) (es : list ev) : list (sev * list obs) :=
  match es with
  | [] => []
  | e :: r => let so := step v s e in (sev_of e, snd so) :: hist_v v (fst so) r
  end.

(* what the checker says about the history produced by variant v: the number of events after the rejected one, and the clause *)
Definition verdict_of (v : variant) (es : list ev) : option (nat * verdict) :=
  match spec_run sinit (hist_v v init es) with inl _ => None | inr x => Some x end.

(* the variants: everything repaired except one thing *)
Definition no_delif : variant := mkVariant false true true true.
Definition no_nack : variant := mkVariant true false false true.
Definition no_nackdig : variant := mkVariant true true false true.
Definition no_detach : variant := mkVariant true true true false.

(* (1) pending /1/2/3; unsolicited Data /1/2 arrives; Data /1/2/3 then does not resolve the Interest *)
Definition w_shorter_data : list ev :=
  [EExpress [1;2;3] false None (Some 100); EData [1;2] 7; EData [1;2;3] 8].
Lemma data_resolves_all_refuted_pinned : verdict_of pinned w_shorter_data = Some (0%nat, VDataMissed 0).
Proof. vm_compute. reflexivity. Qed.
Lemma data_resolves_all_refuted_no_delif : verdict_of no_delif w_shorter_data = Some (0%nat, VDataMissed 0).
Proof. vm_compute. reflexivity. Qed.

(* a Data that matches no first component wipes the whole PIT *)
Definition w_unrelated_data : list ev :=
  [EExpress [1;2] false None (Some 100); EData [3;3] 7; EData [1;2] 8].
Lemma pit_wipe_refuted_pinned : verdict_of pinned w_unrelated_data = Some (0%nat, VDataMissed 0).
Proof. vm_compute. reflexivity. Qed.

(* the timeout of a shorter name detaches a longer pending name *)
Definition w_timeout_shorter : list ev :=
  [EExpress [1] false None (Some 10); EExpress [1;2] false None (Some (100 + timeout_margin)); EAdvance (10 + timeout_margin);
   EFire 0; ERun 0; EData [1;2] 7].
Lemma timeout_detaches_refuted_no_delif : verdict_of no_delif w_timeout_shorter = Some (0%nat, VDataMissed 1).
Proof. vm_compute. reflexivity. Qed.

(* a node that was removed while its timer is still scheduled unlinks the re-created node of a re-expressed Interest *)
Definition w_stale_node : list ev :=
  [EExpress [1;2;3] false None (Some 20); EData [1;2] 7; EAdvance 5; EExpress [1;2;3] false None (Some (100 + timeout_margin));
   EAdvance (15 + timeout_margin); EFire 0; ERun 0; EData [1;2;3] 8].
Lemma stale_node_refuted_pinned : verdict_of pinned w_stale_node = Some (0%nat, VDataMissed 1).
Proof. vm_compute. reflexivity. Qed.

(* (2) pending /1 and /1/2; a Nack for /1/2 removes the node of /1; Data /1 then does not resolve it *)
Definition w_nack_parent : list ev :=
  [EExpress [1] false None (Some 100); EExpress [1;2] false None (Some 100); ENack [1;2] None 150; EData [1] 7].
Lemma nack_parent_refuted_pinned : verdict_of pinned w_nack_parent = Some (0%nat, VDataMissed 0).
Proof. vm_compute. reflexivity. Qed.
Lemma nack_parent_refuted_no_nack : verdict_of no_nack w_nack_parent = Some (0%nat, VDataMissed 0).
Proof. vm_compute. reflexivity. Qed.

(* exactly-once: a nacked entry stays in the detached node; a timer that was not cancelled (its entry had been timed out
   by a sibling's timer) later gives it a second callback *)
Definition w_double_callback : list ev :=
  [EExpress [1] false None (Some 0); EExpress [1] false None (Some 0); EExpress [1] false None (Some (timeout_margin + 1));
   EAdvance timeout_margin; EFire 0; ERun 0; ENack [1] None 150; EAdvance 1; EFire 1; ERun 1].
Lemma exactly_once_refuted_pinned : verdict_of pinned w_double_callback = Some (0%nat, VNotPending 2).
Proof. vm_compute. reflexivity. Qed.
Lemma exactly_once_refuted_no_nack : verdict_of no_nack w_double_callback = Some (0%nat, VNotPending 2).
Proof. vm_compute. reflexivity. Qed.

(* the same in the words of the property: Interest 2 is called back twice *)
Lemma exactly_once_refuted_pinned_log :
  flat_map (fun eo => flat_map (fun x => match x with OCb p _ => [p] | _ => [] end) (snd eo)) (hist_v pinned init w_double_callback)
  = [0; 1; 2; 2]%nat.
Proof. vm_compute. reflexivity. Qed.

(* a Nack for /1 resolves the pending Interest /1/sha256digest=9 (another name) *)
Definition w_nack_digest : list ev := [EExpress [1] false (Some 9) (Some 100); ENack [1] None 150].
Lemma nack_name_refuted_pinned : verdict_of pinned w_nack_digest = Some (0%nat, VNackWrong 0).
Proof. vm_compute. reflexivity. Qed.
Lemma nack_name_refuted_no_nackdig : verdict_of no_nackdig w_nack_digest = Some (0%nat, VNackWrong 0).
Proof. vm_compute. reflexivity. Qed.

(* handlers: detaching /1/2 removes the handler of /1; detaching /1 removes the handler of /1/2 *)
Definition w_detach_child : list ev := [EAttach [1] 1; EAttach [1;2] 2; EDetach [1;2]; EInterest [1;2;3] (Some 100) None].
Definition w_detach_parent : list ev := [EAttach [1] 1; EAttach [1;2] 2; EDetach [1]; EInterest [1;2;3] (Some 100) None].
Lemma handler_lpm_refuted_pinned : verdict_of pinned w_detach_child = Some (0%nat, VHandler) /\ verdict_of pinned w_detach_parent = Some (0%nat, VHandler).
Proof. split; vm_compute; reflexivity. Qed.
Lemma handler_lpm_refuted_no_detach : verdict_of no_detach w_detach_child = Some (0%nat, VHandler) /\ verdict_of no_detach w_detach_parent = Some (0%nat, VHandler).
Proof. split; vm_compute; reflexivity. Qed.

(* the repaired code accepts all of these histories *)
Lemma witnesses_accepted_current :
  forallb (fun es => match verdict_of current es with None => true | Some _ => false end)
    [w_shorter_data; w_unrelated_data; w_timeout_shorter; w_stale_node; w_nack_parent; w_double_callback; w_nack_digest;
     w_detach_child; w_detach_parent] = true.
Proof. vm_compute. reflexivity. Qed.
