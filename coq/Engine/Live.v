(* Engine/Live.v — from every reachable state, letting the clock run and the timers fire and run completes the history:
   [complete] (the premise of exactly_once) is reachable from everywhere, so every expressed Interest does resolve. *)
From Coq Require Import List NArith Bool Arith Lia.
From Engine Require Import Model Spec Trie PitWalk PitInv PitSteps FibInv Refine Readable Final.
Import ListNotations.
Local Open Scope nat_scope.

Definition max_fire (ts : list timer) : N := fold_right (fun t m => N.max (tfire t) m) 0%N ts.
Definition run_down (s : state) : list ev :=
  EAdvance (max_fire (timers s)) :: map EFire (seq 0 (length (timers s))) ++ map ERun (seq 0 (length (timers s))).

Lemma max_fire_ge : forall ts t, In t ts -> (tfire t <= max_fire ts)%N.
Proof.
  induction ts as [|x ts IH]; intros t H; simpl in *; [contradiction|]. destruct H as [->|H].
  - lia.
  - specialize (IH t H). lia.
Qed.

(* pure description of what EFire / ERun do to the timer list *)
Definition tsF (now : time) (ts : list timer) (tid : nat) : list timer :=
  match nth_error ts tid with
  | Some t => match tst t with
              | TSched => if N.leb (tfire t) now then set_tst ts tid TFired else ts
              | _ => ts
              end
  | None => ts
  end.
Definition tsR (ts : list timer) (tid : nat) : list timer :=
  match nth_error ts tid with
  | Some t => match tst t with TFired => set_tst ts tid TDone | _ => ts end
  | None => ts
  end.

Lemma set_tst_nth : forall ts i st j,
  nth_error (set_tst ts i st) j =
  if Nat.eqb j i then option_map (fun t => mkTimer (tnode t) (tfire t) st) (nth_error ts i) else nth_error ts j.
Proof.
  intros ts i st j. unfold set_tst. destruct (nth_error ts i) as [t|] eqn:E.
  - rewrite nth_error_set_nth, E. destruct (Nat.eqb j i); reflexivity.
  - destruct (Nat.eqb j i) eqn:Ej; [|reflexivity]. apply Nat.eqb_eq in Ej. subst. exact E.
Qed.

Definition st_of (ts : list timer) (j : nat) : option tstate := option_map tst (nth_error ts j).

Lemma tsF_st : forall now ts tid j,
  (forall t, In t ts -> (tfire t <= now)%N) ->
  st_of (tsF now ts tid) j =
  if Nat.eqb j tid then option_map (fun x => match x with TSched => TFired | y => y end) (st_of ts j) else st_of ts j.
Proof.
  intros now ts tid j Hle. unfold tsF, st_of. destruct (nth_error ts tid) as [t|] eqn:E.
  - destruct (tst t) eqn:Et.
    + assert (N.leb (tfire t) now = true) by (apply N.leb_le, Hle; eapply nth_error_In; eauto). rewrite H.
      rewrite set_tst_nth, E. destruct (Nat.eqb j tid) eqn:Ej; [|reflexivity]. apply Nat.eqb_eq in Ej. subst. rewrite E. simpl. rewrite Et. reflexivity.
    + destruct (Nat.eqb j tid) eqn:Ej; [|reflexivity]. apply Nat.eqb_eq in Ej. subst. rewrite E. simpl. rewrite Et. reflexivity.
    + destruct (Nat.eqb j tid) eqn:Ej; [|reflexivity]. apply Nat.eqb_eq in Ej. subst. rewrite E. simpl. rewrite Et. reflexivity.
    + destruct (Nat.eqb j tid) eqn:Ej; [|reflexivity]. apply Nat.eqb_eq in Ej. subst. rewrite E. simpl. rewrite Et. reflexivity.
  - destruct (Nat.eqb j tid) eqn:Ej; [|reflexivity]. apply Nat.eqb_eq in Ej. subst. rewrite E. reflexivity.
Qed.

Lemma tsR_st : forall ts tid j,
  st_of (tsR ts tid) j =
  if Nat.eqb j tid then option_map (fun x => match x with TFired => TDone | y => y end) (st_of ts j) else st_of ts j.
Proof.
  intros ts tid j. unfold tsR, st_of. destruct (nth_error ts tid) as [t|] eqn:E.
  - destruct (tst t) eqn:Et; try (destruct (Nat.eqb j tid) eqn:Ej; [|reflexivity]; apply Nat.eqb_eq in Ej; subst; rewrite E; simpl; rewrite Et; reflexivity).
    rewrite set_tst_nth, E. destruct (Nat.eqb j tid) eqn:Ej; [|reflexivity]. apply Nat.eqb_eq in Ej. subst. rewrite E. simpl. rewrite Et. reflexivity.
  - destruct (Nat.eqb j tid) eqn:Ej; [|reflexivity]. apply Nat.eqb_eq in Ej. subst. rewrite E. reflexivity.
Qed.

Lemma tsF_fire_le : forall now ts tid, (forall t, In t ts -> (tfire t <= now)%N) -> forall t, In t (tsF now ts tid) -> (tfire t <= now)%N.
Proof.
  intros now ts tid H t Ht. unfold tsF in Ht. destruct (nth_error ts tid) as [t0|] eqn:E; [|auto].
  destruct (tst t0); auto. destruct (N.leb (tfire t0) now); auto.
  apply In_nth_error in Ht. destruct Ht as (j & Hj). rewrite set_tst_nth, E in Hj.
  destruct (Nat.eqb j tid); [simpl in Hj; inversion Hj; subst; simpl; apply H; eapply nth_error_In; eauto|].
  apply H. eapply nth_error_In; eauto.
Qed.

Lemma tsF_length : forall now ts tid, length (tsF now ts tid) = length ts.
Proof.
  intros. unfold tsF. destruct (nth_error ts tid) as [t|] eqn:E; [|reflexivity]. destruct (tst t); try reflexivity.
  destruct (N.leb _ _); [|reflexivity]. unfold set_tst. rewrite E. apply set_nth_length.
Qed.
Lemma tsR_length : forall ts tid, length (tsR ts tid) = length ts.
Proof.
  intros. unfold tsR. destruct (nth_error ts tid) as [t|] eqn:E; [|reflexivity]. destruct (tst t); try reflexivity.
  unfold set_tst. rewrite E. apply set_nth_length.
Qed.

(* folding over a list of timer ids *)
Lemma fold_F_st : forall l now ts j, (forall t, In t ts -> (tfire t <= now)%N) ->
  st_of (fold_left (tsF now) l ts) j =
  if existsb (Nat.eqb j) l then option_map (fun x => match x with TSched => TFired | y => y end) (st_of ts j) else st_of ts j.
Proof.
  induction l as [|i l IH]; intros now ts j H; simpl; [reflexivity|].
  rewrite IH by (apply tsF_fire_le; exact H). rewrite tsF_st by exact H.
  destruct (Nat.eqb j i); simpl.
  - destruct (existsb (Nat.eqb j) l); destruct (st_of ts j) as [[]|]; reflexivity.
  - reflexivity.
Qed.

Lemma fold_R_st : forall l ts j,
  st_of (fold_left tsR l ts) j =
  if existsb (Nat.eqb j) l then option_map (fun x => match x with TFired => TDone | y => y end) (st_of ts j) else st_of ts j.
Proof.
  induction l as [|i l IH]; intros ts j; simpl; [reflexivity|].
  rewrite IH, tsR_st. destruct (Nat.eqb j i); simpl.
  - destruct (existsb (Nat.eqb j) l); destruct (st_of ts j) as [[]|]; reflexivity.
  - reflexivity.
Qed.

Lemma fold_F_length : forall l now ts, length (fold_left (tsF now) l ts) = length ts.
Proof. induction l as [|i l IH]; intros; simpl; [reflexivity|]. rewrite IH. apply tsF_length. Qed.
Lemma fold_R_length : forall l ts, length (fold_left tsR l ts) = length ts.
Proof. induction l as [|i l IH]; intros; simpl; [reflexivity|]. rewrite IH. apply tsR_length. Qed.

(* the model's EFire / ERun events do exactly this (no panic: the invariant holds) *)
Lemma fire_events : forall l s sp, rel s sp ->
  exists sp', rel (final s (map EFire l)) sp' /\ timers (final s (map EFire l)) = fold_left (tsF (now s)) l (timers s) /\
              now (final s (map EFire l)) = now s.
Proof.
  induction l as [|i l IH]; intros s sp R; simpl.
  - exists sp. auto.
  - destruct (step_accepted s sp (EFire i) R) as (sp1 & _ & R1). cbn [step] in R1.
    assert (Ht : timers (fst (fire s i)) = tsF (now s) (timers s) i /\ now (fst (fire s i)) = now s).
    { unfold fire, tsF. destruct (nth_error (timers s) i) as [t|]; [|auto]. destruct (tst t); auto. destruct (N.leb _ _); auto. }
    destruct Ht as (Ht & Hn). destruct (IH _ _ R1) as (sp' & A & B & C). exists sp'. split; [exact A|]. rewrite B, C, Ht, Hn. auto.
Qed.

Lemma run_events : forall l s sp, rel s sp ->
  exists sp', rel (final s (map ERun l)) sp' /\ timers (final s (map ERun l)) = fold_left tsR l (timers s).
Proof.
  induction l as [|i l IH]; intros s sp R; simpl.
  - exists sp. auto.
  - destruct (step_accepted s sp (ERun i) R) as (sp1 & _ & R1). cbn [step] in R1.
    destruct (run_pinv s (sp_pending sp) i (r_pit _ _ R)) as (s' & o & P' & Hd & _ & _ & _ & _ & _ & _ & _ & _ & Ht).
    rewrite Hd in R1. simpl in R1. destruct (IH _ _ R1) as (sp' & A & B). exists sp'. rewrite Hd. simpl. split; [exact A|].
    rewrite B, Ht. reflexivity.
Qed.

Lemma in_seq_existsb : forall j n, j < n -> existsb (Nat.eqb j) (seq 0 n) = true.
Proof. intros j n H. apply existsb_exists. exists j. split; [apply in_seq; lia|apply Nat.eqb_refl]. Qed.

Theorem run_down_completes : forall es, complete (final init (es ++ run_down (final init es))).
Proof.
  intros es. rewrite final_app. destruct (model_accepted_rel es) as (sp & _ & R).
  set (s := final init es) in *. unfold run_down. cbn [final step].
  set (s1 := mkState (now s + max_fire (timers s))%N (pit s) (fib s) (timers s) (npid s) (inc s) (panicked s)).
  destruct (step_accepted s sp (EAdvance (max_fire (timers s))) R) as (sp1 & _ & R1). cbn [step fst] in R1. fold s1 in R1.
  rewrite final_app. set (n := length (timers s)).
  destruct (fire_events (seq 0 n) s1 sp1 R1) as (sp2 & R2 & T2 & N2).
  set (s2 := final s1 (map EFire (seq 0 n))) in *.
  destruct (run_events (seq 0 n) s2 sp2 R2) as (sp3 & R3 & T3).
  intros t Ht. cbn [fst] in Ht. fold s2 in Ht. apply In_nth_error in Ht. destruct Ht as (j & Hj). rewrite T3 in Hj.
  assert (Hle : forall t0, In t0 (timers s1) -> (tfire t0 <= now s1)%N).
  { intros t0 H0. simpl in *. pose proof (max_fire_ge _ _ H0). lia. }
  assert (Hjn : j < n).
  { assert (j < length (fold_left tsR (seq 0 n) (timers s2))) by (apply nth_error_Some; congruence).
    rewrite fold_R_length, T2, fold_F_length in H. exact H. }
  pose proof (fold_R_st (seq 0 n) (timers s2) j) as SR. rewrite (in_seq_existsb j n Hjn) in SR.
  pose proof (fold_F_st (seq 0 n) (now s1) (timers s1) j Hle) as SF. rewrite (in_seq_existsb j n Hjn) in SF.
  rewrite <- T2 in SF. unfold st_of in SR at 1. rewrite Hj in SR. simpl in SR. rewrite SF in SR.
  destruct (st_of (timers s1) j) as [[]|]; simpl in SR; inversion SR; auto.
Qed.

(* every Interest expressed in ANY history is called back exactly once when the history is continued by letting the clock
   run and the timers fire *)
Theorem every_interest_resolves : forall es i, In i (expressed (map sev_of es)) ->
  count_occ Nat.eq_dec (hist_cbs (hist init (es ++ run_down (final init es)))) (s_pid i) = 1.
Proof.
  intros es i Hi. destruct (m_exactly_once (es ++ run_down (final init es))) as (_ & _ & H).
  apply H; [apply run_down_completes|]. rewrite map_app. unfold expressed. rewrite expressed_from_app.
  apply in_or_app. left. exact Hi.
Qed.
