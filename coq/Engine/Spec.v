(* Engine/Spec.v — what property C20 demands, as a reference checker over a flat list of pending Interests.
   No tries, no timers, no node identities: a pending Interest is (id, name, CanBePrefix, digest?, deadline).
   [spec_step] consumes one externally visible event together with what was observed while it was processed
   (callbacks, transmitted packets, return values) and either moves on or names the clause of the property that the
   observation breaks.  It is used twice: the theorems in Refine.v say that every history of the model is accepted
   ([model_accepted]), and the runner evaluates the very same (extracted) checker on the observations of the Go
   implementation — that is the spec oracle.  No proofs in this file. *)
From Coq Require Import List NArith Bool Arith.
From Engine Require Import Model.
Import ListNotations.
Open Scope N_scope.

(* s_opt: Express returned an error (face.Send failed); such an Interest may still be called back (at most once, with a
   sound result) but need not be *)
Record sint := mkSintO { s_pid : nat; s_name : name; s_cbp : bool; s_dig : option key; s_deadline : time; s_opt : bool }.
Definition mkSint (p : nat) (n : name) (c : bool) (d : option key) (dl : time) : sint := mkSintO p n c d dl false.

Fixpoint name_eqb (a b : name) : bool :=
  match a, b with
  | [], [] => true
  | x :: a', y :: b' => N.eqb x y && name_eqb a' b'
  | _, _ => false
  end.

Fixpoint is_prefix (a b : name) : bool :=
  match a, b with
  | [], _ => true
  | x :: a', y :: b' => N.eqb x y && is_prefix a' b'
  | _ :: _, [] => false
  end.

(* "a Data packet that actually satisfies it (same name, or longer only if CanBePrefix was set, and with the
    matching implicit digest if one was requested)" *)
Definition satisfies (i : sint) (dn : name) (dd : key) : bool :=
  (name_eqb (s_name i) dn || (s_cbp i && is_prefix (s_name i) dn)) &&
  match s_dig i with Some x => N.eqb x dd | None => true end.

Record sstate := mkS {
  sp_now : time;
  sp_pending : list sint;
  sp_npid : nat;
  sp_handlers : list (name * N);
  sp_inc : list (option time) }.

Definition sinit : sstate := mkS 0 [] 0 [] [].

(* externally visible events *)
Inductive sev :=
  | SAdvance (d : N)
  | SExpress (nm : name) (cbp : bool) (dig : option key) (life : option N)
  | SExpressFail (nm : name) (cbp : bool) (dig : option key) (life : option N)
  | SData (dn : name) (dd : key)
  | SNack (nm : name) (dig : option key) (reason : N)
  | STimers                                  (* timeout closures ran at the current instant *)
  | SAttach (nm : name) (hid : N)
  | SDetach (nm : name)
  | SInterest (nm : name) (life : option N) (tok : option N)
  | SReply (iid : nat).

(* which clause of the property an observation breaks *)
Inductive verdict :=
  | VNotPending (p : nat)        (* callback for an Interest that is not pending: resolved twice, or never expressed *)
  | VDataMissed (p : nat)        (* an arriving Data did not resolve a pending Interest it satisfies *)
  | VDataWrong (p : nat)         (* resolved with a Data it does not satisfy / result does not describe the arriving packet *)
  | VNackWrong (p : nat)         (* Nack result for an Interest with another name *)
  | VTimeoutEarly (p : nat)      (* timeout before the lifetime elapsed *)
  | VUnexpected                  (* an observation that this event cannot produce *)
  | VHandler                     (* incoming Interest not handed to the handler at the longest matching prefix *)
  | VReplyLate (iid : nat)       (* reply transmitted after the Interest's deadline *)
  | VUnresolved (p : nat)        (* history complete, Interest never resolved *)
  | VAttachRet                   (* Attach/DetachHandler return value contradicts the registration history *)
  | VPanic.

Definition find_pending (l : list sint) (p : nat) : option sint := find (fun i => Nat.eqb (s_pid i) p) l.
Definition remove_pending (l : list sint) (p : nat) : list sint := filter (fun i => negb (Nat.eqb (s_pid i) p)) l.

Fixpoint name_assoc (n : name) (l : list (name * N)) : option N :=
  match l with
  | [] => None
  | (m, h) :: r => if name_eqb m n then Some h else name_assoc n r
  end.

(* the handler attached at the longest prefix of nm: try nm itself, then drop components from the end *)
Fixpoint lpm_rev (hs : list (name * N)) (rn : name) : option N :=
  match name_assoc (rev rn) hs with
  | Some h => Some h
  | None => match rn with [] => None | _ :: r => lpm_rev hs r end
  end.
Definition lpm (hs : list (name * N)) (nm : name) : option N := lpm_rev hs (rev nm).

(* the callbacks observed while one event was processed: each must be for a pending Interest (so none is resolved
   twice) and its result must be acceptable for that Interest ([ok]); a resolved Interest stops being pending *)
Fixpoint check_cbs (ok : sint -> result -> bool) (bad : nat -> verdict) (pend : list sint) (o : list obs)
  : sum (list sint) verdict :=
  match o with
  | [] => inl pend
  | OCb p r :: rest =>
      match find_pending pend p with
      | None => inr (VNotPending p)
      | Some i => if ok i r then check_cbs ok bad (remove_pending pend p) rest else inr (bad p)
      end
  | OPanic :: _ => inr VPanic
  | _ :: _ => inr VUnexpected
  end.

(* a Data result must carry the arriving packet, and the packet must satisfy the Interest *)
Definition data_ok (dn : name) (dd : key) (i : sint) (r : result) : bool :=
  match r with
  | RData dn' dd' => name_eqb dn' dn && N.eqb dd' dd && satisfies i dn dd
  | _ => false
  end.
(* "a Nack for that name": same name, same implicit digest *)
Definition nack_ok (nm : name) (dig : option key) (reason : N) (i : sint) (r : result) : bool :=
  match r with
  | RNack reason' => name_eqb (s_name i) nm && opt_key_eqb (s_dig i) dig && N.eqb reason' reason
  | _ => false
  end.
(* "a timeout no earlier than its lifetime" *)
Definition timeout_ok (now : time) (i : sint) (r : result) : bool :=
  match r with
  | RTimeout t => N.eqb t now && N.leb (s_deadline i) now
  | _ => false
  end.

Definition check_data_cbs (pend : list sint) (dn : name) (dd : key) (o : list obs) :=
  check_cbs (data_ok dn dd) VDataWrong pend o.
Definition check_nack_cbs (pend : list sint) (nm : name) (dig : option key) (reason : N) (o : list obs) :=
  check_cbs (nack_ok nm dig reason) VNackWrong pend o.
Definition check_timeout_cbs (pend : list sint) (now : time) (o : list obs) :=
  check_cbs (timeout_ok now) VTimeoutEarly pend o.

Definition with_pending (s : sstate) (l : list sint) : sstate :=
  mkS (sp_now s) l (sp_npid s) (sp_handlers s) (sp_inc s).

Definition obs_is (o : list obs) (x : obs) : bool :=
  match o, x with
  | [ORet a], ORet b => N.eqb a b
  | [OSendInt a], OSendInt b => Nat.eqb a b
  | [ONoHandler], ONoHandler => true
  | [OHandler h d], OHandler h' d' => N.eqb h h' && N.eqb d d'
  | _, _ => false
  end.

Definition has_panic (o : list obs) : bool := existsb (fun x => match x with OPanic => true | _ => false end) o.

Definition spec_step (s : sstate) (e : sev) (o : list obs) : sum sstate verdict :=
  if has_panic o then inr VPanic else
  match e with
  | SAdvance d =>
      if is_nil o then inl (mkS (sp_now s + d) (sp_pending s) (sp_npid s) (sp_handlers s) (sp_inc s)) else inr VUnexpected
  | SExpress nm cbp dig life =>
      if is_nil nm && is_none dig then (if obs_is o (ORet 1) then inl s else inr VUnexpected) else
      if obs_is o (OSendInt (sp_npid s)) then
        inl (mkS (sp_now s)
                 (sp_pending s ++ [mkSint (sp_npid s) nm cbp dig (sp_now s + lifetime life)])
                 (S (sp_npid s)) (sp_handlers s) (sp_inc s))
      else inr VUnexpected
  | SExpressFail nm cbp dig life =>
      if obs_is o (ORet 1) then
        if is_nil nm && is_none dig then inl s else
        inl (mkS (sp_now s)
                 (sp_pending s ++ [mkSintO (sp_npid s) nm cbp dig (sp_now s + lifetime life) true])
                 (S (sp_npid s)) (sp_handlers s) (sp_inc s))
      else inr VUnexpected
  | SData dn dd =>
      match check_data_cbs (sp_pending s) dn dd o with
      | inr v => inr v
      | inl rest =>
          (* "each arriving Data resolves all pending Interests it satisfies" (not demanded of an Interest whose Express
             reported an error) *)
          match find (fun i => negb (s_opt i) && satisfies i dn dd) rest with
          | Some i => inr (VDataMissed (s_pid i))
          | None => inl (with_pending s rest)
          end
      end
  | SNack nm dig reason =>
      match check_nack_cbs (sp_pending s) nm dig reason o with
      | inr v => inr v
      | inl rest => inl (with_pending s rest)
      end
  | STimers =>
      match check_timeout_cbs (sp_pending s) (sp_now s) o with
      | inr v => inr v
      | inl rest => inl (with_pending s rest)
      end
  | SAttach nm hid =>
      match name_assoc nm (sp_handlers s) with
      | Some _ => if obs_is o (ORet 1) then inl s else inr VAttachRet
      | None => if obs_is o (ORet 0)
                then inl (mkS (sp_now s) (sp_pending s) (sp_npid s) ((nm, hid) :: sp_handlers s) (sp_inc s))
                else inr VAttachRet
      end
  | SDetach nm =>
      if obs_is o (ORet 0)
      then inl (mkS (sp_now s) (sp_pending s) (sp_npid s)
                    (filter (fun mh => negb (name_eqb (fst mh) nm)) (sp_handlers s)) (sp_inc s))
      else if obs_is o (ORet 1)
      then (match name_assoc nm (sp_handlers s) with Some _ => inr VAttachRet | None => inl s end)
      else inr VUnexpected
  | SInterest nm life tok =>
      let dl := sp_now s + lifetime life in
      match lpm (sp_handlers s) nm with
      | Some h => if obs_is o (OHandler h dl)
                  then inl (mkS (sp_now s) (sp_pending s) (sp_npid s) (sp_handlers s) (sp_inc s ++ [Some dl]))
                  else inr VHandler
      | None => if obs_is o ONoHandler
                then inl (mkS (sp_now s) (sp_pending s) (sp_npid s) (sp_handlers s) (sp_inc s ++ [None]))
                else inr VHandler
      end
  | SReply iid =>
      (* "a reply is transmitted only before that Interest's deadline" *)
      if existsb (fun x => match x with OSendData j => negb (Nat.eqb j iid) | OCb _ _ | OSendInt _ | OHandler _ _ | ONoHandler => true | _ => false end) o
      then inr VUnexpected
      else if existsb (fun x => match x with OSendData _ => true | _ => false end) o
      then match nth_error (sp_inc s) iid with
           | Some (Some dl) => if N.leb (sp_now s) dl then inl s else inr (VReplyLate iid)
           | _ => inr VUnexpected
           end
      else inl s
  end.

(* "every expressed Interest resolves": at the end of a complete history nothing is pending *)
Definition spec_final (s : sstate) : option verdict :=
  match find (fun i => negb (s_opt i)) (sp_pending s) with
  | None => None
  | Some i => Some (VUnresolved (s_pid i))
  end.

(* a whole history: events paired with their observations *)
Fixpoint spec_run (s : sstate) (h : list (sev * list obs)) : sum sstate (nat * verdict) :=
  match h with
  | [] => inl s
  | (e, o) :: r =>
      match spec_step s e o with
      | inr v => inr (length r, v)
      | inl s' => spec_run s' r
      end
  end.

(* the externally visible event of a model event *)
Definition sev_of (e : ev) : sev :=
  match e with
  | EAdvance d => SAdvance d
  | EExpress nm cbp dig life => SExpress nm cbp dig life
  | EExpressFail nm cbp dig life => SExpressFail nm cbp dig life
  | EData dn dd => SData dn dd
  | ENack nm dig reason => SNack nm dig reason
  | EFire _ => STimers
  | ERun _ => STimers
  | EAttach nm hid => SAttach nm hid
  | EDetach nm => SDetach nm
  | EInterest nm life tok => SInterest nm life tok
  | EReply iid => SReply iid
  end.
