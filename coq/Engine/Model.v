(* Engine/Model.v — executable model of the application engine (std/engine/basic): engine.go, simple_trie.go,
   timer.go.  No proofs in this file.

   What is modelled, and how it is written down:
   * NameTrie[V] (simple_trie.go) as a heap of nodes addressed by node id (Go pointers): every node has its value,
     its key (the component's TLV encoding — its URI string form in the pinned code, see Keys.v — interned to a number by
     the harness), its parent pointer, its depth and
     its child map (option: None is a nil Go map).  Nodes are never freed: a node removed from its parent's map
     stays in the heap, exactly like a Go object that a timer closure still points to.
   * ExactMatch / PrefixMatch / MatchAlways / Delete / DeleteIf as in the code; every recursion that climbs parent
     pointers takes fuel and reports running out of fuel; writing into a nil map is a panic.
   * Express, onData, onNack, the timeout closure (it keeps the node it captured), AttachHandler, DetachHandler,
     onInterest (longest-prefix walk-up) and the Reply closure's deadline test.
   * basic.Timer: every Schedule is a timer with a state; time.AfterFunc fires the function in its own goroutine, so
     "the timer fires" (EFire, possible once the clock has reached its time) and "the closure runs under the PIT
     lock" (ERun) are separate events; cancelling (timer.Stop) only works while the timer has not fired.
   * The clock only moves by EAdvance.  Time is in nanoseconds (Go's time.Duration).

   [variant] selects, per repaired defect, between the code as pinned and the code as repaired (see docs/C20.md);
   [current] is what /repo contains now and is what the correspondence run executes; [pinned] is kept for the
   refutation lemmas. *)
From Coq Require Import List NArith Bool Arith.
From Engine Require Import GenConsts.
Import ListNotations.
Open Scope N_scope.

Definition key := N.
Definition name := list key.
Definition time := N.

(* translated from engine.go on every run (GenConsts.v): DefaultInterestLife = 4 s, TimeoutMargin = 10 ms, in ns *)
Definition default_life : N := gen_default_life.
Definition timeout_margin : N := gen_timeout_margin.

(* ------------------------------------------------------------------------------------------------------- *)
(* NameTrie                                                                                                  *)
(* ------------------------------------------------------------------------------------------------------- *)
Section Trie.
  Variable V : Type.
  Variable vzero : V.                  (* Go zero value of V *)

  Record node := mkNode {
    nval : V;
    nkey : key;
    npar : option nat;
    ndep : nat;
    nchd : option (list (key * nat)) }.

  Record heap := mkHeap { hget : nat -> node; hnext : nat }.

  Definition root : nat := 0%nat.
  Definition root_node : node := mkNode vzero 0 None 0 (Some []).
  Definition heap_init : heap := mkHeap (fun _ => root_node) 1.

  Definition hset (h : heap) (i : nat) (n : node) : heap :=
    mkHeap (fun j => if Nat.eqb j i then n else hget h j) (hnext h).
  Definition halloc (h : heap) (n : node) : heap :=
    mkHeap (fun j => if Nat.eqb j (hnext h) then n else hget h j) (S (hnext h)).

  Definition set_val (h : heap) (i : nat) (v : V) : heap :=
    let n := hget h i in hset h i (mkNode v (nkey n) (npar n) (ndep n) (nchd n)).
  Definition set_chd (h : heap) (i : nat) (c : option (list (key * nat))) : heap :=
    let n := hget h i in hset h i (mkNode (nval n) (nkey n) (npar n) (ndep n) c).

  Fixpoint assoc (k : key) (l : list (key * nat)) : option nat :=
    match l with
    | [] => None
    | (k', j) :: r => if N.eqb k' k then Some j else assoc k r
    end.
  Definition chd_find (c : option (list (key * nat))) (k : key) : option nat :=
    match c with None => None | Some l => assoc k l end.
  Definition chd_remove (c : option (list (key * nat))) (k : key) : option (list (key * nat)) :=
    match c with None => None | Some l => Some (filter (fun kv => negb (N.eqb (fst kv) k)) l) end.
  Definition chd_len (c : option (list (key * nat))) : nat :=
    match c with None => 0%nat | Some l => length l end.

  (* ExactMatch / PrefixMatch: [rest] is name[n.dep:] *)
  Fixpoint exact_match (h : heap) (i : nat) (rest : name) : option nat :=
    match rest with
    | [] => Some i
    | k :: r => match chd_find (nchd (hget h i)) k with
                | Some j => exact_match h j r
                | None => None
                end
    end.

  Fixpoint prefix_match (h : heap) (i : nat) (rest : name) : nat :=
    match rest with
    | [] => i
    | k :: r => match chd_find (nchd (hget h i)) k with
                | Some j => prefix_match h j r
                | None => i
                end
    end.

  (* MatchAlways; None = panic (assignment to an entry of a nil map) *)
  Fixpoint match_always (h : heap) (i : nat) (rest : name) : option (heap * nat) :=
    match rest with
    | [] => Some (h, i)
    | k :: r =>
        match chd_find (nchd (hget h i)) k with
        | Some j => match_always h j r
        | None =>
            match nchd (hget h i) with
            | None => None
            | Some l =>
                let j := hnext h in
                let h1 := halloc h (mkNode vzero k (Some i) (S (ndep (hget h i))) (Some [])) in
                let h2 := set_chd h1 i (Some ((k, j) :: l)) in
                match_always h2 j r
            end
        end
    end.

  (* Delete (as pinned; still in simple_trie.go): drops the node's subtree, unlinks it, and deletes the parent
     whenever the parent is left without children — whatever the parent's value is. None = out of fuel. *)
  Fixpoint delete_node (fuel : nat) (h : heap) (i : nat) : option heap :=
    match fuel with
    | O => None
    | S f =>
        let n := hget h i in
        match npar n with
        | Some p =>
            let h1 := set_chd h i None in
            let h2 := set_chd h1 p (chd_remove (nchd (hget h1 p)) (nkey n)) in
            if Nat.eqb (chd_len (nchd (hget h2 p))) 0 then delete_node f h2 p else Some h2
        | None => Some (set_chd h i (Some []))
        end
    end.

  (* DeleteIf as pinned *)
  Fixpoint delete_if_pinned (pred : V -> bool) (fuel : nat) (h : heap) (i : nat) : option heap :=
    match fuel with
    | O => None
    | S f =>
        let n := hget h i in
        if negb (pred (nval n)) then Some h else
        match npar n with
        | Some p =>
            let h1 := set_chd h i None in
            let h2 := set_chd h1 p (chd_remove (nchd (hget h1 p)) (nkey n)) in
            if Nat.eqb (chd_len (nchd (hget h2 p))) 0 then delete_if_pinned pred f h2 p else Some h2
        | None => Some (set_chd h i (Some []))
        end
    end.

  (* DeleteIf as repaired: a node is removed only if it has no children, its value satisfies pred, and it is
     still the child registered under its key in its parent; then the parent is examined in the same way. *)
  Definition opt_nat_eqb (a : option nat) (b : nat) : bool :=
    match a with Some x => Nat.eqb x b | None => false end.

  Fixpoint delete_if_fixed (pred : V -> bool) (fuel : nat) (h : heap) (i : nat) : option heap :=
    match fuel with
    | O => None
    | S f =>
        let n := hget h i in
        if Nat.ltb 0 (chd_len (nchd n)) || negb (pred (nval n)) then Some h else
        match npar n with
        | None => Some h
        | Some p =>
            if opt_nat_eqb (chd_find (nchd (hget h p)) (nkey n)) i
            then delete_if_fixed pred f (set_chd h p (chd_remove (nchd (hget h p)) (nkey n))) p
            else Some h
        end
    end.

  Definition delete_if (fixed : bool) (pred : V -> bool) (h : heap) (i : nat) : option heap :=
    if fixed then delete_if_fixed pred (S (ndep (hget h i))) h i
    else delete_if_pinned pred (S (ndep (hget h i))) h i.

  (* the reachable part of the trie as (path, node id) pairs; fuel bounds the depth *)
  Fixpoint dump (fuel : nat) (h : heap) (i : nat) (path : name) : list (name * nat) :=
    match fuel with
    | O => [(path, i)]
    | S f =>
        (path, i) ::
        match nchd (hget h i) with
        | None => []
        | Some l => flat_map (fun kj => dump f h (snd kj) (path ++ [fst kj])) l
        end
    end.
End Trie.

Arguments mkNode {V}. Arguments nval {V}. Arguments nkey {V}. Arguments npar {V}. Arguments ndep {V}. Arguments nchd {V}.
Arguments mkHeap {V}. Arguments hget {V}. Arguments hnext {V}.
Arguments heap_init {V}. Arguments hset {V}. Arguments halloc {V}. Arguments set_val {V}. Arguments set_chd {V}.
Arguments exact_match {V}. Arguments prefix_match {V}. Arguments match_always {V}. Arguments delete_node {V}.
Arguments delete_if_pinned {V}. Arguments delete_if_fixed {V}. Arguments delete_if {V}. Arguments dump {V}.

(* ------------------------------------------------------------------------------------------------------- *)
(* Engine state                                                                                              *)
(* ------------------------------------------------------------------------------------------------------- *)

(* pendInt.  mustBeFresh is stored by the code but never read; it is not modelled.
   pdig = Some k: the Interest's name ends with an implicit digest component (k = that component, interned): "a digest is
   requested" is the PRESENCE of the component (pendInt.hasImpSha256), whatever its value — zero-length, nil, 31 or 33 bytes. *)
Record pend := mkPend { pid : nat; pdeadline : time; pcbp : bool; pdig : option key; ptimer : nat }.

Inductive tstate := TSched | TFired | TCancelled | TDone.
Record timer := mkTimer { tnode : nat; tfire : time; tst : tstate }.

Record incoming := mkInc { ideadline : time; itok : option N }.

Record variant := mkVariant {
  v_delif : bool;     (* DeleteIf repaired (simple_trie.go) *)
  v_nack : bool;      (* onNack clears the node's list and prunes with DeleteIf instead of Delete *)
  v_nackdig : bool;   (* onNack matches the implicit digest of the nacked Interest like Express stores it *)
  v_detach : bool }.  (* DetachHandler clears the handler and prunes with DeleteIf instead of Delete *)

Definition pinned : variant := mkVariant false false false false.

Record state := mkState {
  now : time;
  pit : heap (list pend);
  fib : heap (option N);
  timers : list timer;
  npid : nat;
  inc : list (option incoming);
  panicked : bool }.

Definition init : state := mkState 0 (heap_init []) (heap_init None) [] 0 [] false.

Inductive result := RData (dn : name) (dd : key) | RNack (reason : N) | RTimeout (at_ : time).
Inductive obs :=
  | OCb (p : nat) (r : result)          (* Express callback invoked *)
  | OSendInt (p : nat)                  (* Interest wire handed to the face *)
  | OHandler (hid : N) (deadline : time)
  | ONoHandler
  | OSendData (iid : nat)               (* reply wire handed to the face *)
  | ORet (code : N)                     (* 0 ok, 1 error, 2 ErrDeadlineExceed, 3 no reply closure *)
  | OPanic.

Inductive ev :=
  | EAdvance (d : N)
  | EExpress (nm : name) (cbp : bool) (dig : option key) (life : option N)
  | EExpressFail (nm : name) (cbp : bool) (dig : option key) (life : option N)   (* Express whose face.Send fails *)
  | EData (dn : name) (dd : key)
  | ENack (nm : name) (dig : option key) (reason : N)
  | EFire (tid : nat)
  | ERun (tid : nat)
  | EAttach (nm : name) (hid : N)
  | EDetach (nm : name)
  | EInterest (nm : name) (life : option N) (tok : option N)
  | EReply (iid : nat).

Definition is_nil {A} (l : list A) : bool := match l with [] => true | _ => false end.
Definition is_none {A} (o : option A) : bool := match o with None => true | Some _ => false end.

Definition opt_key_eqb (a b : option key) : bool :=
  match a, b with
  | None, None => true
  | Some x, Some y => N.eqb x y
  | _, _ => false
  end.

Fixpoint set_nth {A} (l : list A) (i : nat) (x : A) : list A :=
  match l, i with
  | [], _ => []
  | _ :: r, O => x :: r
  | a :: r, S j => a :: set_nth r j x
  end.

(* timeoutCancel: timer.Stop() prevents the function from running only if the timer has not fired yet *)
Definition cancel (ts : list timer) (tid : nat) : list timer :=
  match nth_error ts tid with
  | Some t => match tst t with
              | TSched => set_nth ts tid (mkTimer (tnode t) (tfire t) TCancelled)
              | _ => ts
              end
  | None => ts
  end.

Definition set_tst (ts : list timer) (tid : nat) (s : tstate) : list timer :=
  match nth_error ts tid with
  | Some t => set_nth ts tid (mkTimer (tnode t) (tfire t) s)
  | None => ts
  end.

Definition cancel_all (ts : list timer) (es : list pend) : list timer :=
  fold_left (fun ts e => cancel ts (ptimer e)) es ts.

Definition panic (s : state) : state * list obs :=
  (mkState (now s) (pit s) (fib s) (timers s) (npid s) (inc s) true, [OPanic]).

Definition with_pit (s : state) (h : heap (list pend)) (ts : list timer) : state :=
  mkState (now s) h (fib s) ts (npid s) (inc s) (panicked s).
Definition with_fib (s : state) (h : heap (option N)) : state :=
  mkState (now s) (pit s) h (timers s) (npid s) (inc s) (panicked s).

(* ---- Express ---- *)
Definition lifetime (life : option N) : N := match life with Some l => l | None => default_life end.

(* [sent] = whether face.Send succeeded. When it fails Express returns the error, but the entry stays in the PIT with its
   timer: the callback is still invoked (with a timeout). *)
Definition express_with (sent : bool) (s : state) (nm : name) (cbp : bool) (dig : option key) (life : option N) : state * list obs :=
  if is_nil nm && is_none dig then (s, [ORet 1]) else      (* len(finalName) <= 0 *)
  match match_always [] (pit s) 0%nat nm with
  | None => panic s
  | Some (h, n) =>
      let l := lifetime life in
      let tid := length (timers s) in
      let e := mkPend (npid s) (now s + l) cbp dig tid in
      let h' := set_val h n (nval (hget h n) ++ [e]) in
      (mkState (now s) h' (fib s) (timers s ++ [mkTimer n (now s + l + timeout_margin) TSched])
               (S (npid s)) (inc s) (panicked s),
       [if sent then OSendInt (npid s) else ORet 1])
  end.
Definition express := express_with true.

(* ---- onData ---- *)
(* does entry e, stored at a node of depth dep, accept the Data (name dn, digest dd)? *)
Definition data_hits (dep : nat) (dn : name) (dd : key) (e : pend) : bool :=
  if Nat.ltb dep (length dn) && negb (pcbp e) then false else
  match pdig e with
  | Some x => N.eqb x dd
  | None => true
  end.

(* the loop `for cur := n; cur != nil; cur = cur.Parent()` *)
Fixpoint data_walk (fuel : nat) (h : heap (list pend)) (ts : list timer) (cur : nat) (dn : name) (dd : key)
  : option (heap (list pend) * list timer * list obs) :=
  match fuel with
  | O => None
  | S f =>
      let nd := hget h cur in
      let lst := nval nd in
      let hit := filter (data_hits (ndep nd) dn dd) lst in
      let keep := filter (fun e => negb (data_hits (ndep nd) dn dd e)) lst in
      let h' := if is_nil lst then h else set_val h cur keep in
      let ts' := cancel_all ts hit in
      let o := map (fun e => OCb (pid e) (RData dn dd)) hit in
      match npar nd with
      | None => Some (h', ts', o)
      | Some p =>
          match data_walk f h' ts' p dn dd with
          | None => None
          | Some (h2, ts2, o2) => Some (h2, ts2, o ++ o2)
          end
      end
  end.

Definition on_data (v : variant) (s : state) (dn : name) (dd : key) : state * list obs :=
  let n := prefix_match (pit s) 0%nat dn in
  match data_walk (S (ndep (hget (pit s) n))) (pit s) (timers s) n dn dd with
  | None => panic s
  | Some (h, ts, o) =>
      match delete_if (v_delif v) is_nil h n with
      | None => panic s
      | Some h' => (with_pit s h' ts, o)
      end
  end.

(* ---- onNack ---- *)
Definition on_nack (v : variant) (s : state) (nm : name) (dig : option key) (reason : N) : state * list obs :=
  let full := nm ++ match dig with Some d => [d] | None => [] end in
  if v_nackdig v then
    match exact_match (pit s) 0%nat nm with
    | None => (s, [])
    | Some n =>
        let lst := nval (hget (pit s) n) in
        let hit := filter (fun e => opt_key_eqb (pdig e) dig) lst in
        let keep := filter (fun e => negb (opt_key_eqb (pdig e) dig)) lst in
        let h := set_val (pit s) n keep in
        match delete_if (v_delif v) is_nil h n with
        | None => panic s
        | Some h' => (with_pit s h' (cancel_all (timers s) hit), map (fun e => OCb (pid e) (RNack reason)) hit)
        end
    end
  else
    match exact_match (pit s) 0%nat full with
    | None => (s, [])
    | Some n =>
        let lst := nval (hget (pit s) n) in
        let ts := cancel_all (timers s) lst in
        let o := map (fun e => OCb (pid e) (RNack reason)) lst in
        if v_nack v then
          match delete_if (v_delif v) is_nil (set_val (pit s) n []) n with
          | None => panic s
          | Some h' => (with_pit s h' ts, o)
          end
        else
          match delete_node (S (ndep (hget (pit s) n))) (pit s) n with
          | None => panic s
          | Some h' => (with_pit s h' ts, o)
          end
    end.

(* ---- timers ---- *)
Definition fire (s : state) (tid : nat) : state * list obs :=
  match nth_error (timers s) tid with
  | Some t =>
      match tst t with
      | TSched => if N.leb (tfire t) (now s)
                  then (with_pit s (pit s) (set_tst (timers s) tid TFired), [])
                  else (s, [])
      | _ => (s, [])
      end
  | None => (s, [])
  end.

(* timeoutFunc, running on the node it captured *)
Definition run_timer (v : variant) (s : state) (tid : nat) : state * list obs :=
  match nth_error (timers s) tid with
  | Some t =>
      match tst t with
      | TFired =>
          let n := tnode t in
          let lst := nval (hget (pit s) n) in
          let keep := filter (fun e => N.ltb (now s) (pdeadline e)) lst in      (* entry.deadline.After(now) *)
          let gone := filter (fun e => negb (N.ltb (now s) (pdeadline e))) lst in
          let h := set_val (pit s) n keep in
          match delete_if (v_delif v) is_nil h n with
          | None => panic s
          | Some h' => (with_pit s h' (set_tst (timers s) tid TDone),
                        map (fun e => OCb (pid e) (RTimeout (now s))) gone)
          end
      | _ => (s, [])
      end
  | None => (s, [])
  end.

(* ---- FIB ---- *)
Definition attach (s : state) (nm : name) (hid : N) : state * list obs :=
  match match_always None (fib s) 0%nat nm with
  | None => panic s
  | Some (h, n) =>
      match nval (hget h n) with
      | Some _ => (with_fib s h, [ORet 1])                       (* ErrMultipleHandlers *)
      | None => (with_fib s (set_val h n (Some hid)), [ORet 0])
      end
  end.

Definition detach (v : variant) (s : state) (nm : name) : state * list obs :=
  match exact_match (fib s) 0%nat nm with
  | None => (s, [ORet 1])
  | Some n =>
      if v_detach v then
        match delete_if (v_delif v) is_none (set_val (fib s) n None) n with
        | None => panic s
        | Some h => (with_fib s h, [ORet 0])
        end
      else
        match delete_node (S (ndep (hget (fib s) n))) (fib s) n with
        | None => panic s
        | Some h => (with_fib s h, [ORet 0])
        end
  end.

(* `for n != nil && n.Value() == nil { n = n.Parent() }`; result None = no handler; outer None = out of fuel *)
Fixpoint handler_up (fuel : nat) (h : heap (option N)) (cur : nat) : option (option N) :=
  match fuel with
  | O => None
  | S f =>
      match nval (hget h cur) with
      | Some hid => Some (Some hid)
      | None => match npar (hget h cur) with
                | None => Some None
                | Some p => handler_up f h p
                end
      end
  end.

Definition on_interest (s : state) (nm : name) (life : option N) (tok : option N) : state * list obs :=
  let deadline := now s + lifetime life in
  let n := prefix_match (fib s) 0%nat nm in
  match handler_up (S (ndep (hget (fib s) n))) (fib s) n with
  | None => panic s
  | Some None =>
      (mkState (now s) (pit s) (fib s) (timers s) (npid s) (inc s ++ [None]) (panicked s), [ONoHandler])
  | Some (Some hid) =>
      (mkState (now s) (pit s) (fib s) (timers s) (npid s) (inc s ++ [Some (mkInc deadline tok)]) (panicked s),
       [OHandler hid deadline])
  end.

(* the Reply closure: `if args.Deadline.Before(now) { return ErrDeadlineExceed }` *)
Definition reply (s : state) (iid : nat) : state * list obs :=
  match nth_error (inc s) iid with
  | Some (Some r) => if N.ltb (ideadline r) (now s) then (s, [ORet 2]) else (s, [ORet 0; OSendData iid])
  | _ => (s, [ORet 3])
  end.

Definition step (v : variant) (s : state) (e : ev) : state * list obs :=
  match e with
  | EAdvance d => (mkState (now s + d) (pit s) (fib s) (timers s) (npid s) (inc s) (panicked s), [])
  | EExpress nm cbp dig life => express s nm cbp dig life
  | EExpressFail nm cbp dig life => express_with false s nm cbp dig life
  | EData dn dd => on_data v s dn dd
  | ENack nm dig reason => on_nack v s nm dig reason
  | EFire tid => fire s tid
  | ERun tid => run_timer v s tid
  | EAttach nm hid => attach s nm hid
  | EDetach nm => detach v s nm
  | EInterest nm life tok => on_interest s nm life tok
  | EReply iid => reply s iid
  end.

(* run a history; the log pairs every observation with the index of the event that produced it *)
Fixpoint run_from (v : variant) (s : state) (k : nat) (es : list ev) : state * list (nat * obs) :=
  match es with
  | [] => (s, [])
  | e :: r =>
      let '(s1, o) := step v s e in
      let '(s2, log) := run_from v s1 (S k) r in
      (s2, map (fun x => (k, x)) o ++ log)
  end.
Definition run (v : variant) (es : list ev) : state * list (nat * obs) := run_from v init 0 es.

(* ---- helpers for the correspondence runner ---- *)
(* the timer the Go runtime fires next when the clock is moved to [limit]: earliest fire time, lowest id first *)
Fixpoint next_due_from (ts : list timer) (tid : nat) (limit : time) (best : option (nat * time)) : option (nat * time) :=
  match ts with
  | [] => best
  | t :: r =>
      let best' :=
        match tst t with
        | TSched =>
            if N.leb (tfire t) limit then
              match best with
              | Some (_, bt) => if N.ltb (tfire t) bt then Some (tid, tfire t) else best
              | None => Some (tid, tfire t)
              end
            else best
        | _ => best
        end in
      next_due_from r (S tid) limit best'
  end.
Definition next_due (s : state) (limit : time) : option (nat * time) := next_due_from (timers s) 0 limit None.

Definition dump_pit (s : state) : list (name * list nat) :=
  map (fun pi => (fst pi, map pid (nval (hget (pit s) (snd pi))))) (dump (hnext (pit s)) (pit s) 0%nat []).
Definition dump_fib (s : state) : list (name * option N) :=
  map (fun pi => (fst pi, nval (hget (fib s) (snd pi)))) (dump (hnext (fib s)) (fib s) 0%nat []).

(* moving the clock to [target] the way the Go runtime does when nothing else happens: every scheduled timer whose
   time has come fires and its closure runs, earliest first (ties: lower timer id first); used by the runner only *)
Fixpoint advance_to (fuel : nat) (v : variant) (s : state) (target : time) : state * list obs :=
  match fuel with
  | O => (s, [])
  | S f =>
      match next_due s target with
      | None => step v s (EAdvance (target - now s))
      | Some (tid, t) =>
          let s1 := fst (step v s (EAdvance (t - now s))) in
          let s2 := fst (step v s1 (EFire tid)) in
          let '(s3, o) := step v s2 (ERun tid) in
          let '(s4, o') := advance_to f v s3 target in
          (s4, o ++ o')
      end
  end.

(* what /repo contains now (updated with every repair, see docs/C20.md) *)
Definition current : variant := mkVariant true true true true.
