(* Property C20 — placeholder until the proofs land; see Refine.v *)
From Coq Require Import List NArith.
From Engine Require Import Model Spec.
Import ListNotations.
Open Scope N_scope.

Example c20_example :
  snd (run pinned [EExpress [1;2] false None (Some 100); EData [1;2] 7]) = [(0%nat, OSendInt 0); (1%nat, OCb 0 (RData [1;2] 7))].
Proof. vm_compute. reflexivity. Qed.
