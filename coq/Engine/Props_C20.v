(* Property C20 — every expressed Interest resolves exactly once, only with Data that satisfies it; each arriving Data
   resolves all pending Interests it satisfies; an incoming Interest goes to the handler at the longest matching prefix;
   a reply is transmitted only before that Interest's deadline.

   All theorems are about [current], the executable model of std/engine/basic as it is in /repo now (Model.v), and
   quantify over EVERY history [es : list ev] of Express calls, Data / Nack / Interest arrivals, clock advances, timer
   firings (EFire: the runtime fires a timer whose time has come) and timer closure runs (ERun), handler attach /
   detach calls and reply calls — i.e. over every interleaving of packet arrivals and timer expirations.
     hist init es        the events with the observations (callbacks, packets, return values) each produced
     obs_at es k         the observations of event k
     hist_cbs h          the Interest ids called back in h, in order
     expressed evs       the Interests expressed by the events (id, name, CanBePrefix, digest, deadline = clock + lifetime)
     satisfies i dn dd   Data (name dn, implicit digest dd) satisfies Interest i        (Spec.v)
     complete s          every timer of s has run or was cancelled
   Only statements here; proofs are in Trie, PitWalk, PitInv, PitSteps, FibInv, Refine, Readable, Final, Refute. *)
From Coq Require Import List NArith Bool Arith.
From Engine Require Import Model Spec Refine Readable Final Live Refute Keys.
Import ListNotations.

(* The model's observations are accepted by the spec checker — the same (extracted) checker the runner evaluates on the
   observations of the Go implementation. *)
Theorem model_accepted : forall es, exists sp, spec_run sinit (hist init es) = inl sp.
Proof. exact m_accepted. Qed.
Print Assumptions model_accepted.

(* Exactly once: no Interest id is ever called back twice; only expressed Interests are called back; and once every
   timer has run or was cancelled, every expressed Interest has been called back exactly once. *)
Theorem exactly_once : forall es,
  NoDup (hist_cbs (hist init es)) /\
  (forall p, In p (hist_cbs (hist init es)) -> exists i, In i (expressed (map sev_of es)) /\ s_pid i = p) /\
  (complete (final init es) -> forall i, In i (expressed (map sev_of es)) ->
     count_occ Nat.eq_dec (hist_cbs (hist init es)) (s_pid i) = 1%nat).
Proof. exact m_exactly_once. Qed.
Print Assumptions exactly_once.

(* ... and that always happens: continue ANY history by moving the clock past every timer and letting all timers fire and
   run ([run_down]); the result is complete, so every Interest expressed in the history is called back exactly once. *)
Theorem every_expressed_interest_resolves : forall es,
  complete (final init (es ++ run_down (final init es))) /\
  forall i, In i (expressed (map sev_of es)) ->
    count_occ Nat.eq_dec (hist_cbs (hist init (es ++ run_down (final init es)))) (s_pid i) = 1%nat.
Proof. exact (fun es => conj (run_down_completes es) (every_interest_resolves es)). Qed.
Print Assumptions every_expressed_interest_resolves.

(* Result soundness: a callback of event k is for an Interest expressed before k, and
   - a Data result: event k is the arrival of exactly that Data, and it satisfies the Interest (same name, or longer only
     with CanBePrefix; digest equal if one was requested);
   - a Nack result: event k is a Nack for the Interest's own name and digest;
   - a Timeout result: event k is a timer closure run, the reported time is the clock, and the clock is >= the deadline. *)
Theorem result_sound : forall es k e p r, nth_error es k = Some e -> In (OCb p r) (obs_at es k) ->
  exists i, In i (expressed (map sev_of (firstn k es))) /\ s_pid i = p /\
    match r with
    | RData dn dd => e = EData dn dd /\ satisfies i dn dd = true
    | RNack reason => e = ENack (s_name i) (s_dig i) reason
    | RTimeout t => (exists tid, e = ERun tid) /\ t = now (final init (firstn k es)) /\ (s_deadline i <= t)%N
    end.
Proof. exact m_result_sound. Qed.
Print Assumptions result_sound.

(* Each arriving Data resolves all pending Interests it satisfies: an Interest expressed before event k (s_opt = false: its
   Express did not report a Send error), not called back before k, and satisfied by the Data arriving at k, is called back at k with that Data. *)
Theorem data_resolves_all : forall es k dn dd i, nth_error es k = Some (EData dn dd) ->
  In i (expressed (map sev_of (firstn k es))) -> s_opt i = false -> ~ In (s_pid i) (hist_cbs (hist init (firstn k es))) ->
  satisfies i dn dd = true -> In (OCb (s_pid i) (RData dn dd)) (obs_at es k).
Proof. exact m_data_resolves_all. Qed.
Print Assumptions data_resolves_all.

(* An incoming Interest is handed to the handler attached at the longest matching prefix, where the handler table is the
   one left by the history before it ([attached]: successful attach adds, successful detach removes) ... *)
Theorem handler_lpm : forall es k nm life tok, nth_error es k = Some (EInterest nm life tok) ->
  match lpm (attached (hist init (firstn k es))) nm with
  | Some hid => exists dl, obs_at es k = [OHandler hid dl]
  | None => obs_at es k = [ONoHandler]
  end.
Proof. exact m_handler_lpm. Qed.
Print Assumptions handler_lpm.

(* ... and [lpm H nm] is the entry of the longest prefix of nm that has an entry in H. *)
Theorem lpm_is_longest_prefix : forall H nm,
  match lpm H nm with
  | Some hid => exists m, (m <= length nm)%nat /\ name_assoc (firstn m nm) H = Some hid /\
                          forall m', (m < m')%nat -> (m' <= length nm)%nat -> name_assoc (firstn m' nm) H = None
  | None => forall m, (m <= length nm)%nat -> name_assoc (firstn m nm) H = None
  end.
Proof. exact lpm_spec. Qed.
Print Assumptions lpm_is_longest_prefix.

(* A reply is transmitted only while the clock has not passed arrival time + lifetime of the Interest it answers. *)
Theorem reply_only_before_deadline : forall es k iid j, nth_error es k = Some (EReply iid) -> In (OSendData j) (obs_at es k) ->
  j = iid /\ exists dl, nth_error (in_deadlines (map sev_of (firstn k es))) iid = Some dl /\
                        (now (final init (firstn k es)) <= dl)%N.
Proof. exact m_reply_deadline. Qed.
Print Assumptions reply_only_before_deadline.

(* No panic: no write into a nil child map, no climbing recursion out of fuel. *)
Theorem engine_no_panic : forall es,
  panicked (final init es) = false /\ forall k o, nth_error (hist init es) k = Some o -> ~ In OPanic (snd o).
Proof. exact no_panic. Qed.
Print Assumptions engine_no_panic.

(* Express = insert, then emit: one EExpress step puts the entry into the PIT and hands the Interest to the face (OSendInt);
   an answer — even one the face feeds back while Send is still on the stack — is a later event and finds the entry: a
   Data arriving right after the emit step resolves that very Interest if it satisfies it. *)
Theorem reply_during_send_is_matched : forall es nm cbp dig life dn dd,
  is_nil nm && is_none dig = false ->
  let s := final init es in
  satisfies (mkSint (npid s) nm cbp dig (now s + lifetime life)%N) dn dd = true ->
  obs_at (es ++ [EExpress nm cbp dig life; EData dn dd]) (length es) = [OSendInt (npid s)] /\
  In (OCb (npid s) (RData dn dd)) (obs_at (es ++ [EExpress nm cbp dig life; EData dn dd]) (S (length es))).
Proof. exact reply_during_send_matched. Qed.
Print Assumptions reply_during_send_is_matched.

(* Obligation on the timer interface (ndn.Timer.Schedule's cancel function): cancelling never blocks and never waits for an
   event that has already started. In the model: cancel changes at most the state of the named timers, only Sched ->
   Cancelled, and a timer that has fired stays Fired (its closure runs later and finds its entry gone). The harness stream
   "fire" runs exactly this schedule on the real engine and timer (EFire; EData/ENack; ERun); a cancel that waits for the
   started event deadlocks there, because the engine cancels under the PIT lock. *)
Theorem cancel_nonblocking : forall es ts j t, nth_error ts j = Some t ->
  exists t', nth_error (cancel_all ts es) j = Some t' /\ tnode t' = tnode t /\ tfire t' = tfire t /\
             (tst t = TFired -> tst t' = TFired) /\ (tst t' <> tst t -> tst t = TSched /\ tst t' = TCancelled).
Proof. exact cancel_nonblocking_spec. Qed.
Print Assumptions cancel_nonblocking.

(* The oracle itself: ANY list of (event, observations) the checker accepts — in particular the implementation's —
   has the properties above. *)
Theorem oracle_sound_at_most_once : forall h sp, spec_run sinit h = inl sp -> NoDup (hist_cbs h).
Proof. exact acc_at_most_once. Qed.
Print Assumptions oracle_sound_at_most_once.

Theorem oracle_sound_data_resolves_all : forall h sp k dn dd o i, spec_run sinit h = inl sp -> nth_error h k = Some (SData dn dd, o) ->
  In i (expressed (map fst (firstn k h))) -> s_opt i = false -> ~ In (s_pid i) (hist_cbs (firstn k h)) -> satisfies i dn dd = true ->
  In (OCb (s_pid i) (RData dn dd)) o.
Proof. exact acc_data_resolves_all. Qed.
Print Assumptions oracle_sound_data_resolves_all.

(* The code as pinned violated the property (faithful model of that code; the witnesses were replayed on the real code):
   data_resolves_all (unsolicited shorter Data; Nack for a longer name), exactly-once (Nack, then a stale timer),
   Nack for another name, handler_lpm (detach). *)
Theorem data_resolves_all_refuted : verdict_of pinned w_shorter_data = Some (0%nat, VDataMissed 0).
Proof. exact data_resolves_all_refuted_pinned. Qed.
Print Assumptions data_resolves_all_refuted.

Theorem data_resolves_all_refuted_nack : verdict_of pinned w_nack_parent = Some (0%nat, VDataMissed 0).
Proof. exact nack_parent_refuted_pinned. Qed.
Print Assumptions data_resolves_all_refuted_nack.

Theorem exactly_once_refuted : verdict_of pinned w_double_callback = Some (0%nat, VNotPending 2).
Proof. exact exactly_once_refuted_pinned. Qed.
Print Assumptions exactly_once_refuted.

Theorem handler_lpm_refuted : verdict_of pinned w_detach_child = Some (0%nat, VHandler) /\ verdict_of pinned w_detach_parent = Some (0%nat, VHandler).
Proof. exact handler_lpm_refuted_pinned. Qed.
Print Assumptions handler_lpm_refuted.

(* Names in the model are lists of trie keys. For an injective key function (the TLV encoding of a component, as the code
   is now) "satisfies" on keys is "satisfies" on the real names; for a non-injective one (the URI form, as pinned: "seg=5"
   for the values 05 and 00 05) a Data with another name resolves the Interest. *)
Theorem injective_trie_keys_real_names : forall (C : Type) (keyf : C -> key), (forall a b, keyf a = keyf b -> a = b) ->
  forall pid n cbp dig dl m dd, satisfies (mkSint pid (kname C keyf n) cbp dig dl) (kname C keyf m) dd = true ->
  n = m \/ (cbp = true /\ exists x, m = n ++ x).
Proof. exact injective_keys_satisfies. Qed.
Print Assumptions injective_trie_keys_real_names.

Theorem result_sound_refuted_uri_keys : forall (C : Type) (keyf : C -> key) a b, a <> b -> keyf a = keyf b ->
  forall dd, exists n m, n <> m /\ satisfies (mkSint 0 (kname C keyf n) false None 0) (kname C keyf m) dd = true.
Proof. exact key_collision_refuted. Qed.
Print Assumptions result_sound_refuted_uri_keys.

(* non-vacuity: a history with nested names, a duplicate, CanBePrefix, a digest, Data, Nack, a timeout and handlers, whose
   final state is complete; all premises of the theorems above are met by it *)
Example c20_example :
  let es := [EExpress [1;2] false None (Some 100); EExpress [1] true None (Some 50); EExpress [1;2] false (Some 9) (Some 100);
             EExpress [1;2;3] false None (Some 20); EAttach [1] 7; EInterest [1;5] (Some 30) None;
             EData [1;2] 9; ENack [1;2;3] None 150; EAdvance 10; EReply 0; EAdvance 200;
             EFire 0; EFire 1; EFire 2; EFire 3; ERun 0; ERun 1; ERun 2; ERun 3] in
  hist_cbs (hist init es) = [0; 2; 1; 3]%nat /\
  forallb (fun t => match tst t with TCancelled | TDone => true | _ => false end) (timers (final init es)) = true /\
  obs_at es 5 = [OHandler 7 30] /\ obs_at es 9 = [ORet 0; OSendData 0].
Proof. vm_compute. repeat split; reflexivity. Qed.
