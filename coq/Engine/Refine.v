(* Engine/Refine.v — every history of the model (current variant) is accepted by the spec checker, with the
   simulation relation [rel] between model states and spec states. *)
From Coq Require Import List NArith Bool Arith Lia.
From Engine Require Import Model Spec Trie PitWalk PitInv PitSteps FibInv.
Import ListNotations.
Local Open Scope nat_scope.

Record rel (s : state) (sp : sstate) : Prop := {
  r_pit : pinv s (sp_pending sp);
  r_fib : finv (fib s) (sp_handlers sp);
  r_now : sp_now sp = now s;
  r_npid : sp_npid sp = npid s;
  r_inc : sp_inc sp = map (option_map ideadline) (inc s);
  r_ok : panicked s = false }.

Lemma pinv_init : pinv init [].
Proof.
  constructor; simpl; auto.
  - apply twf_init.
  - intros n e [].
  - intros i [].
  - intros n. constructor.
  - constructor.
  - intros i [].
  - intros n e [].
  - intros tid t H. destruct tid; discriminate.
Qed.

Lemma rel_init : rel init sinit.
Proof. constructor; simpl; auto. apply pinv_init. apply finv_init. Qed.

Lemma pinv_ext : forall s s' P, pinv s P -> pit s' = pit s -> timers s' = timers s -> npid s' = npid s -> now s' = now s -> pinv s' P.
Proof.
  intros s s' P I Hp Ht Hn Hw. destruct I as [A B C D E F G H J].
  constructor; rewrite ?Hp, ?Ht, ?Hn, ?Hw; auto.
Qed.

(* the history of a run: every event (as the spec sees it) with the observations it produced *)
Fixpoint hist (s : state) (es : list ev) : list (sev * list obs) :=
  match es with
  | [] => []
  | e :: r => let so := step current s e in (sev_of e, snd so) :: hist (fst so) r
  end.
Fixpoint final (s : state) (es : list ev) : state :=
  match es with
  | [] => s
  | e :: r => final (fst (step current s e)) r
  end.

Lemma has_panic_single_ret : forall c, has_panic [ORet c] = false.
Proof. reflexivity. Qed.

Lemma step_accepted : forall s sp e, rel s sp ->
  exists sp', spec_step sp (sev_of e) (snd (step current s e)) = inl sp' /\ rel (fst (step current s e)) sp'.
Proof.
  intros s sp e R. destruct R as [RP RF RN RI RC RK]. destruct e; cbn [step sev_of].
  - (* EAdvance *)
    simpl. eexists. split; [reflexivity|]. constructor; simpl; auto.
    + apply advance_pinv, RP.
    + rewrite RN. reflexivity.
  - (* EExpress *)
    unfold spec_step. destruct (is_nil nm && is_none dig) eqn:Hne.
    + unfold express, express_with. rewrite Hne. simpl. exists sp. split; [reflexivity|]. constructor; auto.
    + destruct (express_pinv s (sp_pending sp) nm cbp dig life RP Hne) as (s' & Hex & I' & A & B & C & D & E).
      rewrite Hex. cbn [fst snd has_panic existsb orb]. rewrite RI. unfold obs_is. rewrite Nat.eqb_refl.
      eexists. split; [reflexivity|]. constructor; cbn [sp_pending sp_handlers sp_now sp_npid sp_inc]; try congruence.
      all: try (rewrite C; exact RF). all: try (rewrite ?RN; exact I').
  - (* EExpressFail *)
    unfold spec_step. destruct (is_nil nm && is_none dig) eqn:Hne.
    + unfold express_with. rewrite Hne. simpl. exists sp. split; [reflexivity|]. constructor; auto.
    + destruct (express_with_pinv false s (sp_pending sp) nm cbp dig life RP Hne) as (s' & Hex & I' & A & B & C & D & E).
      rewrite Hex. cbn [fst snd has_panic existsb orb negb]. unfold obs_is. rewrite N.eqb_refl.
      eexists. split; [reflexivity|]. constructor; cbn [sp_pending sp_handlers sp_now sp_npid sp_inc]; try congruence.
      all: try (rewrite C; exact RF). all: try (rewrite ?RN, ?RI; exact I').
  - (* EData *)
    destruct (data_pinv s (sp_pending sp) dn dd RP) as (s' & o & P' & Hd & Hc & Hp & Hf & I' & A & B & C & D & E).
    assert (Hf' : find (fun i => negb (s_opt i) && satisfies i dn dd) P' = None).
    { destruct (find (fun i => negb (s_opt i) && satisfies i dn dd) P') as [i|] eqn:Efo; [|reflexivity].
      apply find_some in Efo. destruct Efo as (Hi & Hs). apply andb_true_iff in Hs.
      pose proof (find_none _ _ Hf i Hi) as Hn. simpl in Hn. destruct Hs as (_ & Hs). congruence. }
    rewrite Hd. cbn [fst snd]. unfold spec_step. rewrite Hp, Hc, Hf'.
    eexists. split; [reflexivity|]. constructor; cbn [with_pending sp_pending sp_handlers sp_now sp_npid sp_inc]; try congruence.
    all: try (rewrite C; exact RF). all: try exact I'.
  - (* ENack *)
    destruct (nack_pinv s (sp_pending sp) nm dig reason RP) as (s' & o & P' & Hd & Hc & Hp & I' & A & B & C & D & E).
    rewrite Hd. cbn [fst snd]. unfold spec_step. rewrite Hp, Hc.
    eexists. split; [reflexivity|]. constructor; cbn [with_pending sp_pending sp_handlers sp_now sp_npid sp_inc]; try congruence.
    all: try (rewrite C; exact RF). all: try exact I'.
  - (* EFire *)
    destruct (fire_pinv s (sp_pending sp) tid RP) as (s' & Hd & I' & A & B & C & D & E).
    rewrite Hd. cbn [fst snd]. unfold spec_step. simpl has_panic. cbv iota. unfold check_timeout_cbs, check_cbs.
    eexists. split; [reflexivity|]. constructor; cbn [with_pending sp_pending sp_handlers sp_now sp_npid sp_inc]; try congruence.
    all: try (rewrite C; exact RF). all: try exact I'.
  - (* ERun *)
    destruct (run_pinv s (sp_pending sp) tid RP) as (s' & o & P' & Hd & Hc & Hp & I' & A & B & C & D & E & _).
    rewrite Hd. cbn [fst snd]. unfold spec_step. rewrite Hp, RN, Hc.
    eexists. split; [reflexivity|]. constructor; cbn [with_pending sp_pending sp_handlers sp_now sp_npid sp_inc]; try congruence.
    all: try (rewrite C; exact RF). all: try exact I'.
  - (* EAttach *)
    destruct (attach_finv s (sp_handlers sp) nm hid RF) as (s' & o & H' & Hd & I' & Hm & A & B & C & D & E & F).
    rewrite Hd. cbn [fst snd]. unfold spec_step.
    destruct (name_assoc nm (sp_handlers sp)) eqn:Ea; destruct Hm as (-> & ->); simpl.
    + exists sp. split; [reflexivity|]. constructor; try congruence; auto. eapply pinv_ext; eauto.
    + eexists. split; [reflexivity|]. constructor; cbn [sp_pending sp_handlers sp_now sp_npid sp_inc]; try congruence; auto.
      eapply pinv_ext; eauto.
  - (* EDetach *)
    destruct (detach_finv s (sp_handlers sp) nm RF) as (s' & o & Hd & Hm & A & B & C & D & E & F).
    rewrite Hd. cbn [fst snd]. unfold spec_step.
    destruct Hm as [(-> & I')|(-> & Hn & I')]; simpl.
    + eexists. split; [reflexivity|]. constructor; cbn [sp_pending sp_handlers sp_now sp_npid sp_inc]; try congruence; auto.
      eapply pinv_ext; eauto.
    + rewrite Hn. exists sp. split; [reflexivity|]. constructor; try congruence; auto. eapply pinv_ext; eauto.
  - (* EInterest *)
    destruct (interest_finv s (sp_handlers sp) nm life tok RF) as (s' & Hd & Hi & A & B & C & D & E & F).
    rewrite Hd. cbn [fst snd]. unfold spec_step. rewrite RN.
    destruct (lpm (sp_handlers sp) nm) eqn:El; simpl.
    + rewrite !N.eqb_refl. simpl. eexists. split; [reflexivity|].
      constructor; cbn [sp_pending sp_handlers sp_now sp_npid sp_inc]; try congruence; auto.
      all: try (eapply pinv_ext; eauto; fail). all: try (rewrite C; exact RF).
      all: try (rewrite Hi, map_app, RC; reflexivity).
    + eexists. split; [reflexivity|].
      constructor; cbn [sp_pending sp_handlers sp_now sp_npid sp_inc]; try congruence; auto.
      all: try (eapply pinv_ext; eauto; fail). all: try (rewrite C; exact RF).
      all: try (rewrite Hi, map_app, RC; reflexivity).
  - (* EReply *)
    unfold reply, spec_step.
    assert (Hinc : nth_error (sp_inc sp) iid = option_map (option_map ideadline) (nth_error (inc s) iid)).
    { rewrite RC. rewrite nth_error_map. reflexivity. }
    destruct (nth_error (inc s) iid) as [[r|]|] eqn:En; simpl in Hinc.
    + destruct (N.ltb (ideadline r) (now s)) eqn:El; simpl.
      * exists sp. split; [reflexivity|]. constructor; auto.
      * rewrite Nat.eqb_refl. simpl. rewrite Hinc, RN.
        apply N.ltb_ge in El. apply N.leb_le in El. rewrite El.
        exists sp. split; [reflexivity|]. constructor; auto.
    + simpl. exists sp. split; [reflexivity|]. constructor; auto.
    + simpl. exists sp. split; [reflexivity|]. constructor; auto.
Qed.

(* Every history of the model is accepted by the spec checker. *)
Lemma hist_accepted : forall es s sp, rel s sp ->
  exists sp', spec_run sp (hist s es) = inl sp' /\ rel (final s es) sp'.
Proof.
  induction es as [|e es IH]; intros s sp R; simpl.
  - exists sp. auto.
  - destruct (step_accepted s sp e R) as (sp1 & A & B). rewrite A. apply IH, B.
Qed.

Theorem model_accepted_rel : forall es, exists sp, spec_run sinit (hist init es) = inl sp /\ rel (final init es) sp.
Proof. intros es. apply hist_accepted, rel_init. Qed.
