(* Engine/PitInv.v — the invariant tying the PIT heap and the timers of the model (current variant) to the flat list
   of pending Interests of the spec, and a generic "some entries are resolved" lemma used by onData, onNack and the
   timeout closure. *)
From Coq Require Import List NArith Bool Arith Lia.
From Engine Require Import Model Spec Trie PitWalk.
Import ListNotations.
Local Open Scope nat_scope.

(* ---- small list facts ---- *)
Lemma NoDup_map_filter : forall A B (f : A -> B) (p : A -> bool) l, NoDup (map f l) -> NoDup (map f (filter p l)).
Proof.
  intros A B f p l. induction l as [|a l IH]; intros H; simpl; [constructor|].
  inversion H as [|x y Hn Hd]. subst. destruct (p a); simpl; [|apply IH, Hd].
  constructor; [|apply IH, Hd]. intros Hi. apply Hn. apply in_map_iff in Hi. destruct Hi as (x & Hx & Hi).
  apply filter_In in Hi. apply in_map_iff. exists x. tauto.
Qed.

Lemma NoDup_map_inj : forall A B (f : A -> B) l a b, NoDup (map f l) -> In a l -> In b l -> f a = f b -> a = b.
Proof.
  intros A B f l. induction l as [|x l IH]; intros a b H Ha Hb Hf; [contradiction|].
  simpl in H. inversion H as [|y z Hn Hd]. subst. destruct Ha as [->|Ha], Hb as [->|Hb]; auto.
  - exfalso. apply Hn. rewrite Hf. apply in_map, Hb.
  - exfalso. apply Hn. rewrite <- Hf. apply in_map, Ha.
Qed.

Lemma NoDup_app_disjoint : forall A (a b : list A), NoDup a -> NoDup b -> (forall x, In x a -> In x b -> False) -> NoDup (a ++ b).
Proof.
  intros A a b Ha Hb Hd. induction a as [|x a IH]; simpl; [exact Hb|].
  inversion Ha as [|y z Hx Hy]. subst. constructor.
  - rewrite in_app_iff. intros [H|H]; [contradiction|]. apply (Hd x (or_introl eq_refl) H).
  - apply IH; [exact Hy|]. intros y Hy1 Hy2. apply (Hd y (or_intror Hy1) Hy2).
Qed.

Lemma NoDup_app_snoc : forall A (l : list A) x, NoDup l -> ~ In x l -> NoDup (l ++ [x]).
Proof.
  intros A l x Hl Hx. apply NoDup_app_disjoint; [exact Hl|constructor; [intros []|constructor]|].
  intros y Hy [<-|[]]. contradiction.
Qed.

Lemma existsb_nat_in : forall x l, existsb (Nat.eqb x) l = true <-> In x l.
Proof.
  intros x l. rewrite existsb_exists. split.
  - intros (y & Hy & E). apply Nat.eqb_eq in E. subst. exact Hy.
  - intros H. exists x. split; [exact H|apply Nat.eqb_refl].
Qed.

Lemma filter_filter : forall A (f g : A -> bool) l, filter f (filter g l) = filter (fun x => g x && f x) l.
Proof.
  intros A f g l. induction l as [|a l IH]; simpl; [reflexivity|].
  destruct (g a); simpl; [destruct (f a); rewrite IH; reflexivity|exact IH].
Qed.

(* ---- the spec's pending list ---- *)
Definition minus (P : list sint) (pids : list nat) : list sint :=
  filter (fun i => negb (existsb (Nat.eqb (s_pid i)) pids)) P.

Lemma in_minus : forall P pids i, In i (minus P pids) <-> In i P /\ ~ In (s_pid i) pids.
Proof.
  intros P pids i. unfold minus. rewrite filter_In. rewrite negb_true_iff. split.
  - intros (A & B). split; [exact A|]. intros C. apply existsb_nat_in in C. congruence.
  - intros (A & B). split; [exact A|]. destruct (existsb (Nat.eqb (s_pid i)) pids) eqn:E; [|reflexivity].
    apply existsb_nat_in in E. contradiction.
Qed.

Lemma find_pending_some : forall P i, NoDup (map s_pid P) -> In i P -> find_pending P (s_pid i) = Some i.
Proof.
  intros P i. unfold find_pending. induction P as [|x P IH]; intros Hn Hi; [contradiction|].
  simpl in *. inversion Hn as [|y z Hx Hd]. subst. destruct Hi as [->|Hi].
  - rewrite Nat.eqb_refl. reflexivity.
  - destruct (Nat.eqb (s_pid x) (s_pid i)) eqn:E.
    + apply Nat.eqb_eq in E. exfalso. apply Hx. rewrite E. apply in_map, Hi.
    + apply IH; assumption.
Qed.

Lemma remove_pending_minus : forall P p, remove_pending P p = minus P [p].
Proof.
  intros P p. unfold remove_pending, minus. apply filter_ext. intros i. simpl. rewrite orb_false_r. reflexivity.
Qed.

Lemma minus_minus : forall P a b, minus (minus P a) b = minus P (a ++ b).
Proof.
  intros P a b. unfold minus. rewrite filter_filter. apply filter_ext. intros i.
  rewrite existsb_app, negb_orb. reflexivity.
Qed.

(* the callbacks of one event are accepted when they are for distinct pending Interests and each result is acceptable *)
Lemma check_cbs_ok : forall ok bad (res : result) (es : list pend) P,
  NoDup (map s_pid P) -> NoDup (map pid es) ->
  (forall e, In e es -> exists i, In i P /\ s_pid i = pid e /\ ok i res = true) ->
  check_cbs ok bad P (map (fun e => OCb (pid e) res) es) = inl (minus P (map pid es)).
Proof.
  intros ok bad res es. induction es as [|e es IH]; intros P HP He Hok.
  - simpl. f_equal. unfold minus. simpl. clear. induction P as [|a P IH]; simpl; [reflexivity|]. rewrite <- IH. reflexivity.
  - simpl. destruct (Hok e (or_introl eq_refl)) as (i & Hi & Hpid & Hoki).
    rewrite <- Hpid, (find_pending_some P i HP Hi), Hoki, Hpid, remove_pending_minus.
    inversion He as [|x y Hne Hde]. subst.
    rewrite IH.
    + rewrite minus_minus. reflexivity.
    + unfold minus. apply NoDup_map_filter, HP.
    + exact Hde.
    + intros e' He'. destruct (Hok e' (or_intror He')) as (i' & Hi' & Hpid' & Hok').
      exists i'. split; [|auto]. apply in_minus. split; [exact Hi'|]. simpl. intros [C|[]].
      apply Hne. rewrite C, Hpid'. apply in_map, He'.
Qed.

(* ---- the invariant ---- *)
Record pinv (s : state) (P : list sint) : Prop := {
  pi_wf : pwf (pit s);
  pi_len : length (timers s) = npid s;
  pi_ent : forall n e, In e (nval (hget (pit s) n)) ->
      ptimer e = pid e /\
      exists i, In i P /\ s_pid i = pid e /\ s_cbp i = pcbp e /\ s_dig i = pdig e /\ s_deadline i = pdeadline e /\
                exact_match (pit s) 0 (s_name i) = Some n;
  pi_pend : forall i, In i P -> exists n e, In e (nval (hget (pit s) n)) /\ pid e = s_pid i;
  pi_nodup_node : forall n, NoDup (map pid (nval (hget (pit s) n)));
  pi_nodupP : NoDup (map s_pid P);
  pi_lt : forall i, In i P -> s_pid i < npid s;
  pi_timer : forall n e, In e (nval (hget (pit s) n)) ->
      exists t, nth_error (timers s) (pid e) = Some t /\ tnode t = n /\ (tst t = TSched \/ tst t = TFired) /\
                (pdeadline e <= tfire t)%N;
  pi_fired : forall tid t, nth_error (timers s) tid = Some t -> tst t = TFired -> (tfire t <= now s)%N }.

Lemma sint_unique : forall P i i', NoDup (map s_pid P) -> In i P -> In i' P -> s_pid i = s_pid i' -> i = i'.
Proof. intros P i i' H A B C. eapply (NoDup_map_inj _ _ s_pid); eauto. Qed.

(* entries with the same Interest id are the same entry in the same node *)
Lemma entry_unique : forall s P n n' e e', pinv s P ->
  In e (nval (hget (pit s) n)) -> In e' (nval (hget (pit s) n')) -> pid e = pid e' -> n = n' /\ e = e'.
Proof.
  intros s P n n' e e' I He He' Hp.
  destruct (pi_ent s P I n e He) as (_ & i & Hi & Hpi & _ & _ & _ & Hm).
  destruct (pi_ent s P I n' e' He') as (_ & i' & Hi' & Hpi' & _ & _ & _ & Hm').
  assert (i = i') by (eapply sint_unique; eauto using pi_nodupP; congruence). subst i'.
  assert (n = n') by congruence. subst n'. split; [reflexivity|].
  eapply (NoDup_map_inj _ _ pid); eauto using pi_nodup_node.
Qed.

(* ---- generic resolution step ----
   The heap h' has the structure-preserving shape "every node keeps a sublist (filter) of its entries"; the removed
   entries are enumerated (in callback order) by Rl; live paths of nodes that still hold entries survive; the timers of
   the remaining entries are untouched. *)
Lemma resolve_step : forall s P (h' : pheap) (ts' : list timer) (keepf : nat -> pend -> bool) (Rl : list pend),
  pinv s P ->
  pwf h' ->
  (forall j, nval (hget h' j) = filter (keepf j) (nval (hget (pit s) j))) ->
  (forall e, In e Rl -> exists j, In e (nval (hget (pit s) j)) /\ keepf j e = false) ->
  (forall j e, In e (nval (hget (pit s) j)) -> keepf j e = false -> In e Rl) ->
  (forall r j, exact_match (pit s) 0 r = Some j -> nval (hget h' j) <> [] -> exact_match h' 0 r = Some j) ->
  length ts' = length (timers s) ->
  (forall j t', nth_error ts' j = Some t' -> exists t, nth_error (timers s) j = Some t /\ tnode t' = tnode t /\ tfire t' = tfire t /\
                (tst t' = TFired -> tst t = TFired) /\ (~ In j (map pid Rl) -> tst t' = tst t \/ forall n e, In e (nval (hget h' n)) -> pid e <> j)) ->
  pinv (with_pit s h' ts') (minus P (map pid Rl)).
Proof.
  intros s P h' ts' keepf Rl I W' Hv HR1 HR2 Hlive Hlen Hts.
  assert (Hsub : forall j e, In e (nval (hget h' j)) -> In e (nval (hget (pit s) j)) /\ keepf j e = true).
  { intros j e. rewrite Hv, filter_In. auto. }
  assert (Hnot : forall j e, In e (nval (hget h' j)) -> ~ In (pid e) (map pid Rl)).
  { intros j e He Hin. apply in_map_iff in Hin. destruct Hin as (e' & Hp & He').
    destruct (HR1 e' He') as (j' & Hj' & Hk'). destruct (Hsub j e He) as (Hj & Hk).
    destruct (entry_unique s P j j' e e' I Hj Hj' (eq_sym Hp)) as (-> & ->). congruence. }
  constructor; simpl.
  - exact W'.
  - rewrite Hlen. apply (pi_len s P I).
  - intros n e He. destruct (Hsub n e He) as (Hold & _).
    destruct (pi_ent s P I n e Hold) as (Ht & i & Hi & Hpi & Hc & Hd & Hdl & Hm).
    split; [exact Ht|]. exists i. split.
    + apply in_minus. split; [exact Hi|]. rewrite Hpi. apply (Hnot n e He).
    + repeat split; auto. apply Hlive; [exact Hm|]. intros E. rewrite E in He. contradiction.
  - intros i Hi. apply in_minus in Hi. destruct Hi as (Hi & Hn).
    destruct (pi_pend s P I i Hi) as (n & e & He & Hp). exists n, e. split; [|exact Hp].
    rewrite Hv, filter_In. split; [exact He|]. destruct (keepf n e) eqn:Ek; [reflexivity|].
    exfalso. apply Hn. rewrite <- Hp. apply in_map. apply (HR2 n e He Ek).
  - intros n. rewrite Hv. apply NoDup_map_filter. apply (pi_nodup_node s P I).
  - unfold minus. apply NoDup_map_filter. apply (pi_nodupP s P I).
  - intros i Hi. apply in_minus in Hi. apply (pi_lt s P I i (proj1 Hi)).
  - intros n e He. destruct (Hsub n e He) as (Hold & _).
    destruct (pi_timer s P I n e Hold) as (t & Ht & Hn & Hs & Hd).
    assert (Hl : pid e < length ts') by (rewrite Hlen; apply nth_error_Some; congruence).
    destruct (nth_error ts' (pid e)) as [t'|] eqn:Et'; [|apply nth_error_None in Et'; lia].
    destruct (Hts (pid e) t' Et') as (t0 & Ht0 & A & B & C & D).
    assert (t0 = t) by congruence. subst t0.
    exists t'. split; [reflexivity|]. split; [congruence|]. split; [|rewrite B; exact Hd].
    destruct (D (Hnot n e He)) as [D1|D2]; [rewrite D1; exact Hs|]. exfalso. exact (D2 n e He eq_refl).
  - intros tid t' Ht' Hf. destruct (Hts tid t' Ht') as (t & Ht & A & B & C & D).
    rewrite B. apply (pi_fired s P I tid t Ht (C Hf)).
Qed.
