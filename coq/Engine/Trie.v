(* Engine/Trie.v — facts about the heap model of NameTrie (Model.v, Section Trie) for an arbitrary value type:
   well-formedness [twf], paths ([exact_match] from the root is "the live node with this path"), the parent chain of a
   live node, MatchAlways, and the repaired DeleteIf. *)
From Coq Require Import List NArith Bool Arith Lia.
From Engine Require Import Model.
Import ListNotations.
Local Open Scope nat_scope.

Section TrieFacts.
  Variable V : Type.
  Variable vzero : V.
  Notation heap := (heap V).
  Notation node := (node V).

  Definition chd_of (h : heap) (i : nat) : list (key * nat) :=
    match nchd (hget h i) with Some l => l | None => [] end.

  Lemma chd_find_of : forall (h : heap) i k, chd_find (nchd (hget h i)) k = assoc k (chd_of h i).
  Proof. intros. unfold chd_find, chd_of. destruct (nchd (hget h i)); reflexivity. Qed.

  (* ---- heap access ---- *)
  Lemma hget_hset_same : forall (h : heap) i n, hget (hset h i n) i = n.
  Proof. intros. simpl. rewrite Nat.eqb_refl. reflexivity. Qed.
  Lemma hget_hset_other : forall (h : heap) i j n, j <> i -> hget (hset h i n) j = hget h j.
  Proof. intros. simpl. destruct (Nat.eqb j i) eqn:E; [apply Nat.eqb_eq in E; contradiction|reflexivity]. Qed.
  Lemma hget_set_val : forall (h : heap) i v j,
    hget (set_val h i v) j =
    if Nat.eqb j i then mkNode v (nkey (hget h i)) (npar (hget h i)) (ndep (hget h i)) (nchd (hget h i)) else hget h j.
  Proof. intros. reflexivity. Qed.
  Lemma hget_set_chd : forall (h : heap) i c j,
    hget (set_chd h i c) j =
    if Nat.eqb j i then mkNode (nval (hget h i)) (nkey (hget h i)) (npar (hget h i)) (ndep (hget h i)) c else hget h j.
  Proof. intros. reflexivity. Qed.

  Lemma set_val_struct : forall (h : heap) i v j,
    nkey (hget (set_val h i v) j) = nkey (hget h j) /\ npar (hget (set_val h i v) j) = npar (hget h j) /\
    ndep (hget (set_val h i v) j) = ndep (hget h j) /\ nchd (hget (set_val h i v) j) = nchd (hget h j).
  Proof.
    intros. rewrite hget_set_val. destruct (Nat.eqb j i) eqn:E.
    - apply Nat.eqb_eq in E. subst. simpl. auto.
    - auto.
  Qed.
  Lemma set_val_nval : forall (h : heap) i v j,
    nval (hget (set_val h i v) j) = if Nat.eqb j i then v else nval (hget h j).
  Proof. intros. rewrite hget_set_val. destruct (Nat.eqb j i); reflexivity. Qed.
  Lemma set_val_next : forall (h : heap) i v, hnext (set_val h i v) = hnext h.
  Proof. reflexivity. Qed.
  Lemma set_chd_next : forall (h : heap) i c, hnext (set_chd h i c) = hnext h.
  Proof. reflexivity. Qed.

  Lemma set_chd_struct : forall (h : heap) i c j,
    nkey (hget (set_chd h i c) j) = nkey (hget h j) /\ npar (hget (set_chd h i c) j) = npar (hget h j) /\
    ndep (hget (set_chd h i c) j) = ndep (hget h j) /\ nval (hget (set_chd h i c) j) = nval (hget h j).
  Proof.
    intros. rewrite hget_set_chd. destruct (Nat.eqb j i) eqn:E.
    - apply Nat.eqb_eq in E. subst. simpl. auto.
    - auto.
  Qed.
  Lemma set_chd_chd : forall (h : heap) i c j,
    nchd (hget (set_chd h i c) j) = if Nat.eqb j i then c else nchd (hget h j).
  Proof. intros. rewrite hget_set_chd. destruct (Nat.eqb j i); reflexivity. Qed.

  Lemma exact_match_set_val : forall (h : heap) i v r a, exact_match (set_val h i v) a r = exact_match h a r.
  Proof.
    intros h i v r. induction r as [|k r IH]; intros a; cbn [exact_match]; [reflexivity|].
    destruct (set_val_struct h i v a) as (_ & _ & _ & Hc). rewrite Hc.
    destruct (chd_find (nchd (hget h a)) k); [apply IH|reflexivity].
  Qed.
  Lemma prefix_match_set_val : forall (h : heap) i v r a, prefix_match (set_val h i v) a r = prefix_match h a r.
  Proof.
    intros h i v r. induction r as [|k r IH]; intros a; cbn [prefix_match]; [reflexivity|].
    destruct (set_val_struct h i v a) as (_ & _ & _ & Hc). rewrite Hc.
    destruct (chd_find (nchd (hget h a)) k); [apply IH|reflexivity].
  Qed.

  (* ---- assoc ---- *)
  Lemma assoc_filter_other : forall k k' (l : list (key * nat)), k' <> k ->
    assoc k' (filter (fun kv => negb (N.eqb (fst kv) k)) l) = assoc k' l.
  Proof.
    intros k k' l Hne. induction l as [|[a j] l IH]; simpl; [reflexivity|].
    destruct (N.eqb a k) eqn:Ea; simpl.
    - apply N.eqb_eq in Ea. subst a. destruct (N.eqb k k') eqn:E; [apply N.eqb_eq in E; congruence|exact IH].
    - destruct (N.eqb a k'); [reflexivity|exact IH].
  Qed.
  Lemma assoc_filter_same : forall k (l : list (key * nat)),
    assoc k (filter (fun kv => negb (N.eqb (fst kv) k)) l) = None.
  Proof.
    intros k l. induction l as [|[a j] l IH]; simpl; [reflexivity|].
    destruct (N.eqb a k) eqn:Ea; simpl; [exact IH|]. rewrite Ea. exact IH.
  Qed.
  Lemma assoc_in : forall k (l : list (key * nat)) j, assoc k l = Some j -> In (k, j) l.
  Proof.
    intros k l j. induction l as [|[a x] l IH]; simpl; [discriminate|].
    destruct (N.eqb a k) eqn:Ea.
    - apply N.eqb_eq in Ea. subst. intros H. inversion H. subst. left. reflexivity.
    - intros H. right. apply IH, H.
  Qed.
  Lemma assoc_none_nil : forall (l : list (key * nat)), (forall k, assoc k l = None) -> l = [].
  Proof.
    intros [|[a x] l] H; [reflexivity|]. specialize (H a). simpl in H. rewrite N.eqb_refl in H. discriminate.
  Qed.

  (* ---- well-formedness ---- *)
  Record twf (h : heap) : Prop := {
    wf_root_par : npar (hget h 0) = None;
    wf_root_dep : ndep (hget h 0) = 0;
    wf_next : 0 < hnext h;
    wf_chd_some : forall i, nchd (hget h i) <> None;
    wf_child : forall i k j, assoc k (chd_of h i) = Some j ->
       j < hnext h /\ j <> 0 /\ npar (hget h j) = Some i /\ nkey (hget h j) = k /\ ndep (hget h j) = S (ndep (hget h i));
    wf_par : forall j p, npar (hget h j) = Some p -> p < hnext h /\ ndep (hget h j) = S (ndep (hget h p));
    wf_unalloc : forall i, hnext h <= i -> hget h i = root_node V vzero }.

  Lemma twf_init : twf (heap_init vzero).
  Proof.
    constructor; simpl; auto; try discriminate.
  Qed.

  Lemma twf_set_val : forall (h : heap) i v, twf h -> i < hnext h -> twf (set_val h i v).
  Proof.
    intros h i v W Hi. destruct W as [W1 W2 W3 W4 W5 W6 W7].
    assert (Hst : forall j, nkey (hget (set_val h i v) j) = nkey (hget h j) /\ npar (hget (set_val h i v) j) = npar (hget h j) /\
      ndep (hget (set_val h i v) j) = ndep (hget h j) /\ nchd (hget (set_val h i v) j) = nchd (hget h j)) by (intro; apply set_val_struct).
    constructor.
    - destruct (Hst 0) as (_ & H & _). rewrite H. exact W1.
    - destruct (Hst 0) as (_ & _ & H & _). rewrite H. exact W2.
    - exact W3.
    - intros j. destruct (Hst j) as (_ & _ & _ & H). rewrite H. apply W4.
    - intros a k j. unfold chd_of. destruct (Hst a) as (_ & _ & Hd & Hc). rewrite Hc. intros H.
      destruct (W5 a k j H) as (A & B & C & D & E).
      destruct (Hst j) as (Hk & Hp & Hdj & _). rewrite Hk, Hp, Hdj, Hd. auto.
    - intros j p. destruct (Hst j) as (_ & Hp & Hd & _). rewrite Hp, Hd. intros H.
      destruct (W6 j p H) as (A & B). destruct (Hst p) as (_ & _ & Hdp & _). rewrite Hdp. auto.
    - intros j Hj. simpl in Hj. rewrite hget_set_val.
      destruct (Nat.eqb j i) eqn:E; [apply Nat.eqb_eq in E; lia|apply W7, Hj].
  Qed.

  (* ---- paths ---- *)
  Lemma exact_match_app : forall (h : heap) a b i,
    exact_match h i (a ++ b) = match exact_match h i a with Some m => exact_match h m b | None => None end.
  Proof.
    intros h a b. induction a as [|k a IH]; intros i; simpl; [reflexivity|].
    destruct (chd_find (nchd (hget h i)) k); [apply IH|reflexivity].
  Qed.

  Lemma exact_match_dep : forall (h : heap), twf h -> forall r i n, exact_match h i r = Some n -> ndep (hget h n) = ndep (hget h i) + length r.
  Proof.
    intros h W r. induction r as [|k r IH]; intros i n H; simpl in H.
    - inversion H. subst. simpl. lia.
    - rewrite chd_find_of in H. destruct (assoc k (chd_of h i)) as [j|] eqn:E; [|discriminate].
      destruct (wf_child h W i k j E) as (_ & _ & _ & _ & Hd). rewrite (IH j n H), Hd. simpl. lia.
  Qed.

  Lemma exact_match_lt : forall (h : heap), twf h -> forall r i n, i < hnext h -> exact_match h i r = Some n -> n < hnext h.
  Proof.
    intros h W r. induction r as [|k r IH]; intros i n Hi H; simpl in H.
    - inversion H. subst. exact Hi.
    - rewrite chd_find_of in H. destruct (assoc k (chd_of h i)) as [j|] eqn:E; [|discriminate].
      destruct (wf_child h W i k j E) as (Hj & _). eapply IH; eauto.
  Qed.

  (* the last step of a path: parent pointer and key *)
  Lemma exact_match_snoc : forall (h : heap), twf h -> forall q k n,
    exact_match h 0 (q ++ [k]) = Some n ->
    exists m, exact_match h 0 q = Some m /\ npar (hget h n) = Some m /\ nkey (hget h n) = k /\ n <> 0 /\
              assoc k (chd_of h m) = Some n.
  Proof.
    intros h W q k n H. rewrite exact_match_app in H. destruct (exact_match h 0 q) as [m|] eqn:E; [|discriminate].
    simpl in H. rewrite chd_find_of in H. destruct (assoc k (chd_of h m)) as [j|] eqn:Ej; [|discriminate].
    inversion H. subst j. destruct (wf_child h W m k n Ej) as (_ & Hn0 & Hp & Hk & _).
    exists m. auto.
  Qed.

  Lemma snoc_cases : forall (q : name), q = [] \/ exists q' k, q = q' ++ [k].
  Proof.
    intros q. destruct q as [|x q] using rev_ind; [left; reflexivity|right; exists q, x; reflexivity].
  Qed.

  (* a live node has exactly one path *)
  Lemma exact_match_inj : forall (h : heap), twf h -> forall p q n,
    exact_match h 0 p = Some n -> exact_match h 0 q = Some n -> p = q.
  Proof.
    intros h W p. induction p as [|k p IH] using rev_ind; intros q n Hp Hq.
    - simpl in Hp. inversion Hp. subst n. destruct (snoc_cases q) as [->|(q' & k & ->)]; [reflexivity|].
      apply (exact_match_snoc h W) in Hq. destruct Hq as (m & _ & _ & _ & Hn0 & _). congruence.
    - destruct (snoc_cases q) as [->|(q' & k' & ->)].
      + simpl in Hq. inversion Hq. subst n.
        apply (exact_match_snoc h W) in Hp. destruct Hp as (m & _ & _ & _ & Hn0 & _). congruence.
      + apply (exact_match_snoc h W) in Hp. destruct Hp as (m & Hm & Hpar & Hk & _).
        apply (exact_match_snoc h W) in Hq. destruct Hq as (m' & Hm' & Hpar' & Hk' & _).
        assert (m = m') by congruence. subst m'. assert (k = k') by congruence. subst k'.
        f_equal; [exact (IH q' m Hm Hm')|congruence].
  Qed.

  Lemma exact_match_root_dep : forall (h : heap), twf h -> forall q n, exact_match h 0 q = Some n -> ndep (hget h n) = length q.
  Proof. intros h W q n H. rewrite (exact_match_dep h W q 0 n H), (wf_root_dep h W). reflexivity. Qed.

  (* prefix_match returns the live node of the longest existing prefix *)
  Lemma prefix_match_spec : forall (h : heap) r i,
    exists a b, r = a ++ b /\ exact_match h i a = Some (prefix_match h i r) /\
                (b = [] \/ exists k b', b = k :: b' /\ chd_find (nchd (hget h (prefix_match h i r))) k = None).
  Proof.
    intros h r. induction r as [|k r IH]; intros i; simpl.
    - exists [], []. auto.
    - destruct (chd_find (nchd (hget h i)) k) as [j|] eqn:E.
      + destruct (IH j) as (a & b & Hr & Ha & Hb). exists (k :: a), b. simpl. rewrite E. subst r. auto.
      + exists [], (k :: r). simpl. split; [reflexivity|]. split; [reflexivity|]. right. exists k, r. auto.
  Qed.

  (* an existing path that is a prefix of r is a prefix of the path prefix_match reaches *)
  Lemma prefix_match_longest : forall (h : heap) r i a b p c m,
    r = a ++ b -> exact_match h i a = Some (prefix_match h i r) ->
    (b = [] \/ exists k b', b = k :: b' /\ chd_find (nchd (hget h (prefix_match h i r))) k = None) ->
    r = p ++ c -> exact_match h i p = Some m -> length p <= length a.
  Proof.
    intros h r. induction r as [|k r IH]; intros i a b p c m Hr Ha Hb Hp Hm.
    - destruct p; [simpl; lia|]. destruct (app_eq_nil _ _ (eq_sym Hp)). discriminate.
    - destruct p as [|k' p]; [simpl; lia|]. simpl in Hp. inversion Hp. subst k'.
      simpl in Hm. destruct (chd_find (nchd (hget h i)) k) as [j|] eqn:E; [|discriminate].
      simpl in Ha, Hb. rewrite E in Ha, Hb.
      destruct a as [|k' a].
      + simpl in Ha. inversion Ha as [Hi]. simpl in Hr. subst b.
        destruct Hb as [Hb|(k2 & b' & Hb & Hn)]; [discriminate|]. inversion Hb. subst k2 b'.
        rewrite <- Hi in Hn. rewrite E in Hn. discriminate.
      + simpl in Hr. inversion Hr. subst k'. simpl in Ha. rewrite E in Ha. simpl.
        apply le_n_S. eapply (IH j a b p c m); eauto.
  Qed.

  (* ---- MatchAlways ---- *)
  Definition same_old (h h' : heap) : Prop :=
    hnext h <= hnext h' /\
    (forall i, i < hnext h -> nval (hget h' i) = nval (hget h i) /\ nkey (hget h' i) = nkey (hget h i) /\
                               npar (hget h' i) = npar (hget h i) /\ ndep (hget h' i) = ndep (hget h i)) /\
    (forall i, hnext h <= i -> i < hnext h' -> nval (hget h' i) = vzero) /\
    (forall i k j, assoc k (chd_of h i) = Some j -> assoc k (chd_of h' i) = Some j) /\
    (forall i k j, assoc k (chd_of h' i) = Some j -> j < hnext h -> assoc k (chd_of h i) = Some j).

  Lemma same_old_refl : forall (h : heap), same_old h h.
  Proof. intros h. repeat split; auto; intros; lia. Qed.

  Lemma same_old_trans : forall h1 h2 h3, twf h2 -> same_old h1 h2 -> same_old h2 h3 -> same_old h1 h3.
  Proof.
    intros h1 h2 h3 W2 (A1 & A2 & A3 & A4 & A5) (B1 & B2 & B3 & B4 & B5). repeat split.
    - lia.
    - destruct (A2 i H) as (E1 & _). destruct (B2 i ltac:(lia)) as (F1 & _). congruence.
    - destruct (A2 i H) as (_ & E1 & _). destruct (B2 i ltac:(lia)) as (_ & F1 & _). congruence.
    - destruct (A2 i H) as (_ & _ & E1 & _). destruct (B2 i ltac:(lia)) as (_ & _ & F1 & _). congruence.
    - destruct (A2 i H) as (_ & _ & _ & E1). destruct (B2 i ltac:(lia)) as (_ & _ & _ & F1). congruence.
    - intros i Hi Hi'. destruct (Nat.lt_ge_cases i (hnext h2)) as [L|L].
      + destruct (B2 i L) as (E & _). rewrite E. apply A3; assumption.
      + apply B3; assumption.
    - intros i k j H. apply B4, A4, H.
    - intros i k j H Hj. apply A5; [|exact Hj]. apply B5; [exact H|lia].
  Qed.

  Lemma same_old_exact : forall h h', same_old h h' -> forall r i n, exact_match h i r = Some n -> exact_match h' i r = Some n.
  Proof.
    intros h h' (_ & _ & _ & A4 & _) r. induction r as [|k r IH]; intros i n H; simpl in *; [exact H|].
    rewrite chd_find_of in *. destruct (assoc k (chd_of h i)) as [j|] eqn:E; [|discriminate].
    rewrite (A4 i k j E). apply IH, H.
  Qed.

  (* a path of the new heap that ends in an old node is a path of the old heap *)
  Lemma same_old_exact_inv : forall h h', twf h' -> same_old h h' ->
    forall q n, exact_match h' 0 q = Some n -> n < hnext h -> (forall i p, npar (hget h' i) = Some p -> i < hnext h -> p < hnext h) ->
    exact_match h 0 q = Some n.
  Proof.
    intros h h' W' S q. induction q as [|k q IH] using rev_ind; intros n H Hn Hpar.
    - exact H.
    - apply (exact_match_snoc h' W') in H. destruct H as (m & Hm & Hp & _ & _ & Ha).
      assert (Hml : m < hnext h) by (eapply Hpar; eauto).
      rewrite exact_match_app, (IH m Hm Hml Hpar). simpl. rewrite chd_find_of.
      destruct S as (_ & _ & _ & _ & A5). rewrite (A5 m k n Ha Hn). reflexivity.
  Qed.

  Lemma twf_alloc_child : forall (h : heap) i k l, twf h -> i < hnext h -> nchd (hget h i) = Some l -> assoc k l = None ->
    let j := hnext h in
    let h1 := halloc h (mkNode vzero k (Some i) (S (ndep (hget h i))) (Some [])) in
    let h2 := set_chd h1 i (Some ((k, j) :: l)) in
    twf h2 /\ same_old h h2 /\ assoc k (chd_of h2 i) = Some j /\ hnext h2 = S (hnext h) /\
    (forall a p, npar (hget h2 a) = Some p -> a < hnext h -> p < hnext h).
  Proof.
    intros h i k l W Hi Hc Hk j h1 h2.
    assert (G : forall a, hget h2 a =
       if Nat.eqb a i then mkNode (nval (hget h i)) (nkey (hget h i)) (npar (hget h i)) (ndep (hget h i)) (Some ((k, j) :: l))
       else if Nat.eqb a j then mkNode vzero k (Some i) (S (ndep (hget h i))) (Some []) else hget h a).
    { intros a. unfold h2. rewrite hget_set_chd. unfold h1, halloc. simpl.
      assert (Nat.eqb i (hnext h) = false) by (apply Nat.eqb_neq; lia). rewrite H.
      destruct (Nat.eqb a i); reflexivity. }
    assert (Hij : i <> j) by (unfold j; lia).
    assert (Gi : hget h2 i = mkNode (nval (hget h i)) (nkey (hget h i)) (npar (hget h i)) (ndep (hget h i)) (Some ((k, j) :: l)))
      by (rewrite G, Nat.eqb_refl; reflexivity).
    assert (Gj : hget h2 j = mkNode vzero k (Some i) (S (ndep (hget h i))) (Some [])).
    { rewrite G. destruct (Nat.eqb j i) eqn:E; [apply Nat.eqb_eq in E; congruence|]. rewrite Nat.eqb_refl. reflexivity. }
    assert (Go : forall a, a <> i -> a <> j -> hget h2 a = hget h a).
    { intros a Ha Hb. rewrite G. destruct (Nat.eqb a i) eqn:E; [apply Nat.eqb_eq in E; congruence|].
      destruct (Nat.eqb a j) eqn:E2; [apply Nat.eqb_eq in E2; congruence|]. reflexivity. }
    assert (Hnext : hnext h2 = S (hnext h)) by reflexivity.
    assert (Hchd : forall a, chd_of h2 a = if Nat.eqb a i then (k, j) :: l else if Nat.eqb a j then [] else chd_of h a).
    { intros a. unfold chd_of. rewrite G. destruct (Nat.eqb a i); [reflexivity|]. destruct (Nat.eqb a j); reflexivity. }
    assert (Hci : chd_of h i = l) by (unfold chd_of; rewrite Hc; reflexivity).
    assert (Hroot : 0 <> j) by (unfold j; pose proof (wf_next h W); lia).
    assert (Hdep0 : forall a, a <> j -> ndep (hget h2 a) = ndep (hget h a) /\ npar (hget h2 a) = npar (hget h a) /\
                                        nkey (hget h2 a) = nkey (hget h a) /\ nval (hget h2 a) = nval (hget h a)).
    { intros a Ha. destruct (Nat.eq_dec a i) as [->|Hai]; [rewrite Gi; simpl; auto|rewrite (Go a Hai Ha); auto]. }
    split; [|split; [|split; [|split]]].
    - constructor.
      + destruct (Hdep0 0 Hroot) as (_ & Hp & _). rewrite Hp. apply (wf_root_par h W).
      + destruct (Hdep0 0 Hroot) as (Hd & _). rewrite Hd. apply (wf_root_dep h W).
      + rewrite Hnext. lia.
      + intros a. rewrite G. destruct (Nat.eqb a i); [simpl; discriminate|]. destruct (Nat.eqb a j); [simpl; discriminate|].
        apply (wf_chd_some h W).
      + intros a k' c. rewrite Hchd. rewrite Hnext.
        destruct (Nat.eqb a i) eqn:Ea.
        * apply Nat.eqb_eq in Ea. subst a. cbn [assoc]. destruct (N.eqb k k') eqn:Ek.
          -- apply N.eqb_eq in Ek. subst k'. intros H. inversion H. subst c.
             rewrite Gj, Gi. simpl. repeat split; auto; unfold j; pose proof (wf_next h W); lia.
          -- intros H. rewrite <- Hci in H. destruct (wf_child h W i k' c H) as (A & B & C & D & E).
             assert (c <> j) by (unfold j; lia).
             destruct (Hdep0 c H0) as (Hd & Hp & Hkk & _). rewrite Hd, Hp, Hkk, Gi. simpl. repeat split; auto.
        * destruct (Nat.eqb a j) eqn:Eaj; [simpl; discriminate|].
          apply Nat.eqb_neq in Ea. apply Nat.eqb_neq in Eaj. intros H.
          destruct (wf_child h W a k' c H) as (A & B & C & D & E).
          assert (c <> j) by (unfold j; lia).
          destruct (Hdep0 c H0) as (Hd & Hp & Hkk & _). destruct (Hdep0 a Eaj) as (Hda & _).
          rewrite Hd, Hp, Hkk, Hda. repeat split; auto.
      + intros a p. rewrite Hnext. destruct (Nat.eq_dec a j) as [->|Haj].
        * rewrite Gj. cbn [npar ndep]. intros H. inversion H. subst p. split; [lia|]. rewrite Gi. reflexivity.
        * destruct (Hdep0 a Haj) as (Hd & Hp & _). rewrite Hd, Hp. intros H.
          destruct (wf_par h W a p H) as (A & B). assert (p <> j) by (unfold j; lia).
          destruct (Hdep0 p H0) as (Hdp & _). rewrite Hdp. split; [lia|exact B].
      + intros a Ha. rewrite Hnext in Ha. rewrite Go; [apply (wf_unalloc h W); lia|lia|unfold j; lia].
    - repeat split.
      + rewrite Hnext. lia.
      + destruct (Hdep0 i0 ltac:(unfold j; lia)) as (_ & _ & _ & E). exact E.
      + destruct (Hdep0 i0 ltac:(unfold j; lia)) as (_ & _ & E & _). exact E.
      + destruct (Hdep0 i0 ltac:(unfold j; lia)) as (_ & E & _). exact E.
      + destruct (Hdep0 i0 ltac:(unfold j; lia)) as (E & _). exact E.
      + intros a Ha Ha'. rewrite Hnext in Ha'. assert (a = j) by (unfold j; lia). subst a. rewrite Gj. reflexivity.
      + intros a k' c H. rewrite Hchd. destruct (Nat.eqb a i) eqn:Ea.
        * apply Nat.eqb_eq in Ea. subst a. cbn [assoc]. destruct (N.eqb k k') eqn:Ek.
          -- apply N.eqb_eq in Ek. subst k'. rewrite Hci in H. congruence.
          -- rewrite <- Hci. exact H.
        * destruct (Nat.eqb a j) eqn:Eaj; [|exact H]. apply Nat.eqb_eq in Eaj. subst a.
          unfold chd_of in H. rewrite (wf_unalloc h W j ltac:(unfold j; lia)) in H. simpl in H. discriminate.
      + intros a k' c H Hcl. rewrite Hchd in H. destruct (Nat.eqb a i) eqn:Ea.
        * apply Nat.eqb_eq in Ea. subst a. cbn [assoc] in H. destruct (N.eqb k k') eqn:Ek.
          -- inversion H. subst c. unfold j in Hcl. lia.
          -- rewrite Hci. exact H.
        * destruct (Nat.eqb a j) eqn:Eaj; [simpl in H; discriminate|exact H].
    - rewrite Hchd, Nat.eqb_refl. simpl. rewrite N.eqb_refl. reflexivity.
    - exact Hnext.
    - intros a p H Ha. destruct (Hdep0 a ltac:(unfold j; lia)) as (_ & Hp & _). rewrite Hp in H.
      apply (wf_par h W a p H).
  Qed.

  Lemma match_always_spec : forall r h i, twf h -> i < hnext h ->
    exists h' n, match_always vzero h i r = Some (h', n) /\ twf h' /\ same_old h h' /\ exact_match h' i r = Some n /\
                 (forall a p, npar (hget h' a) = Some p -> a < hnext h -> p < hnext h).
  Proof.
    induction r as [|k r IH]; intros h i W Hi; cbn [match_always].
    - exists h, i. split; [reflexivity|]. split; [exact W|]. split; [apply same_old_refl|]. split; [reflexivity|].
      intros a p H Ha. apply (wf_par h W a p H).
    - rewrite chd_find_of. destruct (assoc k (chd_of h i)) as [j|] eqn:E.
      + destruct (wf_child h W i k j E) as (Hj & _). destruct (IH h j W Hj) as (h' & n & A & B & C & D & F).
        exists h', n. split; [exact A|]. split; [exact B|]. split; [exact C|]. split; [|exact F].
        destruct C as (_ & _ & _ & C4 & _). cbn [exact_match]. rewrite chd_find_of, (C4 i k j E). exact D.
      + destruct (nchd (hget h i)) as [l|] eqn:Hc; [|exfalso; exact (wf_chd_some h W i Hc)].
        assert (Hk : assoc k l = None) by (unfold chd_of in E; rewrite Hc in E; exact E).
        destruct (twf_alloc_child h i k l W Hi Hc Hk) as (W2 & S2 & A2 & N2 & P2).
        set (h2 := set_chd (halloc h (mkNode vzero k (Some i) (S (ndep (hget h i))) (Some []))) i (Some ((k, hnext h) :: l))) in *.
        destruct (IH h2 (hnext h) W2 ltac:(rewrite N2; lia)) as (h' & n & A & B & C & D & F).
        exists h', n. split; [exact A|]. split; [exact B|]. split; [exact (same_old_trans h h2 h' W2 S2 C)|]. split.
        * destruct C as (_ & _ & _ & C4 & _). cbn [exact_match]. rewrite chd_find_of, (C4 i k (hnext h) A2). exact D.
        * intros a p H Ha. destruct (Nat.lt_ge_cases a (hnext h2)) as [L|L].
          -- destruct C as (_ & C2 & _). destruct (C2 a L) as (_ & _ & Hp & _). rewrite Hp in H. eapply P2; eauto.
          -- rewrite N2 in L. lia.
  Qed.

  (* ---- the repaired DeleteIf ---- *)
  Definition same_vals (h h' : heap) : Prop :=
    hnext h' = hnext h /\
    forall i, nval (hget h' i) = nval (hget h i) /\ nkey (hget h' i) = nkey (hget h i) /\
              npar (hget h' i) = npar (hget h i) /\ ndep (hget h' i) = ndep (hget h i).

  Lemma twf_remove_leaf : forall (h : heap) p k x, twf h -> assoc k (chd_of h p) = Some x -> chd_of h x = [] ->
    let h' := set_chd h p (chd_remove (nchd (hget h p)) k) in
    twf h' /\ same_vals h h' /\
    (forall a k' c, assoc k' (chd_of h' a) = Some c -> assoc k' (chd_of h a) = Some c) /\
    (forall a k' c, assoc k' (chd_of h a) = Some c -> c <> x -> assoc k' (chd_of h' a) = Some c).
  Proof.
    intros h p k x W Hx Hleaf h'.
    assert (Hchd : forall a, chd_of h' a = if Nat.eqb a p then filter (fun kv => negb (N.eqb (fst kv) k)) (chd_of h p) else chd_of h a).
    { intros a. unfold chd_of, h'. rewrite set_chd_chd. destruct (Nat.eqb a p) eqn:E; [|reflexivity].
      unfold chd_remove. destruct (nchd (hget h p)); reflexivity. }
    assert (Hst : forall j, nkey (hget h' j) = nkey (hget h j) /\ npar (hget h' j) = npar (hget h j) /\
                          ndep (hget h' j) = ndep (hget h j) /\ nval (hget h' j) = nval (hget h j)) by (intro; apply set_chd_struct).
    assert (Sub : forall a k' c, assoc k' (chd_of h' a) = Some c -> assoc k' (chd_of h a) = Some c).
    { intros a k' c. rewrite Hchd. destruct (Nat.eqb a p) eqn:E; [|auto]. apply Nat.eqb_eq in E. subst a.
      destruct (N.eq_dec k' k) as [->|Hne]; [rewrite assoc_filter_same; discriminate|].
      rewrite assoc_filter_other by exact Hne. auto. }
    split; [|split; [|split]].
    - destruct W as [W1 W2 W3 W4 W5 W6 W7]. constructor.
      + destruct (Hst 0) as (_ & H & _). rewrite H. exact W1.
      + destruct (Hst 0) as (_ & _ & H & _). rewrite H. exact W2.
      + exact W3.
      + intros a. unfold h'. rewrite set_chd_chd. destruct (Nat.eqb a p) eqn:E; [|apply W4].
        apply Nat.eqb_eq in E. subst a. unfold chd_remove. destruct (nchd (hget h p)) eqn:E2; [discriminate|exfalso; exact (W4 p E2)].
      + intros a k' c H. apply Sub in H. destruct (W5 a k' c H) as (A & B & C & D & E).
        destruct (Hst c) as (Hk & Hp & Hd & _). destruct (Hst a) as (_ & _ & Hda & _). rewrite Hk, Hp, Hd, Hda. auto.
      + intros j q. destruct (Hst j) as (_ & Hp & Hd & _). rewrite Hp, Hd. intros H.
        destruct (W6 j q H) as (A & B). destruct (Hst q) as (_ & _ & Hdq & _). rewrite Hdq. auto.
      + intros a Ha. unfold h'. rewrite hget_set_chd. destruct (Nat.eqb a p) eqn:E; [|apply W7, Ha].
        apply Nat.eqb_eq in E. subst a. exfalso.
        assert (chd_of h p = []) by (unfold chd_of; rewrite (W7 p Ha); reflexivity). rewrite H in Hx. discriminate.
    - split; [reflexivity|]. intros i. destruct (Hst i) as (A & B & C & D). auto.
    - exact Sub.
    - intros a k' c H Hc. rewrite Hchd. destruct (Nat.eqb a p) eqn:E; [|exact H]. apply Nat.eqb_eq in E. subst a.
      destruct (N.eq_dec k' k) as [->|Hne]; [congruence|]. rewrite assoc_filter_other by exact Hne. exact H.
  Qed.

  (* paths of nodes other than the removed leaf survive; no new paths appear *)
  Lemma exact_sub : forall (h h' : heap),
    (forall a k' c, assoc k' (chd_of h' a) = Some c -> assoc k' (chd_of h a) = Some c) ->
    forall r i n, exact_match h' i r = Some n -> exact_match h i r = Some n.
  Proof.
    intros h h' Sub r. induction r as [|k r IH]; intros i n H; simpl in *; [exact H|].
    rewrite chd_find_of in *. destruct (assoc k (chd_of h' i)) as [j|] eqn:E; [|discriminate].
    rewrite (Sub i k j E). apply IH, H.
  Qed.

  Lemma exact_keep_leaf : forall (h h' : heap) x, chd_of h x = [] ->
    (forall a k' c, assoc k' (chd_of h a) = Some c -> c <> x -> assoc k' (chd_of h' a) = Some c) ->
    forall r i n, exact_match h i r = Some n -> n <> x -> exact_match h' i r = Some n.
  Proof.
    intros h h' x Hleaf Keep r. induction r as [|k r IH]; intros i n H Hn; simpl in *; [exact H|].
    rewrite chd_find_of in *. destruct (assoc k (chd_of h i)) as [j|] eqn:E; [|discriminate].
    destruct (Nat.eq_dec j x) as [->|Hj].
    - destruct r as [|k2 r]; simpl in H; [inversion H; congruence|].
      rewrite chd_find_of, Hleaf in H. simpl in H. discriminate.
    - rewrite (Keep i k j E Hj). apply IH; assumption.
  Qed.

  Lemma chd_len_zero : forall (h : heap) i, twf h -> chd_len (nchd (hget h i)) = 0 -> chd_of h i = [].
  Proof.
    intros h i W H. unfold chd_of, chd_len in *. destruct (nchd (hget h i)) as [l|]; [|reflexivity].
    destruct l; [reflexivity|discriminate].
  Qed.

  Lemma same_vals_refl : forall (h : heap), same_vals h h.
  Proof. intros h. split; [reflexivity|]. intros i. auto. Qed.

  Ltac dif_triv h W := exists h; split; [reflexivity|]; split; [exact W|]; split; [apply same_vals_refl|]; split; auto.

  Lemma delete_if_fixed_spec : forall (pred : V -> bool) fuel h i, twf h -> ndep (hget h i) < fuel ->
    exists h', delete_if_fixed pred fuel h i = Some h' /\ twf h' /\ same_vals h h' /\
      (forall r n, exact_match h' 0 r = Some n -> exact_match h 0 r = Some n) /\
      (forall r n, exact_match h 0 r = Some n -> pred (nval (hget h n)) = false -> exact_match h' 0 r = Some n).
  Proof.
    intros pred fuel. induction fuel as [|f IH]; intros h i W Hf; [lia|]. simpl.
    destruct (Nat.ltb 0 (chd_len (nchd (hget h i))) || negb (pred (nval (hget h i)))) eqn:Ec.
    - dif_triv h W.
    - apply orb_false_iff in Ec. destruct Ec as (Ec1 & Ec2). apply Nat.ltb_ge in Ec1. apply negb_false_iff in Ec2.
      assert (Hleaf : chd_of h i = []) by (apply chd_len_zero; [exact W|lia]).
      destruct (npar (hget h i)) as [p|] eqn:Ep; [|dif_triv h W].
      unfold opt_nat_eqb. rewrite chd_find_of.
      destruct (assoc (nkey (hget h i)) (chd_of h p)) as [x|] eqn:Ex; [|dif_triv h W].
      destruct (Nat.eqb x i) eqn:Exi; [|dif_triv h W].
      apply Nat.eqb_eq in Exi. subst x.
      destruct (twf_remove_leaf h p (nkey (hget h i)) i W Ex Hleaf) as (W' & SV & Sub & Keep).
      set (h1 := set_chd h p (chd_remove (nchd (hget h p)) (nkey (hget h i)))) in *.
      destruct (wf_par h W i p Ep) as (_ & Hd).
      destruct SV as (SVn & SVv).
      assert (Hf1 : ndep (hget h1 p) < f) by (destruct (SVv p) as (_ & _ & _ & E); rewrite E; lia).
      destruct (IH h1 p W' Hf1) as (h' & A & B & (Cn & Cv) & D & E).
      exists h'. split; [exact A|]. split; [exact B|]. split.
      + split; [congruence|]. intros a. destruct (Cv a) as (C1 & C2 & C3 & C4). destruct (SVv a) as (S1 & S2 & S3 & S4).
        repeat split; congruence.
      + split.
        * intros r n H. eapply exact_sub; [exact Sub|]. apply D, H.
        * intros r n H Hp. apply E.
          -- eapply exact_keep_leaf; eauto. intros ->. congruence.
          -- destruct (SVv n) as (S1 & _). rewrite S1. exact Hp.
  Qed.

  Lemma delete_if_current : forall (pred : V -> bool) h i, twf h ->
    exists h', delete_if true pred h i = Some h' /\ twf h' /\ same_vals h h' /\
      (forall r n, exact_match h' 0 r = Some n -> exact_match h 0 r = Some n) /\
      (forall r n, exact_match h 0 r = Some n -> pred (nval (hget h n)) = false -> exact_match h' 0 r = Some n).
  Proof.
    intros pred h i W. unfold delete_if.
    destruct (delete_if_fixed_spec pred (S (ndep (hget h i))) h i W ltac:(lia)) as (h' & A & B & C & D & E).
    exists h'. auto.
  Qed.

  (* the parent chain of the live node with path q visits the live nodes of the prefixes of q *)
  Lemma parent_of_live : forall (h : heap), twf h -> forall q k n, exact_match h 0 (q ++ [k]) = Some n ->
    exists m, npar (hget h n) = Some m /\ exact_match h 0 q = Some m.
  Proof.
    intros h W q k n H. destruct (exact_match_snoc h W q k n H) as (m & A & B & _). exists m. auto.
  Qed.
End TrieFacts.
