(* Engine/FibInv.v — the handler trie (application FIB) of the model (current variant) against the flat list of
   attached handlers of the spec: AttachHandler, DetachHandler and the longest-prefix walk-up of onInterest. *)
From Coq Require Import List NArith Bool Arith Lia.
From Engine Require Import Model Spec Trie PitWalk PitInv PitSteps.
Import ListNotations.
Local Open Scope nat_scope.

Notation fheap := (heap (option N)).
Notation fwf := (twf (option N) None).

Record finv (h : fheap) (H : list (name * N)) : Prop := {
  fi_wf : fwf h;
  fi_node : forall n hid, nval (hget h n) = Some hid -> exists nm, name_assoc nm H = Some hid /\ exact_match h 0 nm = Some n;
  fi_list : forall nm hid, name_assoc nm H = Some hid -> exists n, exact_match h 0 nm = Some n /\ nval (hget h n) = Some hid }.

Lemma finv_init : finv (heap_init None) [].
Proof.
  constructor.
  - apply twf_init.
  - intros n hid H. simpl in H. discriminate.
  - intros nm hid H. simpl in H. discriminate.
Qed.

Lemma name_eqb_neq : forall a b, name_eqb a b = false <-> a <> b.
Proof.
  intros a b. split.
  - intros H E. apply name_eqb_eq in E. congruence.
  - intros H. destruct (name_eqb a b) eqn:E; [|reflexivity]. apply name_eqb_eq in E. contradiction.
Qed.

Lemma name_assoc_filter : forall nm nm' (H : list (name * N)),
  name_assoc nm' (filter (fun mh => negb (name_eqb (fst mh) nm)) H) = if name_eqb nm' nm then None else name_assoc nm' H.
Proof.
  intros nm nm' H. induction H as [|[m h] H IH]; simpl.
  - destruct (name_eqb nm' nm); reflexivity.
  - destruct (name_eqb m nm) eqn:Em; simpl.
    + rewrite IH. apply name_eqb_eq in Em. subst m. destruct (name_eqb nm' nm) eqn:E; [reflexivity|].
      assert (name_eqb nm nm' = false).
      { apply name_eqb_neq. apply name_eqb_neq in E. congruence. }
      rewrite H0. reflexivity.
    + destruct (name_eqb m nm') eqn:Em'.
      * apply name_eqb_eq in Em'. subst m. rewrite Em. reflexivity.
      * exact IH.
Qed.

(* new nodes carry no handler: the invariant survives MatchAlways *)
Lemma finv_same_old : forall h h' H, finv h H -> fwf h' -> same_old _ None h h' -> finv h' H.
Proof.
  intros h h' H I W' SO. pose proof SO as (SO1 & SO2 & SO3 & SO4 & SO5). pose proof (fi_wf h H I) as W. constructor.
  - exact W'.
  - intros n hid Hv. destruct (Nat.lt_ge_cases n (hnext h)) as [L|L].
    + destruct (SO2 n L) as (E & _). rewrite E in Hv. destruct (fi_node h H I n hid Hv) as (nm & A & B).
      exists nm. split; [exact A|]. eapply same_old_exact; eauto.
    + destruct (Nat.lt_ge_cases n (hnext h')) as [L'|L'].
      * rewrite (SO3 n L L') in Hv. discriminate.
      * rewrite (wf_unalloc _ _ h' W' n L') in Hv. simpl in Hv. discriminate.
  - intros nm hid Ha. destruct (fi_list h H I nm hid Ha) as (n & A & B). exists n. split; [eapply same_old_exact; eauto|].
    assert (L : n < hnext h) by (eapply exact_match_lt; eauto; apply (wf_next _ _ h W)).
    destruct (SO2 n L) as (E & _). rewrite E. exact B.
Qed.

(* ---- AttachHandler ---- *)
Lemma attach_finv : forall s H nm hid, finv (fib s) H ->
  exists s' o H', attach s nm hid = (s', o) /\ finv (fib s') H' /\
    match name_assoc nm H with
    | Some _ => o = [ORet 1%N] /\ H' = H
    | None => o = [ORet 0%N] /\ H' = (nm, hid) :: H
    end /\
    now s' = now s /\ pit s' = pit s /\ timers s' = timers s /\ npid s' = npid s /\ inc s' = inc s /\ panicked s' = panicked s.
Proof.
  intros s H nm hid I. pose proof (fi_wf _ _ I) as W. unfold attach.
  destruct (match_always_spec _ None nm (fib s) 0 W (wf_next _ _ _ W)) as (h' & n & Hma & W' & SO & Hex & _).
  rewrite Hma. pose proof (finv_same_old _ _ _ I W' SO) as I'.
  destruct (nval (hget h' n)) as [x|] eqn:Ev.
  - destruct (fi_node _ _ I' n x Ev) as (nm' & A & B).
    assert (nm' = nm) by (exact (exact_match_inj _ _ h' W' _ _ n B Hex)). subst nm'.
    eexists _, _, H. split; [reflexivity|]. split; [exact I'|]. rewrite A. simpl. auto 10.
  - assert (Hnone : name_assoc nm H = None).
    { destruct (name_assoc nm H) as [x|] eqn:E; [|reflexivity].
      destruct (fi_list _ _ I' nm x E) as (n' & A & B). assert (n' = n) by congruence. subst n'. congruence. }
    rewrite Hnone. eexists _, _, ((nm, hid) :: H). split; [reflexivity|]. split; [|simpl; auto 10].
    assert (Hn : n < hnext h') by (eapply exact_match_lt; eauto; apply (wf_next _ _ _ W')).
    cbn [fib with_fib]. constructor.
    + apply twf_set_val; assumption.
    + intros m x. rewrite set_val_nval. destruct (Nat.eqb m n) eqn:Em.
      * apply Nat.eqb_eq in Em. subst m. intros Hx. inversion Hx. subst x. exists nm. cbn [name_assoc]. rewrite name_eqb_refl.
        split; [reflexivity|]. rewrite exact_match_set_val. exact Hex.
      * intros Hx. destruct (fi_node _ _ I' m x Hx) as (nm' & A & B). exists nm'. cbn [name_assoc].
        destruct (name_eqb nm nm') eqn:E.
        -- apply name_eqb_eq in E. subst nm'. apply Nat.eqb_neq in Em. congruence.
        -- split; [exact A|]. rewrite exact_match_set_val. exact B.
    + intros nm' x. cbn [name_assoc]. destruct (name_eqb nm nm') eqn:E.
      * apply name_eqb_eq in E. subst nm'. intros Hx. inversion Hx. subst x. exists n.
        rewrite exact_match_set_val, set_val_nval, Nat.eqb_refl. auto.
      * intros Hx. destruct (fi_list _ _ I' nm' x Hx) as (m & A & B). exists m. rewrite exact_match_set_val, set_val_nval.
        split; [exact A|]. destruct (Nat.eqb m n) eqn:Em; [|exact B].
        apply Nat.eqb_eq in Em. subst m. apply name_eqb_neq in E. exfalso. apply E.
        exact (exact_match_inj _ _ h' W' _ _ n Hex A).
Qed.

(* ---- DetachHandler ---- *)
Lemma detach_finv : forall s H nm, finv (fib s) H ->
  exists s' o, detach current s nm = (s', o) /\
    ((o = [ORet 0%N] /\ finv (fib s') (filter (fun mh => negb (name_eqb (fst mh) nm)) H)) \/
     (o = [ORet 1%N] /\ name_assoc nm H = None /\ finv (fib s') H)) /\
    now s' = now s /\ pit s' = pit s /\ timers s' = timers s /\ npid s' = npid s /\ inc s' = inc s /\ panicked s' = panicked s.
Proof.
  intros s H nm I. pose proof (fi_wf _ _ I) as W. unfold detach.
  destruct (exact_match (fib s) 0 nm) as [n|] eqn:Em.
  2:{ exists s, [ORet 1%N]. split; [reflexivity|]. split; [|auto 10]. right. split; [reflexivity|]. split; [|exact I].
      destruct (name_assoc nm H) as [x|] eqn:E; [|reflexivity]. destruct (fi_list _ _ I nm x E) as (n & A & _). congruence. }
  cbn [v_detach v_delif current].
  set (h1 := set_val (fib s) n None).
  assert (Hn : n < hnext (fib s)) by (eapply exact_match_lt; eauto; apply (wf_next _ _ _ W)).
  assert (W1 : fwf h1) by (apply twf_set_val; assumption).
  destruct (delete_if_current _ None is_none h1 n W1) as (h2 & A & W2 & (C1 & C2) & D & E).
  rewrite A. eexists _, _. split; [reflexivity|]. split; [|simpl; auto 10]. left. split; [reflexivity|]. cbn [fib with_fib].
  assert (Hv2 : forall m, nval (hget h2 m) = if Nat.eqb m n then None else nval (hget (fib s) m)).
  { intros m. destruct (C2 m) as (C & _). rewrite C. unfold h1. rewrite set_val_nval. reflexivity. }
  assert (Hkeep : forall r m x, exact_match (fib s) 0 r = Some m -> nval (hget h2 m) = Some x -> exact_match h2 0 r = Some m).
  { intros r m x Hr Hx. apply E.
    - unfold h1. rewrite exact_match_set_val. exact Hr.
    - destruct (C2 m) as (C & _). rewrite <- C, Hx. reflexivity. }
  constructor.
  - exact W2.
  - intros m x Hx. pose proof Hx as Hx'. rewrite Hv2 in Hx. destruct (Nat.eqb m n) eqn:Emn; [discriminate|].
    destruct (fi_node _ _ I m x Hx) as (nm' & F & G). exists nm'. rewrite name_assoc_filter.
    destruct (name_eqb nm' nm) eqn:En.
    + apply name_eqb_eq in En. subst nm'. apply Nat.eqb_neq in Emn. congruence.
    + split; [exact F|]. eapply Hkeep; eauto.
  - intros nm' x. rewrite name_assoc_filter. destruct (name_eqb nm' nm) eqn:En; [discriminate|]. intros Hx.
    destruct (fi_list _ _ I nm' x Hx) as (m & F & G). exists m.
    assert (Hmn : Nat.eqb m n = false).
    { apply Nat.eqb_neq. intros ->. apply name_eqb_neq in En. apply En. exact (exact_match_inj _ _ (fib s) W _ _ n F Em). }
    assert (Hvm : nval (hget h2 m) = Some x) by (rewrite Hv2, Hmn; exact G).
    split; [eapply Hkeep; eauto|exact Hvm].
Qed.

(* ---- onInterest: longest-prefix match ---- *)
Lemma handler_up_S : forall f (h : fheap) cur,
  handler_up (S f) h cur =
  match nval (hget h cur) with
  | Some hid => Some (Some hid)
  | None => match npar (hget h cur) with None => Some None | Some p => handler_up f h p end
  end.
Proof. reflexivity. Qed.

Lemma node_value_assoc : forall h H q n, finv h H -> exact_match h 0 q = Some n -> nval (hget h n) = name_assoc q H.
Proof.
  intros h H q n I Hq. pose proof (fi_wf _ _ I) as W.
  destruct (nval (hget h n)) as [x|] eqn:Ev.
  - destruct (fi_node _ _ I n x Ev) as (nm & A & B).
    assert (nm = q) by (exact (exact_match_inj _ _ h W _ _ n B Hq)). subst nm. symmetry. exact A.
  - destruct (name_assoc q H) as [x|] eqn:Ea; [|reflexivity].
    destruct (fi_list _ _ I q x Ea) as (m & A & B). assert (m = n) by congruence. subst m. congruence.
Qed.

Lemma handler_up_lpm : forall h H, finv h H -> forall q n, exact_match h 0 q = Some n ->
  handler_up (S (length q)) h n = Some (lpm_rev H (rev q)).
Proof.
  intros h H I q. pose proof (fi_wf _ _ I) as W.
  induction q as [|k q IH] using rev_ind; intros n Hq.
  - simpl in Hq. inversion Hq. subst n. simpl length. rewrite handler_up_S.
    rewrite (node_value_assoc h H [] 0 I eq_refl). simpl.
    destruct (name_assoc [] H); [reflexivity|]. rewrite (wf_root_par _ _ h W). reflexivity.
  - destruct (exact_match_snoc _ _ h W q k n Hq) as (m & Hm & Hpar & _).
    rewrite app_length. simpl length. replace (length q + 1) with (S (length q)) by lia.
    rewrite handler_up_S, (node_value_assoc h H _ n I Hq), rev_app_distr. simpl rev. simpl app.
    cbn [lpm_rev]. simpl rev. rewrite rev_involutive.
    destruct (name_assoc (q ++ [k]) H); [reflexivity|]. rewrite Hpar. apply IH, Hm.
Qed.

Lemma lpm_rev_skip : forall H a b,
  (forall b1 b2, b = b1 ++ b2 -> b1 <> [] -> name_assoc (a ++ b1) H = None) ->
  lpm_rev H (rev (a ++ b)) = lpm_rev H (rev a).
Proof.
  intros H a b. induction b as [|k b IH] using rev_ind; intros Hn.
  - rewrite app_nil_r. reflexivity.
  - rewrite app_assoc, rev_app_distr. simpl rev. simpl app. cbn [lpm_rev]. simpl rev. rewrite rev_involutive.
    rewrite <- app_assoc, (Hn (b ++ [k]) []); [|rewrite app_nil_r; reflexivity|destruct b; discriminate].
    apply IH. intros b1 b2 Hb Hne. apply (Hn b1 (b2 ++ [k])); [rewrite Hb, app_assoc; reflexivity|exact Hne].
Qed.

Lemma interest_finv : forall s H nm life tok, finv (fib s) H ->
  exists s', on_interest s nm life tok =
    (s', match lpm H nm with Some hid => [OHandler hid (now s + lifetime life)%N] | None => [ONoHandler] end) /\
    inc s' = inc s ++ [match lpm H nm with Some _ => Some (mkInc (now s + lifetime life)%N tok) | None => None end] /\
    now s' = now s /\ pit s' = pit s /\ fib s' = fib s /\ timers s' = timers s /\ npid s' = npid s /\ panicked s' = panicked s.
Proof.
  intros s H nm life tok I. pose proof (fi_wf _ _ I) as W. unfold on_interest.
  destruct (prefix_match_spec _ (fib s) nm 0) as (a & b & Hnm & Ha & Hb).
  set (n := prefix_match (fib s) 0 nm) in *.
  rewrite (exact_match_root_dep _ _ _ W a n Ha), (handler_up_lpm _ _ I a n Ha).
  assert (Hl : lpm H nm = lpm_rev H (rev a)).
  { unfold lpm. rewrite Hnm. apply lpm_rev_skip. intros b1 b2 Hb12 Hne.
    destruct (name_assoc (a ++ b1) H) as [x|] eqn:E; [|reflexivity]. exfalso.
    destruct (fi_list _ _ I _ x E) as (m & A & _). rewrite exact_match_app, Ha in A.
    destruct Hb as [->|(k & b' & -> & Hk)]; [destruct b1; [congruence|discriminate]|].
    destruct b1 as [|k1 b1]; [congruence|]. simpl in Hb12. inversion Hb12. subst k1.
    simpl in A. rewrite Hk in A. discriminate. }
  rewrite <- Hl. destruct (lpm H nm); eexists; (split; [reflexivity|simpl; auto 10]).
Qed.
