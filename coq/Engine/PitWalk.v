(* Engine/PitWalk.v — what onData's walk (data_walk) does to the PIT heap, the timers and the callback log, stated
   over the nodes on the path of the Data name; plus small facts about timers. *)
From Coq Require Import List NArith Bool Arith Lia.
From Engine Require Import Model Trie.
Import ListNotations.
Local Open Scope nat_scope.

Notation pheap := (heap (list pend)).
Notation pwf := (twf (list pend) []).

Lemma flat_map_ext_in : forall A B (f g : A -> list B) l, (forall a, In a l -> f a = g a) -> flat_map f l = flat_map g l.
Proof.
  intros A B f g l. induction l as [|a l IH]; intros H; simpl; [reflexivity|].
  rewrite (H a (or_introl eq_refl)), IH; [reflexivity|]. intros x Hx. apply H. right. exact Hx.
Qed.

(* ---- timers ---- *)
Lemma set_nth_length : forall A (l : list A) i x, length (set_nth l i x) = length l.
Proof. intros A l. induction l as [|a l IH]; intros [|i] x; simpl; auto. Qed.

Lemma nth_error_set_nth : forall A (l : list A) i x j,
  nth_error (set_nth l i x) j = if Nat.eqb j i then (match nth_error l i with Some _ => Some x | None => None end) else nth_error l j.
Proof.
  intros A l. induction l as [|a l IH]; intros i x j.
  - simpl. destruct j, i; simpl; try reflexivity. destruct (Nat.eqb j i); reflexivity.
  - destruct i as [|i], j as [|j]; simpl; try reflexivity. apply IH.
Qed.

Lemma cancel_length : forall ts tid, length (cancel ts tid) = length ts.
Proof.
  intros ts tid. unfold cancel. destruct (nth_error ts tid) as [t|]; [|reflexivity].
  destruct (tst t); try reflexivity. apply set_nth_length.
Qed.

(* cancelling changes at most the state of that one timer, and only Sched -> Cancelled *)
Lemma cancel_nth : forall ts tid j,
  nth_error (cancel ts tid) j =
  match nth_error ts j with
  | Some t => if Nat.eqb j tid then Some (mkTimer (tnode t) (tfire t) (match tst t with TSched => TCancelled | x => x end)) else Some t
  | None => None
  end.
Proof.
  intros ts tid j. unfold cancel. destruct (nth_error ts tid) as [t|] eqn:E.
  - destruct (tst t) eqn:Et.
    + rewrite nth_error_set_nth. destruct (Nat.eqb j tid) eqn:Ej.
      * apply Nat.eqb_eq in Ej. subst j. rewrite E, Et. reflexivity.
      * destruct (nth_error ts j); reflexivity.
    + destruct (nth_error ts j) as [t'|] eqn:E'; [|reflexivity]. destruct (Nat.eqb j tid) eqn:Ej; [|reflexivity].
      apply Nat.eqb_eq in Ej. subst j. rewrite E in E'. inversion E'. subst t'. rewrite Et. destruct t; simpl in *; subst; reflexivity.
    + destruct (nth_error ts j) as [t'|] eqn:E'; [|reflexivity]. destruct (Nat.eqb j tid) eqn:Ej; [|reflexivity].
      apply Nat.eqb_eq in Ej. subst j. rewrite E in E'. inversion E'. subst t'. rewrite Et. destruct t; simpl in *; subst; reflexivity.
    + destruct (nth_error ts j) as [t'|] eqn:E'; [|reflexivity]. destruct (Nat.eqb j tid) eqn:Ej; [|reflexivity].
      apply Nat.eqb_eq in Ej. subst j. rewrite E in E'. inversion E'. subst t'. rewrite Et. destruct t; simpl in *; subst; reflexivity.
  - destruct (nth_error ts j) as [t'|] eqn:E'; [|reflexivity]. destruct (Nat.eqb j tid) eqn:Ej; [|reflexivity].
    apply Nat.eqb_eq in Ej. subst j. congruence.
Qed.

Lemma cancel_all_length : forall es ts, length (cancel_all ts es) = length ts.
Proof.
  intros es. induction es as [|e es IH]; intros ts; simpl; [reflexivity|].
  unfold cancel_all in *. simpl. rewrite IH. apply cancel_length.
Qed.

(* after cancelling the timers of [es]: timers not named keep their state; every timer keeps node and time, and a
   state other than Sched is never changed *)
Lemma cancel_all_nth : forall es ts j t,
  nth_error ts j = Some t ->
  exists t', nth_error (cancel_all ts es) j = Some t' /\ tnode t' = tnode t /\ tfire t' = tfire t /\
             (tst t' = tst t \/ (tst t = TSched /\ tst t' = TCancelled /\ In j (map ptimer es))) /\
             (~ In j (map ptimer es) -> tst t' = tst t).
Proof.
  intros es. induction es as [|e es IH]; intros ts j t H.
  - exists t. simpl. repeat split; auto.
  - unfold cancel_all in *. simpl.
    assert (Hc := cancel_nth ts (ptimer e) j). rewrite H in Hc.
    destruct (Nat.eqb j (ptimer e)) eqn:Ej.
    + apply Nat.eqb_eq in Ej.
      destruct (IH _ j _ Hc) as (t' & A & B & C & D & E). simpl in B, C, D, E.
      exists t'. split; [exact A|]. split; [exact B|]. split; [exact C|]. split.
      * destruct (tst t) eqn:Et.
        -- right. split; [reflexivity|]. split; [|left; auto].
           destruct D as [D|(D & _)]; [exact D|discriminate].
        -- left. destruct D as [D|(D & _)]; [exact D|discriminate].
        -- left. destruct D as [D|(D & _)]; [exact D|discriminate].
        -- left. destruct D as [D|(D & _)]; [exact D|discriminate].
      * intros Hn. exfalso. apply Hn. left. auto.
    + destruct (IH _ j _ Hc) as (t' & A & B & C & D & E).
      exists t'. split; [exact A|]. split; [exact B|]. split; [exact C|]. split.
      * destruct D as [D|(D1 & D2 & D3)]; [left; exact D|right; repeat split; auto; right; exact D3].
      * intros Hn. apply E. intros Hi. apply Hn. right. exact Hi.
Qed.

Lemma cancel_all_none : forall es ts j, nth_error ts j = None -> nth_error (cancel_all ts es) j = None.
Proof.
  intros es ts j H. apply nth_error_None. rewrite cancel_all_length. apply nth_error_None. exact H.
Qed.

Lemma cancel_all_app : forall a b ts, cancel_all ts (a ++ b) = cancel_all (cancel_all ts a) b.
Proof. intros. unfold cancel_all. apply fold_left_app. Qed.

(* ---- the nodes on a path ---- *)
Fixpoint path_nodes (h : pheap) (i : nat) (r : name) : list nat :=
  match r with
  | [] => [i]
  | k :: r' => i :: match chd_find (nchd (hget h i)) k with Some j => path_nodes h j r' | None => [] end
  end.

Lemma path_nodes_app : forall (h : pheap) a b i m, exact_match h i a = Some m ->
  path_nodes h i (a ++ b) = removelast (path_nodes h i a) ++ path_nodes h m b.
Proof.
  intros h a b. induction a as [|k a IH]; intros i m H; simpl in *.
  - inversion H. subst. reflexivity.
  - destruct (chd_find (nchd (hget h i)) k) as [j|]; [|discriminate].
    rewrite (IH j m H). destruct (path_nodes h j a) eqn:E.
    + destruct a; simpl in E; discriminate.
    + reflexivity.
Qed.

Lemma path_nodes_snoc : forall (h : pheap) q k n, exact_match h 0 (q ++ [k]) = Some n ->
  path_nodes h 0 (q ++ [k]) = path_nodes h 0 q ++ [n].
Proof.
  intros h q k n H. rewrite exact_match_app in H. destruct (exact_match h 0 q) as [m|] eqn:E; [|discriminate].
  rewrite (path_nodes_app h q [k] 0 m E). simpl in *. destruct (chd_find (nchd (hget h m)) k) as [j|]; [|discriminate].
  inversion H. subst j.
  assert (L : forall (r : name) i m', exact_match h i r = Some m' -> removelast (path_nodes h i r) ++ [m'] = path_nodes h i r).
  { clear. intros r. induction r as [|k r IH]; intros i m' H; simpl in *.
    - inversion H. reflexivity.
    - destruct (chd_find (nchd (hget h i)) k) as [j|]; [|discriminate].
      specialize (IH j m' H). destruct (path_nodes h j r) eqn:E; [destruct r; simpl in E; discriminate|].
      change (removelast (i :: n :: l)) with (i :: removelast (n :: l)). simpl app. f_equal. exact IH. }
  rewrite <- (L q 0 m E) at 2. rewrite <- app_assoc. reflexivity.
Qed.

(* the nodes on the path of q are the live nodes of the prefixes of q *)
Lemma in_path_nodes : forall (h : pheap) q n, exact_match h 0 q = Some n ->
  forall j, In j (path_nodes h 0 q) <-> exists a b, q = a ++ b /\ exact_match h 0 a = Some j.
Proof.
  intros h q. induction q as [|k q IH] using rev_ind; intros n H j.
  - simpl. split.
    + intros [<-|[]]. exists [], []. auto.
    + intros (a & b & Hq & Ha). destruct a; [|discriminate]. simpl in Ha. inversion Ha. auto.
  - rewrite (path_nodes_snoc h q k n H). rewrite in_app_iff.
    assert (H' := H). rewrite exact_match_app in H'. destruct (exact_match h 0 q) as [m|] eqn:E; [|discriminate].
    split.
    + intros [Hi|[<-|[]]].
      * apply (IH m eq_refl) in Hi. destruct Hi as (a & b & Hq & Ha). exists a, (b ++ [k]). subst q. rewrite app_assoc. auto.
      * exists (q ++ [k]), []. rewrite app_nil_r. auto.
    + intros (a & b & Hq & Ha). destruct (snoc_cases b) as [->|(b' & k' & ->)].
      * rewrite app_nil_r in Hq. subst a. right. left. congruence.
      * rewrite app_assoc in Hq. apply app_inj_tail in Hq. destruct Hq as (Hq & _). left.
        apply (IH m eq_refl). exists a, b'. auto.
Qed.

Lemma path_nodes_struct : forall (h h' : pheap), (forall j, nchd (hget h' j) = nchd (hget h j)) ->
  forall r i, path_nodes h' i r = path_nodes h i r.
Proof.
  intros h h' Hc r. induction r as [|k r IH]; intros i; simpl; [reflexivity|].
  rewrite Hc. destruct (chd_find (nchd (hget h i)) k); [rewrite IH|]; reflexivity.
Qed.

Lemma exact_match_struct : forall (h h' : pheap), (forall j, nchd (hget h' j) = nchd (hget h j)) ->
  forall r i, exact_match h' i r = exact_match h i r.
Proof.
  intros h h' Hc r. induction r as [|k r IH]; intros i; simpl; [reflexivity|].
  rewrite Hc. destruct (chd_find (nchd (hget h i)) k); [rewrite IH|]; reflexivity.
Qed.

Lemma prefix_match_struct : forall (h h' : pheap), (forall j, nchd (hget h' j) = nchd (hget h j)) ->
  forall r i, prefix_match h' i r = prefix_match h i r.
Proof.
  intros h h' Hc r. induction r as [|k r IH]; intros i; simpl; [reflexivity|].
  rewrite Hc. destruct (chd_find (nchd (hget h i)) k); [rewrite IH|]; reflexivity.
Qed.

(* ---- heaps that differ only in node values ---- *)
Definition same_struct (h h' : pheap) : Prop :=
  hnext h' = hnext h /\
  forall j, nkey (hget h' j) = nkey (hget h j) /\ npar (hget h' j) = npar (hget h j) /\
            ndep (hget h' j) = ndep (hget h j) /\ nchd (hget h' j) = nchd (hget h j).

Lemma same_struct_refl : forall h, same_struct h h.
Proof. intros h. split; auto. Qed.

Lemma same_struct_trans : forall h1 h2 h3, same_struct h1 h2 -> same_struct h2 h3 -> same_struct h1 h3.
Proof.
  intros h1 h2 h3 (A & B) (C & D). split; [congruence|]. intros j.
  destruct (B j) as (B1 & B2 & B3 & B4). destruct (D j) as (D1 & D2 & D3 & D4). repeat split; congruence.
Qed.

Lemma same_struct_wf : forall h h', pwf h -> same_struct h h' ->
  (forall j, hnext h <= j -> nval (hget h' j) = []) -> pwf h'.
Proof.
  intros h h' W (Hn & Hs) Hv. destruct W as [W1 W2 W3 W4 W5 W6 W7].
  assert (Hc : forall i, chd_of (list pend) h' i = chd_of (list pend) h i).
  { intros i. unfold chd_of. destruct (Hs i) as (_ & _ & _ & E). rewrite E. reflexivity. }
  constructor.
  - destruct (Hs 0) as (_ & E & _). rewrite E. exact W1.
  - destruct (Hs 0) as (_ & _ & E & _). rewrite E. exact W2.
  - rewrite Hn. exact W3.
  - intros i. destruct (Hs i) as (_ & _ & _ & E). rewrite E. apply W4.
  - intros i k j. rewrite Hc, Hn. intros H. destruct (W5 i k j H) as (A & B & C & D & E).
    destruct (Hs j) as (S1 & S2 & S3 & _). destruct (Hs i) as (_ & _ & S3i & _). rewrite S1, S2, S3, S3i. auto.
  - intros j p. destruct (Hs j) as (_ & S2 & S3 & _). rewrite S2, S3, Hn. intros H. destruct (W6 j p H) as (A & B).
    destruct (Hs p) as (_ & _ & S3p & _). rewrite S3p. auto.
  - intros i Hi. rewrite Hn in Hi. specialize (W7 i Hi). specialize (Hv i Hi).
    destruct (Hs i) as (S1 & S2 & S3 & S4). rewrite W7 in S1, S2, S3, S4. simpl in *.
    destruct (hget h' i) as [v k p d c]. simpl in *. subst. reflexivity.
Qed.

(* ---- data_walk ---- *)
Definition hits_of (h : pheap) (dn : name) (dd : key) (j : nat) : list pend :=
  filter (data_hits (ndep (hget h j)) dn dd) (nval (hget h j)).
Definition keep_of (h : pheap) (dn : name) (dd : key) (j : nat) : list pend :=
  filter (fun e => negb (data_hits (ndep (hget h j)) dn dd e)) (nval (hget h j)).

Lemma path_nodes_dep_lt : forall (h : pheap), pwf h -> forall q n j, exact_match h 0 q = Some n ->
  In j (path_nodes h 0 q) -> ndep (hget h j) <= length q.
Proof.
  intros h W q n j H Hj. apply (in_path_nodes h q n H) in Hj. destruct Hj as (a & b & Hq & Ha).
  rewrite (exact_match_root_dep _ _ h W a j Ha). subst q. rewrite app_length. lia.
Qed.

Lemma walk_node_val : forall (h : pheap) n (f : pend -> bool) j,
  nval (hget (if is_nil (nval (hget h n)) then h else set_val h n (filter f (nval (hget h n)))) j) =
  if Nat.eqb j n then filter f (nval (hget h n)) else nval (hget h j).
Proof.
  intros h n f j. destruct (nval (hget h n)) eqn:Ev; cbn [is_nil].
  - destruct (Nat.eqb j n) eqn:Ej; [|reflexivity]. apply Nat.eqb_eq in Ej. subst j. rewrite Ev. reflexivity.
  - rewrite set_val_nval. reflexivity.
Qed.

Lemma walk_node_struct : forall (h : pheap) n (f : pend -> bool),
  same_struct h (if is_nil (nval (hget h n)) then h else set_val h n (filter f (nval (hget h n)))).
Proof.
  intros h n f. destruct (is_nil (nval (hget h n))); [apply same_struct_refl|].
  split; [reflexivity|]. intros j. apply set_val_struct.
Qed.

Lemma data_walk_S : forall f (h : pheap) ts cur dn dd,
  data_walk (S f) h ts cur dn dd =
  let h' := if is_nil (nval (hget h cur)) then h
            else set_val h cur (filter (fun e => negb (data_hits (ndep (hget h cur)) dn dd e)) (nval (hget h cur))) in
  let ts' := cancel_all ts (filter (data_hits (ndep (hget h cur)) dn dd) (nval (hget h cur))) in
  let o := map (fun e => OCb (pid e) (RData dn dd)) (filter (data_hits (ndep (hget h cur)) dn dd) (nval (hget h cur))) in
  match npar (hget h cur) with
  | None => Some (h', ts', o)
  | Some p => match data_walk f h' ts' p dn dd with
              | None => None
              | Some (h2, ts2, o2) => Some (h2, ts2, o ++ o2)
              end
  end.
Proof. reflexivity. Qed.

Lemma data_walk_spec : forall dn dd q (h : pheap) ts n, pwf h -> exact_match h 0 q = Some n ->
  exists h' ts' o, data_walk (S (length q)) h ts n dn dd = Some (h', ts', o) /\
    same_struct h h' /\
    (forall j, nval (hget h' j) = if existsb (Nat.eqb j) (path_nodes h 0 q) then keep_of h dn dd j else nval (hget h j)) /\
    o = map (fun e => OCb (pid e) (RData dn dd)) (flat_map (hits_of h dn dd) (rev (path_nodes h 0 q))) /\
    ts' = cancel_all ts (flat_map (hits_of h dn dd) (rev (path_nodes h 0 q))).
Proof.
  intros dn dd q. induction q as [|k q IH] using rev_ind; intros h ts n W H.
  - simpl in H. inversion H. subst n. simpl. rewrite (wf_root_par _ _ h W).
    set (h1 := if is_nil (nval (hget h 0)) then h else set_val h 0 (filter (fun e => negb (data_hits (ndep (hget h 0)) dn dd e)) (nval (hget h 0)))).
    exists h1, (cancel_all ts (filter (data_hits (ndep (hget h 0)) dn dd) (nval (hget h 0)))),
           (map (fun e => OCb (pid e) (RData dn dd)) (filter (data_hits (ndep (hget h 0)) dn dd) (nval (hget h 0)))).
    split; [reflexivity|]. split; [|split; [|split]].
    + apply walk_node_struct.
    + intros j. unfold h1. rewrite walk_node_val. unfold keep_of. cbn [path_nodes existsb]. rewrite orb_false_r.
      destruct (Nat.eqb j 0) eqn:Ej; [apply Nat.eqb_eq in Ej; subst j|]; reflexivity.
    + unfold hits_of. simpl. rewrite app_nil_r. reflexivity.
    + unfold hits_of. simpl. rewrite app_nil_r. reflexivity.
  - destruct (exact_match_snoc _ _ h W q k n H) as (m & Hm & Hpar & _ & Hn0 & _).
    assert (Hd : ndep (hget h n) = length (q ++ [k])) by (apply (exact_match_root_dep _ _ h W _ _ H)).
    rewrite app_length. simpl length. replace (length q + 1) with (S (length q)) by lia.
    rewrite data_walk_S. cbv zeta. rewrite Hpar.
    set (lst := nval (hget h n)).
    set (h1 := if is_nil lst then h else set_val h n (filter (fun e => negb (data_hits (ndep (hget h n)) dn dd e)) lst)).
    set (ts1 := cancel_all ts (filter (data_hits (ndep (hget h n)) dn dd) lst)).
    assert (S1 : same_struct h h1) by apply walk_node_struct.
    assert (V1 : forall j, nval (hget h1 j) = if Nat.eqb j n then keep_of h dn dd n else nval (hget h j)).
    { intros j. unfold h1, lst. rewrite walk_node_val. reflexivity. }
    assert (Hlt : n < hnext h) by (apply (exact_match_lt _ _ h W _ 0 n (wf_next _ _ h W) H)).
    assert (W1 : pwf h1).
    { apply (same_struct_wf h h1 W S1). intros j Hj. rewrite V1. destruct (Nat.eqb j n) eqn:Ej.
      - apply Nat.eqb_eq in Ej. lia.
      - rewrite (wf_unalloc _ _ h W j Hj). reflexivity. }
    assert (C1 : forall j, nchd (hget h1 j) = nchd (hget h j)) by (intros j; destruct S1 as (_ & S1); destruct (S1 j) as (_ & _ & _ & E); exact E).
    assert (Hm1 : exact_match h1 0 q = Some m) by (rewrite (exact_match_struct h h1 C1); exact Hm).
    destruct (IH h1 ts1 m W1 Hm1) as (h' & ts' & o & A & B & C & D & E).
    rewrite A. eexists _, _, _. split; [reflexivity|]. split; [exact (same_struct_trans _ _ _ S1 B)|].
    assert (PN : path_nodes h1 0 q = path_nodes h 0 q) by (apply path_nodes_struct; exact C1).
    assert (Hnot : ~ In n (path_nodes h 0 q)).
    { intros Hi. pose proof (path_nodes_dep_lt h W q m n Hm Hi). rewrite Hd, app_length in H0. simpl in H0. lia. }
    assert (Hh : forall j, In j (path_nodes h 0 q) -> hits_of h1 dn dd j = hits_of h dn dd j /\ keep_of h1 dn dd j = keep_of h dn dd j).
    { intros j Hj. unfold hits_of, keep_of. rewrite V1. destruct (Nat.eqb j n) eqn:Ej; [apply Nat.eqb_eq in Ej; subst; contradiction|].
      destruct S1 as (_ & S1). destruct (S1 j) as (_ & _ & Ed & _). rewrite Ed. auto. }
    rewrite (path_nodes_snoc h q k n H), rev_app_distr. simpl rev. simpl app.
    split; [|split].
    + intros j. rewrite C, PN, existsb_app. simpl existsb. rewrite orb_false_r.
      destruct (existsb (Nat.eqb j) (path_nodes h 0 q)) eqn:Ex.
      * simpl. apply existsb_exists in Ex. destruct Ex as (x & Hx & Ejx). apply Nat.eqb_eq in Ejx. subst x.
        apply (Hh j Hx).
      * simpl. rewrite V1. destruct (Nat.eqb j n) eqn:Ejn; [apply Nat.eqb_eq in Ejn; subst j|]; reflexivity.
    + rewrite D, PN. cbn [flat_map]. rewrite map_app. f_equal.
      f_equal. apply flat_map_ext_in. intros j Hj. apply in_rev in Hj. apply (Hh j Hj).
    + rewrite E, PN. cbn [flat_map]. rewrite cancel_all_app. unfold ts1. fold lst. f_equal.
      apply flat_map_ext_in. intros j Hj. apply in_rev in Hj. apply (Hh j Hj).
Qed.
