(* Engine/Extract.v — extraction of the executable model and of the spec checker for the correspondence runner.
   ExtrOcamlBasic only: bool, option, unit, list, prod, sumbool, sumor -> OCaml natives; N/positive/nat stay Coq datatypes. *)
From Coq Require Import Extraction ExtrOcamlBasic NArith.
From Engine Require Import Model Spec.
Extraction Language OCaml.
Extraction "engine_model.ml"
  init step current pinned mkVariant advance_to next_due dump_pit dump_fib now pit fib inc timers npid panicked hget hnext
  sinit spec_step spec_final sp_npid sp_now
  N.add N.sub N.mul N.of_nat N.to_nat N.eqb N.ltb N.leb N.div N.modulo.
