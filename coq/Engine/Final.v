(* Engine/Final.v — remaining pieces for the property theorems: completeness (all timers done => nothing pending),
   the handler table of a history and what "longest matching prefix" means, the reply deadline, no panic. *)
From Coq Require Import List NArith Bool Arith Lia.
From Engine Require Import Model Spec Trie PitWalk PitInv PitSteps FibInv Refine Readable.
Import ListNotations.
Local Open Scope nat_scope.

(* ---- every timer has run or was cancelled: nothing is pending ---- *)
Definition complete (s : state) : Prop := forall t, In t (timers s) -> tst t = TCancelled \/ tst t = TDone.

Lemma complete_no_pending : forall s sp, rel s sp -> complete s -> sp_pending sp = [].
Proof.
  intros s sp R C. destruct (sp_pending sp) as [|i P] eqn:E; [reflexivity|]. exfalso.
  pose proof (r_pit s sp R) as I. rewrite E in I.
  destruct (pi_pend _ _ I i (or_introl eq_refl)) as (n & e & He & _).
  destruct (pi_timer _ _ I n e He) as (t & Ht & _ & Hs & _).
  apply nth_error_In in Ht. destruct (C t Ht) as [C1|C1]; destruct Hs as [Hs|Hs]; congruence.
Qed.

(* ---- histories and prefixes ---- *)
Lemma hist_app : forall a b s, hist s (a ++ b) = hist s a ++ hist (final s a) b.
Proof. induction a as [|e a IH]; intros b s; simpl; [reflexivity|]. rewrite IH. reflexivity. Qed.

Lemma final_app : forall a b s, final s (a ++ b) = final (final s a) b.
Proof. induction a as [|e a IH]; intros b s; simpl; [reflexivity|]. apply IH. Qed.

Lemma hist_length : forall es s, length (hist s es) = length es.
Proof. induction es as [|e es IH]; intros s; simpl; [reflexivity|]. rewrite IH. reflexivity. Qed.

Lemma hist_map_fst : forall es s, map fst (hist s es) = map sev_of es.
Proof. induction es as [|e es IH]; intros s; simpl; [reflexivity|]. rewrite IH. reflexivity. Qed.

Lemma firstn_hist : forall k es s, firstn k (hist s es) = hist s (firstn k es).
Proof.
  induction k as [|k IH]; intros es s; simpl; [reflexivity|].
  destruct es as [|e es]; simpl; [reflexivity|]. rewrite IH. reflexivity.
Qed.

Lemma split_at : forall A (l : list A) k x, nth_error l k = Some x -> l = firstn k l ++ x :: skipn (S k) l.
Proof.
  intros A l. induction l as [|a l IH]; intros [|k] x H; simpl in *; try discriminate.
  - inversion H. reflexivity.
  - f_equal. apply IH, H.
Qed.

(* the k-th entry of the model's history is the step taken from the state reached by the first k events *)
Lemma hist_nth : forall es k e, nth_error es k = Some e ->
  nth_error (hist init es) k = Some (sev_of e, snd (step current (final init (firstn k es)) e)).
Proof.
  intros es k e H. assert (Hlt : k < length es) by (apply nth_error_Some; congruence).
  rewrite (split_at _ es k e H) at 1. rewrite hist_app.
  rewrite nth_error_app2 by (rewrite hist_length, firstn_length; lia).
  rewrite hist_length, firstn_length.
  replace (k - Nat.min k (length es)) with 0 by lia. reflexivity.
Qed.

(* ---- the model never panics (nil-map write, missing entry, recursion bound) ---- *)
Theorem no_panic : forall es, panicked (final init es) = false /\ forall k o, nth_error (hist init es) k = Some o -> ~ In OPanic (snd o).
Proof.
  intros es. destruct (model_accepted_rel es) as (sp & Hrun & R). split; [apply (r_ok _ _ R)|].
  intros k [e o] Hk Hin. destruct (acc_at _ _ k e o Hrun Hk) as (spk & spk' & _ & Hs & _).
  unfold spec_step in Hs. assert (has_panic o = true) by (apply existsb_exists; exists OPanic; auto).
  simpl in Hin. rewrite H in Hs. discriminate.
Qed.

(* ---- handlers ---- *)
(* the handler table a history leaves behind: successful Attach adds, successful Detach removes *)
Fixpoint attached_from (H : list (name * N)) (h : list (sev * list obs)) : list (name * N) :=
  match h with
  | [] => H
  | (SAttach nm hid, o) :: r => attached_from (if obs_is o (ORet 0%N) then (nm, hid) :: H else H) r
  | (SDetach nm, o) :: r =>
      attached_from (if obs_is o (ORet 0%N) then filter (fun mh => negb (name_eqb (fst mh) nm)) H else H) r
  | _ :: r => attached_from H r
  end.
Definition attached (h : list (sev * list obs)) : list (name * N) := attached_from [] h.

Lemma spec_step_handlers : forall sp e o sp', spec_step sp e o = inl sp' ->
  sp_handlers sp' = attached_from (sp_handlers sp) [(e, o)].
Proof.
  intros sp e o sp' H. unfold spec_step in H. destruct (has_panic o); [discriminate|]. destruct e; simpl.
  - destruct (is_nil o); [|discriminate]. inversion H. reflexivity.
  - destruct (is_nil nm && is_none dig); destruct (obs_is o _); try discriminate; inversion H; reflexivity.
  - destruct (obs_is o _); [|discriminate]. destruct (is_nil nm && is_none dig); inversion H; reflexivity.
  - destruct (check_data_cbs _ _ _ _); [|discriminate]. destruct (find _ _); [discriminate|]. inversion H. reflexivity.
  - destruct (check_nack_cbs _ _ _ _ _); [|discriminate]. inversion H. reflexivity.
  - destruct (check_timeout_cbs _ _ _); [|discriminate]. inversion H. reflexivity.
  - destruct (name_assoc nm (sp_handlers sp)).
    + destruct (obs_is o (ORet 1%N)) eqn:E1; [|discriminate]. inversion H. subst.
      destruct (obs_is o (ORet 0%N)) eqn:E0; [|reflexivity].
      exfalso. unfold obs_is in *. destruct o as [|[] [|]]; try discriminate. apply N.eqb_eq in E1, E0. subst. discriminate.
    + destruct (obs_is o (ORet 0%N)); [|discriminate]. inversion H. reflexivity.
  - destruct (obs_is o (ORet 0%N)); [inversion H; reflexivity|].
    destruct (obs_is o (ORet 1%N)); [|discriminate]. destruct (name_assoc _ _); [discriminate|]. inversion H. reflexivity.
  - destruct (lpm _ _); destruct (obs_is o _); try discriminate; inversion H; reflexivity.
  - destruct (existsb _ o); [discriminate|]. destruct (existsb (fun x => match x with OSendData _ => true | _ => false end) o).
    + destruct (nth_error _ _) as [[dl|]|]; try discriminate. destruct (N.leb _ _); [|discriminate]. inversion H. reflexivity.
    + inversion H. reflexivity.
Qed.

Lemma attached_from_app : forall a b H, attached_from H (a ++ b) = attached_from (attached_from H a) b.
Proof.
  induction a as [|[e o] a IH]; intros b H; simpl; [reflexivity|]. destruct e; apply IH.
Qed.

Lemma spec_run_handlers : forall h sp sp', spec_run sp h = inl sp' -> sp_handlers sp' = attached_from (sp_handlers sp) h.
Proof.
  induction h as [|[e o] h IH]; intros sp sp' H; simpl in H.
  - inversion H. reflexivity.
  - destruct (spec_step sp e o) as [sp1|] eqn:Es; [|discriminate].
    rewrite (IH _ _ H), (spec_step_handlers _ _ _ _ Es).
    change ((e, o) :: h) with ([(e, o)] ++ h). rewrite attached_from_app. reflexivity.
Qed.

(* what lpm computes: the handler at the longest attached prefix of the name *)
Lemma lpm_rev_spec : forall H rn,
  match lpm_rev H rn with
  | Some hid => exists k, k <= length rn /\ name_assoc (rev (skipn k rn)) H = Some hid /\
                          forall j, j < k -> name_assoc (rev (skipn j rn)) H = None
  | None => forall j, j <= length rn -> name_assoc (rev (skipn j rn)) H = None
  end.
Proof.
  intros H rn. induction rn as [|x rn IH]; cbn [lpm_rev].
  - destruct (name_assoc (rev []) H) eqn:E.
    + exists 0. simpl. split; [lia|]. split; [exact E|]. intros j Hj. lia.
    + intros j Hj. simpl in Hj. assert (j = 0) by lia. subst. exact E.
  - destruct (name_assoc (rev (x :: rn)) H) eqn:E.
    + exists 0. split; [lia|]. split; [exact E|]. intros j Hj. lia.
    + destruct (lpm_rev H rn) as [hid|].
      * destruct IH as (k & Hk & A & B). exists (S k). split; [simpl; lia|]. split; [exact A|].
        intros [|j] Hj; [exact E|]. simpl. apply B. lia.
      * intros [|j] Hj; [exact E|]. simpl. apply IH. simpl in Hj. lia.
Qed.

Lemma firstn_rev_skipn : forall A (l : list A) j, j <= length l -> rev (skipn j (rev l)) = firstn (length l - j) l.
Proof.
  intros A l j Hj. rewrite skipn_rev, rev_involutive. reflexivity.
Qed.

(* [lpm H nm] is the entry of the longest prefix of nm that has an entry in H *)
Theorem lpm_spec : forall H nm,
  match lpm H nm with
  | Some hid => exists m, m <= length nm /\ name_assoc (firstn m nm) H = Some hid /\
                          forall m', m < m' -> m' <= length nm -> name_assoc (firstn m' nm) H = None
  | None => forall m, m <= length nm -> name_assoc (firstn m nm) H = None
  end.
Proof.
  intros H nm. unfold lpm. pose proof (lpm_rev_spec H (rev nm)) as L. rewrite rev_length in L.
  destruct (lpm_rev H (rev nm)) as [hid|].
  - destruct L as (k & Hk & A & B). exists (length nm - k). split; [lia|]. split.
    + rewrite <- firstn_rev_skipn by exact Hk. exact A.
    + intros m' H1 H2. pose proof (firstn_rev_skipn _ nm (length nm - m') ltac:(lia)) as F.
      replace (length nm - (length nm - m')) with m' in F by lia. rewrite <- F. apply B. lia.
  - intros m Hm. specialize (L (length nm - m) ltac:(lia)). rewrite firstn_rev_skipn in L by lia.
    replace (length nm - (length nm - m)) with m in L by lia. exact L.
Qed.

(* an accepted incoming Interest went to the longest-prefix handler of the table left by the history before it *)
Theorem acc_handler_lpm : forall h sp k nm life tok o, spec_run sinit h = inl sp ->
  nth_error h k = Some (SInterest nm life tok, o) ->
  match lpm (attached (firstn k h)) nm with
  | Some hid => exists dl, o = [OHandler hid dl]
  | None => o = [ONoHandler]
  end.
Proof.
  intros h sp k nm life tok o Hacc Hk.
  destruct (acc_at h sp k _ o Hacc Hk) as (spk & spk' & Hrun & Hs & _).
  pose proof (spec_run_handlers _ _ _ Hrun) as Hh. simpl in Hh. unfold attached. rewrite <- Hh.
  unfold spec_step in Hs. destruct (has_panic o); [discriminate|].
  destruct (lpm (sp_handlers spk) nm) as [hid|].
  - destruct (obs_is o _) eqn:Eo; [|discriminate]. unfold obs_is in Eo.
    destruct o as [|[] [|]]; try discriminate. apply andb_true_iff in Eo. destruct Eo as (E1 & E2).
    apply N.eqb_eq in E1. subst. eexists. reflexivity.
  - destruct (obs_is o _) eqn:Eo; [|discriminate]. unfold obs_is in Eo. destruct o as [|[] [|]]; try discriminate. reflexivity.
Qed.

(* ---- replies ---- *)
(* arrival time + lifetime of every incoming Interest of a history, in order of arrival *)
Fixpoint in_deadlines_from (now : time) (es : list sev) : list time :=
  match es with
  | [] => []
  | SAdvance d :: r => in_deadlines_from (now + d)%N r
  | SInterest nm life tok :: r => (now + lifetime life)%N :: in_deadlines_from now r
  | _ :: r => in_deadlines_from now r
  end.
Definition in_deadlines (es : list sev) : list time := in_deadlines_from 0%N es.

Definition inc_ok (l : list (option time)) (d : list time) : Prop :=
  length l = length d /\ forall iid dl, nth_error l iid = Some (Some dl) -> nth_error d iid = Some dl.

Lemma inc_ok_app : forall l d l' d', inc_ok l d -> inc_ok l' d' -> inc_ok (l ++ l') (d ++ d').
Proof.
  intros l d l' d' (A & B) (C & D). split; [rewrite !app_length; lia|].
  intros iid dl H. destruct (Nat.lt_ge_cases iid (length l)) as [L|L].
  - rewrite nth_error_app1 in H by exact L. rewrite nth_error_app1 by lia. apply B, H.
  - rewrite nth_error_app2 in H by exact L. rewrite nth_error_app2 by lia. rewrite <- A. apply D, H.
Qed.

Lemma spec_step_inc : forall sp e o sp', spec_step sp e o = inl sp' ->
  exists l, sp_inc sp' = sp_inc sp ++ l /\ inc_ok l (in_deadlines_from (sp_now sp) [e]).
Proof.
  intros sp e o sp' H. unfold spec_step in H. destruct (has_panic o); [discriminate|].
  assert (T : inc_ok [] []) by (split; [reflexivity|intros iid dl Hx; destruct iid; discriminate]).
  destruct e; simpl; try (exists []; rewrite app_nil_r; split; [|exact T]).
  - destruct (is_nil o); [|discriminate]. inversion H. reflexivity.
  - destruct (is_nil nm && is_none dig); destruct (obs_is o _); try discriminate; inversion H; reflexivity.
  - destruct (obs_is o _); [|discriminate]. destruct (is_nil nm && is_none dig); inversion H; reflexivity.
  - destruct (check_data_cbs _ _ _ _); [|discriminate]. destruct (find _ _); [discriminate|]. inversion H. reflexivity.
  - destruct (check_nack_cbs _ _ _ _ _); [|discriminate]. inversion H. reflexivity.
  - destruct (check_timeout_cbs _ _ _); [|discriminate]. inversion H. reflexivity.
  - destruct (name_assoc _ _); destruct (obs_is o _); try discriminate; inversion H; reflexivity.
  - destruct (obs_is o (ORet 0%N)); [inversion H; reflexivity|].
    destruct (obs_is o (ORet 1%N)); [|discriminate]. destruct (name_assoc _ _); [discriminate|]. inversion H. reflexivity.
  - destruct (lpm _ _); destruct (obs_is o _); try discriminate; inversion H; subst; simpl; eexists; (split; [reflexivity|]).
    + split; [reflexivity|]. intros [|iid] dl Hx; simpl in *; [inversion Hx; reflexivity|destruct iid; discriminate].
    + split; [reflexivity|]. intros [|iid] dl Hx; simpl in *; [discriminate|destruct iid; discriminate].
  - destruct (existsb _ o); [discriminate|]. destruct (existsb (fun x => match x with OSendData _ => true | _ => false end) o).
    + destruct (nth_error _ _) as [[dl|]|]; try discriminate. destruct (N.leb _ _); [|discriminate]. inversion H. reflexivity.
    + inversion H. reflexivity.
Qed.

Lemma in_deadlines_from_cons : forall now e r,
  in_deadlines_from now (e :: r) = in_deadlines_from now [e] ++ in_deadlines_from (clock_from now [e]) r.
Proof. intros now e r. destruct e; reflexivity. Qed.

Lemma spec_run_inc : forall h sp sp', spec_run sp h = inl sp' ->
  exists l, sp_inc sp' = sp_inc sp ++ l /\ inc_ok l (in_deadlines_from (sp_now sp) (map fst h)).
Proof.
  induction h as [|[e o] h IH]; intros sp sp' H; simpl in H.
  - inversion H. subst. exists []. rewrite app_nil_r. split; [reflexivity|]. split; [reflexivity|]. intros [|i] dl Hx; discriminate.
  - destruct (spec_step sp e o) as [sp1|] eqn:Es; [|discriminate].
    destruct (spec_step_inc _ _ _ _ Es) as (l1 & A1 & B1). destruct (IH _ _ H) as (l2 & A2 & B2).
    destruct (spec_step_clock _ _ _ _ Es) as (Hc & _).
    exists (l1 ++ l2). split; [rewrite A2, A1, app_assoc; reflexivity|].
    simpl map. rewrite in_deadlines_from_cons. apply inc_ok_app; [exact B1|]. rewrite <- Hc. exact B2.
Qed.

(* a reply is transmitted only while the clock has not passed arrival time + lifetime of the Interest it answers *)
Theorem acc_reply_deadline : forall h sp k iid o j, spec_run sinit h = inl sp ->
  nth_error h k = Some (SReply iid, o) -> In (OSendData j) o ->
  j = iid /\ exists dl, nth_error (in_deadlines (map fst (firstn k h))) iid = Some dl /\
                        (clock_from 0%N (map fst (firstn k h)) <= dl)%N.
Proof.
  intros h sp k iid o j Hacc Hk Hin.
  destruct (acc_at h sp k _ o Hacc Hk) as (spk & spk' & Hrun & Hs & _ & Hclk).
  destruct (spec_run_inc _ _ _ Hrun) as (l & Hl & (_ & Hok)). simpl in Hl. subst l.
  unfold spec_step in Hs. destruct (has_panic o); [discriminate|].
  destruct (existsb _ o) eqn:E1; [discriminate|].
  assert (Hj : j = iid).
  { destruct (Nat.eq_dec j iid) as [|Hne]; [assumption|]. exfalso.
    assert (existsb (fun x => match x with OSendData j => negb (Nat.eqb j iid) | OCb _ _ | OSendInt _ | OHandler _ _ | ONoHandler => true | _ => false end) o = true).
    { apply existsb_exists. exists (OSendData j). split; [exact Hin|]. apply negb_true_iff, Nat.eqb_neq. exact Hne. }
    congruence. }
  split; [exact Hj|].
  assert (E2 : existsb (fun x => match x with OSendData _ => true | _ => false end) o = true)
    by (apply existsb_exists; exists (OSendData j); auto).
  rewrite E2 in Hs. destruct (nth_error (sp_inc spk) iid) as [[dl|]|] eqn:En; try discriminate.
  destruct (N.leb (sp_now spk) dl) eqn:El; [|discriminate]. apply N.leb_le in El.
  exists dl. split; [apply Hok, En|]. rewrite <- Hclk. exact El.
Qed.

(* ---------------------------------------------------------------------------------------------------- *)
(* the property theorems for the model (current variant), over every history of events                   *)
(* ---------------------------------------------------------------------------------------------------- *)
Definition obs_at (es : list ev) (k : nat) : list obs :=
  match nth_error (hist init es) k with Some (_, o) => o | None => [] end.

Lemma obs_at_nth : forall es k e, nth_error es k = Some e -> nth_error (hist init es) k = Some (sev_of e, obs_at es k).
Proof. intros es k e H. unfold obs_at. rewrite (hist_nth es k e H). reflexivity. Qed.

Lemma prefix_events : forall es k, map fst (firstn k (hist init es)) = map sev_of (firstn k es).
Proof. intros es k. rewrite firstn_hist, hist_map_fst. reflexivity. Qed.

Theorem m_accepted : forall es, exists sp, spec_run sinit (hist init es) = inl sp.
Proof. intros es. destruct (model_accepted_rel es) as (sp & H & _). exists sp. exact H. Qed.

Theorem m_exactly_once : forall es,
  NoDup (hist_cbs (hist init es)) /\
  (forall p, In p (hist_cbs (hist init es)) -> exists i, In i (expressed (map sev_of es)) /\ s_pid i = p) /\
  (complete (final init es) -> forall i, In i (expressed (map sev_of es)) ->
     count_occ Nat.eq_dec (hist_cbs (hist init es)) (s_pid i) = 1).
Proof.
  intros es. destruct (model_accepted_rel es) as (sp & Hrun & R).
  pose proof (acc_at_most_once _ _ Hrun) as Hnd. split; [exact Hnd|]. split.
  - intros p Hp. rewrite <- hist_map_fst with (s := init). apply (acc_cbs_expressed _ _ Hrun p Hp).
  - intros Hc i Hi. rewrite <- hist_map_fst with (s := init) in Hi.
    pose proof (acc_all_resolved _ _ Hrun (complete_no_pending _ _ R Hc) i Hi) as Hin.
    apply NoDup_count_occ' ; assumption.
Qed.

Lemma fire_obs : forall s tid, snd (fire s tid) = [].
Proof.
  intros s tid. unfold fire. destruct (nth_error (timers s) tid) as [t|]; [|reflexivity].
  destruct (tst t); try reflexivity. destruct (N.leb (tfire t) (now s)); reflexivity.
Qed.

Theorem m_result_sound : forall es k e p r, nth_error es k = Some e -> In (OCb p r) (obs_at es k) ->
  exists i, In i (expressed (map sev_of (firstn k es))) /\ s_pid i = p /\
    match r with
    | RData dn dd => e = EData dn dd /\ satisfies i dn dd = true
    | RNack reason => e = ENack (s_name i) (s_dig i) reason
    | RTimeout t => (exists tid, e = ERun tid) /\ t = now (final init (firstn k es)) /\ (s_deadline i <= t)%N
    end.
Proof.
  intros es k e p r Hk Hin. destruct (model_accepted_rel es) as (sp & Hrun & _).
  destruct (acc_result_sound _ _ k _ _ p r Hrun (obs_at_nth es k e Hk) Hin) as (i & A & B & _ & D).
  rewrite prefix_events in A, D. exists i. split; [exact A|]. split; [exact B|].
  destruct r.
  - destruct D as (D1 & D2). split; [|exact D2]. destruct e; simpl in D1; try discriminate. inversion D1. reflexivity.
  - destruct e; simpl in D; try discriminate. inversion D. reflexivity.
  - destruct D as (D1 & D2 & D3). split; [|split; [|exact D3]].
    + destruct e; simpl in D1; try discriminate.
      * (* EFire produces no callbacks *)
        exfalso. unfold obs_at in Hin. rewrite (hist_nth es k _ Hk) in Hin. cbn [step] in Hin. rewrite fire_obs in Hin. contradiction.
      * eexists. reflexivity.
    + rewrite D2. destruct (model_accepted_rel (firstn k es)) as (spk & Hrk & Rk).
      destruct (binv_run _ sinit [] [] spk binv_init Hrk) as (_ & Hc). rewrite hist_map_fst in Hc. simpl in Hc.
      rewrite <- Hc. apply (r_now _ _ Rk).
Qed.

Theorem m_data_resolves_all : forall es k dn dd i, nth_error es k = Some (EData dn dd) ->
  In i (expressed (map sev_of (firstn k es))) -> s_opt i = false -> ~ In (s_pid i) (hist_cbs (hist init (firstn k es))) ->
  satisfies i dn dd = true -> In (OCb (s_pid i) (RData dn dd)) (obs_at es k).
Proof.
  intros es k dn dd i Hk Hi Ho Hn Hs. destruct (model_accepted_rel es) as (sp & Hrun & _).
  apply (acc_data_resolves_all _ _ k dn dd _ i Hrun (obs_at_nth es k _ Hk)).
  - rewrite prefix_events. exact Hi.
  - exact Ho.
  - rewrite firstn_hist. exact Hn.
  - exact Hs.
Qed.

Theorem m_handler_lpm : forall es k nm life tok, nth_error es k = Some (EInterest nm life tok) ->
  match lpm (attached (hist init (firstn k es))) nm with
  | Some hid => exists dl, obs_at es k = [OHandler hid dl]
  | None => obs_at es k = [ONoHandler]
  end.
Proof.
  intros es k nm life tok Hk. destruct (model_accepted_rel es) as (sp & Hrun & _).
  pose proof (acc_handler_lpm _ _ k nm life tok _ Hrun (obs_at_nth es k _ Hk)) as H. rewrite firstn_hist in H. exact H.
Qed.

Theorem m_reply_deadline : forall es k iid j, nth_error es k = Some (EReply iid) -> In (OSendData j) (obs_at es k) ->
  j = iid /\ exists dl, nth_error (in_deadlines (map sev_of (firstn k es))) iid = Some dl /\
                        (now (final init (firstn k es)) <= dl)%N.
Proof.
  intros es k iid j Hk Hin. destruct (model_accepted_rel es) as (sp & Hrun & _).
  destruct (acc_reply_deadline _ _ k iid _ j Hrun (obs_at_nth es k _ Hk) Hin) as (A & dl & B & C).
  rewrite prefix_events in B, C. split; [exact A|]. exists dl. split; [exact B|].
  destruct (model_accepted_rel (firstn k es)) as (spk & Hrk & Rk).
  destruct (binv_run _ sinit [] [] spk binv_init Hrk) as (_ & Hc). rewrite hist_map_fst in Hc. simpl in Hc.
  rewrite <- (r_now _ _ Rk), Hc. exact C.
Qed.

(* ---- the timer interface: cancelling never blocks and never waits for an event that has already started ----
   In the model [cancel] is a total function on the timer list: it changes at most the state of the named timer, and only
   Sched -> Cancelled; a timer that has FIRED (its closure is waiting for the PIT lock) stays Fired: cancel neither runs
   nor waits for the closure. onData / onNack therefore always complete while fired timers are outstanding (every model
   step is a total function; [model_accepted] covers the histories EFire t; EData ..; ERun t). An implementation of
   ndn.Timer whose cancel function waits for a started event violates this obligation: the engine calls cancel under the
   PIT lock and the event function begins by taking that lock. *)
Theorem cancel_nonblocking_spec : forall es ts j t, nth_error ts j = Some t ->
  exists t', nth_error (cancel_all ts es) j = Some t' /\ tnode t' = tnode t /\ tfire t' = tfire t /\
             (tst t = TFired -> tst t' = TFired) /\ (tst t' <> tst t -> tst t = TSched /\ tst t' = TCancelled).
Proof.
  intros es ts j t H. destruct (cancel_all_nth es ts j t H) as (t' & A & B & C & D & _).
  exists t'. split; [exact A|]. split; [exact B|]. split; [exact C|]. split.
  - intros Hf. destruct D as [D|(D1 & _)]; congruence.
  - intros Hne. destruct D as [D|(D1 & D2 & _)]; [congruence|auto].
Qed.

(* ---- Express inserts, then emits ----
   In the model one EExpress step inserts the entry into the PIT and emits the Interest (OSendInt); whatever the face does
   with the packet — including handing the answer back before Send returns — is a later event, so it finds the entry.
   (The harness stream "reply" runs this on the real engine with a face that answers during Send.) *)
Theorem reply_during_send_matched : forall es nm cbp dig life dn dd,
  is_nil nm && is_none dig = false ->
  let s := final init es in
  satisfies (mkSint (npid s) nm cbp dig (now s + lifetime life)%N) dn dd = true ->
  obs_at (es ++ [EExpress nm cbp dig life; EData dn dd]) (length es) = [OSendInt (npid s)] /\
  In (OCb (npid s) (RData dn dd)) (obs_at (es ++ [EExpress nm cbp dig life; EData dn dd]) (S (length es))).
Proof.
  intros es nm cbp dig life dn dd Hne s Hsat.
  set (i := mkSint (npid s) nm cbp dig (now s + lifetime life)%N) in *.
  set (es' := es ++ [EExpress nm cbp dig life; EData dn dd]).
  destruct (model_accepted_rel es) as (sp0 & Hrun0 & R0). fold s in R0.
  destruct (express_pinv s (sp_pending sp0) nm cbp dig life (r_pit _ _ R0) Hne) as (s1 & Hex & _).
  assert (Hk0 : nth_error es' (length es) = Some (EExpress nm cbp dig life)).
  { unfold es'. rewrite nth_error_app2 by lia. rewrite Nat.sub_diag. reflexivity. }
  assert (Hk1 : nth_error es' (S (length es)) = Some (EData dn dd)).
  { unfold es'. rewrite nth_error_app2 by lia. replace (S (length es) - length es) with 1 by lia. reflexivity. }
  assert (Hf0 : firstn (length es) es' = es) by (unfold es'; rewrite firstn_app, Nat.sub_diag, firstn_all; simpl; apply app_nil_r).
  assert (Hf1 : firstn (S (length es)) es' = es ++ [EExpress nm cbp dig life]).
  { unfold es'. rewrite firstn_app, firstn_all2 by lia. replace (S (length es) - length es) with 1 by lia. reflexivity. }
  split.
  - unfold obs_at. rewrite (hist_nth es' _ _ Hk0), Hf0. fold s. cbn [step snd]. rewrite Hex. reflexivity.
  - (* the history up to and including the Express: the new Interest is pending, hence expressed and not yet called back *)
    destruct (model_accepted_rel (es ++ [EExpress nm cbp dig life])) as (sp1 & Hrun1 & _).
    pose proof (acc_binv _ _ Hrun1) as B. rewrite hist_map_fst in B.
    assert (Hp : In i (sp_pending sp1)).
    { rewrite hist_app in Hrun1. rewrite spec_run_app, Hrun0 in Hrun1. cbn [hist spec_run] in Hrun1. fold s in Hrun1.
      cbn [step] in Hrun1. rewrite Hex in Hrun1. cbn [snd sev_of] in Hrun1.
      unfold spec_step in Hrun1. cbn [has_panic existsb orb] in Hrun1. rewrite Hne in Hrun1.
      rewrite (r_npid _ _ R0) in Hrun1. unfold obs_is in Hrun1. rewrite Nat.eqb_refl in Hrun1.
      inversion Hrun1. subst sp1. cbn [sp_pending]. apply in_or_app. right. left.
      unfold i. rewrite (r_now _ _ R0). reflexivity. }
    apply (b_pend _ _ _ B) in Hp. destruct Hp as (HiX & Hns).
    change (npid s) with (s_pid i).
    apply (m_data_resolves_all es' (S (length es)) dn dd i Hk1); rewrite ?Hf1; try assumption. reflexivity.
Qed.
