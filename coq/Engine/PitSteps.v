(* Engine/PitSteps.v — every PIT-related event of the model (current variant) preserves the invariant [pinv] and
   produces observations that the spec checker accepts. *)
From Coq Require Import List NArith Bool Arith Lia.
From Engine Require Import Model Spec Trie PitWalk PitInv.
Import ListNotations.
Local Open Scope nat_scope.

(* ---- names ---- *)
Lemma name_eqb_eq : forall a b, name_eqb a b = true <-> a = b.
Proof.
  induction a as [|x a IH]; intros [|y b]; simpl; split; intros H; try reflexivity; try discriminate.
  - apply andb_true_iff in H. destruct H as (H1 & H2). apply N.eqb_eq in H1. apply IH in H2. congruence.
  - inversion H. subst. rewrite N.eqb_refl. simpl. apply IH. reflexivity.
Qed.
Lemma name_eqb_refl : forall a, name_eqb a a = true.
Proof. intros a. apply name_eqb_eq. reflexivity. Qed.

Lemma is_prefix_app : forall a b, is_prefix a b = true <-> exists x, b = a ++ x.
Proof.
  induction a as [|x a IH]; intros b; simpl.
  - split; [intros _; exists b; reflexivity|reflexivity].
  - destruct b as [|y b].
    + split; [discriminate|intros (z & H); discriminate].
    + rewrite andb_true_iff, N.eqb_eq, IH. split.
      * intros (-> & z & ->). exists z. reflexivity.
      * intros (z & H). inversion H. subst. split; [reflexivity|exists z; reflexivity].
Qed.

Lemma name_eqb_app_nil : forall p x, name_eqb p (p ++ x) = is_nil x.
Proof.
  intros p x. destruct x as [|k x]; simpl.
  - rewrite app_nil_r. apply name_eqb_refl.
  - destruct (name_eqb p (p ++ k :: x)) eqn:E; [|reflexivity]. apply name_eqb_eq in E.
    apply (f_equal (@length key)) in E. rewrite app_length in E. simpl in E. lia.
Qed.

Lemma satisfies_prefix : forall i dn dd, satisfies i dn dd = true -> exists x, dn = s_name i ++ x.
Proof.
  intros i dn dd H. unfold satisfies in H. apply andb_true_iff in H. destruct H as (H & _).
  apply orb_true_iff in H. destruct H as [H|H].
  - apply name_eqb_eq in H. exists []. rewrite app_nil_r. auto.
  - apply andb_true_iff in H. apply is_prefix_app, (proj2 H).
Qed.

(* the test of onData at a node of depth |p| on the path of the Data name is the spec's "satisfies" *)
Lemma hits_satisfies : forall i e p x dd, s_name i = p -> s_cbp i = pcbp e -> s_dig i = pdig e ->
  data_hits (length p) (p ++ x) dd e = satisfies i (p ++ x) dd.
Proof.
  intros i e p x dd Hn Hc Hd. unfold data_hits, satisfies. rewrite Hn, Hc, Hd, name_eqb_app_nil.
  assert (Hp : is_prefix p (p ++ x) = true) by (apply is_prefix_app; exists x; reflexivity). rewrite Hp.
  rewrite app_length. destruct x as [|k x]; simpl.
  - replace (length p <? length p + 0) with false by (symmetry; apply Nat.ltb_ge; lia). simpl. reflexivity.
  - replace (length p <? length p + S (length x)) with true by (symmetry; apply Nat.ltb_lt; lia). simpl.
    destruct (pcbp e); simpl; reflexivity.
Qed.

Lemma has_panic_cbs : forall (f : pend -> result) es, has_panic (map (fun e => OCb (pid e) (f e)) es) = false.
Proof. intros f es. induction es as [|e es IH]; simpl; auto. Qed.

Lemma minus_nil : forall P, minus P [] = P.
Proof. intros P. unfold minus. simpl. induction P as [|a P IH]; simpl; [reflexivity|]. rewrite IH. reflexivity. Qed.

Lemma filter_true : forall A (l : list A), filter (fun _ => true) l = l.
Proof. intros A l. induction l as [|a l IH]; simpl; [reflexivity|]. rewrite IH. reflexivity. Qed.

Lemma entry_node_lt : forall s P n e, pinv s P -> In e (nval (hget (pit s) n)) -> n < hnext (pit s).
Proof.
  intros s P n e I He. destruct (Nat.lt_ge_cases n (hnext (pit s))) as [L|L]; [exact L|].
  rewrite (wf_unalloc _ _ (pit s) (pi_wf s P I) n L) in He. simpl in He. contradiction.
Qed.

Lemma entry_pid_lt : forall s P n e, pinv s P -> In e (nval (hget (pit s) n)) -> pid e < npid s.
Proof.
  intros s P n e I He. destruct (pi_ent s P I n e He) as (_ & i & Hi & Hp & _). rewrite <- Hp. apply (pi_lt s P I i Hi).
Qed.

(* ---------------------------------------------------------------------------------------------------- *)
(* EAdvance                                                                                              *)
(* ---------------------------------------------------------------------------------------------------- *)
Lemma advance_pinv : forall s P d, pinv s P ->
  pinv (mkState (now s + d)%N (pit s) (fib s) (timers s) (npid s) (inc s) (panicked s)) P.
Proof.
  intros s P d I. destruct I as [A B C D E F G H J]. constructor; simpl; auto.
  intros tid t Ht Hf. specialize (J tid t Ht Hf). lia.
Qed.

(* ---------------------------------------------------------------------------------------------------- *)
(* EExpress                                                                                              *)
(* ---------------------------------------------------------------------------------------------------- *)
Lemma express_with_pinv : forall b s P nm cbp dig life, pinv s P -> is_nil nm && is_none dig = false ->
  exists s', express_with b s nm cbp dig life = (s', [if b then OSendInt (npid s) else ORet 1%N]) /\
    pinv s' (P ++ [mkSintO (npid s) nm cbp dig (now s + lifetime life)%N (negb b)]) /\
    now s' = now s /\ npid s' = S (npid s) /\ fib s' = fib s /\ inc s' = inc s /\ panicked s' = panicked s.
Proof.
  intros b s P nm cbp dig life I Hne. unfold express_with. rewrite Hne.
  pose proof (pi_wf s P I) as W.
  destruct (match_always_spec _ [] nm (pit s) 0 W (wf_next _ _ _ W)) as (h' & n & Hma & W' & SO & Hex & Hpar).
  rewrite Hma.
  set (e := mkPend (npid s) (now s + lifetime life)%N cbp dig (length (timers s))).
  set (h2 := set_val h' n (nval (hget h' n) ++ [e])).
  eexists. split; [reflexivity|]. split; [|simpl; auto 10].
  assert (Hn : n < hnext h') by (eapply exact_match_lt; eauto; apply (wf_next _ _ _ W')).
  pose proof SO as SOall. destruct SO as (SO1 & SO2 & SO3 & SO4 & SO5).
  assert (Hold : forall j x, In x (nval (hget h' j)) -> j < hnext (pit s) /\ In x (nval (hget (pit s) j))).
  { intros j x Hx. destruct (Nat.lt_ge_cases j (hnext (pit s))) as [L|L].
    - destruct (SO2 j L) as (E & _). rewrite E in Hx. auto.
    - destruct (Nat.lt_ge_cases j (hnext h')) as [L'|L'].
      + rewrite (SO3 j L L') in Hx. contradiction.
      + rewrite (wf_unalloc _ _ h' W' j L') in Hx. simpl in Hx. contradiction. }
  assert (Hv2 : forall j, nval (hget h2 j) = if Nat.eqb j n then nval (hget h' n) ++ [e] else nval (hget h' j)).
  { intros j. unfold h2. rewrite set_val_nval. reflexivity. }
  assert (Hex2 : forall r a, exact_match h2 a r = exact_match h' a r) by (intros; apply exact_match_set_val).
  assert (Hkeep : forall r j, exact_match (pit s) 0 r = Some j -> exact_match h2 0 r = Some j).
  { intros r j H. rewrite Hex2. eapply same_old_exact; [exact SOall|exact H]. }
  assert (Hin2 : forall j x, In x (nval (hget h2 j)) -> (j = n /\ x = e) \/ (j < hnext (pit s) /\ In x (nval (hget (pit s) j)))).
  { intros j x. rewrite Hv2. destruct (Nat.eqb j n) eqn:Ej.
    - apply Nat.eqb_eq in Ej. subst j. rewrite in_app_iff. intros [Hx|[<-|[]]]; [right; apply Hold, Hx|left; auto].
    - intros Hx. right. apply Hold, Hx. }
  assert (Hlen : length (timers s) = npid s) by apply (pi_len s P I).
  assert (W2 : pwf h2) by (apply twf_set_val; assumption).
  clearbody h2.
  constructor; cbn [now pit fib timers npid inc panicked].
  - exact W2.
  - rewrite app_length. simpl. lia.
  - intros j x Hx. destruct (Hin2 j x Hx) as [(-> & ->)|(Hj & Hx')].
    + simpl. split; [exact Hlen|]. eexists. split; [apply in_or_app; right; left; reflexivity|]. simpl.
      repeat split; auto. rewrite Hex2. exact Hex.
    + destruct (pi_ent s P I j x Hx') as (Ht & i & Hi & A & B & C & D & E).
      split; [exact Ht|]. exists i. split; [apply in_or_app; left; exact Hi|]. repeat split; auto.
  - intros i Hi. apply in_app_iff in Hi. destruct Hi as [Hi|[<-|[]]].
    + destruct (pi_pend s P I i Hi) as (j & x & Hx & Hp). exists j, x. split; [|exact Hp].
      rewrite Hv2. pose proof (entry_node_lt s P j x I Hx) as Hj. destruct (SO2 j Hj) as (E & _).
      destruct (Nat.eqb j n) eqn:Ej; [apply Nat.eqb_eq in Ej; subst j; apply in_or_app; left|]; rewrite E; exact Hx.
    + exists n, e. split; [|reflexivity]. rewrite Hv2, Nat.eqb_refl. apply in_or_app. right. left. reflexivity.
  - intros j. rewrite Hv2. destruct (Nat.eqb j n) eqn:Ej.
    + rewrite map_app. simpl.
      assert (Hnd : NoDup (map pid (nval (hget h' n)))).
      { destruct (Nat.lt_ge_cases n (hnext (pit s))) as [L|L].
        - destruct (SO2 n L) as (E & _). rewrite E. apply (pi_nodup_node s P I).
        - rewrite (SO3 n L Hn). constructor. }
      apply NoDup_app_snoc; [exact Hnd|]. intros Hi. apply in_map_iff in Hi. destruct Hi as (x & Hp & Hx).
      destruct (Hold n x Hx) as (_ & Hx'). pose proof (entry_pid_lt s P n x I Hx'). lia.
    + destruct (Nat.lt_ge_cases j (hnext (pit s))) as [L|L].
      * destruct (SO2 j L) as (E & _). rewrite E. apply (pi_nodup_node s P I).
      * destruct (Nat.lt_ge_cases j (hnext h')) as [L'|L'].
        -- rewrite (SO3 j L L'). constructor.
        -- rewrite (wf_unalloc _ _ h' W' j L'). constructor.
  - rewrite map_app. simpl. apply NoDup_app_snoc; [apply (pi_nodupP s P I)|].
    intros Hi. apply in_map_iff in Hi. destruct Hi as (i & Hp & Hi). pose proof (pi_lt s P I i Hi). lia.
  - intros i Hi. apply in_app_iff in Hi. destruct Hi as [Hi|[<-|[]]]; [pose proof (pi_lt s P I i Hi); lia|simpl; lia].
  - intros j x Hx. destruct (Hin2 j x Hx) as [(-> & ->)|(Hj & Hx')].
    + simpl. exists (mkTimer n (now s + lifetime life + timeout_margin)%N TSched).
      rewrite <- Hlen, nth_error_app2, Nat.sub_diag by lia. simpl. repeat split; auto. lia.
    + destruct (pi_timer s P I j x Hx') as (t & Ht & A & B & C). exists t.
      rewrite nth_error_app1 by (apply nth_error_Some; congruence). auto.
  - intros tid t Ht Hf. destruct (Nat.lt_ge_cases tid (length (timers s))) as [L|L].
    + rewrite nth_error_app1 in Ht by exact L. apply (pi_fired s P I tid t Ht Hf).
    + rewrite nth_error_app2 in Ht by exact L. destruct (tid - length (timers s)) as [|k]; simpl in Ht.
      * inversion Ht. subst t. simpl in Hf. discriminate.
      * destruct k; discriminate.
Qed.

Lemma express_pinv : forall s P nm cbp dig life, pinv s P -> is_nil nm && is_none dig = false ->
  exists s', express s nm cbp dig life = (s', [OSendInt (npid s)]) /\
    pinv s' (P ++ [mkSint (npid s) nm cbp dig (now s + lifetime life)%N]) /\
    now s' = now s /\ npid s' = S (npid s) /\ fib s' = fib s /\ inc s' = inc s /\ panicked s' = panicked s.
Proof. intros. apply (express_with_pinv true); assumption. Qed.


(* ---------------------------------------------------------------------------------------------------- *)
(* resolution events: shared tail (DeleteIf after the node lists were rewritten)                         *)
(* ---------------------------------------------------------------------------------------------------- *)
Lemma prune_after : forall s P (h1 : pheap) (keepf : nat -> pend -> bool) n, pinv s P ->
  same_struct (pit s) h1 ->
  (forall j, nval (hget h1 j) = filter (keepf j) (nval (hget (pit s) j))) ->
  exists h2, delete_if true is_nil h1 n = Some h2 /\ pwf h2 /\
    (forall j, nval (hget h2 j) = filter (keepf j) (nval (hget (pit s) j))) /\
    (forall r j, exact_match (pit s) 0 r = Some j -> nval (hget h2 j) <> [] -> exact_match h2 0 r = Some j).
Proof.
  intros s P h1 keepf n I SS Hv. pose proof (pi_wf s P I) as W.
  assert (W1 : pwf h1).
  { apply (same_struct_wf (pit s) h1 W SS). intros j Hj. rewrite Hv, (wf_unalloc _ _ _ W j Hj). reflexivity. }
  destruct (delete_if_current _ [] is_nil h1 n W1) as (h2 & A & B & (C1 & C2) & D & E).
  exists h2. split; [exact A|]. split; [exact B|]. split.
  - intros j. destruct (C2 j) as (C & _). rewrite C. apply Hv.
  - intros r j Hm Hne. apply E.
    + rewrite (exact_match_struct (pit s) h1); [exact Hm|]. intros x. destruct SS as (_ & SS). destruct (SS x) as (_ & _ & _ & Ec). exact Ec.
    + destruct (C2 j) as (C & _). rewrite C in Hne. destruct (nval (hget h1 j)); [contradiction|reflexivity].
Qed.

(* ---------------------------------------------------------------------------------------------------- *)
(* EData                                                                                                 *)
(* ---------------------------------------------------------------------------------------------------- *)
Lemma NoDup_path_nodes : forall (h : pheap), pwf h -> forall q n, exact_match h 0 q = Some n -> NoDup (path_nodes h 0 q).
Proof.
  intros h W q. induction q as [|k q IH] using rev_ind; intros n H.
  - simpl. constructor; [intros []|constructor].
  - rewrite (path_nodes_snoc h q k n H).
    destruct (exact_match_snoc _ _ h W q k n H) as (m & Hm & _).
    apply NoDup_app_snoc; [apply (IH m Hm)|].
    intros Hi. pose proof (path_nodes_dep_lt h W q m n Hm Hi) as Hd.
    rewrite (exact_match_root_dep _ _ h W _ _ H), app_length in Hd. simpl in Hd. lia.
Qed.

Lemma data_pinv : forall s P dn dd, pinv s P ->
  exists s' o P', on_data current s dn dd = (s', o) /\ check_data_cbs P dn dd o = inl P' /\ has_panic o = false /\
    find (fun i => satisfies i dn dd) P' = None /\ pinv s' P' /\
    now s' = now s /\ npid s' = npid s /\ fib s' = fib s /\ inc s' = inc s /\ panicked s' = panicked s.
Proof.
  intros s P dn dd I. pose proof (pi_wf s P I) as W. unfold on_data.
  destruct (prefix_match_spec _ (pit s) dn 0) as (a & b & Hdn & Ha & Hb).
  set (n0 := prefix_match (pit s) 0 dn) in *.
  rewrite (exact_match_root_dep _ _ _ W a n0 Ha).
  destruct (data_walk_spec dn dd a (pit s) (timers s) n0 W Ha) as (h1 & ts1 & o & Hw & SS & Hv & Ho & Hts).
  rewrite Hw.
  set (PN := path_nodes (pit s) 0 a) in *.
  set (keepf := fun j e => negb (existsb (Nat.eqb j) PN && data_hits (ndep (hget (pit s) j)) dn dd e)).
  set (Rl := flat_map (hits_of (pit s) dn dd) (rev PN)) in *.
  assert (Hv' : forall j, nval (hget h1 j) = filter (keepf j) (nval (hget (pit s) j))).
  { intros j. rewrite Hv. unfold keepf, keep_of. destruct (existsb (Nat.eqb j) PN); simpl.
    - reflexivity.
    - symmetry. apply filter_true. }
  destruct (prune_after s P h1 keepf n0 I SS Hv') as (h2 & Hd & W2 & Hv2 & Hlive).
  simpl v_delif. rewrite Hd.
  assert (HR1 : forall e, In e Rl -> exists j, In j PN /\ In e (nval (hget (pit s) j)) /\ data_hits (ndep (hget (pit s) j)) dn dd e = true).
  { intros e He. unfold Rl in He. apply in_flat_map in He. destruct He as (j & Hj & He). apply in_rev in Hj.
    unfold hits_of in He. apply filter_In in He. exists j. tauto. }
  assert (HR2 : forall j e, In j PN -> In e (nval (hget (pit s) j)) -> data_hits (ndep (hget (pit s) j)) dn dd e = true -> In e Rl).
  { intros j e Hj He Hh. unfold Rl. apply in_flat_map. exists j. split; [apply in_rev; rewrite rev_involutive; exact Hj|].
    unfold hits_of. apply filter_In. auto. }
  (* an entry on the path: its Interest's name is the path of its node, a prefix of the Data name *)
  assert (Hsat : forall j e, In j PN -> In e (nval (hget (pit s) j)) ->
            exists i, In i P /\ s_pid i = pid e /\ data_hits (ndep (hget (pit s) j)) dn dd e = satisfies i dn dd).
  { intros j e Hj He. destruct (pi_ent s P I j e He) as (_ & i & Hi & Hp & Hc & Hdg & _ & Hm).
    exists i. split; [exact Hi|]. split; [exact Hp|].
    apply (in_path_nodes (pit s) a n0 Ha) in Hj. destruct Hj as (a1 & a2 & Haa & Hj).
    assert (s_name i = a1) by (exact (exact_match_inj _ _ (pit s) W _ _ j Hm Hj)).
    rewrite (exact_match_root_dep _ _ _ W a1 j Hj). subst dn a. rewrite <- app_assoc.
    apply hits_satisfies; auto. }
  assert (HRnd : NoDup (map pid Rl)).
  { unfold Rl. assert (Hnd : NoDup (rev PN)) by (apply NoDup_rev, (NoDup_path_nodes _ W a n0 Ha)).
    assert (Hsub : forall j, In j (rev PN) -> In j PN) by (intros j Hj; apply in_rev; exact Hj).
    revert Hnd Hsub. generalize (rev PN). intros l. induction l as [|j l IH]; intros Hnd Hsub; simpl; [constructor|].
    inversion Hnd as [|x y Hx Hy]. subst. rewrite map_app. apply NoDup_app_disjoint.
    - unfold hits_of. apply NoDup_map_filter, (pi_nodup_node s P I).
    - apply IH; [exact Hy|]. intros x Hx'. apply Hsub. right. exact Hx'.
    - intros p Hp1 Hp2. apply in_map_iff in Hp1. destruct Hp1 as (e1 & <- & He1).
      apply in_map_iff in Hp2. destruct Hp2 as (e2 & Hpe & He2).
      unfold hits_of in He1. apply filter_In in He1. apply in_flat_map in He2. destruct He2 as (j2 & Hj2 & He2).
      unfold hits_of in He2. apply filter_In in He2.
      destruct (entry_unique s P j2 j e2 e1 I (proj1 He2) (proj1 He1) Hpe) as (-> & _). contradiction. }
  eexists _, o, (minus P (map pid Rl)). split; [reflexivity|].
  assert (Hcheck : check_data_cbs P dn dd o = inl (minus P (map pid Rl))).
  { rewrite Ho. unfold check_data_cbs. apply check_cbs_ok; [apply (pi_nodupP s P I)|exact HRnd|].
    intros e He. destruct (HR1 e He) as (j & Hj & Hej & Hh). destruct (Hsat j e Hj Hej) as (i & Hi & Hp & Hs).
    exists i. split; [exact Hi|]. split; [exact Hp|]. unfold data_ok. rewrite name_eqb_refl, N.eqb_refl. simpl. congruence. }
  split; [exact Hcheck|]. split.
  { rewrite Ho. apply (has_panic_cbs (fun _ => RData dn dd)). }
  split.
  { (* each arriving Data resolves all pending Interests it satisfies *)
    destruct (find (fun i => satisfies i dn dd) (minus P (map pid Rl))) as [i|] eqn:Ef; [|reflexivity]. exfalso.
    apply find_some in Ef. destruct Ef as (Hi & Hs). apply in_minus in Hi. destruct Hi as (Hi & Hn).
    destruct (pi_pend s P I i Hi) as (j & e & He & Hp).
    destruct (pi_ent s P I j e He) as (_ & i' & Hi' & Hp' & Hc & Hdg & _ & Hm).
    assert (i' = i) by (eapply sint_unique; eauto using pi_nodupP; congruence). subst i'.
    destruct (satisfies_prefix i dn dd Hs) as (x & Hx).
    assert (Hlen : length (s_name i) <= length a) by (eapply (prefix_match_longest _ (pit s) dn 0 a b (s_name i) x j); eauto).
    assert (Hpre : exists a2, a = s_name i ++ a2).
    { rewrite Hdn in Hx. exists (firstn (length a - length (s_name i)) x).
      assert (E1 : firstn (length a) (a ++ b) = a) by (rewrite firstn_app, Nat.sub_diag, firstn_all; simpl; rewrite app_nil_r; reflexivity).
      rewrite Hx in E1. rewrite firstn_app in E1. rewrite firstn_all2 in E1 by exact Hlen. auto. }
    destruct Hpre as (a2 & Ha2).
    assert (Hj : In j PN) by (apply (in_path_nodes (pit s) a n0 Ha); exists (s_name i), a2; auto).
    destruct (Hsat j e Hj He) as (i2 & Hi2 & Hp2 & Hh).
    assert (i2 = i) by (eapply sint_unique; eauto using pi_nodupP; congruence). subst i2.
    apply Hn. rewrite <- Hp. apply in_map. apply (HR2 j e Hj He). congruence. }
  split; [|simpl; auto 10].
  apply (resolve_step s P h2 ts1 keepf Rl I W2 Hv2).
  - intros e He. destruct (HR1 e He) as (j & Hj & Hej & Hh). exists j. split; [exact Hej|].
    unfold keepf. apply (existsb_nat_in j PN) in Hj. rewrite Hj, Hh. reflexivity.
  - intros j e He Hk. unfold keepf in Hk. apply negb_false_iff, andb_true_iff in Hk. destruct Hk as (Hk1 & Hk2).
    apply existsb_nat_in in Hk1. eapply HR2; eauto.
  - exact Hlive.
  - rewrite Hts. apply cancel_all_length.
  - intros j t' Ht'. rewrite Hts in Ht'.
    destruct (nth_error (timers s) j) as [t|] eqn:Et; [|rewrite (cancel_all_none _ _ _ Et) in Ht'; discriminate].
    destruct (cancel_all_nth Rl (timers s) j t Et) as (t2 & A & B & C & D & E).
    assert (t2 = t') by congruence. subst t2. exists t. split; [reflexivity|]. split; [exact B|]. split; [exact C|]. split.
    + intros Hf. destruct D as [D|(D1 & D2 & _)]; congruence.
    + intros Hn. left. apply E. intros Hi. apply Hn. apply in_map_iff in Hi. destruct Hi as (e & Hpe & He).
      destruct (HR1 e He) as (j' & _ & Hej & _). destruct (pi_ent s P I j' e Hej) as (Hpt & _).
      apply in_map_iff. exists e. split; [congruence|exact He].
Qed.

(* ---------------------------------------------------------------------------------------------------- *)
(* ENack                                                                                                 *)
(* ---------------------------------------------------------------------------------------------------- *)
Lemma cancel_all_cond : forall s P Rl (h' : pheap), pinv s P ->
  (forall e, In e Rl -> exists j, In e (nval (hget (pit s) j))) ->
  forall j t', nth_error (cancel_all (timers s) Rl) j = Some t' ->
    exists t, nth_error (timers s) j = Some t /\ tnode t' = tnode t /\ tfire t' = tfire t /\
              (tst t' = TFired -> tst t = TFired) /\
              (~ In j (map pid Rl) -> tst t' = tst t \/ forall n e, In e (nval (hget h' n)) -> pid e <> j).
Proof.
  intros s P Rl h' I HR j t' Ht'.
  destruct (nth_error (timers s) j) as [t|] eqn:Et; [|rewrite (cancel_all_none _ _ _ Et) in Ht'; discriminate].
  destruct (cancel_all_nth Rl (timers s) j t Et) as (t2 & A & B & C & D & E).
  assert (t2 = t') by congruence. subst t2. exists t. split; [reflexivity|]. split; [exact B|]. split; [exact C|]. split.
  - intros Hf. destruct D as [D|(D1 & D2 & _)]; congruence.
  - intros Hn. left. apply E. intros Hi. apply Hn. apply in_map_iff in Hi. destruct Hi as (e & Hpe & He).
    destruct (HR e He) as (j' & Hej). destruct (pi_ent s P I j' e Hej) as (Hpt & _).
    apply in_map_iff. exists e. split; [congruence|exact He].
Qed.

Lemma opt_key_eqb_eq : forall a b, opt_key_eqb a b = true <-> a = b.
Proof.
  intros [a|] [b|]; simpl; split; intros H; try reflexivity; try discriminate.
  - apply N.eqb_eq in H. congruence.
  - inversion H. apply N.eqb_refl.
Qed.

Lemma nack_pinv : forall s P nm dig reason, pinv s P ->
  exists s' o P', on_nack current s nm dig reason = (s', o) /\ check_nack_cbs P nm dig reason o = inl P' /\
    has_panic o = false /\ pinv s' P' /\
    now s' = now s /\ npid s' = npid s /\ fib s' = fib s /\ inc s' = inc s /\ panicked s' = panicked s.
Proof.
  intros s P nm dig reason I. pose proof (pi_wf s P I) as W. unfold on_nack. cbn [v_nackdig current].
  destruct (exact_match (pit s) 0 nm) as [n|] eqn:Em.
  2:{ exists s, [], P. split; [reflexivity|]. split; [reflexivity|]. split; [reflexivity|]. split; [exact I|]. auto 10. }
  set (lst := nval (hget (pit s) n)).
  set (Rl := filter (fun e => opt_key_eqb (pdig e) dig) lst).
  set (keep := filter (fun e => negb (opt_key_eqb (pdig e) dig)) lst).
  set (h1 := set_val (pit s) n keep).
  set (keepf := fun j e => negb (Nat.eqb j n && opt_key_eqb (pdig e) dig)).
  assert (SS : same_struct (pit s) h1) by (split; [reflexivity|]; intros j; apply set_val_struct).
  assert (Hv : forall j, nval (hget h1 j) = filter (keepf j) (nval (hget (pit s) j))).
  { intros j. unfold h1. rewrite set_val_nval. unfold keepf. destruct (Nat.eqb j n) eqn:Ej; simpl.
    - apply Nat.eqb_eq in Ej. subst j. reflexivity.
    - symmetry. apply filter_true. }
  destruct (prune_after s P h1 keepf n I SS Hv) as (h2 & Hd & W2 & Hv2 & Hlive).
  cbn [v_delif current]. rewrite Hd.
  assert (HR1 : forall e, In e Rl -> In e (nval (hget (pit s) n)) /\ opt_key_eqb (pdig e) dig = true).
  { intros e He. unfold Rl in He. apply filter_In in He. exact He. }
  eexists _, _, (minus P (map pid Rl)). split; [reflexivity|]. split; [|split; [apply (has_panic_cbs (fun _ => RNack reason))|split; [|simpl; auto 10]]].
  - unfold check_nack_cbs. apply check_cbs_ok; [apply (pi_nodupP s P I)| |].
    + unfold Rl. apply NoDup_map_filter, (pi_nodup_node s P I).
    + intros e He. destruct (HR1 e He) as (Hen & Hdg).
      destruct (pi_ent s P I n e Hen) as (_ & i & Hi & Hp & Hc & Hdi & _ & Hm).
      exists i. split; [exact Hi|]. split; [exact Hp|]. unfold nack_ok.
      assert (s_name i = nm) by (exact (exact_match_inj _ _ (pit s) W _ _ n Hm Em)).
      rewrite H, name_eqb_refl, Hdi, Hdg, N.eqb_refl. reflexivity.
  - apply (resolve_step s P h2 (cancel_all (timers s) Rl) keepf Rl I W2 Hv2).
    + intros e He. destruct (HR1 e He) as (Hen & Hdg). exists n. split; [exact Hen|]. unfold keepf. rewrite Nat.eqb_refl, Hdg. reflexivity.
    + intros j e He Hk. unfold keepf in Hk. apply negb_false_iff, andb_true_iff in Hk. destruct Hk as (Hk1 & Hk2).
      apply Nat.eqb_eq in Hk1. subst j. unfold Rl. apply filter_In. auto.
    + exact Hlive.
    + apply cancel_all_length.
    + apply (cancel_all_cond s P Rl h2 I). intros e He. exists n. apply (HR1 e He).
Qed.

(* ---------------------------------------------------------------------------------------------------- *)
(* EFire                                                                                                 *)
(* ---------------------------------------------------------------------------------------------------- *)
Lemma fire_pinv : forall s P tid, pinv s P ->
  exists s', fire s tid = (s', []) /\ pinv s' P /\ now s' = now s /\ npid s' = npid s /\ fib s' = fib s /\ inc s' = inc s /\ panicked s' = panicked s.
Proof.
  intros s P tid I. unfold fire.
  destruct (nth_error (timers s) tid) as [t|] eqn:Et; [|exists s; split; [reflexivity|]; split; [exact I|]; auto 10].
  destruct (tst t) eqn:Es; try (exists s; split; [reflexivity|]; split; [exact I|]; auto 10; fail).
  destruct (N.leb (tfire t) (now s)) eqn:El; [|exists s; split; [reflexivity|]; split; [exact I|]; auto 10].
  apply N.leb_le in El.
  eexists. split; [reflexivity|]. split; [|simpl; auto 10].
  unfold set_tst. rewrite Et.
  assert (Hn : forall j, nth_error (set_nth (timers s) tid (mkTimer (tnode t) (tfire t) TFired)) j =
                         if Nat.eqb j tid then Some (mkTimer (tnode t) (tfire t) TFired) else nth_error (timers s) j).
  { intros j. rewrite nth_error_set_nth, Et. reflexivity. }
  destruct I as [A B C D E F G H J]. constructor; cbn [now pit fib timers npid inc panicked with_pit]; auto.
  - rewrite set_nth_length. exact B.
  - intros n e He. destruct (H n e He) as (t0 & Ht0 & H1 & H2 & H3). rewrite Hn.
    destruct (Nat.eqb (pid e) tid) eqn:Ep.
    + apply Nat.eqb_eq in Ep. rewrite Ep in Ht0. assert (t0 = t) by congruence. subst t0.
      eexists. split; [reflexivity|]. simpl. auto.
    + exists t0. auto.
  - intros j t0. rewrite Hn. destruct (Nat.eqb j tid) eqn:Ej.
    + intros Ht0 _. inversion Ht0. subst t0. simpl. exact El.
    + apply J.
Qed.

(* ---------------------------------------------------------------------------------------------------- *)
(* ERun                                                                                                  *)
(* ---------------------------------------------------------------------------------------------------- *)
Definition timers_after_run (s : state) (tid : nat) : list timer :=
  match nth_error (timers s) tid with
  | Some t => match tst t with TFired => set_tst (timers s) tid TDone | _ => timers s end
  | None => timers s
  end.

Lemma run_pinv : forall s P tid, pinv s P ->
  exists s' o P', run_timer current s tid = (s', o) /\ check_timeout_cbs P (now s) o = inl P' /\
    has_panic o = false /\ pinv s' P' /\
    now s' = now s /\ npid s' = npid s /\ fib s' = fib s /\ inc s' = inc s /\ panicked s' = panicked s /\
    timers s' = timers_after_run s tid.
Proof.
  intros s P tid I. pose proof (pi_wf s P I) as W. unfold run_timer, timers_after_run.
  destruct (nth_error (timers s) tid) as [t|] eqn:Et.
  2:{ exists s, [], P. split; [reflexivity|]. split; [reflexivity|]. split; [reflexivity|]. split; [exact I|]. auto 10. }
  destruct (tst t) eqn:Es; try (exists s, [], P; split; [reflexivity|]; split; [reflexivity|]; split; [reflexivity|]; split; [exact I|]; auto 10; fail).
  set (n := tnode t).
  set (lst := nval (hget (pit s) n)).
  set (keep := filter (fun e => N.ltb (now s) (pdeadline e)) lst).
  set (Rl := filter (fun e => negb (N.ltb (now s) (pdeadline e))) lst).
  set (h1 := set_val (pit s) n keep).
  set (keepf := fun j e => negb (Nat.eqb j n && negb (N.ltb (now s) (pdeadline e)))).
  assert (SS : same_struct (pit s) h1) by (split; [reflexivity|]; intros j; apply set_val_struct).
  assert (Hv : forall j, nval (hget h1 j) = filter (keepf j) (nval (hget (pit s) j))).
  { intros j. unfold h1. rewrite set_val_nval. unfold keepf. destruct (Nat.eqb j n) eqn:Ej; simpl.
    - apply Nat.eqb_eq in Ej. subst j. unfold keep, lst. apply filter_ext. intros e. rewrite negb_involutive. reflexivity.
    - symmetry. apply filter_true. }
  destruct (prune_after s P h1 keepf n I SS Hv) as (h2 & Hd & W2 & Hv2 & Hlive).
  cbn [v_delif current]. rewrite Hd.
  assert (HR1 : forall e, In e Rl -> In e (nval (hget (pit s) n)) /\ N.ltb (now s) (pdeadline e) = false).
  { intros e He. unfold Rl in He. apply filter_In in He. destruct He as (A & B). apply negb_true_iff in B. auto. }
  eexists _, _, (minus P (map pid Rl)). split; [reflexivity|]. split; [|split; [apply (has_panic_cbs (fun _ => RTimeout (now s)))|split; [|simpl; auto 10]]].
  - unfold check_timeout_cbs. apply check_cbs_ok; [apply (pi_nodupP s P I)| |].
    + unfold Rl. apply NoDup_map_filter, (pi_nodup_node s P I).
    + intros e He. destruct (HR1 e He) as (Hen & Hdl).
      destruct (pi_ent s P I n e Hen) as (_ & i & Hi & Hp & _ & _ & Hdi & _).
      exists i. split; [exact Hi|]. split; [exact Hp|]. unfold timeout_ok. rewrite N.eqb_refl, Hdi. simpl.
      apply N.leb_le. apply N.ltb_ge in Hdl. exact Hdl.
  - apply (resolve_step s P h2 (set_tst (timers s) tid TDone) keepf Rl I W2 Hv2).
    + intros e He. destruct (HR1 e He) as (Hen & Hdl). exists n. split; [exact Hen|]. unfold keepf. rewrite Nat.eqb_refl, Hdl. reflexivity.
    + intros j e He Hk. unfold keepf in Hk. apply negb_false_iff, andb_true_iff in Hk. destruct Hk as (Hk1 & Hk2).
      apply Nat.eqb_eq in Hk1. subst j. unfold Rl. apply filter_In. auto.
    + exact Hlive.
    + unfold set_tst. rewrite Et. apply set_nth_length.
    + intros j t'. unfold set_tst. rewrite Et, nth_error_set_nth, Et. destruct (Nat.eqb j tid) eqn:Ej.
      * apply Nat.eqb_eq in Ej. subst j. intros Ht'. inversion Ht'. subst t'. exists t. simpl.
        split; [exact Et|]. split; [reflexivity|]. split; [reflexivity|]. split; [discriminate|].
        intros _. right. intros n0 e He Hp.
        (* an entry that is still stored and whose own timer is this one would have expired *)
        assert (Hold : In e (nval (hget (pit s) n0)) /\ keepf n0 e = true) by (rewrite Hv2, filter_In in He; exact He).
        destruct Hold as (Hold & Hk).
        destruct (pi_timer s P I n0 e Hold) as (t0 & Ht0 & Hn0 & _ & Hdl). rewrite Hp, Et in Ht0. inversion Ht0. subst t0.
        pose proof (pi_fired s P I tid t Et Es) as Hf.
        unfold keepf in Hk. fold n in Hn0. rewrite <- Hn0, Nat.eqb_refl in Hk. simpl in Hk.
        apply negb_true_iff, negb_false_iff, N.ltb_lt in Hk. lia.
      * intros Ht'. exists t'. repeat split; auto.
Qed.
