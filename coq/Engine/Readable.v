(* Engine/Readable.v — what acceptance by the spec checker means, in terms that do not mention the checker's state:
   the Interests expressed in a history ([expressed]), the callback ids observed ([hist_cbs]), and per-position
   statements.  These lemmas are about ANY accepted list of (event, observations) — they validate the oracle that the
   runner evaluates on the implementation — and are instantiated with the model's histories in Props_C20.v. *)
From Coq Require Import List NArith Bool Arith Lia.
From Engine Require Import Model Spec PitInv PitSteps.
Import ListNotations.
Local Open Scope nat_scope.

Definition cb_pids (o : list obs) : list nat :=
  flat_map (fun x => match x with OCb p _ => [p] | _ => [] end) o.
Definition hist_cbs (h : list (sev * list obs)) : list nat := flat_map (fun eo => cb_pids (snd eo)) h.

(* the Interests an application expressed: ids in order of the successful Express calls, deadline = clock + lifetime *)
Fixpoint expressed_from (now : time) (n : nat) (es : list sev) : list sint :=
  match es with
  | [] => []
  | SAdvance d :: r => expressed_from (now + d)%N n r
  | SExpress nm cbp dig life :: r =>
      if is_nil nm && is_none dig then expressed_from now n r
      else mkSint n nm cbp dig (now + lifetime life)%N :: expressed_from now (S n) r
  | SExpressFail nm cbp dig life :: r =>      (* Express returned an error: recorded with s_opt = true *)
      if is_nil nm && is_none dig then expressed_from now n r
      else mkSintO n nm cbp dig (now + lifetime life)%N true :: expressed_from now (S n) r
  | _ :: r => expressed_from now n r
  end.
Definition expressed (es : list sev) : list sint := expressed_from 0%N 0 es.

Fixpoint clock_from (now : time) (es : list sev) : time :=
  match es with
  | [] => now
  | SAdvance d :: r => clock_from (now + d)%N r
  | _ :: r => clock_from now r
  end.

Lemma expressed_from_app : forall a b now n,
  expressed_from now n (a ++ b) =
  expressed_from now n a ++ expressed_from (clock_from now a) (n + length (expressed_from now n a)) b.
Proof.
  induction a as [|e a IH]; intros b now n; simpl.
  - rewrite Nat.add_0_r. reflexivity.
  - destruct e; try apply IH.
    + destruct (is_nil nm && is_none dig); [apply IH|]. simpl. rewrite IH. f_equal. f_equal. f_equal. lia.
    + destruct (is_nil nm && is_none dig); [apply IH|]. simpl. rewrite IH. f_equal. f_equal. f_equal. lia.
Qed.

Lemma clock_from_app : forall a b now, clock_from now (a ++ b) = clock_from (clock_from now a) b.
Proof. induction a as [|e a IH]; intros b now; simpl; [reflexivity|]. destruct e; apply IH. Qed.

(* ---- what an accepted list of callbacks says ---- *)
Lemma check_cbs_inv : forall ok bad o P P', NoDup (map s_pid P) -> check_cbs ok bad P o = inl P' ->
  NoDup (cb_pids o) /\ P' = minus P (cb_pids o) /\
  (forall p r, In (OCb p r) o -> exists i, In i P /\ s_pid i = p /\ ok i r = true) /\
  (forall x, In x o -> exists p r, x = OCb p r).
Proof.
  intros ok bad o. induction o as [|x o IH]; intros P P' HP H; simpl in H.
  - inversion H. subst. simpl. split; [constructor|]. split; [symmetry; apply minus_nil|]. split; intros; contradiction.
  - destruct x; try discriminate.
    destruct (find_pending P p) as [i|] eqn:Ef; [|discriminate].
    destruct (ok i r) eqn:Eo; [|discriminate].
    assert (Hi : In i P /\ s_pid i = p).
    { unfold find_pending in Ef. apply find_some in Ef. destruct Ef as (A & B). apply Nat.eqb_eq in B. auto. }
    assert (HP' : NoDup (map s_pid (remove_pending P p))) by (unfold remove_pending; apply NoDup_map_filter, HP).
    destruct (IH _ _ HP' H) as (A & B & C & D). simpl. split; [|split; [|split]].
    + constructor; [|exact A]. intros Hin.
      (* p again later: it would have to be pending after its removal *)
      assert (exists r', In (OCb p r') o).
      { clear -Hin. induction o as [|y o IH]; simpl in *; [contradiction|].
        destruct y; simpl in Hin; try (destruct (IH Hin) as (r' & Hr); exists r'; auto; fail).
        destruct Hin as [->|Hin]; [exists r; auto|destruct (IH Hin) as (r' & Hr); exists r'; auto]. }
      destruct H0 as (r' & Hr'). destruct (C p r' Hr') as (i' & Hi' & Hp' & _).
      unfold remove_pending in Hi'. apply filter_In in Hi'. destruct Hi' as (_ & Hne).
      rewrite Hp', Nat.eqb_refl in Hne. discriminate.
    + rewrite B, remove_pending_minus, minus_minus. reflexivity.
    + intros q r0 [Hq|Hq].
      * inversion Hq. subst. exists i. tauto.
      * destruct (C q r0 Hq) as (i' & Hi' & Hp' & Hok). exists i'. split; [|auto].
        unfold remove_pending in Hi'. apply filter_In in Hi'. tauto.
    + intros y [<-|Hy]; [exists p, r; reflexivity|apply D, Hy].
Qed.

Lemma cb_pids_none : forall o, (forall x, In x o -> match x with OCb _ _ => False | _ => True end) -> cb_pids o = [].
Proof.
  induction o as [|x o IH]; intros H; simpl; [reflexivity|].
  rewrite IH by (intros y Hy; apply H; right; exact Hy). specialize (H x (or_introl eq_refl)). destruct x; try reflexivity. contradiction.
Qed.

Lemma obs_is_nocb : forall o x, obs_is o x = true -> cb_pids o = [].
Proof.
  intros o x H. unfold obs_is in H. destruct o as [|y [|z o]]; try (destruct x; discriminate).
  - destruct y; try reflexivity; destruct x; discriminate.
  - destruct y; discriminate.
Qed.

(* ---- the invariant of accepted histories ---- *)
Record binv (sp : sstate) (seen : list nat) (X : list sint) : Prop := {
  b_nodup_seen : NoDup seen;
  b_nodup_pend : NoDup (map s_pid (sp_pending sp));
  b_pend : forall i, In i (sp_pending sp) <-> In i X /\ ~ In (s_pid i) seen;
  b_X_lt : forall i, In i X -> s_pid i < sp_npid sp;
  b_X_nodup : NoDup (map s_pid X);
  b_seen_X : forall p, In p seen -> exists i, In i X /\ s_pid i = p }.

Lemma binv_init : binv sinit [] [].
Proof. constructor; simpl; try constructor; try tauto; intros; try contradiction. Qed.

Definition new_of (sp : sstate) (e : sev) : list sint :=
  match e with
  | SExpress nm cbp dig life =>
      if is_nil nm && is_none dig then [] else [mkSint (sp_npid sp) nm cbp dig (sp_now sp + lifetime life)%N]
  | SExpressFail nm cbp dig life =>
      if is_nil nm && is_none dig then [] else [mkSintO (sp_npid sp) nm cbp dig (sp_now sp + lifetime life)%N true]
  | _ => []
  end.

(* resolving callbacks: pending shrinks by exactly the ids called back *)
Lemma binv_resolve : forall sp seen X pids,
  binv sp seen X -> NoDup pids -> (forall p, In p pids -> In p (map s_pid (sp_pending sp))) ->
  binv (with_pending sp (minus (sp_pending sp) pids)) (seen ++ pids) X.
Proof.
  intros sp seen X pids B Hn Hsub. destruct B as [B1 B2 B3 B4 B5 B6]. constructor; simpl.
  - apply NoDup_app_disjoint; [exact B1|exact Hn|]. intros p Hp Hq. apply Hsub in Hq.
    apply in_map_iff in Hq. destruct Hq as (i & Hpi & Hi). apply B3 in Hi. destruct Hi as (_ & Hi). subst p. contradiction.
  - unfold minus. apply NoDup_map_filter, B2.
  - intros i. rewrite in_minus, B3, in_app_iff. tauto.
  - exact B4.
  - exact B5.
  - intros p Hp. apply in_app_iff in Hp. destruct Hp as [Hp|Hp]; [apply B6, Hp|].
    apply Hsub in Hp. apply in_map_iff in Hp. destruct Hp as (i & Hpi & Hi). apply B3 in Hi. exists i. tauto.
Qed.

Lemma binv_cbs : forall ok bad sp seen X o P', binv sp seen X -> check_cbs ok bad (sp_pending sp) o = inl P' ->
  binv (with_pending sp P') (seen ++ cb_pids o) X.
Proof.
  intros ok bad sp seen X o P' B H. destruct (check_cbs_inv ok bad o _ _ (b_nodup_pend _ _ _ B) H) as (A & -> & C & D).
  apply binv_resolve; [exact B|exact A|]. intros p Hp.
  assert (exists r, In (OCb p r) o).
  { clear -Hp. induction o as [|y o IH]; simpl in *; [contradiction|].
    destruct y; simpl in Hp; try (destruct (IH Hp) as (r' & Hr); exists r'; auto; fail).
    destruct Hp as [->|Hp]; [exists r; auto|destruct (IH Hp) as (r' & Hr); exists r'; auto]. }
  destruct H0 as (r & Hr). destruct (C p r Hr) as (i & Hi & Hpi & _). apply in_map_iff. exists i. auto.
Qed.

Lemma binv_same : forall sp sp' seen X, binv sp seen X -> sp_pending sp' = sp_pending sp -> sp_npid sp' = sp_npid sp ->
  binv sp' seen X.
Proof.
  intros sp sp' seen X B Hp Hn. destruct B as [B1 B2 B3 B4 B5 B6]. constructor; rewrite ?Hp, ?Hn; auto.
Qed.

Lemma binv_step : forall sp seen X e o sp', binv sp seen X -> spec_step sp e o = inl sp' ->
  binv sp' (seen ++ cb_pids o) (X ++ new_of sp e).
Proof.
  intros sp seen X e o sp' B H. unfold spec_step in H. destruct (has_panic o); [discriminate|].
  destruct e; simpl new_of; rewrite ?app_nil_r.
  - (* SAdvance *)
    destruct o; [|discriminate]. simpl in H. inversion H. subst. simpl. rewrite app_nil_r. eapply binv_same; eauto.
  - (* SExpress *)
    destruct (is_nil nm && is_none dig) eqn:Hne.
    + destruct (obs_is o (ORet 1%N)) eqn:Eo; [|discriminate]. inversion H. subst.
      rewrite (obs_is_nocb _ _ Eo), !app_nil_r. exact B.
    + destruct (obs_is o (OSendInt (sp_npid sp))) eqn:Eo; [|discriminate]. inversion H. subst.
      rewrite (obs_is_nocb _ _ Eo), app_nil_r. destruct B as [B1 B2 B3 B4 B5 B6]. constructor; simpl.
      * exact B1.
      * rewrite map_app. simpl. apply NoDup_app_snoc; [exact B2|]. intros Hi. apply in_map_iff in Hi.
        destruct Hi as (i & Hpi & Hi). apply B3 in Hi. destruct Hi as (Hi & _). apply B4 in Hi. lia.
      * intros i. rewrite !in_app_iff, B3. simpl. split.
        -- intros [(A & C)|[<-|[]]]; [tauto|]. split; [tauto|]. simpl. intros Hs. destruct (B6 _ Hs) as (i' & Hi' & Hp').
           apply B4 in Hi'. lia.
        -- tauto.
      * intros i Hi. apply in_app_iff in Hi. destruct Hi as [Hi|[<-|[]]]; [apply B4 in Hi; lia|simpl; lia].
      * rewrite map_app. simpl. apply NoDup_app_snoc; [exact B5|]. intros Hi. apply in_map_iff in Hi.
        destruct Hi as (i & Hpi & Hi). apply B4 in Hi. lia.
      * intros p Hp. destruct (B6 p Hp) as (i & Hi & Hpi). exists i. rewrite in_app_iff. tauto.
  - (* SExpressFail *)
    destruct (obs_is o (ORet 1%N)) eqn:Eo; [|discriminate]. destruct (is_nil nm && is_none dig) eqn:Hne.
    + inversion H. subst. rewrite (obs_is_nocb _ _ Eo), !app_nil_r. exact B.
    + inversion H. subst.
      rewrite (obs_is_nocb _ _ Eo), app_nil_r. destruct B as [B1 B2 B3 B4 B5 B6]. constructor; simpl.
      * exact B1.
      * rewrite map_app. simpl. apply NoDup_app_snoc; [exact B2|]. intros Hi. apply in_map_iff in Hi.
        destruct Hi as (i & Hpi & Hi). apply B3 in Hi. destruct Hi as (Hi & _). apply B4 in Hi. lia.
      * intros i. rewrite !in_app_iff, B3. simpl. split.
        -- intros [(A & C)|[<-|[]]]; [tauto|]. split; [tauto|]. simpl. intros Hs. destruct (B6 _ Hs) as (i' & Hi' & Hp').
           apply B4 in Hi'. lia.
        -- tauto.
      * intros i Hi. apply in_app_iff in Hi. destruct Hi as [Hi|[<-|[]]]; [apply B4 in Hi; lia|simpl; lia].
      * rewrite map_app. simpl. apply NoDup_app_snoc; [exact B5|]. intros Hi. apply in_map_iff in Hi.
        destruct Hi as (i & Hpi & Hi). apply B4 in Hi. lia.
      * intros p Hp. destruct (B6 p Hp) as (i & Hi & Hpi). exists i. rewrite in_app_iff. tauto.
  - (* SData *)
    destruct (check_data_cbs (sp_pending sp) dn dd o) as [rest|] eqn:Ec; [|discriminate].
    destruct (find _ rest); [discriminate|]. inversion H. subst. eapply binv_cbs; eauto.
  - (* SNack *)
    destruct (check_nack_cbs (sp_pending sp) nm dig reason o) as [rest|] eqn:Ec; [|discriminate].
    inversion H. subst. eapply binv_cbs; eauto.
  - (* STimers *)
    destruct (check_timeout_cbs (sp_pending sp) (sp_now sp) o) as [rest|] eqn:Ec; [|discriminate].
    inversion H. subst. eapply binv_cbs; eauto.
  - (* SAttach *)
    destruct (name_assoc nm (sp_handlers sp)).
    + destruct (obs_is o (ORet 1%N)) eqn:Eo; [|discriminate]. inversion H. subst. rewrite (obs_is_nocb _ _ Eo), app_nil_r. exact B.
    + destruct (obs_is o (ORet 0%N)) eqn:Eo; [|discriminate]. inversion H. subst. rewrite (obs_is_nocb _ _ Eo), app_nil_r.
      eapply binv_same; eauto.
  - (* SDetach *)
    destruct (obs_is o (ORet 0%N)) eqn:Eo.
    + inversion H. subst. rewrite (obs_is_nocb _ _ Eo), app_nil_r. eapply binv_same; eauto.
    + destruct (obs_is o (ORet 1%N)) eqn:Eo1; [|discriminate]. destruct (name_assoc nm (sp_handlers sp)); [discriminate|].
      inversion H. subst. rewrite (obs_is_nocb _ _ Eo1), app_nil_r. exact B.
  - (* SInterest *)
    destruct (lpm (sp_handlers sp) nm).
    + destruct (obs_is o _) eqn:Eo; [|discriminate]. inversion H. subst. rewrite (obs_is_nocb _ _ Eo), app_nil_r. eapply binv_same; eauto.
    + destruct (obs_is o _) eqn:Eo; [|discriminate]. inversion H. subst. rewrite (obs_is_nocb _ _ Eo), app_nil_r. eapply binv_same; eauto.
  - (* SReply *)
    destruct (existsb _ o) eqn:E1; [discriminate|].
    assert (Hno : cb_pids o = []).
    { apply cb_pids_none. intros x Hx. destruct x; auto.
      assert (existsb (fun x => match x with OSendData j => negb (Nat.eqb j iid) | OCb _ _ | OSendInt _ | OHandler _ _ | ONoHandler => true | _ => false end) o = true)
        by (apply existsb_exists; eexists; split; [exact Hx|reflexivity]). congruence. }
    rewrite Hno, app_nil_r.
    destruct (existsb (fun x => match x with OSendData _ => true | _ => false end) o).
    + destruct (nth_error (sp_inc sp) iid) as [[dl|]|]; try discriminate. destruct (N.leb (sp_now sp) dl); [|discriminate].
      inversion H. subst. exact B.
    + inversion H. subst. exact B.
Qed.

(* the spec state's clock and id counter follow the events *)
Lemma spec_step_clock : forall sp e o sp', spec_step sp e o = inl sp' ->
  sp_now sp' = clock_from (sp_now sp) [e] /\ sp_npid sp' = sp_npid sp + length (new_of sp e).
Proof.
  intros sp e o sp' H. unfold spec_step in H. destruct (has_panic o); [discriminate|].
  destruct e; simpl.
  - destruct (is_nil o); [|discriminate]. inversion H. subst. simpl. split; [reflexivity|lia].
  - destruct (is_nil nm && is_none dig).
    + destruct (obs_is o _); [|discriminate]. inversion H. subst. simpl. split; [reflexivity|lia].
    + destruct (obs_is o _); [|discriminate]. inversion H. subst. simpl. split; [reflexivity|lia].
  - destruct (obs_is o _); [|discriminate]. destruct (is_nil nm && is_none dig); inversion H; subst; simpl; split; try reflexivity; lia.
  - destruct (check_data_cbs _ _ _ _); [|discriminate]. destruct (find _ _); [discriminate|]. inversion H. subst. simpl. split; [reflexivity|lia].
  - destruct (check_nack_cbs _ _ _ _ _); [|discriminate]. inversion H. subst. simpl. split; [reflexivity|lia].
  - destruct (check_timeout_cbs _ _ _); [|discriminate]. inversion H. subst. simpl. split; [reflexivity|lia].
  - destruct (name_assoc _ _); destruct (obs_is o _); try discriminate; inversion H; subst; simpl; split; try reflexivity; lia.
  - destruct (obs_is o (ORet 0%N)); [inversion H; subst; simpl; split; [reflexivity|lia]|].
    destruct (obs_is o (ORet 1%N)); [|discriminate]. destruct (name_assoc _ _); [discriminate|]. inversion H. subst. split; [reflexivity|lia].
  - destruct (lpm _ _); destruct (obs_is o _); try discriminate; inversion H; subst; simpl; split; try reflexivity; lia.
  - destruct (existsb _ o); [discriminate|]. destruct (existsb (fun x => match x with OSendData _ => true | _ => false end) o).
    + destruct (nth_error _ _) as [[dl|]|]; try discriminate. destruct (N.leb _ _); [|discriminate]. inversion H. subst. split; [reflexivity|lia].
    + inversion H. subst. split; [reflexivity|lia].
Qed.

(* running the checker over a whole history, from a state that satisfies the invariant *)
Lemma binv_run : forall h sp seen X sp', binv sp seen X -> spec_run sp h = inl sp' ->
  binv sp' (seen ++ hist_cbs h) (X ++ expressed_from (sp_now sp) (sp_npid sp) (map fst h)) /\
  sp_now sp' = clock_from (sp_now sp) (map fst h).
Proof.
  induction h as [|[e o] h IH]; intros sp seen X sp' B H; simpl in *.
  - inversion H. subst. rewrite !app_nil_r. auto.
  - destruct (spec_step sp e o) as [sp1|] eqn:Es; [|discriminate].
    pose proof (binv_step _ _ _ _ _ _ B Es) as B1. destruct (spec_step_clock _ _ _ _ Es) as (Hc & Hn).
    destruct (IH _ _ _ _ B1 H) as (B2 & Hc2).
    assert (Hx : expressed_from (sp_now sp) (sp_npid sp) (e :: map fst h) =
                 new_of sp e ++ expressed_from (sp_now sp1) (sp_npid sp1) (map fst h)).
    { rewrite Hc, Hn. destruct e; simpl; rewrite ?Nat.add_0_r; try reflexivity.
      - destruct (is_nil nm && is_none dig); simpl; rewrite ?Nat.add_0_r; [reflexivity|]. f_equal. f_equal. lia.
      - destruct (is_nil nm && is_none dig); simpl; rewrite ?Nat.add_0_r; [reflexivity|]. f_equal. f_equal. lia. }
    simpl in Hx. rewrite Hx. rewrite <- !app_assoc in B2. split; [exact B2|].
    rewrite Hc2, Hc. destruct e; reflexivity.
Qed.

(* ---- readable consequences for an accepted history ---- *)
Section Accepted.
  Variable h : list (sev * list obs).
  Variable sp : sstate.
  Hypothesis Hacc : spec_run sinit h = inl sp.

  Lemma acc_binv : binv sp (hist_cbs h) (expressed (map fst h)).
  Proof. destruct (binv_run h sinit [] [] sp binv_init Hacc) as (B & _). exact B. Qed.

  (* no Interest is called back twice *)
  Lemma acc_at_most_once : NoDup (hist_cbs h).
  Proof. apply (b_nodup_seen _ _ _ acc_binv). Qed.

  (* only expressed Interests are called back *)
  Lemma acc_cbs_expressed : forall p, In p (hist_cbs h) -> exists i, In i (expressed (map fst h)) /\ s_pid i = p.
  Proof. apply (b_seen_X _ _ _ acc_binv). Qed.

  (* when nothing is pending at the end, every expressed Interest was called back (exactly once, by NoDup) *)
  Lemma acc_all_resolved : sp_pending sp = [] -> forall i, In i (expressed (map fst h)) -> In (s_pid i) (hist_cbs h).
  Proof.
    intros Hp i Hi. destruct (in_dec Nat.eq_dec (s_pid i) (hist_cbs h)) as [Y|N]; [exact Y|].
    exfalso. assert (In i (sp_pending sp)) by (apply (b_pend _ _ _ acc_binv); auto). rewrite Hp in H. contradiction.
  Qed.

  (* what the end-of-history check of the oracle means: every Interest whose Express did not fail was called back *)
  Lemma acc_final_resolved : spec_final sp = None -> forall i, In i (expressed (map fst h)) -> s_opt i = false ->
    In (s_pid i) (hist_cbs h).
  Proof.
    intros Hf i Hi Ho. destruct (in_dec Nat.eq_dec (s_pid i) (hist_cbs h)) as [Y|N]; [exact Y|].
    exfalso. assert (Hp : In i (sp_pending sp)) by (apply (b_pend _ _ _ acc_binv); auto).
    unfold spec_final in Hf. destruct (find (fun i0 => negb (s_opt i0)) (sp_pending sp)) eqn:E; [discriminate|].
    pose proof (find_none _ _ E i Hp) as Hn. simpl in Hn. rewrite Ho in Hn. discriminate.
  Qed.
End Accepted.

Lemma spec_run_app : forall a b sp, spec_run sp (a ++ b) =
  match spec_run sp a with inl sp1 => spec_run sp1 b | inr (n, v) => inr (n + length b, v) end.
Proof.
  induction a as [|[e o] a IH]; intros b sp; simpl; [reflexivity|].
  destruct (spec_step sp e o); [apply IH|]. rewrite app_length. reflexivity.
Qed.

(* position k of an accepted history: the state reached before it satisfies the invariant for the prefix *)
Lemma acc_at : forall h sp k e o, spec_run sinit h = inl sp -> nth_error h k = Some (e, o) ->
  exists spk spk', spec_run sinit (firstn k h) = inl spk /\ spec_step spk e o = inl spk' /\
    binv spk (hist_cbs (firstn k h)) (expressed (map fst (firstn k h))) /\
    sp_now spk = clock_from 0%N (map fst (firstn k h)).
Proof.
  intros h sp k e o Hacc Hk.
  assert (Hsplit : h = firstn k h ++ (e, o) :: skipn (S k) h).
  { clear Hacc. revert k Hk. induction h as [|x h IH]; intros [|k] Hk; simpl in *; try discriminate.
    - inversion Hk. reflexivity.
    - f_equal. apply IH, Hk. }
  rewrite Hsplit in Hacc. rewrite spec_run_app in Hacc.
  destruct (spec_run sinit (firstn k h)) as [spk|[n v]] eqn:Ek; [|discriminate].
  simpl in Hacc. destruct (spec_step spk e o) as [spk'|] eqn:Es; [|discriminate].
  exists spk, spk'. split; [reflexivity|]. split; [exact Es|].
  destruct (binv_run (firstn k h) sinit [] [] spk binv_init Ek) as (B & C). auto.
Qed.

(* result soundness, per position *)
Theorem acc_result_sound : forall h sp k e o p r, spec_run sinit h = inl sp -> nth_error h k = Some (e, o) -> In (OCb p r) o ->
  exists i, In i (expressed (map fst (firstn k h))) /\ s_pid i = p /\ ~ In p (hist_cbs (firstn k h)) /\
    match r with
    | RData dn dd => e = SData dn dd /\ satisfies i dn dd = true
    | RNack reason => e = SNack (s_name i) (s_dig i) reason
    | RTimeout t => e = STimers /\ t = clock_from 0%N (map fst (firstn k h)) /\ (s_deadline i <= t)%N
    end.
Proof.
  intros h sp k e o p r Hacc Hk Hin.
  destruct (acc_at h sp k e o Hacc Hk) as (spk & spk' & Hrun & Hstep & B & Hclk).
  assert (Hcb : cb_pids o <> []).
  { intros E. assert (In p (cb_pids o)) by (unfold cb_pids; apply in_flat_map; exists (OCb p r); simpl; auto). rewrite E in H. contradiction. }
  unfold spec_step in Hstep. destruct (has_panic o); [discriminate|].
  assert (Gen : forall ok bad P', check_cbs ok bad (sp_pending spk) o = inl P' ->
            exists i, In i (expressed (map fst (firstn k h))) /\ s_pid i = p /\ ~ In p (hist_cbs (firstn k h)) /\ ok i r = true).
  { intros ok bad P' Hc. destruct (check_cbs_inv ok bad o _ _ (b_nodup_pend _ _ _ B) Hc) as (_ & _ & C & _).
    destruct (C p r Hin) as (i & Hi & Hp & Hok). apply (b_pend _ _ _ B) in Hi. exists i. rewrite <- Hp. tauto. }
  destruct e.
  - destruct o; [contradiction|discriminate].
  - exfalso. apply Hcb. destruct (is_nil nm && is_none dig); destruct (obs_is o _) eqn:Eo; try discriminate; eapply obs_is_nocb; eauto.
  - exfalso. apply Hcb. destruct (obs_is o _) eqn:Eo; [|discriminate]. eapply obs_is_nocb; eauto.
  - destruct (check_data_cbs (sp_pending spk) dn dd o) as [rest|] eqn:Ec; [|discriminate].
    destruct (Gen _ _ _ Ec) as (i & A & C & D & E). exists i. split; [exact A|]. split; [exact C|]. split; [exact D|].
    unfold data_ok in E. destruct r; try discriminate. apply andb_true_iff in E. destruct E as (E1 & E3).
    apply andb_true_iff in E1. destruct E1 as (E1 & E2). apply name_eqb_eq in E1. apply N.eqb_eq in E2. subst. auto.
  - destruct (check_nack_cbs (sp_pending spk) nm dig reason o) as [rest|] eqn:Ec; [|discriminate].
    destruct (Gen _ _ _ Ec) as (i & A & C & D & E). exists i. split; [exact A|]. split; [exact C|]. split; [exact D|].
    unfold nack_ok in E. destruct r; try discriminate. apply andb_true_iff in E. destruct E as (E1 & E3).
    apply andb_true_iff in E1. destruct E1 as (E1 & E2). apply name_eqb_eq in E1. apply opt_key_eqb_eq in E2. apply N.eqb_eq in E3.
    subst. reflexivity.
  - destruct (check_timeout_cbs (sp_pending spk) (sp_now spk) o) as [rest|] eqn:Ec; [|discriminate].
    destruct (Gen _ _ _ Ec) as (i & A & C & D & E). exists i. split; [exact A|]. split; [exact C|]. split; [exact D|].
    unfold timeout_ok in E. destruct r; try discriminate. apply andb_true_iff in E. destruct E as (E1 & E2).
    apply N.eqb_eq in E1. apply N.leb_le in E2. subst at_. rewrite <- Hclk. auto.
  - exfalso. apply Hcb. destruct (name_assoc _ _); destruct (obs_is o _) eqn:Eo; try discriminate; eapply obs_is_nocb; eauto.
  - exfalso. apply Hcb. destruct (obs_is o (ORet 0%N)) eqn:Eo; [eapply obs_is_nocb; eauto|].
    destruct (obs_is o (ORet 1%N)) eqn:Eo1; [eapply obs_is_nocb; eauto|discriminate].
  - exfalso. apply Hcb. destruct (lpm _ _); destruct (obs_is o _) eqn:Eo; try discriminate; eapply obs_is_nocb; eauto.
  - exfalso. apply Hcb. destruct (existsb _ o) eqn:E1; [discriminate|].
    apply cb_pids_none. intros x Hx. destruct x; auto.
    assert (existsb (fun x => match x with OSendData j => negb (Nat.eqb j iid) | OCb _ _ | OSendInt _ | OHandler _ _ | ONoHandler => true | _ => false end) o = true)
      by (apply existsb_exists; eexists; split; [exact Hx|reflexivity]). congruence.
Qed.

(* each arriving Data resolves all pending Interests it satisfies, per position *)
Theorem acc_data_resolves_all : forall h sp k dn dd o i, spec_run sinit h = inl sp -> nth_error h k = Some (SData dn dd, o) ->
  In i (expressed (map fst (firstn k h))) -> s_opt i = false -> ~ In (s_pid i) (hist_cbs (firstn k h)) -> satisfies i dn dd = true ->
  In (OCb (s_pid i) (RData dn dd)) o.
Proof.
  intros h sp k dn dd o i Hacc Hk Hi Ho Hn Hs.
  destruct (acc_at h sp k _ o Hacc Hk) as (spk & spk' & Hrun & Hstep & B & _).
  unfold spec_step in Hstep. destruct (has_panic o); [discriminate|].
  destruct (check_data_cbs (sp_pending spk) dn dd o) as [rest|] eqn:Ec; [|discriminate].
  destruct (find (fun i0 => negb (s_opt i0) && satisfies i0 dn dd) rest) eqn:Ef; [discriminate|].
  destruct (check_cbs_inv _ _ o _ _ (b_nodup_pend _ _ _ B) Ec) as (_ & -> & C & D).
  assert (Hp : In i (sp_pending spk)) by (apply (b_pend _ _ _ B); auto).
  destruct (in_dec Nat.eq_dec (s_pid i) (cb_pids o)) as [Y|N].
  - unfold cb_pids in Y. apply in_flat_map in Y. destruct Y as (x & Hx & Hxp). destruct x; simpl in Hxp; try contradiction.
    destruct Hxp as [<-|[]]. destruct (C _ _ Hx) as (i' & _ & _ & Hok). unfold data_ok in Hok. destruct r; try discriminate.
    apply andb_true_iff in Hok. destruct Hok as (E1 & _). apply andb_true_iff in E1. destruct E1 as (E1 & E2).
    apply name_eqb_eq in E1. apply N.eqb_eq in E2. subst. exact Hx.
  - exfalso. assert (In i (minus (sp_pending spk) (cb_pids o))) by (apply in_minus; auto).
    pose proof (find_none _ _ Ef i H). simpl in H0. rewrite Ho, Hs in H0. discriminate.
Qed.
