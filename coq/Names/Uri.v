(* Names/Uri.v — proofs about the URI parser/printer model. *)
From Names Require Import Model.
From Coq Require Import ZifyBool ZifyN ZifyNat.
Open Scope N_scope.

Lemma split_on_nonnil sep s : forall cur, split_on sep s cur <> [].
Proof. induction s as [|c r IH]; intros cur; simpl; [discriminate|]. destruct (c =? sep); [discriminate|apply IH]. Qed.

Lemma parse_comp_type_nopanic s : parse_comp_type s <> PPanic.
Proof.
  unfold parse_comp_type. destruct s as [|c0 r]; cbn [length Nat.eqb]; [discriminate|].
  destruct (is_alpha c0).
  - destruct (conv_by_name (c0 :: r)) as [[t f]|]; discriminate.
  - destruct (of_dec (c0 :: r)); discriminate.
Qed.

Lemma comp_from_str_nopanic s : comp_from_str s <> PPanic.
Proof.
  unfold comp_from_str. destruct (count_eq s) as [|[|k]]; try discriminate.
  - destruct (text_from_str s); discriminate.
  - destruct (split_first_eq s []) as [ts vs].
    pose proof (parse_comp_type_nopanic ts) as Hp.
    destruct (parse_comp_type ts) as [[t f]| |]; try discriminate; [|congruence].
    destruct ((t =? 0) || (65535 <? t)); [discriminate|].
    destruct (fmt_from_str f vs); discriminate.
Qed.

Lemma comps_from_strs_nopanic l : comps_from_strs l <> PPanic.
Proof.
  induction l as [|s r IH]; simpl; [discriminate|].
  pose proof (comp_from_str_nopanic s). destruct (comp_from_str s); try congruence; try discriminate.
  destruct (comps_from_strs r); try congruence; discriminate.
Qed.

Lemma name_from_str_nopanic s : name_from_str s <> PPanic.
Proof.
  unfold name_from_str. pose proof (split_on_nonnil 47 s []) as H.
  destruct (split_on 47 s []) as [|s0 r]; [congruence|]. apply comps_from_strs_nopanic.
Qed.
