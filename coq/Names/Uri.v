(* Names/Uri.v — proofs about the URI parser/printer model. *)
From Names Require Import Model.
From Coq Require Import ZifyBool ZifyN ZifyNat.
Open Scope N_scope.

Lemma split_on_nonnil sep s : forall cur, split_on sep s cur <> [].
Proof. induction s as [|c r IH]; intros cur; simpl; [discriminate|]. destruct (c =? sep); [discriminate|apply IH]. Qed.

Lemma parse_comp_type_nopanic s : parse_comp_type s <> PPanic.
Proof.
  unfold parse_comp_type. destruct s as [|c0 r]; cbn [length Nat.eqb]; [discriminate|].
  destruct (is_alpha c0).
  - destruct (conv_by_name (c0 :: r)) as [[t f]|]; discriminate.
  - destruct (of_dec (c0 :: r)); discriminate.
Qed.

Lemma comp_from_str_nopanic s : comp_from_str s <> PPanic.
Proof.
  unfold comp_from_str. destruct (count_eq s) as [|[|k]]; try discriminate.
  - destruct (text_from_str s); discriminate.
  - destruct (split_first_eq s []) as [ts vs].
    pose proof (parse_comp_type_nopanic ts) as Hp.
    destruct (parse_comp_type ts) as [[t f]| |]; try discriminate; [|congruence].
    destruct ((t =? 0) || (65535 <? t)); [discriminate|].
    destruct (fmt_from_str f vs); discriminate.
Qed.

Lemma comps_from_strs_nopanic l : comps_from_strs l <> PPanic.
Proof.
  induction l as [|s r IH]; simpl; [discriminate|].
  pose proof (comp_from_str_nopanic s). destruct (comp_from_str s); try congruence; try discriminate.
  destruct (comps_from_strs r); try congruence; discriminate.
Qed.

Lemma name_from_str_nopanic s : name_from_str s <> PPanic.
Proof.
  unfold name_from_str. pose proof (split_on_nonnil 47 s []) as H.
  destruct (split_on 47 s []) as [|s0 r]; [congruence|]. apply comps_from_strs_nopanic.
Qed.

(* ---------- patterns: ComponentPatternFromStr / NamePatternFromStr never panic ---------- *)
Lemma last_opt_none {A} (l : list A) : last_opt l = None -> l = [].
Proof.
  unfold last_opt. destruct (rev l) eqn:E; [|discriminate]. intros _.
  rewrite <- (rev_involutive l), E. reflexivity.
Qed.

Lemma last_opt_singleton {A} (x : A) : last_opt [x] = Some x.
Proof. reflexivity. Qed.

Lemma comp_pattern_from_str_nopanic s : comp_pattern_from_str s <> PPanic.
Proof.
  assert (Hplain : match comp_from_str s with POk c => POk (CPComp c) | PErr => PErr | PPanic => PPanic end <> PPanic).
  { pose proof (comp_from_str_nopanic s). destruct (comp_from_str s); [discriminate|discriminate|congruence]. }
  unfold comp_pattern_from_str, comp_pattern_from_str_with. destruct (length s <=? 0)%nat eqn:El; [exact Hplain|].
  destruct s as [|c0 r]; [cbn in El; discriminate|].
  destruct (negb (c0 =? 60)) eqn:E0; [exact Hplain|].
  destruct (last_opt (c0 :: r)) as [cl|] eqn:Elast; [|apply last_opt_none in Elast; discriminate].
  destruct (negb (cl =? 62)) eqn:E1; [discriminate|].
  destruct (length (c0 :: r) <? 2)%nat eqn:E2.
  { (* "<" alone: its last character is '<', not '>' *)
    exfalso. destruct r as [|c1 r]; [|cbn in E2; discriminate].
    rewrite last_opt_singleton in Elast. inversion Elast; subst.
    apply negb_false_iff in E0, E1. apply N.eqb_eq in E0, E1. subst. discriminate. }
  set (strs := split_on 61 _ []).
  pose proof (split_on_nonnil 61 (firstn (length (c0 :: r) - 2) (skipn 1 (c0 :: r))) []) as Hne. fold strs in Hne.
  destruct (2 <? length strs)%nat; [discriminate|].
  destruct (length strs =? 2)%nat eqn:E3.
  - destruct strs as [|ts [|tag rest]]; try (cbn in E3; discriminate).
    pose proof (parse_comp_type_nopanic ts). destruct (parse_comp_type ts) as [[t f]| |]; [discriminate|discriminate|congruence].
  - destruct strs; [congruence|discriminate].
Qed.

Lemma cpats_from_strs_nopanic l : cpats_from_strs l <> PPanic.
Proof.
  unfold cpats_from_strs. induction l as [|s r IH]; cbn [cpats_from_strs_with]; [discriminate|].
  pose proof (comp_pattern_from_str_nopanic s). destruct (comp_pattern_from_str s); try congruence; try discriminate.
  destruct (cpats_from_strs_with comp_pattern_from_str r); try congruence; discriminate.
Qed.

Lemma name_pattern_from_str_nopanic s : name_pattern_from_str s <> PPanic.
Proof.
  unfold name_pattern_from_str, name_pattern_from_str_with. pose proof (split_on_nonnil 47 s []) as H.
  destruct (split_on 47 s []) as [|s0 r]; [congruence|]. fold comp_pattern_from_str. fold cpats_from_strs.
  set (strs1 := if (length s0 =? 0)%nat then r else s0 :: r).
  destruct (0 <? length strs1)%nat eqn:E; [|apply cpats_from_strs_nopanic].
  destruct (last_opt strs1) eqn:El; [apply cpats_from_strs_nopanic|].
  apply last_opt_none in El. rewrite El in E. discriminate.
Qed.

(* without the len(strs) > 0 guard (the code before commit 2e94774) the empty string panics *)
Lemma name_pattern_unguarded_panics : name_pattern_from_str_unguarded [] = PPanic.
Proof. reflexivity. Qed.

(* Name.ToFullName indexes n[len(n)-1] unconditionally: it panics exactly on the empty name *)
Lemma to_full_name_panics_iff d n : to_full_name d n = PPanic <-> n = [].
Proof.
  unfold to_full_name. split.
  - destruct (last_opt n) eqn:E; [destruct (ctyp c =? 1); discriminate|]. intros _. apply last_opt_none. exact E.
  - intros ->. reflexivity.
Qed.
