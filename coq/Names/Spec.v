(* Names/Spec.v — the decidable property predicates ("spec oracle") that the runner evaluates on the
   IMPLEMENTATION's observations.  Definitions only; SpecOk.v proves that the model's own answers satisfy them. *)
From Names Require Import Model.
Open Scope N_scope.

Definition cmp_eqb (x y : comparison) : bool :=
  match x, y with Eq, Eq | Lt, Lt | Gt, Gt => true | _, _ => false end.
Definition cle (c : comparison) : bool := match c with Gt => false | _ => true end.

(* order axioms on the six observed comparison results of a triple a, b, c *)
Definition triple_ok (ab bc ac ba cb ca : comparison) : bool :=
  cmp_eqb ba (CompOpp ab) && cmp_eqb cb (CompOpp bc) && cmp_eqb ca (CompOpp ac) &&
  (if cle ab && cle bc
   then (if cmp_eqb ab Lt || cmp_eqb bc Lt then cmp_eqb ac Lt else cmp_eqb ac Eq)
   else true).

(* the value of the outer Name TLV *)
Definition inner_of (enc : bytes) : option bytes :=
  match tl_dec enc with
  | Some (t, r1) => if t =? 7 then
      match tl_dec r1 with
      | Some (len, r2) => if len =? N.of_nat (length r2) then Some r2 else None
      | None => None
      end else None
  | None => None
  end.

(* observations on a pair: Compare, Equal, IsPrefix both ways, Bytes of both, "hashes are equal" *)
Definition pair_ok (cmp : comparison) (eq pab pba : bool) (ea eb : bytes) (heq : bool) : bool :=
  Bool.eqb eq (cmp_eqb cmp Eq) &&          (* Equal <-> Compare = 0 *)
  Bool.eqb eq (bytes_eqb ea eb) &&         (* equality coincides with equality of encodings *)
  Bool.eqb eq (pab && pba) &&              (* prefix both ways <-> equal *)
  (if pab then cle cmp else true) &&       (* a prefix never sorts after *)
  (if pba then cle (CompOpp cmp) else true) &&
  (if eq then heq else true) &&            (* equal names hash equally *)
  match inner_of ea, inner_of eb with      (* canonical order = bytewise order of the component encodings *)
  | Some ia, Some ib => cmp_eqb cmp (bytes_cmp ia ib)
  | _, _ => false
  end.

(* observations on a pair of components: Compare, Equal, Bytes of both *)
Definition comp_ok (cmp : comparison) (eq : bool) (ec ed : bytes) : bool :=
  Bool.eqb eq (cmp_eqb cmp Eq) && Bool.eqb eq (bytes_eqb ec ed) && cmp_eqb cmp (bytes_cmp ec ed).

Definition pres_name_is (r : pres name) (n : name) : bool :=
  match r with POk m => name_eqb m n | _ => false end.
Definition pres_comp_is (r : pres comp) (c : comp) : bool :=
  match r with POk d => comp_eqb d c | _ => false end.
Definition no_panic {A} (r : pres A) : bool := match r with PPanic => false | _ => true end.

(* ---- hash input, layout-agnostic: sc, sd are the byte streams the implementation's HashInto fed for components c, d.
   Whatever the layout, (a) the stream is a function of the component, (b) streams of different components are not
   prefixes of one another (so concatenations of streams determine the name: SpecOk.layout_ok_names_injective), and a
   stream is never empty. ---- *)
Fixpoint is_prefixb (a b : bytes) : bool :=
  match a, b with
  | [], _ => true
  | _, [] => false
  | x :: a', y :: b' => (x =? y) && is_prefixb a' b'
  end.
Definition layout_pair_ok (c d : comp) (sc sd : bytes) : bool :=
  negb (length sc =? 0)%nat && negb (length sd =? 0)%nat &&
  (if comp_eqb c d then bytes_eqb sc sd else negb (is_prefixb sc sd) && negb (is_prefixb sd sc)).

(* NameFromBytes(n.Bytes()) observed as r: encodings determine names *)
Definition brt_ok (n : name) (r : option name) : bool :=
  match r with Some m => name_eqb m n | None => false end.

(* NameFromStr(n.String()) observed as r *)
Definition rt_ok (n : name) (r : pres name) : bool :=
  if uri_wfb n then pres_name_is r n else no_panic r.
(* ComponentFromStr(c.String()) observed as rs, ComponentFromStr(c.CanonicalString()) observed as rc *)
Definition crt_ok (c : comp) (rs rc : pres comp) : bool :=
  (if comp_uri_wfb c then pres_comp_is rs c else no_panic rs) &&
  (if comp_canon_wfb c then pres_comp_is rc c else no_panic rc).
