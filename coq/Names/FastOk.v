(* Names/FastOk.v — the linear-time variants extracted for the runner are the same functions. *)
From Names Require Import Model.
Open Scope N_scope.

Lemma split_on_f_eq sep s : forall cur, split_on_f sep s cur = split_on sep s cur.
Proof.
  induction s as [|c r IH]; intros cur; cbn [split_on_f split_on].
  - rewrite <- rev_alt. reflexivity.
  - destruct (c =? sep); [rewrite <- rev_alt, IH; reflexivity|apply IH].
Qed.

Theorem name_from_str_f_eq s : name_from_str_f s = name_from_str s.
Proof. unfold name_from_str_f, name_from_str_with, name_from_str. rewrite split_on_f_eq. reflexivity. Qed.

Theorem comp_pattern_from_str_f_eq s : comp_pattern_from_str_f s = comp_pattern_from_str s.
Proof.
  unfold comp_pattern_from_str_f, comp_pattern_from_str, comp_pattern_from_str_with.
  rewrite split_on_f_eq. reflexivity.
Qed.

Lemma cpats_with_ext f g l : (forall s, f s = g s) -> cpats_from_strs_with f l = cpats_from_strs_with g l.
Proof. intros H. induction l as [|s r IH]; cbn [cpats_from_strs_with]; [reflexivity|]. rewrite H, IH. reflexivity. Qed.

Theorem name_pattern_from_str_f_eq s : name_pattern_from_str_f s = name_pattern_from_str s.
Proof.
  unfold name_pattern_from_str_f, name_pattern_from_str, name_pattern_from_str_with.
  rewrite split_on_f_eq.
  destruct (split_on 47 s []) as [|s0 r]; [reflexivity|].
  set (strs1 := if (length s0 =? 0)%nat then r else s0 :: r).
  pose proof (fun l => cpats_with_ext _ _ l comp_pattern_from_str_f_eq) as E.
  unfold comp_pattern_from_str_f, comp_pattern_from_str in E.
  destruct (0 <? length strs1)%nat; [|apply E].
  destruct (last_opt strs1); [apply E|reflexivity].
Qed.
