(* Names/Extract.v — extraction of the executable model for the correspondence runner.
   ExtrOcamlBasic only: bool, option, unit, list, prod, sumbool, sumor -> OCaml natives; N/positive/nat stay Coq datatypes. *)
From Coq Require Import Extraction ExtrOcamlBasic.
From Names Require Import Model Spec.
Extraction Language OCaml.
Extraction "names_model.ml"
  name_cmp comp_cmp name_eqb comp_eqb is_prefix name_bytes name_inner name_from_bytes comp_from_bytes comp_enc
  name_to_str comp_to_str comp_to_canon name_from_str_f comp_from_str name_hash_input comp_hash_input comp_hash_header
  comp_pattern_from_str_f name_pattern_from_str_f npat_to_str cpat_to_str npat_cmp cpat_cmp to_full_name
  uri_wfb comp_uri_wfb comp_canon_wfb conventions
  triple_ok pair_ok comp_ok layout_pair_ok is_prefixb brt_ok rt_ok crt_ok no_panic bytes_eqb
  N.add N.mul N.of_nat N.to_nat N.eqb N.ltb N.div N.modulo.
