(* Names/Model.v — executable model of std/encoding/name_component.go and name_pattern.go
   (Component/Name Compare, Equal, IsPrefix, Bytes, ReadComponent/ReadName/NameFromBytes, Hash input,
    String/CanonicalString, NameFromStr).  No proofs here. *)
From Base Require Export VarNum.
Open Scope N_scope.

Record comp := mkc { ctyp : N; cval : bytes }.
Definition name := list comp.

(* ---- comparison (Component.Compare, Name.Compare) ---- *)
Fixpoint bytes_cmp (a b : bytes) : comparison :=   (* bytes.Compare *)
  match a, b with
  | [], [] => Eq
  | [], _ => Lt
  | _, [] => Gt
  | x :: a', y :: b' => match x ?= y with Eq => bytes_cmp a' b' | c => c end
  end.

Definition comp_cmp (c d : comp) : comparison :=
  match ctyp c ?= ctyp d with
  | Eq => match Nat.compare (length (cval c)) (length (cval d)) with
          | Eq => bytes_cmp (cval c) (cval d)
          | r => r
          end
  | r => r
  end.

Fixpoint name_cmp (a b : name) : comparison :=
  match a, b with
  | [], [] => Eq
  | [], _ => Lt
  | _, [] => Gt
  | c :: a', d :: b' => match comp_cmp c d with Eq => name_cmp a' b' | r => r end
  end.

Definition comp_eqb (c d : comp) : bool :=
  (ctyp c =? ctyp d) && (length (cval c) =? length (cval d))%nat && bytes_eqb (cval c) (cval d).
Definition name_eqb : name -> name -> bool := list_eqb comp_eqb.

Fixpoint is_prefix (a b : name) : bool :=
  match a, b with
  | [], _ => true
  | _, [] => false
  | c :: a', d :: b' => comp_eqb c d && is_prefix a' b'
  end.

(* ---- wire encoding (Component.EncodeInto / Name.Bytes, after the TLNum fix) ---- *)
Definition comp_enc (c : comp) : bytes :=
  tl_enc (ctyp c) ++ tl_enc (N.of_nat (length (cval c))) ++ cval c.
Definition name_inner (n : name) : bytes := concat (map comp_enc n).
Definition name_bytes (n : name) : bytes :=
  tl_enc 7 ++ tl_enc (N.of_nat (length (name_inner n))) ++ name_inner n.

(* ReadComponent on a byte list. Outcomes: value+rest, clean EOF (nothing to read), or error. *)
Inductive rd (A : Type) := RdOk (a : A) (rest : bytes) | RdEof | RdErr.
Arguments RdOk {A}. Arguments RdEof {A}. Arguments RdErr {A}.

Definition read_comp (l : bytes) : rd comp :=
  match l with
  | [] => RdEof
  | _ =>
    match tl_dec l with
    | None => RdErr
    | Some (t, r1) =>
      match tl_dec r1 with
      | None => RdErr
      | Some (len, r2) =>
        if (N.of_nat (length r2) <? len) then RdErr
        else RdOk (mkc t (firstn (N.to_nat len) r2)) (skipn (N.to_nat len) r2)
      end
    end
  end.

(* ReadName: components until clean EOF. Fuel = input length + 1 always suffices. *)
Fixpoint read_name_fuel (fuel : nat) (l : bytes) : option name :=
  match fuel with
  | O => None
  | S f =>
    match read_comp l with
    | RdEof => Some []
    | RdErr => None
    | RdOk c r => match read_name_fuel f r with Some n => Some (c :: n) | None => None end
    end
  end.
Definition read_name (l : bytes) : option name := read_name_fuel (S (length l)) l.

Definition name_from_bytes (l : bytes) : option name :=
  match tl_dec l with
  | None => None
  | Some (t, r1) =>
    if negb (t =? 7) then None else
    match tl_dec r1 with
    | None => None
    | Some (len, r2) =>
      match read_name r2 with
      | None => None
      | Some n => if len =? N.of_nat (length r2) then Some n else None
      end
    end
  end.

Definition comp_from_bytes (l : bytes) : option comp :=
  match read_comp l with RdOk c _ => Some c | _ => None end.

(* ---- hash input (Component.HashInto feeds: 8-byte big-endian type, 8-byte big-endian value length, then the value;
        the length was added by the /repo fix of the hash-input collision, see docs/C14.md) ---- *)
Definition comp_hash_input (c : comp) : bytes := be 8 (ctyp c) ++ be 8 (N.of_nat (length (cval c))) ++ cval c.
Definition name_hash_input (n : name) : bytes := concat (map comp_hash_input n).

(* ---- URI strings: a Go string is modelled as its byte list ---- *)
Definition str := bytes.
Definition ch (c : N) := c.
Definition is_alpha (b : N) : bool := ((97 <=? b) && (b <=? 122)) || ((65 <=? b) && (b <=? 90)).
Definition is_digit (b : N) : bool := (48 <=? b) && (b <=? 57).
(* isLegalCompText: alphabet, digit, '-', '_', '.', '~' *)
Definition is_legal (b : N) : bool :=
  is_alpha b || is_digit b || (b =? 45) || (b =? 95) || (b =? 46) || (b =? 126).

Definition hex_digit_upper (d : N) : N := if d <? 10 then 48 + d else 55 + d.  (* 0-9 A-F *)
Definition hex_digit_lower (d : N) : N := if d <? 10 then 48 + d else 87 + d.  (* 0-9 a-f *)
Definition hex_val (c : N) : option N :=
  if is_digit c then Some (c - 48)
  else if (97 <=? c) && (c <=? 102) then Some (c - 87)
  else if (65 <=? c) && (c <=? 70) then Some (c - 55)
  else None.
(* strconv.ParseUint(two chars, 16, 8) *)
Definition hex_pair (a b : N) : option N :=
  match hex_val a, hex_val b with Some x, Some y => Some (x * 16 + y) | _, _ => None end.

(* decimal: strconv.FormatUint / strconv.ParseUint(s, 10, 64) *)
Fixpoint to_dec_fuel (fuel : nat) (n : N) (acc : str) : str :=
  match fuel with
  | O => acc
  | S f => let acc' := (48 + n mod 10) :: acc in
           if n <? 10 then acc' else to_dec_fuel f (n / 10) acc'
  end.
Definition to_dec (n : N) : str := to_dec_fuel 40 n [].

Fixpoint of_dec_acc (acc : N) (s : str) : option N :=
  match s with
  | [] => Some acc
  | c :: r => if is_digit c then
                let v := acc * 10 + (c - 48) in
                if two64 <=? v then None else of_dec_acc v r
              else None
  end.
Definition of_dec (s : str) : option N := match s with [] => None | _ => of_dec_acc 0 s end.

(* compValFmtText *)
Fixpoint text_to_str (v : bytes) : str :=
  match v with
  | [] => []
  | b :: r => if is_legal b then b :: text_to_str r
              else 37 :: hex_digit_upper (b / 16) :: hex_digit_upper (b mod 16) :: text_to_str r
  end.

Definition is_special (c : N) : bool := (c =? 37) || (c =? 61) || (c =? 47) || (c =? 92).

Fixpoint text_from_str_fuel (fuel : nat) (s : str) : option bytes :=
  match fuel with
  | O => None
  | S f =>
    match s with
    | [] => Some []
    | c :: r =>
      if is_legal c then option_map (cons c) (text_from_str_fuel f r)
      else if c =? 37 then
        match r with
        | a :: b :: r' => match hex_pair a b with
                          | Some v => option_map (cons v) (text_from_str_fuel f r')
                          | None => None
                          end
        | _ => None
        end
      else if is_special c then None
      else option_map (cons c) (text_from_str_fuel f r)
    end
  end.
Definition text_from_str (s : str) : option bytes :=
  if existsb is_special s then text_from_str_fuel (S (length s)) s else Some s.

(* compValFmtDec: value bytes folded into a uint64 (wraps mod 2^64) *)
Definition dec_to_str (v : bytes) : str :=
  to_dec (fold_left (fun x b => (x * 256 + b) mod two64) v 0).
Definition dec_from_str (s : str) : option bytes := option_map nat_enc (of_dec s).

(* compValFmtHex *)
Fixpoint hex_to_str (v : bytes) : str :=
  match v with
  | [] => []
  | b :: r => hex_digit_lower (b / 16) :: hex_digit_lower (b mod 16) :: hex_to_str r
  end.
Fixpoint hex_from_str_fuel (fuel : nat) (s : str) : option bytes :=
  match fuel with
  | O => None
  | S f =>
    match s with
    | [] => Some []
    | a :: b :: r => match hex_pair a b with
                     | Some v => option_map (cons v) (hex_from_str_fuel f r)
                     | None => None
                     end
    | _ => None
    end
  end.
Definition hex_from_str (s : str) : option bytes := hex_from_str_fuel (S (length s)) s.

Inductive vfmt := FText | FDec | FHex.
(* compConvByType: 1 sha256digest hex, 2 params-sha256 hex, 50 seg, 52 off, 54 v, 56 t, 58 seq (decimal) *)
Definition s_sha256digest : str := [115;104;97;50;53;54;100;105;103;101;115;116].
Definition s_params_sha256 : str := [112;97;114;97;109;115;45;115;104;97;50;53;54].
Definition s_seg : str := [115;101;103].
Definition s_off : str := [111;102;102].
Definition s_v : str := [118].
Definition s_t : str := [116].
Definition s_seq : str := [115;101;113].
Definition conventions : list (N * str * vfmt) :=
  [(1, s_sha256digest, FHex); (2, s_params_sha256, FHex); (50, s_seg, FDec); (52, s_off, FDec);
   (54, s_v, FDec); (56, s_t, FDec); (58, s_seq, FDec)].
Definition conv_by_type (t : N) : option (str * vfmt) :=
  match find (fun x => fst (fst x) =? t) conventions with Some (_, s, f) => Some (s, f) | None => None end.
Definition conv_by_name (s : str) : option (N * vfmt) :=
  match find (fun x => bytes_eqb (snd (fst x)) s) conventions with Some (t, _, f) => Some (t, f) | None => None end.

Definition fmt_to_str (f : vfmt) (v : bytes) : str :=
  match f with FText => text_to_str v | FDec => dec_to_str v | FHex => hex_to_str v end.
Definition fmt_from_str (f : vfmt) (s : str) : option bytes :=
  match f with FText => text_from_str s | FDec => dec_from_str s | FHex => hex_from_str s end.

(* Component.String *)
Definition comp_to_str (c : comp) : str :=
  match conv_by_type (ctyp c) with
  | Some (nm, f) => nm ++ [61] ++ fmt_to_str f (cval c)
  | None => if ctyp c =? 8 then text_to_str (cval c)
            else to_dec (ctyp c) ++ [61] ++ text_to_str (cval c)
  end.
(* Component.CanonicalString *)
Definition comp_to_canon (c : comp) : str :=
  if ctyp c =? 8 then text_to_str (cval c) else to_dec (ctyp c) ++ [61] ++ text_to_str (cval c).

(* Name.String *)
Definition name_to_str (n : name) : str :=
  match n with
  | [] => [47]
  | _ => let body := concat (map (fun c => 47 :: comp_to_str c) n) in
         let l := last n (mkc 0 []) in
         if (ctyp l =? 8) && (length (cval l) =? 0)%nat then body ++ [47] else body
  end.

(* outcome of the string parsers: the model marks every unchecked indexing with Panic *)
Inductive pres (A : Type) := POk (a : A) | PErr | PPanic.
Arguments POk {A}. Arguments PErr {A}. Arguments PPanic {A}.

(* split at every '/' (strings.Split) *)
Fixpoint split_on (sep : N) (s : str) (cur : str) : list str :=
  match s with
  | [] => [rev cur]
  | c :: r => if c =? sep then rev cur :: split_on sep r [] else split_on sep r (c :: cur)
  end.

(* parseCompTypeFromStr (with the len(s)==0 guard) *)
Definition parse_comp_type (s : str) : pres (N * vfmt) :=
  if (length s =? 0)%nat then PErr else
  match s with
  | [] => PPanic                       (* s[0] on an empty string *)
  | c0 :: _ =>
    if is_alpha c0 then
      match conv_by_name s with Some (t, f) => POk (t, f) | None => PErr end
    else match of_dec s with Some t => POk (t, FText) | None => PErr end
  end.

(* componentFromStrInto *)
Definition count_eq (s : str) : nat := length (filter (fun c => c =? 61) s).
Fixpoint split_first_eq (s : str) (pre : str) : str * str :=
  match s with
  | [] => (rev pre, [])
  | c :: r => if c =? 61 then (rev pre, r) else split_first_eq r (c :: pre)
  end.

Definition comp_from_str (s : str) : pres comp :=
  match count_eq s with
  | O => match text_from_str s with Some v => POk (mkc 8 v) | None => PErr end
  | S O =>
    let '(ts, vs) := split_first_eq s [] in
    match parse_comp_type ts with
    | PPanic => PPanic
    | PErr => PErr
    | POk (t, f) =>
      if (t =? 0) || (65535 <? t) then PErr
      else match fmt_from_str f vs with Some v => POk (mkc t v) | None => PErr end
    end
  | _ => PErr
  end.

Fixpoint comps_from_strs (l : list str) : pres name :=
  match l with
  | [] => POk []
  | s :: r => match comp_from_str s with
              | POk c => match comps_from_strs r with POk n => POk (c :: n) | e => e end
              | PErr => PErr
              | PPanic => PPanic
              end
  end.

(* NameFromStr *)
Definition name_from_str (s : str) : pres name :=
  let strs := split_on 47 s [] in
  match strs with
  | [] => PPanic                        (* strs[0]: strings.Split never returns an empty slice *)
  | s0 :: r =>
    let strs1 := if (length s0 =? 0)%nat then r else strs in
    let strs2 := match rev strs1 with
                 | [] => strs1
                 | l :: pre => if (length l =? 0)%nat then rev pre else strs1
                 end in
    comps_from_strs strs2
  end.

(* ======================================================================================================
   Additions for C14 (second round): decidable URI well-formedness, patterns.  Nothing above is changed. *)

(* --- the domain of the URI round trip: types 1..65535, values are bytes, numeric-convention components
       (the conventions whose value format is decimal) hold a shortest-form Nat --- *)
Definition is_dec_conv (t : N) : bool :=
  match conv_by_type t with Some (_, FDec) => true | _ => false end.
Definition shortest_natb (v : bytes) : bool :=
  (be_val v <? two64) && bytes_eqb (nat_enc (be_val v)) v.
Definition comp_uri_wfb (c : comp) : bool :=
  (1 <=? ctyp c) && (ctyp c <=? 65535) && bytes_okb (cval c) &&
  (if is_dec_conv (ctyp c) then shortest_natb (cval c) else true).
Definition uri_wfb (n : name) : bool := forallb comp_uri_wfb n.
(* domain of the CanonicalString round trip: no condition on numeric conventions *)
Definition comp_canon_wfb (c : comp) : bool :=
  (1 <=? ctyp c) && (ctyp c <=? 65535) && bytes_okb (cval c).

(* --- patterns (name_component.go Pattern / ComponentPatternFromStr, name_pattern.go NamePatternFromStr) --- *)
Inductive cpat := CPComp (c : comp) | CPPat (t : N) (tag : str).
Definition npat := list cpat.

(* Pattern.String / Pattern.CanonicalString *)
Definition pat_to_str (t : N) (tag : str) : str :=
  if t =? 8 then [60] ++ tag ++ [62]
  else match conv_by_type t with
       | Some (nm, _) => [60] ++ nm ++ [61] ++ tag ++ [62]
       | None => [60] ++ to_dec t ++ [61] ++ tag ++ [62]
       end.
Definition pat_to_canon (t : N) (tag : str) : str :=
  if t =? 8 then [60] ++ tag ++ [62] else [60] ++ to_dec t ++ [61] ++ tag ++ [62].
Definition cpat_to_str (p : cpat) : str :=
  match p with CPComp c => comp_to_str c | CPPat t tag => pat_to_str t tag end.
(* NamePattern.String: the trailing "/" is only added when the last element is a *Component (pointer); the
   parser and every constructor in the repository store Component values, so it is never added. *)
Definition npat_to_str (n : npat) : str :=
  match n with [] => [47] | _ => concat (map (fun c => 47 :: cpat_to_str c) n) end.

Definition last_opt {A} (l : list A) : option A :=
  match rev l with [] => None | x :: _ => Some x end.

(* ComponentPatternFromStr.  Unchecked operations carry an explicit PPanic branch:
     s[0] (guarded by len(s) <= 0), s[len(s)-1], s[1:len(s)-1], strs[0]/strs[1] after strings.Split. *)
Definition comp_pattern_from_str_with (split : N -> str -> str -> list str) (s : str) : pres cpat :=
  let plain := match comp_from_str s with POk c => POk (CPComp c) | PErr => PErr | PPanic => PPanic end in
  if (length s <=? 0)%nat then plain else
  match s with
  | [] => PPanic                                        (* s[0] on the empty string *)
  | c0 :: _ =>
    if negb (c0 =? 60) then plain else
    match last_opt s with
    | None => PPanic                                    (* s[len(s)-1] on the empty string *)
    | Some cl =>
      if negb (cl =? 62) then PErr else
      if (length s <? 2)%nat then PPanic                (* s[1:len(s)-1] with 1 > len(s)-1 *)
      else
        let inner := firstn (length s - 2) (skipn 1 s) in
        let strs := split 61 inner [] in
        if (2 <? length strs)%nat then PErr else
        if (length strs =? 2)%nat then
          match strs with
          | ts :: tag :: _ =>
            match parse_comp_type ts with
            | POk (t, _) => POk (CPPat t tag)
            | PErr => PErr
            | PPanic => PPanic
            end
          | _ => PPanic                                 (* strs[0], strs[1] *)
          end
        else match strs with
             | tag :: _ => POk (CPPat 8 tag)
             | [] => PPanic                             (* strs[0] *)
             end
    end
  end.

Definition comp_pattern_from_str : str -> pres cpat := comp_pattern_from_str_with split_on.

Fixpoint cpats_from_strs_with (cp : str -> pres cpat) (l : list str) : pres npat :=
  match l with
  | [] => POk []
  | s :: r => match cp s with
              | POk c => match cpats_from_strs_with cp r with POk n => POk (c :: n) | e => e end
              | PErr => PErr
              | PPanic => PPanic
              end
  end.
Definition cpats_from_strs : list str -> pres npat := cpats_from_strs_with comp_pattern_from_str.

(* NamePatternFromStr (with the len(strs) > 0 guard of commit 2e94774) *)
Definition name_pattern_from_str_with (split : N -> str -> str -> list str) (s : str) : pres npat :=
  let strs := split 47 s [] in
  match strs with
  | [] => PPanic                                         (* strs[0] *)
  | s0 :: r =>
    let strs1 := if (length s0 =? 0)%nat then r else strs in
    let cps := cpats_from_strs_with (comp_pattern_from_str_with split) in
    if (0 <? length strs1)%nat then
      match last_opt strs1 with
      | None => PPanic                                   (* strs[len(strs)-1] on an empty slice *)
      | Some l => cps (if (length l =? 0)%nat then removelast strs1 else strs1)
      end
    else cps strs1
  end.
Definition name_pattern_from_str : str -> pres npat := name_pattern_from_str_with split_on.

(* the same function without that guard = the code before the fix; kept to show the guard is needed *)
Definition name_pattern_from_str_unguarded (s : str) : pres npat :=
  let strs := split_on 47 s [] in
  match strs with
  | [] => PPanic
  | s0 :: r =>
    let strs1 := if (length s0 =? 0)%nat then r else strs in
    match last_opt strs1 with
    | None => PPanic
    | Some l => cpats_from_strs (if (length l =? 0)%nat then removelast strs1 else strs1)
    end
  end.

(* Name.ToFullName: n[len(n)-1] with no length check (not a string parser; see docs/C14.md) *)
Definition to_full_name (digest : bytes) (n : name) : pres name :=
  match last_opt n with
  | None => PPanic
  | Some l => if ctyp l =? 1 then POk n else POk (n ++ [mkc 1 digest])
  end.

(* the 16 bytes HashInto feeds before the value, as a function of the type and the value length (used by the runner for
   values too long to materialise as a Coq list; Wire.v: comp_hash_input c = header ++ value) *)
Definition comp_hash_header (t len : N) : bytes := be 8 t ++ be 8 len.

(* the hash input before the fix: no length, hence no component boundaries (kept to show the length is needed) *)
Definition comp_hash_input_nolen (c : comp) : bytes := be 8 (ctyp c) ++ cval c.
Definition name_hash_input_nolen (n : name) : bytes := concat (map comp_hash_input_nolen n).

(* Pattern compare / equal (strings.Compare on tags = bytewise) *)
Definition cpat_cmp (a b : cpat) : comparison :=
  match a, b with
  | CPComp c, CPComp d => comp_cmp c d
  | CPComp _, CPPat _ _ => Lt
  | CPPat _ _, CPComp _ => Gt
  | CPPat t tag, CPPat t' tag' => match t ?= t' with Eq => bytes_cmp tag tag' | r => r end
  end.
Fixpoint npat_cmp (a b : npat) : comparison :=
  match a, b with
  | [], [] => Eq
  | [], _ => Lt
  | _, [] => Gt
  | c :: a', d :: b' => match cpat_cmp c d with Eq => npat_cmp a' b' | r => r end
  end.

(* ---- linear-time variants for the extracted runner (List.rev of the standard library is quadratic; a 65536-byte
   component would take a minute).  FastOk.v proves them equal to the functions above. ---- *)
Fixpoint split_on_f (sep : N) (s : str) (cur : str) : list str :=
  match s with
  | [] => [rev_append cur []]
  | c :: r => if c =? sep then rev_append cur [] :: split_on_f sep r [] else split_on_f sep r (c :: cur)
  end.
Definition name_from_str_with (split : N -> str -> str -> list str) (s : str) : pres name :=
  let strs := split 47 s [] in
  match strs with
  | [] => PPanic
  | s0 :: r =>
    let strs1 := if (length s0 =? 0)%nat then r else strs in
    let strs2 := match rev strs1 with
                 | [] => strs1
                 | l :: pre => if (length l =? 0)%nat then rev pre else strs1
                 end in
    comps_from_strs strs2
  end.
Definition name_from_str_f : str -> pres name := name_from_str_with split_on_f.
Definition comp_pattern_from_str_f : str -> pres cpat := comp_pattern_from_str_with split_on_f.
Definition name_pattern_from_str_f : str -> pres npat := name_pattern_from_str_with split_on_f.
