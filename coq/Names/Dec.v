(* Names/Dec.v — decimal and hexadecimal printing/parsing round trips, byte-level facts decided exhaustively. *)
From Names Require Import Model.
From Coq Require Import ZifyBool ZifyN ZifyNat.
Open Scope N_scope.

(* ---------- exhaustive reasoning over the 256 byte values ---------- *)
Definition all_bytes : list N := map N.of_nat (seq 0 256).

Lemma in_all_bytes b : b < 256 -> In b all_bytes.
Proof.
  intros H. unfold all_bytes. rewrite <- (N2Nat.id b). apply in_map. apply in_seq. lia.
Qed.

Lemma byte_forall (P : N -> bool) : forallb P all_bytes = true -> forall b, b < 256 -> P b = true.
Proof. intros H b Hb. rewrite forallb_forall in H. apply H. apply in_all_bytes. exact Hb. Qed.

(* ---------- decimal ---------- *)
Definition digs (f : nat) (n : N) : str := to_dec_fuel f n [].

Lemma to_dec_fuel_app f : forall n acc, to_dec_fuel f n acc = digs f n ++ acc.
Proof.
  unfold digs. induction f as [|f IH]; intros n acc; [reflexivity|].
  cbn [to_dec_fuel]. destruct (n <? 10); [reflexivity|].
  rewrite (IH _ (_ :: acc)). rewrite (IH _ (_ :: nil)).
  rewrite <- app_assoc. reflexivity.
Qed.

Lemma digs_S f n : digs (S f) n = if n <? 10 then [48 + n mod 10] else digs f (n / 10) ++ [48 + n mod 10].
Proof. unfold digs at 1. cbn [to_dec_fuel]. destruct (n <? 10); [reflexivity|]. apply to_dec_fuel_app. Qed.

Lemma digit_is_digit n : is_digit (48 + n mod 10) = true.
Proof. unfold is_digit. pose proof (N.mod_lt n 10). lia. Qed.

Lemma digs_all_digits f : forall n, forallb is_digit (digs f n) = true.
Proof.
  induction f as [|f IH]; intros n; [reflexivity|].
  rewrite digs_S. destruct (n <? 10).
  - cbn [forallb]. rewrite digit_is_digit. reflexivity.
  - rewrite forallb_app, IH. cbn [forallb]. rewrite digit_is_digit. reflexivity.
Qed.

Lemma digs_nonnil f n : digs (S f) n <> [].
Proof. rewrite digs_S. destruct (n <? 10); [discriminate|]. destruct (digs f (n / 10)); discriminate. Qed.

Lemma of_dec_acc_digs f : forall n rest, n < 10 ^ N.of_nat f -> n < two64 ->
  of_dec_acc 0 (digs f n ++ rest) = of_dec_acc n rest.
Proof.
  induction f as [|f IH]; intros n rest Hf Hn.
  - change (10 ^ N.of_nat 0) with 1 in Hf. assert (n = 0) by lia. subst. reflexivity.
  - rewrite digs_S. destruct (n <? 10) eqn:E.
    + cbn [app of_dec_acc]. rewrite digit_is_digit.
      rewrite N.mod_small by lia.
      replace (0 * 10 + (48 + n - 48)) with n by lia.
      replace (two64 <=? n) with false by lia. reflexivity.
    + rewrite <- app_assoc. cbn [app].
      rewrite Nat2N.inj_succ, N.pow_succ_r' in Hf.
      assert (Hq : n / 10 < 10 ^ N.of_nat f) by (apply N.div_lt_upper_bound; lia).
      assert (Hq2 : n / 10 < two64) by (pose proof (N.div_le_upper_bound n 10 n); unfold two64 in *; lia).
      rewrite IH by assumption.
      cbn [of_dec_acc]. rewrite digit_is_digit.
      replace (n / 10 * 10 + (48 + n mod 10 - 48)) with n by (pose proof (N.div_mod' n 10); lia).
      replace (two64 <=? n) with false by lia. reflexivity.
Qed.

Lemma two64_lt_pow40 : two64 < 10 ^ N.of_nat 40.
Proof. vm_compute. reflexivity. Qed.

Theorem of_dec_to_dec n : n < two64 -> of_dec (to_dec n) = Some n.
Proof.
  intros Hn. unfold to_dec. fold (digs 40 n).
  pose proof (digs_nonnil 39 n) as Hne.
  unfold of_dec. destruct (digs 40 n) eqn:E; [congruence|]. rewrite <- E.
  rewrite <- (app_nil_r (digs 40 n)). rewrite of_dec_acc_digs; [reflexivity| |exact Hn].
  pose proof two64_lt_pow40. lia.
Qed.

Lemma to_dec_all_digits n : forallb is_digit (to_dec n) = true.
Proof. exact (digs_all_digits 40 n). Qed.

Lemma to_dec_nonnil n : to_dec n <> [].
Proof. exact (digs_nonnil 39 n). Qed.

Lemma digit_not_alpha c : is_digit c = true -> is_alpha c = false.
Proof. unfold is_digit, is_alpha. lia. Qed.

Lemma to_dec_head n : exists c r, to_dec n = c :: r /\ is_digit c = true /\ is_alpha c = false.
Proof.
  pose proof (to_dec_nonnil n) as Hne. pose proof (to_dec_all_digits n) as Hd.
  destruct (to_dec n) as [|c r]; [congruence|]. cbn [forallb] in Hd. apply andb_true_iff in Hd as [Hc _].
  exists c, r. split; [reflexivity|]. split; [exact Hc|apply digit_not_alpha; exact Hc].
Qed.

(* digits contain neither '=' nor '/' *)
Lemma digits_no c s : (is_digit c = false) -> forallb is_digit s = true -> existsb (fun x => x =? c) s = false.
Proof.
  intros Hc. induction s as [|x s IH]; [reflexivity|]. cbn [forallb existsb]. intros H.
  apply andb_true_iff in H as [Hx Hs]. rewrite (IH Hs), orb_false_r.
  destruct (x =? c) eqn:E; [|reflexivity]. apply N.eqb_eq in E. subst. congruence.
Qed.

(* ---------- hexadecimal pairs ---------- *)
Lemma hex_pair_upper b : b < 256 -> hex_pair (hex_digit_upper (b / 16)) (hex_digit_upper (b mod 16)) = Some b.
Proof.
  intros Hb.
  pose proof (byte_forall (fun b => match hex_pair (hex_digit_upper (b / 16)) (hex_digit_upper (b mod 16)) with
                                    | Some v => v =? b | None => false end)) as H.
  specialize (H ltac:(vm_compute; reflexivity) b Hb). cbv beta in H.
  destruct (hex_pair _ _); [|discriminate]. apply N.eqb_eq in H. congruence.
Qed.

Lemma hex_pair_lower b : b < 256 -> hex_pair (hex_digit_lower (b / 16)) (hex_digit_lower (b mod 16)) = Some b.
Proof.
  intros Hb.
  pose proof (byte_forall (fun b => match hex_pair (hex_digit_lower (b / 16)) (hex_digit_lower (b mod 16)) with
                                    | Some v => v =? b | None => false end)) as H.
  specialize (H ltac:(vm_compute; reflexivity) b Hb). cbv beta in H.
  destruct (hex_pair _ _); [|discriminate]. apply N.eqb_eq in H. congruence.
Qed.

(* the two hex digits printed for a byte are legal URI text and not special, in either case *)
Lemma hex_digit_upper_plain b : b < 256 ->
  is_special (hex_digit_upper (b / 16)) = false /\ is_special (hex_digit_upper (b mod 16)) = false.
Proof.
  intros Hb.
  pose proof (byte_forall (fun b => negb (is_special (hex_digit_upper (b / 16))) && negb (is_special (hex_digit_upper (b mod 16))))) as H.
  specialize (H ltac:(vm_compute; reflexivity) b Hb). cbv beta in H.
  apply andb_true_iff in H as [H1 H2]. apply negb_true_iff in H1, H2. auto.
Qed.

Lemma hex_val_bound c v : hex_val c = Some v -> v < 16.
Proof.
  unfold hex_val, is_digit. destruct ((48 <=? c) && (c <=? 57)) eqn:E1; [intros H; inversion H; lia|].
  destruct ((97 <=? c) && (c <=? 102)) eqn:E2; [intros H; inversion H; lia|].
  destruct ((65 <=? c) && (c <=? 70)) eqn:E3; [intros H; inversion H; lia|discriminate].
Qed.

Lemma hex_pair_bound a b v : hex_pair a b = Some v -> v < 256.
Proof.
  unfold hex_pair. destruct (hex_val a) eqn:Ea; [|discriminate]. destruct (hex_val b) eqn:Eb; [|discriminate].
  apply hex_val_bound in Ea, Eb. intros H; inversion H. lia.
Qed.
