(* Names/Order.v — proofs about comparison, equality, prefix and hash input. *)
From Names Require Import Model.
From Coq Require Import ZifyBool ZifyN ZifyNat.
Open Scope N_scope.

(* ---------- bytes_cmp ---------- *)
Lemma bytes_cmp_refl a : bytes_cmp a a = Eq.
Proof. induction a as [|x a IH]; simpl; auto. rewrite N.compare_refl. exact IH. Qed.

Lemma bytes_cmp_eq a : forall b, bytes_cmp a b = Eq -> a = b.
Proof.
  induction a as [|x a IH]; intros [|y b]; simpl; intros H; try discriminate; auto.
  destruct (x ?= y) eqn:E; try discriminate. apply N.compare_eq in E. subst. f_equal. auto.
Qed.

Lemma bytes_cmp_antisym a : forall b, bytes_cmp b a = CompOpp (bytes_cmp a b).
Proof.
  induction a as [|x a IH]; intros [|y b]; simpl; auto.
  rewrite (N.compare_antisym x y). destruct (x ?= y); simpl; auto.
Qed.

Lemma bytes_cmp_trans a : forall b c, bytes_cmp a b = Lt -> bytes_cmp b c = Lt -> bytes_cmp a c = Lt.
Proof.
  induction a as [|x a IH]; intros [|y b] [|z c]; simpl; intros H1 H2; try discriminate; auto.
  destruct (x ?= y) eqn:E1; try discriminate; destruct (y ?= z) eqn:E2; try discriminate.
  - apply N.compare_eq in E1, E2. subst. rewrite N.compare_refl. eauto.
  - apply N.compare_eq in E1. subst. rewrite E2. reflexivity.
  - apply N.compare_eq in E2. subst. rewrite E1. reflexivity.
  - assert (x < z) by (pose proof (proj1 (N.compare_lt_iff _ _) E1); pose proof (proj1 (N.compare_lt_iff _ _) E2); lia).
    replace (x ?= z) with Lt by (symmetry; apply N.compare_lt_iff; assumption). reflexivity.
Qed.

(* ---------- comp_cmp ---------- *)
Lemma comp_cmp_refl c : comp_cmp c c = Eq.
Proof. unfold comp_cmp. rewrite N.compare_refl, Nat.compare_refl. apply bytes_cmp_refl. Qed.

Lemma comp_cmp_eq c d : comp_cmp c d = Eq -> c = d.
Proof.
  unfold comp_cmp. destruct c as [t v], d as [t' v']; simpl.
  destruct (t ?= t') eqn:E; try discriminate. apply N.compare_eq in E. subst.
  destruct (Nat.compare (length v) (length v')); try discriminate.
  intros H. apply bytes_cmp_eq in H. congruence.
Qed.

Lemma comp_cmp_antisym c d : comp_cmp d c = CompOpp (comp_cmp c d).
Proof.
  unfold comp_cmp. rewrite (N.compare_antisym (ctyp c) (ctyp d)).
  destruct (ctyp c ?= ctyp d); simpl; auto.
  rewrite (Nat.compare_antisym (length (cval c)) (length (cval d))).
  destruct (Nat.compare (length (cval c)) (length (cval d))); simpl; auto.
  apply bytes_cmp_antisym.
Qed.

Lemma comp_cmp_trans c d e : comp_cmp c d = Lt -> comp_cmp d e = Lt -> comp_cmp c e = Lt.
Proof.
  unfold comp_cmp. destruct c as [t1 v1], d as [t2 v2], e as [t3 v3]; simpl.
  destruct (t1 ?= t2) eqn:E1; try discriminate; destruct (t2 ?= t3) eqn:E2; try discriminate.
  - apply N.compare_eq in E1, E2. subst. rewrite N.compare_refl.
    destruct (Nat.compare (length v1) (length v2)) eqn:L1; try discriminate;
    destruct (Nat.compare (length v2) (length v3)) eqn:L2; try discriminate.
    + apply Nat.compare_eq in L1, L2. rewrite L1, L2, Nat.compare_refl. apply bytes_cmp_trans.
    + apply Nat.compare_eq in L1. rewrite L1, L2. auto.
    + apply Nat.compare_eq in L2. rewrite <- L2, L1. auto.
    + pose proof (proj1 (Nat.compare_lt_iff _ _) L1). pose proof (proj1 (Nat.compare_lt_iff _ _) L2).
      replace (Nat.compare (length v1) (length v3)) with Lt by (symmetry; apply Nat.compare_lt_iff; lia). auto.
  - apply N.compare_eq in E1. subst. rewrite E2. auto.
  - apply N.compare_eq in E2. subst. rewrite E1. auto.
  - pose proof (proj1 (N.compare_lt_iff _ _) E1). pose proof (proj1 (N.compare_lt_iff _ _) E2).
    replace (t1 ?= t3) with Lt by (symmetry; apply N.compare_lt_iff; lia). auto.
Qed.

(* ---------- name_cmp ---------- *)
Lemma name_cmp_refl a : name_cmp a a = Eq.
Proof. induction a as [|c a IH]; simpl; auto. rewrite comp_cmp_refl. exact IH. Qed.

Lemma name_cmp_eq a : forall b, name_cmp a b = Eq -> a = b.
Proof.
  induction a as [|c a IH]; intros [|d b]; simpl; intros H; try discriminate; auto.
  destruct (comp_cmp c d) eqn:E; try discriminate. apply comp_cmp_eq in E. subst. f_equal. auto.
Qed.

Lemma name_cmp_antisym a : forall b, name_cmp b a = CompOpp (name_cmp a b).
Proof.
  induction a as [|c a IH]; intros [|d b]; simpl; auto.
  rewrite (comp_cmp_antisym c d). destruct (comp_cmp c d); simpl; auto.
Qed.

Lemma name_cmp_trans a : forall b c, name_cmp a b = Lt -> name_cmp b c = Lt -> name_cmp a c = Lt.
Proof.
  induction a as [|x a IH]; intros [|y b] [|z c]; simpl; intros H1 H2; try discriminate; auto.
  destruct (comp_cmp x y) eqn:E1; try discriminate; destruct (comp_cmp y z) eqn:E2; try discriminate.
  - apply comp_cmp_eq in E1, E2. subst. rewrite comp_cmp_refl. eauto.
  - apply comp_cmp_eq in E1. subst. rewrite E2. reflexivity.
  - apply comp_cmp_eq in E2. subst. rewrite E1. reflexivity.
  - rewrite (comp_cmp_trans _ _ _ E1 E2). reflexivity.
Qed.

(* ---------- equality ---------- *)
Lemma comp_eqb_spec c d : comp_eqb c d = true <-> c = d.
Proof.
  unfold comp_eqb. destruct c as [t v], d as [t' v']; simpl. split.
  - intros H. apply andb_true_iff in H as [H H3]. apply andb_true_iff in H as [H1 H2].
    apply N.eqb_eq in H1. apply bytes_eqb_spec in H3. congruence.
  - intros H. inversion H; subst. rewrite N.eqb_refl, Nat.eqb_refl. simpl. apply bytes_eqb_spec. reflexivity.
Qed.

Lemma name_eqb_spec a b : name_eqb a b = true <-> a = b.
Proof. apply list_eqb_spec. apply comp_eqb_spec. Qed.

(* ---------- prefix ---------- *)
Lemma is_prefix_spec a : forall b, is_prefix a b = true <-> exists c, b = a ++ c.
Proof.
  induction a as [|x a IH]; intros b; simpl.
  - split; eauto.
  - destruct b as [|y b]; simpl.
    + split; [discriminate|]. intros [c H]. discriminate.
    + rewrite andb_true_iff, comp_eqb_spec, IH. split.
      * intros [-> [c ->]]. eauto.
      * intros [c H]. inversion H; subst. eauto.
Qed.

Lemma prefix_cmp_le a b : is_prefix a b = true -> name_cmp a b <> Gt.
Proof.
  intros H. apply is_prefix_spec in H as [c ->].
  induction a as [|x a IH]; simpl.
  - destruct c; discriminate.
  - rewrite comp_cmp_refl. exact IH.
Qed.

(* ---------- hash input ---------- *)
(* PrefixHash feeds the components one after the other into one streaming hasher and reads the sum after
   each: the input seen after i components is the hash input of the i-component prefix. *)
Fixpoint prefix_inputs_from (acc : bytes) (n : name) : list bytes :=
  acc :: match n with [] => [] | c :: r => prefix_inputs_from (acc ++ comp_hash_input c) r end.
Definition prefix_inputs (n : name) : list bytes := prefix_inputs_from [] n.

Lemma prefix_inputs_from_nth n : forall acc i, (i <= length n)%nat ->
  nth i (prefix_inputs_from acc n) [] = acc ++ name_hash_input (firstn i n).
Proof.
  induction n as [|c n IH]; intros acc i Hi.
  - simpl in Hi. assert (i = 0%nat) by lia. subst. simpl. rewrite app_nil_r. reflexivity.
  - destruct i as [|i].
    + simpl. rewrite app_nil_r. reflexivity.
    + cbn [prefix_inputs_from nth firstn]. rewrite IH by (simpl in Hi; lia).
      unfold name_hash_input. cbn [map concat]. rewrite <- app_assoc. reflexivity.
Qed.

Lemma prefix_inputs_length n : forall acc, length (prefix_inputs_from acc n) = S (length n).
Proof. induction n; intros; simpl; auto. Qed.

(* ---------- wire round trip for names (also gives injectivity of the encoding) ---------- *)
Definition comp_wf (c : comp) : Prop := ctyp c < two64 /\ N.of_nat (length (cval c)) < two64.
Definition name_wf (n : name) : Prop := Forall comp_wf n /\ N.of_nat (length (name_inner n)) < two64.

Lemma tl_enc_nonnil n : tl_enc n <> [].
Proof. unfold tl_enc. destruct (n <=? 252); [discriminate|]. destruct (n <=? 65535); [discriminate|].
  destruct (n <=? 4294967295); discriminate. Qed.

Definition read_comp_body (l : bytes) : rd comp :=
    match tl_dec l with
    | None => RdErr
    | Some (t, r1) =>
      match tl_dec r1 with
      | None => RdErr
      | Some (len, r2) =>
        if (N.of_nat (length r2) <? len) then RdErr
        else RdOk (mkc t (firstn (N.to_nat len) r2)) (skipn (N.to_nat len) r2)
      end
    end.
Lemma read_comp_nonnil l : l <> [] -> read_comp l = read_comp_body l.
Proof. destruct l; [congruence|reflexivity]. Qed.

Lemma read_comp_enc c r : comp_wf c -> read_comp (comp_enc c ++ r) = RdOk c r.
Proof.
  intros [Ht Hl]. rewrite read_comp_nonnil.
  2:{ unfold comp_enc. pose proof (tl_enc_nonnil (ctyp c)). destruct (tl_enc (ctyp c)); [congruence|discriminate]. }
  unfold read_comp_body, comp_enc.
  rewrite <- !app_assoc. rewrite tl_dec_enc by exact Ht. rewrite tl_dec_enc by exact Hl.
  replace (N.of_nat (length (cval c ++ r)) <? N.of_nat (length (cval c))) with false
    by (rewrite app_length; lia).
  rewrite Nat2N.id. rewrite firstn_app, firstn_all, Nat.sub_diag. simpl. rewrite app_nil_r.
  rewrite skipn_app, skipn_all, Nat.sub_diag. simpl. destruct c; reflexivity.
Qed.

Lemma comp_enc_length_pos c : (0 < length (comp_enc c))%nat.
Proof. unfold comp_enc. rewrite app_length. pose proof (tl_enc_nonnil (ctyp c)).
  destruct (tl_enc (ctyp c)); [congruence|simpl; lia]. Qed.

Lemma read_name_fuel_enc n : forall fuel, Forall comp_wf n -> (length (name_inner n) < fuel)%nat ->
  read_name_fuel fuel (name_inner n) = Some n.
Proof.
  induction n as [|c n IH]; intros fuel Hwf Hf.
  - destruct fuel; [lia|]. reflexivity.
  - destruct fuel; [lia|]. inversion Hwf as [|? ? Hc Hn]; subst.
    unfold name_inner in *. cbn [map concat read_name_fuel] in *.
    rewrite read_comp_enc by exact Hc.
    rewrite app_length in Hf. pose proof (comp_enc_length_pos c).
    rewrite IH; [reflexivity|assumption|lia].
Qed.

Lemma name_from_bytes_enc n : name_wf n -> name_from_bytes (name_bytes n) = Some n.
Proof.
  intros [Hwf Hl]. unfold name_from_bytes, name_bytes.
  rewrite tl_dec_enc by (unfold two64; lia). change (negb (7 =? 7)) with false. cbv iota.
  rewrite <- (app_nil_r (tl_enc (N.of_nat (length (name_inner n))) ++ name_inner n)).
  rewrite <- app_assoc. rewrite tl_dec_enc by exact Hl. rewrite app_nil_r.
  unfold read_name. rewrite read_name_fuel_enc by (auto; lia).
  rewrite N.eqb_refl. reflexivity.
Qed.

Lemma name_bytes_inj a b : name_wf a -> name_wf b -> name_bytes a = name_bytes b -> a = b.
Proof.
  intros Ha Hb H. apply name_from_bytes_enc in Ha, Hb. rewrite H in Ha. congruence.
Qed.

(* ---------- canonical order, stated independently of the comparison function ---------- *)
Inductive lex_lt : bytes -> bytes -> Prop :=
| lex_nil y b : lex_lt [] (y :: b)
| lex_hd x y a b : x < y -> lex_lt (x :: a) (y :: b)
| lex_tl x a b : lex_lt a b -> lex_lt (x :: a) (x :: b).

Definition canon_comp_lt (c d : comp) : Prop :=
  ctyp c < ctyp d \/
  (ctyp c = ctyp d /\ ((length (cval c) < length (cval d))%nat \/
                       (length (cval c) = length (cval d) /\ lex_lt (cval c) (cval d)))).

Inductive canon_lt : name -> name -> Prop :=
| canon_prefix d b : canon_lt [] (d :: b)                         (* a proper prefix sorts first *)
| canon_hd c d a b : canon_comp_lt c d -> canon_lt (c :: a) (d :: b)
| canon_tl c a b : canon_lt a b -> canon_lt (c :: a) (c :: b).

Lemma bytes_cmp_lt a : forall b, bytes_cmp a b = Lt <-> lex_lt a b.
Proof.
  induction a as [|x a IH]; intros [|y b]; simpl.
  - split; [discriminate|inversion 1].
  - split; [constructor|reflexivity].
  - split; [discriminate|inversion 1].
  - destruct (x ?= y) eqn:E.
    + apply N.compare_eq in E. subst. rewrite IH. split; [constructor; assumption|].
      inversion 1; subst; [lia|assumption].
    + apply N.compare_lt_iff in E. split; [constructor; assumption|reflexivity].
    + apply N.compare_gt_iff in E. split; [discriminate|]. inversion 1; subst; lia.
Qed.

Lemma comp_cmp_lt c d : comp_cmp c d = Lt <-> canon_comp_lt c d.
Proof.
  unfold comp_cmp, canon_comp_lt. destruct (ctyp c ?= ctyp d) eqn:E.
  - apply N.compare_eq in E. destruct (Nat.compare (length (cval c)) (length (cval d))) eqn:L.
    + apply Nat.compare_eq in L. rewrite bytes_cmp_lt. split; [intros; right; auto|].
      intros [H|[_ [H|[_ H]]]]; [lia|lia|assumption].
    + apply Nat.compare_lt_iff in L. split; [intros; right; auto|reflexivity].
    + apply Nat.compare_gt_iff in L. split; [discriminate|]. intros [H|[_ [H|[H _]]]]; lia.
  - apply N.compare_lt_iff in E. split; [auto|reflexivity].
  - apply N.compare_gt_iff in E. split; [discriminate|]. intros [H|[H _]]; lia.
Qed.

Lemma name_cmp_lt a : forall b, name_cmp a b = Lt <-> canon_lt a b.
Proof.
  induction a as [|c a IH]; intros [|d b]; simpl.
  - split; [discriminate|inversion 1].
  - split; [constructor|reflexivity].
  - split; [discriminate|inversion 1].
  - destruct (comp_cmp c d) eqn:E.
    + apply comp_cmp_eq in E. subst. rewrite IH. split; [constructor; assumption|].
      inversion 1; subst; [|assumption].
      match goal with H : canon_comp_lt _ _ |- _ => apply comp_cmp_lt in H; rewrite comp_cmp_refl in H; discriminate end.
    + split; [intros _; apply canon_hd; apply comp_cmp_lt; assumption|reflexivity].
    + split; [discriminate|]. inversion 1; subst.
      * match goal with H : canon_comp_lt _ _ |- _ => apply comp_cmp_lt in H; congruence end.
      * rewrite comp_cmp_refl in E. discriminate.
Qed.
