(* Names/UriRt.v — the URI round trip: NameFromStr (Name.String n) = n on uri_wf names, and the
   CanonicalString round trip for components. *)
From Names Require Import Model Dec.
From Coq Require Import ZifyBool ZifyN ZifyNat.
Open Scope N_scope.

(* ---------- generic list facts ---------- *)
Definition has (c : N) (s : str) : bool := existsb (fun x => x =? c) s.

Lemma has_app c a b : has c (a ++ b) = has c a || has c b.
Proof. unfold has. apply existsb_app. Qed.

Lemma forallb_no (P : N -> bool) c s : P c = false -> forallb P s = true -> has c s = false.
Proof.
  intros Hc. induction s as [|x s IH]; [reflexivity|]. unfold has in *. cbn [forallb existsb]. intros H.
  apply andb_true_iff in H as [Hx Hs]. rewrite (IH Hs), orb_false_r.
  destruct (x =? c) eqn:E; [|reflexivity]. apply N.eqb_eq in E. subst. congruence.
Qed.

(* ---------- text format ---------- *)
Lemma is_legal_not_special c : is_legal c = true -> is_special c = false.
Proof. unfold is_legal, is_special, is_alpha, is_digit. lia. Qed.

Definition text_char (x : N) : bool := is_legal x || (x =? 37).

Lemma hex_upper_legal b : b < 256 ->
  is_legal (hex_digit_upper (b / 16)) = true /\ is_legal (hex_digit_upper (b mod 16)) = true.
Proof.
  intros Hb.
  pose proof (byte_forall (fun b => is_legal (hex_digit_upper (b / 16)) && is_legal (hex_digit_upper (b mod 16)))) as H.
  specialize (H ltac:(vm_compute; reflexivity) b Hb). cbv beta in H. apply andb_true_iff in H. exact H.
Qed.

Lemma hex_lower_legal b : b < 256 ->
  is_legal (hex_digit_lower (b / 16)) = true /\ is_legal (hex_digit_lower (b mod 16)) = true.
Proof.
  intros Hb.
  pose proof (byte_forall (fun b => is_legal (hex_digit_lower (b / 16)) && is_legal (hex_digit_lower (b mod 16)))) as H.
  specialize (H ltac:(vm_compute; reflexivity) b Hb). cbv beta in H. apply andb_true_iff in H. exact H.
Qed.

Lemma text_to_str_chars v : bytes_ok v -> forallb text_char (text_to_str v) = true.
Proof.
  induction 1 as [|b v Hb Hv IH]; [reflexivity|]. cbn [text_to_str].
  destruct (is_legal b) eqn:E.
  - cbn [forallb]. unfold text_char at 1. rewrite E. exact IH.
  - cbn [forallb]. destruct (hex_upper_legal b Hb) as [H1 H2].
    unfold text_char at 1 2 3. rewrite H1, H2, IH. reflexivity.
Qed.

(* every '%' in an escaped text is followed by the two hex digits of the byte: this is what the fuel parser uses *)
Lemma text_fuel_rt v : bytes_ok v -> forall f, (length (text_to_str v) < f)%nat ->
  text_from_str_fuel f (text_to_str v) = Some v.
Proof.
  induction 1 as [|b v Hb Hv IH]; intros f Hf.
  - destruct f; [cbn in Hf; lia|reflexivity].
  - cbn [text_to_str] in *. destruct (is_legal b) eqn:E.
    + destruct f; [cbn in Hf; lia|]. cbn [text_from_str_fuel]. rewrite E.
      rewrite IH by (cbn [length] in Hf; lia). reflexivity.
    + destruct f; [cbn in Hf; lia|]. cbn [text_from_str_fuel].
      change (is_legal 37) with false. change (37 =? 37) with true. cbv iota.
      rewrite hex_pair_upper by exact Hb.
      rewrite IH by (cbn [length] in Hf; lia). reflexivity.
Qed.

Lemma text_no_special_id v : existsb is_special (text_to_str v) = false -> text_to_str v = v.
Proof.
  induction v as [|b v IH]; [reflexivity|]. cbn [text_to_str]. destruct (is_legal b) eqn:E.
  - cbn [existsb]. intros H. apply orb_false_iff in H as [_ H]. rewrite (IH H). reflexivity.
  - cbn [existsb]. change (is_special 37) with true. discriminate.
Qed.

Theorem text_rt v : bytes_ok v -> text_from_str (text_to_str v) = Some v.
Proof.
  intros Hv. unfold text_from_str. destruct (existsb is_special (text_to_str v)) eqn:E.
  - apply text_fuel_rt; [exact Hv|lia].
  - rewrite (text_no_special_id v E). reflexivity.
Qed.

Lemma text_no c v : bytes_ok v -> text_char c = false -> has c (text_to_str v) = false.
Proof. intros Hv Hc. apply (forallb_no text_char); [exact Hc|apply text_to_str_chars; exact Hv]. Qed.

Lemma text_to_str_nil v : text_to_str v = [] -> v = [].
Proof. destruct v as [|b v]; [reflexivity|]. cbn [text_to_str]. destruct (is_legal b); discriminate. Qed.

(* ---------- hex format ---------- *)
Lemma hex_to_str_chars v : bytes_ok v -> forallb is_legal (hex_to_str v) = true.
Proof.
  induction 1 as [|b v Hb Hv IH]; [reflexivity|]. cbn [hex_to_str forallb].
  destruct (hex_lower_legal b Hb) as [H1 H2]. rewrite H1, H2, IH. reflexivity.
Qed.

Lemma hex_fuel_rt v : bytes_ok v -> forall f, (length (hex_to_str v) < f)%nat ->
  hex_from_str_fuel f (hex_to_str v) = Some v.
Proof.
  induction 1 as [|b v Hb Hv IH]; intros f Hf.
  - destruct f; [cbn in Hf; lia|reflexivity].
  - cbn [hex_to_str] in *. destruct f; [cbn in Hf; lia|]. cbn [hex_from_str_fuel].
    rewrite hex_pair_lower by exact Hb. rewrite IH by (cbn [length] in Hf; lia). reflexivity.
Qed.

Theorem hex_rt v : bytes_ok v -> hex_from_str (hex_to_str v) = Some v.
Proof. intros Hv. unfold hex_from_str. apply hex_fuel_rt; [exact Hv|lia]. Qed.

(* ---------- decimal format ---------- *)
Definition fold_u64 (v : bytes) (acc : N) : N := fold_left (fun x b => (x * 256 + b) mod two64) v acc.

Lemma be_val_acc_mono l : forall acc, acc <= be_val_acc acc l.
Proof.
  induction l as [|b l IH]; intros acc; cbn [be_val_acc]; [lia|].
  specialize (IH (acc * 256 + b)). lia.
Qed.

Lemma fold_u64_be_val l : forall acc, be_val_acc acc l < two64 -> fold_u64 l acc = be_val_acc acc l.
Proof.
  unfold fold_u64. induction l as [|b l IH]; intros acc H; [reflexivity|].
  cbn [fold_left be_val_acc] in *.
  pose proof (be_val_acc_mono l (acc * 256 + b)).
  rewrite N.mod_small by lia. apply IH. exact H.
Qed.

Lemma be_val_nat_enc x : x < two64 -> be_val (nat_enc x) = x.
Proof.
  intros Hx. unfold nat_enc, nat_len, two64 in *.
  destruct (x <=? 255) eqn:E1.
  { apply be_val_be. change (256 ^ N.of_nat 1) with 256. lia. }
  destruct (x <=? 65535) eqn:E2.
  { apply be_val_be. change (256 ^ N.of_nat 2) with 65536. lia. }
  destruct (x <=? 4294967295) eqn:E3.
  { apply be_val_be. change (256 ^ N.of_nat 4) with 4294967296. lia. }
  apply be_val_be. change (256 ^ N.of_nat 8) with 18446744073709551616. lia.
Qed.

Theorem dec_rt x : x < two64 -> dec_from_str (dec_to_str (nat_enc x)) = Some (nat_enc x).
Proof.
  intros Hx. unfold dec_from_str, dec_to_str. fold (fold_u64 (nat_enc x) 0).
  rewrite fold_u64_be_val; fold (be_val (nat_enc x)); rewrite be_val_nat_enc by exact Hx; [|exact Hx].
  rewrite of_dec_to_dec by exact Hx. reflexivity.
Qed.

Lemma is_digit_legal c : is_digit c = true -> is_legal c = true.
Proof. unfold is_legal. intros ->. rewrite orb_true_r. reflexivity. Qed.

Lemma digits_legal s : forallb is_digit s = true -> forallb is_legal s = true.
Proof.
  induction s as [|c s IH]; [reflexivity|]. cbn [forallb]. intros H. apply andb_true_iff in H as [H1 H2].
  rewrite (is_digit_legal c H1), (IH H2). reflexivity.
Qed.

(* ---------- shortest-form Nat values, decidable form ---------- *)
Lemma shortest_natb_spec v : shortest_natb v = true <-> exists x, x < two64 /\ v = nat_enc x.
Proof.
  unfold shortest_natb. split.
  - intros H. apply andb_true_iff in H as [H1 H2]. apply bytes_eqb_spec in H2.
    exists (be_val v). split; [lia|congruence].
  - intros [x [Hx ->]]. rewrite be_val_nat_enc by exact Hx.
    apply andb_true_iff. split; [lia|apply bytes_eqb_spec; reflexivity].
Qed.

(* ---------- the convention table ---------- *)
Definition conv_entry_ok (e : N * str * vfmt) : bool :=
  let '(t, nm, f) := e in
  (match conv_by_name nm with Some (t', f') => (t' =? t) && (match f, f' with FText, FText | FDec, FDec | FHex, FHex => true | _, _ => false end) | None => false end)
  && (match nm with c :: _ => is_alpha c | [] => false end)
  && forallb is_legal nm
  && negb (t =? 8) && (1 <=? t) && (t <=? 65535)
  && (match f with FText => false | _ => true end).

Lemma conventions_ok : forallb conv_entry_ok conventions = true.
Proof. vm_compute. reflexivity. Qed.

Lemma conv_by_type_In t nm f : conv_by_type t = Some (nm, f) -> In (t, nm, f) conventions.
Proof.
  unfold conv_by_type. destruct (find (fun x => fst (fst x) =? t) conventions) as [[[t' s] f']|] eqn:E; [|discriminate].
  intros H. inversion H; subst. apply find_some in E as [Hin Heq]. cbn [fst] in Heq. apply N.eqb_eq in Heq. subst. exact Hin.
Qed.

Lemma conv_facts t nm f : conv_by_type t = Some (nm, f) ->
  conv_by_name nm = Some (t, f) /\ (exists c r, nm = c :: r /\ is_alpha c = true) /\
  forallb is_legal nm = true /\ t <> 8 /\ 1 <= t <= 65535 /\ f <> FText.
Proof.
  intros H. apply conv_by_type_In in H.
  pose proof conventions_ok as Hok. rewrite forallb_forall in Hok. specialize (Hok _ H).
  unfold conv_entry_ok in Hok.
  repeat (apply andb_true_iff in Hok; destruct Hok as [Hok ?]).
  destruct (conv_by_name nm) as [[t' f']|]; [|discriminate].
  apply andb_true_iff in Hok as [Ht Hf]. apply N.eqb_eq in Ht. subst t'.
  assert (f' = f) by (destruct f, f'; try discriminate; reflexivity). subst f'.
  split; [reflexivity|]. split.
  { destruct nm as [|c r]; [discriminate|]. eauto. }
  split; [assumption|]. split; [lia|]. split; [lia|]. destruct f; [discriminate|discriminate|discriminate].
Qed.

(* ---------- component round trip ---------- *)
Definition comp_uri_wf (c : comp) : Prop :=
  1 <= ctyp c <= 65535 /\ bytes_ok (cval c) /\
  (is_dec_conv (ctyp c) = true -> exists x, x < two64 /\ cval c = nat_enc x).
Definition uri_wf (n : name) : Prop := Forall comp_uri_wf n.
Definition comp_canon_wf (c : comp) : Prop := 1 <= ctyp c <= 65535 /\ bytes_ok (cval c).

Lemma comp_uri_wfb_spec c : comp_uri_wfb c = true <-> comp_uri_wf c.
Proof.
  unfold comp_uri_wfb, comp_uri_wf. rewrite !andb_true_iff, bytes_okb_spec. split.
  - intros [[[H1 H2] H3] H4]. split; [lia|]. split; [exact H3|]. intros Hd. rewrite Hd in H4.
    apply shortest_natb_spec. exact H4.
  - intros [H1 [H2 H3]]. split; [split; [lia|exact H2]|].
    destruct (is_dec_conv (ctyp c)); [|reflexivity]. apply shortest_natb_spec. apply H3. reflexivity.
Qed.

Lemma uri_wfb_spec n : uri_wfb n = true <-> uri_wf n.
Proof.
  unfold uri_wfb, uri_wf. rewrite forallb_forall, Forall_forall.
  split; intros H x Hx; apply comp_uri_wfb_spec; apply H; exact Hx.
Qed.

Lemma comp_canon_wfb_spec c : comp_canon_wfb c = true <-> comp_canon_wf c.
Proof. unfold comp_canon_wfb, comp_canon_wf. rewrite !andb_true_iff, bytes_okb_spec. intuition lia. Qed.

Lemma count_eq_app a b : count_eq (a ++ b) = (count_eq a + count_eq b)%nat.
Proof. unfold count_eq. rewrite filter_app, app_length. reflexivity. Qed.

Lemma count_eq_none s : has 61 s = false -> count_eq s = 0%nat.
Proof.
  unfold has, count_eq. induction s as [|c s IH]; [reflexivity|]. cbn [existsb filter].
  intros H. apply orb_false_iff in H as [H1 H2]. rewrite H1. apply IH. exact H2.
Qed.

Lemma split_first_eq_app a : forall r pre, has 61 a = false ->
  split_first_eq (a ++ 61 :: r) pre = (rev pre ++ a, r).
Proof.
  unfold has. induction a as [|c a IH]; intros r pre H.
  - cbn [app split_first_eq]. change (61 =? 61) with true. cbv iota. rewrite app_nil_r. reflexivity.
  - cbn [existsb] in H. apply orb_false_iff in H as [H1 H2]. cbn [app split_first_eq]. rewrite H1.
    rewrite IH by exact H2. cbn [rev]. rewrite <- app_assoc. reflexivity.
Qed.

Lemma legal_no c s : is_legal c = false -> forallb is_legal s = true -> has c s = false.
Proof. apply forallb_no. Qed.

Lemma comp_from_str_plain vs v : has 61 vs = false -> text_from_str vs = Some v ->
  comp_from_str vs = POk (mkc 8 v).
Proof. intros H1 H2. unfold comp_from_str. rewrite (count_eq_none _ H1), H2. reflexivity. Qed.

Lemma comp_from_str_typed ts vs t f v :
  has 61 ts = false -> has 61 vs = false -> parse_comp_type ts = POk (t, f) -> 1 <= t <= 65535 ->
  fmt_from_str f vs = Some v -> comp_from_str (ts ++ [61] ++ vs) = POk (mkc t v).
Proof.
  intros H1 H2 Hp Ht Hf. unfold comp_from_str.
  rewrite !count_eq_app, (count_eq_none _ H1), (count_eq_none _ H2). cbn [count_eq filter length Nat.add].
  change (61 =? 61) with true. cbn [length Nat.add].
  cbn [app]. rewrite split_first_eq_app by exact H1. cbn [rev app]. rewrite Hp.
  replace ((t =? 0) || (65535 <? t)) with false by lia. rewrite Hf. reflexivity.
Qed.

Lemma parse_comp_type_dec t : t < two64 -> parse_comp_type (to_dec t) = POk (t, FText).
Proof.
  intros Ht. unfold parse_comp_type. destruct (to_dec_head t) as [c [r [E [Hd Ha]]]].
  rewrite E. cbn [length Nat.eqb]. rewrite Ha. rewrite <- E. rewrite of_dec_to_dec by exact Ht. reflexivity.
Qed.

Lemma parse_comp_type_conv t nm f : conv_by_type t = Some (nm, f) -> parse_comp_type nm = POk (t, f).
Proof.
  intros H. destruct (conv_facts t nm f H) as [Hn [[c [r [E Ha]]] _]].
  unfold parse_comp_type. rewrite E in *. cbn [length Nat.eqb]. rewrite Ha, Hn. reflexivity.
Qed.

Lemma fmt_rt_no f v : f <> FText -> bytes_ok v -> (f = FDec -> exists x, x < two64 /\ v = nat_enc x) ->
  fmt_from_str f (fmt_to_str f v) = Some v /\ forallb is_legal (fmt_to_str f v) = true.
Proof.
  intros Hf Hv Hd. destruct f; [congruence| |].
  - destruct (Hd eq_refl) as [x [Hx ->]]. split; [apply dec_rt; exact Hx|].
    cbn [fmt_to_str]. unfold dec_to_str. apply digits_legal. apply to_dec_all_digits.
  - split; [apply hex_rt; exact Hv|apply hex_to_str_chars; exact Hv].
Qed.

Definition no_slash_eq_text : text_char 61 = false /\ text_char 47 = false.
Proof. split; reflexivity. Qed.

(* Component.String then ComponentFromStr *)
Theorem comp_str_rt c : comp_uri_wf c ->
  comp_from_str (comp_to_str c) = POk c /\ has 47 (comp_to_str c) = false /\
  (comp_to_str c = [] -> c = mkc 8 []).
Proof.
  intros [Ht [Hv Hd]]. destruct c as [t v]. cbn [ctyp cval] in *. unfold comp_to_str. cbn [ctyp cval].
  destruct (conv_by_type t) as [[nm f]|] eqn:E.
  - destruct (conv_facts t nm f E) as [Hn [Hc [Hl [H8 [Hr Hft]]]]].
    assert (Hdd : f = FDec -> exists x, x < two64 /\ v = nat_enc x).
    { intros ->. apply Hd. unfold is_dec_conv. rewrite E. reflexivity. }
    destruct (fmt_rt_no f v Hft Hv Hdd) as [Hrt Hleg].
    split; [|split].
    + apply (comp_from_str_typed _ _ t f v).
      * apply legal_no; [reflexivity|exact Hl].
      * apply legal_no; [reflexivity|exact Hleg].
      * apply parse_comp_type_conv. exact E.
      * exact Ht.
      * exact Hrt.
    + rewrite !has_app. rewrite (legal_no 47 nm), (legal_no 47 _ eq_refl Hleg); [reflexivity|reflexivity|exact Hl].
    + destruct Hc as [c0 [r [-> _]]]. discriminate.
  - destruct (t =? 8) eqn:E8.
    + apply N.eqb_eq in E8. subst t. split; [|split].
      * apply comp_from_str_plain; [apply text_no; [exact Hv|reflexivity]|apply text_rt; exact Hv].
      * apply text_no; [exact Hv|reflexivity].
      * intros H. apply text_to_str_nil in H. subst. reflexivity.
    + assert (Htt : t < two64) by (unfold two64; lia).
      split; [|split].
      * apply (comp_from_str_typed _ _ t FText v).
        -- apply legal_no; [reflexivity|apply digits_legal, to_dec_all_digits].
        -- apply text_no; [exact Hv|reflexivity].
        -- apply parse_comp_type_dec. exact Htt.
        -- exact Ht.
        -- cbn [fmt_from_str]. apply text_rt. exact Hv.
      * rewrite !has_app. rewrite (legal_no 47 (to_dec t)), (text_no 47 v Hv); [reflexivity|reflexivity|reflexivity|].
        apply digits_legal, to_dec_all_digits.
      * intros H. destruct (to_dec_head t) as [c0 [r [E0 _]]]. rewrite E0 in H. discriminate.
Qed.

(* Component.CanonicalString then ComponentFromStr: no condition on numeric conventions *)
Theorem comp_canon_rt c : comp_canon_wf c ->
  comp_from_str (comp_to_canon c) = POk c /\ has 47 (comp_to_canon c) = false.
Proof.
  intros [Ht Hv]. destruct c as [t v]. cbn [ctyp cval] in *. unfold comp_to_canon. cbn [ctyp cval].
  destruct (t =? 8) eqn:E8.
  - apply N.eqb_eq in E8. subst t. split.
    + apply comp_from_str_plain; [apply text_no; [exact Hv|reflexivity]|apply text_rt; exact Hv].
    + apply text_no; [exact Hv|reflexivity].
  - assert (Htt : t < two64) by (unfold two64; lia). split.
    + apply (comp_from_str_typed _ _ t FText v).
      * apply legal_no; [reflexivity|apply digits_legal, to_dec_all_digits].
      * apply text_no; [exact Hv|reflexivity].
      * apply parse_comp_type_dec. exact Htt.
      * exact Ht.
      * cbn [fmt_from_str]. apply text_rt. exact Hv.
    + rewrite !has_app. rewrite (legal_no 47 (to_dec t)), (text_no 47 v Hv); [reflexivity|reflexivity|reflexivity|].
      apply digits_legal, to_dec_all_digits.
Qed.

(* Component.String is injective on URI-well-formed components (the engine trie and the memory store key on it) *)
Corollary comp_to_str_inj c d : comp_uri_wf c -> comp_uri_wf d -> comp_to_str c = comp_to_str d -> c = d.
Proof.
  intros Hc Hd E. destruct (comp_str_rt c Hc) as [H1 _]. destruct (comp_str_rt d Hd) as [H2 _].
  rewrite E in H1. congruence.
Qed.

Corollary comp_to_canon_inj c d : comp_canon_wf c -> comp_canon_wf d -> comp_to_canon c = comp_to_canon d -> c = d.
Proof.
  intros Hc Hd E. destruct (comp_canon_rt c Hc) as [H1 _]. destruct (comp_canon_rt d Hd) as [H2 _].
  rewrite E in H1. congruence.
Qed.

(* ... and not injective without the shortest-form condition *)
Lemma comp_to_str_not_injective : exists c d, c <> d /\ ctyp c = ctyp d /\ comp_to_str c = comp_to_str d.
Proof. exists (mkc 50 [0; 5]), (mkc 50 [5]). split; [discriminate|]. split; vm_compute; reflexivity. Qed.

(* ---------- splitting at '/' ---------- *)
Definition joined (l : list str) : str := concat (map (fun s => 47 :: s) l).

Lemma split_on_nosep sep s : forall rest cur, has sep s = false ->
  split_on sep (s ++ rest) cur = split_on sep rest (rev s ++ cur).
Proof.
  unfold has. induction s as [|c s IH]; intros rest cur H; [reflexivity|].
  cbn [existsb] in H. apply orb_false_iff in H as [H1 H2].
  cbn [app split_on]. rewrite H1. rewrite IH by exact H2. cbn [rev]. rewrite <- app_assoc. reflexivity.
Qed.

Lemma split_on_joined l : forall s cur, has 47 s = false -> Forall (fun x => has 47 x = false) l ->
  split_on 47 (s ++ joined l) cur = (rev cur ++ s) :: l.
Proof.
  induction l as [|t l IH]; intros s cur Hs Hl.
  - unfold joined. cbn [map concat]. rewrite split_on_nosep by exact Hs. cbn [split_on].
    rewrite rev_app_distr, rev_involutive. reflexivity.
  - inversion Hl as [|? ? Ht Hl']; subst. unfold joined. cbn [map concat]. fold (joined l).
    rewrite split_on_nosep by exact Hs. cbn [app split_on]. change (47 =? 47) with true. cbv iota.
    rewrite rev_app_distr, rev_involutive. f_equal.
    rewrite IH by assumption. reflexivity.
Qed.

Lemma split_on_joined0 l : Forall (fun x => has 47 x = false) l -> split_on 47 (joined l) [] = [] :: l.
Proof. intros H. exact (split_on_joined l [] [] eq_refl H). Qed.

Lemma joined_app a b : joined (a ++ b) = joined a ++ joined b.
Proof. unfold joined. rewrite map_app, concat_app. reflexivity. Qed.

Lemma comps_from_strs_rt n : uri_wf n -> comps_from_strs (map comp_to_str n) = POk n.
Proof.
  induction 1 as [|c n Hc Hn IH]; [reflexivity|]. cbn [map comps_from_strs].
  destruct (comp_str_rt c Hc) as [-> _]. rewrite IH. reflexivity.
Qed.

Lemma strs_noslash n : uri_wf n -> Forall (fun x => has 47 x = false) (map comp_to_str n).
Proof.
  induction 1 as [|c n Hc Hn IH]; [constructor|]. cbn [map]. constructor; [|exact IH].
  destruct (comp_str_rt c Hc) as [_ [H _]]. exact H.
Qed.

Definition trailing (n : name) : bool :=
  let l := last n (mkc 0 []) in (ctyp l =? 8) && (length (cval l) =? 0)%nat.

Lemma name_to_str_eq n : n <> [] ->
  name_to_str n = joined (map comp_to_str n ++ (if trailing n then [[]] else [])).
Proof.
  intros Hne. destruct n as [|c0 n0]; [congruence|]. unfold name_to_str, trailing.
  set (n := c0 :: n0). cbv zeta.
  assert (Hbody : concat (map (fun c => 47 :: comp_to_str c) n) = joined (map comp_to_str n)).
  { unfold joined. rewrite map_map. reflexivity. }
  rewrite Hbody. destruct ((ctyp (last n (mkc 0 [])) =? 8) && (length (cval (last n (mkc 0 []))) =? 0)%nat).
  - rewrite joined_app. reflexivity.
  - rewrite app_nil_r. reflexivity.
Qed.

(* Name.String then NameFromStr *)
Theorem name_str_rt n : uri_wf n -> name_from_str (name_to_str n) = POk n.
Proof.
  intros Hwf. destruct (list_eq_dec (fun c d : comp => ltac:(decide equality; [apply (list_eq_dec N.eq_dec)|apply N.eq_dec])) n []) as [->|Hne];
    [vm_compute; reflexivity|].
  rewrite name_to_str_eq by exact Hne.
  destruct (exists_last Hne) as [n' [cl Hn]].
  assert (Hlast : last n (mkc 0 []) = cl) by (rewrite Hn; apply last_last).
  pose proof (strs_noslash n Hwf) as Hns.
  assert (Hcl : comp_uri_wf cl).
  { unfold uri_wf in Hwf. rewrite Hn in Hwf. apply Forall_app in Hwf as [_ Hwf]. inversion Hwf; assumption. }
  unfold name_from_str.
  destruct (trailing n) eqn:Etr.
  - (* trailing empty generic component: one more "/" is printed, and the parser removes exactly one empty string *)
    rewrite split_on_joined0 by (apply Forall_app; split; [exact Hns|repeat constructor]).
    cbn [length Nat.eqb]. rewrite rev_app_distr. cbn [rev app length Nat.eqb].
    rewrite rev_involutive. apply comps_from_strs_rt. exact Hwf.
  - rewrite app_nil_r. rewrite split_on_joined0 by exact Hns.
    cbn [length Nat.eqb].
    assert (Hrev : rev (map comp_to_str n) = comp_to_str cl :: rev (map comp_to_str n')).
    { rewrite Hn, map_app, rev_app_distr. reflexivity. }
    rewrite Hrev.
    assert (Hnz : (length (comp_to_str cl) =? 0)%nat = false).
    { destruct (comp_to_str cl) eqn:Es; [|reflexivity].
      destruct (comp_str_rt cl Hcl) as [_ [_ Hnil]]. unfold trailing in Etr. rewrite Hlast, (Hnil Es) in Etr. discriminate. }
    rewrite Hnz. apply comps_from_strs_rt. exact Hwf.
Qed.

(* ---------- what the parser returns is always in the round-trip domain (so parse . print . parse = parse) ---------- *)
Lemma text_from_str_fuel_ok f : forall s v, bytes_ok s -> text_from_str_fuel f s = Some v -> bytes_ok v.
Proof.
  induction f as [|f IH]; intros s v Hs; [discriminate|]. cbn [text_from_str_fuel].
  destruct s as [|c r]; [intros H; inversion H; constructor|].
  inversion Hs as [|? ? Hc Hr]; subst.
  destruct (is_legal c).
  { destruct (text_from_str_fuel f r) eqn:E; [|discriminate]. intros H; inversion H; subst.
    constructor; [exact Hc|eapply IH; eauto]. }
  destruct (c =? 37).
  { destruct r as [|a [|b r']]; try discriminate.
    destruct (hex_pair a b) eqn:Eh; [|discriminate].
    destruct (text_from_str_fuel f r') eqn:E; [|discriminate]. intros H; inversion H; subst.
    constructor; [eapply hex_pair_bound; eauto|].
    inversion Hr as [|? ? _ Hr1]; subst. inversion Hr1; subst. eapply IH; eauto. }
  destruct (is_special c); [discriminate|].
  destruct (text_from_str_fuel f r) eqn:E; [|discriminate]. intros H; inversion H; subst.
  constructor; [exact Hc|eapply IH; eauto].
Qed.

Lemma text_from_str_ok s v : bytes_ok s -> text_from_str s = Some v -> bytes_ok v.
Proof.
  unfold text_from_str. intros Hs. destruct (existsb is_special s).
  - apply text_from_str_fuel_ok. exact Hs.
  - intros H; inversion H; subst. exact Hs.
Qed.

Lemma hex_from_str_fuel_ok f : forall s v, hex_from_str_fuel f s = Some v -> bytes_ok v.
Proof.
  induction f as [|f IH]; intros s v; [discriminate|]. cbn [hex_from_str_fuel].
  destruct s as [|a [|b r]]; try discriminate; [intros H; inversion H; constructor|].
  destruct (hex_pair a b) eqn:Eh; [|discriminate].
  destruct (hex_from_str_fuel f r) eqn:E; [|discriminate]. intros H; inversion H; subst.
  constructor; [eapply hex_pair_bound; eauto|eapply IH; eauto].
Qed.

Lemma of_dec_acc_bound s : forall acc v, acc < two64 -> of_dec_acc acc s = Some v -> v < two64.
Proof.
  induction s as [|c r IH]; intros acc v Ha; cbn [of_dec_acc]; [intros H; inversion H; subst; exact Ha|].
  destruct (is_digit c); [|discriminate].
  destruct (two64 <=? acc * 10 + (c - 48)) eqn:E; [discriminate|]. apply IH. lia.
Qed.

Lemma of_dec_bound s v : of_dec s = Some v -> v < two64.
Proof. unfold of_dec. destruct s; [discriminate|]. apply of_dec_acc_bound. reflexivity. Qed.

Lemma nat_enc_ok x : bytes_ok (nat_enc x).
Proof. apply be_ok. Qed.

Lemma split_first_eq_ok s : forall pre ts vs, bytes_ok s -> split_first_eq s pre = (ts, vs) -> bytes_ok vs.
Proof.
  induction s as [|x s IH]; intros pre ts vs Hs; cbn [split_first_eq].
  - intros H; inversion H; constructor.
  - inversion Hs; subst. destruct (x =? 61); [intros H; inversion H; subst; assumption|]. apply IH. assumption.
Qed.

(* whatever ComponentFromStr returns is in the domain of the CanonicalString round trip *)
Lemma comp_from_str_canon_wf s c : bytes_ok s -> comp_from_str s = POk c -> comp_canon_wf c.
Proof.
  intros Hs. unfold comp_from_str. destruct (count_eq s) as [|[|k]]; try discriminate.
  - destruct (text_from_str s) eqn:E; [|discriminate]. intros H; inversion H; subst.
    split; [cbn; lia|]. eapply text_from_str_ok; eauto.
  - destruct (split_first_eq s []) as [ts vs] eqn:Esp.
    pose proof (split_first_eq_ok s [] ts vs Hs Esp) as Hvs.
    destruct (parse_comp_type ts) as [[t f]| |] eqn:Ep; try discriminate.
    destruct ((t =? 0) || (65535 <? t)) eqn:Er; [discriminate|].
    destruct (fmt_from_str f vs) eqn:Ef; [|discriminate]. intros H; inversion H; subst. clear H.
    split; [cbn; lia|]. cbn [ctyp cval].
    destruct f; cbn [fmt_from_str] in Ef.
    + eapply text_from_str_ok; eauto.
    + unfold dec_from_str in Ef. destruct (of_dec vs); [|discriminate]. inversion Ef; subst. apply nat_enc_ok.
    + eapply hex_from_str_fuel_ok; exact Ef.
Qed.

Theorem canon_parse_stable s c : bytes_ok s -> comp_from_str s = POk c -> comp_from_str (comp_to_canon c) = POk c.
Proof. intros Hs H. apply comp_canon_rt. eapply comp_from_str_canon_wf; eauto. Qed.

(* ... but the result need not be in the domain of the String round trip: a decimal type string selects the text
   format even for a convention type, so "50=%00%05" is type 50 with the non-shortest value 00 05, which prints as
   "seg=5" and parses back as the different component 50:[05]. *)
Lemma parse_print_parse_not_stable : exists s c, comp_from_str s = POk c /\ comp_from_str (comp_to_str c) <> POk c.
Proof. exists [53;48;61;37;48;48;37;48;53], (mkc 50 [0;5]). split; [vm_compute; reflexivity|vm_compute; discriminate]. Qed.
