(* Property C14 — name order, equality, prefix, hash and URI form are mutually consistent.
   Only theorem statements closed by `exact`, each followed by Print Assumptions. *)
From Names Require Import Model Order Uri.
Open Scope N_scope.

(* Comparison is a total order ... *)
Theorem compare_total_order :
  (forall a, name_cmp a a = Eq) /\
  (forall a b, name_cmp b a = CompOpp (name_cmp a b)) /\
  (forall a b c, name_cmp a b = Lt -> name_cmp b c = Lt -> name_cmp a c = Lt) /\
  (forall a b, name_cmp a b = Eq -> a = b).
Proof. exact (conj name_cmp_refl (conj name_cmp_antisym (conj name_cmp_trans name_cmp_eq))). Qed.
Print Assumptions compare_total_order.

(* ... that coincides with NDN canonical order (type, then value length, then value bytes; a proper prefix first) *)
Theorem compare_is_canonical : forall a b, name_cmp a b = Lt <-> canon_lt a b.
Proof. exact name_cmp_lt. Qed.
Print Assumptions compare_is_canonical.

(* Equality coincides with equality of encodings (and with the Equal method and Compare = 0) *)
Theorem compare_eq_iff_encoding_eq : forall a b, name_wf a -> name_wf b ->
  (name_bytes a = name_bytes b <-> a = b) /\ (name_eqb a b = true <-> a = b) /\ (name_cmp a b = Eq <-> a = b).
Proof.
  exact (fun a b Ha Hb =>
    conj (conj (name_bytes_inj a b Ha Hb) (fun e => f_equal name_bytes e))
   (conj (name_eqb_spec a b)
         (conj (name_cmp_eq a b) (fun e => eq_ind_r (fun x => name_cmp x b = Eq) (name_cmp_refl b) e)))).
Qed.
Print Assumptions compare_eq_iff_encoding_eq.

Theorem name_bytes_roundtrip : forall n, name_wf n -> name_from_bytes (name_bytes n) = Some n.
Proof. exact name_from_bytes_enc. Qed.
Print Assumptions name_bytes_roundtrip.

(* The prefix relation agrees with equality and order *)
Theorem prefix_laws : forall a b,
  (is_prefix a b = true <-> exists c, b = a ++ c) /\ (is_prefix a b = true -> name_cmp a b <> Gt).
Proof. exact (fun a b => conj (is_prefix_spec a b) (prefix_cmp_le a b)). Qed.
Print Assumptions prefix_laws.

(* Hashes: the hasher is an arbitrary function H of the bytes fed to it. Equal names feed equal bytes, and the
   i-th prefix hash is the hash of the i-component prefix. *)
Theorem hash_coherent : forall (H : bytes -> N) (n : name) (i : nat), (i <= length n)%nat ->
  H (nth i (prefix_inputs n) []) = H (name_hash_input (firstn i n)).
Proof. exact (fun H n i Hi => f_equal H (prefix_inputs_from_nth n [] i Hi)). Qed.
Print Assumptions hash_coherent.

(* Parsing never panics on any string *)
Theorem parse_total : forall s, name_from_str s <> PPanic.
Proof. exact name_from_str_nopanic. Qed.
Print Assumptions parse_total.

(* non-vacuity *)
Example c14_example :
  name_wf [mkc 8 [97]; mkc 50 [1;0]] /\ name_cmp [mkc 8 [97]] [mkc 8 [97]; mkc 50 [1;0]] = Lt /\
  name_from_str [47;97;47;115;101;103;61;50;53;54] = POk [mkc 8 [97]; mkc 50 [1;0]].
Proof. split; [split; [repeat constructor|vm_compute; reflexivity]|split; vm_compute; reflexivity]. Qed.
