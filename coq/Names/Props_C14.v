(* Property C14 — name order, equality, prefix, hash and URI form are mutually consistent.
   Only theorem statements closed by `exact`, each followed by Print Assumptions. *)
From Names Require Import Model Order Uri FastOk Dec UriRt Wire Spec SpecOk.
Open Scope N_scope.

(* Comparison is a total order ... *)
Theorem compare_total_order :
  (forall a, name_cmp a a = Eq) /\
  (forall a b, name_cmp b a = CompOpp (name_cmp a b)) /\
  (forall a b c, name_cmp a b = Lt -> name_cmp b c = Lt -> name_cmp a c = Lt) /\
  (forall a b, name_cmp a b = Eq -> a = b).
Proof. exact (conj name_cmp_refl (conj name_cmp_antisym (conj name_cmp_trans name_cmp_eq))). Qed.
Print Assumptions compare_total_order.

(* ... that coincides with NDN canonical order (type, then value length, then value bytes; a proper prefix first) *)
Theorem compare_is_canonical : forall a b, name_cmp a b = Lt <-> canon_lt a b.
Proof. exact name_cmp_lt. Qed.
Print Assumptions compare_is_canonical.

(* Equality coincides with equality of encodings (and with the Equal method and Compare = 0) *)
Theorem compare_eq_iff_encoding_eq : forall a b, name_wf a -> name_wf b ->
  (name_bytes a = name_bytes b <-> a = b) /\ (name_eqb a b = true <-> a = b) /\ (name_cmp a b = Eq <-> a = b).
Proof.
  exact (fun a b Ha Hb =>
    conj (conj (name_bytes_inj a b Ha Hb) (fun e => f_equal name_bytes e))
   (conj (name_eqb_spec a b)
         (conj (name_cmp_eq a b) (fun e => eq_ind_r (fun x => name_cmp x b = Eq) (name_cmp_refl b) e)))).
Qed.
Print Assumptions compare_eq_iff_encoding_eq.

Theorem name_bytes_roundtrip : forall n, name_wf n -> name_from_bytes (name_bytes n) = Some n.
Proof. exact name_from_bytes_enc. Qed.
Print Assumptions name_bytes_roundtrip.

(* The prefix relation agrees with equality and order *)
Theorem prefix_laws : forall a b,
  (is_prefix a b = true <-> exists c, b = a ++ c) /\ (is_prefix a b = true -> name_cmp a b <> Gt).
Proof. exact (fun a b => conj (is_prefix_spec a b) (prefix_cmp_le a b)). Qed.
Print Assumptions prefix_laws.

(* Hashes: the hasher is an arbitrary function H of the bytes fed to it. Equal names feed equal bytes, and the
   i-th prefix hash is the hash of the i-component prefix. *)
Theorem hash_coherent : forall (H : bytes -> N) (n : name) (i : nat), (i <= length n)%nat ->
  H (nth i (prefix_inputs n) []) = H (name_hash_input (firstn i n)).
Proof. exact (fun H n i Hi => f_equal H (prefix_inputs_from_nth n [] i Hi)). Qed.
Print Assumptions hash_coherent.

(* Parsing never panics on any string *)
Theorem parse_total : forall s, name_from_str s <> PPanic.
Proof. exact name_from_str_nopanic. Qed.
Print Assumptions parse_total.

(* ... also for single components and for the pattern parsers (ComponentFromStr, ComponentPatternFromStr,
   NamePatternFromStr); every unchecked indexing/slicing of the Go code is a PPanic branch of the model *)
Theorem parse_total_all : forall s,
  name_from_str s <> PPanic /\ comp_from_str s <> PPanic /\
  comp_pattern_from_str s <> PPanic /\ name_pattern_from_str s <> PPanic.
Proof.
  exact (fun s => conj (name_from_str_nopanic s) (conj (comp_from_str_nopanic s)
                 (conj (comp_pattern_from_str_nopanic s) (name_pattern_from_str_nopanic s)))).
Qed.
Print Assumptions parse_total_all.

(* the guard added by /repo commit 2e94774 is needed: without it the model of NamePatternFromStr panics on "" *)
Theorem pattern_parse_unguarded_refuted : exists s, name_pattern_from_str_unguarded s = PPanic.
Proof. exact (ex_intro _ [] name_pattern_unguarded_panics). Qed.
Print Assumptions pattern_parse_unguarded_refuted.

(* Converting to a URI string and parsing back returns the same name for every name whose component types lie in
   1..65535 and whose numeric-convention components are in shortest form.
   uri_wf n = every component c has 1 <= ctyp c <= 65535, byte values, and if ctyp c is a decimal-format
   convention (50,52,54,56,58) then cval c = nat_enc x for some x < 2^64.  Value lengths are unrestricted. *)
Theorem uri_roundtrip : forall n, uri_wf n -> name_from_str (name_to_str n) = POk n.
Proof. exact name_str_rt. Qed.
Print Assumptions uri_roundtrip.

(* the decidable form of the domain used by the runner's oracle is the same predicate *)
Theorem uri_wfb_correct : forall n, uri_wfb n = true <-> uri_wf n.
Proof. exact uri_wfb_spec. Qed.
Print Assumptions uri_wfb_correct.

(* CanonicalString output is accepted by ComponentFromStr and gives the component back, with no condition on
   numeric conventions; and whatever ComponentFromStr returns is a fixed point of print-canonical-then-parse *)
Theorem canon_roundtrip :
  (forall c, comp_canon_wf c -> comp_from_str (comp_to_canon c) = POk c) /\
  (forall s c, bytes_ok s -> comp_from_str s = POk c -> comp_from_str (comp_to_canon c) = POk c).
Proof. exact (conj (fun c H => proj1 (comp_canon_rt c H)) canon_parse_stable). Qed.
Print Assumptions canon_roundtrip.

(* Component.String (the key of the engine trie and of the memory store) is injective on the round-trip domain ... *)
Theorem comp_to_str_injective_on_wf : forall c d, comp_uri_wf c -> comp_uri_wf d -> comp_to_str c = comp_to_str d -> c = d.
Proof. exact comp_to_str_inj. Qed.
Print Assumptions comp_to_str_injective_on_wf.
(* ... and not outside it: 50:[00 05] and 50:[05] both print as "seg=5" (reported in the notes; it concerns the tables
   keyed by String(), not the statement of C14, whose round trip is restricted to shortest-form components) *)
Theorem comp_to_str_injective_refuted : exists c d, c <> d /\ ctyp c = ctyp d /\ comp_to_str c = comp_to_str d.
Proof. exact comp_to_str_not_injective. Qed.
Print Assumptions comp_to_str_injective_refuted.

(* The canonical order of components (and of names) is the bytewise order of their wire encodings *)
Theorem compare_matches_wire_order :
  (forall c d, comp_wf c -> comp_wf d -> comp_cmp c d = bytes_cmp (comp_enc c) (comp_enc d)) /\
  (forall a b, Forall comp_wf a -> Forall comp_wf b -> name_cmp a b = bytes_cmp (name_inner a) (name_inner b)).
Proof. exact (conj comp_cmp_wire name_cmp_wire). Qed.
Print Assumptions compare_matches_wire_order.

(* Hash input, for ANY layout `lay` of what HashInto feeds per component: if the streams of the components considered are
   non-empty and no stream is a prefix of the stream of a different component, then the concatenated streams determine
   the name — equal hashes of different names can then only come from the 64-bit hash function, never from the input
   construction.  The same in terms of the decidable oracle evaluated on the implementation's recorded streams. *)
Theorem prefix_free_components_injective_names : forall (lay : comp -> bytes) (P : comp -> Prop),
  layout_prefix_free lay P -> layout_nonempty lay P ->
  forall a b, Forall P a -> Forall P b -> concat (map lay a) = concat (map lay b) -> a = b.
Proof. exact Wire.prefix_free_components_injective_names. Qed.
Print Assumptions prefix_free_components_injective_names.

Theorem layout_oracle_implies_injective : forall (lay : comp -> bytes) (P : comp -> Prop),
  (forall c d, P c -> P d -> layout_pair_ok c d (lay c) (lay d) = true) ->
  forall a b, Forall P a -> Forall P b -> concat (map lay a) = concat (map lay b) -> a = b.
Proof. exact layout_ok_names_injective. Qed.
Print Assumptions layout_oracle_implies_injective.

(* Instance: the layout modelled from the current code (type, 8-byte length, value) is such a layout and passes the oracle *)
Theorem hash_input_injective : forall a b : name, Forall comp_wf a -> Forall comp_wf b ->
  name_hash_input a = name_hash_input b -> a = b.
Proof. exact name_hash_input_inj. Qed.
Print Assumptions hash_input_injective.

(* The modelled instance written out (a recorded stream that differs from it is reported as a NOTE, not a violation):
   16 header bytes (8-byte big-endian type, 8-byte big-endian value length) followed by the value. *)
Theorem hash_input_layout : forall c,
  comp_hash_input c = comp_hash_header (ctyp c) (N.of_nat (length (cval c))) ++ cval c /\
  length (comp_hash_header (ctyp c) (N.of_nat (length (cval c)))) = 16%nat.
Proof. exact (fun c => conj (comp_hash_input_header c) eq_refl). Qed.
Print Assumptions hash_input_layout.

(* The value length in the hash input is needed: the input used before the /repo fix (type then raw value) is the same
   for /%00%00%00%00%00%00%00%08 and // — on the real code the Content Store then answered an Interest for the first
   name with the Data of the second (docs/C14.md, corpus/C14). *)
Theorem hash_input_without_length_refuted : exists a b : name,
  a <> b /\ Forall comp_wf a /\ Forall comp_wf b /\ name_hash_input_nolen a = name_hash_input_nolen b.
Proof. exact hash_input_nolen_not_injective. Qed.
Print Assumptions hash_input_without_length_refuted.

(* The decidable oracle predicates that the runner evaluates on the implementation's observations (Spec.v) are
   satisfied by the model's own answers: an oracle failure is therefore a genuine failure of the property on the
   implementation (or a divergence from the model), never an artefact of the predicate. *)
Theorem oracle_sound :
  (forall a b c, triple_ok (name_cmp a b) (name_cmp b c) (name_cmp a c) (name_cmp b a) (name_cmp c b) (name_cmp c a) = true) /\
  (forall a b, name_wf a -> name_wf b ->
     pair_ok (name_cmp a b) (name_eqb a b) (is_prefix a b) (is_prefix b a) (name_bytes a) (name_bytes b) true = true) /\
  (forall c d, comp_wf c -> comp_wf d -> comp_ok (comp_cmp c d) (comp_eqb c d) (comp_enc c) (comp_enc d) = true) /\
  (forall c d, comp_wf c -> comp_wf d -> layout_pair_ok c d (comp_hash_input c) (comp_hash_input d) = true) /\
  (forall n, name_wf n -> brt_ok n (name_from_bytes (name_bytes n)) = true) /\
  (forall n, rt_ok n (name_from_str (name_to_str n)) = true) /\
  (forall c, crt_ok c (comp_from_str (comp_to_str c)) (comp_from_str (comp_to_canon c)) = true).
Proof. exact (conj model_triple_ok (conj model_pair_ok (conj model_comp_ok (conj model_layout_pair_ok (conj model_brt_ok (conj model_rt_ok model_crt_ok)))))). Qed.
Print Assumptions oracle_sound.

(* The runner executes linear-time variants of the three parsers (List.rev is quadratic); they are the same functions. *)
Theorem runner_parsers_equal : forall s,
  name_from_str_f s = name_from_str s /\ comp_pattern_from_str_f s = comp_pattern_from_str s /\
  name_pattern_from_str_f s = name_pattern_from_str s.
Proof. exact (fun s => conj (name_from_str_f_eq s) (conj (comp_pattern_from_str_f_eq s) (name_pattern_from_str_f_eq s))). Qed.
Print Assumptions runner_parsers_equal.

(* non-vacuity *)
Example c14_example_uri :
  uri_wf [mkc 8 [97; 47; 37]; mkc 8 []; mkc 50 [1;0]; mkc 1 [171]; mkc 300 [46]; mkc 8 []] /\
  name_to_str [mkc 8 [97; 47; 37]; mkc 8 []; mkc 50 [1;0]; mkc 1 [171]; mkc 300 [46]; mkc 8 []]
    = [47;97;37;50;70;37;50;53; 47; 47;115;101;103;61;50;53;54; 47;115;104;97;50;53;54;100;105;103;101;115;116;61;97;98; 47;51;48;48;61;46; 47; 47].
Proof. split; [apply uri_wfb_spec; vm_compute; reflexivity|vm_compute; reflexivity]. Qed.

Example c14_example :
  name_wf [mkc 8 [97]; mkc 50 [1;0]] /\ name_cmp [mkc 8 [97]] [mkc 8 [97]; mkc 50 [1;0]] = Lt /\
  name_from_str [47;97;47;115;101;103;61;50;53;54] = POk [mkc 8 [97]; mkc 50 [1;0]].
Proof. split; [split; [repeat constructor|vm_compute; reflexivity]|split; vm_compute; reflexivity]. Qed.
