(* Names/Wire.v — the canonical order is the bytewise order of the wire encodings (minimal TLNum encodings are
   order preserving and prefix free), and the hash input does not delimit components. *)
From Names Require Import Model Order.
From Coq Require Import ZifyBool ZifyN ZifyNat.
Open Scope N_scope.

(* "a sorts strictly before b whatever follows": the comparison is decided inside a and b *)
Definition dec_lt (a b : bytes) : Prop := forall x y, bytes_cmp (a ++ x) (b ++ y) = Lt.

Lemma bytes_cmp_app_same p : forall a b, bytes_cmp (p ++ a) (p ++ b) = bytes_cmp a b.
Proof. induction p as [|x p IH]; intros a b; [reflexivity|]. cbn [app bytes_cmp]. rewrite N.compare_refl. apply IH. Qed.

Lemma dec_lt_prefix p a b : dec_lt a b -> dec_lt (p ++ a) (p ++ b).
Proof. intros H x y. rewrite <- !app_assoc. rewrite bytes_cmp_app_same. apply H. Qed.

Lemma dec_lt_app a b a' b' : dec_lt a b -> dec_lt (a ++ a') (b ++ b').
Proof. intros H x y. rewrite <- !app_assoc. apply H. Qed.

Lemma dec_lt_hd x y a b : x < y -> dec_lt (x :: a) (y :: b).
Proof. intros H u v. cbn [app bytes_cmp]. replace (x ?= y) with Lt by (symmetry; apply N.compare_lt_iff; exact H). reflexivity. Qed.

(* equal-length values: bytes_cmp is decided inside *)
Lemma bytes_cmp_same_len_dec a : forall b, length a = length b -> bytes_cmp a b = Lt -> dec_lt a b.
Proof.
  induction a as [|x a IH]; intros [|y b] Hl H; try discriminate.
  cbn [length] in Hl. cbn [bytes_cmp] in H. destruct (x ?= y) eqn:E; try discriminate.
  - apply N.compare_eq in E. subst. apply (dec_lt_prefix [y]). apply IH; [lia|exact H].
  - apply dec_lt_hd. apply (proj1 (N.compare_lt_iff _ _)). exact E.
Qed.

(* fixed-width big-endian numbers are order preserving *)
Lemma be_S k n : be (S k) n = (n / 256 ^ N.of_nat k) mod 256 :: be k n.
Proof. reflexivity. Qed.

Lemma be_mod k : forall n, be k (n mod 256 ^ N.of_nat k) = be k n.
Proof.
  induction k as [|k IH]; intros n; [reflexivity|]. rewrite !be_S.
  assert (Hp : 256 ^ N.of_nat (S k) = 256 * 256 ^ N.of_nat k) by (rewrite Nat2N.inj_succ, N.pow_succ_r'; reflexivity).
  set (P := 256 ^ N.of_nat k) in *. assert (HP : 0 < P) by (subst P; apply N.neq_0_lt_0, N.pow_nonzero; lia).
  rewrite Hp. f_equal.
  - (* digit k of n mod 256P is digit k of n *)
    rewrite N.mul_comm. rewrite N.mod_mul_r by lia.
    rewrite N.mul_comm, N.div_add by lia. rewrite (N.div_small (n mod P) P) by (apply N.mod_lt; lia).
    rewrite N.add_0_l. apply N.mod_mod. lia.
  - rewrite <- (IH (n mod (256 * P))), <- (IH n). f_equal.
    rewrite N.mul_comm. rewrite N.mod_mul_r by lia.
    rewrite N.mul_comm, N.mod_add by lia. apply N.mod_mod. lia.
Qed.

Lemma be_lt k : forall a b, a < b -> b < 256 ^ N.of_nat k -> dec_lt (be k a) (be k b).
Proof.
  induction k as [|k IH]; intros a b Hab Hb.
  - change (256 ^ N.of_nat 0) with 1 in Hb. lia.
  - rewrite !be_S.
    assert (Hp : 256 ^ N.of_nat (S k) = 256 * 256 ^ N.of_nat k) by (rewrite Nat2N.inj_succ, N.pow_succ_r'; reflexivity).
    set (P := 256 ^ N.of_nat k) in *. assert (HP : 0 < P) by (subst P; apply N.neq_0_lt_0, N.pow_nonzero; lia).
    rewrite Hp in Hb.
    assert (Ha' : a / P < 256) by (apply N.div_lt_upper_bound; lia).
    assert (Hb' : b / P < 256) by (apply N.div_lt_upper_bound; lia).
    rewrite !N.mod_small by assumption.
    assert (Hle : a / P <= b / P) by (apply N.div_le_mono; lia).
    destruct (N.eq_dec (a / P) (b / P)) as [Heq|Hne].
    + rewrite Heq. apply (dec_lt_prefix [b / P]).
      rewrite <- (be_mod k a), <- (be_mod k b). fold P. apply IH.
      * pose proof (N.div_mod' a P) as Da. pose proof (N.div_mod' b P) as Db. rewrite Heq in Da. lia.
      * apply N.mod_lt. lia.
    + apply dec_lt_hd. lia.
Qed.

(* minimal TLNum encodings: order preserving and decided inside (hence prefix free) *)
Theorem tl_enc_lt a b : a < b -> b < two64 -> dec_lt (tl_enc a) (tl_enc b).
Proof.
  intros Hab Hb. unfold tl_enc, two64 in *.
  destruct (a <=? 252) eqn:A1.
  { destruct (b <=? 252) eqn:B1; [apply dec_lt_hd; lia|].
    destruct (b <=? 65535); [apply dec_lt_hd; lia|]. destruct (b <=? 4294967295); apply dec_lt_hd; lia. }
  replace (b <=? 252) with false by lia.
  destruct (a <=? 65535) eqn:A2.
  { destruct (b <=? 65535) eqn:B2.
    - apply (dec_lt_prefix [253]). apply be_lt; [exact Hab|]. change (256 ^ N.of_nat 2) with 65536. lia.
    - destruct (b <=? 4294967295); apply dec_lt_hd; lia. }
  replace (b <=? 65535) with false by lia.
  destruct (a <=? 4294967295) eqn:A3.
  { destruct (b <=? 4294967295) eqn:B3.
    - apply (dec_lt_prefix [254]). apply be_lt; [exact Hab|]. change (256 ^ N.of_nat 4) with 4294967296. lia.
    - apply dec_lt_hd; lia. }
  replace (b <=? 4294967295) with false by lia.
  apply (dec_lt_prefix [255]). apply be_lt; [exact Hab|]. change (256 ^ N.of_nat 8) with 18446744073709551616. lia.
Qed.

(* ---------- components ---------- *)
Lemma comp_cmp_lt_dec c d : comp_wf c -> comp_wf d -> comp_cmp c d = Lt -> dec_lt (comp_enc c) (comp_enc d).
Proof.
  intros [Hc1 Hc2] [Hd1 Hd2]. unfold comp_cmp, comp_enc.
  destruct (ctyp c ?= ctyp d) eqn:Et; try discriminate.
  - apply N.compare_eq in Et. rewrite Et.
    destruct (Nat.compare (length (cval c)) (length (cval d))) eqn:El; try discriminate.
    + apply Nat.compare_eq in El. rewrite El. intros H.
      apply dec_lt_prefix, dec_lt_prefix. apply bytes_cmp_same_len_dec; assumption.
    + apply (proj1 (Nat.compare_lt_iff _ _)) in El. intros _. apply dec_lt_prefix.
      apply dec_lt_app. apply tl_enc_lt; lia.
  - apply (proj1 (N.compare_lt_iff _ _)) in Et. intros _. apply dec_lt_app. apply tl_enc_lt; lia.
Qed.

Theorem comp_cmp_wire c d : comp_wf c -> comp_wf d -> comp_cmp c d = bytes_cmp (comp_enc c) (comp_enc d).
Proof.
  intros Hc Hd. destruct (comp_cmp c d) eqn:E.
  - apply comp_cmp_eq in E. subst. symmetry. apply bytes_cmp_refl.
  - pose proof (comp_cmp_lt_dec c d Hc Hd E [] []) as H. rewrite !app_nil_r in H. symmetry. exact H.
  - assert (E' : comp_cmp d c = Lt) by (rewrite comp_cmp_antisym, E; reflexivity).
    pose proof (comp_cmp_lt_dec d c Hd Hc E' [] []) as H. rewrite !app_nil_r in H.
    rewrite bytes_cmp_antisym, H. reflexivity.
Qed.

(* ---------- names: canonical order = bytewise order of the concatenated component encodings ---------- *)
Lemma comp_enc_nonnil c : comp_enc c <> [].
Proof. pose proof (comp_enc_length_pos c). destruct (comp_enc c); [cbn in *; lia|discriminate]. Qed.

Lemma name_cmp_lt_wire a : forall b, Forall comp_wf a -> Forall comp_wf b -> name_cmp a b = Lt ->
  bytes_cmp (name_inner a) (name_inner b) = Lt.
Proof.
  unfold name_inner. induction a as [|c a IH]; intros [|d b] Ha Hb H; try discriminate.
  - cbn [map concat]. pose proof (comp_enc_nonnil d). destruct (comp_enc d) eqn:E; [congruence|reflexivity].
  - inversion Ha; subst. inversion Hb; subst. cbn [name_cmp] in H. cbn [map concat].
    destruct (comp_cmp c d) eqn:E; try discriminate.
    + apply comp_cmp_eq in E. subst. rewrite bytes_cmp_app_same. apply IH; assumption.
    + apply comp_cmp_lt_dec; assumption.
Qed.

Theorem name_cmp_wire a b : Forall comp_wf a -> Forall comp_wf b ->
  name_cmp a b = bytes_cmp (name_inner a) (name_inner b).
Proof.
  intros Ha Hb. destruct (name_cmp a b) eqn:E.
  - apply name_cmp_eq in E. subst. symmetry. apply bytes_cmp_refl.
  - symmetry. apply name_cmp_lt_wire; assumption.
  - assert (E' : name_cmp b a = Lt) by (rewrite name_cmp_antisym, E; reflexivity).
    rewrite bytes_cmp_antisym, (name_cmp_lt_wire b a Hb Ha E'). reflexivity.
Qed.

(* the outer Name TLV (type 7 + total length) does NOT preserve the order: a longer name can sort first canonically
   but its larger length byte makes its full encoding sort later *)
Lemma name_bytes_order_differs : exists a b, name_cmp a b = Lt /\ bytes_cmp (name_bytes a) (name_bytes b) = Gt.
Proof. exists [mkc 8 [1]; mkc 8 [1]], [mkc 8 [2]]. split; vm_compute; reflexivity. Qed.

(* ---------- hash input ---------- *)
Lemma app_eq_len {A} (a : list A) : forall a' b b', length a = length a' -> a ++ b = a' ++ b' -> a = a' /\ b = b'.
Proof.
  induction a as [|x a IH]; intros [|y a'] b b' Hl H; try discriminate; [auto|].
  cbn [app] in H. inversion H; subst. destruct (IH a' b b') as [-> ->]; [cbn in Hl; lia|assumption|auto].
Qed.

Lemma be8_inj x y : x < two64 -> y < two64 -> be 8 x = be 8 y -> x = y.
Proof.
  intros Hx Hy H. rewrite <- (be_val_be 8 x), <- (be_val_be 8 y); [congruence| |];
    change (256 ^ N.of_nat 8) with 18446744073709551616; unfold two64 in *; lia.
Qed.

Lemma comp_hash_input_header c :
  comp_hash_input c = comp_hash_header (ctyp c) (N.of_nat (length (cval c))) ++ cval c.
Proof. unfold comp_hash_input, comp_hash_header. rewrite <- app_assoc. reflexivity. Qed.

(* HashInto feeds type, value length, value: the input of a component is self-delimiting ... *)
Lemma comp_hash_input_prefix_free c d r r' : comp_wf c -> comp_wf d ->
  comp_hash_input c ++ r = comp_hash_input d ++ r' -> c = d /\ r = r'.
Proof.
  intros [Hc1 Hc2] [Hd1 Hd2]. unfold comp_hash_input. rewrite <- !app_assoc. intros H.
  apply app_eq_len in H as [H1 H]; [|rewrite !be_length; reflexivity].
  apply app_eq_len in H as [H2 H]; [|rewrite !be_length; reflexivity].
  apply be8_inj in H1; [|assumption|assumption]. apply be8_inj in H2; [|assumption|assumption].
  apply Nat2N.inj in H2. apply app_eq_len in H as [H3 H4]; [|exact H2].
  split; [destruct c, d; cbn in *; congruence|exact H4].
Qed.

(* ---------- any layout: prefix-free, non-empty component streams make the name stream injective ---------- *)
Section Layout.
  Variable lay : comp -> bytes.          (* what HashInto feeds for one component, whatever the layout *)
  Variable P : comp -> Prop.             (* the components considered *)
  Definition layout_prefix_free : Prop := forall c d r, P c -> P d -> lay d = lay c ++ r -> c = d.
  Definition layout_nonempty : Prop := forall c, P c -> lay c <> [].

  Theorem prefix_free_components_injective_names :
    layout_prefix_free -> layout_nonempty ->
    forall a b, Forall P a -> Forall P b -> concat (map lay a) = concat (map lay b) -> a = b.
  Proof.
    intros Hpf Hne. induction a as [|c a IH]; intros [|d b] Ha Hb H; cbn [map concat] in H.
    - reflexivity.
    - exfalso. inversion Hb; subst. symmetry in H. apply app_eq_nil in H as [H _]. eapply Hne; eauto.
    - exfalso. inversion Ha; subst. apply app_eq_nil in H as [H _]. eapply Hne; eauto.
    - inversion Ha; subst. inversion Hb; subst.
      assert (c = d).
      { apply app_eq_app in H as [l [[H1 _]|[H1 _]]].
        - symmetry. eapply Hpf; [| |exact H1]; assumption.
        - eapply Hpf; [| |exact H1]; assumption. }
      subst d. apply app_inv_head in H. f_equal. apply IH; assumption.
  Qed.
End Layout.

(* the modelled layout (type, length, value) is such a layout ... *)
Lemma comp_hash_input_layout_ok :
  layout_prefix_free comp_hash_input comp_wf /\ layout_nonempty comp_hash_input comp_wf.
Proof.
  split.
  - intros c d r Hc Hd H. assert (H' : comp_hash_input c ++ r = comp_hash_input d ++ []) by (rewrite app_nil_r; congruence).
    apply comp_hash_input_prefix_free in H' as [E _]; assumption.
  - intros c _. unfold comp_hash_input. cbn [be app]. discriminate.
Qed.

(* ... so different well-formed names never feed the same bytes to the hasher *)
Theorem name_hash_input_inj a b : Forall comp_wf a -> Forall comp_wf b ->
  name_hash_input a = name_hash_input b -> a = b.
Proof.
  destruct comp_hash_input_layout_ok as [H1 H2].
  exact (prefix_free_components_injective_names comp_hash_input comp_wf H1 H2 a b).
Qed.

(* Without the length (the code before the fix) component boundaries were not delimited: two different well-formed
   names fed identical bytes, hence had the same 64-bit hash whatever the hash function. *)
Lemma hash_input_nolen_not_injective : exists a b : name,
  a <> b /\ Forall comp_wf a /\ Forall comp_wf b /\ name_hash_input_nolen a = name_hash_input_nolen b.
Proof.
  exists [mkc 8 [0;0;0;0;0;0;0;8]], [mkc 8 []; mkc 8 []].
  split; [discriminate|]. split; [repeat constructor; vm_compute; reflexivity|].
  split; [repeat constructor; vm_compute; reflexivity|]. vm_compute. reflexivity.
Qed.
