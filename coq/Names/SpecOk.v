(* Names/SpecOk.v — the model's answers satisfy the oracle predicates of Spec.v (so an implementation that agrees
   with the model passes the oracle, and an oracle failure on the implementation is a real property failure). *)
From Names Require Import Model Order Uri Dec UriRt Wire Spec.
From Coq Require Import ZifyBool ZifyN ZifyNat.
Open Scope N_scope.

Lemma cmp_eqb_spec x y : cmp_eqb x y = true <-> x = y.
Proof. destruct x, y; cbn; split; congruence. Qed.
Lemma cmp_eqb_refl x : cmp_eqb x x = true.
Proof. destruct x; reflexivity. Qed.

Lemma name_cmp_eq_iff a b : name_cmp a b = Eq <-> a = b.
Proof. split; [apply name_cmp_eq|intros ->; apply name_cmp_refl]. Qed.

Lemma cle_name_trans a b c : name_cmp a b <> Gt -> name_cmp b c <> Gt ->
  (name_cmp a b = Lt \/ name_cmp b c = Lt -> name_cmp a c = Lt) /\
  (name_cmp a b = Eq -> name_cmp b c = Eq -> name_cmp a c = Eq).
Proof.
  intros H1 H2. split.
  - intros [H|H].
    + destruct (name_cmp b c) eqn:E; [apply name_cmp_eq in E; subst; exact H|eapply name_cmp_trans; eauto|congruence].
    + destruct (name_cmp a b) eqn:E; [apply name_cmp_eq in E; subst; exact H|eapply name_cmp_trans; eauto|congruence].
  - intros Ha Hb. apply name_cmp_eq in Ha, Hb. subst. apply name_cmp_refl.
Qed.

Theorem model_triple_ok a b c :
  triple_ok (name_cmp a b) (name_cmp b c) (name_cmp a c) (name_cmp b a) (name_cmp c b) (name_cmp c a) = true.
Proof.
  unfold triple_ok.
  rewrite (name_cmp_antisym a b), (name_cmp_antisym b c), (name_cmp_antisym a c), !cmp_eqb_refl. cbn [andb].
  destruct (cle (name_cmp a b) && cle (name_cmp b c)) eqn:E; [|reflexivity].
  apply andb_true_iff in E as [E1 E2].
  assert (H1 : name_cmp a b <> Gt) by (intros H; rewrite H in E1; discriminate).
  assert (H2 : name_cmp b c <> Gt) by (intros H; rewrite H in E2; discriminate).
  destruct (cle_name_trans a b c H1 H2) as [Hlt Heq].
  destruct (name_cmp a b) eqn:Eab; destruct (name_cmp b c) eqn:Ebc; try congruence; cbn [cmp_eqb orb].
  - rewrite Heq by reflexivity. reflexivity.
  - rewrite Hlt by auto. reflexivity.
  - rewrite Hlt by auto. reflexivity.
  - rewrite Hlt by auto. reflexivity.
Qed.

Lemma inner_of_name_bytes n : name_wf n -> inner_of (name_bytes n) = Some (name_inner n).
Proof.
  intros [_ Hl]. unfold inner_of, name_bytes.
  rewrite tl_dec_enc by (unfold two64; lia). change (7 =? 7) with true. cbv iota.
  rewrite tl_dec_enc by exact Hl. rewrite N.eqb_refl. reflexivity.
Qed.

Lemma prefix_both a b : is_prefix a b && is_prefix b a = true <-> a = b.
Proof.
  rewrite andb_true_iff, !is_prefix_spec. split.
  - intros [[c Hc] [d Hd]]. rewrite Hc in Hd. rewrite <- app_assoc in Hd.
    rewrite <- (app_nil_r a) in Hd at 1. apply app_inv_head in Hd. symmetry in Hd. apply app_eq_nil in Hd as [-> _].
    rewrite app_nil_r in Hc. congruence.
  - intros ->. split; exists []; rewrite app_nil_r; reflexivity.
Qed.

Lemma bool_eqb_iff (x y : bool) : (x = true <-> y = true) -> Bool.eqb x y = true.
Proof. destruct x, y; cbn; intuition congruence. Qed.

Theorem model_pair_ok a b : name_wf a -> name_wf b ->
  pair_ok (name_cmp a b) (name_eqb a b) (is_prefix a b) (is_prefix b a) (name_bytes a) (name_bytes b) true = true.
Proof.
  intros Ha Hb. unfold pair_ok.
  rewrite (inner_of_name_bytes a Ha), (inner_of_name_bytes b Hb).
  rewrite <- (name_cmp_wire a b (proj1 Ha) (proj1 Hb)), cmp_eqb_refl.
  rewrite (bool_eqb_iff (name_eqb a b) (cmp_eqb (name_cmp a b) Eq))
    by (rewrite name_eqb_spec, cmp_eqb_spec, name_cmp_eq_iff; tauto).
  rewrite (bool_eqb_iff (name_eqb a b) (bytes_eqb (name_bytes a) (name_bytes b))).
  2:{ rewrite name_eqb_spec, bytes_eqb_spec. split; [intros ->; reflexivity|apply name_bytes_inj; assumption]. }
  rewrite (bool_eqb_iff (name_eqb a b) (is_prefix a b && is_prefix b a))
    by (rewrite name_eqb_spec, prefix_both; tauto).
  cbn [andb].
  assert (P1 : (if is_prefix a b then cle (name_cmp a b) else true) = true).
  { destruct (is_prefix a b) eqn:E; [|reflexivity]. pose proof (prefix_cmp_le a b E). destruct (name_cmp a b); try reflexivity; congruence. }
  assert (P2 : (if is_prefix b a then cle (CompOpp (name_cmp a b)) else true) = true).
  { destruct (is_prefix b a) eqn:E; [|reflexivity]. pose proof (prefix_cmp_le b a E) as H. rewrite name_cmp_antisym in H.
    destruct (name_cmp a b); cbn in *; try reflexivity; congruence. }
  rewrite P1, P2. destruct (name_eqb a b); reflexivity.
Qed.

Theorem model_comp_ok c d : comp_wf c -> comp_wf d ->
  comp_ok (comp_cmp c d) (comp_eqb c d) (comp_enc c) (comp_enc d) = true.
Proof.
  intros Hc Hd. unfold comp_ok. rewrite <- (comp_cmp_wire c d Hc Hd), cmp_eqb_refl.
  assert (Hcmp : comp_cmp c d = Eq <-> c = d) by (split; [apply comp_cmp_eq|intros ->; apply comp_cmp_refl]).
  rewrite (bool_eqb_iff (comp_eqb c d) (cmp_eqb (comp_cmp c d) Eq))
    by (rewrite comp_eqb_spec, cmp_eqb_spec; tauto).
  rewrite (bool_eqb_iff (comp_eqb c d) (bytes_eqb (comp_enc c) (comp_enc d))); [reflexivity|].
  rewrite comp_eqb_spec, bytes_eqb_spec. split; [intros ->; reflexivity|].
  intros E. pose proof (read_comp_enc c [] Hc) as H1. pose proof (read_comp_enc d [] Hd) as H2.
  rewrite !app_nil_r in *. rewrite E in H1. congruence.
Qed.

Lemma pres_name_is_refl n : pres_name_is (POk n) n = true.
Proof. cbn. apply name_eqb_spec. reflexivity. Qed.
Lemma pres_comp_is_refl c : pres_comp_is (POk c) c = true.
Proof. cbn. apply comp_eqb_spec. reflexivity. Qed.

(* ---------- layout-agnostic hash-input oracle ---------- *)
Lemma is_prefixb_spec a : forall b, is_prefixb a b = true <-> exists r, b = a ++ r.
Proof.
  induction a as [|x a IH]; intros b; cbn [is_prefixb].
  - split; [intros _; exists b; reflexivity|reflexivity].
  - destruct b as [|y b].
    + split; [discriminate|]. intros [r H]. discriminate.
    + rewrite andb_true_iff, N.eqb_eq, IH. split.
      * intros [-> [r ->]]. exists r. reflexivity.
      * intros [r H]. inversion H; subst. split; [reflexivity|exists r; reflexivity].
Qed.

(* if the oracle holds for all pairs of a class of components, the concatenated streams determine the name *)
Theorem layout_ok_names_injective (lay : comp -> bytes) (P : comp -> Prop) :
  (forall c d, P c -> P d -> layout_pair_ok c d (lay c) (lay d) = true) ->
  forall a b, Forall P a -> Forall P b -> concat (map lay a) = concat (map lay b) -> a = b.
Proof.
  intros Hok. apply prefix_free_components_injective_names.
  - intros c d r Hc Hd H. specialize (Hok c d Hc Hd). unfold layout_pair_ok in Hok.
    apply andb_true_iff in Hok as [_ Hok]. destruct (comp_eqb c d) eqn:E; [apply comp_eqb_spec; exact E|].
    apply andb_true_iff in Hok as [Hok _]. apply negb_true_iff in Hok.
    assert (Hp : is_prefixb (lay c) (lay d) = true) by (apply is_prefixb_spec; eauto). congruence.
  - intros c Hc H. specialize (Hok c c Hc Hc). unfold layout_pair_ok in Hok. rewrite H in Hok. discriminate.
Qed.

(* the modelled layout passes the oracle *)
Theorem model_layout_pair_ok c d : comp_wf c -> comp_wf d ->
  layout_pair_ok c d (comp_hash_input c) (comp_hash_input d) = true.
Proof.
  intros Hc Hd. destruct comp_hash_input_layout_ok as [Hpf Hne]. unfold layout_pair_ok.
  assert (N1 : forall x, comp_wf x -> negb (length (comp_hash_input x) =? 0)%nat = true).
  { intros x Hx. pose proof (Hne x Hx). destruct (comp_hash_input x); [congruence|reflexivity]. }
  rewrite (N1 c Hc), (N1 d Hd). cbn [andb].
  destruct (comp_eqb c d) eqn:E.
  - apply comp_eqb_spec in E. subst. apply bytes_eqb_spec. reflexivity.
  - apply andb_true_iff. split; apply negb_true_iff.
    + destruct (is_prefixb (comp_hash_input c) (comp_hash_input d)) eqn:Ep; [|reflexivity].
      apply is_prefixb_spec in Ep as [r Hr]. pose proof (Hpf c d r Hc Hd Hr). subst.
      rewrite (proj2 (comp_eqb_spec d d) eq_refl) in E. discriminate.
    + destruct (is_prefixb (comp_hash_input d) (comp_hash_input c)) eqn:Ep; [|reflexivity].
      apply is_prefixb_spec in Ep as [r Hr]. pose proof (Hpf d c r Hd Hc Hr). subst.
      rewrite (proj2 (comp_eqb_spec c c) eq_refl) in E. discriminate.
Qed.

Theorem model_brt_ok n : name_wf n -> brt_ok n (name_from_bytes (name_bytes n)) = true.
Proof. intros H. rewrite (name_from_bytes_enc n H). cbn. apply name_eqb_spec. reflexivity. Qed.

Theorem model_rt_ok n : rt_ok n (name_from_str (name_to_str n)) = true.
Proof.
  unfold rt_ok. destruct (uri_wfb n) eqn:E.
  - apply uri_wfb_spec in E. rewrite (name_str_rt n E). apply pres_name_is_refl.
  - pose proof (name_from_str_nopanic (name_to_str n)). destruct (name_from_str (name_to_str n)); try reflexivity; congruence.
Qed.

Theorem model_crt_ok c : crt_ok c (comp_from_str (comp_to_str c)) (comp_from_str (comp_to_canon c)) = true.
Proof.
  unfold crt_ok. apply andb_true_iff. split.
  - destruct (comp_uri_wfb c) eqn:E.
    + apply comp_uri_wfb_spec in E. rewrite (proj1 (comp_str_rt c E)). apply pres_comp_is_refl.
    + pose proof (comp_from_str_nopanic (comp_to_str c)). destruct (comp_from_str (comp_to_str c)); try reflexivity; congruence.
  - destruct (comp_canon_wfb c) eqn:E.
    + apply comp_canon_wfb_spec in E. rewrite (proj1 (comp_canon_rt c E)). apply pres_comp_is_refl.
    + pose proof (comp_from_str_nopanic (comp_to_canon c)). destruct (comp_from_str (comp_to_canon c)); try reflexivity; congruence.
Qed.
