(* Property C19 — routes installed by the routing daemon mirror its tables; prefix logs replicate.
   Only theorem statements closed by `exact`, each followed by Print Assumptions. *)
From DvFib Require Import U64 GenConsts PfxLog PfxLogProofs.
Open Scope N_scope.

(* log_replication. For every initial sequence number s0, every history of publisher operations (announce, withdraw;
   each publishes an op, and a snapshot whenever the threshold test as written in the source says so) and every
   schedule of a peer — sync notifications carrying any values, fetch decisions by the rule as written (snapshot if
   more than N behind), answers from the publisher or from a cache holding ANY earlier snapshot, deliveries, losses;
   i.e. any log position a late joiner starts from and any interleaving afterwards — the set the peer has
   reconstructed is the publisher's announced set as of publication number Known (set_at recomputes that set from the
   operation log alone), or the peer has fetched nothing yet; and the publisher's own set is set_at its latest number. *)
Theorem log_replication : forall s0 evs,
  let p := fst (run s0 evs) in let j := snd (run s0 evs) in
  ((j_known j = 0 /\ j_set j = []) \/
   (pb_init p <= j_known j <= pb_seq p /\ set_eq (j_set j) (set_at p (j_known j)))) /\
  set_at p (pb_seq p) = pb_set p.
Proof. exact log_replication_l. Qed.
Print Assumptions log_replication.

(* A peer whose Known equals the publisher's sequence number holds exactly the announced set. *)
Theorem log_replication_caught_up : forall s0 evs,
  let p := fst (run s0 evs) in let j := snd (run s0 evs) in
  j_known j = pb_seq p -> set_eq (j_set j) (pb_set p).
Proof. exact log_replication_caught_up_l. Qed.
Print Assumptions log_replication_caught_up.

(* the decidable predicate the runner evaluates on the implementation's observations is that statement *)
Theorem peer_ok_is_spec : forall pub_set pub_seq known peer_set,
  peer_ok pub_set pub_seq known peer_set = true <-> (known = pub_seq -> set_eq peer_set pub_set).
Proof. exact peer_ok_spec. Qed.
Print Assumptions peer_ok_is_spec.

(* non-vacuity: a late joiner that starts 3 publications in, gets one op, then a snapshot from a cache, then ops *)
Example c19_pfx_example :
  let st := run 0 [PAnnounce 1; PAnnounce 2; PWithdraw 1; JReach true; JSync 3; NetAnswer None; JDeliver;
                   NetAnswer None; JDeliver; PAnnounce 5; NetAnswer None; JDeliver] in
  pb_set (fst st) = [5; 2] /\ j_known (snd st) = 3 /\ j_set (snd st) = [2] /\ pb_seq (fst st) = 4.
Proof. vm_compute. repeat split. Qed.
