(* Property C19 — routes installed by the routing daemon mirror its tables; prefix logs replicate.
   Only theorem statements closed by `exact`, each followed by Print Assumptions. *)
From DvFib Require Import U64 GenConsts ConstFacts PfxLog PfxLogProofs PfxLogLive DvFib DvFibProofs DvDaemon DvDaemonProofs Executor ExecutorProofs.
Open Scope N_scope.

(* log_replication. For every initial sequence number s0, every history of publisher operations (announce, withdraw;
   each publishes an op, and a snapshot whenever the threshold test as written in the source says so) and every
   schedule of a peer — sync notifications carrying any values, fetch decisions by the rule as written (snapshot if
   more than N behind), answers from the publisher or from a cache holding ANY earlier snapshot, deliveries, losses;
   i.e. any log position a late joiner starts from and any interleaving afterwards — the set the peer has
   reconstructed is the publisher's announced set as of publication number Known (set_at recomputes that set from the
   operation log alone), or the peer has fetched nothing yet; and the publisher's own set is set_at its latest number. *)
Theorem log_replication : forall s0 evs,
  let p := fst (run s0 evs) in let j := snd (run s0 evs) in
  ((j_known j = 0 /\ j_set j = []) \/
   (pb_init p <= j_known j <= pb_seq p /\ set_eq (j_set j) (set_at p (j_known j)))) /\
  set_at p (pb_seq p) = pb_set p.
Proof. exact log_replication_l. Qed.
Print Assumptions log_replication.

(* A peer whose Known equals the publisher's sequence number holds exactly the announced set. *)
Theorem log_replication_caught_up : forall s0 evs,
  let p := fst (run s0 evs) in let j := snd (run s0 evs) in
  j_known j = pb_seq p -> set_eq (j_set j) (pb_set p).
Proof. exact log_replication_caught_up_l. Qed.
Print Assumptions log_replication_caught_up.

(* the decidable predicate the runner evaluates on the implementation's observations is that statement *)
Theorem peer_ok_is_spec : forall pub_set pub_seq known peer_set,
  peer_ok pub_set pub_seq known peer_set = true <-> (known = pub_seq -> set_eq peer_set pub_set).
Proof. exact peer_ok_spec. Qed.
Print Assumptions peer_ok_is_spec.

(* The two snapshot thresholds, AS TRANSLATED from the source on this run, fit together: when the publisher decides not to
   snapshot, its latest snapshot is at most fetch_threshold publications old; the fetcher asks for a snapshot exactly when
   it is more than fetch_threshold behind. (Today's publisher test `pt.snapshotAt-seq >= 100` wraps around in uint64
   arithmetic and therefore fires after every publication; that satisfies the first clause trivially.) *)
Theorem thresholds_fit :
  (forall s seq, s <= seq -> seq < two64 -> seq - s <= fetch_threshold + 1 ->
     pub_snap_test s seq = false -> seq - s <= fetch_threshold) /\
  (forall latest known, known < latest -> latest < two64 ->
     (fetch_snap_test latest known = true <-> fetch_threshold < latest - known)).
Proof. exact (conj pub_test_lag fetch_test_gap). Qed.
Print Assumptions thresholds_fit.

(* peer_catches_up (progress, complements log_replication). After any history whose sync notifications carry numbers
   the publisher really had, with the publisher started at 0 or above the threshold (the daemon starts at boot time in
   ms) and below 2^64: once the peer settles (outstanding Interest expires, route to the publisher present, current
   number heard) fetch_threshold + 2 answered fetches bring Known to the publisher's number and the peer's set to the
   announced set — however far behind the late joiner was. *)
Theorem peer_catches_up : forall s0 evs,
  (s0 = 0 \/ fetch_threshold < s0) -> hist_ok (pub_new s0, peer_new) evs ->
  let st := run s0 evs in
  pb_seq (fst st) < two64 ->
  let st' := rounds (N.to_nat fetch_threshold + 2) (settle st) in
  fst st' = fst st /\ j_known (snd st') = pb_seq (fst st) /\ set_eq (j_set (snd st')) (pb_set (fst st)).
Proof. exact peer_catches_up_l. Qed.
Print Assumptions peer_catches_up.

(* installed_mirrors_tables. `frun me evs` runs a history of events from the empty installer: SetTables replaces the
   RIB view (per destination router: best / second-best next hop and costs), the neighbour-face table and the prefix
   table by ARBITRARY new values (so it covers every possible table change: cost changes, destinations becoming
   unreachable, next hops swapping, neighbours changing face or disappearing, announcements, withdrawals, multi-homed
   prefixes, duplicates, permutations of Go map order); FibUpdate ord1 ord2 runs the installer (fibUpdate: build the
   fibEntries map, UpdateH with prevCost diffing per prefix, mark, RemoveUnmarked) with its two map iterations taken in
   ANY order (keys in ord1 / ord2 first).  s_rt is the reference route table: the fold
   of EVERY register/unregister command emitted since the start.  After any history that ends with a FibUpdate it
   equals `desired`: for each prefix p and face f the lowest cost among the best and finite second-best next hops
   (mapped to faces) of the reachable remote routers that announce p or own it as routing prefix; nothing else. *)
Theorem installed_mirrors_tables : forall me evs ord1 ord2 p f,
  let s := frun me (evs ++ [FibUpdate ord1 ord2]) in
  rt_lookup (s_rt s) (p, f) = desired (s_tab s) p f.
Proof. exact installed_mirrors_tables_l. Qed.
Print Assumptions installed_mirrors_tables.

(* invariant of the statement: at every moment installed = fold of emitted commands = the installer's prefixes map *)
Theorem installed_is_prefixes_map : forall me evs p f,
  let s := frun me evs in rt_lookup (s_rt s) (p, f) = fib_lookup (s_fib s) p f.
Proof. exact installed_is_prefixes_map_l. Qed.
Print Assumptions installed_is_prefixes_map.

(* daemon_keeps_mirror: not only is the installer right when it runs — the daemon runs it whenever needed.  For ANY RIB
   implementation (type ribT, the view the installer reads, a step per advertisement and per dead neighbour, each
   returning the dirty flag) whose flag is sound (false -> the view has the same entries: C18's rib_update_flag / rib_dead_flag) and whose
   dead-neighbour step leaves no entry pointing at that neighbour (all under an invariant rib_inv of RIB states that
   the steps preserve), started with at most the router's own entry, and for every history of handler runs — neighbour
   pings with face changes (accepted or ignored), advertisements, dead-neighbour sweeps, prefix Data from any router,
   own announcements, extra fibUpdates, all map orders — in which fibUpdate runs exactly when the code runs it (face
   changed / dirty / Apply dirty), the route table equals `desired` of the current tables after EVERY handler. *)
Theorem daemon_keeps_mirror :
  forall (ribT : Type) (rib_view : ribT -> list ribent) (rib_ev : Type)
         (rib_step : ribT -> rib_ev -> ribT * bool) (rib_dead : ribT -> N -> ribT * bool)
         (rib_inv : ribT -> Prop),
  (forall r e, rib_inv r -> rib_inv (fst (rib_step r e))) ->
  (forall r n, rib_inv r -> rib_inv (fst (rib_dead r n))) ->
  (forall r e, rib_inv r -> snd (rib_step r e) = false -> forall x, In x (rib_view (fst (rib_step r e))) <-> In x (rib_view r)) ->
  (forall r n, rib_inv r -> snd (rib_dead r n) = false -> forall x, In x (rib_view (fst (rib_dead r n))) <-> In x (rib_view r)) ->
  (forall r n x, rib_inv r -> n <> 0 -> In x (rib_view (fst (rib_dead r n))) -> re_nh1 x <> n /\ re_nh2 x <> n) ->
  forall me r0 evs, rib_inv r0 -> (forall x, In x (rib_view r0) -> re_name x = me) ->
  forall p f,
    rt_lookup (d_rt ribT (drun ribT rib_view rib_ev rib_step rib_dead me r0 evs)) (p, f) =
    desired (tables_of ribT rib_view (drun ribT rib_view rib_ev rib_step rib_dead me r0 evs)) p f.
Proof. exact daemon_keeps_mirror_l. Qed.
Print Assumptions daemon_keeps_mirror.

(* executor_preserves_order (dv/nfdc/nfdc.go NfdMgmtThread: FIFO channel, in-place retry with a budget, drop after
   exhaustion).  For every interleaving of Exec calls (XEnq) with steps of the thread (XTick) and every fault pattern:
   the commands the loop is done with, the one it is holding and the queue are the emitted sequence, in order; the
   successfully executed commands (what the forwarder saw) are the done ones minus the dropped ones, in order; a command
   is dropped only if its retry budget is finite. *)
Theorem executor_preserves_order : forall (A : Type) (evs : list (xev A)), let s := xrun A evs in
  map fst (x_proc A s) ++ cur_list A s ++ x_q A s = emitted A evs /\
  x_log A s = map (x_cmd A) (map fst (filter snd (x_proc A s))) /\
  (forall c, In (c, false) (x_proc A s) -> (0 <= x_retries A c)%Z).
Proof. exact executor_preserves_order_l. Qed.
Print Assumptions executor_preserves_order.

(* ... hence, once the queue is drained and nothing was dropped, the forwarder saw exactly the emitted stream, so its
   table is the fold of the emitted commands (the s_rt of installed_mirrors_tables) ... *)
Theorem executor_no_loss : forall (A : Type) (evs : list (xev A)), let s := xrun A evs in
  x_q A s = [] -> x_cur A s = None -> forallb snd (x_proc A s) = true ->
  x_log A s = map (x_cmd A) (emitted A evs).
Proof. exact executor_no_loss_l. Qed.
Print Assumptions executor_no_loss.

(* ... and transient faults within the budget drop nothing: if no r consecutive ExecMgmtCmd calls failed and every
   emitted command has a budget of at least r (or an unlimited one), every command the loop is done with succeeded. *)
Theorem faults_within_budget_drop_nothing : forall (A : Type) (r : Z) (evs : list (xev A)), let s := xrun A evs in
  (forall c, In c (emitted A evs) -> (x_retries A c < 0 \/ r <= x_retries A c)%Z) ->
  (max_run (x_att A s) < r)%Z -> forallb snd (x_proc A s) = true.
Proof. exact faults_within_budget_l. Qed.
Print Assumptions faults_within_budget_drop_nothing.

(* What `desired` depends on: tables with the same RIB view that agree on the faces of the next hops occurring in it and
   on the prefix sets of the reachable remote routers occurring in it prescribe the same routes (so such a change needs
   no fibUpdate: this is the frame the daemon's "dirty" tests rely on; the harness checks the daemon's own decisions
   at every quiescent point of kind-"net" histories). *)
Theorem desired_depends_only_on : forall t t',
  t_me t' = t_me t -> (forall r, In r (t_rib t') <-> In r (t_rib t)) ->
  (forall r, In r (t_rib t) -> face_of (t_nbr t') (re_nh1 r) = face_of (t_nbr t) (re_nh1 r) /\
                                face_of (t_nbr t') (re_nh2 r) = face_of (t_nbr t) (re_nh2 r)) ->
  (forall r, In r (t_rib t) -> re_l1 r < cost_infinity -> re_name r <> t_me t ->
             forall p, mem p (pfx_of t' (re_name r)) = mem p (pfx_of t (re_name r))) ->
  forall p f, desired t' p f = desired t p f.
Proof. exact desired_frame. Qed.
Print Assumptions desired_depends_only_on.

(* the decidable predicate the runner evaluates on the implementation's command stream and table dumps *)
Theorem mirrorsb_is_spec : forall t rt, mirrorsb t rt = true <-> forall p f, rt_lookup rt (p, f) = desired t p f.
Proof. exact mirrorsb_spec. Qed.
Print Assumptions mirrorsb_is_spec.

(* non-vacuity: router 9; destinations 1 (via neighbour 5 cost 1, second 6 cost 3) and 2 (via 6 cost 2); both announce
   prefix 70 (multi-homed); neighbours 5,6 on faces 50,60. Then neighbour 6 moves to face 61, router 2 becomes
   unreachable and router 1 withdraws 70: the stream unregisters/re-registers accordingly. *)
Example c19_fib_example :
  let r1 := {| re_name := 1; re_pfx := 101; re_nh1 := 5; re_l1 := 1; re_nh2 := 6; re_l2 := 3 |} in
  let r2 := {| re_name := 2; re_pfx := 102; re_nh1 := 6; re_l1 := 2; re_nh2 := 0; re_l2 := 16 |} in
  let r2' := {| re_name := 2; re_pfx := 102; re_nh1 := 0; re_l1 := 16; re_nh2 := 0; re_l2 := 16 |} in
  let s1 := frun 9 [SetTables [r1; r2] [(5, 50); (6, 60)] [(1, [70]); (2, [70])]; FibUpdate [] []] in
  let s2 := frun 9 [SetTables [r1; r2] [(5, 50); (6, 60)] [(1, [70]); (2, [70])]; FibUpdate [70] [];
                    SetTables [r1; r2'] [(5, 50); (6, 61)] [(1, []); (2, [70])]; FibUpdate [102; 101] [70; 102]] in
  rt_lookup (s_rt s1) (70, 60) = Some 2 /\ rt_lookup (s_rt s1) (70, 50) = Some 1 /\ rt_lookup (s_rt s1) (102, 60) = Some 2 /\
  rt_lookup (s_rt s2) (70, 60) = None /\ rt_lookup (s_rt s2) (70, 50) = None /\ rt_lookup (s_rt s2) (102, 60) = None /\
  rt_lookup (s_rt s2) (101, 61) = Some 3 /\ rt_lookup (s_rt s2) (101, 60) = None /\ mirrorsb (s_tab s2) (s_rt s2) = true.
Proof. vm_compute. repeat split. Qed.

(* non-vacuity: a late joiner that starts 3 publications in, gets one op, then a snapshot from a cache, then ops *)
Example c19_pfx_example :
  let st := run 0 [PAnnounce 1; PAnnounce 2; PWithdraw 1; JReach true; JSync 3; NetAnswer None; JDeliver;
                   NetAnswer None; JDeliver; PAnnounce 5; NetAnswer None; JDeliver] in
  pb_set (fst st) = [5; 2] /\ j_known (snd st) = 3 /\ j_set (snd st) = [2] /\ pb_seq (fst st) = 4.
Proof. vm_compute. repeat split. Qed.

(* non-vacuity of peer_catches_up: 121 publications, a peer that has fetched nothing *)
Example c19_live_example :
  let evs := flat_map (fun i => [PAnnounce (N.of_nat i); PWithdraw (N.of_nat i)]) (seq 1 60) ++ [PAnnounce 7; JSync 3] in
  hist_ok (pub_new 0, peer_new) evs /\ pb_seq (fst (run 0 evs)) = 121 /\
  j_known (snd (settle (run 0 evs))) = 0 /\
  j_known (snd (rounds (N.to_nat fetch_threshold + 2) (settle (run 0 evs)))) = 121 /\
  j_set (snd (rounds (N.to_nat fetch_threshold + 2) (settle (run 0 evs)))) = [7].
Proof. vm_compute. repeat split; try discriminate; auto. right. discriminate. Qed.

(* non-vacuity of daemon_keeps_mirror: a RIB instance meeting the hypotheses (flags always dirty; the dead-neighbour
   step drops entries through that neighbour) and a run with a face change, an ignored passive ping and a prefix *)
Example c19_daemon_example :
  let view := fun r : list ribent => r in
  let stepf := fun (r e : list ribent) => (e, true) in
  let deadf := fun (r : list ribent) (n : N) => (filter (fun x => negb (N.eqb (re_nh1 x) n) && negb (N.eqb (re_nh2 x) n)) r, true) in
  let r1 := {| re_name := 1; re_pfx := 101; re_nh1 := 5; re_l1 := 1; re_nh2 := 0; re_l2 := 16 |} in
  let d := drun (list ribent) view (list ribent) stepf deadf 9 []
             [DPing _ 5 50 true [] []; DRib _ [r1] [] []; DPfx _ 1 {| ol_reset := false; ol_adds := [70]; ol_rems := [] |} [] [];
              DPing _ 5 51 true [] []; DPing _ 5 52 false [] []] in
  (forall r n x, n <> 0 -> In x (view (fst (deadf r n))) -> re_nh1 x <> n /\ re_nh2 x <> n) /\
  rt_lookup (d_rt _ d) (70, 51) = Some 1 /\ rt_lookup (d_rt _ d) (70, 50) = None /\ rt_lookup (d_rt _ d) (101, 51) = Some 1.
Proof.
  split.
  - intros r n x _ H. simpl in H. apply filter_In in H. destruct H as [_ H].
    apply andb_true_iff in H. destruct H as [H1 H2].
    apply negb_true_iff in H1. apply negb_true_iff in H2. apply N.eqb_neq in H1. apply N.eqb_neq in H2. split; assumption.
  - vm_compute. repeat split.
Qed.

(* non-vacuity of the executor theorems: three commands with budget 3, the first fails twice, the second is enqueued
   while the first is being retried; nothing is dropped and the order is kept *)
Example c19_executor_example :
  let c := fun n => {| x_cmd := n; x_retries := 3%Z |} in
  let evs := [XEnq N (c 1); XTick N false; XTick N true; XEnq N (c 2); XTick N true; XEnq N (c 3); XTick N false;
              XTick N false; XTick N false; XTick N false; XTick N true; XTick N false] in
  x_log N (xrun N evs) = [1; 2; 3] /\ max_run (x_att N (xrun N evs)) = 2%Z /\ x_q N (xrun N evs) = [] /\ x_cur N (xrun N evs) = None.
Proof. vm_compute. repeat split. Qed.
