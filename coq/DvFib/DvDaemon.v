(* DvFib/DvDaemon.v — the daemon around the installer: which event handlers change which table and WHEN they run fibUpdate
   (dv/dv/advert_sync.go advertSyncOnInterest, dv/dv/table_algo.go ribUpdate / checkDeadNeighbors,
   dv/dv/prefix_sync.go processPrefixData).  The RIB itself is abstract here (it is C18's model): a type of RIB states
   with the view the installer reads, a step for one neighbour's advertisement and one for a dead neighbour, each
   returning the `dirty` flag the code computes.  What C19 needs from it is stated as hypotheses of the theorem
   (explicit arguments — nothing is assumed globally):
     flag_sound / dead_flag_sound : dirty = false  ->  the view (best / second-best next hop and cost of every
                                    destination, and the set of destinations) is unchanged          [C18 change_flag_sound]
     dead_removes                 : after RemoveNextHop(n) no entry has n as best or second-best next hop
   The harness (kind "net") checks the conclusion on the real router after every handler run. *)
From DvFib Require Import U64 GenConsts PfxLog DvFib.
Open Scope N_scope.

Section Daemon.
  Variable ribT : Type.
  Variable rib_view : ribT -> list ribent.
  Variable rib_ev : Type.
  Variable rib_step : ribT -> rib_ev -> ribT * bool.     (* ribUpdate(ns) with ns.Advert: DirtyResetNextHop, Set.., Prune *)
  Variable rib_dead : ribT -> N -> ribT * bool.          (* RemoveNextHop(n); Prune *)

  Record dstate := {
    d_me : N; d_rib : ribT; d_nbr : list (N * N); d_pfx : list (N * list N);
    d_fib : fibst; d_rt : rtable
  }.

  Definition tables_of (d : dstate) : tables :=
    {| t_me := d_me d; t_rib := rib_view (d_rib d); t_nbr := d_nbr d; t_pfx := d_pfx d |}.

  Definition run_fu (o1 o2 : list N) (d : dstate) : dstate :=
    let (st, cs) := fib_update_ord o1 o2 (tables_of d) (d_fib d) in
    {| d_me := d_me d; d_rib := d_rib d; d_nbr := d_nbr d; d_pfx := d_pfx d; d_fib := st; d_rt := rt_run (d_rt d) cs |}.

  Definition with_nbr (nbr : list (N * N)) (d : dstate) : dstate :=
    {| d_me := d_me d; d_rib := d_rib d; d_nbr := nbr; d_pfx := d_pfx d; d_fib := d_fib d; d_rt := d_rt d |}.
  Definition with_rib (r : ribT) (d : dstate) : dstate :=
    {| d_me := d_me d; d_rib := r; d_nbr := d_nbr d; d_pfx := d_pfx d; d_fib := d_fib d; d_rt := d_rt d |}.
  Definition with_pfx (pfx : list (N * list N)) (d : dstate) : dstate :=
    {| d_me := d_me d; d_rib := d_rib d; d_nbr := d_nbr d; d_pfx := pfx; d_fib := d_fib d; d_rt := d_rt d |}.

  (* checkDeadNeighbors: every dead neighbour leaves the neighbour table and the RIB; dirty flags are or-ed *)
  Fixpoint kill (ns : list N) (d : dstate) (dirty : bool) : dstate * bool :=
    match ns with
    | [] => (d, dirty)
    | n :: r =>
        if N.eqb n 0 then kill r d dirty      (* a neighbour name never hashes to 0 = "no next hop" *)
        else
          let (rib', f) := rib_dead (d_rib d) n in
          kill r (with_rib rib' (with_nbr (aremove n (d_nbr d)) d)) (dirty || f)
    end.

  Inductive dev :=
  | DPing (n face : N) (accept : bool) (o1 o2 : list N)
      (* a Sync Interest of neighbour n arrives on `face`: the neighbour is created if unknown (face 0), RecvPing;
         accept = false: a passive ping while an active face is known is ignored; fibUpdate iff the face changed *)
  | DRib (e : rib_ev) (o1 o2 : list N)          (* an advertisement is processed by ribUpdate; fibUpdate iff dirty *)
  | DDead (ns : list N) (o1 o2 : list N)        (* checkDeadNeighbors finds ns dead; one fibUpdate iff any dirty *)
  | DPfx (router : N) (ops : oplist) (o1 o2 : list N)   (* processPrefixData: Apply; fibUpdate iff Apply reports dirty *)
  | DOwn                                         (* our own Announce / Withdraw: nothing the installer reads changes *)
  | DFu (o1 o2 : list N).                        (* any additional fibUpdate *)

  Definition dstep (d : dstate) (e : dev) : dstate :=
    match e with
    | DPing n face accept o1 o2 =>
        let cur := face_of (d_nbr d) n in
        if N.eqb cur face then with_nbr (aset n cur (d_nbr d)) d
        else if accept then run_fu o1 o2 (with_nbr (aset n face (d_nbr d)) d)
        else with_nbr (aset n cur (d_nbr d)) d
    | DRib ev o1 o2 =>
        let (rib', dirty) := rib_step (d_rib d) ev in
        let d' := with_rib rib' d in
        if dirty then run_fu o1 o2 d' else d'
    | DDead ns o1 o2 =>
        let (d', dirty) := kill ns d false in
        if dirty then run_fu o1 o2 d' else d'
    | DPfx router ops o1 o2 =>
        let d' := with_pfx (aset router (apply_ops ops (pfx_of (tables_of d) router)) (d_pfx d)) d in
        if apply_dirty ops then run_fu o1 o2 d' else d'
    | DOwn => d
    | DFu o1 o2 => run_fu o1 o2 d
    end.

  Definition dinit (me : N) (r0 : ribT) : dstate :=
    {| d_me := me; d_rib := r0; d_nbr := []; d_pfx := []; d_fib := fib_empty; d_rt := [] |}.

  Definition drun (me : N) (r0 : ribT) (evs : list dev) : dstate := fold_left dstep evs (dinit me r0).
End Daemon.
