(* DvFib/PfxLogLive.v — progress of log replication: once the publisher is quiet and the peer has heard its sequence
   number, at most fetch_threshold + 2 answered fetches bring the peer to that number (a snapshot whenever it is more than
   fetch_threshold behind — which skips the history — then operation by operation).  Uses only the facts of
   ConstFacts.v about the translated threshold tests, so it is re-established for the thresholds the code has now. *)
From Coq Require Import Lia ZifyBool ZifyN ZifyNat.
From DvFib Require Import U64 GenConsts ConstFacts PfxLog PfxLogProofs.
Open Scope N_scope.

Notation T := fetch_threshold.
#[local] Opaque fetch_threshold two64.

(* sync notifications carry sequence numbers the publisher really had *)
Definition ev_ok (st : pub * peer) (e : ev) : Prop :=
  match e with
  | JSync v => v <= pb_seq (fst st) /\ (v = 0 \/ pb_init (fst st) <= v)
  | _ => True
  end.

Fixpoint hist_ok (st : pub * peer) (evs : list ev) : Prop :=
  match evs with
  | [] => True
  | e :: r => ev_ok st e /\ hist_ok (step st e) r
  end.

Record LInv (p : pub) (j : peer) : Prop := {
  l_init : pb_init p = 0 \/ T < pb_init p;
  l_snap : exists o, pb_ptr p = Some (pb_snapat p, o) /\ pb_snapat p <= pb_seq p /\ pb_seq p - pb_snapat p <= T;
  l_latest : j_latest j <= pb_seq p /\ (j_latest j = 0 \/ pb_init p <= j_latest j);
  l_fetching : j_fetching j = true -> j_pending j <> None;
  l_pend : match j_pending j with
           | Some (ReqOp k) => k <= pb_seq p /\ pb_init p < k
           | Some ReqSnap => T < pb_seq p - j_known j
           | None => True
           end
}.

Lemma seq_mono_step st e : pb_seq (fst st) <= pb_seq (fst (step st e)).
Proof.
  destruct st as [p j]. destruct e; simpl; try lia.
  - unfold announce. destruct (mem n (pb_set p)); [lia|]. unfold publish_op, with_set. simpl.
    destruct (pub_snap_test _ _); simpl; lia.
  - unfold withdraw. destruct (mem n (pb_set p)); [|lia]. unfold publish_op, with_set. simpl.
    destruct (pub_snap_test _ _); simpl; lia.
Qed.

Lemma seq_mono_run evs : forall st, pb_seq (fst st) <= pb_seq (fst (fold_left step evs st)).
Proof.
  induction evs as [|e evs IH]; intros st; simpl; [lia|].
  pose proof (seq_mono_step st e). pose proof (IH (step st e)). lia.
Qed.

(* ---- publisher steps ---- *)
Lemma publish_op_linv content s p j :
  pb_seq p + 1 < two64 -> PInv p -> LInv p j -> LInv (publish_op content (with_set s p)) j.
Proof.
  intros Hb HP [Li [o [Hp [Hs1 Hs2]]] [Hl1 Hl2] Lf Lp].
  unfold publish_op, with_set. simpl.
  destruct (pub_snap_test (pb_snapat p) (pb_seq p + 1)) eqn:Et.
  - apply Build_LInv; simpl; auto.
    + eexists. split; [reflexivity|]. lia.
    + split; [lia|exact Hl2].
    + destruct (j_pending j) as [[k|]|]; auto; lia.
  - assert (Hlag : pb_seq p + 1 - pb_snapat p <= T).
    { apply pub_test_lag; [lia|exact Hb|lia|exact Et]. }
    constructor; simpl; auto.
    + exists o. split; [exact Hp|]. lia.
    + split; [lia|exact Hl2].
    + destruct (j_pending j) as [[k|]|]; auto; lia.
Qed.

(* ---- peer steps ---- *)
Lemma try_fetch_linv p j : pb_seq p < two64 -> JOk p j -> (j_fetching j = false -> j_pending j = None) ->
  LInv p j -> LInv p (try_fetch j).
Proof.
  intros Hb HJ Hq HL. pose proof HL as [Li Ls [Hl1 Hl2] Lf Lp]. unfold try_fetch.
  destruct (negb (j_reach j)); [exact HL|].
  destruct (j_fetching j) eqn:Ef; simpl; [exact HL|].
  destruct (N.leb_spec (j_latest j) (j_known j)) as [Hle|Hlt]; [exact HL|].
  constructor; simpl; auto; [discriminate|].
  destruct (fetch_snap_test (j_latest j) (j_known j)) eqn:Et.
  - assert (Hb2 : j_latest j < two64) by lia.
    pose proof (proj1 (fetch_test_gap _ _ Hlt Hb2) Et). lia.
  - split; [lia|].
    destruct HJ as [[H0 _]|[[Hb1 _] _]]; [|lia].
    (* Known = 0: an op fetch was chosen, so Latest <= T; Latest is a real number of a publisher that started at 0 *)
    assert (Hn : ~ T < j_latest j - j_known j).
    { intros H. assert (Hb2 : j_latest j < two64) by lia.
      rewrite (proj2 (fetch_test_gap _ _ Hlt Hb2) H) in Et. discriminate. }
    rewrite H0 in *. destruct Hl2 as [Hz|Hge]; [lia|]. destruct Li as [Hi|Hi]; lia.
Qed.

Lemma step_linv st e :
  SInv st -> LInv (fst st) (snd st) -> ev_ok st e -> pb_seq (fst (step st e)) < two64 ->
  LInv (fst (step st e)) (snd (step st e)).
Proof.
  destruct st as [p j]. intros HS HL Hok Hb.
  pose proof (step_inv (p, j) e HS) as HS'.
  destruct HS as [HP HJ HQ HF]. simpl in *.
  destruct e; simpl in *.
  - (* PAnnounce *)
    unfold announce in *. destruct (mem n (pb_set p)); [exact HL|].
    apply publish_op_linv; auto.
    unfold publish_op, with_set in Hb. simpl in Hb. destruct (pub_snap_test _ _); simpl in Hb; exact Hb.
  - (* PWithdraw *)
    unfold withdraw in *. destruct (mem n (pb_set p)); [|exact HL].
    apply publish_op_linv; auto.
    unfold publish_op, with_set in Hb. simpl in Hb. destruct (pub_snap_test _ _); simpl in Hb; exact Hb.
  - (* JSync *)
    unfold on_sync. apply try_fetch_linv; auto.
    + simpl. intros Hf. destruct (HF Hf). assumption.
    + destruct HL as [Li Ls Hl Lf Lp]. constructor; simpl; auto.
  - (* JReach *)
    destruct HL as [Li Ls Hl Lf Lp]. constructor; simpl; auto.
  - (* JKick *)
    apply try_fetch_linv; auto. intros Hf. destruct (HF Hf). assumption.
  - (* NetAnswer *)
    destruct (net_answer_cases cached p j HP) as [E|[s [o [E _]]]]; rewrite E; [exact HL|].
    destruct HL as [Li Ls Hl Lf Lp]. constructor; simpl; auto.
  - (* JDeliver *)
    unfold deliver in *. destruct (j_pending j) as [r|] eqn:Ep; [|exact HL].
    destruct (j_inflight j) as [[s o]|] eqn:Ei; [|simpl; exact HL]. simpl in *.
    destruct HS' as [_ HJ' _ _]. simpl in HJ'.
    apply try_fetch_linv; auto.
    + (* JOk of the state before try_fetch: recompute as in step_inv *)
      unfold PendOk in HQ. rewrite Ep, Ei in HQ. right. simpl.
      destruct r as [k|].
      * destruct HQ as [Hk [-> Hl]].
        pose proof (chain_lookup _ _ _ _ _ (pi_chain p HP) Hl) as Hbk.
        split; [lia|].
        subst k. unfold set_at. rewrite (upto_step _ _ _ _ _ (pi_chain p HP) Hl). simpl.
        apply apply_ops_proper.
        destruct HJ as [[H0 Hs]|[Hb' Hs]].
        -- rewrite H0 in *. rewrite Hs. fold (set_at p 0). rewrite set_at_zero; [apply set_eq_refl|exact HP|lia].
        -- exact Hs.
      * destruct (pi_snaps p HP _ HQ) as [Hbs He]. simpl in *. split; [exact Hbs|].
        rewrite He. apply apply_snapshot.
    + destruct HL as [Li Ls Hl Lf Lp]. constructor; simpl; auto. discriminate.
  - (* JTimeout *)
    unfold timeout in *. destruct (j_pending j) as [r|] eqn:Ep; [|exact HL]. simpl in *.
    apply try_fetch_linv; auto.
    destruct HL as [Li Ls Hl Lf Lp]. constructor; simpl; auto. discriminate.
Qed.

Lemma init_linv s0 : (s0 = 0 \/ T < s0) -> LInv (pub_new s0) peer_new.
Proof.
  intros H. constructor; simpl; auto.
  - eexists. split; [reflexivity|]. lia.
  - split; [lia|left; reflexivity].
  - discriminate.
Qed.

Lemma run_linv evs : forall st, SInv st -> LInv (fst st) (snd st) -> hist_ok st evs ->
  pb_seq (fst (fold_left step evs st)) < two64 ->
  SInv (fold_left step evs st) /\ LInv (fst (fold_left step evs st)) (snd (fold_left step evs st)).
Proof.
  induction evs as [|e evs IH]; intros st HS HL Hok Hb; simpl in *; [split; assumption|].
  destruct Hok as [He Hr].
  apply IH; auto.
  - apply step_inv, HS.
  - apply step_linv; auto. pose proof (seq_mono_run evs (step st e)). lia.
Qed.

(* ---- one answered fetch ---- *)
Definition round (st : pub * peer) : pub * peer := step (step st (NetAnswer None)) JDeliver.
Fixpoint rounds (n : nat) (st : pub * peer) : pub * peer :=
  match n with O => st | S n' => rounds n' (round st) end.

Lemma chain_lookup_ex ops : forall lo hi k, chain lo hi ops -> lo < k <= hi -> exists o, alookup k ops = Some o.
Proof.
  induction ops as [|[s o] r IH]; intros lo hi k Hc Hk; simpl in *; [lia|].
  destruct Hc as [-> [Hlt Hc]].
  destruct (N.eqb_spec hi k); [eexists; reflexivity|]. apply (IH lo (hi - 1)); [exact Hc|lia].
Qed.

(* a state between rounds: nothing in flight; caught up or a request pending *)
Definition Ready (st : pub * peer) : Prop :=
  j_inflight (snd st) = None /\ j_reach (snd st) = true /\ j_latest (snd st) = pb_seq (fst st) /\
  (j_known (snd st) = pb_seq (fst st) \/ (j_known (snd st) < pb_seq (fst st) /\ j_pending (snd st) <> None)).

Lemma try_fetch_fresh j1 : j_fetching j1 = false -> j_reach j1 = true -> j_inflight j1 = None ->
  j_known (try_fetch j1) = j_known j1 /\ j_latest (try_fetch j1) = j_latest j1 /\ j_reach (try_fetch j1) = true /\
  j_inflight (try_fetch j1) = None /\
  (j_known j1 < j_latest j1 ->
   j_pending (try_fetch j1) = Some (if fetch_snap_test (j_latest j1) (j_known j1) then ReqSnap else ReqOp (j_known j1 + 1))).
Proof.
  intros Hf Hr Hi. unfold try_fetch. rewrite Hr, Hf. simpl.
  destruct (N.leb_spec (j_latest j1) (j_known j1)); simpl; repeat split; auto; try lia.
Qed.

Lemma round_progress p j : SInv (p, j) -> LInv p j -> pb_seq p < two64 -> Ready (p, j) ->
  j_known j < pb_seq p ->
  let st' := round (p, j) in
  fst st' = p /\ Ready st' /\ j_known j < j_known (snd st') /\
  (j_pending j = Some ReqSnap -> pb_seq p - j_known (snd st') <= T) /\
  (T < pb_seq p - j_known (snd st') -> j_pending (snd st') = Some ReqSnap).
Proof.
  intros HS HL Hb [Hi [Hr [Hlat Hk]]] Hlt. simpl in Hi, Hr, Hlat, Hk.
  destruct Hk as [Hk|[_ Hp]]; [lia|].
  pose proof HS as [HP HJ HQ HF]. simpl in *.
  destruct HL as [Li [os [Hptr [Hs1 Hs2]]] [Hl1 Hl2] Lf Lp].
  unfold PendOk in HQ.
  destruct (j_pending j) as [[k|]|] eqn:Ep; [| |congruence].
  - (* an operation *)
    destruct HQ as [Hk _]. destruct Lp as [Lp1 Lp2].
    destruct (chain_lookup_ex _ _ _ k (pi_chain p HP) (conj Lp2 Lp1)) as [o Ho].
    unfold round. simpl. unfold net_answer. rewrite Ep, Ho. unfold deliver. simpl. try rewrite Ep. simpl.
    set (j1 := {| j_known := k; j_latest := j_latest j; j_fetching := false; j_reach := j_reach j;
                  j_set := apply_ops o (j_set j); j_pending := None; j_inflight := None |}).
    destruct (try_fetch_fresh j1 eq_refl Hr eq_refl) as [E1 [E2 [E3 [E4 E5]]]]. simpl in *.
    split; [reflexivity|]. split; [|split; [|split; [discriminate|]]].
    + unfold Ready. simpl. rewrite E1, E2, E3, E4. repeat split; auto.
      destruct (N.eq_dec k (pb_seq p)) as [Ek|Ek]; [left; exact Ek|right]. split; [lia|]. rewrite E5 by lia. discriminate.
    + rewrite E1. lia.
    + rewrite E1. intros Hg. rewrite E5 by lia.
      rewrite (proj2 (fetch_test_gap (j_latest j) k ltac:(lia) ltac:(lia))) by lia. reflexivity.
  - (* the current snapshot *)
    unfold round. simpl. unfold net_answer. rewrite Ep, Hptr. unfold deliver. simpl. try rewrite Ep. simpl.
    set (j1 := {| j_known := pb_snapat p; j_latest := j_latest j; j_fetching := false; j_reach := j_reach j;
                  j_set := apply_ops os (j_set j); j_pending := None; j_inflight := None |}).
    destruct (try_fetch_fresh j1 eq_refl Hr eq_refl) as [E1 [E2 [E3 [E4 E5]]]]. simpl in *.
    split; [reflexivity|]. split; [|split; [|split]].
    + unfold Ready. simpl. rewrite E1, E2, E3, E4. repeat split; auto.
      destruct (N.eq_dec (pb_snapat p) (pb_seq p)) as [Ek|Ek]; [left; exact Ek|right]. split; [lia|]. rewrite E5 by lia. discriminate.
    + rewrite E1. lia.
    + intros _. rewrite E1. lia.
    + rewrite E1. intros Hg. lia.
Qed.

Lemma round_idle p j : Ready (p, j) -> j_known j = pb_seq p -> SInv (p, j) -> j_pending j = None -> round (p, j) = (p, j).
Proof.
  intros [Hi _] Hk HS Hp. unfold round. simpl. unfold net_answer. rewrite Hp. unfold deliver. rewrite Hp. reflexivity.
Qed.

Lemma rounds_idle n : forall p j, j_pending j = None -> rounds n (p, j) = (p, j).
Proof.
  induction n as [|n IH]; intros p j Hp; simpl; [reflexivity|].
  unfold round. simpl. unfold net_answer. rewrite Hp. unfold deliver. rewrite Hp. simpl. apply IH, Hp.
Qed.

(* caught up means nothing is pending *)
Lemma caught_up_quiet p j : SInv (p, j) -> LInv p j -> j_known j = pb_seq p -> j_pending j = None.
Proof.
  intros [_ _ HQ _] [_ _ _ _ Lp] Hk. simpl in *. unfold PendOk in HQ.
  destruct (j_pending j) as [[k|]|]; [|lia|reflexivity]. destruct HQ as [-> _]. lia.
Qed.

Lemma round_invs p j : SInv (p, j) -> LInv p j -> pb_seq p < two64 -> fst (round (p, j)) = p ->
  SInv (round (p, j)) /\ LInv (fst (round (p, j))) (snd (round (p, j))).
Proof.
  intros HS HL Hb Hfst. unfold round in *.
  set (s1 := step (p, j) (NetAnswer None)) in *.
  assert (HS1 : SInv s1) by (apply step_inv, HS).
  assert (Hp1 : fst s1 = p) by reflexivity.
  assert (HL1 : LInv (fst s1) (snd s1)) by (apply step_linv; simpl; auto).
  split; [apply step_inv, HS1|].
  apply step_linv; [exact HS1|exact HL1|exact I|rewrite Hfst; exact Hb].
Qed.

Lemma rounds_catch n : forall p j, SInv (p, j) -> LInv p j -> pb_seq p < two64 -> Ready (p, j) ->
  pb_seq p - j_known j <= N.of_nat n ->
  fst (rounds n (p, j)) = p /\ j_known (snd (rounds n (p, j))) = pb_seq p /\ SInv (rounds n (p, j)).
Proof.
  induction n as [|n IH]; intros p j HS HL Hb HR Hg.
  - destruct HR as [_ [_ [_ [Hk|[Hk _]]]]]; simpl in Hk; simpl rounds; simpl fst; simpl snd; [auto|].
    change (N.of_nat 0) with 0 in Hg. lia.
  - destruct (N.eq_dec (j_known j) (pb_seq p)) as [Hk|Hk].
    + rewrite rounds_idle by (apply (caught_up_quiet p j); assumption). auto.
    + assert (Hlt : j_known j < pb_seq p).
      { destruct HR as [_ [_ [_ [Hk'|[Hk' _]]]]]; simpl in Hk'; [congruence|exact Hk']. }
      destruct (round_progress p j HS HL Hb HR Hlt) as [Hf [HR' [Hinc _]]].
      destruct (round_invs p j HS HL Hb Hf) as [HS' HL'].
      simpl rounds. destruct (round (p, j)) as [p' j'] eqn:Er. simpl in *. subst p'.
      apply IH; auto. lia.
Qed.

(* the three events that let the peer settle: the outstanding Interest (if any) expires, the route is there, the
   publisher's current number is heard *)
Definition settle (st : pub * peer) : pub * peer :=
  fold_left step [JTimeout; JReach true; JSync (pb_seq (fst st))] st.

Lemma try_fetch_keeps j : j_known (try_fetch j) = j_known j /\ j_latest (try_fetch j) = j_latest j /\
  j_reach (try_fetch j) = j_reach j /\ (j_inflight j = None -> j_inflight (try_fetch j) = None).
Proof.
  unfold try_fetch. destruct (negb (j_reach j)); [auto|].
  destruct (j_fetching j || (j_latest j <=? j_known j)); simpl; auto.
Qed.

Lemma try_fetch_pending j : j_reach j = true -> j_known j < j_latest j ->
  (j_fetching j = true -> j_pending j <> None) -> j_pending (try_fetch j) <> None.
Proof.
  intros Hr Hlt Hf. unfold try_fetch. rewrite Hr. simpl.
  destruct (j_fetching j) eqn:Ef; simpl; [apply Hf; reflexivity|].
  destruct (N.leb_spec (j_latest j) (j_known j)); [lia|]. simpl. discriminate.
Qed.

Lemma settle_ready p j : SInv (p, j) -> LInv p j -> pb_seq p < two64 ->
  fst (settle (p, j)) = p /\ Ready (settle (p, j)) /\ SInv (settle (p, j)) /\ LInv (fst (settle (p, j))) (snd (settle (p, j))).
Proof.
  intros HS HL Hb. unfold settle. simpl fold_left. simpl fst.
  set (s1 := step (p, j) JTimeout).
  set (s2 := step s1 (JReach true)).
  set (s3 := step s2 (JSync (pb_seq p))).
  assert (Hp1 : fst s1 = p) by reflexivity.
  assert (Hp2 : fst s2 = p) by reflexivity.
  assert (Hp3 : fst s3 = p) by reflexivity.
  assert (HS1 : SInv s1) by (apply step_inv, HS).
  assert (HL1 : LInv (fst s1) (snd s1)) by (apply step_linv; simpl; auto).
  assert (HS2 : SInv s2) by (apply step_inv, HS1).
  assert (HL2 : LInv (fst s2) (snd s2)) by (apply step_linv; simpl; auto).
  assert (HS3 : SInv s3) by (apply step_inv, HS2).
  assert (Hinit : pb_init p <= pb_seq p) by (destruct HS as [HP _ _ _]; apply (chain_le _ _ _ (pi_chain p HP))).
  assert (HL3 : LInv (fst s3) (snd s3)).
  { apply step_linv; auto. simpl. split; [lia|right; exact Hinit]. }
  split; [reflexivity|]. split; [|split; assumption].
  (* nothing in flight after the timeout *)
  assert (Hi1 : j_inflight (snd s1) = None).
  { unfold s1. simpl. unfold timeout. destruct (j_pending j) eqn:Ep.
    - apply try_fetch_keeps. reflexivity.
    - destruct HS as [_ _ _ HF]. destruct HL as [_ _ _ Lf _]. simpl in *.
      destruct (j_fetching j) eqn:Ef; [exfalso; apply (Lf eq_refl); exact Ep|]. destruct (HF Ef). assumption. }
  set (j2' := {| j_known := j_known (snd s2); j_latest := pb_seq p; j_fetching := j_fetching (snd s2);
                 j_reach := j_reach (snd s2); j_set := j_set (snd s2); j_pending := j_pending (snd s2);
                 j_inflight := j_inflight (snd s2) |}).
  assert (E3 : snd s3 = try_fetch j2') by reflexivity.
  destruct (try_fetch_keeps j2') as [K1 [K2 [K3 K4]]].
  unfold Ready. change (p, on_sync (pb_seq p) (set_reach true (timeout j))) with s3. rewrite Hp3, E3, K1, K2, K3.
  split; [apply K4; exact Hi1|]. split; [reflexivity|]. split; [reflexivity|].
  destruct HS2 as [_ HJ2 _ _]. destruct HL2 as [_ _ _ Lf2 _]. rewrite Hp2 in *.
  assert (Hle : j_known (snd s2) <= pb_seq p) by (destruct HJ2 as [[H0 _]|[[_ H] _]]; lia).
  destruct (N.eq_dec (j_known (snd s2)) (pb_seq p)) as [E|E]; [left; exact E|right].
  split; [unfold j2'; cbn [j_known]; lia|].
  apply try_fetch_pending.
  - reflexivity.
  - unfold j2'; cbn [j_known j_latest]. lia.
  - unfold j2'; cbn [j_fetching j_pending]. exact Lf2.
Qed.

(* peer_catches_up.  After ANY history (with sync values the publisher really had) ending in a state where the publisher
   has sequence number < 2^64 and started from 0 or from a number above the threshold (boot-time milliseconds in the
   real daemon): let the peer settle (outstanding Interest expires, route present, current number heard); then
   fetch_threshold + 2 answered fetches suffice for Known = the publisher's number — hence, by log_replication, for the
   peer's set to equal the announced set.  The publisher state is untouched. *)
Lemma peer_catches_up_l : forall s0 evs,
  (s0 = 0 \/ T < s0) -> hist_ok (pub_new s0, peer_new) evs ->
  let st := run s0 evs in
  pb_seq (fst st) < two64 ->
  let st' := rounds (N.to_nat T + 2) (settle st) in
  fst st' = fst st /\ j_known (snd st') = pb_seq (fst st) /\ set_eq (j_set (snd st')) (pb_set (fst st)).
Proof.
  intros s0 evs Hs0 Hok st Hb st'.
  destruct (run_linv evs (pub_new s0, peer_new) (init_inv s0) (init_linv s0 Hs0) Hok Hb) as [HS HL].
  fold (run s0 evs) in HS, HL. fold st in HS, HL.
  destruct st as [p j] eqn:Est. simpl in Hb.
  destruct (settle_ready p j HS HL Hb) as [Hf [HR [HS1 HL1]]].
  unfold st'. destruct (settle (p, j)) as [p1 j1] eqn:Es. simpl in Hf. subst p1. simpl in HL1.
  assert (Hcatch : forall n pp jj, SInv (pp, jj) -> LInv pp jj -> pb_seq pp < two64 -> Ready (pp, jj) -> pp = p ->
            pb_seq pp - j_known jj <= N.of_nat n ->
            fst (rounds n (pp, jj)) = p /\ j_known (snd (rounds n (pp, jj))) = pb_seq p /\ SInv (rounds n (pp, jj))).
  { intros n pp jj A B C D E F. subst pp. apply rounds_catch; assumption. }
  assert (Hfin : fst (rounds (N.to_nat T + 2) (p, j1)) = p /\
                 j_known (snd (rounds (N.to_nat T + 2) (p, j1))) = pb_seq p /\ SInv (rounds (N.to_nat T + 2) (p, j1))).
  { destruct (N.eq_dec (j_known j1) (pb_seq p)) as [Hk|Hk].
    - rewrite rounds_idle by (apply (caught_up_quiet p j1); assumption). auto.
    - assert (Hlt : j_known j1 < pb_seq p).
      { destruct HR as [_ [_ [_ [Hk'|[Hk' _]]]]]; simpl in Hk'; [congruence|exact Hk']. }
      replace (N.to_nat T + 2)%nat with (S (S (N.to_nat T))) by lia.
      destruct (round_progress p j1 HS1 HL1 Hb HR Hlt) as [Hf1 [HR1 [Hinc1 [_ Hsnap1]]]].
      destruct (round_invs p j1 HS1 HL1 Hb Hf1) as [HS2 HL2].
      simpl rounds. destruct (round (p, j1)) as [p2 j2] eqn:Er1. simpl in Hf1. subst p2. simpl in *.
      destruct (N.le_gt_cases (pb_seq p - j_known j2) T) as [Hsmall|Hbig].
      + change (rounds (N.to_nat T) (round (p, j2))) with (rounds (S (N.to_nat T)) (p, j2)).
        apply Hcatch; auto; rewrite ?Nat2N.inj_succ, ?N2Nat.id; try lia.
      + (* still far: the next request is a snapshot *)
        assert (Hlt2 : j_known j2 < pb_seq p) by lia.
        destruct (round_progress p j2 HS2 HL2 Hb HR1 Hlt2) as [Hf2 [HR2 [Hinc2 [Hs2 _]]]].
        destruct (round_invs p j2 HS2 HL2 Hb Hf2) as [HS3 HL3].
        specialize (Hs2 (Hsnap1 Hbig)).
        destruct (round (p, j2)) as [p3 j3] eqn:Er2. simpl in Hf2. subst p3. simpl in *.
        apply Hcatch; auto; rewrite ?N2Nat.id; try lia. }
  destruct Hfin as [F1 [F2 F3]].
  split; [exact F1|]. split; [exact F2|].
  (* replication at the caught-up state *)
  destruct (rounds (N.to_nat T + 2) (p, j1)) as [p4 j4] eqn:Er. simpl in F1, F2. subst p4.
  destruct F3 as [HP4 HJ4 _ _]. simpl in *.
  rewrite <- (set_at_seq p HP4).
  destruct HJ4 as [[H0 Hs]|[Hb4 Hs]].
  - rewrite <- F2, H0, Hs. pose proof (chain_le _ _ _ (pi_chain p HP4)).
    rewrite set_at_zero; [apply set_eq_refl|exact HP4|lia].
  - rewrite <- F2. exact Hs.
Qed.
