(* DvFib/Extract.v — extraction of the executable models and decidable spec predicates for the correspondence runner.
   ExtrOcamlBasic only; N/positive/nat stay Coq datatypes. *)
From Coq Require Import Extraction ExtrOcamlBasic.
From DvFib Require Import U64 GenConsts PfxLog DvFib Executor.
Extraction Language OCaml.
Extraction "dvfib_model.ml"
  pub_new peer_new step announce withdraw on_sync set_reach try_fetch net_answer deliver timeout
  set_at set_eqb peer_ok mem apply_ops apply_dirty
  fib_empty fib_update update_h rt_run rt_apply rt_lookup desired mirrorsb build_entries cands desired_keys
  xstep xinit loop_cond
  cost_infinity pub_snap_test fetch_snap_test fetch_threshold
  N.add N.mul N.of_nat N.to_nat N.eqb N.ltb N.leb N.div N.modulo N.compare.
