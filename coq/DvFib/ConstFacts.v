(* DvFib/ConstFacts.v — facts about the TRANSLATED snapshot-threshold tests (GenConsts.v is regenerated from the Go
   source on every run, so these are re-proved against what the code says now).  They say that the publisher's and the
   fetcher's thresholds fit together: whenever the publisher decides NOT to snapshot, its latest snapshot is at most
   fetch_threshold publications old; and the fetcher asks for a snapshot exactly when it is more than fetch_threshold
   behind.  The scripts are written to go through for either operand order of the publisher's subtraction
   (`pt.snapshotAt-seq`, as written today: wraps, so the test fires after every publication; or `seq-pt.snapshotAt`). *)
From Coq Require Import Lia ZifyBool ZifyN ZifyNat.
From DvFib Require Import U64 GenConsts.
Open Scope N_scope.


Lemma u64_sub_small a b : b <= a -> a < two64 -> u64_sub a b = a - b.
Proof.
  intros H1 H2. unfold u64_sub. rewrite (N.mod_small a two64) by exact H2.
  rewrite (N.mod_small b two64) by lia.
  replace (a + two64 - b) with ((a - b) + 1 * two64) by lia.
  rewrite N.mod_add by (unfold two64; lia). apply N.mod_small. lia.
Qed.

Lemma u64_sub_wrap a b : a < b -> b < two64 -> u64_sub a b = two64 - (b - a).
Proof.
  intros H1 H2. unfold u64_sub. rewrite (N.mod_small a two64) by lia.
  rewrite (N.mod_small b two64) by exact H2. replace (two64 - (b - a)) with (a + two64 - b) by lia.
  apply N.mod_small. lia.
Qed.

(* publisher: if the snapshot is at most fetch_threshold+1 publications old and the test says "no snapshot", it is at
   most fetch_threshold old *)
Lemma pub_test_lag : forall s seq, s <= seq -> seq < two64 -> seq - s <= fetch_threshold + 1 ->
  pub_snap_test s seq = false -> seq - s <= fetch_threshold.
Proof.
  intros s seq H1 H2 H3 H4. unfold pub_snap_test in H4. unfold fetch_threshold in *.
  destruct (N.eq_dec s seq) as [->|Hne]; [lia|].
  first [ rewrite (u64_sub_wrap s seq) in H4 by lia; unfold two64 in *; lia
        | rewrite (u64_sub_small seq s) in H4 by lia; unfold two64 in *; lia ].
Qed.

(* fetcher: snapshot iff more than fetch_threshold behind *)
Lemma fetch_test_gap : forall latest known, known < latest -> latest < two64 ->
  (fetch_snap_test latest known = true <-> fetch_threshold < latest - known).
Proof.
  intros latest known H1 H2. unfold fetch_snap_test, fetch_threshold.
  rewrite (u64_sub_small latest known) by lia. split; intros H; lia.
Qed.
