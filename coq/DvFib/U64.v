(* DvFib/U64.v — Go uint64 subtraction (wraps modulo 2^64); used only in the two snapshot-threshold tests. *)
From Coq Require Export List NArith Bool.
Export ListNotations.
Open Scope N_scope.

Definition two64 : N := 18446744073709551616.
Definition u64_sub (a b : N) : N := (a mod two64 + two64 - b mod two64) mod two64.
