(* DvFib/DvFib.v — executable model of the FIB installer of the DV routing daemon (no proofs in this file).

   dv/table/fib.go       : FibEntry, Rib.GetFibEntries, Fib (names / prefixes / mark), UpdateH, MarkH, UnmarkAll,
                           RemoveUnmarked
   dv/dv/table_algo.go   : fibUpdate
   dv/table/rib.go       : what the RIB exposes to the installer: per destination router the best and second-best
                           next hop (hash of the neighbour name) with their costs; Entries() = lowest1 < CostInfinity
   dv/table/neighbor_table.go : GetH -> faceId
   dv/table/prefix_table.go   : GetRouter(r).Prefixes

   Names (routers, neighbours, prefixes) are numbers interned by the harness; 0 is "no neighbour" (hash 0).
   Tables are association lists in whatever order (Go map iteration order is arbitrary): nothing below depends on an
   order, on absence of duplicates, or on any other well-formedness of the tables. *)
From DvFib Require Import U64 GenConsts PfxLog.
Open Scope N_scope.

(* ---- the tables the installer reads ---- *)
Record ribent := {
  re_name : N;          (* destination router *)
  re_pfx  : N;          (* its own routing prefix  <router>/32=DV  *)
  re_nh1 : N; re_l1 : N;   (* nextHop1, lowest1 *)
  re_nh2 : N; re_l2 : N    (* nextHop2, lowest2 *)
}.

Record tables := {
  t_me  : N;                       (* config.RouterName() *)
  t_rib : list ribent;             (* rib.entries *)
  t_nbr : list (N * N);            (* neighbour name -> faceId   (NeighborTable) *)
  t_pfx : list (N * list N)        (* router -> announced prefixes (PrefixTable.routers[..].Prefixes) *)
}.

Definition face_of (nbr : list (N * N)) (nh : N) : N :=
  match alookup nh nbr with Some f => f | None => 0 end.

Definition pfx_of (t : tables) (r : N) : list N :=
  match alookup r (t_pfx t) with Some l => l | None => [] end.

(* Rib.GetFibEntries: (face, cost) for the best and the second-best next hop; face 0 when the neighbour is unknown *)
Definition get_fib_entries (nbr : list (N * N)) (r : ribent) : list (N * N) :=
  [(face_of nbr (re_nh1 r), re_l1 r); (face_of nbr (re_nh2 r), re_l2 r)].

(* ---- the installer's state ---- *)
Record fe := { fe_face : N; fe_cost : N; fe_prev : N }.

Record fibst := {
  f_prefixes : list (N * list fe);    (* fib.prefixes *)
  f_names : list N;                   (* keys of fib.names *)
  f_mark : list N                     (* keys of fib.mark *)
}.

Definition fib_empty : fibst := {| f_prefixes := []; f_names := []; f_mark := [] |}.

Inductive cmd :=
| Reg (name face cost : N)          (* rib register   Name FaceId Cost Origin=NlsrOrigin *)
| Unreg (name face : N).            (* rib unregister Name FaceId      Origin=NlsrOrigin *)

Fixpoint aremove {A} (k : N) (m : list (N * A)) : list (N * A) :=
  match m with
  | [] => []
  | (k', v) :: r => if N.eqb k' k then aremove k r else (k', v) :: aremove k r
  end.
Definition aset {A} (k : N) (v : A) (m : list (N * A)) : list (N * A) := (k, v) :: aremove k m.

(* UpdateH, first loop: every current entry gets prevCost := Cost, Cost := infinity *)
Definition reset_old (es : list fe) : list fe :=
  map (fun e => {| fe_face := fe_face e; fe_cost := cost_infinity; fe_prev := fe_cost e |}) es.

(* UpdateH, merge of one new entry: same face present -> Cost := min(new, current); None if absent *)
Fixpoint merge_one (es : list fe) (f c : N) : option (list fe) :=
  match es with
  | [] => None
  | e :: r =>
      if N.eqb (fe_face e) f
      then Some ({| fe_face := fe_face e; fe_cost := N.min c (fe_cost e); fe_prev := fe_prev e |} :: r)
      else match merge_one r f c with Some r' => Some (e :: r') | None => None end
  end.

Definition merge_new (es : list fe) (new : list (N * N)) : list fe :=
  fold_left (fun acc fc =>
    if cost_infinity <=? snd fc then acc
    else match merge_one acc (fst fc) (snd fc) with
         | Some acc' => acc'
         | None => acc ++ [{| fe_face := fst fc; fe_cost := snd fc; fe_prev := cost_infinity |}]
         end) new es.

Definition old_entries (name : N) (st : fibst) : list fe :=
  match alookup name (f_prefixes st) with Some es => es | None => [] end.

(* Fib.UpdateH: new state, commands sent to nfdc in order, return value *)
Definition update_h (name : N) (new : list (N * N)) (st : fibst) : fibst * list cmd * bool :=
  let names1 := if mem name (f_names st) then f_names st else name :: f_names st in
  let merged := merge_new (reset_old (old_entries name st)) new in
  let unregs := flat_map (fun e => if cost_infinity <=? fe_cost e then [Unreg name (fe_face e)] else []) merged in
  let final := filter (fun e => negb (cost_infinity <=? fe_cost e)) merged in
  let regs := flat_map (fun e => if N.eqb (fe_cost e) (fe_prev e) then [] else [Reg name (fe_face e) (fe_cost e)]) final in
  match final with
  | _ :: _ => ({| f_prefixes := aset name final (f_prefixes st); f_names := names1; f_mark := f_mark st |},
               unregs ++ regs, true)
  | [] => ({| f_prefixes := aremove name (f_prefixes st);
              f_names := srem name names1; f_mark := srem name (f_mark st) |},
           unregs ++ regs, false)
  end.

(* ---- fibUpdate ---- *)
Fixpoint assoc_app (k : N) (v : list (N * N)) (m : list (N * list (N * N))) : list (N * list (N * N)) :=
  match m with
  | [] => [(k, v)]
  | (k', v') :: r => if N.eqb k' k then (k', v' ++ v) :: r else (k', v') :: assoc_app k v r
  end.

(* one router of rib.Entries() that is not us: its own prefix and every prefix it announces get its two entries *)
Definition register_router (t : tables) (acc : list (N * list (N * N))) (r : ribent) : list (N * list (N * N)) :=
  if (re_l1 r <? cost_infinity) && negb (N.eqb (re_name r) (t_me t)) then
    let fes := get_fib_entries (t_nbr t) r in
    fold_left (fun a p => assoc_app p fes a) (pfx_of t (re_name r)) (assoc_app (re_pfx r) fes acc)
  else acc.

(* the fibEntries map of fibUpdate *)
Definition build_entries (t : tables) : list (N * list (N * N)) := fold_left (register_router t) (t_rib t) [].

Definition main_loop (l : list (N * list (N * N))) (st : fibst) : fibst * list cmd :=
  fold_left (fun (acc : fibst * list cmd) (kv : N * list (N * N)) =>
    let '(st1, cs, ok) := update_h (fst kv) (snd kv) (fst acc) in
    let st2 := if ok then {| f_prefixes := f_prefixes st1; f_names := f_names st1; f_mark := sadd (fst kv) (f_mark st1) |} else st1 in
    (st2, snd acc ++ cs)) l (st, []).

(* Go iterates maps in an arbitrary order. The two map iterations of fibUpdate (`range fibEntries`, and
   `range fib.prefixes` in RemoveUnmarked) therefore take an explicit priority list: keys listed in `ord` come first, in
   that order, the remaining ones follow. Every order is obtained for some `ord`; the theorems quantify over it. *)
Fixpoint reorder {A} (ord : list N) (l : list (N * A)) : list (N * A) :=
  match ord with
  | [] => l
  | k :: ord' =>
      match alookup k l with
      | Some v => (k, v) :: reorder ord' (aremove k l)
      | None => reorder ord' l
      end
  end.

Fixpoint reorder_keys (ord : list N) (ks : list N) : list N :=
  match ord with
  | [] => ks
  | k :: ord' => if mem k ks then k :: reorder_keys ord' (srem k ks) else reorder_keys ord' ks
  end.

(* RemoveUnmarked: every key of fib.prefixes that is not marked and has a name gets UpdateH(.., nil) *)
Definition remove_unmarked_ord (ord : list N) (st : fibst) : fibst * list cmd :=
  fold_left (fun (acc : fibst * list cmd) (k : N) =>
    let st0 := fst acc in
    if negb (mem k (f_mark st0)) && mem k (f_names st0) then
      let '(st1, cs, _) := update_h k [] st0 in (st1, snd acc ++ cs)
    else acc) (reorder_keys ord (map fst (f_prefixes st))) (st, []).

Definition fib_update_ord (ord1 ord2 : list N) (t : tables) (st : fibst) : fibst * list cmd :=
  let st0 := {| f_prefixes := f_prefixes st; f_names := f_names st; f_mark := [] |} in   (* UnmarkAll *)
  let (st1, c1) := main_loop (reorder ord1 (build_entries t)) st0 in
  let (st2, c2) := remove_unmarked_ord ord2 st1 in
  (st2, c1 ++ c2).

Definition fib_update (t : tables) (st : fibst) : fibst * list cmd := fib_update_ord [] [] t st.

(* ---- the reference route table of the forwarder: (name, face) -> cost, origin NlsrOrigin ---- *)
Definition rtable := list ((N * N) * N).
Definition key_eqb (a b : N * N) : bool := N.eqb (fst a) (fst b) && N.eqb (snd a) (snd b).
Fixpoint rt_lookup (rt : rtable) (k : N * N) : option N :=
  match rt with
  | [] => None
  | (k', c) :: r => if key_eqb k' k then Some c else rt_lookup r k
  end.
Fixpoint rt_remove (rt : rtable) (k : N * N) : rtable :=
  match rt with
  | [] => []
  | (k', c) :: r => if key_eqb k' k then rt_remove r k else (k', c) :: rt_remove r k
  end.
Definition rt_apply (rt : rtable) (c : cmd) : rtable :=
  match c with
  | Reg n f c => ((n, f), c) :: rt_remove rt (n, f)
  | Unreg n f => rt_remove rt (n, f)
  end.
Definition rt_run (rt : rtable) (cs : list cmd) : rtable := fold_left rt_apply cs rt.

(* ---- specification: what the tables prescribe, computed from scratch ---- *)
Definition announces (t : tables) (r : ribent) (p : N) : bool := N.eqb (re_pfx r) p || mem p (pfx_of t (re_name r)).

(* candidate (face, cost) pairs for prefix p: over all reachable remote routers announcing p (or owning it as their
   routing prefix), the best next hop and the second-best if finite *)
Definition cands (t : tables) (p : N) : list (N * N) :=
  flat_map (fun r =>
    if (re_l1 r <? cost_infinity) && negb (N.eqb (re_name r) (t_me t)) && announces t r p
    then filter (fun fc => snd fc <? cost_infinity) (get_fib_entries (t_nbr t) r)
    else []) (t_rib t).

(* lowest cost among the candidates with face f *)
Fixpoint min_cost (f : N) (l : list (N * N)) : option N :=
  match l with
  | [] => None
  | (f', c) :: r =>
      if N.eqb f' f then match min_cost f r with Some m => Some (N.min c m) | None => Some c end
      else min_cost f r
  end.

Definition desired (t : tables) (p f : N) : option N := min_cost f (cands t p).

(* ---- histories ---- *)
Record sys := { s_tab : tables; s_fib : fibst; s_rt : rtable }.

Inductive fev :=
| SetTables (rib : list ribent) (nbr : list (N * N)) (pfx : list (N * list N))   (* any change of any table *)
| FibUpdate (ord1 ord2 : list N).                                                 (* fibUpdate, any map iteration orders *)

Definition fstep (s : sys) (e : fev) : sys :=
  match e with
  | SetTables rib nbr pfx =>
      {| s_tab := {| t_me := t_me (s_tab s); t_rib := rib; t_nbr := nbr; t_pfx := pfx |}; s_fib := s_fib s; s_rt := s_rt s |}
  | FibUpdate ord1 ord2 =>
      let (st, cs) := fib_update_ord ord1 ord2 (s_tab s) (s_fib s) in
      {| s_tab := s_tab s; s_fib := st; s_rt := rt_run (s_rt s) cs |}
  end.

Definition sys_init (me : N) : sys :=
  {| s_tab := {| t_me := me; t_rib := []; t_nbr := []; t_pfx := [] |}; s_fib := fib_empty; s_rt := [] |}.

Definition frun (me : N) (evs : list fev) : sys := fold_left fstep evs (sys_init me).

(* ---- decidable spec predicate used by the runner on the implementation's observations:
   a route table (folded from the drained command stream) equals `desired` on every (prefix, face) that occurs in
   either of them ---- *)
Definition rt_keys (rt : rtable) : list (N * N) := map fst rt.
Definition desired_keys (t : tables) : list (N * N) :=
  flat_map (fun r =>
    let ps := re_pfx r :: pfx_of t (re_name r) in
    flat_map (fun p => map (fun fc => (p, fst fc)) (get_fib_entries (t_nbr t) r)) ps) (t_rib t).
Definition opt_eqb (a b : option N) : bool :=
  match a, b with Some x, Some y => N.eqb x y | None, None => true | _, _ => false end.
Definition mirrors_on (t : tables) (rt : rtable) (k : N * N) : bool :=
  opt_eqb (rt_lookup rt k) (desired t (fst k) (snd k)).
Definition mirrorsb (t : tables) (rt : rtable) : bool :=
  forallb (mirrors_on t rt) (rt_keys rt ++ desired_keys t).
