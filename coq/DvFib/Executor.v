(* DvFib/Executor.v — executable model of the management-command executor (no proofs in this file).
   dv/nfdc/nfdc.go : NfdMgmtThread (channel = FIFO queue, Exec = enqueue, Start = for each command taken from the queue:
       for i := 0; i < cmd.Retries || cmd.Retries < 0; i++ { err := ExecMgmtCmd(..); if err != nil { sleep } else { break } }
   i.e. a failed command is retried IN PLACE, holding the queue, at most Retries times (for ever if Retries < 0), and is
   dropped when the budget is exhausted.  Sleeps are not modelled.  The outcome of every ExecMgmtCmd call (the fault
   pattern) and the moments at which other goroutines enqueue are inputs. *)
From Coq Require Export List ZArith Bool.
Export ListNotations.
Open Scope Z_scope.

Section Executor.
  Variable A : Type.                           (* what is executed: module, verb, arguments *)

  Record xcmd := { x_cmd : A; x_retries : Z }.

  Record xstate := {
    x_q : list xcmd;                           (* the channel *)
    x_cur : option (xcmd * Z);                 (* the command taken from the channel and the loop counter i *)
    x_log : list A;                            (* commands whose ExecMgmtCmd succeeded, in execution order = what the forwarder saw *)
    x_proc : list (xcmd * bool);               (* ghost: commands the loop is done with, in order; false = dropped *)
    x_att : list bool                          (* ghost: outcome of every ExecMgmtCmd call, NEWEST FIRST; true = failed *)
  }.

  Inductive xev :=
  | XEnq (c : xcmd)                            (* some goroutine calls Exec *)
  | XTick (fail : bool).                       (* the thread makes one step; `fail` = outcome of ExecMgmtCmd if this step calls it *)

  Definition loop_cond (c : xcmd) (i : Z) : bool := (i <? x_retries c) || (x_retries c <? 0).

  Definition xstep (s : xstate) (e : xev) : xstate :=
    match e with
    | XEnq c => {| x_q := x_q s ++ [c]; x_cur := x_cur s; x_log := x_log s; x_proc := x_proc s; x_att := x_att s |}
    | XTick fail =>
        match x_cur s with
        | None =>
            match x_q s with
            | [] => s
            | c :: r => {| x_q := r; x_cur := Some (c, 0); x_log := x_log s; x_proc := x_proc s; x_att := x_att s |}
            end
        | Some (c, i) =>
            if loop_cond c i then
              if fail
              then {| x_q := x_q s; x_cur := Some (c, i + 1); x_log := x_log s; x_proc := x_proc s; x_att := true :: x_att s |}
              else {| x_q := x_q s; x_cur := None; x_log := x_log s ++ [x_cmd c]; x_proc := x_proc s ++ [(c, true)];
                      x_att := false :: x_att s |}
            else {| x_q := x_q s; x_cur := None; x_log := x_log s; x_proc := x_proc s ++ [(c, false)]; x_att := x_att s |}
        end
    end.

  Definition xinit : xstate := {| x_q := []; x_cur := None; x_log := []; x_proc := []; x_att := [] |}.
  Definition xrun (evs : list xev) : xstate := fold_left xstep evs xinit.

  (* the emitted sequence: what was handed to Exec, in order *)
  Definition emitted (evs : list xev) : list xcmd :=
    flat_map (fun e => match e with XEnq c => [c] | XTick _ => [] end) evs.

  Definition cur_list (s : xstate) : list xcmd := match x_cur s with Some (c, _) => [c] | None => [] end.

  (* longest run of consecutive failed ExecMgmtCmd calls *)
  Fixpoint lead_fails (l : list bool) : Z := match l with true :: r => 1 + lead_fails r | _ => 0 end.
  Fixpoint max_run (l : list bool) : Z := match l with [] => 0 | b :: r => Z.max (lead_fails (b :: r)) (max_run r) end.
End Executor.
