(* DvFib/DvDaemonProofs.v — the daemon's decisions when to run fibUpdate are sufficient: the route table mirrors the
   tables after EVERY handler, given the RIB facts stated as hypotheses (see DvDaemon.v). *)
From Coq Require Import Lia ZifyBool ZifyN ZifyNat.
From DvFib Require Import U64 GenConsts PfxLog PfxLogProofs DvFib DvFibProofs DvDaemon.
Open Scope N_scope.

Section DaemonProofs.
  Variable ribT : Type.
  Variable rib_view : ribT -> list ribent.
  Variable rib_ev : Type.
  Variable rib_step : ribT -> rib_ev -> ribT * bool.
  Variable rib_dead : ribT -> N -> ribT * bool.
  (* an invariant of RIB states (True for an unconstrained RIB) under which the facts hold *)
  Variable rib_inv : ribT -> Prop.
  Hypothesis step_keeps : forall r e, rib_inv r -> rib_inv (fst (rib_step r e)).
  Hypothesis dead_keeps : forall r n, rib_inv r -> rib_inv (fst (rib_dead r n)).
  (* same view = the same entries, in whatever order *)
  Hypothesis flag_sound : forall r e, rib_inv r -> snd (rib_step r e) = false ->
    forall x, In x (rib_view (fst (rib_step r e))) <-> In x (rib_view r).
  Hypothesis dead_flag_sound : forall r n, rib_inv r -> snd (rib_dead r n) = false ->
    forall x, In x (rib_view (fst (rib_dead r n))) <-> In x (rib_view r).
  Hypothesis dead_removes : forall r n x, rib_inv r -> n <> 0 ->
    In x (rib_view (fst (rib_dead r n))) -> re_nh1 x <> n /\ re_nh2 x <> n.

  Notation dstate := (dstate ribT).
  Notation tables_of := (tables_of ribT rib_view).
  Notation run_fu := (run_fu ribT rib_view).
  Notation kill := (kill ribT rib_dead).
  Notation dstep := (dstep ribT rib_view rib_ev rib_step rib_dead).
  Notation drun := (drun ribT rib_view rib_ev rib_step rib_dead).

  Definition Mirror (d : dstate) : Prop := forall p f, rt_lookup (d_rt _ d) (p, f) = desired (tables_of d) p f.
  Definition DInv (d : dstate) : Prop := FInv (d_fib _ d) (d_rt _ d) /\ Mirror d /\ rib_inv (d_rib _ d).

  Lemma run_fu_inv o1 o2 d : FInv (d_fib _ d) (d_rt _ d) -> rib_inv (d_rib _ d) -> DInv (run_fu o1 o2 d).
  Proof.
    intros HI HR. unfold run_fu.
    destruct (fib_update_spec o1 o2 (tables_of d) (d_fib _ d) (d_rt _ d) HI) as [A B].
    destruct (fib_update_ord o1 o2 (tables_of d) (d_fib _ d)) as [st cs]. simpl in *.
    split; [exact A|]. split; [|exact HR]. intros p f. simpl. rewrite (fi_rt _ _ A). apply B.
  Qed.

  (* a handler that does not run fibUpdate keeps the invariant when `desired` is unchanged *)
  Lemma keep_inv d d' : DInv d -> d_fib _ d' = d_fib _ d -> d_rt _ d' = d_rt _ d -> rib_inv (d_rib _ d') ->
    (forall p f, desired (tables_of d') p f = desired (tables_of d) p f) -> DInv d'.
  Proof.
    intros [HI [HM _]] Ef Er HR Hd. split; [rewrite Ef, Er; exact HI|]. split; [|exact HR].
    intros p f. rewrite Er, Hd. apply HM.
  Qed.

  Lemma face_of_aset_cur nbr n x : face_of (aset n (face_of nbr n) nbr) x = face_of nbr x.
  Proof.
    unfold face_of at 1. destruct (N.eq_dec x n) as [->|Hne].
    - rewrite alookup_aset_same. reflexivity.
    - rewrite alookup_aset_other by exact Hne. reflexivity.
  Qed.

  Lemma face_of_aremove_other nbr n x : x <> n -> face_of (aremove n nbr) x = face_of nbr x.
  Proof. intros H. unfold face_of. rewrite alookup_aremove_other by exact H. reflexivity. Qed.

  Lemma apply_ops_clean o s : apply_dirty o = false -> apply_ops o s = s.
  Proof.
    unfold apply_dirty, apply_ops. destruct o as [r a m]. simpl.
    destruct r; simpl; [discriminate|]. destruct a; simpl; [|discriminate]. destruct m; simpl; [reflexivity|discriminate].
  Qed.

  Lemma kill_fibrt ns : forall d b, d_fib _ (fst (kill ns d b)) = d_fib _ d /\ d_rt _ (fst (kill ns d b)) = d_rt _ d /\
                                    d_me _ (fst (kill ns d b)) = d_me _ d.
  Proof.
    induction ns as [|n ns IH]; intros d b; simpl; [auto|].
    destruct (N.eqb n 0); [apply IH|].
    destruct (rib_dead (d_rib _ d) n) as [rib' f]. destruct (IH (with_rib _ rib' (with_nbr _ (aremove n (d_nbr _ d)) d)) (b || f)) as [A [B C]].
    simpl in *. auto.
  Qed.

  Lemma kill_ribinv ns : forall d b, rib_inv (d_rib _ d) -> rib_inv (d_rib _ (fst (kill ns d b))).
  Proof.
    induction ns as [|n ns IH]; intros d b HR; simpl; [exact HR|].
    destruct (N.eqb n 0); [apply IH, HR|].
    pose proof (dead_keeps (d_rib _ d) n HR) as Hk.
    destruct (rib_dead (d_rib _ d) n) as [rib' f]. apply IH. exact Hk.
  Qed.

  Lemma kill_clean ns : forall d b, rib_inv (d_rib _ d) -> snd (kill ns d b) = false ->
    b = false /\ forall p f, desired (tables_of (fst (kill ns d b))) p f = desired (tables_of d) p f.
  Proof.
    induction ns as [|n ns IH]; intros d b HR H; simpl in *; [auto|].
    destruct (N.eqb_spec n 0) as [Hz|Hz]; [apply IH; assumption|].
    pose proof (dead_flag_sound (d_rib _ d) n HR) as Hfs.
    pose proof (dead_removes (d_rib _ d) n) as Hrm.
    pose proof (dead_keeps (d_rib _ d) n HR) as Hk.
    destruct (rib_dead (d_rib _ d) n) as [rib' f]. simpl in *.
    destruct (IH (with_rib _ rib' (with_nbr _ (aremove n (d_nbr _ d)) d)) (b || f) Hk H) as [Hb Hd].
    apply orb_false_iff in Hb. destruct Hb as [-> ->].
    split; [reflexivity|]. intros p q. rewrite Hd.
    apply desired_frame; simpl; auto.
    - intros r Hr. apply (Hfs eq_refl) in Hr. destruct (Hrm r HR Hz Hr) as [H1 H2].
      split; apply face_of_aremove_other; assumption.
  Qed.

  Lemma dstep_inv d e : DInv d -> DInv (dstep d e).
  Proof.
    intros HD. pose proof HD as [HI [HM HR]]. destruct e; simpl.
    - (* DPing *)
      destruct (N.eqb (face_of (d_nbr _ d) n) face).
      + apply (keep_inv d); auto. intros p f. apply desired_frame; simpl; auto; [tauto|].
        intros r _. split; apply face_of_aset_cur.
      + destruct accept; [apply run_fu_inv; assumption|].
        apply (keep_inv d); auto. intros p f. apply desired_frame; simpl; auto; [tauto|].
        intros r _. split; apply face_of_aset_cur.
    - (* DRib *)
      pose proof (flag_sound (d_rib _ d) e HR) as Hf.
      pose proof (step_keeps (d_rib _ d) e HR) as Hk.
      destruct (rib_step (d_rib _ d) e) as [rib' dirty]. simpl in Hf, Hk.
      destruct dirty; [apply run_fu_inv; assumption|].
      apply (keep_inv d); auto. intros p f. apply desired_frame; simpl; auto; try (apply Hf; reflexivity).
    - (* DDead *)
      pose proof (kill_fibrt ns d false) as [Kf [Kr Km]]. pose proof (kill_clean ns d false HR) as Kc.
      pose proof (kill_ribinv ns d false HR) as Ki.
      destruct (kill ns d false) as [d' dirty]. simpl in *.
      destruct dirty.
      + apply run_fu_inv; [rewrite Kf, Kr; exact HI|exact Ki].
      + apply (keep_inv d); auto. apply Kc. reflexivity.
    - (* DPfx *)
      destruct (apply_dirty ops) eqn:Ed; [apply run_fu_inv; assumption|].
      apply (keep_inv d); auto. intros p f. apply desired_frame; simpl; auto; [tauto|].
      intros r _ _ _ q. unfold pfx_of, DvDaemon.tables_of, with_pfx. cbn [t_pfx d_pfx].
      destruct (N.eq_dec (re_name r) router) as [->|Hne].
      * rewrite alookup_aset_same, (apply_ops_clean _ _ Ed). reflexivity.
      * rewrite alookup_aset_other by exact Hne. reflexivity.
    - exact HD.
    - apply run_fu_inv; assumption.
  Qed.

  (* at start the RIB holds at most the router's own entry (Router.Start: rib.Set(self, self, 0)) *)
  Lemma dinit_inv me r0 : rib_inv r0 -> (forall x, In x (rib_view r0) -> re_name x = me) -> DInv (dinit ribT me r0).
  Proof.
    intros HR H. split; [apply FInv_init|]. split; [|exact HR]. intros p f. simpl.
    destruct (desired (tables_of (dinit ribT me r0)) p f) as [c|] eqn:E; [|reflexivity]. exfalso.
    unfold desired in E. apply min_cost_Some in E. destruct E as [E _]. apply cands_In in E.
    destruct E as [r [Hr [He _]]]. simpl in Hr. unfold elig in He. apply andb_true_iff in He. destruct He as [_ He].
    apply negb_true_iff, N.eqb_neq in He. apply He. simpl. apply H, Hr.
  Qed.

  Lemma daemon_keeps_mirror_l : forall me r0 evs, rib_inv r0 -> (forall x, In x (rib_view r0) -> re_name x = me) ->
    Mirror (drun me r0 evs).
  Proof.
    intros me r0 evs HR H. unfold drun.
    assert (G : forall l d, DInv d -> DInv (fold_left dstep l d)).
    { induction l as [|e l IH]; intros d Hd; simpl; [exact Hd|]. apply IH, dstep_inv, Hd. }
    apply (G evs (dinit ribT me r0) (dinit_inv me r0 HR H)).
  Qed.
End DaemonProofs.
