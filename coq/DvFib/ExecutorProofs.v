(* DvFib/ExecutorProofs.v — the executor preserves the order of the emitted commands. *)
From Coq Require Import Lia.
From DvFib Require Import Executor.
Open Scope Z_scope.

Section ExecutorProofs.
  Variable A : Type.
  Notation xcmd := (xcmd A).
  Notation xstate := (xstate A).
  Notation xstep := (xstep A).
  Notation xrun := (xrun A).
  Notation emitted := (emitted A).
  Notation cur_list := (cur_list A).

  Definition XInv (em : list xcmd) (s : xstate) : Prop :=
    map fst (x_proc A s) ++ cur_list s ++ x_q A s = em /\
    x_log A s = map (x_cmd A) (map fst (filter snd (x_proc A s))) /\
    (forall c, In (c, false) (x_proc A s) -> 0 <= x_retries A c) /\
    (forall c i, x_cur A s = Some (c, i) -> 0 <= i <= lead_fails (x_att A s)).

  Lemma filter_snoc {B} (p : B -> bool) l x : filter p (l ++ [x]) = filter p l ++ (if p x then [x] else []).
  Proof. rewrite filter_app. simpl. destruct (p x); reflexivity. Qed.

  Lemma emitted_snoc evs e : emitted (evs ++ [e]) = emitted evs ++ match e with XEnq _ c => [c] | XTick _ _ => [] end.
  Proof. unfold Executor.emitted. rewrite flat_map_app. simpl. rewrite app_nil_r. reflexivity. Qed.

  Lemma lead_fails_nonneg l : 0 <= lead_fails l.
  Proof. induction l as [|[] l IH]; cbn [lead_fails]; lia. Qed.

  Lemma xstep_inv em s e : XInv em s ->
    XInv (em ++ match e with XEnq _ c => [c] | XTick _ _ => [] end) (xstep s e).
  Proof.
    intros [H1 [H2 [H3 H4]]]. destruct e as [c|fail]; cbn -[Z.add].
    - split; [|split; [|split]]; cbn -[Z.add]; [|exact H2|exact H3|exact H4].
      rewrite <- H1. unfold Executor.cur_list. simpl. rewrite !app_assoc. reflexivity.
    - rewrite app_nil_r. destruct (x_cur A s) as [[c i]|] eqn:Ec.
      + assert (Hem : map fst (x_proc A s) ++ [c] ++ x_q A s = em).
        { rewrite <- H1. unfold Executor.cur_list. rewrite Ec. reflexivity. }
        destruct (H4 c i eq_refl) as [Hi0 Hi].
        destruct (loop_cond A c i) eqn:El.
        * destruct fail.
          -- split; [|split; [|split]]; cbn -[Z.add].
             ++ exact Hem.
             ++ exact H2.
             ++ exact H3.
             ++ intros c0 i0 E. inversion E; subst. lia.
          -- split; [|split; [|split]]; cbn -[Z.add].
             ++ unfold Executor.cur_list. simpl. rewrite map_app. simpl. rewrite <- app_assoc. exact Hem.
             ++ rewrite filter_snoc. simpl. rewrite !map_app. simpl. rewrite H2. reflexivity.
             ++ intros c0 Hin. apply in_app_or in Hin. destruct Hin as [Hin|[Hin|[]]]; [auto|discriminate].
             ++ intros c0 i0 E. discriminate.
        * split; [|split; [|split]]; cbn -[Z.add].
          -- unfold Executor.cur_list. simpl. rewrite map_app. simpl. rewrite <- app_assoc. exact Hem.
          -- rewrite filter_snoc. simpl. rewrite app_nil_r. exact H2.
          -- intros c0 Hin. apply in_app_or in Hin. destruct Hin as [Hin|[Hin|[]]]; [auto|].
             inversion Hin; subst c0. unfold loop_cond in El.
             apply orb_false_iff in El. destruct El as [E1 E2]. apply Z.ltb_ge in E1. lia.
          -- intros c0 i0 E. discriminate.
      + destruct (x_q A s) as [|c r] eqn:Eq.
        * split; [|split; [|split]]; [|exact H2|exact H3|].
          -- unfold Executor.cur_list in *. rewrite Ec in *. rewrite Eq. exact H1.
          -- intros c i E. rewrite Ec in E. discriminate.
        * split; [|split; [|split]]; cbn -[Z.add]; [|exact H2|exact H3|].
          -- rewrite <- H1. unfold Executor.cur_list. rewrite Ec. simpl. reflexivity.
          -- intros c0 i0 E. inversion E; subst. pose proof (lead_fails_nonneg (x_att A s)). lia.
  Qed.

  Lemma xrun_inv evs : XInv (emitted evs) (xrun evs).
  Proof.
    induction evs as [|e evs IH] using rev_ind.
    - unfold Executor.xrun, Executor.emitted. simpl. repeat split; simpl; auto; try contradiction; discriminate.
    - rewrite emitted_snoc. unfold Executor.xrun in *. rewrite fold_left_app. simpl. apply xstep_inv, IH.
  Qed.

  (* executor_preserves_order: for every interleaving of Exec calls and thread steps and every fault pattern, the commands
     the loop is done with, the one it holds and the queue are the emitted sequence, in order; what was successfully
     executed is the done part minus the dropped commands, in order; a command is dropped only with a finite budget *)
  Lemma executor_preserves_order_l : forall evs, let s := xrun evs in
    map fst (x_proc A s) ++ cur_list s ++ x_q A s = emitted evs /\
    x_log A s = map (x_cmd A) (map fst (filter snd (x_proc A s))) /\
    (forall c, In (c, false) (x_proc A s) -> 0 <= x_retries A c).
  Proof. intros evs. destruct (xrun_inv evs) as [H1 [H2 [H3 _]]]. auto. Qed.

  Lemma filter_all {B} (p : B -> bool) l : forallb p l = true -> filter p l = l.
  Proof.
    induction l as [|x l IH]; simpl; [reflexivity|]. intros H. apply andb_true_iff in H. destruct H as [Hx Hl].
    rewrite Hx, IH by exact Hl. reflexivity.
  Qed.

  (* nothing dropped and the queue drained: the forwarder saw exactly the emitted stream *)
  Lemma executor_no_loss_l : forall evs, let s := xrun evs in
    x_q A s = [] -> x_cur A s = None -> forallb snd (x_proc A s) = true ->
    x_log A s = map (x_cmd A) (emitted evs).
  Proof.
    intros evs s Hq Hc Hall. destruct (xrun_inv evs) as [H1 [H2 _]]. fold s in H1, H2.
    unfold Executor.cur_list in H1. rewrite Hq, Hc in H1. simpl in H1. rewrite app_nil_r in H1.
    rewrite H2, filter_all by exact Hall. rewrite H1. reflexivity.
  Qed.

  (* transient faults within the budget drop nothing: if no r consecutive ExecMgmtCmd calls failed and every command has a
     budget of at least r (or an unlimited one), every command the loop is done with was executed *)
  Lemma max_run_lead l : lead_fails l <= max_run l.
  Proof. destruct l as [|b l]; simpl; [lia|]. destruct b; lia. Qed.

  Lemma max_run_cons b l : max_run l <= max_run (b :: l).
  Proof. simpl. lia. Qed.

  Lemma faults_within_budget_l : forall r evs, let s := xrun evs in
    (forall c, In c (emitted evs) -> x_retries A c < 0 \/ r <= x_retries A c) ->
    max_run (x_att A s) < r -> forallb snd (x_proc A s) = true.
  Proof.
    intros r evs. induction evs as [|e evs IH] using rev_ind; intros s Hb Hm.
    - reflexivity.
    - unfold s, Executor.xrun in *. rewrite fold_left_app in *. simpl in *.
      set (s0 := fold_left xstep evs (xinit A)) in *.
      assert (Hb0 : forall c, In c (emitted evs) -> x_retries A c < 0 \/ r <= x_retries A c).
      { intros c Hc. apply Hb. rewrite emitted_snoc. apply in_or_app. left. exact Hc. }
      destruct (xrun_inv evs) as [I1 [_ [_ I4]]]. unfold Executor.xrun in I1, I4. fold s0 in I1, I4.
      destruct e as [c|fail]; simpl in *; [apply IH; assumption|].
      destruct (x_cur A s0) as [[c i]|] eqn:Ec.
      + destruct (loop_cond A c i) eqn:El.
        * destruct fail; simpl in *.
          -- apply IH; [exact Hb0|]. pose proof (max_run_cons true (x_att A s0)). simpl in H. lia.
          -- rewrite forallb_app. simpl. rewrite IH; [reflexivity|exact Hb0|]. pose proof (max_run_cons false (x_att A s0)). simpl in H. lia.
        * simpl in *. exfalso.
          assert (Hin : In c (emitted evs)).
          { rewrite <- I1. apply in_or_app. right. apply in_or_app. left. unfold Executor.cur_list. rewrite Ec. left. reflexivity. }
          destruct (I4 c i eq_refl) as [Hi0 Hi]. pose proof (max_run_lead (x_att A s0)).
          unfold loop_cond in El. apply orb_false_iff in El. destruct El as [E1 E2].
          apply Z.ltb_ge in E1. apply Z.ltb_ge in E2. destruct (Hb0 c Hin); lia.
      + destruct (x_q A s0); simpl in *; apply IH; assumption.
  Qed.
End ExecutorProofs.
