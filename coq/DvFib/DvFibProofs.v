(* DvFib/DvFibProofs.v — the installer mirrors the tables: after fibUpdate, the forwarder's route table (fold of every
   command ever emitted) equals the from-scratch `desired` computation, for every history of table changes. *)
From Coq Require Import Lia ZifyBool ZifyN ZifyNat.
From DvFib Require Import U64 GenConsts PfxLog PfxLogProofs DvFib.
Open Scope N_scope.

(* ------------------------------------------------------------------ association lists *)
Lemma alookup_aremove_same {A} k (m : list (N * A)) : alookup k (aremove k m) = None.
Proof.
  induction m as [|[k' v] r IH]; simpl; [reflexivity|].
  destruct (N.eqb_spec k' k); [exact IH|]. simpl. destruct (N.eqb_spec k' k); [contradiction|exact IH].
Qed.

Lemma alookup_aremove_other {A} k k2 (m : list (N * A)) : k2 <> k -> alookup k2 (aremove k m) = alookup k2 m.
Proof.
  intros H. induction m as [|[k' v] r IH]; simpl; [reflexivity|].
  destruct (N.eqb_spec k' k).
  - subst. destruct (N.eqb_spec k k2); [congruence|exact IH].
  - simpl. destruct (N.eqb_spec k' k2); [reflexivity|exact IH].
Qed.

Lemma alookup_aset_same {A} k (v : A) m : alookup k (aset k v m) = Some v.
Proof. unfold aset. simpl. rewrite N.eqb_refl. reflexivity. Qed.

Lemma alookup_aset_other {A} k k2 (v : A) m : k2 <> k -> alookup k2 (aset k v m) = alookup k2 m.
Proof.
  intros H. unfold aset. simpl. destruct (N.eqb_spec k k2); [congruence|]. apply alookup_aremove_other, H.
Qed.

Lemma alookup_None_notin {A} k (m : list (N * A)) : alookup k m = None <-> ~ In k (map fst m).
Proof.
  induction m as [|[k' v] r IH]; simpl; [tauto|].
  destruct (N.eqb_spec k' k).
  - split; [discriminate|]. intros H. exfalso. apply H. left. exact e.
  - rewrite IH. split; [intros H [E|E]; [congruence|auto]|intros H E; apply H; right; exact E].
Qed.

(* ------------------------------------------------------------------ entries of one prefix *)
Fixpoint fe_lookup (es : list fe) (f : N) : option fe :=
  match es with
  | [] => None
  | e :: r => if N.eqb (fe_face e) f then Some e else fe_lookup r f
  end.

Lemma fe_lookup_face es f e : fe_lookup es f = Some e -> fe_face e = f.
Proof.
  induction es as [|x r IH]; simpl; [discriminate|].
  destruct (N.eqb_spec (fe_face x) f) as [Hf|Hf]; [intros E; inversion E; subst; reflexivity|exact IH].
Qed.

Lemma fe_lookup_In es f e : fe_lookup es f = Some e -> In e es.
Proof.
  induction es as [|x r IH]; simpl; [discriminate|].
  destruct (N.eqb (fe_face x) f); [intros E; inversion E; left; reflexivity|right; auto].
Qed.

Lemma fe_lookup_None es f : fe_lookup es f = None <-> ~ In f (map fe_face es).
Proof.
  induction es as [|x r IH]; simpl; [tauto|].
  destruct (N.eqb_spec (fe_face x) f).
  - split; [discriminate|]. intros H. exfalso. apply H. left. exact e.
  - rewrite IH. split; [intros H [E|E]; [congruence|auto]|intros H E; apply H; right; exact E].
Qed.

Lemma fe_lookup_app es es2 f :
  fe_lookup (es ++ es2) f = match fe_lookup es f with Some e => Some e | None => fe_lookup es2 f end.
Proof.
  induction es as [|x r IH]; simpl; [reflexivity|]. destruct (N.eqb (fe_face x) f); [reflexivity|exact IH].
Qed.

Lemma fe_lookup_filter p es f : NoDup (map fe_face es) ->
  fe_lookup (filter p es) f = match fe_lookup es f with Some e => if p e then Some e else None | None => None end.
Proof.
  induction es as [|x r IH]; simpl; [reflexivity|]. intros Hn. inversion Hn as [|? ? Hx Hr]; subst.
  destruct (p x) eqn:Ep; simpl.
  - destruct (N.eqb_spec (fe_face x) f); [rewrite Ep; reflexivity|apply IH, Hr].
  - destruct (N.eqb_spec (fe_face x) f).
    + rewrite Ep. subst f.
      assert (Hnone : fe_lookup r (fe_face x) = None) by (apply fe_lookup_None; exact Hx).
      rewrite (IH Hr), Hnone. reflexivity.
    + apply IH, Hr.
Qed.

Lemma filter_faces_NoDup p es : NoDup (map fe_face es) -> NoDup (map fe_face (filter p es)).
Proof.
  induction es as [|x r IH]; simpl; intros Hn; [constructor|]. inversion Hn as [|? ? Hx Hr]; subst.
  destruct (p x); simpl; [|auto]. constructor; [|auto].
  intros Hin. apply Hx. apply in_map_iff in Hin. destruct Hin as [y [E Hy]]. apply filter_In in Hy.
  apply in_map_iff. exists y. tauto.
Qed.

(* ------------------------------------------------------------------ min_cost *)
Definition fin (l : list (N * N)) : list (N * N) := filter (fun fc => negb (cost_infinity <=? snd fc)) l.

Lemma min_cost_Some f l m : min_cost f l = Some m -> In (f, m) l /\ forall c, In (f, c) l -> m <= c.
Proof.
  revert m. induction l as [|[f' c'] r IH]; simpl; intros m H; [discriminate|].
  destruct (N.eqb_spec f' f).
  - subst f'. destruct (min_cost f r) as [m'|] eqn:E.
    + inversion H; subst m. destruct (IH m' eq_refl) as [Hin Hmin].
      split.
      * destruct (N.min_spec c' m') as [[_ ->]|[_ ->]]; [left; reflexivity|right; exact Hin].
      * intros c [Ec|Hc]; [inversion Ec; lia|specialize (Hmin c Hc); lia].
    + inversion H; subst m. split; [left; reflexivity|].
      intros c [Ec|Hc]; [inversion Ec; lia|].
      exfalso. clear -E Hc. induction r as [|[f2 c2] r IH]; simpl in *; [contradiction|].
      destruct (N.eqb_spec f2 f).
      * destruct (min_cost f r); discriminate.
      * destruct Hc as [Ec|Hc]; [inversion Ec; congruence|auto].
  - destruct (IH m H) as [Hin Hmin]. split; [right; exact Hin|].
    intros c [Ec|Hc]; [inversion Ec; congruence|auto].
Qed.

Lemma min_cost_None f l : min_cost f l = None <-> forall c, ~ In (f, c) l.
Proof.
  induction l as [|[f' c'] r IH]; simpl; [tauto|].
  destruct (N.eqb_spec f' f).
  - subst. split; [destruct (min_cost f r); discriminate|]. intros H. exfalso. apply (H c'). left. reflexivity.
  - rewrite IH. split; intros H c; [intros [E|E]; [inversion E; congruence|apply (H c E)]|intros E; apply (H c); right; exact E].
Qed.

(* min_cost depends only on which costs occur with that face *)
Lemma min_cost_ext f l1 l2 : (forall c, In (f, c) l1 <-> In (f, c) l2) -> min_cost f l1 = min_cost f l2.
Proof.
  intros H. destruct (min_cost f l1) as [m1|] eqn:E1; destruct (min_cost f l2) as [m2|] eqn:E2; auto.
  - apply min_cost_Some in E1. apply min_cost_Some in E2. destruct E1 as [I1 M1], E2 as [I2 M2].
    f_equal. pose proof (M1 m2 (proj2 (H m2) I2)). pose proof (M2 m1 (proj1 (H m1) I1)). lia.
  - apply min_cost_Some in E1. destruct E1 as [I1 _]. exfalso. exact (proj1 (min_cost_None f l2) E2 m1 (proj1 (H m1) I1)).
  - apply min_cost_Some in E2. destruct E2 as [I2 _]. exfalso. exact (proj1 (min_cost_None f l1) E1 m2 (proj2 (H m2) I2)).
Qed.

Lemma fin_In fc l : In fc (fin l) <-> In fc l /\ snd fc < cost_infinity.
Proof. unfold fin. rewrite filter_In. destruct (N.leb_spec cost_infinity (snd fc)); simpl; intuition (try lia; try discriminate). Qed.

Lemma min_cost_fin_lt f l m : min_cost f (fin l) = Some m -> m < cost_infinity.
Proof. intros H. apply min_cost_Some in H. destruct H as [H _]. apply fin_In in H. simpl in H. tauto. Qed.

(* ------------------------------------------------------------------ UpdateH: the merge *)
Definition minl (c : N) (o : option N) : N := match o with Some m => N.min m c | None => c end.
Definition upd (e : fe) (o : option N) : fe :=
  {| fe_face := fe_face e; fe_cost := minl (fe_cost e) o; fe_prev := fe_prev e |}.

Lemma merge_one_None es f c : merge_one es f c = None <-> fe_lookup es f = None.
Proof.
  induction es as [|x r IH]; simpl; [tauto|].
  destruct (N.eqb (fe_face x) f); [split; discriminate|].
  destruct (merge_one r f c); [split; [discriminate|]; intros H; apply IH in H; discriminate|].
  split; intros _; [apply IH|]; reflexivity.
Qed.

Lemma merge_one_Some es f c : forall es', merge_one es f c = Some es' ->
  map fe_face es' = map fe_face es /\
  (exists e, fe_lookup es f = Some e /\
             fe_lookup es' f = Some {| fe_face := fe_face e; fe_cost := N.min c (fe_cost e); fe_prev := fe_prev e |}) /\
  (forall g, g <> f -> fe_lookup es' g = fe_lookup es g).
Proof.
  induction es as [|x r IH]; simpl; intros es' H; [discriminate|].
  destruct (N.eqb_spec (fe_face x) f) as [Hf|Hf].
  - inversion H; subst es'. simpl. split; [reflexivity|]. split.
    + exists x. split; [reflexivity|]. destruct (N.eqb_spec (fe_face x) f); [reflexivity|contradiction].
    + intros g Hg. destruct (N.eqb_spec (fe_face x) g); [congruence|reflexivity].
  - destruct (merge_one r f c) as [r'|] eqn:E; [|discriminate]. inversion H; subst es'.
    destruct (IH r' eq_refl) as [Hm [[e [He1 He2]] Ho]]. simpl. split; [f_equal; exact Hm|]. split.
    + exists e. split; [exact He1|]. destruct (N.eqb_spec (fe_face x) f); [contradiction|exact He2].
    + intros g Hg. destruct (N.eqb (fe_face x) g); [reflexivity|apply Ho, Hg].
Qed.

Lemma fin_cons_keep fc l : snd fc < cost_infinity -> fin (fc :: l) = fc :: fin l.
Proof. intros H. unfold fin. simpl. destruct (N.leb_spec cost_infinity (snd fc)); [lia|reflexivity]. Qed.
Lemma fin_cons_drop fc l : cost_infinity <= snd fc -> fin (fc :: l) = fin l.
Proof. intros H. unfold fin. simpl. destruct (N.leb_spec cost_infinity (snd fc)); [reflexivity|lia]. Qed.

Lemma fe_eq a b : fe_face a = fe_face b -> fe_cost a = fe_cost b -> fe_prev a = fe_prev b -> a = b.
Proof. destruct a, b; simpl; intros; subst; reflexivity. Qed.

Lemma NoDup_snoc {A} (l : list A) x : NoDup l -> ~ In x l -> NoDup (l ++ [x]).
Proof.
  induction l as [|a l IH]; simpl; intros Hn Hx; [constructor; [intros []|constructor]|].
  inversion Hn as [|? ? Ha Hl]; subst. constructor.
  - rewrite in_app_iff. simpl. intros [H|[H|[]]]; [auto|subst; apply Hx; left; reflexivity].
  - apply IH; [exact Hl|]. intros H. apply Hx. right. exact H.
Qed.

Lemma merge_new_spec : forall new acc, NoDup (map fe_face acc) ->
  NoDup (map fe_face (merge_new acc new)) /\
  forall f, fe_lookup (merge_new acc new) f =
    match fe_lookup acc f with
    | Some e => Some (upd e (min_cost f (fin new)))
    | None => match min_cost f (fin new) with
              | Some m => Some {| fe_face := f; fe_cost := m; fe_prev := cost_infinity |}
              | None => None
              end
    end.
Proof.
  induction new as [|[f0 c0] new IH]; intros acc Hn.
  - simpl. split; [exact Hn|]. intros f. destruct (fe_lookup acc f) as [e|]; [|reflexivity].
    f_equal. apply fe_eq; reflexivity.
  - unfold merge_new. simpl fold_left. fold (merge_new).
    destruct (N.leb_spec cost_infinity c0) as [Hc|Hc].
    + change (fold_left _ new acc) with (merge_new acc new).
      rewrite fin_cons_drop by exact Hc. apply IH, Hn.
    + rewrite fin_cons_keep by exact Hc.
      destruct (merge_one acc f0 c0) as [acc'|] eqn:Em.
      * change (fold_left _ new acc') with (merge_new acc' new).
        destruct (merge_one_Some _ _ _ _ Em) as [Hm [[e [He1 He2]] Ho]].
        assert (Hn' : NoDup (map fe_face acc')) by (rewrite Hm; exact Hn).
        destruct (IH acc' Hn') as [Hnd Hl]. split; [exact Hnd|].
        intros f. rewrite Hl. simpl min_cost.
        destruct (N.eqb_spec f0 f) as [Hf|Hf].
        -- subst f0. rewrite He1, He2. f_equal.
           destruct (min_cost f (fin new)) as [m|]; apply fe_eq; simpl; auto; lia.
        -- rewrite (Ho f) by congruence. reflexivity.
      * change (fold_left _ new (acc ++ _)) with
          (merge_new (acc ++ [{| fe_face := f0; fe_cost := c0; fe_prev := cost_infinity |}]) new).
        apply merge_one_None in Em.
        set (e0 := {| fe_face := f0; fe_cost := c0; fe_prev := cost_infinity |}).
        assert (Hn' : NoDup (map fe_face (acc ++ [e0]))).
        { rewrite map_app. simpl. apply NoDup_snoc; [exact Hn|apply fe_lookup_None, Em]. }
        destruct (IH _ Hn') as [Hnd Hl]. split; [exact Hnd|].
        intros f. rewrite Hl, fe_lookup_app. simpl min_cost. simpl fe_lookup.
        destruct (N.eqb_spec f0 f) as [Hf|Hf].
        -- subst f0. rewrite Em.
           destruct (min_cost f (fin new)) as [m|]; f_equal; apply fe_eq; simpl; auto; lia.
        -- destruct (fe_lookup acc f); reflexivity.
Qed.

(* ------------------------------------------------------------------ the reference route table *)
Definition cmd_key (c : cmd) : N * N := match c with Reg n f _ => (n, f) | Unreg n f => (n, f) end.
Definition cmd_eff (c : cmd) : option N := match c with Reg _ _ c => Some c | Unreg _ _ => None end.

Lemma key_eqb_spec a b : key_eqb a b = true <-> a = b.
Proof.
  destruct a, b. unfold key_eqb. simpl. rewrite andb_true_iff, !N.eqb_eq. split; [intros [-> ->]; reflexivity|intros E; inversion E; auto].
Qed.

Lemma key_eqb_refl a : key_eqb a a = true.
Proof. apply key_eqb_spec. reflexivity. Qed.

Lemma rt_lookup_remove rt k k2 :
  rt_lookup (rt_remove rt k) k2 = if key_eqb k k2 then None else rt_lookup rt k2.
Proof.
  induction rt as [|[k' c] r IH]; simpl; [destruct (key_eqb k k2); reflexivity|].
  destruct (key_eqb k' k) eqn:E1.
  - apply key_eqb_spec in E1. subst k'. rewrite IH. destruct (key_eqb k k2); reflexivity.
  - simpl. destruct (key_eqb k' k2) eqn:E2; [|exact IH].
    apply key_eqb_spec in E2. subst k'. destruct (key_eqb k k2) eqn:E3; [|reflexivity].
    apply key_eqb_spec in E3. subst. rewrite key_eqb_refl in E1. discriminate.
Qed.

Lemma rt_lookup_apply rt c k :
  rt_lookup (rt_apply rt c) k = if key_eqb (cmd_key c) k then cmd_eff c else rt_lookup rt k.
Proof.
  destruct c as [n f c|n f]; simpl.
  - destruct (key_eqb (n, f) k) eqn:E; [reflexivity|]. rewrite rt_lookup_remove, E. reflexivity.
  - apply rt_lookup_remove.
Qed.

(* effect of a command list on one key: the last command with that key wins *)
Fixpoint run_sem (d : option N) (cs : list cmd) (k : N * N) : option N :=
  match cs with
  | [] => d
  | c :: r => run_sem (if key_eqb (cmd_key c) k then cmd_eff c else d) r k
  end.

Lemma rt_run_sem cs : forall rt k, rt_lookup (rt_run rt cs) k = run_sem (rt_lookup rt k) cs k.
Proof.
  induction cs as [|c r IH]; intros rt k; simpl; [reflexivity|].
  unfold rt_run in *. simpl. rewrite IH, rt_lookup_apply. reflexivity.
Qed.

Lemma run_sem_app d a b k : run_sem d (a ++ b) k = run_sem (run_sem d a k) b k.
Proof. revert d. induction a as [|c r IH]; intros d; simpl; [reflexivity|apply IH]. Qed.

Lemma rt_run_app rt a b : rt_run rt (a ++ b) = rt_run (rt_run rt a) b.
Proof. unfold rt_run. apply fold_left_app. Qed.

Lemma run_sem_untouched d cs k : (forall c, In c cs -> cmd_key c <> k) -> run_sem d cs k = d.
Proof.
  revert d. induction cs as [|c r IH]; intros d H; simpl; [reflexivity|].
  destruct (key_eqb (cmd_key c) k) eqn:E.
  - apply key_eqb_spec in E. exfalso. apply (H c); [left; reflexivity|exact E].
  - apply IH. intros c' Hc'. apply H. right. exact Hc'.
Qed.

(* commands generated entry by entry, each about (name, face of its entry), faces distinct *)
Lemma run_sem_flat_map name (g : fe -> list cmd) es : forall d f,
  (forall e c, In c (g e) -> cmd_key c = (name, fe_face e)) ->
  NoDup (map fe_face es) ->
  run_sem d (flat_map g es) (name, f) =
    match fe_lookup es f with Some e => run_sem d (g e) (name, f) | None => d end.
Proof.
  induction es as [|x r IH]; intros d f Hg Hn; simpl; [reflexivity|].
  inversion Hn as [|? ? Hx Hr]; subst.
  rewrite run_sem_app.
  destruct (N.eqb_spec (fe_face x) f) as [Hf|Hf].
  - subst f. rewrite (IH _ _ Hg Hr).
    assert (Hnone : fe_lookup r (fe_face x) = None) by (apply fe_lookup_None; exact Hx).
    rewrite Hnone. reflexivity.
  - rewrite (run_sem_untouched d (g x)).
    + apply IH; assumption.
    + intros c Hc. rewrite (Hg x c Hc). intros E. inversion E. contradiction.
Qed.

Lemma run_sem_other_name d cs name k :
  (forall c, In c cs -> fst (cmd_key c) = name) -> fst k <> name -> run_sem d cs k = d.
Proof.
  intros H Hk. apply run_sem_untouched. intros c Hc E. apply Hk. rewrite <- E. apply H, Hc.
Qed.

(* ------------------------------------------------------------------ invariant: route table = prefixes map *)
Definition fib_lookup (st : fibst) (name f : N) : option N :=
  match alookup name (f_prefixes st) with
  | Some es => option_map fe_cost (fe_lookup es f)
  | None => None
  end.

Record FInv (st : fibst) (rt : rtable) : Prop := {
  fi_nodup : forall name es, alookup name (f_prefixes st) = Some es -> NoDup (map fe_face es);
  fi_rt : forall name f, rt_lookup rt (name, f) = fib_lookup st name f;
  fi_names : forall name, alookup name (f_prefixes st) <> None -> mem name (f_names st) = true
}.

Lemma reset_old_faces es : map fe_face (reset_old es) = map fe_face es.
Proof. unfold reset_old. rewrite map_map. reflexivity. Qed.

Lemma fe_lookup_reset es f :
  fe_lookup (reset_old es) f =
  option_map (fun e => {| fe_face := fe_face e; fe_cost := cost_infinity; fe_prev := fe_cost e |}) (fe_lookup es f).
Proof.
  induction es as [|x r IH]; simpl; [reflexivity|]. destruct (N.eqb (fe_face x) f); [reflexivity|exact IH].
Qed.

Lemma mem_srem x y s : mem x (srem y s) = if N.eqb x y then false else mem x s.
Proof.
  destruct (N.eqb_spec x y) as [E|E].
  - subst. apply mem_false. rewrite srem_In. tauto.
  - destruct (mem x s) eqn:Em.
    + apply mem_In. apply srem_In. split; [exact E|apply mem_In, Em].
    + apply mem_false. rewrite srem_In. apply mem_false in Em. tauto.
Qed.

Lemma mem_sadd x y s : mem x (sadd y s) = (N.eqb x y || mem x s).
Proof.
  destruct (N.eqb_spec x y) as [E|E]; simpl.
  - subst. apply mem_In, sadd_In. left. reflexivity.
  - destruct (mem x s) eqn:Em.
    + apply mem_In, sadd_In. right. apply mem_In, Em.
    + apply mem_false. rewrite sadd_In. apply mem_false in Em. tauto.
Qed.

Definition gU (name : N) (e : fe) : list cmd := if cost_infinity <=? fe_cost e then [Unreg name (fe_face e)] else [].
Definition gR (name : N) (e : fe) : list cmd := if N.eqb (fe_cost e) (fe_prev e) then [] else [Reg name (fe_face e) (fe_cost e)].

Record UpdSpec (name : N) (new : list (N * N)) (st : fibst) (rt : rtable) (st' : fibst) (cs : list cmd) (ok : bool) : Prop := {
  us_inv : FInv st' (rt_run rt cs);
  us_here : forall f, fib_lookup st' name f = min_cost f (fin new);
  us_other : forall n, n <> name -> alookup n (f_prefixes st') = alookup n (f_prefixes st);
  us_ok : ok = true <-> alookup name (f_prefixes st') <> None;
  us_mark_other : forall n, n <> name -> mem n (f_mark st') = mem n (f_mark st);
  us_mark_true : ok = true -> f_mark st' = f_mark st;
  us_mark_false : ok = false -> mem name (f_mark st') = false;
  us_cmds : forall c, In c cs -> fst (cmd_key c) = name;
  us_empty : (forall f, min_cost f (fin new) = None) -> alookup name (f_prefixes st') = None
}.

Lemma update_h_spec name new st rt : FInv st rt ->
  UpdSpec name new st rt (fst (fst (update_h name new st))) (snd (fst (update_h name new st))) (snd (update_h name new st)).
Proof.
  intros HI.
  set (old := old_entries name st).
  set (M := merge_new (reset_old old) new).
  set (final := filter (fun e => negb (cost_infinity <=? fe_cost e)) M).
  set (names1 := if mem name (f_names st) then f_names st else name :: f_names st).
  assert (Hold : NoDup (map fe_face old)).
  { unfold old, old_entries. destruct (alookup name (f_prefixes st)) as [es|] eqn:E; [apply (fi_nodup _ _ HI name es E)|constructor]. }
  assert (Hrt0 : forall f, rt_lookup rt (name, f) = option_map fe_cost (fe_lookup old f)).
  { intros f. rewrite (fi_rt _ _ HI). unfold fib_lookup, old, old_entries.
    destruct (alookup name (f_prefixes st)); reflexivity. }
  destruct (merge_new_spec new (reset_old old)) as [HMn HMl]; [rewrite reset_old_faces; exact Hold|].
  fold M in HMn, HMl.
  assert (Hfn : NoDup (map fe_face final)) by (apply filter_faces_NoDup, HMn).
  (* lookup in final *)
  assert (L1 : forall f, option_map fe_cost (fe_lookup final f) = min_cost f (fin new)).
  { intros f. unfold final. rewrite (fe_lookup_filter _ _ _ HMn), HMl, fe_lookup_reset.
    destruct (fe_lookup old f) as [e|]; simpl.
    - destruct (min_cost f (fin new)) as [m|] eqn:Em; simpl.
      + pose proof (min_cost_fin_lt _ _ _ Em).
        destruct (N.leb_spec cost_infinity (N.min m cost_infinity)); [lia|]. simpl. f_equal. lia.
      + destruct (N.leb_spec cost_infinity cost_infinity); [reflexivity|lia].
    - destruct (min_cost f (fin new)) as [m|] eqn:Em; [|reflexivity]. simpl.
      pose proof (min_cost_fin_lt _ _ _ Em).
      destruct (N.leb_spec cost_infinity m); [lia|reflexivity]. }
  (* effect of the commands on (name, f) *)
  set (cs := flat_map (gU name) M ++ flat_map (gR name) final).
  assert (HgU : forall e c, In c (gU name e) -> cmd_key c = (name, fe_face e)).
  { intros e c. unfold gU. destruct (cost_infinity <=? fe_cost e); [intros [<-|[]]; reflexivity|intros []]. }
  assert (HgR : forall e c, In c (gR name e) -> cmd_key c = (name, fe_face e)).
  { intros e c. unfold gR. destruct (fe_cost e =? fe_prev e); [intros []|intros [<-|[]]; reflexivity]. }
  assert (L2 : forall f, rt_lookup (rt_run rt cs) (name, f) = min_cost f (fin new)).
  { intros f. rewrite rt_run_sem. unfold cs. rewrite run_sem_app.
    rewrite (run_sem_flat_map name (gU name) M _ f HgU HMn).
    rewrite (run_sem_flat_map name (gR name) final _ f HgR Hfn).
    rewrite <- L1. unfold final at 1 2. rewrite (fe_lookup_filter _ _ _ HMn).
    rewrite Hrt0. rewrite HMl, fe_lookup_reset.
    destruct (fe_lookup old f) as [e|] eqn:Eo; simpl.
    - assert (Hfe : fe_face e = f) by (apply (fe_lookup_face _ _ _ Eo)).
      unfold gU, gR. simpl.
      destruct (min_cost f (fin new)) as [m|] eqn:Em; simpl.
      + pose proof (min_cost_fin_lt _ _ _ Em).
        destruct (N.leb_spec cost_infinity (N.min m cost_infinity)); [lia|]. simpl.
        destruct (N.eqb_spec (N.min m cost_infinity) (fe_cost e)) as [E|E]; simpl.
        * f_equal. exact (eq_sym E).
        * rewrite Hfe, key_eqb_refl. reflexivity.
      + destruct (N.leb_spec cost_infinity cost_infinity); [|lia]. simpl.
        rewrite Hfe, key_eqb_refl. reflexivity.
    - destruct (min_cost f (fin new)) as [m|] eqn:Em; simpl; [|reflexivity].
      pose proof (min_cost_fin_lt _ _ _ Em).
      unfold gU, gR. simpl.
      destruct (N.leb_spec cost_infinity m); [lia|]. simpl.
      destruct (N.eqb_spec m cost_infinity); [lia|]. simpl.
      rewrite key_eqb_refl. reflexivity. }
  assert (Hcs : forall c, In c cs -> fst (cmd_key c) = name).
  { intros c Hc. unfold cs in Hc. rewrite in_app_iff, !in_flat_map in Hc.
    destruct Hc as [[e [_ Hc]]|[e [_ Hc]]]; [rewrite (HgU e c Hc)|rewrite (HgR e c Hc)]; reflexivity. }
  assert (Hrt_other : forall n f, n <> name -> rt_lookup (rt_run rt cs) (n, f) = rt_lookup rt (n, f)).
  { intros n f Hn. rewrite rt_run_sem. apply (run_sem_other_name _ cs name); [exact Hcs|exact Hn]. }
  assert (Hnames1 : forall n, mem n (f_names st) = true -> mem n names1 = true).
  { intros n Hn. unfold names1. destruct (mem name (f_names st)); [exact Hn|]. simpl. rewrite Hn. apply orb_true_r. }
  assert (Hname1 : mem name names1 = true).
  { unfold names1. destruct (mem name (f_names st)) eqn:E; [exact E|]. simpl. rewrite N.eqb_refl. reflexivity. }
  (* the two outcomes *)
  unfold update_h. fold old. fold M. fold final. fold names1.
  change (flat_map (fun e => if cost_infinity <=? fe_cost e then [Unreg name (fe_face e)] else []) M) with (flat_map (gU name) M).
  change (flat_map (fun e => if fe_cost e =? fe_prev e then [] else [Reg name (fe_face e) (fe_cost e)]) final) with (flat_map (gR name) final).
  fold cs.
  destruct final as [|e0 fr] eqn:Efinal; simpl fst; simpl snd.
  - (* nothing left: entry deleted *)
    constructor; simpl.
    + constructor; simpl.
      * intros n es Hl. destruct (N.eq_dec n name) as [->|Hn]; [rewrite alookup_aremove_same in Hl; discriminate|].
        rewrite alookup_aremove_other in Hl by exact Hn. apply (fi_nodup _ _ HI n es Hl).
      * intros n f. destruct (N.eq_dec n name) as [->|Hn].
        -- rewrite L2. unfold fib_lookup. simpl. rewrite alookup_aremove_same. rewrite <- L1. reflexivity.
        -- rewrite Hrt_other by exact Hn. rewrite (fi_rt _ _ HI). unfold fib_lookup. simpl.
           rewrite alookup_aremove_other by exact Hn. reflexivity.
      * intros n Hl. destruct (N.eq_dec n name) as [->|Hn]; [rewrite alookup_aremove_same in Hl; congruence|].
        rewrite alookup_aremove_other in Hl by exact Hn. rewrite mem_srem.
        destruct (N.eqb_spec n name); [contradiction|]. apply Hnames1, (fi_names _ _ HI n Hl).
    + intros f. unfold fib_lookup. simpl. rewrite alookup_aremove_same. rewrite <- L1. reflexivity.
    + intros n Hn. apply alookup_aremove_other, Hn.
    + rewrite alookup_aremove_same. split; [discriminate|congruence].
    + intros n Hn. rewrite mem_srem. destruct (N.eqb_spec n name); [contradiction|reflexivity].
    + discriminate.
    + intros _. rewrite mem_srem, N.eqb_refl. reflexivity.
    + exact Hcs.
    + intros _. apply alookup_aremove_same.
  - (* entry kept *)
    constructor; cbn [f_prefixes f_names f_mark].
    + constructor; cbn [f_prefixes f_names f_mark].
      * intros n es Hl. destruct (N.eq_dec n name) as [->|Hn].
        -- rewrite alookup_aset_same in Hl. inversion Hl; subst es. exact Hfn.
        -- rewrite alookup_aset_other in Hl by exact Hn. apply (fi_nodup _ _ HI n es Hl).
      * intros n f. destruct (N.eq_dec n name) as [->|Hn].
        -- rewrite L2. unfold fib_lookup. cbn [f_prefixes]. rewrite alookup_aset_same. rewrite <- L1. reflexivity.
        -- rewrite Hrt_other by exact Hn. rewrite (fi_rt _ _ HI). unfold fib_lookup. cbn [f_prefixes].
           rewrite alookup_aset_other by exact Hn. reflexivity.
      * intros n Hl. destruct (N.eq_dec n name) as [->|Hn]; [exact Hname1|].
        rewrite alookup_aset_other in Hl by exact Hn. apply Hnames1, (fi_names _ _ HI n Hl).
    + intros f. unfold fib_lookup. cbn [f_prefixes]. rewrite alookup_aset_same. rewrite <- L1. reflexivity.
    + intros n Hn. apply alookup_aset_other, Hn.
    + rewrite alookup_aset_same. split; [discriminate|reflexivity].
    + reflexivity.
    + reflexivity.
    + discriminate.
    + exact Hcs.
    + intros Hnone. exfalso. specialize (L1 (fe_face e0)). rewrite Hnone in L1. simpl in L1.
      rewrite N.eqb_refl in L1. discriminate.
Qed.

(* ------------------------------------------------------------------ fibUpdate: main loop *)
Definition set_mark (m : list N) (st : fibst) : fibst :=
  {| f_prefixes := f_prefixes st; f_names := f_names st; f_mark := m |}.

Lemma FInv_mark st rt m : FInv st rt -> FInv (set_mark m st) rt.
Proof. intros [A B C]. constructor; simpl; auto. Qed.

Definition ml_step (acc : fibst * list cmd) (kv : N * list (N * N)) : fibst * list cmd :=
  let '(st1, cs, ok) := update_h (fst kv) (snd kv) (fst acc) in
  let st2 := if ok then {| f_prefixes := f_prefixes st1; f_names := f_names st1; f_mark := sadd (fst kv) (f_mark st1) |} else st1 in
  (st2, snd acc ++ cs).

Lemma main_loop_unfold l st : main_loop l st = fold_left ml_step l (st, []).
Proof. reflexivity. Qed.

Lemma ml_acc l : forall st acc,
  fold_left ml_step l (st, acc) = (fst (fold_left ml_step l (st, [])), acc ++ snd (fold_left ml_step l (st, []))).
Proof.
  induction l as [|kv l IH]; intros st acc; simpl; [rewrite app_nil_r; reflexivity|].
  unfold ml_step at 2 4 6. simpl fst. simpl snd.
  destruct (update_h (fst kv) (snd kv) st) as [[st1 cs] ok].
  rewrite IH. rewrite (IH _ ([] ++ cs)). simpl. rewrite app_assoc. reflexivity.
Qed.

Lemma main_loop_cons kv l st :
  main_loop (kv :: l) st =
  let '(st1, cs, ok) := update_h (fst kv) (snd kv) st in
  let st2 := if ok then set_mark (sadd (fst kv) (f_mark st1)) st1 else st1 in
  (fst (main_loop l st2), cs ++ snd (main_loop l st2)).
Proof.
  rewrite !main_loop_unfold. simpl. unfold ml_step at 2. simpl fst. simpl snd.
  destruct (update_h (fst kv) (snd kv) st) as [[st1 cs] ok]. rewrite ml_acc. reflexivity.
Qed.

Record MainSpec (l : list (N * list (N * N))) (st : fibst) (rt : rtable) (st1 : fibst) (cs : list cmd) : Prop := {
  ms_inv : FInv st1 (rt_run rt cs);
  ms_in : forall name fes, In (name, fes) l -> forall f, fib_lookup st1 name f = min_cost f (fin fes);
  ms_out : forall name, ~ In name (map fst l) ->
           alookup name (f_prefixes st1) = alookup name (f_prefixes st) /\ mem name (f_mark st1) = mem name (f_mark st);
  ms_marked : forall name, In name (map fst l) -> alookup name (f_prefixes st1) <> None -> mem name (f_mark st1) = true
}.

Lemma fib_lookup_ext st st' name f :
  alookup name (f_prefixes st') = alookup name (f_prefixes st) -> fib_lookup st' name f = fib_lookup st name f.
Proof. unfold fib_lookup. intros ->. reflexivity. Qed.

Lemma main_loop_spec : forall l st rt, NoDup (map fst l) -> FInv st rt ->
  MainSpec l st rt (fst (main_loop l st)) (snd (main_loop l st)).
Proof.
  induction l as [|[name0 fes0] l IH]; intros st rt Hn HI.
  - simpl. constructor; simpl; auto. intros _ _ [].
  - rewrite main_loop_cons. simpl fst. simpl snd.
    pose proof (update_h_spec name0 fes0 st rt HI) as HU.
    destruct (update_h name0 fes0 st) as [[st1 cs1] ok]. simpl in HU.
    inversion Hn as [|? ? Hx Hl]; subst.
    set (st2 := if ok then set_mark (sadd name0 (f_mark st1)) st1 else st1).
    assert (HI2 : FInv st2 (rt_run rt cs1)).
    { unfold st2. destruct ok; [apply FInv_mark|]; apply (us_inv _ _ _ _ _ _ _ HU). }
    assert (Hp2 : f_prefixes st2 = f_prefixes st1) by (unfold st2; destruct ok; reflexivity).
    assert (Hm2 : forall n, n <> name0 -> mem n (f_mark st2) = mem n (f_mark st1)).
    { intros n Hne. unfold st2. destruct ok; [|reflexivity]. simpl. rewrite mem_sadd.
      destruct (N.eqb_spec n name0); [contradiction|reflexivity]. }
    specialize (IH st2 (rt_run rt cs1) Hl HI2).
    destruct (main_loop l st2) as [st3 cs3]. simpl in *.
    destruct IH as [A B C D].
    constructor.
    + rewrite rt_run_app. exact A.
    + intros name fes [E|Hin] f.
      * inversion E; subst name fes.
        destruct (C name0 Hx) as [C1 _].
        rewrite (fib_lookup_ext st1 st3) by (rewrite C1, Hp2; reflexivity).
        apply (us_here _ _ _ _ _ _ _ HU).
      * apply (B name fes Hin f).
    + intros name Hni. simpl in Hni.
      assert (Hne : name <> name0) by (intros E; apply Hni; left; symmetry; exact E).
      assert (Hnl : ~ In name (map fst l)) by (intros E; apply Hni; right; exact E).
      destruct (C name Hnl) as [C1 C2]. split.
      * rewrite C1, Hp2. apply (us_other _ _ _ _ _ _ _ HU), Hne.
      * rewrite C2, Hm2 by exact Hne. apply (us_mark_other _ _ _ _ _ _ _ HU), Hne.
    + intros name [E|Hin] Hnn.
      * simpl in E. subst name. destruct (C name0 Hx) as [C1 C2].
        rewrite C2. rewrite C1, Hp2 in Hnn.
        apply (us_ok _ _ _ _ _ _ _ HU) in Hnn. subst ok. unfold st2. simpl. rewrite mem_sadd, N.eqb_refl. reflexivity.
      * apply (D name Hin Hnn).
Qed.

(* ------------------------------------------------------------------ fibUpdate: RemoveUnmarked *)
Definition ru_step (acc : fibst * list cmd) (k : N) : fibst * list cmd :=
  let st0 := fst acc in
  if negb (mem k (f_mark st0)) && mem k (f_names st0) then
    let '(st1, cs, _) := update_h k [] st0 in (st1, snd acc ++ cs)
  else acc.

Definition ru_over (K : list N) (st : fibst) : fibst * list cmd := fold_left ru_step K (st, []).

Lemma remove_unmarked_unfold ord st : remove_unmarked_ord ord st = ru_over (reorder_keys ord (map fst (f_prefixes st))) st.
Proof. reflexivity. Qed.

Lemma ru_acc K : forall st acc,
  fold_left ru_step K (st, acc) = (fst (fold_left ru_step K (st, [])), acc ++ snd (fold_left ru_step K (st, []))).
Proof.
  induction K as [|k K IH]; intros st acc; simpl; [rewrite app_nil_r; reflexivity|].
  unfold ru_step at 2 4 6. simpl fst. simpl snd.
  destruct (negb (mem k (f_mark st)) && mem k (f_names st)).
  - destruct (update_h k [] st) as [[st1 cs] ok]. rewrite IH. rewrite (IH _ ([] ++ cs)). simpl.
    rewrite app_assoc. reflexivity.
  - apply IH.
Qed.

Lemma ru_over_cons k K st :
  ru_over (k :: K) st =
  if negb (mem k (f_mark st)) && mem k (f_names st) then
    let '(st1, cs, _) := update_h k [] st in (fst (ru_over K st1), cs ++ snd (ru_over K st1))
  else ru_over K st.
Proof.
  unfold ru_over. simpl. unfold ru_step at 2. simpl fst. simpl snd.
  destruct (negb (mem k (f_mark st)) && mem k (f_names st)); [|reflexivity].
  destruct (update_h k [] st) as [[st1 cs] ok]. rewrite ru_acc. reflexivity.
Qed.

Record RuSpec (K : list N) (st : fibst) (rt : rtable) (st2 : fibst) (cs : list cmd) : Prop := {
  rs_inv : FInv st2 (rt_run rt cs);
  rs_marked : forall n, mem n (f_mark st) = true -> alookup n (f_prefixes st2) = alookup n (f_prefixes st);
  rs_unmarked : forall n, In n K -> mem n (f_mark st) = false -> alookup n (f_prefixes st2) = None;
  rs_out : forall n, ~ In n K -> alookup n (f_prefixes st2) = alookup n (f_prefixes st);
  rs_marks : forall n, mem n (f_mark st2) = mem n (f_mark st)
}.

Lemma ru_over_spec : forall K st rt, FInv st rt -> RuSpec K st rt (fst (ru_over K st)) (snd (ru_over K st)).
Proof.
  induction K as [|k K IH]; intros st rt HI.
  - simpl. constructor; simpl; auto. intros n [].
  - rewrite ru_over_cons.
    destruct (negb (mem k (f_mark st)) && mem k (f_names st)) eqn:Ec.
    + apply andb_true_iff in Ec. destruct Ec as [Em Enm]. apply negb_true_iff in Em.
      pose proof (update_h_spec k [] st rt HI) as HU.
      destruct (update_h k [] st) as [[st1 cs1] ok]. simpl in HU.
      assert (Hk1 : alookup k (f_prefixes st1) = None).
      { apply (us_empty _ _ _ _ _ _ _ HU). intros f. reflexivity. }
      assert (Hok : ok = false).
      { destruct ok; [|reflexivity]. exfalso. apply (proj1 (us_ok _ _ _ _ _ _ _ HU) eq_refl). exact Hk1. }
      assert (Hm1 : forall n, mem n (f_mark st1) = mem n (f_mark st)).
      { intros n. destruct (N.eq_dec n k) as [->|Hne].
        - rewrite (us_mark_false _ _ _ _ _ _ _ HU Hok). symmetry. exact Em.
        - apply (us_mark_other _ _ _ _ _ _ _ HU), Hne. }
      specialize (IH st1 (rt_run rt cs1) (us_inv _ _ _ _ _ _ _ HU)).
      destruct (ru_over K st1) as [st2 cs2]. simpl in *. destruct IH as [A B C D E].
      constructor.
      * rewrite rt_run_app. exact A.
      * intros n Hn. assert (Hne : n <> k) by (intros ->; congruence).
        rewrite B by (rewrite Hm1; exact Hn). apply (us_other _ _ _ _ _ _ _ HU), Hne.
      * intros n [->|Hin] Hn.
        -- destruct (in_dec N.eq_dec n K) as [Hi|Hi].
           ++ apply C; [exact Hi|rewrite Hm1; exact Hn].
           ++ rewrite D by exact Hi. exact Hk1.
        -- apply C; [exact Hin|rewrite Hm1; exact Hn].
      * intros n Hni. simpl in Hni.
        rewrite D by (intros Hi; apply Hni; right; exact Hi).
        apply (us_other _ _ _ _ _ _ _ HU). intros ->. apply Hni. left. reflexivity.
      * intros n. rewrite E. apply Hm1.
    + specialize (IH st rt HI). destruct (ru_over K st) as [st2 cs2]. simpl in *. destruct IH as [A B C D E].
      constructor; auto.
      * intros n [->|Hin] Hn; [|apply C; assumption].
        (* k unmarked but without a name: then it has no entry at all *)
        rewrite Hn in Ec. simpl in Ec.
        assert (Hk0 : alookup n (f_prefixes st) = None).
        { destruct (alookup n (f_prefixes st)) eqn:El; [|reflexivity].
          assert (Hnn : alookup n (f_prefixes st) <> None) by congruence.
          rewrite (fi_names _ _ HI n Hnn) in Ec. discriminate. }
        destruct (in_dec N.eq_dec n K) as [Hi|Hi]; [apply C; assumption|]. rewrite D by exact Hi. exact Hk0.
      * intros n Hni. apply D. intros Hi. apply Hni. right. exact Hi.
Qed.

(* ------------------------------------------------------------------ the fibEntries map vs. the specification *)
Definition entries_of (l : list (N * list (N * N))) (p : N) : list (N * N) :=
  match alookup p l with Some v => v | None => [] end.

Lemma assoc_app_lookup k v m p :
  alookup p (assoc_app k v m) = if N.eqb p k then Some (entries_of m k ++ v) else alookup p m.
Proof.
  unfold entries_of. induction m as [|[k' v'] r IH]; simpl.
  - destruct (N.eqb_spec k p), (N.eqb_spec p k); try congruence; reflexivity.
  - destruct (N.eqb_spec k' k) as [E|E]; simpl.
    + subst k'. destruct (N.eqb_spec k p), (N.eqb_spec p k); try congruence; reflexivity.
    + destruct (N.eqb_spec k' p) as [E2|E2].
      * subst k'. destruct (N.eqb_spec p k); [congruence|reflexivity].
      * rewrite IH. reflexivity.
Qed.

Lemma assoc_app_In k v m p x :
  In x (entries_of (assoc_app k v m) p) <-> In x (entries_of m p) \/ (p = k /\ In x v).
Proof.
  unfold entries_of at 1. rewrite assoc_app_lookup.
  destruct (N.eqb_spec p k) as [E|E].
  - subst. rewrite in_app_iff. tauto.
  - fold (entries_of m p). tauto.
Qed.

Lemma assoc_app_keys k v m : NoDup (map fst m) -> NoDup (map fst (assoc_app k v m)).
Proof.
  induction m as [|[k' v'] r IH]; simpl; intros Hn; [constructor; [intros []|constructor]|].
  inversion Hn as [|? ? Hx Hr]; subst.
  destruct (N.eqb_spec k' k); simpl; [constructor; assumption|].
  constructor; [|apply IH, Hr].
  intros Hin. apply Hx. apply alookup_None_notin in Hx.
  destruct (alookup k' (assoc_app k v r)) eqn:El.
  - rewrite assoc_app_lookup in El. destruct (N.eqb_spec k' k); [contradiction|congruence].
  - apply alookup_None_notin in El. contradiction.
Qed.

Lemma fold_assoc_app_In fes qs : forall a p x,
  In x (entries_of (fold_left (fun a q => assoc_app q fes a) qs a) p) <-> In x (entries_of a p) \/ (In p qs /\ In x fes).
Proof.
  induction qs as [|q qs IH]; intros a p x; simpl; [tauto|].
  rewrite IH, assoc_app_In. intuition (subst; auto).
Qed.

Lemma fold_assoc_app_keys fes qs : forall a, NoDup (map fst a) -> NoDup (map fst (fold_left (fun a q => assoc_app q fes a) qs a)).
Proof. induction qs as [|q qs IH]; intros a Hn; simpl; [exact Hn|]. apply IH, assoc_app_keys, Hn. Qed.

Definition elig (t : tables) (r : ribent) : bool := (re_l1 r <? cost_infinity) && negb (N.eqb (re_name r) (t_me t)).

Lemma register_router_In t acc r p x :
  In x (entries_of (register_router t acc r) p) <->
  In x (entries_of acc p) \/ (elig t r = true /\ announces t r p = true /\ In x (get_fib_entries (t_nbr t) r)).
Proof.
  unfold register_router. fold (elig t r). destruct (elig t r).
  - rewrite fold_assoc_app_In, assoc_app_In. unfold announces.
    rewrite orb_true_iff, N.eqb_eq, mem_In. intuition (subst; auto).
  - intuition discriminate.
Qed.

Lemma register_router_keys t acc r : NoDup (map fst acc) -> NoDup (map fst (register_router t acc r)).
Proof.
  intros Hn. unfold register_router. destruct (_ && _); [|exact Hn].
  apply fold_assoc_app_keys, assoc_app_keys, Hn.
Qed.

Lemma build_In t rib : forall acc p x,
  In x (entries_of (fold_left (register_router t) rib acc) p) <->
  In x (entries_of acc p) \/
  exists r, In r rib /\ elig t r = true /\ announces t r p = true /\ In x (get_fib_entries (t_nbr t) r).
Proof.
  induction rib as [|r rib IH]; intros acc p x; cbn [fold_left].
  - split; [auto|intros [H|[r [[] _]]]; exact H].
  - rewrite IH, register_router_In. split.
    + intros [[H|H]|[r' [Hr' H]]].
      * left; exact H.
      * right; exists r. split; [left; reflexivity|exact H].
      * right; exists r'. split; [right; exact Hr'|exact H].
    + intros [H|[r' [Hr' H]]].
      * left; left; exact H.
      * destruct Hr' as [->|Hr']; [left; right; exact H|right; exists r'; split; assumption].
Qed.

Lemma build_keys t rib : forall acc, NoDup (map fst acc) -> NoDup (map fst (fold_left (register_router t) rib acc)).
Proof. induction rib as [|r rib IH]; intros acc Hn; simpl; [exact Hn|]. apply IH, register_router_keys, Hn. Qed.

Lemma cands_In t p x :
  In x (cands t p) <->
  exists r, In r (t_rib t) /\ elig t r = true /\ announces t r p = true /\ In x (get_fib_entries (t_nbr t) r) /\ snd x < cost_infinity.
Proof.
  unfold cands. rewrite in_flat_map. split.
  - intros [r [Hr Hx]]. fold (elig t r) in Hx. destruct (elig t r && announces t r p) eqn:E; [|destruct Hx].
    apply andb_true_iff in E. destruct E as [E1 E2]. apply filter_In in Hx. destruct Hx as [Hx Hc].
    exists r. repeat split; auto. lia.
  - intros [r [Hr [E1 [E2 [Hx Hc]]]]]. exists r. split; [exact Hr|]. fold (elig t r). rewrite E1, E2. cbn [andb].
    apply filter_In. split; [exact Hx|]. lia.
Qed.

Lemma desired_build t p f : min_cost f (fin (entries_of (build_entries t) p)) = desired t p f.
Proof.
  unfold desired. apply min_cost_ext. intros c.
  rewrite fin_In, cands_In. unfold build_entries. rewrite build_In. unfold entries_of at 1. simpl.
  split.
  - intros [[[]|[r H]] Hc]. exists r. tauto.
  - intros [r H]. split; [right; exists r; tauto|tauto].
Qed.

(* ------------------------------------------------------------------ fibUpdate as a whole *)
(* reordering keeps the content *)
Lemma aremove_In {A} k (m : list (N * A)) kv : In kv (aremove k m) <-> In kv m /\ fst kv <> k.
Proof.
  induction m as [|[k' v] r IH]; simpl; [tauto|].
  destruct (N.eqb_spec k' k) as [E|E].
  - rewrite IH. split; [tauto|]. intros [[H|H] Hn]; [subst kv; simpl in Hn; congruence|tauto].
  - simpl. rewrite IH. split; [intros [H|H]; [subst kv; simpl; tauto|tauto]|tauto].
Qed.

Lemma aremove_keys {A} k (m : list (N * A)) : NoDup (map fst m) -> NoDup (map fst (aremove k m)).
Proof.
  induction m as [|[k' v] r IH]; simpl; intros Hn; [constructor|]. inversion Hn as [|? ? Hx Hr]; subst.
  destruct (N.eqb_spec k' k); [auto|]. simpl. constructor; [|auto].
  intros Hin. apply Hx. apply in_map_iff in Hin. destruct Hin as [kv [E Hkv]]. apply aremove_In in Hkv.
  apply in_map_iff. exists kv. tauto.
Qed.

Lemma In_alookup {A} k (v : A) m : NoDup (map fst m) -> In (k, v) m -> alookup k m = Some v.
Proof.
  induction m as [|[k' v'] r IH]; simpl; intros Hn H; [destruct H|].
  inversion Hn as [|? ? Hx Hr]; subst. destruct H as [H|H].
  - inversion H; subst. rewrite N.eqb_refl. reflexivity.
  - destruct (N.eqb_spec k' k) as [E|E]; [|auto].
    subst. exfalso. apply Hx. apply in_map_iff. exists (k, v). split; [reflexivity|exact H].
Qed.

Lemma reorder_spec {A} ord : forall (l : list (N * A)), NoDup (map fst l) ->
  NoDup (map fst (reorder ord l)) /\ forall kv, In kv (reorder ord l) <-> In kv l.
Proof.
  induction ord as [|k ord IH]; intros l Hn; simpl; [split; [exact Hn|tauto]|].
  destruct (alookup k l) as [v|] eqn:E; [|apply IH, Hn].
  destruct (IH (aremove k l) (aremove_keys k l Hn)) as [Hn' Hin'].
  split.
  - simpl. constructor; [|exact Hn'].
    intros Hi. apply in_map_iff in Hi. destruct Hi as [kv [Ek Hkv]]. apply Hin' in Hkv. apply aremove_In in Hkv. tauto.
  - intros kv. simpl. rewrite Hin', aremove_In. split.
    + intros [<-|[H _]]; [apply alookup_In, E|exact H].
    + intros H. destruct (N.eq_dec (fst kv) k) as [Ek|Ek]; [|tauto].
      left. destruct kv as [k2 v2]. simpl in Ek. subst k2.
      rewrite (In_alookup k v2 l Hn H) in E. inversion E. reflexivity.
Qed.

Lemma reorder_keys_In ord : forall ks n, In n (reorder_keys ord ks) <-> In n ks.
Proof.
  induction ord as [|k ord IH]; intros ks n; simpl; [tauto|].
  destruct (mem k ks) eqn:E; [|apply IH].
  simpl. rewrite IH, srem_In. apply mem_In in E.
  split; [intros [<-|[_ H]]; assumption|]. intros H. destruct (N.eq_dec n k); [left; congruence|right; tauto].
Qed.

Lemma fib_update_spec ord1 ord2 t st rt : FInv st rt ->
  FInv (fst (fib_update_ord ord1 ord2 t st)) (rt_run rt (snd (fib_update_ord ord1 ord2 t st))) /\
  forall p f, fib_lookup (fst (fib_update_ord ord1 ord2 t st)) p f = desired t p f.
Proof.
  intros HI. unfold fib_update_ord.
  set (st0 := {| f_prefixes := f_prefixes st; f_names := f_names st; f_mark := [] |}).
  assert (HI0 : FInv st0 rt) by (apply (FInv_mark st rt []), HI).
  assert (Hk0 : NoDup (map fst (build_entries t))) by (apply build_keys; constructor).
  destruct (reorder_spec ord1 (build_entries t) Hk0) as [Hk Hsame].
  assert (Hkeys : forall p, In p (map fst (reorder ord1 (build_entries t))) <-> In p (map fst (build_entries t))).
  { intros p. rewrite !in_map_iff. split; intros [kv [E H]]; exists kv; (split; [exact E|]); apply Hsame; exact H. }
  pose proof (main_loop_spec (reorder ord1 (build_entries t)) st0 rt Hk HI0) as HM.
  destruct (main_loop (reorder ord1 (build_entries t)) st0) as [st1 c1]. simpl in HM. destruct HM as [A B C D].
  rewrite remove_unmarked_unfold.
  pose proof (ru_over_spec (reorder_keys ord2 (map fst (f_prefixes st1))) st1 (rt_run rt c1) A) as HR.
  destruct (ru_over (reorder_keys ord2 (map fst (f_prefixes st1))) st1) as [st2 c2]. simpl in HR. destruct HR as [A2 B2 C2 D2 E2].
  simpl. split; [rewrite rt_run_app; exact A2|].
  intros p f. rewrite <- desired_build.
  destruct (alookup p (f_prefixes st1)) as [es1|] eqn:E1.
  - destruct (alookup p (build_entries t)) as [fes|] eqn:Eb.
    + (* processed by the main loop and kept: marked, untouched by the sweep *)
      assert (Hin : In p (map fst (reorder ord1 (build_entries t)))).
      { apply Hkeys. destruct (in_dec N.eq_dec p (map fst (build_entries t))) as [H|H]; [exact H|].
        apply alookup_None_notin in H. congruence. }
      assert (Hmk : mem p (f_mark st1) = true) by (apply D; [exact Hin|congruence]).
      rewrite (fib_lookup_ext st1 st2) by (apply B2, Hmk).
      unfold entries_of. rewrite Eb. apply (B p fes). apply Hsame, alookup_In, Eb.
    + (* not prescribed any more: unmarked, swept *)
      assert (Hni : ~ In p (map fst (reorder ord1 (build_entries t)))).
      { rewrite Hkeys. apply alookup_None_notin, Eb. }
      destruct (C p Hni) as [_ C2'].
      assert (Hin1 : In p (reorder_keys ord2 (map fst (f_prefixes st1)))).
      { apply reorder_keys_In. destruct (in_dec N.eq_dec p (map fst (f_prefixes st1))) as [H|H]; [exact H|].
        apply alookup_None_notin in H. congruence. }
      unfold fib_lookup. rewrite (C2 p Hin1) by (rewrite C2'; reflexivity).
      unfold entries_of. rewrite Eb. reflexivity.
  - assert (Hni1 : ~ In p (reorder_keys ord2 (map fst (f_prefixes st1)))).
    { rewrite reorder_keys_In. apply alookup_None_notin, E1. }
    rewrite (fib_lookup_ext st1 st2) by (apply D2, Hni1).
    destruct (alookup p (build_entries t)) as [fes|] eqn:Eb.
    + unfold entries_of. rewrite Eb. apply (B p fes). apply Hsame, alookup_In, Eb.
    + unfold fib_lookup. rewrite E1. unfold entries_of. rewrite Eb. reflexivity.
Qed.

Lemma FInv_init : FInv fib_empty [].
Proof. constructor; simpl; [discriminate|reflexivity|congruence]. Qed.

Lemma fstep_inv s e : FInv (s_fib s) (s_rt s) -> FInv (s_fib (fstep s e)) (s_rt (fstep s e)).
Proof.
  intros H. destruct e; simpl; [exact H|].
  pose proof (fib_update_spec ord1 ord2 (s_tab s) (s_fib s) (s_rt s) H) as [A _].
  destruct (fib_update_ord ord1 ord2 (s_tab s) (s_fib s)) as [st cs]. exact A.
Qed.

Lemma frun_inv me evs : FInv (s_fib (frun me evs)) (s_rt (frun me evs)).
Proof.
  unfold frun. generalize FInv_init. change fib_empty with (s_fib (sys_init me)). change (@nil ((N*N)*N)) with (s_rt (sys_init me)).
  generalize (sys_init me). induction evs as [|e evs IH]; intros s H; simpl; [exact H|]. apply IH, fstep_inv, H.
Qed.

(* installed_mirrors_tables: for every history of arbitrary changes of the RIB, the neighbour faces and the prefix
   table, interleaved with any number of earlier fibUpdate runs, after a fibUpdate the reference route table obtained
   by replaying every register/unregister command emitted since the start equals the from-scratch computation
   `desired` of the current tables, on every (prefix, face). *)
Lemma installed_mirrors_tables_l : forall me evs ord1 ord2 p f,
  let s := frun me (evs ++ [FibUpdate ord1 ord2]) in
  rt_lookup (s_rt s) (p, f) = desired (s_tab s) p f.
Proof.
  intros me evs ord1 ord2 p f. unfold frun. rewrite fold_left_app. simpl.
  fold (frun me evs). set (s := frun me evs).
  pose proof (frun_inv me evs) as HI. fold s in HI.
  pose proof (fib_update_spec ord1 ord2 (s_tab s) (s_fib s) (s_rt s) HI) as [A B].
  destruct (fib_update_ord ord1 ord2 (s_tab s) (s_fib s)) as [st cs]. simpl in *.
  rewrite (fi_rt _ _ A). apply B.
Qed.

(* ... and at every moment (also between updates) the route table is exactly the installer's own prefixes map *)
Lemma installed_is_prefixes_map_l : forall me evs p f,
  let s := frun me evs in rt_lookup (s_rt s) (p, f) = fib_lookup (s_fib s) p f.
Proof. intros me evs p f. apply (fi_rt _ _ (frun_inv me evs)). Qed.

(* ------------------------------------------------------------------ the decidable oracle predicate *)
Lemma opt_eqb_spec a b : opt_eqb a b = true <-> a = b.
Proof.
  destruct a, b; simpl; try (split; [discriminate|congruence]); try tauto.
  rewrite N.eqb_eq. split; congruence.
Qed.

Lemma rt_lookup_notin rt k : ~ In k (rt_keys rt) -> rt_lookup rt k = None.
Proof.
  unfold rt_keys. induction rt as [|[k' c] r IH]; simpl; intros H; [reflexivity|].
  destruct (key_eqb k' k) eqn:E.
  - apply key_eqb_spec in E. exfalso. apply H. left. exact E.
  - apply IH. intros Hi. apply H. right. exact Hi.
Qed.

Lemma desired_in_keys t p f c : desired t p f = Some c -> In (p, f) (desired_keys t).
Proof.
  unfold desired. intros H. apply min_cost_Some in H. destruct H as [H _].
  apply cands_In in H. destruct H as [r [Hr [_ [Ha [Hx _]]]]].
  unfold desired_keys. apply in_flat_map. exists r. split; [exact Hr|].
  apply in_flat_map. exists p. split.
  - unfold announces in Ha. apply orb_true_iff in Ha. destruct Ha as [Ha|Ha].
    + apply N.eqb_eq in Ha. left. exact Ha.
    + right. apply mem_In, Ha.
  - apply in_map_iff. exists (f, c). split; [reflexivity|exact Hx].
Qed.

Lemma mirrorsb_spec t rt : mirrorsb t rt = true <-> forall p f, rt_lookup rt (p, f) = desired t p f.
Proof.
  unfold mirrorsb. rewrite forallb_forall. split.
  - intros H p f.
    destruct (in_dec (fun a b : N * N => ltac:(decide equality; apply N.eq_dec)) (p, f) (rt_keys rt ++ desired_keys t)) as [Hi|Hi].
    + specialize (H _ Hi). unfold mirrors_on in H. apply opt_eqb_spec in H. exact H.
    + rewrite in_app_iff in Hi.
      rewrite rt_lookup_notin by tauto.
      destruct (desired t p f) as [c|] eqn:E; [|reflexivity].
      exfalso. apply Hi. right. apply (desired_in_keys t p f c E).
  - intros H [p f] _. unfold mirrors_on. apply opt_eqb_spec. apply H.
Qed.

(* ------------------------------------------------------------------ what `desired` depends on (frame lemma)
   Two table states with the same RIB view prescribe the same routes as soon as they agree on the faces of the next
   hops that occur in it and on the prefix sets of the routers that occur in it.  This is what justifies the daemon's
   "dirty" logic: a change that leaves the best / second-best next hops and costs of every destination, the faces of
   those next hops and the prefix sets of RIB routers alone needs no fibUpdate (e.g. a dead neighbour that was nobody's
   next hop, an announcement by a router that is not in the RIB, our own announcements). *)
Lemma desired_frame t t' :
  t_me t' = t_me t -> (forall r, In r (t_rib t') <-> In r (t_rib t)) ->
  (forall r, In r (t_rib t) -> face_of (t_nbr t') (re_nh1 r) = face_of (t_nbr t) (re_nh1 r) /\
                                face_of (t_nbr t') (re_nh2 r) = face_of (t_nbr t) (re_nh2 r)) ->
  (forall r, In r (t_rib t) -> re_l1 r < cost_infinity -> re_name r <> t_me t ->
             forall p, mem p (pfx_of t' (re_name r)) = mem p (pfx_of t (re_name r))) ->
  forall p f, desired t' p f = desired t p f.
Proof.
  intros Hme Hrib Hface Hpfx p f. unfold desired. apply min_cost_ext. intros c.
  rewrite !cands_In.
  split; intros [r [Hr [He [Ha [Hx Hc]]]]]; exists r.
  - apply Hrib in Hr. split; [exact Hr|].
    assert (He' : elig t r = true) by (unfold elig in *; rewrite <- Hme; exact He).
    split; [exact He'|].
    unfold elig in He'. apply andb_true_iff in He'. destruct He' as [E1 E2].
    apply negb_true_iff, N.eqb_neq in E2.
    split; [unfold announces in *; rewrite <- (Hpfx r Hr ltac:(lia) E2 p); exact Ha|].
    split; [|exact Hc]. unfold get_fib_entries in *. destruct (Hface r Hr) as [F1 F2]. rewrite <- F1, <- F2. exact Hx.
  - split; [apply Hrib; exact Hr|].
    assert (He' : elig t' r = true) by (unfold elig in *; rewrite Hme; exact He).
    split; [exact He'|].
    unfold elig in He. apply andb_true_iff in He. destruct He as [E1 E2].
    apply negb_true_iff, N.eqb_neq in E2.
    split; [unfold announces in *; rewrite (Hpfx r Hr ltac:(lia) E2 p); exact Ha|].
    split; [|exact Hc]. unfold get_fib_entries in *. destruct (Hface r Hr) as [F1 F2]. rewrite F1, F2. exact Hx.
Qed.

(* fibUpdate on tables that prescribe what is already installed changes nothing in the route table *)
Lemma fib_update_stable ord1 ord2 t st rt : FInv st rt ->
  (forall p f, rt_lookup rt (p, f) = desired t p f) ->
  forall p f, rt_lookup (rt_run rt (snd (fib_update_ord ord1 ord2 t st))) (p, f) = rt_lookup rt (p, f).
Proof.
  intros HI Hm p f. destruct (fib_update_spec ord1 ord2 t st rt HI) as [A B].
  rewrite (fi_rt _ _ A), B. symmetry. apply Hm.
Qed.
