(* DvFib/PfxLogProofs.v — log replication: what a peer reconstructs from (snapshot?, ops in order) is the publisher's set. *)
From Coq Require Import Lia ZifyBool ZifyN ZifyNat.
From DvFib Require Import U64 GenConsts PfxLog.
Open Scope N_scope.

Definition set_eq (a b : list N) : Prop := forall x, In x a <-> In x b.

Lemma mem_In x s : mem x s = true <-> In x s.
Proof.
  unfold mem. rewrite existsb_exists. split.
  - intros [y [Hy He]]. apply N.eqb_eq in He. subst. exact Hy.
  - intros H. exists x. split; [exact H|apply N.eqb_refl].
Qed.

Lemma mem_false x s : mem x s = false <-> ~ In x s.
Proof. rewrite <- mem_In. destruct (mem x s); split; intros; congruence. Qed.

Lemma sadd_In x y s : In y (sadd x s) <-> y = x \/ In y s.
Proof.
  unfold sadd. destruct (mem x s) eqn:E.
  - apply mem_In in E. split; [auto|]. intros [->|H]; auto.
  - simpl. split; intros [H|H]; auto.
Qed.

Lemma srem_In x y s : In y (srem x s) <-> y <> x /\ In y s.
Proof.
  unfold srem. rewrite filter_In. split.
  - intros [H1 H2]. split; [|exact H1]. intros ->. rewrite N.eqb_refl in H2. discriminate.
  - intros [H1 H2]. split; [exact H2|]. destruct (N.eqb_spec x y); [congruence|reflexivity].
Qed.

Lemma fold_sadd_In l : forall s y, In y (fold_left (fun acc n => sadd n acc) l s) <-> In y l \/ In y s.
Proof.
  induction l as [|a l IH]; intros s y; simpl.
  - tauto.
  - rewrite IH, sadd_In. intuition.
Qed.

Lemma fold_srem_In l : forall s y, In y (fold_left (fun acc n => srem n acc) l s) <-> ~ In y l /\ In y s.
Proof.
  induction l as [|a l IH]; intros s y; simpl.
  - tauto.
  - rewrite IH, srem_In. intuition.
Qed.

Lemma apply_ops_In o s y :
  In y (apply_ops o s) <-> ~ In y (ol_rems o) /\ (In y (ol_adds o) \/ (ol_reset o = false /\ In y s)).
Proof.
  unfold apply_ops. rewrite fold_srem_In, fold_sadd_In.
  destruct (ol_reset o); simpl; intuition congruence.
Qed.

Lemma apply_ops_proper o a b : set_eq a b -> set_eq (apply_ops o a) (apply_ops o b).
Proof. intros H y. rewrite !apply_ops_In. rewrite (H y). tauto. Qed.

Lemma set_eq_refl a : set_eq a a.
Proof. intro; tauto. Qed.
Lemma set_eq_trans a b c : set_eq a b -> set_eq b c -> set_eq a c.
Proof. intros H1 H2 x. rewrite (H1 x). apply H2. Qed.
Lemma set_eq_sym a b : set_eq a b -> set_eq b a.
Proof. intros H x. symmetry. apply H. Qed.

Lemma set_eqb_spec a b : set_eqb a b = true <-> set_eq a b.
Proof.
  unfold set_eqb, set_eq. rewrite andb_true_iff, !forallb_forall. split.
  - intros [H1 H2] x. split; intro Hx; apply mem_In; auto.
  - intros H. split; intros x Hx; apply mem_In, H, Hx.
Qed.

(* a snapshot packet reconstructs its add list whatever the receiver held before *)
Lemma apply_snapshot l s : set_eq (apply_ops {| ol_reset := true; ol_adds := l; ol_rems := [] |} s) l.
Proof. intro y. rewrite apply_ops_In. simpl. intuition congruence. Qed.

(* ---- the publisher's log is a contiguous chain init+1 .. seq, newest first ---- *)
Fixpoint chain (lo hi : N) (ops : list (N * oplist)) : Prop :=
  match ops with
  | [] => hi = lo
  | (s, _) :: r => s = hi /\ lo < hi /\ chain lo (hi - 1) r
  end.

Lemma chain_le lo hi ops : chain lo hi ops -> lo <= hi.
Proof. destruct ops as [|[s o] r]; simpl; intros; lia. Qed.

Lemma chain_lookup ops : forall lo hi k o, chain lo hi ops -> alookup k ops = Some o -> lo < k <= hi.
Proof.
  induction ops as [|[s o'] r IH]; intros lo hi k o Hc Hl; simpl in *; [discriminate|].
  destruct Hc as [-> [Hlt Hc]].
  destruct (N.eqb_spec hi k).
  - subst. lia.
  - pose proof (IH _ _ _ _ Hc Hl). lia.
Qed.

Lemma upto_all ops : forall lo hi k, chain lo hi ops -> hi <= k -> ops_upto k ops = ops.
Proof.
  induction ops as [|[s o] r IH]; intros lo hi k Hc Hk; simpl in *; [reflexivity|].
  destruct Hc as [-> [Hlt Hc]].
  unfold ops_upto in *. simpl.
  destruct (N.leb_spec hi k); [|lia].
  f_equal. apply (IH lo (hi - 1)); [exact Hc|lia].
Qed.

Lemma upto_none ops : forall lo hi k, chain lo hi ops -> k <= lo -> ops_upto k ops = [].
Proof.
  induction ops as [|[s o] r IH]; intros lo hi k Hc Hk; simpl in *; [reflexivity|].
  destruct Hc as [-> [Hlt Hc]].
  unfold ops_upto in *. simpl.
  destruct (N.leb_spec hi k); [lia|].
  apply (IH lo (hi - 1)); [exact Hc|lia].
Qed.

Lemma upto_step ops : forall lo hi k o, chain lo hi ops -> alookup (k + 1) ops = Some o ->
  ops_upto (k + 1) ops = (k + 1, o) :: ops_upto k ops.
Proof.
  induction ops as [|[s o'] r IH]; intros lo hi k o Hc Hl; simpl in *; [discriminate|].
  destruct Hc as [-> [Hlt Hc]].
  unfold ops_upto in *. simpl.
  destruct (N.eqb_spec hi (k + 1)) as [E|E].
  - inversion Hl; subst o'. subst hi.
    destruct (N.leb_spec (k + 1) (k + 1)); [|lia].
    destruct (N.leb_spec (k + 1) k); [lia|].
    f_equal.
    fold (ops_upto (k + 1) r). fold (ops_upto k r).
    rewrite (upto_all r lo (k + 1 - 1) (k + 1)) by (auto; lia).
    rewrite (upto_all r lo (k + 1 - 1) k) by (auto; lia).
    reflexivity.
  - pose proof (chain_lookup _ _ _ _ _ Hc Hl) as Hb.
    destruct (N.leb_spec hi (k + 1)); [lia|].
    destruct (N.leb_spec hi k); [lia|].
    apply (IH lo (hi - 1)); assumption.
Qed.

(* ---- publisher invariant ---- *)
Definition snap_ok (p : pub) (so : N * oplist) : Prop :=
  pb_init p <= fst so <= pb_seq p /\
  snd so = {| ol_reset := true; ol_adds := set_at p (fst so); ol_rems := [] |}.

Record PInv (p : pub) : Prop := {
  pi_chain : chain (pb_init p) (pb_seq p) (pb_ops p);
  pi_set : pb_set p = replay (pb_ops p);
  pi_snaps : forall so, In so (pb_snaps p) -> snap_ok p so;
  pi_ptr : forall so, pb_ptr p = Some so -> In so (pb_snaps p)
}.

Lemma set_at_seq p : PInv p -> set_at p (pb_seq p) = pb_set p.
Proof.
  intros H. unfold set_at. rewrite (upto_all _ _ _ _ (pi_chain p H)) by lia. symmetry. apply pi_set, H.
Qed.

Lemma publish_snap_inv p : PInv p -> PInv (publish_snap p).
Proof.
  intros H. constructor; simpl.
  - apply H.
  - apply H.
  - intros so [<-|Hin].
    + split; simpl.
      * pose proof (chain_le _ _ _ (pi_chain p H)). lia.
      * unfold set_at at 1. simpl. fold (set_at p (pb_seq p)). rewrite set_at_seq by exact H. reflexivity.
    + apply (pi_snaps p H so Hin).
  - intros so E. inversion E. left. reflexivity.
Qed.

(* set_at below the old sequence number is unchanged by a new publication *)
Lemma set_at_old p content k : k <= pb_seq p ->
  replay (ops_upto k ((pb_seq p + 1, content) :: pb_ops p)) = replay (ops_upto k (pb_ops p)).
Proof.
  intros Hk. unfold ops_upto. simpl. destruct (N.leb_spec (pb_seq p + 1) k); [lia|reflexivity].
Qed.

Lemma publish_op_inv content s p :
  PInv p -> s = apply_ops content (pb_set p) ->
  PInv (publish_op content (with_set s p)).
Proof.
  intros H Hs.
  assert (H1 : PInv {| pb_init := pb_init p; pb_set := s; pb_seq := pb_seq p + 1; pb_snapat := pb_snapat p;
                       pb_ops := (pb_seq p + 1, content) :: pb_ops p; pb_snaps := pb_snaps p; pb_ptr := pb_ptr p |}).
  { constructor; simpl.
    - split; [reflexivity|]. pose proof (chain_le _ _ _ (pi_chain p H)).
      split; [lia|]. replace (pb_seq p + 1 - 1) with (pb_seq p) by lia. apply H.
    - rewrite Hs, (pi_set p H). reflexivity.
    - intros so Hin. destruct (pi_snaps p H so Hin) as [Hb He]. split; simpl; [lia|].
      rewrite He. f_equal. unfold set_at. simpl pb_ops. symmetry. apply (set_at_old p content). lia.
    - apply H. }
  unfold publish_op, with_set. simpl.
  destruct (pub_snap_test (pb_snapat p) (pb_seq p + 1)).
  - apply publish_snap_inv in H1. exact H1.
  - exact H1.
Qed.

Lemma pub_new_inv s0 : PInv (pub_new s0).
Proof.
  unfold pub_new. apply publish_snap_inv. constructor; simpl.
  - reflexivity.
  - reflexivity.
  - intros so [].
  - intros so E; discriminate.
Qed.

Lemma announce_inv n p : PInv p -> PInv (announce n p).
Proof.
  intros H. unfold announce. destruct (mem n (pb_set p)) eqn:E; [exact H|].
  apply publish_op_inv; [exact H|].
  unfold apply_ops. simpl. unfold sadd. rewrite E. reflexivity.
Qed.

Lemma withdraw_inv n p : PInv p -> PInv (withdraw n p).
Proof.
  intros H. unfold withdraw. destruct (mem n (pb_set p)) eqn:E; [|exact H].
  apply publish_op_inv; [exact H|]. reflexivity.
Qed.

(* what a publisher step preserves for observers of the log *)
Record pub_ext (p p' : pub) : Prop := {
  pe_init : pb_init p' = pb_init p;
  pe_seq : pb_seq p <= pb_seq p';
  pe_ops : forall k o, alookup k (pb_ops p) = Some o -> alookup k (pb_ops p') = Some o;
  pe_at : forall k, k <= pb_seq p -> set_at p' k = set_at p k;
  pe_snaps : forall so, In so (pb_snaps p) -> In so (pb_snaps p')
}.

Lemma pub_ext_refl p : pub_ext p p.
Proof. constructor; auto. lia. Qed.

Lemma publish_snap_ext p : pub_ext p (publish_snap p).
Proof. constructor; simpl; auto. lia. Qed.

Lemma pub_ext_trans a b c : pub_ext a b -> pub_ext b c -> pub_ext a c.
Proof.
  intros [i1 s1 o1 a1 n1] [i2 s2 o2 a2 n2]. constructor.
  - congruence.
  - lia.
  - auto.
  - intros k Hk. rewrite a2 by lia. apply a1, Hk.
  - auto.
Qed.

Lemma publish_op_ext content s p : PInv p -> pub_ext p (publish_op content (with_set s p)).
Proof.
  intros H.
  set (p1 := {| pb_init := pb_init p; pb_set := s; pb_seq := pb_seq p + 1; pb_snapat := pb_snapat p;
                pb_ops := (pb_seq p + 1, content) :: pb_ops p; pb_snaps := pb_snaps p; pb_ptr := pb_ptr p |}).
  assert (E1 : pub_ext p p1).
  { constructor; simpl; auto; try lia.
    - intros k o Hl. pose proof (chain_lookup _ _ _ _ _ (pi_chain p H) Hl).
      destruct (N.eqb_spec (pb_seq p + 1) k); [lia|exact Hl].
    - intros k Hk. unfold set_at. simpl. apply (set_at_old p content k Hk). }
  unfold publish_op, with_set. simpl. fold p1.
  destruct (pub_snap_test (pb_snapat p) (pb_seq p + 1)).
  - eapply pub_ext_trans; [exact E1|apply publish_snap_ext].
  - exact E1.
Qed.

(* ---- peer invariant ---- *)
Definition JOk (p : pub) (j : peer) : Prop :=
  (j_known j = 0 /\ j_set j = []) \/
  (pb_init p <= j_known j <= pb_seq p /\ set_eq (j_set j) (set_at p (j_known j))).

Definition PendOk (p : pub) (j : peer) : Prop :=
  match j_pending j with
  | Some (ReqOp k) =>
      k = j_known j + 1 /\
      match j_inflight j with Some (s, o) => s = k /\ alookup k (pb_ops p) = Some o | None => True end
  | Some ReqSnap =>
      match j_inflight j with Some so => In so (pb_snaps p) | None => True end
  | None => True
  end.

Definition JInv (p : pub) (j : peer) : Prop := JOk p j /\ PendOk p j.

Lemma JInv_ext p p' j : PInv p -> pub_ext p p' -> JInv p j -> JInv p' j.
Proof.
  intros HP HE [HJ HQ]. split.
  - destruct HJ as [HJ|[Hb Hs]]; [left; exact HJ|right].
    rewrite (pe_init _ _ HE). pose proof (pe_seq _ _ HE). split; [lia|].
    rewrite (pe_at _ _ HE) by lia. exact Hs.
  - unfold PendOk in *. destruct (j_pending j) as [[k|]|]; auto.
    + destruct HQ as [Hk Hi]. split; [exact Hk|]. destruct (j_inflight j) as [[s o]|]; auto.
      destruct Hi as [-> Hl]. split; [reflexivity|]. apply (pe_ops _ _ HE), Hl.
    + destruct (j_inflight j) as [so|]; auto. apply (pe_snaps _ _ HE), HQ.
Qed.


(* try_fetch only adds a request consistent with the current Known; it never touches Known or the set *)
Lemma try_fetch_JOk p j : JOk p j -> JOk p (try_fetch j).
Proof.
  unfold try_fetch, JOk. destruct (negb (j_reach j)); [auto|].
  destruct (j_fetching j || (j_latest j <=? j_known j)); auto.
Qed.

Definition quiet (j : peer) : Prop := j_pending j = None /\ j_inflight j = None.

Lemma try_fetch_Pend p j : (j_fetching j = false -> quiet j) -> PendOk p j -> PendOk p (try_fetch j).
Proof.
  intros Hq HP. unfold try_fetch. destruct (negb (j_reach j)); [exact HP|].
  destruct (j_fetching j) eqn:Ef; simpl; [exact HP|].
  destruct (j_latest j <=? j_known j); [exact HP|].
  unfold PendOk. simpl. destruct (fetch_snap_test (j_latest j) (j_known j)); simpl; auto.
Qed.

(* Fetching = false implies nothing pending / in flight *)
Definition FetchOk (j : peer) : Prop := j_fetching j = false -> quiet j.

Lemma try_fetch_FetchOk j : FetchOk j -> FetchOk (try_fetch j).
Proof.
  unfold FetchOk, try_fetch. intros H. destruct (negb (j_reach j)); [exact H|].
  destruct (j_fetching j) eqn:Ef; simpl; [rewrite Ef; exact H|].
  destruct (j_latest j <=? j_known j); [rewrite Ef; exact H|]. simpl. discriminate.
Qed.

Record SInv (st : pub * peer) : Prop := {
  si_pub : PInv (fst st);
  si_ok : JOk (fst st) (snd st);
  si_pend : PendOk (fst st) (snd st);
  si_fetch : FetchOk (snd st)
}.

Lemma init_inv s0 : SInv (pub_new s0, peer_new).
Proof.
  constructor; simpl.
  - apply pub_new_inv.
  - left. split; reflexivity.
  - exact I.
  - intros _. split; reflexivity.
Qed.

Lemma set_at_zero p : PInv p -> pb_init p = 0 -> set_at p 0 = [].
Proof.
  intros H E. unfold set_at. rewrite (upto_none _ _ _ _ (pi_chain p H)) by lia. reflexivity.
Qed.

Definition with_inflight (d : N * oplist) (j : peer) : peer :=
  {| j_known := j_known j; j_latest := j_latest j; j_fetching := j_fetching j; j_reach := j_reach j;
     j_set := j_set j; j_pending := j_pending j; j_inflight := Some d |}.

Lemma alookup_In {A} k (m : list (N * A)) v : alookup k m = Some v -> In (k, v) m.
Proof.
  induction m as [|[k' v'] r IH]; simpl; [discriminate|].
  destruct (N.eqb_spec k' k); intros E; [inversion E; subst; left; reflexivity|right; auto].
Qed.

Lemma net_answer_cases c p j : PInv p ->
  net_answer c p j = j \/
  exists s o, net_answer c p j = with_inflight (s, o) j /\ j_pending j <> None /\
    match j_pending j with
    | Some (ReqOp k) => s = k /\ alookup k (pb_ops p) = Some o
    | Some ReqSnap => In (s, o) (pb_snaps p)
    | None => True
    end.
Proof.
  intros HP. unfold net_answer.
  destruct (j_pending j) as [[k|]|] eqn:Ep; auto.
  - destruct (alookup k (pb_ops p)) as [o|] eqn:El; auto.
    right. exists k, o. split; [unfold with_inflight; rewrite Ep; reflexivity|]. split; [discriminate|]. split; reflexivity.
  - destruct c as [s|].
    + destruct (alookup s (pb_snaps p)) as [o|] eqn:El; auto.
      right. exists s, o. split; [unfold with_inflight; rewrite Ep; reflexivity|]. split; [discriminate|]. apply alookup_In, El.
    + destruct (pb_ptr p) as [[s o]|] eqn:Eptr; auto.
      right. exists s, o. split; [unfold with_inflight; rewrite Ep; reflexivity|]. split; [discriminate|]. apply (pi_ptr p HP), Eptr.
Qed.


Lemma step_inv st e : SInv st -> SInv (step st e).
Proof.
  destruct st as [p j]. intros [HP HJ HQ HF]. simpl in *.
  destruct e; simpl.
  - (* PAnnounce *)
    assert (HE : pub_ext p (announce n p)).
    { unfold announce. destruct (mem n (pb_set p)); [apply pub_ext_refl|apply publish_op_ext, HP]. }
    destruct (JInv_ext p _ j HP HE (conj HJ HQ)). constructor; simpl; auto using announce_inv.
  - (* PWithdraw *)
    assert (HE : pub_ext p (withdraw n p)).
    { unfold withdraw. destruct (mem n (pb_set p)); [apply publish_op_ext, HP|apply pub_ext_refl]. }
    destruct (JInv_ext p _ j HP HE (conj HJ HQ)). constructor; simpl; auto using withdraw_inv.
  - (* JSync *)
    unfold on_sync. constructor; simpl; auto.
    + apply try_fetch_JOk. exact HJ.
    + apply try_fetch_Pend; [exact HF|exact HQ].
    + apply try_fetch_FetchOk. exact HF.
  - (* JReach *)
    constructor; simpl; auto.
  - (* JKick *)
    constructor; simpl; auto using try_fetch_JOk, try_fetch_Pend, try_fetch_FetchOk.
  - (* NetAnswer *)
    destruct (net_answer_cases cached p j HP) as [E|[s [o [E [Hne Hv]]]]]; rewrite E.
    + constructor; simpl; auto.
    + constructor; simpl; auto.
      * unfold PendOk in *. simpl.
        destruct (j_pending j) as [[k|]|]; auto.
        destruct HQ as [Hk _]. auto.
      * unfold FetchOk, quiet in *. simpl. intros Hf. destruct (HF Hf). congruence.
  - (* JDeliver *)
    unfold deliver. destruct (j_pending j) as [r|] eqn:Ep; [|constructor; simpl; auto; unfold PendOk; rewrite Ep; auto].
    destruct (j_inflight j) as [[s o]|] eqn:Ei; [|constructor; simpl; auto; unfold PendOk; rewrite Ep; auto].
    simpl.
    set (j' := {| j_known := s; j_latest := j_latest j; j_fetching := false; j_reach := j_reach j;
                  j_set := apply_ops o (j_set j); j_pending := None; j_inflight := None |}).
    assert (HJ' : JOk p j').
    { unfold PendOk in HQ. rewrite Ep, Ei in HQ. right. simpl.
      destruct r as [k|].
      - destruct HQ as [Hk [-> Hl]].
        pose proof (chain_lookup _ _ _ _ _ (pi_chain p HP) Hl) as Hb.
        split; [lia|].
        subst k. unfold set_at. rewrite (upto_step _ _ _ _ _ (pi_chain p HP) Hl). simpl.
        apply apply_ops_proper.
        destruct HJ as [[H0 Hs]|[Hb' Hs]].
        + rewrite H0 in *. rewrite Hs. fold (set_at p 0). rewrite set_at_zero; [apply set_eq_refl|exact HP|lia].
        + exact Hs.
      - destruct (pi_snaps p HP _ HQ) as [Hb He]. simpl in *. split; [exact Hb|].
        rewrite He. apply apply_snapshot. }
    constructor; simpl.
    + exact HP.
    + apply try_fetch_JOk, HJ'.
    + apply try_fetch_Pend; [intros _; split; reflexivity|exact I].
    + apply try_fetch_FetchOk. intros _; split; reflexivity.
  - (* JTimeout *)
    unfold timeout. destruct (j_pending j) as [r|] eqn:Ep; [|constructor; simpl; auto].
    constructor; simpl.
    + exact HP.
    + apply try_fetch_JOk. exact HJ.
    + apply try_fetch_Pend; [intros _; split; reflexivity|exact I].
    + apply try_fetch_FetchOk. intros _; split; reflexivity.
Qed.

Lemma run_inv s0 evs : SInv (run s0 evs).
Proof.
  unfold run. generalize (init_inv s0). generalize (pub_new s0, peer_new).
  induction evs as [|e evs IH]; intros st H; simpl; [exact H|]. apply IH, step_inv, H.
Qed.

(* log_replication: for every initial sequence number, every history of publisher operations and every schedule of a
   peer (sync notifications with any values, fetches, answers from the publisher or from a cache holding any earlier
   snapshot, deliveries, losses — i.e. any point at which a late joiner starts and any interleaving afterwards):
   the peer's set is the publisher's announced set as of publication number Known (recomputed from the operation
   log alone), and the publisher's current set is that of its latest publication. *)
Lemma log_replication_l : forall s0 evs,
  let p := fst (run s0 evs) in let j := snd (run s0 evs) in
  ((j_known j = 0 /\ j_set j = []) \/
   (pb_init p <= j_known j <= pb_seq p /\ set_eq (j_set j) (set_at p (j_known j)))) /\
  set_at p (pb_seq p) = pb_set p.
Proof.
  intros s0 evs. destruct (run_inv s0 evs) as [HP HJ _ _]. split; [exact HJ|apply set_at_seq, HP].
Qed.

(* ... hence a peer that has caught up holds exactly the announced set *)
Lemma log_replication_caught_up_l : forall s0 evs,
  let p := fst (run s0 evs) in let j := snd (run s0 evs) in
  j_known j = pb_seq p -> set_eq (j_set j) (pb_set p).
Proof.
  intros s0 evs p j E. destruct (run_inv s0 evs) as [HP HJ _ _]. fold p j in HP, HJ.
  rewrite <- (set_at_seq p HP).
  destruct HJ as [[H0 Hs]|[Hb Hs]].
  - rewrite <- E, H0, Hs. pose proof (chain_le _ _ _ (pi_chain p HP)).
    rewrite set_at_zero; [apply set_eq_refl|exact HP|lia].
  - rewrite <- E. exact Hs.
Qed.

Lemma peer_ok_spec pub_set pub_seq known peer_set :
  peer_ok pub_set pub_seq known peer_set = true <-> (known = pub_seq -> set_eq peer_set pub_set).
Proof.
  unfold peer_ok. rewrite orb_true_iff, negb_true_iff, N.eqb_neq, set_eqb_spec.
  destruct (N.eq_dec known pub_seq); intuition.
Qed.
