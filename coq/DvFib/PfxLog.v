(* DvFib/PfxLog.v — executable model of the prefix-table operation log (no proofs in this file).

   Publisher side  dv/table/prefix_table.go : NewPrefixTable, Announce, Withdraw, publishOp, publishSnap, OnDataInterest
   Peer side       dv/table/prefix_table.go : Apply
                   dv/dv/prefix_sync.go     : onPfxSyncUpdate, prefixDataFetch, processPrefixData

   Names are interned by the harness as numbers (tables keyed by a 64-bit name hash are modelled as keyed by the
   name: hash-collision freedom on the names of a history is assumed, the harness checks it).
   Sequence numbers are unbounded N (fewer than 2^64 publications is assumed); the two snapshot-threshold tests
   use Go's wrapping uint64 subtraction exactly as written in the source (GenConsts.v, regenerated every run). *)
From DvFib Require Import U64 GenConsts.
Open Scope N_scope.

(* ---- sets of names (a Go map keyed by name hash; iteration order is irrelevant) ---- *)
Definition mem (x : N) (s : list N) : bool := existsb (N.eqb x) s.
Definition sadd (x : N) (s : list N) : list N := if mem x s then s else x :: s.
Definition srem (x : N) (s : list N) : list N := filter (fun y => negb (N.eqb x y)) s.

(* tlv.PrefixOpList restricted to what Apply reads: reset flag, added names, removed names (ExitRouter is the publisher) *)
Record oplist := { ol_reset : bool; ol_adds : list N; ol_rems : list N }.

(* PrefixTable.Apply on the Prefixes map of one router: reset, then adds, then removes *)
Definition apply_ops (o : oplist) (s : list N) : list N :=
  let s1 := if ol_reset o then [] else s in
  let s2 := fold_left (fun acc n => sadd n acc) (ol_adds o) s1 in
  fold_left (fun acc n => srem n acc) (ol_rems o) s2.

Definition is_nil {A} (l : list A) : bool := match l with [] => true | _ => false end.
(* Apply's return value (dirty): a reset, or any add, or any remove was present *)
Definition apply_dirty (o : oplist) : bool := ol_reset o || negb (is_nil (ol_adds o)) || negb (is_nil (ol_rems o)).

Fixpoint alookup {A} (k : N) (m : list (N * A)) : option A :=
  match m with
  | [] => None
  | (k', v) :: r => if N.eqb k' k then Some v else alookup k r
  end.

(* ---- publisher ---- *)
Record pub := {
  pb_init  : N;                      (* svs.GetSeqNo at construction (NewRouter: boot time in ms) *)
  pb_set   : list N;                 (* pt.me.Prefixes *)
  pb_seq   : N;                      (* pt.me.Latest = pt.me.Known = own sequence number *)
  pb_snapat : N;                     (* pt.snapshotAt *)
  pb_ops   : list (N * oplist);      (* repo[<data prefix>/seq=k], newest first *)
  pb_snaps : list (N * oplist);      (* repo[<data prefix>/SNAP/seq=k], newest first *)
  pb_ptr   : option (N * oplist)     (* repo[<data prefix>/SNAP] : the packet named .../SNAP/seq=k it points to *)
}.

(* publishSnap: Reset + one add per current entry (Go map order: any permutation of pb_set), stored under
   SNAP/seq=<me.Latest>, and the SNAP prefix is pointed at it *)
Definition publish_snap (p : pub) : pub :=
  let content := {| ol_reset := true; ol_adds := pb_set p; ol_rems := [] |} in
  {| pb_init := pb_init p; pb_set := pb_set p; pb_seq := pb_seq p;
     pb_snapat := pb_seq p;
     pb_ops := pb_ops p;
     pb_snaps := (pb_seq p, content) :: pb_snaps p;
     pb_ptr := Some (pb_seq p, content) |}.

(* publishOp: IncrSeqNo, store the op under seq, then the snapshot-threshold test exactly as written *)
Definition publish_op (content : oplist) (p : pub) : pub :=
  let seq := pb_seq p + 1 in
  let p1 := {| pb_init := pb_init p; pb_set := pb_set p; pb_seq := seq; pb_snapat := pb_snapat p;
               pb_ops := (seq, content) :: pb_ops p; pb_snaps := pb_snaps p; pb_ptr := pb_ptr p |} in
  if pub_snap_test (pb_snapat p1) seq then publish_snap p1 else p1.

Definition with_set (s : list N) (p : pub) : pub :=
  {| pb_init := pb_init p; pb_set := s; pb_seq := pb_seq p; pb_snapat := pb_snapat p;
     pb_ops := pb_ops p; pb_snaps := pb_snaps p; pb_ptr := pb_ptr p |}.

(* NewPrefixTable *)
Definition pub_new (s0 : N) : pub :=
  publish_snap {| pb_init := s0; pb_set := []; pb_seq := s0; pb_snapat := 0; pb_ops := []; pb_snaps := []; pb_ptr := None |}.

Definition announce (n : N) (p : pub) : pub :=
  if mem n (pb_set p) then p
  else publish_op {| ol_reset := false; ol_adds := [n]; ol_rems := [] |} (with_set (n :: pb_set p) p).

Definition withdraw (n : N) (p : pub) : pub :=
  if mem n (pb_set p)
  then publish_op {| ol_reset := false; ol_adds := []; ol_rems := [n] |} (with_set (srem n (pb_set p)) p)
  else p.

(* ---- a peer's view of that publisher ---- *)
Inductive req := ReqOp (k : N) | ReqSnap.

Record peer := {
  j_known : N; j_latest : N; j_fetching : bool;
  j_reach : bool;                        (* dv.rib.Has(publisher) *)
  j_set : list N;                        (* pfx.GetRouter(publisher).Prefixes *)
  j_pending : option req;                (* the Interest expressed by prefixDataFetch, not yet resolved *)
  j_inflight : option (N * oplist)       (* Data answering it, on its way back: (sequence component of its name, content) *)
}.

Definition peer_new : peer :=
  {| j_known := 0; j_latest := 0; j_fetching := false; j_reach := false; j_set := []; j_pending := None; j_inflight := None |}.

(* prefixDataFetch up to Express *)
Definition try_fetch (j : peer) : peer :=
  if negb (j_reach j) then j
  else if j_fetching j || (j_latest j <=? j_known j) then j
  else {| j_known := j_known j; j_latest := j_latest j; j_fetching := true; j_reach := j_reach j; j_set := j_set j;
          j_pending := Some (if fetch_snap_test (j_latest j) (j_known j) then ReqSnap else ReqOp (j_known j + 1));
          j_inflight := None |}.

(* onPfxSyncUpdate *)
Definition on_sync (v : N) (j : peer) : peer :=
  try_fetch {| j_known := j_known j; j_latest := v; j_fetching := j_fetching j; j_reach := j_reach j; j_set := j_set j;
               j_pending := j_pending j; j_inflight := j_inflight j |}.

Definition set_reach (b : bool) (j : peer) : peer :=
  {| j_known := j_known j; j_latest := j_latest j; j_fetching := j_fetching j; j_reach := b; j_set := j_set j;
     j_pending := j_pending j; j_inflight := j_inflight j |}.

(* The pending Interest reaches a node that answers it. cached = None: the publisher itself (OnDataInterest, exact
   match in its repo: an op by sequence number, or whatever the SNAP pointer designates now);
   cached = Some s: a cache on the path answers the CanBePrefix SNAP Interest with the snapshot published at s. *)
Definition net_answer (cached : option N) (p : pub) (j : peer) : peer :=
  let data :=
    match j_pending j with
    | None => None
    | Some (ReqOp k) => match alookup k (pb_ops p) with Some o => Some (k, o) | None => None end
    | Some ReqSnap =>
        match cached with
        | None => pb_ptr p
        | Some s => match alookup s (pb_snaps p) with Some o => Some (s, o) | None => None end
        end
    end in
  match data with
  | None => j            (* no reply is sent *)
  | Some d => {| j_known := j_known j; j_latest := j_latest j; j_fetching := j_fetching j; j_reach := j_reach j;
                 j_set := j_set j; j_pending := j_pending j; j_inflight := Some d |}
  end.

(* Express callback with Data: processPrefixData (Known := sequence component; Apply), then Fetching := false and
   prefixDataFetch again.  Second component: did Apply report dirty (the router then runs fibUpdate). *)
Definition deliver (j : peer) : peer * bool :=
  match j_pending j, j_inflight j with
  | Some _, Some (s, o) =>
      (try_fetch {| j_known := s; j_latest := j_latest j; j_fetching := false; j_reach := j_reach j;
                    j_set := apply_ops o (j_set j); j_pending := None; j_inflight := None |}, apply_dirty o)
  | _, _ => (j, false)
  end.

(* Express callback without Data (timeout / nack): Fetching := false, prefixDataFetch again *)
Definition timeout (j : peer) : peer :=
  match j_pending j with
  | Some _ => try_fetch {| j_known := j_known j; j_latest := j_latest j; j_fetching := false; j_reach := j_reach j;
                           j_set := j_set j; j_pending := None; j_inflight := None |}
  | None => j
  end.

(* ---- histories ---- *)
Inductive ev :=
| PAnnounce (n : N) | PWithdraw (n : N)
| JSync (v : N)                 (* sync update carrying sequence number v *)
| JReach (b : bool)             (* the peer's RIB gains / loses a route to the publisher *)
| JKick                         (* any further call of prefixDataFetch (prefixDataFetchAll after a RIB change) *)
| NetAnswer (cached : option N)
| JDeliver | JTimeout.

Definition step (st : pub * peer) (e : ev) : pub * peer :=
  let (p, j) := st in
  match e with
  | PAnnounce n => (announce n p, j)
  | PWithdraw n => (withdraw n p, j)
  | JSync v => (p, on_sync v j)
  | JReach b => (p, set_reach b j)
  | JKick => (p, try_fetch j)
  | NetAnswer c => (p, net_answer c p j)
  | JDeliver => (p, fst (deliver j))
  | JTimeout => (p, timeout j)
  end.

Definition run (s0 : N) (evs : list ev) : pub * peer := fold_left step evs (pub_new s0, peer_new).

(* ---- specification side: the publisher's announced set after its publication number k, recomputed from the
   operation log alone (ops with sequence number <= k, oldest first, applied to the empty set) ---- *)
Fixpoint replay (ops : list (N * oplist)) : list N :=      (* ops newest first *)
  match ops with
  | [] => []
  | (_, o) :: older => apply_ops o (replay older)
  end.
Definition ops_upto (k : N) (ops : list (N * oplist)) := filter (fun so => fst so <=? k) ops.
Definition set_at (p : pub) (k : N) : list N := replay (ops_upto k (pb_ops p)).

Definition set_eqb (a b : list N) : bool := forallb (fun x => mem x b) a && forallb (fun x => mem x a) b.

(* decidable form of the replication property, evaluated by the runner on the implementation's observations *)
Definition peer_ok (pub_set : list N) (pub_seq known : N) (peer_set : list N) : bool :=
  negb (known =? pub_seq) || set_eqb peer_set pub_set.
