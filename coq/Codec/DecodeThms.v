(* Codec/DecodeThms.v — the C13 theorems for `decode` itself (nesting fuel = input length + 1, what the runner
   executes): Theorems13 (any sufficient depth) + TotalBr (that depth is never exhausted) + Mono (more depth does not
   change a non-fuel result). *)
From Codec Require Import Schema Readers Model Spec BrLemmas LeafLemmas Roundtrip Theorems13 Total TotalBr Mono.
From Coq Require Import ZifyBool ZifyN ZifyNat.
Open Scope N_scope.

Lemma decode_as_deep sc mi ic b D : (length b <= D)%nat -> bparse (S D) sc mi ic (br_of b) = decode sc mi ic b.
Proof.
  intros H. unfold decode.
  replace (S D) with ((D - length b) + S (length b))%nat by lia.
  unfold bparse. apply mono_parse.
  pose proof (decode_total_b sc mi ic b) as T. unfold decode, bparse in T. unfold nofuel. intro E. rewrite E in T. apply T. reflexivity.
Qed.

Theorem decode_roundtrip sc : schema_wf sc = true ->
  forall fuel mi vs ic, wf_value fuel sc mi vs = true -> small (encode fuel sc mi vs) ->
  exists cx cv, decode sc mi ic (encode fuel sc mi vs) = Ok (vs, cx, cv).
Proof.
  intros Hsc fuel mi vs ic Hw Hs.
  set (b := encode fuel sc mi vs). set (D := Nat.max fuel (length b)).
  rewrite <- (decode_as_deep sc mi ic b D) by lia.
  apply bparse_roundtrip; auto. lia.
Qed.

Theorem decode_unknown_skipped sc : schema_wf sc = true ->
  forall f mi vs ic es1 es2 t pl, wf_value (S f) sc mi vs = true -> small (encode (S f) sc mi vs) ->
  elements f sc mi vs = es1 ++ es2 ->
  find_field t 0 (flds (the_model sc mi)) = None -> (ic = true \/ critical t = false) -> t < two64 -> small pl ->
  exists cx cv, decode sc mi ic (concat es1 ++ tlv t pl ++ concat es2) = Ok (vs, cx, cv).
Proof.
  intros Hsc f mi vs ic es1 es2 t pl Hw Hs Hel Hnf Hc Ht Hpl.
  set (b := concat es1 ++ tlv t pl ++ concat es2). set (D := Nat.max (S f) (length b)).
  rewrite <- (decode_as_deep sc mi ic b D) by lia.
  apply (bparse_unknown_skipped sc Hsc D f); auto. lia.
Qed.

Theorem decode_unknown_critical_rejected sc : schema_wf sc = true ->
  forall f mi vs es1 es2 t l junk, wf_value (S f) sc mi vs = true -> small (encode (S f) sc mi vs) ->
  elements f sc mi vs = es1 ++ es2 ->
  find_field t 0 (flds (the_model sc mi)) = None -> critical t = true -> t < two64 -> l < two64 ->
  decode sc mi false (concat es1 ++ tl_enc t ++ tl_enc l ++ junk) = Err E_CRITICAL.
Proof.
  intros Hsc f mi vs es1 es2 t l junk Hw Hs Hel Hnf Hc Ht Hl.
  set (b := concat es1 ++ tl_enc t ++ tl_enc l ++ junk). set (D := Nat.max (S f) (length b)).
  rewrite <- (decode_as_deep sc mi false b D) by lia.
  apply (bparse_unknown_critical_rejected sc Hsc D f mi vs es1 es2); auto. lia.
Qed.
