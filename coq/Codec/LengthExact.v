(* Codec/LengthExact.v — the number of bytes Encode produces is the length the encoder announced
   (the length pass of Init), for every value, well-formed or not. *)
From Codec Require Import Schema Readers Model Spec LeafLemmas.
From Coq Require Import ZifyBool ZifyN ZifyNat.
Open Scope N_scope.

Lemma tlv_len_ok t pl : N.of_nat (length (tlv t pl)) = tlv_len t (N.of_nat (length pl)).
Proof. rewrite tlv_length. unfold tlv_len. lia. Qed.

Lemma name_inner_len n :
  N.of_nat (length (name_inner n)) = fold_right (fun c a => tlv_len (ctyp c) (N.of_nat (length (cval c))) + a) 0 n.
Proof.
  induction n as [|c n IH]; [reflexivity|].
  rewrite name_inner_cons, app_length, Nat2N.inj_add, IH. unfold comp_enc. rewrite tlv_len_ok. reflexivity.
Qed.

Lemma zipf_sumf {A B} (f : A -> B -> bytes) (g : A -> B -> N) :
  (forall a b, N.of_nat (length (f a b)) = g a b) ->
  forall l1 l2, N.of_nat (length (zipf f l1 l2)) = sumf g l1 l2.
Proof.
  intros H. induction l1 as [|a l1 IH]; intros [|b l2]; try reflexivity.
  cbn [zipf sumf]. rewrite app_length, Nat2N.inj_add, H, IH. reflexivity.
Qed.

Lemma len_val_exact : forall fuel sc t k v, N.of_nat (length (enc_val fuel sc t k v)) = len_val fuel sc t k v.
Proof.
  induction fuel as [|f IH]; intros sc t k v; [reflexivity|].
  destruct k; destruct v; try reflexivity; cbn [enc_val len_val].
  - rewrite !app_length, tl_enc_length, nat_enc_length. cbn [length]. lia.
  - rewrite !app_length, tl_enc_length, be_length. cbn [length]. lia.
  - rewrite !app_length, tl_enc_length, nat_enc_length. cbn [length]. lia.
  - apply tlv_len_ok.
  - apply tlv_len_ok.
  - apply tlv_len_ok.
  - rewrite tlv_len_ok, name_inner_len. reflexivity.
  - destruct b; [|reflexivity]. rewrite app_length, tl_enc_length. cbn [length]. lia.
  - rewrite tlv_len_ok. f_equal. unfold the_model. apply zipf_sumf. intros a b. apply IH.
  - induction l as [|x l IHl]; [reflexivity|]. cbn [map concat fold_right].
    rewrite app_length, Nat2N.inj_add, IH, IHl. reflexivity.
  - induction l as [|x l IHl]; [reflexivity|]. cbn [map concat fold_right].
    rewrite !app_length, !Nat2N.inj_add, !IH, IHl. lia.
  - destruct b; [reflexivity|]. apply tlv_len_ok.
  - rewrite tlv_len_ok, name_inner_len. reflexivity.
Qed.

Theorem encode_length_exact_all fuel sc mi vs : N.of_nat (length (encode fuel sc mi vs)) = enc_len fuel sc mi vs.
Proof. unfold encode, enc_len, enc_fields. apply zipf_sumf. intros a b. apply len_val_exact. Qed.
