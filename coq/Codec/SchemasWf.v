(* Codec/SchemasWf.v — the schemas translated from the source on this run are well formed (decided by computation):
   field classes known, widths 1/2/4/8, struct references inside the package, data fields carry a non-zero type number
   (a missing `tlv:"..."` tag shows up here), type numbers distinct within a model, marker references resolve. *)
From Codec Require Import Schema GenSchemas.

Lemma all_schemas_wf : forallb schema_wf all_schemas = true.
Proof. vm_compute. reflexivity. Qed.

Lemma all_schemas_count : fold_right plus O (map (@length model) all_schemas) = n_models.
Proof. vm_compute. reflexivity. Qed.
