(* Codec/FieldLemmas.v — the field readers (GenReadFrom) and skip processes (GenSkipProcess) over the BufferReader:
   effect on the struct under construction. *)
From Codec Require Import Schema Readers Model Spec BrLemmas LeafLemmas StateLemmas.
From Coq Require Import ZifyBool ZifyN ZifyNat.
Open Scope N_scope.

Notation b_skip_proc := (skip_proc br br_range).
Notation b_finish := (finish br br_range).
Notation b_rd_unknown := (rd_unknown br br_skip).
Notation b_rd_val := (rd_val br b_pos br_len br_readbyte br_readn br_readbuf br_readwire br_skip br_range br_delegate).
Notation b_rd_field := (rd_field br b_pos br_len br_readbyte br_readn br_readbuf br_readwire br_skip br_range br_delegate).
Notation b_oloop := (oloop br b_pos br_len br_readbyte br_readn br_readbuf br_readwire br_skip br_range br_delegate).
Notation b_ustep := (ustep br b_pos br_len br_readbyte br_readn br_readbuf br_readwire br_skip br_range br_delegate).
Notation b_pstep := (pstep br b_pos br_len br_readbyte br_readn br_readbuf br_readwire br_skip br_range br_delegate).
Notation b_ploop := (ploop br b_pos br_len br_readbyte br_readn br_readbuf br_readwire br_skip br_range br_delegate).

Lemma bparse_S d sc mi ic r :
  bparse (S d) sc mi ic r =
  match nth_error sc mi with
  | None => Err E_NOMODEL
  | Some m => b_ploop (bparse d sc) (S (Z.to_nat (br_len r - br_pos r))) m ic (init_pst m) (-1)%Z r
  end.
Proof. reflexivity. Qed.

Lemma br_range_ok r s e : exists o, br_range r s e = Ok o.
Proof. unfold br_range. destruct ((s <? 0) || (e >? br_len r) || (s >? e))%Z; eexists; reflexivity. Qed.

(* a field whose skip process leaves the struct as it is: repeated kinds, and absent single-element kinds *)
Definition skippable (k : fkind) (v : value) : Prop := is_rep k = true \/ present k v = false.

Section Fields.
  Variable sc : schema.

  Lemma b_skip_proc_vals F j k sp s r v :
    wf_val F sc k v = true -> skippable k v -> nth j (p_vals s) VNone = v ->
    exists s', b_skip_proc j k sp s r = Ok s' /\ p_vals s' = p_vals s /\ p_hand s' = p_hand s.
  Proof.
    intros Hw Hsk Hv. destruct F as [|F]; [discriminate Hw|].
    assert (Hsame : upd j v (p_vals s) = p_vals s) by (rewrite <- Hv; apply upd_same).
    destruct Hsk as [Hrep | Hab].
    - destruct k; try discriminate Hrep; cbn [skip_proc]; eexists; repeat split; reflexivity.
    - destruct k; destruct v; try discriminate Hw; try discriminate Hab; cbn [skip_proc wf_val] in *;
        try (destruct opt; try discriminate Hw);
        try (eexists; split; [reflexivity|]; split; [rewrite ?p_vals_set_val, ?p_vals_set_ctx; try exact Hsame; reflexivity|reflexivity]).
      + (* KBool false *) destruct b; [discriminate Hab|]. eexists; split; [reflexivity|]. split; [exact Hsame|reflexivity].
      + (* KSig VBytes [] *) destruct b; [cbn in Hw; discriminate Hw|discriminate Hab].
      + (* KRange *) destruct (br_range_ok r (get_ctx start (set_ctx j sp s)) sp) as [o Ho]. rewrite Ho.
        eexists; repeat split; reflexivity.
  Qed.

  Lemma b_finish_vals F : forall fs i sp s r,
    (forall j g, nth_error fs j = Some g -> nth (i + j) (p_hand s) false = false ->
                 wf_val F sc (fk g) (nth (i + j) (p_vals s) VNone) = true /\ skippable (fk g) (nth (i + j) (p_vals s) VNone)) ->
    exists s', b_finish i fs sp s r = Ok s' /\ p_vals s' = p_vals s.
  Proof.
    induction fs as [|g fs IH]; intros i sp s r H.
    - eexists; split; reflexivity.
    - cbn [finish]. destruct (nth i (p_hand s) false) eqn:Eh.
      + apply IH. intros j g' Hg' Hh. replace (S i + j)%nat with (i + S j)%nat in * by lia. apply (H (S j) g' Hg' Hh).
      + destruct (H 0%nat g eq_refl) as [Hw Hs]; [rewrite Nat.add_0_r; exact Eh|].
        rewrite Nat.add_0_r in Hw, Hs.
        destruct (b_skip_proc_vals F i (fk g) sp s r _ Hw Hs eq_refl) as [s' [E1 [E2 E3]]].
        rewrite E1. destruct (IH (S i) sp s' r) as [s'' [E4 E5]].
        * intros j g' Hg' Hh. rewrite E2. rewrite E3 in Hh.
          replace (S i + j)%nat with (i + S j)%nat in * by lia. apply (H (S j) g' Hg' Hh).
        * exists s''. split; [exact E4|congruence].
  Qed.

  (* ---- values of single-element kinds, nested structs through the parser of the nested level ---- *)
  Variable D : nat.          (* nested models are parsed by bparse D *)
  Variable Fmax : nat.       (* nested struct values of fuel < Fmax round-trip (induction hypothesis) *)
  Hypothesis Hsub : forall f2 mi vs ic, (S f2 <= Fmax)%nat -> wf_value f2 sc mi vs = true -> small (encode f2 sc mi vs) ->
    exists cx cv, bparse D sc mi ic (br_of (encode f2 sc mi vs)) = Ok (vs, cx, cv).

  Lemma b_delegate_app x t p : br_delegate (mkbr p (x ++ t)) (Z.of_nat (length x)) = Ok (br_of x, mkbr (rev x ++ p) t).
  Proof.
    unfold br_delegate. rewrite br_rem_mk, app_length.
    destruct ((Z.of_nat (length x) <? 0) || (Z.of_nat (length x) >? Z.of_nat (length x + length t)))%Z eqn:E; [lia|].
    rewrite Nat2Z.id. rewrite br_adv_app. cbn [rest]. rewrite firstn_app_exact. reflexivity.
  Qed.

  Definition valk (k : fkind) : bool := leafk k || match k with KStruct _ => true | _ => false end.

  Lemma b_rd_val_payload f ic k v p t :
    (S f <= Fmax)%nat -> valk k = true -> wf_val (S f) sc k v = true -> present k v = true -> small (payload f sc k v) ->
    b_rd_val (bparse D sc) ic k (N.of_nat (length (payload f sc k v))) (mkbr p (payload f sc k v ++ t)) =
    ROk v (mkbr (rev (payload f sc k v) ++ p) t).
  Proof.
    intros Hf Hk Hw Hp Hs.
    destruct (leafk k) eqn:El.
    - replace (b_rd_val (bparse D sc) ic k) with (brd_leaf k) by (destruct k; try reflexivity; discriminate El).
      apply b_rd_leaf; assumption.
    - destruct k; try discriminate Hk; try discriminate El.
      destruct v; try discriminate Hw; try discriminate Hp.
      cbn [payload rd_val] in *. rewrite to_int_small by exact Hs. rewrite nat_N_Z. rewrite b_delegate_app.
      cbn [wf_val] in Hw. unfold the_model in *.
      destruct (nth_error sc m) as [md|] eqn:Em; [|discriminate Hw].
      rewrite (nth_error_nth' sc m md _ Em) in *.
      destruct (Hsub f m fs ic Hf) as [cx [cv Hb]].
      + unfold wf_value. rewrite Em. exact Hw.
      + unfold encode, the_model. rewrite (nth_error_nth' sc m md _ Em). exact Hs.
      + unfold encode, the_model in Hb. rewrite (nth_error_nth' sc m md _ Em) in Hb. rewrite Hb. reflexivity.
  Qed.

  Lemma strip_digest_id n : no_digest_tail n = true -> strip_digest n = n.
  Proof.
    unfold no_digest_tail, strip_digest. destruct (rev n) as [|c r]; [reflexivity|].
    intros H. apply negb_true_iff in H. rewrite H. reflexivity.
  Qed.

  (* GenReadFrom of a single-element field: the slot gets the value, the flag is set *)
  Lemma b_rd_field_single f ic i k v sp s p t :
    (S f <= Fmax)%nat -> single k = true -> wf_val (S f) sc k v = true -> present k v = true -> small (payload f sc k v) ->
    exists s', b_rd_field (bparse D sc) ic i k (N.of_nat (length (payload f sc k v))) sp s (mkbr p (payload f sc k v ++ t))
               = ROk s' (mkbr (rev (payload f sc k v) ++ p) t)
               /\ p_vals s' = upd i v (p_vals s) /\ p_hand s' = upd i true (p_hand s).
  Proof.
    intros Hf Hs Hw Hp Hsm.
    destruct (valk k) eqn:Ev.
    - pose proof (b_rd_val_payload f ic k v p t Hf Ev Hw Hp Hsm) as Hrd.
      destruct k; try discriminate Hs; try discriminate Ev; unfold rd_field;
        try (rewrite Hrd; eexists; split; [reflexivity|split; reflexivity]).
      (* KSig: also records the covered range *)
      cbn [rd_val] in Hrd. rewrite Hrd.
      destruct (br_range_ok (mkbr (rev (payload f sc (KSig start cov) v) ++ p) t) (get_ctx start (set_hand i s)) sp) as [o Ho].
      rewrite Ho. eexists; split; [reflexivity|split; reflexivity].
    - destruct k; try discriminate Hs; try discriminate Ev.
      (* KIntName *)
      destruct v; try discriminate Hw; try discriminate Hp.
      cbn [wf_val] in Hw. apply andb_true_iff in Hw as [Hok Hnd].
      cbn [payload] in *. rewrite (strip_digest_id n Hnd) in *.
      unfold rd_field. rewrite b_len_guard_ok. rewrite br_pos_mk.
      rewrite to_int_small by exact Hsm. rewrite nat_N_Z.
      destruct (b_rd_icomps n (N.to_nat (N.of_nat (length (name_inner n)) / 2 + 1))
                  (Z.of_nat (length p) + Z.of_nat (length (name_inner n)))%Z
                  (Z.of_nat (length p) + Z.of_nat (length (name_inner n)))%Z p t []) as [ce' Hce].
      + apply name_small_of; assumption.
      + apply name_fuel. exact Hsm.
      + lia.
      + rewrite Hce. cbn [rev app]. rewrite br_pos_mk. rewrite app_length, rev_length.
        destruct (Z.of_nat (length (name_inner n) + length p) =? Z.of_nat (length p) + Z.of_nat (length (name_inner n)))%Z eqn:E; [|lia].
        destruct (br_range_ok (mkbr (rev (name_inner n) ++ p) t) (Z.of_nat (length p)) ce') as [o Ho].
        rewrite Ho. eexists; split; [reflexivity|split; reflexivity].
  Qed.

  (* ---- repeated kinds ---- *)
  Definition seq_sub_ok (k : fkind) : bool :=
    match k with
    | KNat false | KStr false | KName | KBin | KStruct _ | KFixed _ false | KTime false => true
    | _ => false
    end.

  Lemma seq_sub_facts k x : seq_sub_ok k = true -> is_none x = false ->
    valk k = true /\ single k = true /\ present k x = true.
  Proof.
    intros Hk Hx. destruct k; try discriminate Hk; try (destruct opt; try discriminate Hk);
      destruct x; try discriminate Hx; repeat split; reflexivity.
  Qed.

  Lemma b_rd_field_seq f0 ic i k x old sp s p t :
    (S f0 <= Fmax)%nat -> seq_sub_ok k = true -> is_none x = false -> wf_val (S f0) sc k x = true ->
    small (payload f0 sc k x) -> nth i (p_vals s) VNone = VSeq old ->
    exists s', b_rd_field (bparse D sc) ic i (KSeq k) (N.of_nat (length (payload f0 sc k x))) sp s (mkbr p (payload f0 sc k x ++ t))
               = ROk s' (mkbr (rev (payload f0 sc k x) ++ p) t)
               /\ p_vals s' = upd i (VSeq (old ++ [x])) (p_vals s) /\ p_hand s' = upd i true (p_hand s).
  Proof.
    intros Hf Hk Hx Hw Hs Hold. destruct (seq_sub_facts k x Hk Hx) as [Hv [_ Hp]].
    unfold rd_field. rewrite (b_rd_val_payload f0 ic k x p t Hf Hv Hw Hp Hs).
    unfold get_val. cbn [set_hand p_vals]. rewrite Hold.
    eexists; split; [reflexivity|split; reflexivity].
  Qed.

  Definition map_key_ok (k : fkind) : bool := match k with KNat false | KStr false => true | _ => false end.
  Definition map_val_ok (k : fkind) : bool :=
    match k with KBin | KStruct _ | KNat false | KStr false | KName => true | _ => false end.

  Lemma map_key_seq k : map_key_ok k = true -> seq_sub_ok k = true.
  Proof. destruct k; try discriminate; destruct opt; try discriminate; reflexivity. Qed.
  Lemma map_val_seq k : map_val_ok k = true -> seq_sub_ok k = true.
  Proof. destruct k; try discriminate; try (destruct opt; try discriminate); reflexivity. Qed.

  Lemma b_rd_field_map f0 ic i key vt val kx vx old sp s p t :
    (S f0 <= Fmax)%nat -> map_key_ok key = true -> map_val_ok val = true -> vt < two64 ->
    is_none kx = false -> is_none vx = false -> wf_val (S f0) sc key kx = true -> wf_val (S f0) sc val vx = true ->
    small (payload f0 sc key kx) -> small (payload f0 sc val vx) -> nth i (p_vals s) VNone = VMap old ->
    exists s', b_rd_field (bparse D sc) ic i (KMap key vt val) (N.of_nat (length (payload f0 sc key kx))) sp s
                 (mkbr p (payload f0 sc key kx ++ tlv vt (payload f0 sc val vx) ++ t))
               = ROk s' (mkbr (rev (payload f0 sc key kx ++ tlv vt (payload f0 sc val vx)) ++ p) t)
               /\ p_vals s' = upd i (VMap (map_put kx vx old)) (p_vals s) /\ p_hand s' = upd i true (p_hand s).
  Proof.
    intros Hf Hk Hv Hvt Hkx Hvx Hwk Hwv Hsk Hsv Hold.
    destruct (seq_sub_facts key kx (map_key_seq _ Hk) Hkx) as [Hk1 [_ Hk2]].
    destruct (seq_sub_facts val vx (map_val_seq _ Hv) Hvx) as [Hv1 [_ Hv2]].
    unfold rd_field. rewrite (b_rd_val_payload f0 ic key kx p _ Hf Hk1 Hwk Hk2 Hsk).
    destruct (b_rd_header vt (payload f0 sc val vx) (rev (payload f0 sc key kx) ++ p) t Hvt Hsv) as [H1 H2].
    rewrite H1. cbn [negb]. rewrite H2. cbn [negb].
    rewrite N.eqb_refl. cbn [negb].
    rewrite (b_rd_val_payload f0 ic val vx _ t Hf Hv1 Hwv Hv2 Hsv).
    unfold get_val. cbn [set_hand p_vals]. rewrite Hold.
    eexists. split.
    { f_equal. f_equal. unfold tlv. rewrite !rev_app_distr, <- !app_assoc. reflexivity. }
    split; reflexivity.
  Qed.

  (* ---- generalisation: the value bytes of a struct-typed element may be ANY bytes the nested parser maps to the nested
     value (e.g. its encoding with unrecognised skippable elements inside); every other kind has its exact payload ---- *)
  Definition pay (f : nat) (ic : bool) (k : fkind) (v : value) (pl : bytes) : Prop :=
    match k with
    | KStruct m => match v with
                   | VStruct fs => exists cx cv, bparse D sc m ic (br_of pl) = Ok (fs, cx, cv)
                   | _ => False
                   end
    | _ => pl = payload f sc k v
    end.

  Definition is_struct (k : fkind) : bool := match k with KStruct _ => true | _ => false end.

  Lemma pay_nonstruct f ic k v pl : is_struct k = false -> pay f ic k v pl -> pl = payload f sc k v.
  Proof. destruct k; intros H P; try discriminate H; exact P. Qed.

  Lemma pay_exact f ic k v : (S f <= Fmax)%nat -> wf_val (S f) sc k v = true -> present k v = true ->
    small (payload f sc k v) -> pay f ic k v (payload f sc k v).
  Proof.
    intros Hf Hw Hp Hs. destruct k; try reflexivity.
    destruct v; try discriminate Hw; try discriminate Hp. cbn [pay payload] in *.
    cbn [wf_val] in Hw. unfold the_model in *.
    destruct (nth_error sc m) as [md|] eqn:Em; [|discriminate Hw].
    rewrite (nth_error_nth' sc m md _ Em) in *.
    destruct (Hsub f m fs ic Hf) as [cx [cv Hb]].
    - unfold wf_value. rewrite Em. exact Hw.
    - unfold encode, the_model. rewrite (nth_error_nth' sc m md _ Em). exact Hs.
    - unfold encode, the_model in Hb. rewrite (nth_error_nth' sc m md _ Em) in Hb. eauto.
  Qed.

  Lemma b_rd_val_pay f ic k v pl p t :
    (S f <= Fmax)%nat -> valk k = true -> wf_val (S f) sc k v = true -> present k v = true -> small pl -> pay f ic k v pl ->
    b_rd_val (bparse D sc) ic k (N.of_nat (length pl)) (mkbr p (pl ++ t)) = ROk v (mkbr (rev pl ++ p) t).
  Proof.
    intros Hf Hk Hw Hp Hs Hpay.
    destruct (is_struct k) eqn:Est.
    - destruct k; try discriminate Est. destruct v; try (destruct Hpay; fail).
      cbn [pay] in Hpay. destruct Hpay as [cx [cv Hb]].
      cbn [rd_val]. rewrite to_int_small by exact Hs. rewrite nat_N_Z. rewrite b_delegate_app. rewrite Hb. reflexivity.
    - rewrite (pay_nonstruct f ic k v pl Est Hpay) in *. apply b_rd_val_payload; assumption.
  Qed.

  Lemma b_rd_field_single_pay f ic i k v pl sp s p t :
    (S f <= Fmax)%nat -> single k = true -> wf_val (S f) sc k v = true -> present k v = true -> small pl -> pay f ic k v pl ->
    exists s', b_rd_field (bparse D sc) ic i k (N.of_nat (length pl)) sp s (mkbr p (pl ++ t))
               = ROk s' (mkbr (rev pl ++ p) t)
               /\ p_vals s' = upd i v (p_vals s) /\ p_hand s' = upd i true (p_hand s).
  Proof.
    intros Hf Hs Hw Hp Hsm Hpay.
    destruct (is_struct k) eqn:Est.
    - pose proof (b_rd_val_pay f ic k v pl p t Hf ltac:(destruct k; try discriminate Est; reflexivity) Hw Hp Hsm Hpay) as Hrd.
      destruct k; try discriminate Est. unfold rd_field. rewrite Hrd. eexists; split; [reflexivity|split; reflexivity].
    - rewrite (pay_nonstruct f ic k v pl Est Hpay) in *. apply b_rd_field_single; assumption.
  Qed.

  Lemma b_rd_field_seq_pay f0 ic i k x pl old sp s p t :
    (S f0 <= Fmax)%nat -> seq_sub_ok k = true -> is_none x = false -> wf_val (S f0) sc k x = true ->
    small pl -> pay f0 ic k x pl -> nth i (p_vals s) VNone = VSeq old ->
    exists s', b_rd_field (bparse D sc) ic i (KSeq k) (N.of_nat (length pl)) sp s (mkbr p (pl ++ t))
               = ROk s' (mkbr (rev pl ++ p) t)
               /\ p_vals s' = upd i (VSeq (old ++ [x])) (p_vals s) /\ p_hand s' = upd i true (p_hand s).
  Proof.
    intros Hf Hk Hx Hw Hs Hpay Hold. destruct (seq_sub_facts k x Hk Hx) as [Hv [_ Hp]].
    unfold rd_field. rewrite (b_rd_val_pay f0 ic k x pl p t Hf Hv Hw Hp Hs Hpay).
    unfold get_val. cbn [set_hand p_vals]. rewrite Hold.
    eexists; split; [reflexivity|split; reflexivity].
  Qed.

  Lemma b_rd_field_map_pay f0 ic i key vt val kx vx plv old sp s p t :
    (S f0 <= Fmax)%nat -> map_key_ok key = true -> map_val_ok val = true -> vt < two64 ->
    is_none kx = false -> is_none vx = false -> wf_val (S f0) sc key kx = true -> wf_val (S f0) sc val vx = true ->
    small (payload f0 sc key kx) -> small plv -> pay f0 ic val vx plv -> nth i (p_vals s) VNone = VMap old ->
    exists s', b_rd_field (bparse D sc) ic i (KMap key vt val) (N.of_nat (length (payload f0 sc key kx))) sp s
                 (mkbr p (payload f0 sc key kx ++ tlv vt plv ++ t))
               = ROk s' (mkbr (rev (payload f0 sc key kx ++ tlv vt plv) ++ p) t)
               /\ p_vals s' = upd i (VMap (map_put kx vx old)) (p_vals s) /\ p_hand s' = upd i true (p_hand s).
  Proof.
    intros Hf Hk Hv Hvt Hkx Hvx Hwk Hwv Hsk Hsv Hpay Hold.
    destruct (seq_sub_facts key kx (map_key_seq _ Hk) Hkx) as [Hk1 [_ Hk2]].
    destruct (seq_sub_facts val vx (map_val_seq _ Hv) Hvx) as [Hv1 [_ Hv2]].
    unfold rd_field. rewrite (b_rd_val_payload f0 ic key kx p _ Hf Hk1 Hwk Hk2 Hsk).
    destruct (b_rd_header vt plv (rev (payload f0 sc key kx) ++ p) t Hvt Hsv) as [H1 H2].
    rewrite H1. cbn [negb]. rewrite H2. cbn [negb].
    rewrite N.eqb_refl. cbn [negb].
    rewrite (b_rd_val_pay f0 ic val vx plv _ t Hf Hv1 Hwv Hv2 Hsv Hpay).
    unfold get_val. cbn [set_hand p_vals]. rewrite Hold.
    eexists. split.
    { f_equal. f_equal. unfold tlv. rewrite !rev_app_distr, <- !app_assoc. reflexivity. }
    split; reflexivity.
  Qed.
End Fields.
