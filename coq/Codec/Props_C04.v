(* Property C04 (decoder half) — no byte sequence can crash or exhaust a TLV decoder.
   Only theorem statements closed by `exact`, each followed by Print Assumptions.
   Subject: `decode` / `decode_wire` of Codec/Model.v = the schema-interpreting model of every generated Parse function
   over the BufferReader model and over ParseReader = BufferReader | WireReader (Codec/Readers.v), with Go run-time panics
   (index / slice out of range, nil wire indexing) as explicit `Panic` outcomes of the reader models and of the parser.
   The schema is arbitrary (well formed or not): the statements hold in particular for the 79 generated models.
   What a proof cannot show here — heap growth and run time of the real Go code — is measured by the check on the
   implementation (allocation per call, address-space limit, watchdog). *)
From Codec Require Import Schema Readers Model Spec GenSchemas Total TotalBr TotalWr Hand Alloc.
Open Scope N_scope.

(* any byte list, contiguous reader: a value or an error, never a panic; the model's own fuel (nesting depth =
   input length + 1, loop iterations = Length() + 1) is never exhausted, i.e. the loops terminate on their own because
   every iteration consumes input and every nested reader is strictly shorter *)
Theorem decode_total : forall sc mi ic (b : bytes),
  match decode sc mi ic b with Ok _ => True | Err e => e <> E_FUEL | Panic _ => False end.
Proof. exact decode_total_b. Qed.
Print Assumptions decode_total.

(* the same for the segmented reader, any segmentation (empty segments, cuts inside T and L) *)
Theorem decode_wire_total : forall sc mi ic (segs : list bytes),
  match decode_wire sc mi ic segs with Ok _ => True | Err e => e <> E_FUEL | Panic _ => False end.
Proof. exact decode_total_w. Qed.
Print Assumptions decode_wire_total.

(* from any reader state (e.g. a delegated sub-reader in the middle of a packet) *)
Theorem parse_total_buffer : forall d sc mi ic r, (length (rest r) < d)%nat ->
  match bparse d sc mi ic r with Ok _ => True | Err e => e <> E_FUEL | Panic _ => False end.
Proof. exact bparse_total. Qed.
Print Assumptions parse_total_buffer.

Theorem parse_total_wire : forall d sc mi ic r, p_RI r -> (p_rem r < d)%nat ->
  match wparse d sc mi ic r with Ok _ => True | Err e => e <> E_FUEL | Panic _ => False end.
Proof. exact wparse_total. Qed.
Print Assumptions parse_total_wire.

(* the hand-written decoders of std/encoding: NameFromBytes, ComponentFromBytes (ReadComponent), ReadName through both
   readers (loop ends within remaining bytes + 1 iterations: HFuel unreachable); ParseNat is `Base.VarNum.nat_dec`, a
   total function of the length (handwritten_glue_total below, with ReadPacket / ReadData / ReadInterest). *)
Theorem handwritten_total :
  (forall b : bytes, match name_from_bytes b with Ok _ => True | Err e => e <> E_FUEL | Panic _ => False end) /\
  (forall b : bytes, match comp_from_bytes b with Ok _ => True | Err e => e <> E_FUEL | Panic _ => False end) /\
  (forall r : br, match b_read_name r with HOk _ _ | HEof _ | HErr _ => True | HPanic _ => False | HFuel => False end) /\
  (forall r : preader, p_RI r ->
     match w_read_name r with HOk _ _ | HEof _ | HErr _ => True | HPanic _ => False | HFuel => False end).
Proof. exact (conj name_from_bytes_total (conj comp_from_bytes_total (conj b_read_name_total w_read_name_total))). Qed.
Print Assumptions handwritten_total.

(* ParseNat and the hand-written glue of std/ndn/spec_2022/spec.go on top of the generated Packet parser: ReadPacket
   (type dispatch Data / Interest / LpPacket with the nil-member checks; LpPacket is unwrapped as far as spec.go does it:
   only `Fragment == nil` is looked at), ReadData, ReadInterest and checkInterest (name present, signature needs
   parameters, no digest component without parameters, `name[len(name)-1]` behind its `len(name) == 0` guard — the model
   indexes with a Panic on an empty name, so the guard is what the theorem establishes).  `dok` is the outcome of the
   SHA-256 comparison (an oracle bit: any value); `ix` are the member positions, any values (the check uses the translated
   `spec2022_ix`).  For every schema, model, byte string / segment list: no panic and the loops end (no E_FUEL). *)
Theorem handwritten_glue_total :
  (forall b : bytes, parse_nat b =
     if (Nat.eqb (length b) 1 || Nat.eqb (length b) 2 || Nat.eqb (length b) 4 || Nat.eqb (length b) 8)%bool then Some (be_val b) else None) /\
  (forall ix dok sc mi (b : bytes),
     match read_packet_b ix dok sc mi b with Ok _ => True | Err e => e <> E_FUEL | Panic _ => False end /\
     match read_data_b ix sc mi b with Ok _ => True | Err e => e <> E_FUEL | Panic _ => False end /\
     match read_interest_b ix dok sc mi b with Ok _ => True | Err e => e <> E_FUEL | Panic _ => False end) /\
  (forall ix dok sc mi (segs : list bytes),
     match read_packet_w ix dok sc mi segs with Ok _ => True | Err e => e <> E_FUEL | Panic _ => False end /\
     match read_data_w ix sc mi segs with Ok _ => True | Err e => e <> E_FUEL | Panic _ => False end /\
     match read_interest_w ix dok sc mi segs with Ok _ => True | Err e => e <> E_FUEL | Panic _ => False end).
Proof. exact Hand.handwritten_glue_total. Qed.
Print Assumptions handwritten_glue_total.

(* allocation: `decode_alloc` adds up, along the parser's own run on the input, what every invoked field reader asks the
   allocator for (Alloc.v: the struct, make([]byte,l) / make(enc.Name,l/2+1) behind their length guard, io.CopyN's buffer,
   slice growth, map entries, Delegate's reader, nested parsers).  It is linear in the input length, with a coefficient
   that depends on the schema only (512 + the largest struct) — for accepted and for rejected inputs alike
   (CE = 32 KiB: io.CopyN's buffer on the one failing read).  BufferReader; inputs shorter than 2^63 bytes. *)
Theorem decode_alloc_linear : forall sc mi ic (b : bytes), N.of_nat (length b) < two63 ->
  decode_alloc sc mi ic b <= kcoef sc * N.of_nat (length b) + smax sc + CE.
Proof.
  exact (fun sc mi ic b Hb =>
    match decode sc mi ic b as o return
      (match o with
       | Ok _ => decode_alloc sc mi ic b <= kcoef sc * N.of_nat (length b) + smax sc
       | Err _ => decode_alloc sc mi ic b <= kcoef sc * N.of_nat (length b) + smax sc + CE
       | Panic _ => False end) -> _ with
    | Ok _ => fun H => N.le_trans _ _ _ H (N.le_add_r _ _)
    | Err _ => fun H => H
    | Panic _ => fun H => False_ind _ H
    end (alloc_bound sc (S (length b)) mi ic (br_of b) Hb)).
Qed.
Print Assumptions decode_alloc_linear.

(* non-vacuity / regression: inputs that crashed, hung or exhausted the pinned code are plainly rejected *)
Example c04_example :
  (* unknown element with length 2^64-10: BufferReader.Skip used to go backwards -> endless loop *)
  decode pkg_std_ndn_spec_2022 2 true [240; 255; 255; 255; 255; 255; 255; 255; 255; 246] = Err E_EOF /\
  (* name with length 2^40 in a KeyLocator: make(enc.Name, 2^39+1) *)
  decode pkg_std_ndn_spec_2022 0 false [7; 255; 0; 0; 1; 0; 0; 0; 0; 0; 8; 1; 97] = Err E_EOF /\
  (* truncated HopLimit through a segmented reader *)
  decode_wire pkg_std_ndn_spec_2022 10 false [[7; 3; 8]; [1; 97]; [34; 1]] = Err E_EOF.
Proof. repeat split; vm_compute; reflexivity. Qed.
