(* Property C04 (decoder half) — no byte sequence can crash or exhaust a TLV decoder.
   Placeholder until Total.v lands: the decidable part on a concrete adversarial input. *)
From Codec Require Import Schema Readers Model Spec GenSchemas.
Open Scope N_scope.

(* non-vacuity / regression: inputs that crashed or hung the pinned code are rejected by the model of the fixed code *)
Example c04_example :
  (* unknown element with length 2^64-10: BufferReader.Skip used to go backwards -> endless loop *)
  decode pkg_std_ndn_spec_2022 2 true [240; 255; 255; 255; 255; 255; 255; 255; 255; 246] = Err E_EOF /\
  (* name with length 2^40 in a KeyLocator: make(enc.Name, 2^39+1) *)
  decode pkg_std_ndn_spec_2022 0 false [7; 255; 0; 0; 1; 0; 0; 0; 0; 0; 8; 1; 97] = Err E_EOF /\
  (* truncated HopLimit through a segmented reader *)
  decode_wire pkg_std_ndn_spec_2022 10 false [[7; 3; 8]; [1; 97]; [34; 1]] = Err E_EOF.
Proof. repeat split; vm_compute; reflexivity. Qed.
