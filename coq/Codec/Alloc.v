(* Codec/Alloc.v — allocation requests of the generated parser (BufferReader), as an upper-bound function of the
   input, and the proof that it is linear in the input length.
   `alloc_ub d sc mi ic r` adds up, along the very run of the parser on r (state evolution by Model.pstep), what each
   invoked field reader asks the Go allocator for: the struct itself, make([]byte, l) / make(enc.Name, l/2+1) (only after
   the length guard), io.CopyN's buffer (<= 32 KiB) and the string builder, pointer targets of optional numbers, slice
   growth of sequences, map entries, Delegate's reader, nested parsers.  Constants are estimates of Go object sizes; the
   shape (what depends on which length, and under which guard) is read off the templates.  The harness measures the real
   allocation per call and the check compares it with this function on every case. *)
From Codec Require Import Schema Readers Model Spec BrLemmas LeafLemmas StateLemmas FieldLemmas Total TotalBr.
From Coq Require Import ZifyBool ZifyN ZifyNat.
Open Scope N_scope.

Definition struct_cost (m : model) : N := 32 + 24 * N.of_nat (length (flds m)).
Definition str_cost (l rem : N) : N := if l <=? rem then 3 * l else 32768 + 2 * rem.
Definition nrem (r : br) : N := N.of_nat (length (rest r)).

Definition leaf_cost (k : fkind) (l : N) (r : br) : N :=
  match k with
  | KNat _ | KFixed _ _ | KTime _ => 8
  | KBin => if l <=? nrem r then l else 0
  | KStr _ => if (to_int l <=? 0)%Z then 0 else str_cost l (nrem r)
  | KWire | KSig _ _ => 24
  | KName => if l <=? nrem r then 32 * (l / 2 + 1) else 0
  | _ => 0
  end.

Section A.
  Variable sub_a : nat -> bool -> br -> N.               (* allocation of the nested parser *)
  Variable sub : nat -> bool -> br -> res parse_out.     (* the nested parser *)

  Definition val_cost (ic : bool) (k : fkind) (l : N) (r : br) : N :=
    match k with
    | KStruct m => 32 + match br_delegate r (to_int l) with Ok (sr, _) => sub_a m ic sr | _ => 0 end
    | _ => leaf_cost k l r
    end.

  Definition field_cost (ic : bool) (k : fkind) (l : N) (r : br) : N :=
    match k with
    | KSeq s0 => 72 + val_cost ic s0 l r
    | KMap key vt val =>
        256 + val_cost ic key l r +
        match b_rd_val sub ic key l r with
        | ROk _ r1 =>
          match brd_tlnum r1 with
          | TL _ t2 true r2 =>
            match brd_tlnum r2 with TL _ l2 true r3 => if t2 =? vt then val_cost ic val l2 r3 else 0 | _ => 0 end
          | _ => 0
          end
        | _ => 0
        end
    | KSig _ _ => 96 + leaf_cost k l r
    | KIntName _ => 96 + leaf_cost KName l r
    | KOffset | KRange _ _ | KArg => 0
    | _ => val_cost ic k l r
    end.

  (* one loop iteration: the field reader is invoked unless the element is unknown or (ordered model) its slot is passed *)
  Definition step_cost (m : model) (ic : bool) (p : Z) (r : br) : N :=
    match brd_tlnum r with
    | TL _ t true r1 =>
      match brd_tlnum r1 with
      | TL _ l true r2 =>
        match find_field t 0 (flds m) with
        | Some (i, f) => if ordered m && (Z.of_nat i <? p + 1)%Z then 0 else field_cost ic (fk f) l r2
        | None => 0
        end
      | _ => 0
      end
    | _ => 0
    end.

  Fixpoint aloop (k : nat) (m : model) (ic : bool) (s : pst) (p : Z) (r : br) : N :=
    match k with
    | O => 0
    | S k' =>
      if (br_pos r >=? br_len r)%Z then 0
      else step_cost m ic p r +
           match b_pstep sub m ic (br_pos r) s p r with
           | ROk (s', p') r' => aloop k' m ic s' p' r'
           | _ => 0
           end
    end.
End A.

Fixpoint alloc_ub (d : nat) (sc : schema) (mi : nat) (ic : bool) (r : br) : N :=
  match d with
  | O => 0
  | S d' =>
    match nth_error sc mi with
    | None => 0
    | Some m => struct_cost m +
                aloop (alloc_ub d' sc) (bparse d' sc) (S (Z.to_nat (br_len r - br_pos r))) m ic (init_pst m) (-1)%Z r
    end
  end.

Definition decode_alloc (sc : schema) (mi : nat) (ic : bool) (b : bytes) : N := alloc_ub (S (length b)) sc mi ic (br_of b).

(* ================================================================================================ *)
(* consumption facts of the BufferReader primitives *)

Lemma nrem_adv n r : nrem (br_adv n r) = nrem r - N.of_nat n.
Proof. unfold nrem. rewrite TotalBr.br_adv_rest. lia. Qed.

Lemma blen_adv n r : (n <= length (rest r))%nat -> br_len (br_adv n r) = br_len r.
Proof.
  intros H. unfold br_len, br_pos, br_rem, br_adv; cbn [rpre rest].
  rewrite rev_append_rev, app_length, rev_length, firstn_length, skipn_length. lia.
Qed.

Definition keeps (r r' : br) : Prop := br_len r' = br_len r /\ nrem r' <= nrem r.

Lemma keeps_refl r : keeps r r. Proof. split; [reflexivity|lia]. Qed.
Lemma keeps_trans a b c : keeps a b -> keeps b c -> keeps a c.
Proof. intros [H1 H2] [H3 H4]. split; [congruence|lia]. Qed.

Lemma pos_rem r : (br_pos r = br_len r - Z.of_N (nrem r))%Z.
Proof. unfold br_len, br_rem, nrem. lia. Qed.

Lemma k_readbyte r : match br_readbyte r with
                     | ROk _ r' => br_len r' = br_len r /\ nrem r' + 1 = nrem r
                     | RErr _ r' => r' = r
                     | RPanic _ => False end.
Proof.
  unfold br_readbyte. destruct r as [p [|x t]]; [reflexivity|].
  unfold br_len, br_pos, br_rem, nrem; cbn [rpre rest length]. lia.
Qed.

Lemma k_rd_be : forall k acc r, match brd_be k acc r with
                                | TL _ _ _ r' => keeps r r'
                                | TLPanic _ _ => False end.
Proof.
  induction k as [|k IH]; intros acc r; cbn [rd_be]; [apply keeps_refl|].
  pose proof (k_readbyte r) as X. destruct (br_readbyte r) as [x r'|e r'|w]; [|subst; apply keeps_refl|contradiction].
  specialize (IH (acc * 256 + x) r'). destruct (brd_be k (acc * 256 + x) r'); [|contradiction].
  eapply keeps_trans; [|exact IH]. split; [apply X|lia].
Qed.

Lemma k_rd_tlnum r : match brd_tlnum r with
                     | TL _ _ ok r' => keeps r r' /\ (ok = true -> nrem r' + 1 <= nrem r)
                     | TLPanic _ _ => False end.
Proof.
  unfold rd_tlnum. pose proof (k_readbyte r) as X.
  destruct (br_readbyte r) as [x r'|e r'|w]; [|subst; split; [apply keeps_refl|discriminate]|contradiction].
  assert (Hb : forall k, match brd_be k 0 r' with TL _ _ ok r'' => keeps r r'' /\ (ok = true -> nrem r'' + 1 <= nrem r) | TLPanic _ _ => False end).
  { intros k. pose proof (k_rd_be k 0 r') as Y. destruct (brd_be k 0 r'); [|contradiction].
    destruct Y as [Y1 Y2]. split; [split; [destruct X; congruence|lia]|lia]. }
  destruct (x <=? 252); [split; [split; [apply X|lia]|lia]|].
  destruct (x =? 253); [apply Hb|]. destruct (x =? 254); apply Hb.
Qed.

Lemma k_readbuf r l : match br_readbuf r l with
                      | ROk _ r' => br_len r' = br_len r /\ (Z.of_N (nrem r') + l = Z.of_N (nrem r))%Z /\ (0 <= l)%Z
                      | RErr _ r' => r' = r
                      | RPanic _ => False end.
Proof.
  unfold br_readbuf. destruct ((l <? 0) || (l >? br_rem r))%Z eqn:E; [reflexivity|].
  unfold br_rem in E. rewrite blen_adv by lia. rewrite nrem_adv. unfold nrem. repeat split; lia.
Qed.

Lemma k_readn r n : match br_readn r n with
                    | ROk _ r' => br_len r' = br_len r /\ nrem r' + n = nrem r
                    | RErr _ r' => keeps r r'
                    | RPanic _ => False end.
Proof.
  unfold br_readn. destruct (Z.of_N n <=? br_rem r)%Z eqn:E; unfold br_rem in E.
  - rewrite blen_adv by lia. rewrite nrem_adv. unfold nrem. split; lia.
  - split; [apply blen_adv; lia|rewrite nrem_adv; lia].
Qed.

Lemma k_readwire r l : match br_readwire r l with
                       | ROk _ r' => keeps r r'
                       | RErr _ r' => r' = r
                       | RPanic _ => False end.
Proof.
  unfold br_readwire. destruct ((br_rem r <=? 0) && (0 <? l))%Z; [reflexivity|].
  destruct ((l <? 0) || (l >? br_rem r))%Z eqn:E; [reflexivity|]. unfold br_rem in E.
  split; [apply blen_adv; lia|rewrite nrem_adv; lia].
Qed.

Lemma k_skip r n : match br_skip r n with
                   | ROk _ r' => keeps r r'
                   | RErr _ r' => r' = r
                   | RPanic _ => False end.
Proof.
  unfold br_skip. destruct ((n <? 0) || (n >? br_rem r))%Z eqn:E; [reflexivity|]. unfold br_rem in E.
  split; [apply blen_adv; lia|rewrite nrem_adv; lia].
Qed.

Lemma k_rd_nat_loop : forall k M acc r, match brd_nat_loop k M acc r with
                                        | ROk _ r' | RErr _ r' => keeps r r'
                                        | RPanic _ => False end.
Proof.
  induction k as [|k IH]; intros M acc r; cbn [rd_nat_loop]; [apply keeps_refl|].
  pose proof (k_readbyte r) as X. destruct (br_readbyte r) as [x r'|e r'|w]; [|subst; apply keeps_refl|contradiction].
  specialize (IH M ((acc * 256 + x) mod M) r').
  destruct (brd_nat_loop k M ((acc * 256 + x) mod M) r'); try contradiction;
    (eapply keeps_trans; [|exact IH]; split; [apply X|lia]).
Qed.

Lemma k_rd_nat M l r : match brd_nat M l r with ROk _ r' | RErr _ r' => keeps r r' | RPanic _ => False end.
Proof. unfold rd_nat. destruct (to_int l <=? 0)%Z; [apply keeps_refl|]. apply k_rd_nat_loop. Qed.

Lemma k_rd_comps : forall k endp r acc, match brd_comps k endp r acc with
                                        | ROk _ r' | RErr _ r' => keeps r r'
                                        | RPanic _ => False end.
Proof.
  induction k as [|k IH]; intros endp r acc; cbn [rd_comps]; [apply keeps_refl|].
  destruct (br_pos r >=? endp)%Z; [apply keeps_refl|].
  pose proof (k_rd_tlnum r) as X1. destruct (brd_tlnum r) as [t ok1 r1|w]; [|contradiction]. destruct X1 as [K1 _].
  pose proof (k_rd_tlnum r1) as X2. destruct (brd_tlnum r1) as [l2 ok2 r2|w]; [|contradiction]. destruct X2 as [K2 _].
  pose proof (k_readbuf r2 (to_int l2)) as X3. destruct (br_readbuf r2 (to_int l2)) as [v r3|e r3|w]; [|subst|contradiction].
  - assert (K3 : keeps r2 r3) by (split; [apply X3|lia]).
    destruct (ok1 && ok2).
    + specialize (IH endp r3 ({| ctyp := t; cval := v |} :: acc)).
      destruct (brd_comps k endp r3 _); try contradiction; repeat (eapply keeps_trans; eauto).
    + repeat (eapply keeps_trans; eauto).
  - eapply keeps_trans; eauto.
Qed.

Lemma k_rd_icomps : forall k endp ce r acc, match brd_icomps k endp ce r acc with
                                            | ROk _ r' | RErr _ r' => keeps r r'
                                            | RPanic _ => False end.
Proof.
  induction k as [|k IH]; intros endp ce r acc; cbn [rd_icomps]; [apply keeps_refl|].
  destruct (br_pos r >=? endp)%Z; [apply keeps_refl|].
  pose proof (k_rd_tlnum r) as X1. destruct (brd_tlnum r) as [t ok1 r1|w]; [|contradiction]. destruct X1 as [K1 _].
  pose proof (k_rd_tlnum r1) as X2. destruct (brd_tlnum r1) as [l2 ok2 r2|w]; [|contradiction]. destruct X2 as [K2 _].
  pose proof (k_readbuf r2 (to_int l2)) as X3. destruct (br_readbuf r2 (to_int l2)) as [v r3|e r3|w]; [|subst|contradiction].
  - assert (K3 : keeps r2 r3) by (split; [apply X3|lia]).
    destruct (ok1 && ok2).
    + specialize (IH endp (if t =? 2 then br_pos r else ce) r3 ({| ctyp := t; cval := v |} :: acc)).
      destruct (brd_icomps k endp _ r3 _); try contradiction; repeat (eapply keeps_trans; eauto).
    + repeat (eapply keeps_trans; eauto).
  - eapply keeps_trans; eauto.
Qed.

(* ================================================================================================ *)
(* cost against consumption *)
Definition CE : N := 32768.      (* one-off slack on the failing path: io.CopyN's buffer *)

Lemma guard_eval l r : b_len_guard l r = Ok (negb (l <=? nrem r)).
Proof.
  unfold len_guard. f_equal. unfold br_len, br_pos, br_rem, nrem.
  destruct (l <=? N.of_nat (length (rest r))) eqn:E; cbn [negb]; lia.
Qed.

Lemma to_int_small' l : l < two63 -> to_int l = Z.of_N l.
Proof. apply to_int_small. Qed.

Definition smallr (r : br) : Prop := nrem r < two63.

Lemma keeps_small r r' : keeps r r' -> smallr r -> smallr r'.
Proof. intros [_ H] Hs. unfold smallr in *. lia. Qed.

(* names: a successful read consumed exactly l bytes *)
Lemma c_name l r : smallr r ->
  match brd_name l r with
  | ROk _ r' => keeps r r' /\ leaf_cost KName l r + 16 * nrem r' <= 16 * nrem r + 32
  | RErr _ r' => keeps r r' /\ leaf_cost KName l r <= 16 * nrem r + 32
  | RPanic _ => False
  end.
Proof.
  intros Hs. unfold rd_name. rewrite guard_eval. cbn [leaf_cost].
  destruct (l <=? nrem r) eqn:E; cbn [negb].
  2:{ split; [apply keeps_refl|lia]. }
  assert (Hl : to_int l = Z.of_N l) by (apply to_int_small; unfold smallr in Hs; lia).
  assert (Hc : 32 * (l / 2 + 1) <= 16 * l + 32).
  { pose proof (N.div_mod' l 2). pose proof (N.mod_lt l 2). lia. }
  pose proof (k_rd_comps (N.to_nat (l / 2 + 1)) (br_pos r + to_int l)%Z r []) as X.
  destruct (brd_comps (N.to_nat (l / 2 + 1)) (br_pos r + to_int l)%Z r []) as [n r'|e r'|w]; [| |exact X].
  - destruct (br_pos r' =? br_pos r + to_int l)%Z eqn:Ep.
    + split; [exact X|]. destruct X as [X1 X2]. rewrite !pos_rem, X1, Hl in Ep. lia.
    + split; [exact X|]. destruct X as [X1 X2]. lia.
  - split; [exact X|]. lia.
Qed.

Lemma c_leaf k l r : smallr r ->
  match brd_leaf k l r with
  | ROk _ r' => keeps r r' /\ leaf_cost k l r + 16 * nrem r' <= 16 * nrem r + 32
  | RErr _ r' => keeps r r' /\ leaf_cost k l r <= 16 * nrem r + 32 + CE
  | RPanic _ => False
  end.
Proof.
  intros Hs. unfold CE.
  assert (Hnat : forall M, match brd_nat M l r with
                           | ROk _ r' => keeps r r' /\ 8 + 16 * nrem r' <= 16 * nrem r + 32
                           | RErr _ r' => keeps r r' /\ 8 <= 16 * nrem r + 32 + 32768
                           | RPanic _ => False end).
  { intros M. pose proof (k_rd_nat M l r) as X. destruct (brd_nat M l r); try exact X; (split; [exact X|destruct X; lia]). }
  destruct k; cbn [rd_leaf leaf_cost]; try (split; [apply keeps_refl|lia]).
  - specialize (Hnat two64). destruct (brd_nat two64 l r); exact Hnat.
  - (* KFixed *)
    destruct w as [|[|w]].
    + specialize (Hnat (256 ^ N.of_nat 0)). destruct (brd_nat _ l r); exact Hnat.
    + destruct opt.
      * pose proof (k_skip r 1) as X. destruct (br_skip r 1) as [u r'|e r'|w'] eqn:Es; [|subst; split; [apply keeps_refl|lia]|exact X].
        destruct u. destruct (b_spec_skip_range r r' (br_pos r') I Es eq_refl) as [x [t Hx]]. rewrite Hx.
        split; [exact X|destruct X; lia].
      * pose proof (k_readbyte r) as X. destruct (br_readbyte r) as [x r'|e r'|w']; [|subst; split; [apply keeps_refl|lia]|exact X].
        split; [split; [apply X|lia]|lia].
    + specialize (Hnat (256 ^ N.of_nat (S (S w)))). destruct (brd_nat _ l r); exact Hnat.
  - specialize (Hnat two64). destruct (brd_nat two64 l r); exact Hnat.
  - (* KBin *)
    rewrite guard_eval. destruct (l <=? nrem r) eqn:E; cbn [negb]; [|split; [apply keeps_refl|lia]].
    pose proof (k_readn r l) as X. destruct (br_readn r l) as [b r'|e r'|w]; [| |exact X].
    + split; [split; [apply X|lia]|lia].
    + split; [exact X|lia].
  - (* KStr *)
    destruct (to_int l <=? 0)%Z; [split; [apply keeps_refl|lia]|].
    pose proof (k_readn r l) as X. unfold str_cost. destruct (br_readn r l) as [b r'|e r'|w]; [| |exact X].
    + split; [split; [apply X|lia]|]. destruct X as [X1 X2]. replace (l <=? nrem r) with true by lia. lia.
    + split; [exact X|]. destruct (l <=? nrem r) eqn:E; lia.
  - (* KWire *)
    pose proof (k_readwire r (to_int l)) as X. destruct (br_readwire r (to_int l)); try exact X; [split; [exact X|destruct X; lia]|subst; split; [apply keeps_refl|lia]].
  - (* KName *)
    pose proof (c_name l r Hs) as X. cbn [leaf_cost] in X. destruct (brd_name l r); try exact X. split; [apply X|destruct X; lia].
  - (* KSig *)
    pose proof (k_readwire r (to_int l)) as X. destruct (br_readwire r (to_int l)); try exact X; [split; [exact X|destruct X; lia]|subst; split; [apply keeps_refl|lia]].
Qed.

Section Bound.
  Variable K SM : N.
  Hypothesis HK16 : 16 <= K.
  Hypothesis HKC : 1024 + 2 * SM <= 2 * K.          (* the constant part of one element is paid by its 2-byte header *)

  Variable sub_a : nat -> bool -> br -> N.
  Variable sub : nat -> bool -> br -> res parse_out.
  Hypothesis Hsub : forall m ic sr, smallr sr ->
    match sub m ic sr with
    | Ok _ => sub_a m ic sr <= K * nrem sr + SM
    | Err _ => sub_a m ic sr <= K * nrem sr + SM + CE
    | Panic _ => False
    end.

  Lemma lift16 c a b : a <= b -> c + 16 * a <= 16 * b + 32 -> c + K * a <= K * b + 32.
  Proof. intros H1 H2. nia. Qed.

  Lemma c_val ic k l r : smallr r ->
    match b_rd_val sub ic k l r with
    | ROk _ r' => keeps r r' /\ val_cost sub_a ic k l r + K * nrem r' <= K * nrem r + 64 + SM
    | RErr _ r' => keeps r r' /\ val_cost sub_a ic k l r <= K * nrem r + 64 + SM + CE
    | RPanic _ => False
    end.
  Proof.
    intros Hs.
    assert (Hleaf : match brd_leaf k l r with
                    | ROk _ r' => keeps r r' /\ leaf_cost k l r + K * nrem r' <= K * nrem r + 64 + SM
                    | RErr _ r' => keeps r r' /\ leaf_cost k l r <= K * nrem r + 64 + SM + CE
                    | RPanic _ => False end).
    { pose proof (c_leaf k l r Hs) as X. destruct (brd_leaf k l r); try exact X; destruct X as [X1 X2]; (split; [exact X1|]).
      - destruct X1 as [_ X1]. pose proof (lift16 _ _ _ X1 X2). lia.
      - destruct X1 as [_ X1]. nia. }
    destruct k; try exact Hleaf.
    (* KStruct *)
    cbn [rd_val val_cost]. unfold br_delegate.
    destruct ((to_int l <? 0) || (to_int l >? br_rem r))%Z eqn:E.
    - pose proof (Hsub m ic (br_of [])) as X. unfold smallr, nrem, two63 in X. cbn [br_of rest length] in X. specialize (X ltac:(lia)).
      destruct (sub m ic (br_of [])) as [[[vs cx] cv]|e|w]; try exact X; (split; [apply keeps_refl|]);
        unfold nrem in X; cbn [br_of rest length] in X; lia.
    - unfold br_rem in E.
      set (sr := br_of (firstn (Z.to_nat (to_int l)) (rest r))).
      assert (Hn : nrem sr = Z.to_N (to_int l)).
      { unfold sr, nrem. cbn [br_of rest]. rewrite firstn_length. lia. }
      assert (Hr' : keeps r (br_adv (Z.to_nat (to_int l)) r) /\ nrem (br_adv (Z.to_nat (to_int l)) r) + nrem sr = nrem r).
      { split; [split; [apply blen_adv; lia|rewrite nrem_adv; lia]|rewrite nrem_adv, Hn; unfold nrem; lia]. }
      pose proof (Hsub m ic sr) as X. specialize (X ltac:(unfold smallr in *; lia)).
      destruct (sub m ic sr) as [[[vs cx] cv]|e|w]; try exact X; (split; [apply Hr'|]); destruct Hr' as [_ Hr']; nia.
  Qed.

  Definition CF : N := 512 + 2 * SM.

  Lemma c_field ic i k l sp s r : smallr r ->
    match b_rd_field sub ic i k l sp s r with
    | ROk _ r' => keeps r r' /\ field_cost sub_a sub ic k l r + K * nrem r' <= K * nrem r + CF
    | RErr _ r' => keeps r r' /\ field_cost sub_a sub ic k l r <= K * nrem r + CF + CE
    | RPanic _ => False
    end.
  Proof.
    intros Hs. unfold CF.
    assert (Hval : forall kk, match b_rd_val sub ic kk l r with
                   | ROk _ r' => keeps r r' /\ val_cost sub_a ic kk l r + K * nrem r' <= K * nrem r + 64 + SM
                   | RErr _ r' => keeps r r' /\ val_cost sub_a ic kk l r <= K * nrem r + 64 + SM + CE
                   | RPanic _ => False end) by (intros kk; apply c_val; exact Hs).
    destruct k as [o|w o|o| |o| | | |m0|sb|ky vt vl|st cv|cv| |st cv| ]; unfold rd_field; cbn [field_cost];
      try (match goal with |- context [b_rd_val sub ic ?kk l r] => specialize (Hval kk);
             destruct (b_rd_val sub ic kk l r); try exact Hval; destruct Hval as [V1 V2]; (split; [exact V1|lia]) end).
    - (* KMap *)
      specialize (Hval ky). destruct (b_rd_val sub ic ky l r) as [kv r1|e r1|w]; try exact Hval; destruct Hval as [V1 V2]; [|split; [exact V1|lia]].
      pose proof (k_rd_tlnum r1) as X1. destruct (brd_tlnum r1) as [t2 ok1 r2|w]; [|exact X1]. destruct X1 as [K1 _].
      assert (K01 : keeps r r2) by (eapply keeps_trans; eauto).
      destruct ok1; cbn [negb]; [|split; [exact K01|lia]].
      pose proof (k_rd_tlnum r2) as X2. destruct (brd_tlnum r2) as [l2 ok2 r3|w]; [|exact X2]. destruct X2 as [K2 _].
      assert (K02 : keeps r r3) by (eapply keeps_trans; eauto).
      destruct ok2; cbn [negb]; [|split; [exact K02|lia]].
      pose proof (c_val ic vl l2 r3 (keeps_small _ _ K02 Hs)) as X3.
      assert (Hr3 : nrem r3 <= nrem r1) by (destruct K1, K2; lia).
      destruct (t2 =? vt); cbn [negb].
      2:{ split; [exact K02|]. destruct V1 as [_ V1]. nia. }
      destruct (b_rd_val sub ic vl l2 r3) as [vv r4|e r4|w]; try exact X3; destruct X3 as [X3 X4]; (split; [eapply keeps_trans; eauto|]).
      + destruct V1 as [_ V1]. nia.
      + destruct V1 as [_ V1]. nia.
    - (* KSig *)
      pose proof (c_leaf (KSig st cv) l r Hs) as X. destruct (brd_leaf (KSig st cv) l r) as [v r'|e r'|w]; try exact X; destruct X as [X1 X2].
      + destruct (br_range_ok r' (get_ctx st (set_hand i s)) sp) as [o Ho]. rewrite Ho. split; [exact X1|]. destruct X1 as [_ X1]. unfold CE in *. nia.
      + split; [exact X1|]. destruct X1 as [_ X1]. unfold CE in *. nia.
    - (* KIntName *)
      rewrite guard_eval. cbn [leaf_cost].
      destruct (l <=? nrem r) eqn:E; cbn [negb]; [|split; [apply keeps_refl|lia]].
      assert (Hl : to_int l = Z.of_N l) by (apply to_int_small; unfold smallr in Hs; lia).
      assert (Hc : 32 * (l / 2 + 1) <= 16 * l + 32).
      { pose proof (N.div_mod' l 2). pose proof (N.mod_lt l 2). lia. }
      pose proof (k_rd_icomps (N.to_nat (l / 2 + 1)) (br_pos r + to_int l)%Z (br_pos r + to_int l)%Z r []) as X.
      destruct (brd_icomps (N.to_nat (l / 2 + 1)) (br_pos r + to_int l)%Z (br_pos r + to_int l)%Z r []) as [[n ce] r'|e r'|w]; [| |exact X].
      + destruct (br_pos r' =? br_pos r + to_int l)%Z eqn:Ep.
        * destruct (br_range_ok r' (br_pos r) ce) as [o Ho]. rewrite Ho. split; [exact X|]. destruct X as [X1 X2]. rewrite !pos_rem, X1, Hl in Ep. nia.
        * split; [exact X|]. destruct X as [X1 X2]. nia.
      + split; [exact X|]. destruct X as [X1 X2]. nia.
    - (* KOffset *) split; [apply keeps_refl|lia].
    - (* KRange *)
      cbn [skip_proc]. destruct (br_range_ok r (get_ctx st (set_ctx i sp (set_hand i s))) sp) as [o Ho]. rewrite Ho.
      split; [apply keeps_refl|lia].
    - (* KArg *) split; [apply keeps_refl|lia].
  Qed.

  Lemma field_cost_ub ic (i : nat) k l (sp : Z) (s : pst) r : smallr r -> field_cost sub_a sub ic k l r <= K * nrem r + CF + CE.
  Proof.
    intros Hs. pose proof (c_field ic i k l sp s r Hs) as X.
    destruct (b_rd_field sub ic i k l sp s r); [|apply X|contradiction]. destruct X as [[_ X1] X2]. nia.
  Qed.

  Lemma find_field_lt : forall fs base t i f, find_field t base fs = Some (i, f) -> (i < base + length fs)%nat.
  Proof.
    induction fs as [|h fs IH]; intros base t i f H; [discriminate|].
    cbn [find_field] in H. destruct ((ftyp h =? t) && negb (ftyp h =? 0)).
    - inversion H; subst. cbn [length]. lia.
    - apply IH in H. cbn [length]. lia.
  Qed.

  Lemma b_skip_proc_np i k sp s r : match b_skip_proc i k sp s r with Panic _ => False | _ => True end.
  Proof.
    destruct k as [o|w o|o| |o| | | |m0|sb|ky vt vl|st cv|cv| |st cv| ]; cbn [skip_proc]; try exact I; try (destruct o; exact I).
    destruct (br_range_ok r (get_ctx st (set_ctx i sp s)) sp) as [o Ho]. rewrite Ho. exact I.
  Qed.

  (* the ordered-model dispatch: the field reader is invoked when the element's slot is still ahead *)
  Lemma c_oloop : forall k m ic t l sp s p r i f,
    find_field t 0 (flds m) = Some (i, f) -> smallr r ->
    ((Z.of_nat i < p + 1)%Z \/ (Z.of_nat i - (p + 1) < Z.of_nat k)%Z) ->
    match b_oloop sub k m ic t l sp s p r with
    | ROk (_, p') r' => keeps r r' /\ (p <= p')%Z /\
                        (if (Z.of_nat i <? p + 1)%Z then 0 else field_cost sub_a sub ic (fk f) l r) + K * nrem r' <= K * nrem r + CF
    | RErr _ r' => keeps r r' /\
                   (if (Z.of_nat i <? p + 1)%Z then 0 else field_cost sub_a sub ic (fk f) l r) <= K * nrem r + CF + CE
    | RPanic _ => False
    end.
  Proof.
    induction k as [|k IH]; intros m ic t l sp s p r i f Hf Hs Hk.
    - cbn [oloop]. split; [apply keeps_refl|]. split; [lia|]. destruct (Z.of_nat i <? p + 1)%Z eqn:E; lia.
    - cbn [oloop]. pose proof (find_field_lt _ _ _ _ _ Hf) as Hlt. cbn [plus] in Hlt.
      destruct (p >=? Z.of_nat (length (flds m)))%Z eqn:En.
      { split; [apply keeps_refl|]. split; [lia|]. destruct (Z.of_nat i <? p + 1)%Z eqn:E; lia. }
      rewrite Hf. destruct (p + 1 =? Z.of_nat i)%Z eqn:Ei.
      + pose proof (c_field ic i (fk f) l sp s r Hs) as X.
        replace (Z.of_nat i <? p + 1)%Z with false by lia.
        destruct (b_rd_field sub ic i (fk f) l sp s r) as [s' r'|e r'|w]; [| |exact X].
        * destruct X as [X1 X2]. split; [exact X1|]. split; [destruct (is_rep (fk f)); lia|exact X2].
        * exact X.
      + pose proof (field_cost_ub ic i (fk f) l sp s r Hs) as Hub.
        assert (Hcost : (if (Z.of_nat i <? p + 1)%Z then 0 else field_cost sub_a sub ic (fk f) l r) <= K * nrem r + CF + CE).
        { destruct (Z.of_nat i <? p + 1)%Z; [lia|exact Hub]. }
        assert (Hsame : (if (Z.of_nat i <? p + 1 + 1)%Z then 0 else field_cost sub_a sub ic (fk f) l r) =
                        (if (Z.of_nat i <? p + 1)%Z then 0 else field_cost sub_a sub ic (fk f) l r)).
        { destruct (Z.of_nat i <? p + 1)%Z eqn:E1; destruct (Z.of_nat i <? p + 1 + 1)%Z eqn:E2; try reflexivity; lia. }
        assert (Hk' : (Z.of_nat i < p + 1 + 1)%Z \/ (Z.of_nat i - (p + 1 + 1) < Z.of_nat k)%Z) by lia.
        destruct (nth_error (flds m) (Z.to_nat (p + 1))) as [g|].
        * pose proof (b_skip_proc_np (Z.to_nat (p + 1)) (fk g) sp (set_hand (Z.to_nat (p + 1)) s) r) as Np.
          destruct (b_skip_proc (Z.to_nat (p + 1)) (fk g) sp (set_hand (Z.to_nat (p + 1)) s) r) as [s'|e|w]; [| |contradiction].
          -- specialize (IH m ic t l sp s' (p + 1)%Z r i f Hf Hs Hk'). rewrite Hsame in IH.
             destruct (b_oloop sub k m ic t l sp s' (p + 1)%Z r) as [[s'' p''] r'|e r'|w]; [| |exact IH].
             ++ destruct IH as [A [B C]]. split; [exact A|]. split; [lia|exact C].
             ++ exact IH.
          -- split; [apply keeps_refl|exact Hcost].
        * specialize (IH m ic t l sp s (p + 1)%Z r i f Hf Hs Hk'). rewrite Hsame in IH.
          destruct (b_oloop sub k m ic t l sp s (p + 1)%Z r) as [[s'' p''] r'|e r'|w]; [| |exact IH].
          -- destruct IH as [A [B C]]. split; [exact A|]. split; [lia|exact C].
          -- exact IH.
  Qed.

  Lemma c_unknown ic t l r : match b_rd_unknown ic t l r with
                             | ROk _ r' | RErr _ r' => keeps r r'
                             | RPanic _ => False end.
  Proof.
    unfold rd_unknown. destruct (negb ic && critical t); [apply keeps_refl|].
    pose proof (k_skip r (to_int l)) as X. destruct (br_skip r (to_int l)); [exact X|subst; apply keeps_refl|exact X].
  Qed.

  Lemma c_pstep m ic sp s p r : smallr r -> (-1 <= p)%Z ->
    match b_pstep sub m ic sp s p r with
    | ROk (_, p') r' => keeps r r' /\ (-1 <= p')%Z /\ step_cost sub_a sub m ic p r + K * nrem r' <= K * nrem r /\ nrem r' < nrem r
    | RErr _ r' => keeps r r' /\ step_cost sub_a sub m ic p r <= K * nrem r + CE
    | RPanic _ => False
    end.
  Proof.
    intros Hs Hp. unfold pstep, step_cost, CF in *.
    pose proof (k_rd_tlnum r) as X1. destruct (brd_tlnum r) as [t ok1 r1|w]; [|exact X1]. destruct X1 as [K1 S1].
    destruct ok1; cbn [negb]; [|split; [exact K1|lia]]. specialize (S1 eq_refl).
    pose proof (k_rd_tlnum r1) as X2. destruct (brd_tlnum r1) as [l ok2 r2|w]; [|exact X2]. destruct X2 as [K2 S2].
    assert (K02 : keeps r r2) by (eapply keeps_trans; eauto).
    destruct ok2; cbn [negb]; [|split; [exact K02|lia]]. specialize (S2 eq_refl).
    pose proof (keeps_small _ _ K02 Hs) as Hs2.
    assert (H2 : nrem r2 + 2 <= nrem r) by lia.
    destruct (find_field t 0 (flds m)) as [[i f]|] eqn:Ef.
    - destruct (ordered m); cbn [andb].
      + pose proof (find_field_lt _ _ _ _ _ Ef) as Hlt. cbn [plus] in Hlt.
        pose proof (c_oloop (S (length (flds m))) m ic t l sp s p r2 i f Ef Hs2) as X. specialize (X ltac:(lia)).
        destruct (b_oloop sub (S (length (flds m))) m ic t l sp s p r2) as [[s' p'] r'|e r'|w]; [| |exact X].
        * destruct X as [A [B C]]. split; [eapply keeps_trans; eauto|]. split; [lia|]. destruct A as [_ A]. unfold CF in C. split; nia.
        * destruct X as [A C]. split; [eapply keeps_trans; eauto|]. destruct A as [_ A]. unfold CF in C. nia.
      + unfold ustep. rewrite Ef.
        pose proof (c_field ic i (fk f) l sp s r2 Hs2) as X. unfold CF in X.
        destruct (b_rd_field sub ic i (fk f) l sp s r2) as [s' r'|e r'|w]; [| |exact X].
        * destruct X as [A C]. split; [eapply keeps_trans; eauto|]. split; [exact Hp|]. destruct A as [_ A]. split; nia.
        * destruct X as [A C]. split; [eapply keeps_trans; eauto|]. destruct A as [_ A]. nia.
    - assert (Hunk : match b_rd_unknown ic t l r2 with ROk _ r' | RErr _ r' => keeps r2 r' | RPanic _ => False end) by apply c_unknown.
      destruct (ordered m).
      + cbn [oloop]. destruct (p >=? Z.of_nat (length (flds m)))%Z.
        * split; [exact K02|]. split; [exact Hp|]. destruct K02 as [_ K02]. split; nia.
        * rewrite Ef. destruct (b_rd_unknown ic t l r2) as [u r'|e r'|w]; [| |exact Hunk].
          -- split; [eapply keeps_trans; eauto|]. split; [exact Hp|]. destruct Hunk as [_ A]. split; nia.
          -- split; [eapply keeps_trans; eauto|]. lia.
      + unfold ustep. rewrite Ef. destruct (b_rd_unknown ic t l r2) as [u r'|e r'|w]; [| |exact Hunk].
        * split; [eapply keeps_trans; eauto|]. split; [exact Hp|]. destruct Hunk as [_ A]. split; nia.
        * split; [eapply keeps_trans; eauto|]. lia.
  Qed.

  Lemma b_finish_np : forall fs i sp s r, match b_finish i fs sp s r with Panic _ => False | _ => True end.
  Proof.
    induction fs as [|g fs IH]; intros i sp s r; cbn [finish]; [exact I|].
    destruct (nth i (p_hand s) false); [apply IH|].
    pose proof (b_skip_proc_np i (fk g) sp s r) as X. destruct (b_skip_proc i (fk g) sp s r); [apply IH|exact I|exact X].
  Qed.

  Lemma c_loop : forall k m ic s p r, smallr r -> (-1 <= p)%Z ->
    match b_ploop sub k m ic s p r with
    | Ok _ => aloop sub_a sub k m ic s p r <= K * nrem r
    | Err _ => aloop sub_a sub k m ic s p r <= K * nrem r + CE
    | Panic _ => False
    end.
  Proof.
    induction k as [|k IH]; intros m ic s p r Hs Hp; cbn [ploop aloop]; [lia|].
    destruct (br_pos r >=? br_len r)%Z.
    - pose proof (b_finish_np (flds m) 0 (br_pos r) s r) as X. destruct (b_finish 0 (flds m) (br_pos r) s r); [lia|lia|exact X].
    - pose proof (c_pstep m ic (br_pos r) s p r Hs Hp) as X.
      destruct (b_pstep sub m ic (br_pos r) s p r) as [[s' p'] r'|e r'|w]; [| |exact X].
      + destruct X as [A [B [C D]]]. specialize (IH m ic s' p' r' (keeps_small _ _ A Hs) B).
        destruct (b_ploop sub k m ic s' p' r'); [| |exact IH]; nia.
      + destruct X as [A C]. lia.
  Qed.
End Bound.

(* ---- all nesting levels ---- *)
Definition smax (sc : schema) : N := fold_right N.max 0 (map struct_cost sc).

Lemma smax_ge : forall sc mi m, nth_error sc mi = Some m -> struct_cost m <= smax sc.
Proof.
  induction sc as [|h sc IH]; intros [|mi] m H; cbn in H; try discriminate; unfold smax in *; cbn [map fold_right].
  - inversion H; subst. lia.
  - specialize (IH mi m H). lia.
Qed.

Definition kcoef (sc : schema) : N := 512 + smax sc.

Theorem alloc_bound sc : forall d mi ic r, smallr r ->
  match bparse d sc mi ic r with
  | Ok _ => alloc_ub d sc mi ic r <= kcoef sc * nrem r + smax sc
  | Err _ => alloc_ub d sc mi ic r <= kcoef sc * nrem r + smax sc + CE
  | Panic _ => False
  end.
Proof.
  induction d as [|d IH]; intros mi ic r Hs.
  - cbn. lia.
  - rewrite bparse_S. cbn [alloc_ub]. destruct (nth_error sc mi) as [m|] eqn:Em; [|lia].
    pose proof (smax_ge sc mi m Em) as Hm.
    pose proof (c_loop (kcoef sc) (smax sc) ltac:(unfold kcoef; lia) ltac:(unfold kcoef; lia) (alloc_ub d sc) (bparse d sc) IH
                  (S (Z.to_nat (br_len r - br_pos r))) m ic (init_pst m) (-1)%Z r Hs ltac:(lia)) as X.
    destruct (b_ploop (bparse d sc) (S (Z.to_nat (br_len r - br_pos r))) m ic (init_pst m) (-1) r); [| |exact X]; lia.
Qed.
