(* Codec/WirePlan.v — the nocopy wire plan: what Encode returns for a nocopy model is a list of buffers; some are
   allocated by the encoder with the sizes Init planned (wirePlan), some are the caller's own buffers placed without copy
   (the segments of a wire field, the signature slot).  Model of GenEncodingWirePlan / GenEncodeInto for nocopy models
   (model.go, fields_wire.go, signature.go, fields_struct.go innerNoCopy), as a stream of events folded by the two passes.
   Theorems: the joined wire is `encode` of the flattened value; every planned size equals the bytes written. *)
From Codec Require Import Schema Readers Model Spec LeafLemmas LengthExact.
From Coq Require Import ZifyBool ZifyN ZifyNat.
Open Scope N_scope.

(* a wire-typed value may be given with its segmentation: VSeq [VBytes s1; ...]; VBytes b = the single buffer b *)
Definition wire_segs (v : value) : option (list bytes) :=
  match v with
  | VBytes b => Some [b]
  | VSeq l => Some (map (fun x => match x with VBytes s => s | _ => [] end) l)
  | _ => None
  end.

(* kind-directed flattening of segmented wire values (what `encode` sees) *)
Fixpoint flat_val (fuel : nat) (sc : schema) (k : fkind) (v : value) : value :=
  match fuel with
  | O => v
  | S f =>
    match k, v with
    | KWire, VSeq l => VBytes (concat (map (fun x => match x with VBytes s => s | _ => [] end) l))
    | KStruct m, VStruct fs =>
        VStruct ((fix go (gs : list field) (xs : list value) : list value :=
                    match gs, xs with
                    | g :: gs', x :: xs' => flat_val f sc (fk g) x :: go gs' xs'
                    | _, _ => xs
                    end) (flds (the_model sc m)) fs)
    | _, _ => v
    end
  end.

Fixpoint flat_fields (fuel : nat) (sc : schema) (gs : list field) (xs : list value) : list value :=
  match gs, xs with
  | g :: gs', x :: xs' => flat_val fuel sc (fk g) x :: flat_fields fuel sc gs' xs'
  | _, _ => xs
  end.

(* EBytes: bytes written into the current buffer.  EWire hdr segs: T and L written, the buffer closed (GenSwitchWire), then one
   slot per caller segment.  ESig hdr b: T and L written, the buffer closed, one slot for the signature. *)
Inductive ev := EBytes (b : bytes) | EWire (hdr : bytes) (segs : list bytes) | ESig (hdr : bytes) (b : bytes).

(* A nested nocopy struct whose last written thing is the header of an *empty* wire: the inner Init drops the closed
   empty tail (`if l > 0 { wirePlan = append(wirePlan, l) }`), its plan ends with a non-zero entry, and the outer
   struct (fields_struct.go: `lastL > 0` / `if l == 0 { switch }`) goes on writing in that same buffer.  So at the end of
   a nested struct's events such a header is plain bytes.  (At the top level, or followed by anything inside the
   nested struct, the buffer is closed after the header.) *)
Definition ev_empty (e : ev) : bool := match e with EBytes [] => true | _ => false end.
Fixpoint fix_tail (evs : list ev) : list ev :=
  match evs with
  | [] => []
  | e :: r =>
    if forallb ev_empty r then
      match e with EWire hdr [] => EBytes hdr :: r | _ => e :: r end
    else e :: fix_tail r
  end.

(* inc m i = true: field i of model m is a struct field with the `nocopy` annotation (struct:T:nocopy) *)
Section Events.
  Variable sc : schema.
  Variable inc : nat -> nat -> bool.

  (* events of the fields gs (of model mi, a nocopy model) for values xs *)
  Fixpoint ev_fields (fuel : nat) (mi : nat) (i0 : nat) (gs0 : list field) (xs0 : list value) : list ev :=
    match fuel with
    | O => []
    | S f =>
      (fix go (i : nat) (gs : list field) (xs : list value) : list ev :=
         match gs, xs with
         | g :: gs', x :: xs' =>
           (match fk g, x with
            | KWire, VNone => []
            | KWire, _ =>
                match wire_segs x with
                | Some segs => [EWire (tl_enc (ftyp g) ++ tl_enc (N.of_nat (length (concat segs)))) segs]
                | None => []
                end
            | KSig _ _, VBytes (b0 :: b') =>
                [ESig (tl_enc (ftyp g) ++ tl_enc (N.of_nat (length (b0 :: b')))) (b0 :: b')]
            | KStruct m, VStruct fs =>
                if inc mi i then
                  let inner := flat_fields f sc (flds (the_model sc m)) fs in
                  let ilen := enc_len f sc m inner in
                  EBytes (tl_enc (ftyp g) ++ tl_enc ilen) ::
                  (if 0 <? ilen then fix_tail (ev_fields f m 0 (flds (the_model sc m)) fs) else [])
                else [EBytes (enc_val (S f) sc (ftyp g) (fk g) (flat_val (S f) sc (fk g) x))]
            | k, _ => [EBytes (enc_val (S f) sc (ftyp g) k (flat_val (S f) sc k x))]
            end) ++ go (S i) gs' xs'
         | _, _ => []
         end) i0 gs0 xs0
    end.
End Events.

(* the buffers of the returned wire *)
Inductive wseg_t := WBuf (b : bytes) | WSlot (s : bytes) | WSig (b : bytes).
Definition seg_bytes (s : wseg_t) : bytes := match s with WBuf b | WSlot b | WSig b => b end.
Definition seg_plan (s : wseg_t) : N := match s with WBuf b => N.of_nat (length b) | _ => 0 end.

(* EncodeInto: bytes go to the current buffer; a wire / signature field closes it; slots are the caller's buffers *)
Fixpoint run_encode (evs : list ev) (cur : bytes) : list wseg_t :=
  match evs with
  | [] => match cur with [] => [] | _ => [WBuf cur] end
  | EBytes b :: r => run_encode r (cur ++ b)
  | EWire hdr segs :: r => WBuf (cur ++ hdr) :: map WSlot segs ++ run_encode r []
  | ESig hdr b :: r => WBuf (cur ++ hdr) :: WSig b :: run_encode r []
  end.

(* Init: only lengths *)
Fixpoint run_plan (evs : list ev) (l : N) : list N :=
  match evs with
  | [] => if 0 <? l then [l] else []
  | EBytes b :: r => run_plan r (l + N.of_nat (length b))
  | EWire hdr segs :: r => (l + N.of_nat (length hdr)) :: map (fun _ => 0) segs ++ run_plan r 0
  | ESig hdr _ :: r => (l + N.of_nat (length hdr)) :: 0 :: run_plan r 0
  end.

Definition encode_wire (fuel : nat) (sc : schema) (inc : nat -> nat -> bool) (mi : nat) (vs : list value) : list wseg_t :=
  run_encode (ev_fields sc inc fuel mi 0 (flds (the_model sc mi)) vs) [].
Definition wire_plan (fuel : nat) (sc : schema) (inc : nat -> nat -> bool) (mi : nat) (vs : list value) : list N :=
  run_plan (ev_fields sc inc fuel mi 0 (flds (the_model sc mi)) vs) 0.

(* ================================================================================================ *)
Lemma run_plan_exact : forall evs cur, run_plan evs (N.of_nat (length cur)) = map seg_plan (run_encode evs cur).
Proof.
  induction evs as [|e evs IH]; intros cur; cbn [run_plan run_encode].
  - destruct cur; [reflexivity|]. cbn [length map seg_plan]. destruct (0 <? N.of_nat (S (length cur))) eqn:E; [reflexivity|lia].
  - destruct e; cbn [map seg_plan].
    + rewrite <- IH. rewrite app_length, Nat2N.inj_add. reflexivity.
    + rewrite app_length, Nat2N.inj_add. f_equal. rewrite map_app, map_map. cbn [seg_plan]. f_equal. apply (IH []).
    + rewrite app_length, Nat2N.inj_add. f_equal. f_equal. apply (IH []).
Qed.

(* every planned size is the number of bytes written into that buffer; slots are planned 0 *)
Theorem wire_plan_exact fuel sc inc mi vs : wire_plan fuel sc inc mi vs = map seg_plan (encode_wire fuel sc inc mi vs).
Proof. unfold wire_plan, encode_wire. apply (run_plan_exact _ []). Qed.

Definition ev_bytes (e : ev) : bytes := match e with EBytes b => b | EWire hdr segs => hdr ++ concat segs | ESig hdr b => hdr ++ b end.

Lemma run_encode_concat : forall evs cur, concat (map seg_bytes (run_encode evs cur)) = cur ++ concat (map ev_bytes evs).
Proof.
  induction evs as [|e evs IH]; intros cur; cbn [run_encode map concat].
  - destruct cur; cbn; rewrite ?app_nil_r; reflexivity.
  - destruct e; cbn [map concat seg_bytes ev_bytes].
    + rewrite IH, app_assoc. reflexivity.
    + rewrite map_app, concat_app, map_map. cbn [seg_bytes]. rewrite map_id, (IH []). cbn [app]. rewrite <- !app_assoc. reflexivity.
    + rewrite (IH []). cbn [app]. rewrite <- !app_assoc. reflexivity.
Qed.

Lemma fix_tail_bytes : forall evs, concat (map ev_bytes (fix_tail evs)) = concat (map ev_bytes evs).
Proof.
  induction evs as [|e evs IH]; [reflexivity|]. cbn [fix_tail].
  destruct (forallb ev_empty evs).
  - destruct e as [b|hdr [|s segs]|hdr b]; try reflexivity.
    cbn [map concat ev_bytes]. rewrite app_nil_r. reflexivity.
  - cbn [map concat]. rewrite IH. reflexivity.
Qed.

(* ---- the joined wire is the encoding of the flattened value ---- *)
Lemma flat_struct f sc m fs :
  flat_val (S f) sc (KStruct m) (VStruct fs) = VStruct (flat_fields f sc (flds (the_model sc m)) fs).
Proof.
  cbn [flat_val]. f_equal. generalize (flds (the_model sc m)). intros gs. revert fs.
  induction gs as [|g gs IH]; intros [|x xs]; cbn [flat_fields]; try reflexivity. f_equal. apply IH.
Qed.

Lemma enc_fields_0 sc : forall gs xs, enc_fields 0 sc gs xs = [].
Proof. induction gs as [|g gs IH]; intros [|x xs]; try reflexivity. unfold enc_fields in *. cbn [zipf enc_val]. apply IH. Qed.

Lemma enc_fields_cons fuel sc g gs x xs :
  enc_fields fuel sc (g :: gs) (x :: xs) = enc_val fuel sc (ftyp g) (fk g) x ++ enc_fields fuel sc gs xs.
Proof. reflexivity. Qed.

Section Concat.
  Variable sc : schema.
  Variable inc : nat -> nat -> bool.

  Definition field_events (f : nat) (mi i : nat) (g : field) (x : value) : list ev :=
    match fk g, x with
    | KWire, VNone => []
    | KWire, _ =>
        match wire_segs x with
        | Some segs => [EWire (tl_enc (ftyp g) ++ tl_enc (N.of_nat (length (concat segs)))) segs]
        | None => []
        end
    | KSig _ _, VBytes (b0 :: b') =>
        [ESig (tl_enc (ftyp g) ++ tl_enc (N.of_nat (length (b0 :: b')))) (b0 :: b')]
    | KStruct m, VStruct fs =>
        if inc mi i then
          let inner := flat_fields f sc (flds (the_model sc m)) fs in
          let ilen := enc_len f sc m inner in
          EBytes (tl_enc (ftyp g) ++ tl_enc ilen) ::
          (if 0 <? ilen then fix_tail (ev_fields sc inc f m 0 (flds (the_model sc m)) fs) else [])
        else [EBytes (enc_val (S f) sc (ftyp g) (fk g) (flat_val (S f) sc (fk g) x))]
    | k, _ => [EBytes (enc_val (S f) sc (ftyp g) k (flat_val (S f) sc k x))]
    end.

  Lemma ev_fields_cons f mi i g gs x xs :
    ev_fields sc inc (S f) mi i (g :: gs) (x :: xs) = field_events f mi i g x ++ ev_fields sc inc (S f) mi (S i) gs xs.
  Proof. reflexivity. Qed.

  Lemma ev_fields_nil_l f mi i xs : ev_fields sc inc (S f) mi i [] xs = [].
  Proof. reflexivity. Qed.
  Lemma ev_fields_nil_r f mi i gs : ev_fields sc inc (S f) mi i gs [] = [].
  Proof. destruct gs; reflexivity. Qed.

  Lemma map_bytes_id (l : list value) :
    concat (map (fun x => match x with VBytes s => s | _ => [] end) l) ++ [] =
    concat (map (fun x => match x with VBytes s => s | _ => [] end) l).
  Proof. apply app_nil_r. Qed.

  Lemma ev_concat : forall fuel mi i gs xs,
    concat (map ev_bytes (ev_fields sc inc fuel mi i gs xs)) = enc_fields fuel sc gs (flat_fields fuel sc gs xs).
  Proof.
    induction fuel as [|f IHf]; intros mi i gs xs.
    - cbn [ev_fields map concat]. symmetry. apply enc_fields_0.
    - revert i xs. induction gs as [|g gs IHg]; intros i xs; [reflexivity|].
      destruct xs as [|x xs]; [reflexivity|].
      rewrite ev_fields_cons, map_app, concat_app, IHg. cbn [flat_fields]. rewrite enc_fields_cons. f_equal.
      unfold field_events.
      destruct (fk g) eqn:Ek; try (cbn [map concat ev_bytes]; rewrite app_nil_r; reflexivity).
      + (* KWire *)
        destruct x; cbn [wire_segs flat_val enc_val map concat ev_bytes]; try reflexivity.
        * unfold tlv. cbn [concat]. rewrite !app_nil_r. rewrite <- app_assoc. reflexivity.
        * unfold tlv. rewrite app_nil_r, <- app_assoc. reflexivity.
      + (* KStruct *)
        destruct x; try (cbn [map concat ev_bytes]; rewrite app_nil_r; reflexivity).
        destruct (inc mi i); [|cbn [map concat ev_bytes]; rewrite app_nil_r; reflexivity].
        cbv zeta. rewrite flat_struct. cbn [enc_val map concat ev_bytes].
        pose proof (encode_length_exact_all f sc m (flat_fields f sc (flds (the_model sc m)) fs)) as HL.
        pose proof (IHf m 0%nat (flds (the_model sc m)) fs) as HI.
        unfold encode, enc_fields, the_model in *.
        set (X := zipf _ (flds (nth m sc _)) _) in *.
        rewrite <- HL. unfold tlv. rewrite <- app_assoc. f_equal. f_equal.
        destruct (0 <? N.of_nat (length X)) eqn:E.
        * rewrite fix_tail_bytes. exact HI.
        * destruct X; [reflexivity|cbn [length] in E; lia].
      + (* KSig *)
        destruct x; try (cbn [map concat ev_bytes]; rewrite app_nil_r; reflexivity).
        destruct b as [|b0 b']; cbn [map concat ev_bytes flat_val enc_val]; [reflexivity|].
        unfold tlv. rewrite app_nil_r, <- app_assoc. reflexivity.
  Qed.
End Concat.

(* the joined buffers of the returned wire (with the signature placed in its slot) are exactly `encode` of the value whose
   wire fields are flattened *)
Theorem encode_wire_concat fuel sc inc mi vs :
  concat (map seg_bytes (encode_wire fuel sc inc mi vs)) = encode fuel sc mi (flat_fields fuel sc (flds (the_model sc mi)) vs).
Proof. unfold encode_wire, encode. rewrite run_encode_concat. cbn [app]. apply ev_concat. Qed.

(* the struct:T:nocopy table of a package as translated into GenSchemas (pkg_X_inc) *)
Definition inc_of (tbl : list (list bool)) (mi i : nat) : bool := nth i (nth mi tbl []) false.
