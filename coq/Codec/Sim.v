(* Codec/Sim.v — reader refinement: the generated parser run over two reader implementations whose operations are
   related step by step (same bytes delivered, success and failure at the same time, positions equal up to a constant
   offset, Delegate returning related sub-readers) returns the same value / the same error.  Marker offsets and covered
   ranges (parsing context) are positions and may differ by the offset; they are not part of the statement.
   Instantiated for WireReader vs BufferReader in SimWr.v (wirereader_refines_buffer). *)
From Codec Require Import Schema Readers Model.
From Coq Require Import ZifyBool ZifyN ZifyNat.
Open Scope N_scope.

Section Sim.
  Variables R1 R2 : Type.
  Variable p1 : R1 -> res Z.           Variable p2 : R2 -> res Z.
  Variable n1 : R1 -> Z.               Variable n2 : R2 -> Z.
  Variable rb1 : R1 -> rres R1 byte.   Variable rb2 : R2 -> rres R2 byte.
  Variable rn1 : R1 -> N -> rres R1 bytes.   Variable rn2 : R2 -> N -> rres R2 bytes.
  Variable rf1 : R1 -> Z -> rres R1 bytes.   Variable rf2 : R2 -> Z -> rres R2 bytes.
  Variable rw1 : R1 -> Z -> rres R1 bytes.   Variable rw2 : R2 -> Z -> rres R2 bytes.
  Variable sk1 : R1 -> Z -> rres R1 unit.    Variable sk2 : R2 -> Z -> rres R2 unit.
  Variable rg1 : R1 -> Z -> Z -> res (option bytes).   Variable rg2 : R2 -> Z -> Z -> res (option bytes).
  Variable dg1 : R1 -> Z -> res (R1 * R1).   Variable dg2 : R2 -> Z -> res (R2 * R2).

  Variable sim : Z -> R1 -> R2 -> Prop.     (* sim off r1 r2: same remaining bytes, Pos1 = Pos2 + off *)

  Definition orel {A} (off : Z) (x1 : rres R1 A) (x2 : rres R2 A) : Prop :=
    match x1, x2 with
    | ROk a r1, ROk b r2 => a = b /\ sim off r1 r2
    | RErr e1 r1, RErr e2 r2 => e1 = e2 /\ sim off r1 r2
    | _, _ => False
    end.

  Hypothesis H_pos : forall off r1 r2, sim off r1 r2 -> exists p, p1 r1 = Ok (p + off)%Z /\ p2 r2 = Ok p.
  Hypothesis H_len : forall off r1 r2, sim off r1 r2 -> n1 r1 = (n2 r2 + off)%Z.
  Hypothesis H_readbyte : forall off r1 r2, sim off r1 r2 -> orel off (rb1 r1) (rb2 r2).
  Hypothesis H_readn : forall off r1 r2 n, sim off r1 r2 -> orel off (rn1 r1 n) (rn2 r2 n).
  Hypothesis H_readbuf : forall off r1 r2 l, sim off r1 r2 -> orel off (rf1 r1 l) (rf2 r2 l).
  Hypothesis H_readwire : forall off r1 r2 l, sim off r1 r2 -> orel off (rw1 r1 l) (rw2 r2 l).
  Hypothesis H_skip : forall off r1 r2 n, sim off r1 r2 -> orel off (sk1 r1 n) (sk2 r2 n).
  Hypothesis H_range1 : forall r s e, exists o, rg1 r s e = Ok o.
  Hypothesis H_range2 : forall r s e, exists o, rg2 r s e = Ok o.
  Hypothesis H_skip_range : forall off r1 r2 r1' r2' q1 q2, sim off r1 r2 ->
    sk1 r1 1 = ROk tt r1' -> sk2 r2 1 = ROk tt r2' -> p1 r1' = Ok q1 -> p2 r2' = Ok q2 ->
    exists x t1 t2, rg1 r1' (q1 - 1) q1 = Ok (Some (x :: t1)) /\ rg2 r2' (q2 - 1) q2 = Ok (Some (x :: t2)).
  Hypothesis H_delegate : forall off r1 r2 l, sim off r1 r2 ->
    exists sr1 r1' sr2 r2' off', dg1 r1 l = Ok (sr1, r1') /\ dg2 r2 l = Ok (sr2, r2') /\ sim off' sr1 sr2 /\ sim off r1' r2'.

  Notation F1 f := (f R1 p1 n1 rb1 rn1 rf1 rw1 sk1 rg1 dg1).
  Notation F2 f := (f R2 p2 n2 rb2 rn2 rf2 rw2 sk2 rg2 dg2).

  (* results of compound readers: same value and related readers, or the same error *)
  Definition crel {A} (off : Z) (x1 : rres R1 A) (x2 : rres R2 A) : Prop :=
    match x1, x2 with
    | ROk a r1, ROk b r2 => a = b /\ sim off r1 r2
    | RErr e1 _, RErr e2 _ => e1 = e2
    | _, _ => False
    end.

  Lemma orel_crel {A} off (x1 : rres R1 A) x2 : orel off x1 x2 -> crel off x1 x2.
  Proof. destruct x1, x2; cbn; tauto. Qed.

  Definition tlrel (off : Z) (x1 : tlr R1) (x2 : tlr R2) : Prop :=
    match x1, x2 with
    | TL _ v1 ok1 r1, TL _ v2 ok2 r2 => v1 = v2 /\ ok1 = ok2 /\ sim off r1 r2
    | _, _ => False
    end.

  Lemma s_rd_be : forall k acc off r1 r2, sim off r1 r2 -> tlrel off (rd_be R1 rb1 k acc r1) (rd_be R2 rb2 k acc r2).
  Proof.
    induction k as [|k IH]; intros acc off r1 r2 Hs; cbn [rd_be]; [cbn; auto|].
    pose proof (H_readbyte off r1 r2 Hs) as X. destruct (rb1 r1), (rb2 r2); cbn in X; try contradiction.
    - destruct X as [-> X]. apply IH. exact X.
    - cbn. tauto.
  Qed.

  Lemma s_rd_tlnum off r1 r2 : sim off r1 r2 -> tlrel off (rd_tlnum R1 rb1 r1) (rd_tlnum R2 rb2 r2).
  Proof.
    intros Hs. unfold rd_tlnum.
    pose proof (H_readbyte off r1 r2 Hs) as X. destruct (rb1 r1), (rb2 r2); cbn in X; try contradiction.
    - destruct X as [-> X]. destruct (a0 <=? 252); [cbn; auto|].
      destruct (a0 =? 253); [apply s_rd_be; exact X|]. destruct (a0 =? 254); apply s_rd_be; exact X.
    - cbn. tauto.
  Qed.

  Lemma s_rd_nat_loop : forall k M acc off r1 r2, sim off r1 r2 ->
    crel off (rd_nat_loop R1 rb1 k M acc r1) (rd_nat_loop R2 rb2 k M acc r2).
  Proof.
    induction k as [|k IH]; intros M acc off r1 r2 Hs; cbn [rd_nat_loop]; [cbn; auto|].
    pose proof (H_readbyte off r1 r2 Hs) as X. destruct (rb1 r1), (rb2 r2); cbn in X; try contradiction.
    - destruct X as [-> X]. apply IH. exact X.
    - cbn. reflexivity.
  Qed.

  Lemma s_rd_nat M l off r1 r2 : sim off r1 r2 -> crel off (rd_nat R1 p1 n1 rb1 M l r1) (rd_nat R2 p2 n2 rb2 M l r2).
  Proof.
    intros Hs. unfold rd_nat. destruct (to_int l <=? 0)%Z; [cbn; auto|].
    destruct (H_pos off r1 r2 Hs) as [p [E1 E2]]. rewrite E1, E2. rewrite (H_len off r1 r2 Hs).
    replace (n2 r2 + off - (p + off))%Z with (n2 r2 - p)%Z by lia. apply s_rd_nat_loop. exact Hs.
  Qed.

  Lemma s_rd_comps : forall k e1 e2 off r1 r2 acc, sim off r1 r2 -> e1 = (e2 + off)%Z ->
    crel off (rd_comps R1 p1 rb1 rf1 k e1 r1 acc) (rd_comps R2 p2 rb2 rf2 k e2 r2 acc).
  Proof.
    induction k as [|k IH]; intros e1 e2 off r1 r2 acc Hs He; cbn [rd_comps]; [cbn; auto|].
    destruct (H_pos off r1 r2 Hs) as [p [E1 E2]]. rewrite E1, E2.
    replace (p + off >=? e1)%Z with (p >=? e2)%Z by lia.
    destruct (p >=? e2)%Z; [cbn; auto|].
    pose proof (s_rd_tlnum off r1 r2 Hs) as X1.
    destruct (rd_tlnum R1 rb1 r1) as [t ok1 r1a|], (rd_tlnum R2 rb2 r2) as [t' ok1' r2a|]; cbn in X1; try contradiction.
    destruct X1 as [-> [-> S1]].
    pose proof (s_rd_tlnum off r1a r2a S1) as X2.
    destruct (rd_tlnum R1 rb1 r1a) as [l2 ok2 r1b|], (rd_tlnum R2 rb2 r2a) as [l2' ok2' r2b|]; cbn in X2; try contradiction.
    destruct X2 as [-> [-> S2]].
    pose proof (H_readbuf off r1b r2b (to_int l2') S2) as X3.
    destruct (rf1 r1b (to_int l2')), (rf2 r2b (to_int l2')); cbn in X3; try contradiction.
    - destruct X3 as [-> S3]. destruct (ok1' && ok2'); [apply IH; assumption|cbn; reflexivity].
    - cbn. reflexivity.
  Qed.

  (* InterestName: the position of the digest component is a position: related up to the offset, and only used for the
     covered range *)
  Lemma s_rd_icomps : forall k e1 e2 c1 c2 off r1 r2 acc, sim off r1 r2 -> e1 = (e2 + off)%Z ->
    match rd_icomps R1 p1 rb1 rf1 k e1 c1 r1 acc, rd_icomps R2 p2 rb2 rf2 k e2 c2 r2 acc with
    | ROk (n, _) r1', ROk (n', _) r2' => n = n' /\ sim off r1' r2'
    | RErr e _, RErr e' _ => e = e'
    | _, _ => False
    end.
  Proof.
    induction k as [|k IH]; intros e1 e2 c1 c2 off r1 r2 acc Hs He; cbn [rd_icomps]; [auto|].
    destruct (H_pos off r1 r2 Hs) as [p [E1 E2]]. rewrite E1, E2.
    replace (p + off >=? e1)%Z with (p >=? e2)%Z by lia.
    destruct (p >=? e2)%Z; [auto|].
    pose proof (s_rd_tlnum off r1 r2 Hs) as X1.
    destruct (rd_tlnum R1 rb1 r1) as [t ok1 r1a|], (rd_tlnum R2 rb2 r2) as [t' ok1' r2a|]; cbn in X1; try contradiction.
    destruct X1 as [-> [-> S1]].
    pose proof (s_rd_tlnum off r1a r2a S1) as X2.
    destruct (rd_tlnum R1 rb1 r1a) as [l2 ok2 r1b|], (rd_tlnum R2 rb2 r2a) as [l2' ok2' r2b|]; cbn in X2; try contradiction.
    destruct X2 as [-> [-> S2]].
    pose proof (H_readbuf off r1b r2b (to_int l2') S2) as X3.
    destruct (rf1 r1b (to_int l2')), (rf2 r2b (to_int l2')); cbn in X3; try contradiction.
    - destruct X3 as [-> S3]. destruct (ok1' && ok2'); [apply IH; assumption|reflexivity].
    - reflexivity.
  Qed.

  Lemma s_len_guard l off r1 r2 : sim off r1 r2 ->
    exists b, len_guard R1 p1 n1 l r1 = Ok b /\ len_guard R2 p2 n2 l r2 = Ok b.
  Proof.
    intros Hs. unfold len_guard. destruct (H_pos off r1 r2 Hs) as [p [E1 E2]]. rewrite E1, E2, (H_len off r1 r2 Hs).
    replace (n2 r2 + off - (p + off))%Z with (n2 r2 - p)%Z by lia. eauto.
  Qed.

  Lemma s_rd_name l off r1 r2 : sim off r1 r2 ->
    crel off (rd_name R1 p1 n1 rb1 rf1 l r1) (rd_name R2 p2 n2 rb2 rf2 l r2).
  Proof.
    intros Hs. unfold rd_name. destruct (s_len_guard l off r1 r2 Hs) as [b [G1 G2]]. rewrite G1, G2.
    destruct (H_pos off r1 r2 Hs) as [p [E1 E2]]. rewrite E1, E2.
    destruct b; [cbn; reflexivity|].
    pose proof (s_rd_comps (N.to_nat (l / 2 + 1)) (p + off + to_int l)%Z (p + to_int l)%Z off r1 r2 [] Hs ltac:(lia)) as X.
    destruct (rd_comps R1 p1 rb1 rf1 _ _ r1 []) as [n r1'|e r1'|w], (rd_comps R2 p2 rb2 rf2 _ _ r2 []) as [n' r2'|e' r2'|w']; cbn in X; try contradiction.
    - destruct X as [-> S1]. destruct (H_pos off r1' r2' S1) as [q [Q1 Q2]]. rewrite Q1, Q2.
      replace (q + off =? p + off + to_int l)%Z with (q =? p + to_int l)%Z by lia.
      destruct (q =? p + to_int l)%Z; cbn; auto.
    - cbn. exact X.
  Qed.

  Ltac lift X := (* X : crel off a b where the goal wraps a and b in identical continuation matches *)
    match type of X with
    | crel _ ?a ?b => destruct a, b; cbn in X |- *; try contradiction; try (destruct X as [-> X]); auto
    end.

  Lemma s_rd_leaf k l off r1 r2 : sim off r1 r2 ->
    crel off (rd_leaf R1 p1 n1 rb1 rn1 rf1 rw1 sk1 rg1 k l r1) (rd_leaf R2 p2 n2 rb2 rn2 rf2 rw2 sk2 rg2 k l r2).
  Proof.
    intros Hs. destruct k; cbn [rd_leaf]; try (cbn; auto; fail).
    - pose proof (s_rd_nat two64 l off r1 r2 Hs) as X. lift X.
    - destruct w as [|[|w]].
      + pose proof (s_rd_nat (256 ^ N.of_nat 0) l off r1 r2 Hs) as X. lift X.
      + destruct opt.
        * pose proof (H_skip off r1 r2 1%Z Hs) as X.
          destruct (sk1 r1 1) as [u1 r1'|e1 r1'|w1] eqn:K1, (sk2 r2 1) as [u2 r2'|e2 r2'|w2] eqn:K2; cbn in X; try contradiction.
          -- destruct X as [_ S1]. destruct u1, u2.
             destruct (H_pos off r1' r2' S1) as [q [Q1 Q2]]. rewrite Q1, Q2.
             destruct (H_skip_range off r1 r2 r1' r2' _ _ Hs K1 K2 Q1 Q2) as [x [t1 [t2 [G1 G2]]]]. rewrite G1, G2. cbn. auto.
          -- cbn. reflexivity.
        * pose proof (H_readbyte off r1 r2 Hs) as X. apply orel_crel in X. lift X.
      + pose proof (s_rd_nat (256 ^ N.of_nat (S (S w))) l off r1 r2 Hs) as X. lift X.
    - pose proof (s_rd_nat two64 l off r1 r2 Hs) as X. lift X.
    - destruct (s_len_guard l off r1 r2 Hs) as [b [G1 G2]]. rewrite G1, G2. destruct b; [cbn; reflexivity|].
      pose proof (H_readn off r1 r2 l Hs) as X. apply orel_crel in X. lift X.
    - destruct (to_int l <=? 0)%Z; [cbn; auto|]. pose proof (H_readn off r1 r2 l Hs) as X. apply orel_crel in X. lift X.
    - pose proof (H_readwire off r1 r2 (to_int l) Hs) as X. apply orel_crel in X. lift X.
    - apply s_rd_name. exact Hs.
    - pose proof (H_readwire off r1 r2 (to_int l) Hs) as X. apply orel_crel in X. lift X.
  Qed.

  (* parse states: the struct under construction and the handled flags agree; offsets and covered ranges may not *)
  Definition prel (s1 s2 : pst) : Prop := p_vals s1 = p_vals s2 /\ p_hand s1 = p_hand s2.

  Definition srel (x1 x2 : res pst) : Prop :=
    match x1, x2 with
    | Ok s1, Ok s2 => prel s1 s2
    | Err e1, Err e2 => e1 = e2
    | _, _ => False
    end.

  Lemma prel_set_val i v s1 s2 : prel s1 s2 -> prel (set_val i v s1) (set_val i v s2).
  Proof. intros [A B]. split; cbn; congruence. Qed.
  Lemma prel_set_hand i s1 s2 : prel s1 s2 -> prel (set_hand i s1) (set_hand i s2).
  Proof. intros [A B]. split; cbn; congruence. Qed.
  Lemma prel_set_ctx i z1 z2 s1 s2 : prel s1 s2 -> prel (set_ctx i z1 s1) (set_ctx i z2 s2).
  Proof. intros [A B]. split; cbn; congruence. Qed.
  Lemma prel_set_cov i b1 b2 s1 s2 : prel s1 s2 -> prel (set_cov i b1 s1) (set_cov i b2 s2).
  Proof. intros [A B]. split; cbn; congruence. Qed.
  Lemma prel_get_val i s1 s2 : prel s1 s2 -> get_val i s1 = get_val i s2.
  Proof. intros [A B]. unfold get_val. congruence. Qed.

  Lemma s_skip_proc i k z1 z2 s1 s2 r1 r2 : prel s1 s2 ->
    srel (skip_proc R1 rg1 i k z1 s1 r1) (skip_proc R2 rg2 i k z2 s2 r2).
  Proof.
    intros Hp. destruct k as [o|w o|o| |o| | | |m0|sb|ky vt vl|st cv|cv| |st cv| ]; cbn [skip_proc];
      try (destruct o); cbn [srel]; auto using prel_set_val, prel_set_ctx.
    destruct (H_range1 r1 (get_ctx st (set_ctx i z1 s1)) z1) as [o1 ->].
    destruct (H_range2 r2 (get_ctx st (set_ctx i z2 s2)) z2) as [o2 ->].
    cbn. apply prel_set_cov, prel_set_ctx. exact Hp.
  Qed.

  Lemma s_finish : forall fs i z1 z2 s1 s2 r1 r2, prel s1 s2 ->
    srel (finish R1 rg1 i fs z1 s1 r1) (finish R2 rg2 i fs z2 s2 r2).
  Proof.
    induction fs as [|f fs IH]; intros i z1 z2 s1 s2 r1 r2 Hp; cbn [finish]; [exact Hp|].
    destruct Hp as [A B]. rewrite B.
    destruct (nth i (p_hand s2) false); [apply IH; split; assumption|].
    pose proof (s_skip_proc i (fk f) z1 z2 s1 s2 r1 r2 (conj A B)) as X.
    destruct (skip_proc R1 rg1 i (fk f) z1 s1 r1), (skip_proc R2 rg2 i (fk f) z2 s2 r2); cbn in X; try contradiction.
    - apply IH. exact X.
    - exact X.
  Qed.

  Lemma s_rd_unknown ic t l off r1 r2 : sim off r1 r2 -> crel off (rd_unknown R1 sk1 ic t l r1) (rd_unknown R2 sk2 ic t l r2).
  Proof.
    intros Hs. unfold rd_unknown. destruct (negb ic && critical t); [cbn; reflexivity|].
    pose proof (H_skip off r1 r2 (to_int l) Hs) as X. apply orel_crel in X. lift X.
  Qed.

  Definition pres_eq (x1 x2 : res parse_out) : Prop :=
    match x1, x2 with
    | Ok (v1, _, _), Ok (v2, _, _) => v1 = v2
    | Err e1, Err e2 => e1 = e2
    | _, _ => False
    end.

  Section Sub.
    Variable sub1 : nat -> bool -> R1 -> res parse_out.
    Variable sub2 : nat -> bool -> R2 -> res parse_out.
    Hypothesis Hsub : forall m ic off r1 r2, sim off r1 r2 -> pres_eq (sub1 m ic r1) (sub2 m ic r2).

    Lemma s_rd_val ic k l off r1 r2 : sim off r1 r2 -> crel off (F1 rd_val sub1 ic k l r1) (F2 rd_val sub2 ic k l r2).
    Proof.
      intros Hs. destruct k; try (apply s_rd_leaf; exact Hs).
      cbn [rd_val]. destruct (H_delegate off r1 r2 (to_int l) Hs) as [sr1 [r1' [sr2 [r2' [off' [D1 [D2 [S1 S2]]]]]]]].
      rewrite D1, D2. pose proof (Hsub m ic off' sr1 sr2 S1) as X.
      destruct (sub1 m ic sr1) as [[[v1 c1] d1]|e1|w1], (sub2 m ic sr2) as [[[v2 c2] d2]|e2|w2]; cbn in X |- *; try contradiction; auto.
      subst. auto.
    Qed.

    Definition frel (off : Z) (x1 : rres R1 pst) (x2 : rres R2 pst) : Prop :=
      match x1, x2 with
      | ROk s1 r1, ROk s2 r2 => prel s1 s2 /\ sim off r1 r2
      | RErr e1 _, RErr e2 _ => e1 = e2
      | _, _ => False
      end.

    Lemma s_rd_field ic i k l z1 z2 s1 s2 off r1 r2 : sim off r1 r2 -> prel s1 s2 ->
      frel off (F1 rd_field sub1 ic i k l z1 s1 r1) (F2 rd_field sub2 ic i k l z2 s2 r2).
    Proof.
      intros Hs Hp. pose proof (prel_set_hand i s1 s2 Hp) as Hp'.
      assert (Hdef : forall kk, frel off
                (match F1 rd_val sub1 ic kk l r1 with ROk v r' => ROk (set_val i v (set_hand i s1)) r' | RErr e r' => RErr e r' | RPanic w => RPanic w end)
                (match F2 rd_val sub2 ic kk l r2 with ROk v r' => ROk (set_val i v (set_hand i s2)) r' | RErr e r' => RErr e r' | RPanic w => RPanic w end)).
      { intros kk. pose proof (s_rd_val ic kk l off r1 r2 Hs) as X.
        destruct (F1 rd_val sub1 ic kk l r1), (F2 rd_val sub2 ic kk l r2); cbn [crel frel srel] in X |- *; try contradiction; auto.
        destruct X as [-> X]. split; [apply prel_set_val; exact Hp'|exact X]. }
      destruct k as [o|w o|o| |o| | | |m0|sb|ky vt vl|st cv|cv| |st cv| ]; unfold rd_field; try apply Hdef.
      - (* KSeq *)
        pose proof (s_rd_val ic sb l off r1 r2 Hs) as X.
        destruct (F1 rd_val sub1 ic sb l r1), (F2 rd_val sub2 ic sb l r2); cbn [crel frel srel] in X |- *; try contradiction; auto.
        destruct X as [-> X]. rewrite (prel_get_val i _ _ Hp'). split; [apply prel_set_val; exact Hp'|exact X].
      - (* KMap *)
        pose proof (s_rd_val ic ky l off r1 r2 Hs) as X.
        destruct (F1 rd_val sub1 ic ky l r1) as [kv r1a|e r1a|w], (F2 rd_val sub2 ic ky l r2) as [kv' r2a|e' r2a|w']; cbn [crel frel srel] in X |- *; try contradiction; auto.
        destruct X as [-> S1].
        pose proof (s_rd_tlnum off r1a r2a S1) as X1.
        destruct (rd_tlnum R1 rb1 r1a) as [t ok1 r1b|], (rd_tlnum R2 rb2 r2a) as [t' ok1' r2b|]; cbn in X1; try contradiction.
        destruct X1 as [-> [-> S2]]. destruct (negb ok1'); [cbn; reflexivity|].
        pose proof (s_rd_tlnum off r1b r2b S2) as X2.
        destruct (rd_tlnum R1 rb1 r1b) as [l2 ok2 r1c|], (rd_tlnum R2 rb2 r2b) as [l2' ok2' r2c|]; cbn in X2; try contradiction.
        destruct X2 as [-> [-> S3]]. destruct (negb ok2'); [cbn; reflexivity|].
        destruct (negb (t' =? vt)); [cbn; reflexivity|].
        pose proof (s_rd_val ic vl l2' off r1c r2c S3) as X3.
        destruct (F1 rd_val sub1 ic vl l2' r1c), (F2 rd_val sub2 ic vl l2' r2c); cbn [crel frel] in X3 |- *; try contradiction; auto.
        destruct X3 as [-> X3]. rewrite (prel_get_val i _ _ Hp'). split; [apply prel_set_val; exact Hp'|exact X3].
      - (* KSig *)
        pose proof (s_rd_leaf (KSig st cv) l off r1 r2 Hs) as X.
        destruct (rd_leaf R1 p1 n1 rb1 rn1 rf1 rw1 sk1 rg1 (KSig st cv) l r1) as [v r1'|e r1'|w],
                 (rd_leaf R2 p2 n2 rb2 rn2 rf2 rw2 sk2 rg2 (KSig st cv) l r2) as [v' r2'|e' r2'|w']; cbn [crel frel srel] in X |- *; try contradiction; auto.
        destruct X as [-> X].
        destruct (H_range1 r1' (get_ctx st (set_hand i s1)) z1) as [o1 ->].
        destruct (H_range2 r2' (get_ctx st (set_hand i s2)) z2) as [o2 ->].
        cbn. split; [apply prel_set_cov, prel_set_val; exact Hp'|exact X].
      - (* KIntName *)
        destruct (s_len_guard l off r1 r2 Hs) as [b [G1 G2]]. rewrite G1, G2.
        destruct (H_pos off r1 r2 Hs) as [p [E1 E2]]. rewrite E1, E2.
        destruct b; [cbn; reflexivity|].
        pose proof (s_rd_icomps (N.to_nat (l / 2 + 1)) (p + off + to_int l)%Z (p + to_int l)%Z (p + off + to_int l)%Z (p + to_int l)%Z
                      off r1 r2 [] Hs ltac:(lia)) as X.
        destruct (rd_icomps R1 p1 rb1 rf1 _ _ _ r1 []) as [[n c1] r1'|e r1'|w], (rd_icomps R2 p2 rb2 rf2 _ _ _ r2 []) as [[n' c2] r2'|e' r2'|w'];
          try contradiction; [|cbn; exact X].
        destruct X as [-> S1]. destruct (H_pos off r1' r2' S1) as [q [Q1 Q2]]. rewrite Q1, Q2.
        replace (q + off =? p + off + to_int l)%Z with (q =? p + to_int l)%Z by lia.
        destruct (q =? p + to_int l)%Z; [|cbn; reflexivity].
        destruct (H_range1 r1' (p + off)%Z c1) as [o1 ->]. destruct (H_range2 r2' p c2) as [o2 ->].
        cbn. split; [apply prel_set_cov, prel_set_val; exact Hp'|exact S1].
      - (* KOffset *) cbn. split; [apply prel_set_ctx; exact Hp'|exact Hs].
      - (* KRange *)
        pose proof (s_skip_proc i (KRange st cv) z1 z2 _ _ r1 r2 Hp') as X.
        destruct (skip_proc R1 rg1 i (KRange st cv) z1 (set_hand i s1) r1), (skip_proc R2 rg2 i (KRange st cv) z2 (set_hand i s2) r2);
          cbn [crel frel srel] in X |- *; try contradiction; auto.
      - (* KArg *) cbn. split; [exact Hp'|exact Hs].
    Qed.

    Definition lrel (off : Z) (x1 : rres R1 (pst * Z)) (x2 : rres R2 (pst * Z)) : Prop :=
      match x1, x2 with
      | ROk (s1, q1) r1, ROk (s2, q2) r2 => prel s1 s2 /\ q1 = q2 /\ sim off r1 r2
      | RErr e1 _, RErr e2 _ => e1 = e2
      | _, _ => False
      end.

    Lemma s_oloop : forall k m ic t l z1 z2 s1 s2 p off r1 r2, sim off r1 r2 -> prel s1 s2 ->
      lrel off (F1 oloop sub1 k m ic t l z1 s1 p r1) (F2 oloop sub2 k m ic t l z2 s2 p r2).
    Proof.
      induction k as [|k IH]; intros m ic t l z1 z2 s1 s2 p off r1 r2 Hs Hp; cbn [oloop]; [cbn; auto|].
      destruct (p >=? Z.of_nat (length (flds m)))%Z; [cbn; auto|].
      destruct (find_field t 0 (flds m)) as [[i f]|].
      - destruct (p + 1 =? Z.of_nat i)%Z.
        + pose proof (s_rd_field ic i (fk f) l z1 z2 s1 s2 off r1 r2 Hs Hp) as X.
          destruct (F1 rd_field sub1 ic i (fk f) l z1 s1 r1), (F2 rd_field sub2 ic i (fk f) l z2 s2 r2); cbn in X |- *; try contradiction; auto.
          tauto.
        + destruct (nth_error (flds m) (Z.to_nat (p + 1))) as [g|]; [|apply IH; assumption].
          pose proof (s_skip_proc (Z.to_nat (p + 1)) (fk g) z1 z2 _ _ r1 r2 (prel_set_hand (Z.to_nat (p + 1)) s1 s2 Hp)) as X.
          destruct (skip_proc R1 rg1 _ (fk g) z1 _ r1), (skip_proc R2 rg2 _ (fk g) z2 _ r2); cbn in X |- *; try contradiction; auto.
      - pose proof (s_rd_unknown ic t l off r1 r2 Hs) as X.
        destruct (rd_unknown R1 sk1 ic t l r1), (rd_unknown R2 sk2 ic t l r2); cbn in X |- *; try contradiction; auto.
        tauto.
    Qed.

    Lemma s_pstep m ic z1 z2 s1 s2 p off r1 r2 : sim off r1 r2 -> prel s1 s2 ->
      lrel off (F1 pstep sub1 m ic z1 s1 p r1) (F2 pstep sub2 m ic z2 s2 p r2).
    Proof.
      intros Hs Hp. unfold pstep.
      pose proof (s_rd_tlnum off r1 r2 Hs) as X1.
      destruct (rd_tlnum R1 rb1 r1) as [t ok1 r1a|], (rd_tlnum R2 rb2 r2) as [t' ok1' r2a|]; cbn in X1; try contradiction.
      destruct X1 as [-> [-> S1]]. destruct (negb ok1'); [cbn; reflexivity|].
      pose proof (s_rd_tlnum off r1a r2a S1) as X2.
      destruct (rd_tlnum R1 rb1 r1a) as [l ok2 r1b|], (rd_tlnum R2 rb2 r2a) as [l' ok2' r2b|]; cbn in X2; try contradiction.
      destruct X2 as [-> [-> S2]]. destruct (negb ok2'); [cbn; reflexivity|].
      destruct (ordered m); [apply s_oloop; assumption|].
      unfold ustep. destruct (find_field t' 0 (flds m)) as [[i f]|].
      - pose proof (s_rd_field ic i (fk f) l' z1 z2 s1 s2 off r1b r2b S2 Hp) as X.
        destruct (F1 rd_field sub1 ic i (fk f) l' z1 s1 r1b), (F2 rd_field sub2 ic i (fk f) l' z2 s2 r2b); cbn in X |- *; try contradiction; auto.
        tauto.
      - pose proof (s_rd_unknown ic t' l' off r1b r2b S2) as X.
        destruct (rd_unknown R1 sk1 ic t' l' r1b), (rd_unknown R2 sk2 ic t' l' r2b); cbn in X |- *; try contradiction; auto.
        tauto.
    Qed.

    Lemma s_ploop : forall k m ic s1 s2 p off r1 r2, sim off r1 r2 -> prel s1 s2 ->
      pres_eq (F1 ploop sub1 k m ic s1 p r1) (F2 ploop sub2 k m ic s2 p r2).
    Proof.
      induction k as [|k IH]; intros m ic s1 s2 p off r1 r2 Hs Hp; cbn [ploop]; [cbn; reflexivity|].
      destruct (H_pos off r1 r2 Hs) as [q [E1 E2]]. rewrite E1, E2, (H_len off r1 r2 Hs).
      replace (q + off >=? n2 r2 + off)%Z with (q >=? n2 r2)%Z by lia.
      destruct (q >=? n2 r2)%Z.
      - pose proof (s_finish (flds m) 0 (q + off)%Z q s1 s2 r1 r2 Hp) as X.
        destruct (finish R1 rg1 0 (flds m) (q + off)%Z s1 r1), (finish R2 rg2 0 (flds m) q s2 r2); cbn in X |- *; try contradiction; auto.
        apply X.
      - pose proof (s_pstep m ic (q + off)%Z q s1 s2 p off r1 r2 Hs Hp) as X.
        destruct (F1 pstep sub1 m ic (q + off)%Z s1 p r1) as [[s1' q1] r1'|e1 r1'|w1], (F2 pstep sub2 m ic q s2 p r2) as [[s2' q2] r2'|e2 r2'|w2];
          cbn in X |- *; try contradiction; auto.
        destruct X as [A [-> B]]. apply (IH m ic s1' s2' q2 off); assumption.
    Qed.
  End Sub.

  (* the whole parser, any nesting fuel *)
  Theorem sim_parse : forall d sc mi ic off r1 r2, sim off r1 r2 ->
    pres_eq (F1 parse d sc mi ic r1) (F2 parse d sc mi ic r2).
  Proof.
    induction d as [|d IH]; intros sc mi ic off r1 r2 Hs; cbn [parse]; [cbn; reflexivity|].
    destruct (nth_error sc mi) as [m|]; [|cbn; reflexivity].
    destruct (H_pos off r1 r2 Hs) as [q [E1 E2]]. rewrite E1, E2, (H_len off r1 r2 Hs).
    replace (n2 r2 + off - (q + off))%Z with (n2 r2 - q)%Z by lia.
    apply (s_ploop (F1 parse d sc) (F2 parse d sc)) with (off := off).
    - intros m' ic' off' sr1 sr2 Hs'. apply (IH sc m' ic' off'). exact Hs'.
    - exact Hs.
    - split; reflexivity.
  Qed.
End Sim.
