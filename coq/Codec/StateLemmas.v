(* Codec/StateLemmas.v — list update, parse-state and field-lookup facts used by the round-trip proofs. *)
From Codec Require Import Schema Readers Model Spec BrLemmas LeafLemmas.
From Coq Require Import ZifyBool ZifyN ZifyNat.
Open Scope N_scope.

Lemma upd_length {A} (l : list A) i x : length (upd i x l) = length l.
Proof. revert i; induction l as [|h t IH]; intros [|i]; cbn; auto. Qed.

Lemma nth_upd_same {A} (l : list A) i x d : (i < length l)%nat -> nth i (upd i x l) d = x.
Proof. revert i; induction l as [|h t IH]; intros [|i] H; cbn in *; try lia; auto. apply IH. lia. Qed.

Lemma nth_upd_other {A} (l : list A) i j x d : i <> j -> nth j (upd i x l) d = nth j l d.
Proof. revert i j; induction l as [|h t IH]; intros [|i] [|j] H; cbn; auto; try congruence. Qed.

Lemma upd_same {A} (l : list A) i d : upd i (nth i l d) l = l.
Proof. revert i; induction l as [|h t IH]; intros [|i]; cbn; auto. f_equal. apply IH. Qed.

Lemma upd_upd {A} (l : list A) i x y : upd i x (upd i y l) = upd i x l.
Proof. revert i; induction l as [|h t IH]; intros [|i]; cbn; auto. f_equal. apply IH. Qed.

Lemma upd_app_mid {A} (a : list A) y b x : upd (length a) x (a ++ y :: b) = a ++ x :: b.
Proof. induction a as [|h t IH]; cbn; [reflexivity|]. f_equal. exact IH. Qed.

Lemma nth_app_mid {A} (a : list A) y b d : nth (length a) (a ++ y :: b) d = y.
Proof. induction a as [|h t IH]; cbn; auto. Qed.

Lemma nth_error_nth' {A} (l : list A) i x d : nth_error l i = Some x -> nth i l d = x.
Proof. revert i; induction l as [|h t IH]; intros [|i] H; cbn in *; try discriminate; [congruence|auto]. Qed.

(* ---- find_field ---- *)
Lemma find_field_spec : forall fs base t i f,
  nth_error fs i = Some f -> ftyp f = t -> t <> 0 ->
  (forall j g, (j < i)%nat -> nth_error fs j = Some g -> ftyp g <> t) ->
  find_field t base fs = Some ((base + i)%nat, f).
Proof.
  induction fs as [|h fs IH]; intros base t i f Hn Ht H0 Hprev.
  - destruct i; discriminate.
  - destruct i as [|i]; cbn in Hn.
    + inversion Hn; subst. cbn [find_field].
      replace (ftyp f =? ftyp f) with true by (symmetry; apply N.eqb_refl).
      replace (ftyp f =? 0) with false by (symmetry; apply N.eqb_neq; exact H0).
      cbn. f_equal. f_equal. lia.
    + cbn [find_field].
      assert (ftyp h <> t) by (apply (Hprev 0%nat h); [lia|reflexivity]).
      replace (ftyp h =? t) with false by (symmetry; apply N.eqb_neq; assumption). cbn [andb].
      rewrite (IH (S base) t i f Hn Ht H0).
      * f_equal. f_equal. lia.
      * intros j g Hj Hg. apply (Hprev (S j) g); [lia|exact Hg].
Qed.

Lemma find_field_none : forall fs base t, (forall g, In g fs -> ftyp g <> t \/ t = 0) -> find_field t base fs = None.
Proof.
  induction fs as [|h fs IH]; intros base t H; [reflexivity|].
  cbn [find_field]. destruct (H h (or_introl eq_refl)) as [Hne | ->].
  - replace (ftyp h =? t) with false by (symmetry; apply N.eqb_neq; assumption). cbn [andb].
    apply IH. intros g Hg. apply H. right. exact Hg.
  - destruct (ftyp h =? 0) eqn:E; cbn [andb negb]; apply IH; intros g Hg; apply H; right; exact Hg.
Qed.

Lemma find_field_some_typ : forall fs base t i f, find_field t base fs = Some (i, f) -> ftyp f = t /\ t <> 0.
Proof.
  induction fs as [|h fs IH]; intros base t i f H; [discriminate|].
  cbn [find_field] in H. destruct ((ftyp h =? t) && negb (ftyp h =? 0)) eqn:E.
  - inversion H; subst. apply andb_true_iff in E as [E1 E2]. apply N.eqb_eq in E1.
    apply negb_true_iff, N.eqb_neq in E2. split; [exact E1|congruence].
  - eapply IH; eauto.
Qed.

(* types_ok: a data field is found by its type number *)
Lemma types_ok_later : forall fs i j f g,
  types_ok fs = true -> nth_error fs i = Some f -> nth_error fs j = Some g -> (i < j)%nat ->
  kind_is_data (fk f) = true -> ftyp g <> ftyp f.
Proof.
  induction fs as [|h fs IH]; intros i j f g Hok Hi Hj Hlt Hd.
  - destruct i; discriminate.
  - cbn [types_ok] in Hok. apply andb_true_iff in Hok as [Hh Hok].
    destruct i as [|i]; cbn in Hi.
    + inversion Hi; subst. rewrite Hd in Hh. destruct j as [|j]; [lia|]. cbn in Hj.
      apply negb_true_iff in Hh. intro Heq.
      assert (existsb (fun g0 => ftyp g0 =? ftyp f) fs = true).
      { apply existsb_exists. exists g. split; [eapply nth_error_In; eauto|apply N.eqb_eq; exact Heq]. }
      congruence.
    + destruct j as [|j]; [lia|]. cbn in Hj. eapply IH; eauto. lia.
Qed.

Lemma find_field_data m nm i f :
  model_wf nm m = true -> nth_error (flds m) i = Some f -> kind_is_data (fk f) = true ->
  find_field (ftyp f) 0 (flds m) = Some (i, f).
Proof.
  intros Hwf Hi Hd. unfold model_wf in Hwf.
  apply andb_true_iff in Hwf as [Hwf Href]. apply andb_true_iff in Hwf as [Hwf Htok].
  apply andb_true_iff in Hwf as [Hfw _].
  assert (Hfld : forall j g, nth_error (flds m) j = Some g ->
            if kind_is_data (fk g) then typ_ok (ftyp g) = true else ftyp g = 0).
  { intros j g Hg. rewrite forallb_forall in Hfw. specialize (Hfw g (nth_error_In _ _ Hg)).
    unfold field_wf in Hfw. apply andb_true_iff in Hfw as [_ Hfw].
    destruct (kind_is_data (fk g)); [exact Hfw|apply N.eqb_eq; exact Hfw]. }
  assert (H0 : ftyp f <> 0).
  { specialize (Hfld i f Hi). rewrite Hd in Hfld. unfold typ_ok in Hfld. lia. }
  change i with (0 + i)%nat. apply find_field_spec; auto.
  intros j g Hj Hg. specialize (Hfld j g Hg). destruct (kind_is_data (fk g)) eqn:Eg.
  - intro Heq. symmetry in Heq. revert Heq. eapply types_ok_later; eauto.
  - congruence.
Qed.

(* ---- parse-state projections under the setters ---- *)
Lemma p_vals_set_hand i s : p_vals (set_hand i s) = p_vals s. Proof. reflexivity. Qed.
Lemma p_vals_set_ctx i z s : p_vals (set_ctx i z s) = p_vals s. Proof. reflexivity. Qed.
Lemma p_vals_set_cov i b s : p_vals (set_cov i b s) = p_vals s. Proof. reflexivity. Qed.
Lemma p_vals_set_val i v s : p_vals (set_val i v s) = upd i v (p_vals s). Proof. reflexivity. Qed.
Lemma p_hand_set_val i v s : p_hand (set_val i v s) = p_hand s. Proof. reflexivity. Qed.
Lemma p_hand_set_ctx i z s : p_hand (set_ctx i z s) = p_hand s. Proof. reflexivity. Qed.
Lemma p_hand_set_cov i b s : p_hand (set_cov i b s) = p_hand s. Proof. reflexivity. Qed.
Lemma p_hand_set_hand i s : p_hand (set_hand i s) = upd i true (p_hand s). Proof. reflexivity. Qed.

(* handled flags only ever go from false to true *)
Definition hand_le (a b : list bool) : Prop :=
  length a = length b /\ forall j, nth j a false = true -> nth j b false = true.

Lemma hand_le_refl a : hand_le a a.
Proof. split; auto. Qed.
Lemma hand_le_trans a b c : hand_le a b -> hand_le b c -> hand_le a c.
Proof. intros [H1 H2] [H3 H4]. split; [congruence|auto]. Qed.
Lemma hand_le_upd a i : hand_le a (upd i true a).
Proof.
  split; [symmetry; apply upd_length|]. intros j H.
  destruct (Nat.eq_dec i j) as [->|Hne].
  - destruct (Nat.lt_ge_cases j (length a)) as [Hlt|Hge].
    + apply nth_upd_same. exact Hlt.
    + rewrite nth_overflow in H by exact Hge. discriminate.
  - rewrite nth_upd_other by exact Hne. exact H.
Qed.
