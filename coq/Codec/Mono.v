(* Codec/Mono.v — more nesting fuel never changes a result that is not the fuel error: together with Total.v
   (depth = input length + 1 never yields the fuel error) the explicit depth of the round-trip theorems can be
   replaced by `decode`'s own depth. Generic in the reader. *)
From Codec Require Import Schema Readers Model.
From Coq Require Import ZifyBool ZifyN ZifyNat.
Open Scope N_scope.

Definition nofuel {A} (x : res A) : Prop := x <> Err E_FUEL.
Definition nofuel_r {R A} (x : rres R A) : Prop := forall r, x <> RErr E_FUEL r.

Section Mono.
  Variable R : Type.
  Variable r_pos : R -> res Z.
  Variable r_len : R -> Z.
  Variable r_readbyte : R -> rres R byte.
  Variable r_readn : R -> N -> rres R bytes.
  Variable r_readbuf : R -> Z -> rres R bytes.
  Variable r_readwire : R -> Z -> rres R bytes.
  Variable r_skip : R -> Z -> rres R unit.
  Variable r_range : R -> Z -> Z -> res (option bytes).
  Variable r_delegate : R -> Z -> res (R * R).

  Notation g_rd_val := (rd_val R r_pos r_len r_readbyte r_readn r_readbuf r_readwire r_skip r_range r_delegate).
  Notation g_rd_field := (rd_field R r_pos r_len r_readbyte r_readn r_readbuf r_readwire r_skip r_range r_delegate).
  Notation g_oloop := (oloop R r_pos r_len r_readbyte r_readn r_readbuf r_readwire r_skip r_range r_delegate).
  Notation g_ustep := (ustep R r_pos r_len r_readbyte r_readn r_readbuf r_readwire r_skip r_range r_delegate).
  Notation g_pstep := (pstep R r_pos r_len r_readbyte r_readn r_readbuf r_readwire r_skip r_range r_delegate).
  Notation g_ploop := (ploop R r_pos r_len r_readbyte r_readn r_readbuf r_readwire r_skip r_range r_delegate).
  Notation g_parse := (parse R r_pos r_len r_readbyte r_readn r_readbuf r_readwire r_skip r_range r_delegate).

  Variables sub1 sub2 : nat -> bool -> R -> res parse_out.
  Hypothesis Hsub : forall m ic r, nofuel (sub1 m ic r) -> sub2 m ic r = sub1 m ic r.

  Lemma mono_rd_val ic k l r : nofuel_r (g_rd_val sub1 ic k l r) -> g_rd_val sub2 ic k l r = g_rd_val sub1 ic k l r.
  Proof.
    intros H. destruct k; try reflexivity. cbn [rd_val] in *.
    destruct (r_delegate r (to_int l)) as [[sr r']|e|w]; try reflexivity.
    rewrite Hsub; [reflexivity|]. intro E. rewrite E in H. apply (H r'). reflexivity.
  Qed.

  (* if a composite result is not the fuel error, neither is the intermediate result it propagates *)
  Ltac via_val ic k l r H :=
    rewrite (mono_rd_val ic k l r);
    [| intros r0 E0; rewrite E0 in H; apply (H r0); reflexivity].

  Lemma mono_rd_field ic i k l sp s r : nofuel_r (g_rd_field sub1 ic i k l sp s r) ->
    g_rd_field sub2 ic i k l sp s r = g_rd_field sub1 ic i k l sp s r.
  Proof.
    intros H. destruct k; unfold rd_field in *;
      try reflexivity;
      try (match goal with |- context [g_rd_val sub2 ic ?kk l r] => via_val ic kk l r H; reflexivity end).
    (* KMap *)
    via_val ic k1 l r H.
    destruct (g_rd_val sub1 ic k1 l r) as [kv r1|e r1|w]; try reflexivity.
    destruct (rd_tlnum R r_readbyte r1) as [t2 ok1 r2|w]; try reflexivity.
    destruct (negb ok1); try reflexivity.
    destruct (rd_tlnum R r_readbyte r2) as [l2 ok2 r3|w]; try reflexivity.
    destruct (negb ok2); try reflexivity.
    destruct (negb (t2 =? vt)); try reflexivity.
    rewrite (mono_rd_val ic k2 l2 r3); [reflexivity|].
    intros r0 E0. rewrite E0 in H. apply (H r0). reflexivity.
  Qed.

  Lemma mono_oloop : forall k m ic t l sp s p r, nofuel_r (g_oloop sub1 k m ic t l sp s p r) ->
    g_oloop sub2 k m ic t l sp s p r = g_oloop sub1 k m ic t l sp s p r.
  Proof.
    induction k as [|k IH]; intros m ic t l sp s p r H; [reflexivity|].
    cbn [oloop] in *. destruct (p >=? Z.of_nat (length (flds m)))%Z; [reflexivity|].
    destruct (find_field t 0 (flds m)) as [[i f]|]; [|reflexivity].
    destruct (p + 1 =? Z.of_nat i)%Z.
    - rewrite mono_rd_field; [reflexivity|].
      intros r0 E0. rewrite E0 in H. apply (H r0). reflexivity.
    - destruct (nth_error (flds m) (Z.to_nat (p + 1))) as [g|]; [|apply IH; exact H].
      destruct (skip_proc R r_range (Z.to_nat (p + 1)) (fk g) sp (set_hand (Z.to_nat (p + 1)) s) r); try reflexivity.
      apply IH. exact H.
  Qed.

  Lemma mono_ustep m ic t l sp s r : nofuel_r (g_ustep sub1 m ic t l sp s r) ->
    g_ustep sub2 m ic t l sp s r = g_ustep sub1 m ic t l sp s r.
  Proof.
    intros H. unfold ustep in *. destruct (find_field t 0 (flds m)) as [[i f]|]; [|reflexivity].
    apply mono_rd_field. exact H.
  Qed.

  Lemma mono_pstep m ic sp s p r : nofuel_r (g_pstep sub1 m ic sp s p r) ->
    g_pstep sub2 m ic sp s p r = g_pstep sub1 m ic sp s p r.
  Proof.
    intros H. unfold pstep in *.
    destruct (rd_tlnum R r_readbyte r) as [t ok1 r1|w]; [|reflexivity].
    destruct (negb ok1); [reflexivity|].
    destruct (rd_tlnum R r_readbyte r1) as [l ok2 r2|w]; [|reflexivity].
    destruct (negb ok2); [reflexivity|].
    destruct (ordered m).
    - apply mono_oloop. exact H.
    - rewrite mono_ustep; [reflexivity|].
      intros r0 E0. rewrite E0 in H. apply (H r0). reflexivity.
  Qed.

  Lemma mono_ploop : forall k m ic s p r, nofuel (g_ploop sub1 k m ic s p r) ->
    g_ploop sub2 k m ic s p r = g_ploop sub1 k m ic s p r.
  Proof.
    induction k as [|k IH]; intros m ic s p r H; [reflexivity|].
    cbn [ploop] in *. destruct (r_pos r) as [sp|e|w]; try reflexivity.
    destruct (sp >=? r_len r)%Z; [reflexivity|].
    rewrite mono_pstep.
    - destruct (g_pstep sub1 m ic sp s p r) as [[s' p'] r'|e r'|w]; try reflexivity. apply IH. exact H.
    - intros r0 E0. rewrite E0 in H. apply H. reflexivity.
  Qed.
End Mono.

Section MonoParse.
  Variable R : Type.
  Variable r_pos : R -> res Z.
  Variable r_len : R -> Z.
  Variable r_readbyte : R -> rres R byte.
  Variable r_readn : R -> N -> rres R bytes.
  Variable r_readbuf : R -> Z -> rres R bytes.
  Variable r_readwire : R -> Z -> rres R bytes.
  Variable r_skip : R -> Z -> rres R unit.
  Variable r_range : R -> Z -> Z -> res (option bytes).
  Variable r_delegate : R -> Z -> res (R * R).
  Notation g_parse := (parse R r_pos r_len r_readbyte r_readn r_readbuf r_readwire r_skip r_range r_delegate).

  Lemma mono_parse_S : forall d sc mi ic r, nofuel (g_parse d sc mi ic r) -> g_parse (S d) sc mi ic r = g_parse d sc mi ic r.
  Proof.
    induction d as [|d IH]; intros sc mi ic r H.
    - exfalso. apply H. reflexivity.
    - cbn [parse] in *. destruct (nth_error sc mi) as [m|]; [|reflexivity].
      destruct (r_pos r) as [p0|e|w]; try reflexivity.
      apply (mono_ploop R r_pos r_len r_readbyte r_readn r_readbuf r_readwire r_skip r_range r_delegate
               (g_parse d sc) (g_parse (S d) sc)).
      + intros m' ic' r' Hn. apply IH. exact Hn.
      + exact H.
  Qed.

  Lemma mono_parse : forall n d sc mi ic r, nofuel (g_parse d sc mi ic r) -> g_parse (n + d) sc mi ic r = g_parse d sc mi ic r.
  Proof.
    induction n as [|n IH]; intros d sc mi ic r H; [reflexivity|].
    cbn [plus]. rewrite mono_parse_S; [apply IH; exact H|]. rewrite IH by exact H. exact H.
  Qed.
End MonoParse.
