(* Codec/Theorems13.v — C13 theorems on the BufferReader instance of the generic parser. *)
From Codec Require Import Schema Readers Model Spec BrLemmas LeafLemmas StateLemmas FieldLemmas LoopLemmas Roundtrip.
From Coq Require Import ZifyBool ZifyN ZifyNat.
Open Scope N_scope.

Lemma schema_model_wf sc mi m : schema_wf sc = true -> nth_error sc mi = Some m -> model_wf (length sc) m = true.
Proof. intros H Hm. unfold schema_wf in H. rewrite forallb_forall in H. apply H. eapply nth_error_In; eauto. Qed.

Lemma init_inv m vs : length vs = length (flds m) -> inv m vs 0 (init_pst m) (-1)%Z.
Proof.
  intros Hl. constructor.
  - reflexivity.
  - intros j g Hj. lia.
  - lia.
  - intros _ j g Hj. lia.
  - unfold init_pst. cbn [p_hand]. apply map_length.
Qed.

(* one nesting level: given the round trip of the nested levels (Hsub), model mi parses any interleaving of its
   elements with unrecognised (skippable) elements back to the value *)
Lemma bparse_mixed_level sc D :
  schema_wf sc = true ->
  (forall f2 mi vs ic, (S f2 <= D)%nat -> wf_value f2 sc mi vs = true -> small (encode f2 sc mi vs) ->
     exists cx cv, bparse D sc mi ic (br_of (encode f2 sc mi vs)) = Ok (vs, cx, cv)) ->
  forall mi m ic c f vs x, nth_error sc mi = Some m -> (S f <= D)%nat ->
  wf_value (S f) sc mi vs = true -> small (encode (S f) sc mi vs) ->
  mixed m ic c (elems_fields f sc (flds m) vs) x ->
  if c then bparse (S D) sc mi ic (br_of x) = Err E_CRITICAL
  else exists cx cv, bparse (S D) sc mi ic (br_of x) = Ok (vs, cx, cv).
Proof.
  intros Hsc Hsub mi m ic c f vs x Hm Hf Hw Hs Hmix.
  rewrite bparse_S, Hm. unfold wf_value in Hw. rewrite Hm in Hw.
  unfold encode, the_model in Hs. rewrite (nth_error_nth' sc mi m _ Hm) in Hs.
  unfold br_of.
  apply (fields_loop sc D D Hsub m (length sc) (schema_model_wf sc mi m Hsc Hm) ic f Hf vs Hw Hs c
           (length (flds m)) 0%nat); try lia.
  - apply init_inv. symmetry. eapply all2_length; eauto.
  - exact Hmix.
  - rewrite br_len_mk, br_pos_mk. cbn [length]. lia.
Qed.

Lemma wf_value_0 sc mi vs : wf_value 0 sc mi vs = true -> exists m, nth_error sc mi = Some m /\ flds m = [] /\ vs = [].
Proof.
  unfold wf_value. destruct (nth_error sc mi) as [m|]; [|discriminate]. intros H. exists m. split; [reflexivity|].
  destruct (flds m) as [|g fs]; destruct vs as [|v vs]; try discriminate H; auto.
Qed.

(* all nesting levels *)
Theorem bparse_roundtrip sc : schema_wf sc = true ->
  forall D f mi vs ic, (f <= D)%nat -> wf_value f sc mi vs = true -> small (encode f sc mi vs) ->
  exists cx cv, bparse (S D) sc mi ic (br_of (encode f sc mi vs)) = Ok (vs, cx, cv).
Proof.
  intros Hsc. induction D as [|D IH]; intros f mi vs ic Hf Hw Hs.
  - assert (f = 0)%nat by lia. subst f.
    destruct (wf_value_0 sc mi vs Hw) as [m [Hm [Hfl ->]]].
    rewrite bparse_S, Hm. unfold encode, the_model. rewrite (nth_error_nth' sc mi m _ Hm), Hfl. cbn.
    unfold init_pst. rewrite Hfl. cbn. eauto.
  - destruct f as [|f].
    + destruct (wf_value_0 sc mi vs Hw) as [m [Hm [Hfl ->]]].
      rewrite bparse_S, Hm. unfold encode, the_model. rewrite (nth_error_nth' sc mi m _ Hm), Hfl. cbn.
      unfold init_pst. rewrite Hfl. cbn. eauto.
    + assert (Hm : exists m, nth_error sc mi = Some m).
      { unfold wf_value in Hw. destruct (nth_error sc mi) as [m|]; [eauto|discriminate]. }
      destruct Hm as [m Hm].
      apply (bparse_mixed_level sc (S D) Hsc) with (m := m) (c := false) (f := f); auto.
      * intros f2 mi2 vs2 ic2 Hf2 Hw2 Hs2. apply IH; auto. lia.
      * unfold encode, the_model. rewrite (nth_error_nth' sc mi m _ Hm).
        unfold wf_value in Hw. rewrite Hm in Hw.
        rewrite <- (concat_elems_fields f sc (flds m) vs Hw). apply mixed_concat.
Qed.

(* the elements of a top-level encoding *)
Definition elements (f : nat) (sc : schema) (mi : nat) (vs : list value) : list bytes :=
  elems_fields f sc (flds (the_model sc mi)) vs.

Lemma concat_elements f sc mi vs : wf_value (S f) sc mi vs = true -> concat (elements f sc mi vs) = encode (S f) sc mi vs.
Proof.
  intros Hw. unfold wf_value in Hw. destruct (nth_error sc mi) as [m|] eqn:Hm; [|discriminate].
  unfold elements, encode, the_model. rewrite (nth_error_nth' sc mi m _ Hm). apply concat_elems_fields. exact Hw.
Qed.

Lemma mixed_insert m ic es1 es2 u : unk m ic false u -> mixed m ic false (es1 ++ es2) (concat es1 ++ u ++ concat es2).
Proof.
  intros Hu. induction es1 as [|e es1 IH]; cbn [app concat].
  - destruct es2 as [|e es2]; cbn [concat].
    + rewrite app_nil_r. apply mixed_nil. exact Hu.
    + apply mixed_cons; [exact Hu|apply mixed_concat].
  - rewrite <- app_assoc. apply (mixed_cons m ic false [] e (es1 ++ es2)); [constructor; reflexivity|exact IH].
Qed.

Lemma mixed_insert_crit m ic es1 es2 u : unk m ic true u -> mixed m ic true (es1 ++ es2) (concat es1 ++ u).
Proof.
  intros Hu. induction es1 as [|e es1 IH]; cbn [app concat].
  - apply mixed_stop; [reflexivity|exact Hu].
  - rewrite <- app_assoc. apply (mixed_cons m ic true [] e (es1 ++ es2)); [constructor; reflexivity|exact IH].
Qed.

(* an unrecognised element (type number not a field of the model; non-critical, or the caller asked to ignore
   critical ones) inserted between any two elements of a valid encoding is skipped and every field decodes unchanged *)
Theorem bparse_unknown_skipped sc : schema_wf sc = true ->
  forall D f mi vs ic es1 es2 t pl, (S f <= D)%nat -> wf_value (S f) sc mi vs = true -> small (encode (S f) sc mi vs) ->
  elements f sc mi vs = es1 ++ es2 ->
  find_field t 0 (flds (the_model sc mi)) = None -> (ic = true \/ critical t = false) -> t < two64 -> small pl ->
  exists cx cv, bparse (S D) sc mi ic (br_of (concat es1 ++ tlv t pl ++ concat es2)) = Ok (vs, cx, cv).
Proof.
  intros Hsc D f mi vs ic es1 es2 t pl Hf Hw Hs Hel Hnf Hc Ht Hpl.
  assert (Hm : exists m, nth_error sc mi = Some m).
  { unfold wf_value in Hw. destruct (nth_error sc mi) as [m|]; [eauto|discriminate]. }
  destruct Hm as [m Hm]. unfold elements, the_model in *. rewrite (nth_error_nth' sc mi m _ Hm) in *.
  apply (bparse_mixed_level sc D Hsc) with (m := m) (c := false) (f := f); auto.
  - intros f2 mi2 vs2 ic2 Hf2 Hw2 Hs2. destruct D as [|D]; [lia|]. apply bparse_roundtrip; auto. lia.
  - rewrite Hel. replace (tlv t pl ++ concat es2) with ((tlv t pl ++ []) ++ concat es2) by (rewrite app_nil_r; reflexivity).
    apply mixed_insert. apply unk_cons; [|exact Hpl|constructor; reflexivity]. unfold is_unk. auto.
Qed.

(* an unrecognised CRITICAL element (type number <= 31 or odd, no field of the model) at any element boundary makes the
   parser reject the input with ErrUnrecognizedField, unless the caller asked to ignore critical elements; whatever
   follows it (`junk`: its value and the rest of the encoding, or anything else) is irrelevant *)
Theorem bparse_unknown_critical_rejected sc : schema_wf sc = true ->
  forall D f mi vs es1 es2 t l junk, (S f <= D)%nat -> wf_value (S f) sc mi vs = true -> small (encode (S f) sc mi vs) ->
  elements f sc mi vs = es1 ++ es2 ->
  find_field t 0 (flds (the_model sc mi)) = None -> critical t = true -> t < two64 -> l < two64 ->
  bparse (S D) sc mi false (br_of (concat es1 ++ tl_enc t ++ tl_enc l ++ junk)) = Err E_CRITICAL.
Proof.
  intros Hsc D f mi vs es1 es2 t l junk Hf Hw Hs Hel Hnf Hc Ht Hl.
  assert (Hm : exists m, nth_error sc mi = Some m).
  { unfold wf_value in Hw. destruct (nth_error sc mi) as [m|]; [eauto|discriminate]. }
  destruct Hm as [m Hm]. unfold elements, the_model in *. rewrite (nth_error_nth' sc mi m _ Hm) in *.
  apply (bparse_mixed_level sc D Hsc) with (m := m) (c := true) (f := f) (vs := vs); auto.
  - intros f2 mi2 vs2 ic2 Hf2 Hw2 Hs2. destruct D as [|D]; [lia|]. apply bparse_roundtrip; auto. lia.
  - rewrite Hel. apply mixed_insert_crit. apply unk_crit; auto.
Qed.
