(* Codec/BrLemmas.v — facts about the BufferReader model and the primitive decoders over it. *)
From Codec Require Import Schema Readers Model Spec.
From Coq Require Import ZifyBool ZifyN ZifyNat.
Open Scope N_scope.

Notation b_pos := (fun r : br => Ok (br_pos r)).
Notation brd_tlnum := (rd_tlnum br br_readbyte).
Notation brd_be := (rd_be br br_readbyte).
Notation brd_nat := (rd_nat br b_pos br_len br_readbyte).
Notation brd_nat_loop := (rd_nat_loop br br_readbyte).

Lemma to_int_small l : l < two63 -> to_int l = Z.of_N l.
Proof.
  intros H. unfold to_int. unfold two63, two64 in *.
  rewrite N.mod_small by lia.
  destruct (l <? 9223372036854775808) eqn:E; [reflexivity|lia].
Qed.

Lemma br_adv_app x t p : br_adv (length x) (mkbr p (x ++ t)) = mkbr (rev x ++ p) t.
Proof.
  unfold br_adv; cbn [rest rpre].
  rewrite firstn_app, Nat.sub_diag, firstn_all, firstn_O, app_nil_r.
  rewrite skipn_app, Nat.sub_diag, skipn_all, skipn_O.
  rewrite rev_append_rev. reflexivity.
Qed.

Lemma firstn_app_exact {A} (x t : list A) : firstn (length x) (x ++ t) = x.
Proof. rewrite firstn_app, Nat.sub_diag, firstn_all, firstn_O, app_nil_r. reflexivity. Qed.

Lemma br_pos_mk p t : br_pos (mkbr p t) = Z.of_nat (length p).
Proof. reflexivity. Qed.
Lemma br_rem_mk p t : br_rem (mkbr p t) = Z.of_nat (length t).
Proof. reflexivity. Qed.
Lemma br_len_mk p t : br_len (mkbr p t) = Z.of_nat (length p + length t).
Proof. unfold br_len, br_pos, br_rem; cbn. lia. Qed.

Lemma b_readbyte x t p : br_readbyte (mkbr p (x :: t)) = ROk x (mkbr (x :: p) t).
Proof. reflexivity. Qed.

Lemma b_rd_be : forall x acc p t,
  brd_be (length x) acc (mkbr p (x ++ t)) = TL br (be_val_acc acc x) true (mkbr (rev x ++ p) t).
Proof.
  induction x as [|a x IH]; intros acc p t.
  - reflexivity.
  - cbn [length rd_be app]. rewrite b_readbyte. rewrite IH. cbn [be_val_acc rev].
    rewrite <- app_assoc. reflexivity.
Qed.

Lemma b_rd_tlnum_enc n p t : n < two64 ->
  brd_tlnum (mkbr p (tl_enc n ++ t)) = TL br n true (mkbr (rev (tl_enc n) ++ p) t).
Proof.
  intros Hn. unfold tl_enc, two64 in *.
  destruct (n <=? 252) eqn:E1.
  { cbn [app]. unfold rd_tlnum. rewrite b_readbyte. rewrite E1. reflexivity. }
  assert (Hgen : forall k tag, (tag =? 253) = Nat.eqb k 2 -> (tag =? 254) = Nat.eqb k 4 -> (tag <=? 252) = false ->
            (k = 2 \/ k = 4 \/ k = 8)%nat -> n < 256 ^ N.of_nat k ->
            brd_tlnum (mkbr p ((tag :: be k n) ++ t)) = TL br n true (mkbr (rev (tag :: be k n) ++ p) t)).
  { intros k tag H3 H4 H2 Hk Hlt. cbn [app]. unfold rd_tlnum. rewrite b_readbyte, H2, H3, H4.
    pose proof (b_rd_be (be k n) 0 (tag :: p) t) as Hb. rewrite be_length in Hb.
    fold (be_val (be k n)) in Hb. rewrite be_val_be in Hb by exact Hlt.
    cbn [rev]. rewrite <- app_assoc. cbn [app].
    destruct Hk as [-> | [-> | ->]]; cbn [Nat.eqb]; exact Hb. }
  destruct (n <=? 65535) eqn:E2.
  { apply (Hgen 2%nat 253); try reflexivity; [lia|]. change (256 ^ N.of_nat 2) with 65536. lia. }
  destruct (n <=? 4294967295) eqn:E3.
  { apply (Hgen 4%nat 254); try reflexivity; [lia|]. change (256 ^ N.of_nat 4) with 4294967296. lia. }
  apply (Hgen 8%nat 255); try reflexivity; [lia|]. change (256 ^ N.of_nat 8) with 18446744073709551616. lia.
Qed.

(* natural-number loops *)
Lemma be_val_acc_shift : forall l acc, be_val_acc acc l = acc * 256 ^ N.of_nat (length l) + be_val_acc 0 l.
Proof.
  induction l as [|b l IH]; intros acc; cbn [be_val_acc length].
  - change (N.of_nat 0) with 0. rewrite N.pow_0_r. lia.
  - rewrite IH. rewrite (IH (0 * 256 + b)). rewrite Nat2N.inj_succ, N.pow_succ_r'. lia.
Qed.

Lemma b_rd_nat_loop : forall x M acc p t, 0 < M ->
  brd_nat_loop (length x) M acc (mkbr p (x ++ t)) =
  ROk (fold_left (fun a b => (a * 256 + b) mod M) x acc) (mkbr (rev x ++ p) t).
Proof.
  induction x as [|a x IH]; intros M acc p t HM.
  - reflexivity.
  - cbn [length rd_nat_loop app]. rewrite b_readbyte. rewrite IH by exact HM. cbn [fold_left rev].
    rewrite <- app_assoc. reflexivity.
Qed.

Lemma fold_mod_be_val : forall x M acc, 0 < M ->
  fold_left (fun a b => (a * 256 + b) mod M) x acc mod M = be_val_acc acc x mod M.
Proof.
  induction x as [|b x IH]; intros M acc HM; cbn [fold_left be_val_acc].
  - reflexivity.
  - rewrite IH by exact HM.
    rewrite (be_val_acc_shift x ((acc * 256 + b) mod M)), (be_val_acc_shift x (acc * 256 + b)).
    rewrite N.add_mod by lia. rewrite N.mul_mod by lia. rewrite N.mod_mod by lia.
    rewrite <- N.mul_mod by lia. rewrite <- N.add_mod by lia. reflexivity.
Qed.

Lemma fold_mod_lt : forall x M acc, 0 < M -> acc < M -> fold_left (fun a b => (a * 256 + b) mod M) x acc < M.
Proof.
  induction x as [|b x IH]; intros M acc HM Ha; cbn [fold_left]; [exact Ha|].
  apply IH; [exact HM|]. apply N.mod_lt. lia.
Qed.

Lemma fold_mod_be k n M : 0 < M -> n < 256 ^ N.of_nat k -> n < M ->
  fold_left (fun a b => (a * 256 + b) mod M) (be k n) 0 = n.
Proof.
  intros HM Hk Hn.
  rewrite <- (N.mod_small (fold_left _ (be k n) 0) M) by (apply fold_mod_lt; lia).
  rewrite fold_mod_be_val by exact HM.
  fold (be_val (be k n)). rewrite be_val_be by exact Hk. apply N.mod_small. exact Hn.
Qed.

Lemma b_rd_nat_be k n M p t : (0 < k)%nat -> N.of_nat k < two63 -> 0 < M -> n < 256 ^ N.of_nat k -> n < M ->
  brd_nat M (N.of_nat k) (mkbr p (be k n ++ t)) = ROk n (mkbr (rev (be k n) ++ p) t).
Proof.
  intros Hk Hk63 HM Hlt HnM. unfold rd_nat.
  rewrite to_int_small by exact Hk63.
  destruct (Z.of_N (N.of_nat k) <=? 0)%Z eqn:E; [lia|].
  rewrite br_len_mk, br_pos_mk, app_length, be_length.
  replace (Z.to_nat (Z.min (Z.of_N (N.of_nat k)) (Z.max 0 (Z.of_nat (length p + (k + length t)) - Z.of_nat (length p)) + 1)))
    with (length (be k n)) by (rewrite be_length; lia).
  rewrite b_rd_nat_loop by exact HM. rewrite fold_mod_be by assumption. reflexivity.
Qed.
