(* Codec/Extract.v — extraction of the executable codec model for the correspondence runner.
   ExtrOcamlBasic only: bool, option, unit, list, prod, sumbool, sumor -> OCaml natives; N/Z/positive/nat stay Coq datatypes. *)
From Coq Require Import Extraction ExtrOcamlBasic.
From Codec Require Import Schema Readers Model Spec GenSchemas TotalWr Hand Alloc WirePlan.
Extraction Language OCaml.
Extraction "codec_model.ml"
  encode enc_len decode decode_wire wf_value schema_wf all_schemas n_models critical
  b_read_name w_read_name name_from_bytes comp_from_bytes parse_nat decode_alloc kcoef smax encode_wire wire_plan inc_of all_inc flat_fields
  read_packet_b read_packet_w read_data_b read_data_w read_interest_b read_interest_w ix_of_list spec2022_ix
  br_readbyte br_readn br_readbuf br_readwire br_skip br_range br_delegate br_pos br_len br_of
  pr_pos pr_len pr_readbyte pr_readn pr_readbuf pr_readwire pr_skip pr_range pr_delegate
  N.add N.mul N.of_nat N.to_nat N.eqb N.ltb N.div N.modulo Z.of_N Z.to_N Z.of_nat Z.to_nat Z.add Z.opp Z.ltb.
