(* Codec/Model.v — the generic, schema-interpreting TLV codec: executable model of the code emitted by
   std/encoding/codegen (model.go GenInitEncoder/GenEncodeInto/GenReadFrom and the per-field templates of
   fields_*.go, map_field.go, signature.go, markers.go), after the fix commits listed in docs/C13.md, docs/C04.md.
   `encode`/`enc_len` mirror Init (length pass) and EncodeInto (bytes, joined over the wire plan);
   `parse` mirrors the generated Parse function over an abstract ParseReader (Section variables), instantiated
   below for BufferReader (bparse) and for ParseReader = BufferReader | WireReader (wparse).  No proofs here. *)
From Codec Require Export Readers.
Open Scope N_scope.

(* ================================================================================================ *)
(* Encoder *)

Definition tlv (t : N) (payload : bytes) : bytes :=
  tl_enc t ++ tl_enc (N.of_nat (length payload)) ++ payload.

Definition comp_enc (c : comp) : bytes := tlv (ctyp c) (cval c).
Definition name_inner (n : name) : bytes := concat (map comp_enc n).

(* uint64(d / time.Millisecond) for d : int64 given as its uint64 bit pattern (signed division truncates to zero) *)
Definition dur_ms (d : N) : N :=
  if d <? two63 then d / 1000000 else (two64 - ((two64 - d) / 1000000)) mod two64.

(* InterestNameField.GenInitEncoder with needDigest = false: a trailing ParametersSha256Digest component is dropped *)
Definition strip_digest (n : name) : name :=
  match rev n with
  | c :: r => if ctyp c =? 2 then rev r else n
  | [] => n
  end.

Fixpoint zipf {A B} (f : A -> B -> bytes) (a : list A) (b : list B) : bytes :=
  match a, b with
  | x :: a', y :: b' => f x y ++ zipf f a' b'
  | _, _ => []
  end.

(* enc_val fuel sc t k v : the TLV element(s) a field of kind k and type number t contributes for value v *)
Fixpoint enc_val (fuel : nat) (sc : schema) (t : N) (k : fkind) (v : value) : bytes :=
  match fuel with
  | O => []
  | S f =>
    match k, v with
    | KNat _, VNat n => tl_enc t ++ [N.of_nat (nat_len n)] ++ nat_enc n
    | KFixed w _, VNat n => tl_enc t ++ [N.of_nat w] ++ be w n
    | KTime _, VNat d => tl_enc t ++ [N.of_nat (nat_len (dur_ms d))] ++ nat_enc (dur_ms d)
    | KBin, VBytes b => tlv t b
    | KStr _, VBytes b => tlv t b
    | KWire, VBytes b => tlv t b
    | KSig _ _, VBytes b => match b with [] => [] | _ => tlv t b end   (* estLen = 0: not encoded *)
    | KName, VName n => tlv t (name_inner n)
    | KIntName _, VName n => tlv t (name_inner (strip_digest n))
    | KBool, VBool true => tl_enc t ++ [0]
    | KStruct m, VStruct fs =>
        tlv t (zipf (fun g x => enc_val f sc (ftyp g) (fk g) x) (flds (nth m sc (mkm false false []))) fs)
    | KSeq sub, VSeq l => concat (map (enc_val f sc t sub) l)
    | KMap key vt val, VMap l =>
        concat (map (fun kv => enc_val f sc t key (fst kv) ++ enc_val f sc vt val (snd kv)) l)
    | _, _ => []
    end
  end.

Definition enc_fields (fuel : nat) (sc : schema) (fs : list field) (vs : list value) : bytes :=
  zipf (fun g x => enc_val fuel sc (ftyp g) (fk g) x) fs vs.

Definition the_model (sc : schema) (mi : nat) : model := nth mi sc (mkm false false []).

(* Encode(): the joined wire of model mi for field values vs *)
Definition encode (fuel : nat) (sc : schema) (mi : nat) (vs : list value) : bytes :=
  enc_fields fuel sc (flds (the_model sc mi)) vs.

(* ---- the length pass (GenEncodingLength): what encoder.length announces ---- *)
Definition tlv_len (t : N) (n : N) : N := N.of_nat (tl_len t) + N.of_nat (tl_len n) + n.

Fixpoint sumf {A B} (f : A -> B -> N) (a : list A) (b : list B) : N :=
  match a, b with
  | x :: a', y :: b' => f x y + sumf f a' b'
  | _, _ => 0
  end.

Fixpoint len_val (fuel : nat) (sc : schema) (t : N) (k : fkind) (v : value) : N :=
  match fuel with
  | O => 0
  | S f =>
    match k, v with
    | KNat _, VNat n => N.of_nat (tl_len t) + 1 + N.of_nat (nat_len n)
    | KFixed w _, VNat n => N.of_nat (tl_len t) + 1 + N.of_nat w
    | KTime _, VNat d => N.of_nat (tl_len t) + 1 + N.of_nat (nat_len (dur_ms d))
    | KBin, VBytes b => tlv_len t (N.of_nat (length b))
    | KStr _, VBytes b => tlv_len t (N.of_nat (length b))
    | KWire, VBytes b => tlv_len t (N.of_nat (length b))
    | KSig _ _, VBytes b => match b with [] => 0 | _ => tlv_len t (N.of_nat (length b)) end
    | KName, VName n => tlv_len t (fold_right (fun c a => tlv_len (ctyp c) (N.of_nat (length (cval c))) + a) 0 n)
    | KIntName _, VName n =>
        tlv_len t (fold_right (fun c a => tlv_len (ctyp c) (N.of_nat (length (cval c))) + a) 0 (strip_digest n))
    | KBool, VBool true => N.of_nat (tl_len t) + 1
    | KStruct m, VStruct fs =>
        tlv_len t (sumf (fun g x => len_val f sc (ftyp g) (fk g) x) (flds (the_model sc m)) fs)
    | KSeq sub, VSeq l => fold_right (fun x a => len_val f sc t sub x + a) 0 l
    | KMap key vt val, VMap l =>
        fold_right (fun kv a => len_val f sc t key (fst kv) + len_val f sc vt val (snd kv) + a) 0 l
    | _, _ => 0
    end
  end.

Definition enc_len (fuel : nat) (sc : schema) (mi : nat) (vs : list value) : N :=
  sumf (fun g x => len_val fuel sc (ftyp g) (fk g) x) (flds (the_model sc mi)) vs.

(* ================================================================================================ *)
(* Decoder, generic in the reader *)

Fixpoint upd {A} (i : nat) (x : A) (l : list A) : list A :=
  match l, i with
  | [], _ => []
  | _ :: t, O => x :: t
  | h :: t, S i' => h :: upd i' x t
  end.

Definition value_eqb_key (a b : value) : bool :=
  match a, b with
  | VNat x, VNat y => x =? y
  | VBytes x, VBytes y => bytes_eqb x y
  | _, _ => false
  end.

(* value.M[k] = v *)
Fixpoint map_put (k v : value) (l : list (value * value)) : list (value * value) :=
  match l with
  | [] => [(k, v)]
  | (k', v') :: t => if value_eqb_key k k' then (k, v) :: t else (k', v') :: map_put k v t
  end.

Definition zero_of (k : fkind) : value :=
  match k with
  | KNat false | KFixed _ false | KTime false => VNat 0
  | KStr false => VBytes []
  | KBool => VBool false
  | KSeq _ => VSeq []
  | KMap _ _ _ => VMap []
  | KOffset | KRange _ _ | KArg => VUnit
  | _ => VNone
  end.

Definition is_rep (k : fkind) : bool := match k with KSeq _ | KMap _ _ _ => true | _ => false end.

(* parse state: the struct under construction, the handled_X flags, the parsing context (marker offsets by field
   position, covered-bytes arguments by field position) *)
Record pst := mkp { p_vals : list value; p_hand : list bool; p_ctx : list Z; p_cov : list bytes }.

Definition init_pst (m : model) : pst :=
  mkp (map (fun f => zero_of (fk f)) (flds m)) (map (fun _ => false) (flds m))
      (map (fun _ => 0%Z) (flds m)) (map (fun _ => []) (flds m)).

Definition set_val (i : nat) (v : value) (s : pst) : pst := mkp (upd i v (p_vals s)) (p_hand s) (p_ctx s) (p_cov s).
Definition set_hand (i : nat) (s : pst) : pst := mkp (p_vals s) (upd i true (p_hand s)) (p_ctx s) (p_cov s).
Definition set_ctx (i : nat) (z : Z) (s : pst) : pst := mkp (p_vals s) (p_hand s) (upd i z (p_ctx s)) (p_cov s).
Definition set_cov (i : nat) (b : bytes) (s : pst) : pst := mkp (p_vals s) (p_hand s) (p_ctx s) (upd i b (p_cov s)).
Definition get_ctx (i : nat) (s : pst) : Z := nth i (p_ctx s) 0%Z.
Definition get_cov (i : nat) (s : pst) : bytes := nth i (p_cov s) [].
Definition get_val (i : nat) (s : pst) : value := nth i (p_vals s) VNone.

(* first field whose case label matches: fields with type number 0 have no case *)
Fixpoint find_field (t : N) (i : nat) (fs : list field) : option (nat * field) :=
  match fs with
  | [] => None
  | f :: r => if (ftyp f =? t) && negb (ftyp f =? 0) then Some (i, f) else find_field t (S i) r
  end.

Definition opt_bytes (o : option bytes) : bytes := match o with Some b => b | None => [] end.

Section Decoder.
  Variable R : Type.
  Variable r_pos : R -> res Z.
  Variable r_len : R -> Z.
  Variable r_readbyte : R -> rres R byte.
  Variable r_readn : R -> N -> rres R bytes.
  Variable r_readbuf : R -> Z -> rres R bytes.
  Variable r_readwire : R -> Z -> rres R bytes.
  Variable r_skip : R -> Z -> rres R unit.
  Variable r_range : R -> Z -> Z -> res (option bytes).
  Variable r_delegate : R -> Z -> res (R * R).

  (* enc.ReadTLNum: value (partial on error), success flag, reader *)
  Inductive tlr := TL (v : N) (ok : bool) (r : R) | TLPanic (w : N).

  Fixpoint rd_be (k : nat) (acc : N) (r : R) : tlr :=
    match k with
    | O => TL acc true r
    | S k' =>
      match r_readbyte r with
      | ROk x r' => rd_be k' (acc * 256 + x) r'
      | RErr _ r' => TL acc false r'
      | RPanic w => TLPanic w
      end
    end.

  Definition rd_tlnum (r : R) : tlr :=
    match r_readbyte r with
    | ROk x r' =>
      if x <=? 252 then TL x true r'
      else if x =? 253 then rd_be 2 0 r'
      else if x =? 254 then rd_be 4 0 r'
      else rd_be 8 0 r'
    | RErr _ r' => TL 0 false r'
    | RPanic w => TLPanic w
    end.

  (* GenNaturalNumberDecode / fixed-width decode: `for i := 0; i < int(l); i++ { x, err = ReadByte(); ... }`
     with the accumulator truncated to the Go type (modulus).  The Go loop stops at the first error, which comes
     after at most Length()-Pos() bytes, so the iteration count is capped there (keeps the model executable for
     lengths like 2^62). *)
  Fixpoint rd_nat_loop (k : nat) (modulus : N) (acc : N) (r : R) : rres R N :=
    match k with
    | O => ROk acc r
    | S k' =>
      match r_readbyte r with
      | ROk x r' => rd_nat_loop k' modulus ((acc * 256 + x) mod modulus) r'
      | RErr _ r' => RErr E_EOF r'
      | RPanic w => RPanic w
      end
    end.

  Definition rd_nat (modulus : N) (l : N) (r : R) : rres R N :=
    let n := to_int l in
    if (n <=? 0)%Z then ROk 0 r
    else match r_pos r with
         | Ok p => rd_nat_loop (Z.to_nat (Z.min n (Z.max 0 (r_len r - p) + 1))) modulus 0 r
         | Err e => RErr e r
         | Panic w => RPanic w
         end.

  (* name component loop of NameField.GenReadFrom *)
  Fixpoint rd_comps (k : nat) (endp : Z) (r : R) (acc : name) : rres R name :=
    match k with
    | O => ROk (rev acc) r
    | S k' =>
      match r_pos r with
      | Panic w => RPanic w
      | Err e => RErr e r
      | Ok p =>
        if (p >=? endp)%Z then ROk (rev acc) r
        else
          match rd_tlnum r with
          | TLPanic w => RPanic w
          | TL t ok1 r1 =>
            match rd_tlnum r1 with
            | TLPanic w => RPanic w
            | TL l2 ok2 r2 =>
              match r_readbuf r2 (to_int l2) with
              | RPanic w => RPanic w
              | RErr _ r3 => RErr E_EOF r3
              | ROk v r3 => if ok1 && ok2 then rd_comps k' endp r3 (mkc t v :: acc) else RErr E_EOF r3
              end
            end
          end
      end
    end.

  (* InterestNameField: also tracks sigCoverEnd = start of the last ParametersSha256Digest component *)
  Fixpoint rd_icomps (k : nat) (endp : Z) (cov_end : Z) (r : R) (acc : name) : rres R (name * Z) :=
    match k with
    | O => ROk (rev acc, cov_end) r
    | S k' =>
      match r_pos r with
      | Panic w => RPanic w
      | Err e => RErr e r
      | Ok p =>
        if (p >=? endp)%Z then ROk (rev acc, cov_end) r
        else
          match rd_tlnum r with
          | TLPanic w => RPanic w
          | TL t ok1 r1 =>
            match rd_tlnum r1 with
            | TLPanic w => RPanic w
            | TL l2 ok2 r2 =>
              match r_readbuf r2 (to_int l2) with
              | RPanic w => RPanic w
              | RErr _ r3 => RErr E_EOF r3
              | ROk v r3 =>
                if ok1 && ok2 then rd_icomps k' endp (if t =? 2 then p else cov_end) r3 (mkc t v :: acc)
                else RErr E_EOF r3
              end
            end
          end
      end
    end.

  (* the guard added by fix 2301471: rem := Length()-Pos(); rem < 0 || l > TLNum(rem) *)
  Definition len_guard (l : N) (r : R) : res bool :=
    match r_pos r with
    | Ok p => let rem := (r_len r - p)%Z in Ok ((rem <? 0)%Z || (Z.of_N l >? rem)%Z)
    | Err e => Err e
    | Panic w => Panic w
    end.

  Definition rd_name (l : N) (r : R) : rres R value :=
    match len_guard l r, r_pos r with
    | Ok true, _ => RErr E_EOF r
    | Ok false, Ok start =>
      let endp := (start + to_int l)%Z in
      match rd_comps (N.to_nat (l / 2 + 1)) endp r [] with
      | ROk n r' =>
        match r_pos r' with
        | Ok p' => if (p' =? endp)%Z then ROk (VName n) r' else RErr E_OVERFLOW r'
        | Err e => RErr e r'
        | Panic w => RPanic w
        end
      | RErr e r' => RErr e r'
      | RPanic w => RPanic w
      end
    | Panic w, _ => RPanic w
    | _, Panic w => RPanic w
    | Err e, _ => RErr e r
    | _, Err e => RErr e r
    end.

  Definition dur_of_ms (ms : N) : N := (ms * 1000000) mod two64.   (* time.Duration(ms) * time.Millisecond *)

  (* values of the leaf kinds; structs are handled by the caller (recursion) *)
  Definition rd_leaf (k : fkind) (l : N) (r : R) : rres R value :=
    match k with
    | KNat _ => match rd_nat two64 l r with ROk n r' => ROk (VNat n) r' | RErr e r' => RErr e r' | RPanic w => RPanic w end
    | KTime _ => match rd_nat two64 l r with ROk n r' => ROk (VNat (dur_of_ms n)) r' | RErr e r' => RErr e r' | RPanic w => RPanic w end
    | KFixed 1 false =>
        match r_readbyte r with ROk x r' => ROk (VNat x) r' | RErr _ r' => RErr E_EOF r' | RPanic w => RPanic w end
    | KFixed 1 true =>
        (* err = Skip(1); if err == nil { &Range(Pos()-1, Pos())[0][0] } *)
        match r_skip r 1 with
        | RPanic w => RPanic w
        | RErr _ r' => RErr E_EOF r'
        | ROk _ r' =>
          match r_pos r' with
          | Panic w => RPanic w
          | Err e => RErr e r'
          | Ok p =>
            match r_range r' (p - 1) p with
            | Panic w => RPanic w
            | Err e => RErr e r'
            | Ok (Some (x :: _)) => ROk (VNat x) r'
            | Ok _ => RPanic P_INDEX
            end
          end
        end
    | KFixed w _ =>
        match rd_nat (256 ^ N.of_nat w) l r with ROk n r' => ROk (VNat n) r' | RErr e r' => RErr e r' | RPanic y => RPanic y end
    | KBin =>
        match len_guard l r with
        | Ok true => RErr E_EOF r
        | Ok false => match r_readn r l with ROk b r' => ROk (VBytes b) r' | RErr e r' => RErr e r' | RPanic w => RPanic w end
        | Err e => RErr e r
        | Panic w => RPanic w
        end
    | KStr _ =>
        (* io.CopyN(&builder, reader, int64(l)): n <= 0 copies nothing and reports no error *)
        if (to_int l <=? 0)%Z then ROk (VBytes []) r
        else match r_readn r l with ROk b r' => ROk (VBytes b) r' | RErr e r' => RErr e r' | RPanic w => RPanic w end
    | KWire | KSig _ _ =>
        match r_readwire r (to_int l) with ROk b r' => ROk (VBytes b) r' | RErr e r' => RErr e r' | RPanic w => RPanic w end
    | KName => rd_name l r
    | KBool => ROk (VBool true) r
    | _ => ROk VNone r
    end.

  (* GenSkipProcess of field i at position sp *)
  Definition skip_proc (i : nat) (k : fkind) (sp : Z) (s : pst) (r : R) : res pst :=
    match k with
    | KNat false | KFixed _ false | KTime false | KStr false => Err E_REQUIRED
    | KNat true | KFixed _ true | KTime true | KStr true
    | KBin | KWire | KName | KStruct _ | KSig _ _ | KIntName _ => Ok (set_val i VNone s)
    | KBool => Ok (set_val i (VBool false) s)
    | KSeq _ | KMap _ _ _ | KArg => Ok s
    | KOffset => Ok (set_ctx i sp s)
    | KRange st c =>
        let s1 := set_ctx i sp s in
        match r_range r (get_ctx st s1) sp with
        | Ok o => Ok (set_cov c (opt_bytes o) s1)
        | Err e => Err e
        | Panic w => Panic w
        end
    end.

  Definition parse_out := (list value * list Z * list bytes)%type.

  (* final pass: `if !handled_X && err == nil { skip process }` for every field in order *)
  Fixpoint finish (i : nat) (fs : list field) (sp : Z) (s : pst) (r : R) : res pst :=
    match fs with
    | [] => Ok s
    | f :: fs' =>
      if nth i (p_hand s) false then finish (S i) fs' sp s r
      else match skip_proc i (fk f) sp s r with
           | Ok s' => finish (S i) fs' sp s' r
           | Err e => Err e
           | Panic w => Panic w
           end
    end.

  Section WithSub.
    (* parser of nested models (one nesting level less fuel) *)
    Variable sub_parse : nat -> bool -> R -> res parse_out.

    Definition rd_val (ic : bool) (k : fkind) (l : N) (r : R) : rres R value :=
      match k with
      | KStruct m =>
        match r_delegate r (to_int l) with
        | Ok (sr, r') =>
          match sub_parse m ic sr with
          | Ok (vs, _, _) => ROk (VStruct vs) r'
          | Err e => RErr e r'
          | Panic w => RPanic w
          end
        | Err e => RErr e r
        | Panic w => RPanic w
        end
      | _ => rd_leaf k l r
      end.

    (* GenReadFrom of field i (kind k) for an element with length l starting at sp *)
    Definition rd_field (ic : bool) (i : nat) (k : fkind) (l : N) (sp : Z) (s0 : pst) (r : R) : rres R pst :=
      let s := set_hand i s0 in
      match k with
      | KSeq sub =>
        match rd_val ic sub l r with
        | ROk v r' =>
          let old := match get_val i s with VSeq x => x | _ => [] end in
          ROk (set_val i (VSeq (old ++ [v])) s) r'
        | RErr e r' => RErr e r'
        | RPanic w => RPanic w
        end
      | KMap key vt val =>
        match rd_val ic key l r with
        | RPanic w => RPanic w
        | RErr e r' => RErr e r'
        | ROk kv r1 =>
          match rd_tlnum r1 with
          | TLPanic w => RPanic w
          | TL t2 ok1 r2 =>
            if negb ok1 then RErr E_EOF r2 else
            match rd_tlnum r2 with
            | TLPanic w => RPanic w
            | TL l2 ok2 r3 =>
              if negb ok2 then RErr E_EOF r3
              else if negb (t2 =? vt) then RErr E_MAPVAL r3
              else match rd_val ic val l2 r3 with
                   | ROk vv r4 =>
                     let old := match get_val i s with VMap x => x | _ => [] end in
                     ROk (set_val i (VMap (map_put kv vv old)) s) r4
                   | RErr e r4 => RErr e r4
                   | RPanic w => RPanic w
                   end
            end
          end
        end
      | KSig st c =>
        match rd_leaf k l r with
        | ROk v r' =>
          match r_range r' (get_ctx st s) sp with
          | Ok o => ROk (set_cov c (get_cov c s ++ opt_bytes o) (set_val i v s)) r'
          | Err e => RErr e r'
          | Panic w => RPanic w
          end
        | RErr e r' => RErr e r'
        | RPanic w => RPanic w
        end
      | KIntName c =>
        match len_guard l r, r_pos r with
        | Ok true, _ => RErr E_EOF r
        | Ok false, Ok start =>
          let endp := (start + to_int l)%Z in
          match rd_icomps (N.to_nat (l / 2 + 1)) endp endp r [] with
          | ROk (n, cov_end) r' =>
            match r_pos r' with
            | Ok p' =>
              if (p' =? endp)%Z then
                match r_range r' start cov_end with
                | Ok o => ROk (set_cov c (get_cov c s ++ opt_bytes o) (set_val i (VName n) s)) r'
                | Err e => RErr e r'
                | Panic w => RPanic w
                end
              else RErr E_OVERFLOW r'
            | Err e => RErr e r'
            | Panic w => RPanic w
            end
          | RErr e r' => RErr e r'
          | RPanic w => RPanic w
          end
        | Panic w, _ => RPanic w
        | _, Panic w => RPanic w
        | Err e, _ => RErr e r
        | _, Err e => RErr e r
        end
      | KOffset | KRange _ _ | KArg =>
        (* markers have no case label (type number 0); if one had, its GenReadFrom is its skip process *)
        match skip_proc i k sp s r with Ok s' => ROk s' r | Err e => RErr e r | Panic w => RPanic w end
      | _ =>
        match rd_val ic k l r with
        | ROk v r' => ROk (set_val i v s) r'
        | RErr e r' => RErr e r'
        | RPanic w => RPanic w
        end
      end.

    (* `default:` branch *)
    Definition rd_unknown (ic : bool) (t l : N) (r : R) : rres R unit :=
      if negb ic && critical t then RErr E_CRITICAL r
      else match r_skip r (to_int l) with
           | ROk _ r' => ROk tt r'
           | RErr e r' => RErr e r'
           | RPanic w => RPanic w
           end.

    (* ordered models: `for handled := false; !handled && progress < n; progress++ { ... }`;
       p is `progress`; returns the state, the new progress and the reader *)
    Fixpoint oloop (k : nat) (m : model) (ic : bool) (t l : N) (sp : Z) (s : pst) (p : Z) (r : R)
      : rres R (pst * Z) :=
      match k with
      | O => ROk (s, p) r
      | S k' =>
        if (p >=? Z.of_nat (length (flds m)))%Z then ROk (s, p) r
        else
          match find_field t 0 (flds m) with
          | Some (i, f) =>
            if (p + 1 =? Z.of_nat i)%Z then
              match rd_field ic i (fk f) l sp s r with
              | ROk s' r' => ROk (s', if is_rep (fk f) then p else (p + 1)%Z) r'
              | RErr e r' => RErr e r'
              | RPanic w => RPanic w
              end
            else
              (* not handled: `switch progress { case i-1: handled_i = true; skip process }` for i = p+1 *)
              let j := Z.to_nat (p + 1) in
              match nth_error (flds m) j with
              | Some g =>
                match skip_proc j (fk g) sp (set_hand j s) r with
                | Ok s' => oloop k' m ic t l sp s' (p + 1)%Z r
                | Err e => RErr e r
                | Panic w => RPanic w
                end
              | None => oloop k' m ic t l sp s (p + 1)%Z r
              end
          | None =>
            (* default: handled; progress-- then progress++ (fix 419053f) *)
            match rd_unknown ic t l r with
            | ROk _ r' => ROk (s, p) r'
            | RErr e r' => RErr e r'
            | RPanic w => RPanic w
            end
          end
      end.

    Definition ustep (m : model) (ic : bool) (t l : N) (sp : Z) (s : pst) (r : R) : rres R pst :=
      match find_field t 0 (flds m) with
      | Some (i, f) => rd_field ic i (fk f) l sp s r
      | None => match rd_unknown ic t l r with
                | ROk _ r' => ROk s r'
                | RErr e r' => RErr e r'
                | RPanic w => RPanic w
                end
      end.

    (* one iteration of the outer loop after the end test: read T, read L, dispatch *)
    Definition pstep (m : model) (ic : bool) (sp : Z) (s : pst) (p : Z) (r : R) : rres R (pst * Z) :=
      match rd_tlnum r with
      | TLPanic w => RPanic w
      | TL t ok1 r1 =>
        if negb ok1 then RErr E_EOF r1 else
        match rd_tlnum r1 with
        | TLPanic w => RPanic w
        | TL l ok2 r2 =>
          if negb ok2 then RErr E_EOF r2 else
          if ordered m then oloop (S (length (flds m))) m ic t l sp s p r2
          else match ustep m ic t l sp s r2 with
               | ROk s' r' => ROk (s', p) r'
               | RErr e r' => RErr e r'
               | RPanic w => RPanic w
               end
        end
      end.

    (* the outer `for { startPos = Pos(); if startPos >= Length() break; read T; read L; ... }` *)
    Fixpoint ploop (k : nat) (m : model) (ic : bool) (s : pst) (p : Z) (r : R) : res parse_out :=
      match k with
      | O => Err E_FUEL
      | S k' =>
        match r_pos r with
        | Panic w => Panic w
        | Err e => Err e
        | Ok sp =>
          if (sp >=? r_len r)%Z then
            match finish 0 (flds m) sp s r with
            | Ok s' => Ok (p_vals s', p_ctx s', p_cov s')
            | Err e => Err e
            | Panic w => Panic w
            end
          else
            match pstep m ic sp s p r with
            | ROk (s', p') r' => ploop k' m ic s' p' r'
            | RErr e _ => Err e
            | RPanic w => Panic w
            end
        end
      end.
  End WithSub.

  (* Parse of model mi.  depth bounds struct nesting (every nested reader is strictly shorter, so the input
     length + 1 always suffices: theorem). *)
  Fixpoint parse (depth : nat) (sc : schema) (mi : nat) (ic : bool) (r : R) : res parse_out :=
    match depth with
    | O => Err E_FUEL
    | S d =>
      match nth_error sc mi with
      | None => Err E_NOMODEL
      | Some m =>
        (* loop fuel = remaining bytes + 1 (Length() - Pos() + 1): every iteration consumes at least one byte *)
        match r_pos r with
        | Ok p0 => ploop (parse d sc) (S (Z.to_nat (r_len r - p0))) m ic (init_pst m) (-1)%Z r
        | Err e => Err e
        | Panic w => Panic w
        end
      end
    end.
End Decoder.

(* ================================================================================================ *)
(* Instances *)
Definition bparse (depth : nat) (sc : schema) (mi : nat) (ic : bool) (r : br) : res parse_out :=
  parse br (fun r => Ok (br_pos r)) br_len br_readbyte br_readn br_readbuf br_readwire br_skip br_range br_delegate
        depth sc mi ic r.

Definition wparse (depth : nat) (sc : schema) (mi : nat) (ic : bool) (r : preader) : res parse_out :=
  parse preader pr_pos pr_len pr_readbyte pr_readn pr_readbuf pr_readwire pr_skip pr_range pr_delegate
        depth sc mi ic r.

(* decode from a byte string / from a segmented wire; nesting fuel = input length + 1 *)
Definition decode (sc : schema) (mi : nat) (ic : bool) (b : bytes) : res parse_out :=
  bparse (S (length b)) sc mi ic (br_of b).
Definition decode_wire (sc : schema) (mi : nat) (ic : bool) (segs : list bytes) : res parse_out :=
  wparse (S (length (concat segs))) sc mi ic (PW (mkwr segs 0 0)).
