(* Codec/Total.v — the generated parser, over ANY reader whose operations meet the specification below, never
   panics and never runs out of fuel: nesting fuel = remaining bytes + 1 and loop fuel = Length() + 1 always suffice
   (every loop iteration consumes at least one byte, every nested reader is strictly shorter).  Schemas arbitrary.
   Instantiated for the BufferReader and for ParseReader = BufferReader | WireReader in TotalInst.v. *)
From Codec Require Import Schema Readers Model.
From Coq Require Import ZifyBool ZifyN ZifyNat.
Open Scope N_scope.

Section Total.
  Variable R : Type.
  Variable r_pos : R -> res Z.
  Variable r_len : R -> Z.
  Variable r_readbyte : R -> rres R byte.
  Variable r_readn : R -> N -> rres R bytes.
  Variable r_readbuf : R -> Z -> rres R bytes.
  Variable r_readwire : R -> Z -> rres R bytes.
  Variable r_skip : R -> Z -> rres R unit.
  Variable r_range : R -> Z -> Z -> res (option bytes).
  Variable r_delegate : R -> Z -> res (R * R).

  (* reader invariant and remaining-bytes measure *)
  Variable RI : R -> Prop.
  Variable rem : R -> nat.

  (* what an operation may do: never panic; keep the invariant (also on the state left by an error); not grow the
     remaining input (strict: shrink it on success); error codes are not the model's own fuel code *)
  Definition opspec {A} (strict : bool) (r : R) (x : rres R A) : Prop :=
    match x with
    | ROk _ r' => RI r' /\ (if strict then rem r' < rem r else rem r' <= rem r)%nat
    | RErr e r' => RI r' /\ (rem r' <= rem r)%nat /\ e <> E_FUEL
    | RPanic _ => False
    end.

  (* res-valued helpers never panic *)
  Definition rgood {A} (x : res A) : Prop := match x with Ok _ => True | Err e => e <> E_FUEL | Panic _ => False end.

  Hypothesis H_pos : forall r, RI r -> exists p, r_pos r = Ok p.
  Hypothesis H_len : forall r p, RI r -> r_pos r = Ok p -> (Z.of_nat (rem r) <= r_len r - p)%Z.
  Hypothesis H_readbyte : forall r, RI r -> opspec true r (r_readbyte r).
  Hypothesis H_readn : forall r n, RI r -> opspec false r (r_readn r n).
  Hypothesis H_readbuf : forall r l, RI r -> opspec false r (r_readbuf r l).
  Hypothesis H_readwire : forall r l, RI r -> opspec false r (r_readwire r l).
  Hypothesis H_skip : forall r n, RI r -> opspec false r (r_skip r n).
  Hypothesis H_range : forall r s e, RI r -> exists o, r_range r s e = Ok o.
  (* the byte just skipped can be addressed (HopLimit: &reader.Range(Pos()-1, Pos())[0][0]) *)
  Hypothesis H_skip_range : forall r r' p, RI r -> r_skip r 1 = ROk tt r' -> r_pos r' = Ok p ->
    exists x t, r_range r' (p - 1) p = Ok (Some (x :: t)).
  Hypothesis H_delegate : forall r l, RI r ->
    exists sr r', r_delegate r l = Ok (sr, r') /\ RI sr /\ RI r' /\ (rem sr <= rem r)%nat /\ (rem r' <= rem r)%nat.

  Notation g_rd_be := (rd_be R r_readbyte).
  Notation g_rd_tlnum := (rd_tlnum R r_readbyte).
  Notation g_rd_nat_loop := (rd_nat_loop R r_readbyte).
  Notation g_rd_nat := (rd_nat R r_pos r_len r_readbyte).
  Notation g_rd_comps := (rd_comps R r_pos r_readbyte r_readbuf).
  Notation g_rd_icomps := (rd_icomps R r_pos r_readbyte r_readbuf).
  Notation g_len_guard := (len_guard R r_pos r_len).
  Notation g_rd_name := (rd_name R r_pos r_len r_readbyte r_readbuf).
  Notation g_rd_leaf := (rd_leaf R r_pos r_len r_readbyte r_readn r_readbuf r_readwire r_skip r_range).
  Notation g_skip_proc := (skip_proc R r_range).
  Notation g_finish := (finish R r_range).
  Notation g_rd_unknown := (rd_unknown R r_skip).
  Notation g_rd_val := (rd_val R r_pos r_len r_readbyte r_readn r_readbuf r_readwire r_skip r_range r_delegate).
  Notation g_rd_field := (rd_field R r_pos r_len r_readbyte r_readn r_readbuf r_readwire r_skip r_range r_delegate).
  Notation g_oloop := (oloop R r_pos r_len r_readbyte r_readn r_readbuf r_readwire r_skip r_range r_delegate).
  Notation g_ustep := (ustep R r_pos r_len r_readbyte r_readn r_readbuf r_readwire r_skip r_range r_delegate).
  Notation g_pstep := (pstep R r_pos r_len r_readbyte r_readn r_readbuf r_readwire r_skip r_range r_delegate).
  Notation g_ploop := (ploop R r_pos r_len r_readbyte r_readn r_readbuf r_readwire r_skip r_range r_delegate).
  Notation g_parse := (parse R r_pos r_len r_readbyte r_readn r_readbuf r_readwire r_skip r_range r_delegate).

  Lemma efuel_eof : E_EOF <> E_FUEL. Proof. discriminate. Qed.
  Lemma efuel_ovf : E_OVERFLOW <> E_FUEL. Proof. discriminate. Qed.
  Lemma efuel_crit : E_CRITICAL <> E_FUEL. Proof. discriminate. Qed.
  Lemma efuel_req : E_REQUIRED <> E_FUEL. Proof. discriminate. Qed.
  Lemma efuel_map : E_MAPVAL <> E_FUEL. Proof. discriminate. Qed.
  Hint Resolve efuel_eof efuel_ovf efuel_crit efuel_req efuel_map : tot.

  Lemma opspec_weaken {A} r (x : rres R A) : opspec true r x -> opspec false r x.
  Proof. destruct x; cbn; intuition lia. Qed.

  Lemma opspec_trans {A} strict r0 r (x : rres R A) : (rem r <= rem r0)%nat -> opspec strict r x -> opspec strict r0 x.
  Proof. intros H. destruct x; cbn; destruct strict; intuition lia. Qed.

  (* ReadTLNum *)
  Definition tlspec (r : R) (x : tlr R) : Prop :=
    match x with
    | TL _ _ ok r' => RI r' /\ (rem r' <= rem r)%nat /\ (ok = true -> rem r' < rem r)%nat
    | TLPanic _ _ => False
    end.

  Lemma t_rd_be : forall k acc r, RI r -> match g_rd_be k acc r with
                                          | TL _ _ _ r' => RI r' /\ (rem r' <= rem r)%nat
                                          | TLPanic _ _ => False end.
  Proof.
    induction k as [|k IH]; intros acc r HI; cbn [rd_be]; [split; [exact HI|lia]|].
    pose proof (H_readbyte r HI) as X. destruct (r_readbyte r) as [x r'|e r'|w]; cbn in X; [|intuition lia|contradiction].
    destruct X as [HI' Hr]. specialize (IH (acc * 256 + x) r' HI').
    destruct (g_rd_be k (acc * 256 + x) r'); [|contradiction]. intuition lia.
  Qed.

  Lemma t_rd_tlnum r : RI r -> tlspec r (g_rd_tlnum r).
  Proof.
    intros HI. unfold rd_tlnum.
    pose proof (H_readbyte r HI) as X. destruct (r_readbyte r) as [x r'|e r'|w]; cbn in X; [|cbn; intuition (try lia; try discriminate)|contradiction].
    destruct X as [HI' Hr].
    assert (Hbe : forall k, tlspec r (g_rd_be k 0 r')).
    { intros k. pose proof (t_rd_be k 0 r' HI') as Y. destruct (g_rd_be k 0 r'); [|contradiction]. cbn. intuition lia. }
    destruct (x <=? 252); [cbn; intuition lia|].
    destruct (x =? 253); [apply Hbe|]. destruct (x =? 254); apply Hbe.
  Qed.

  Lemma t_rd_nat_loop : forall k M acc r, RI r -> opspec false r (g_rd_nat_loop k M acc r).
  Proof.
    induction k as [|k IH]; intros M acc r HI; cbn [rd_nat_loop]; [cbn; split; [exact HI|lia]|].
    pose proof (H_readbyte r HI) as X. destruct (r_readbyte r) as [x r'|e r'|w]; cbn in X; [|cbn; intuition (auto with tot; lia)|contradiction].
    destruct X as [HI' Hr]. apply (opspec_trans false r r'); [lia|]. apply IH. exact HI'.
  Qed.

  Lemma t_rd_nat M l r : RI r -> opspec false r (g_rd_nat M l r).
  Proof.
    intros HI. unfold rd_nat. destruct (to_int l <=? 0)%Z; [cbn; split; [exact HI|lia]|].
    destruct (H_pos r HI) as [p Hp]. rewrite Hp. apply t_rd_nat_loop. exact HI.
  Qed.

  Lemma t_rd_comps : forall k endp r acc, RI r -> opspec false r (g_rd_comps k endp r acc).
  Proof.
    induction k as [|k IH]; intros endp r acc HI; cbn [rd_comps]; [cbn; split; [exact HI|lia]|].
    destruct (H_pos r HI) as [p Hp]. rewrite Hp.
    destruct (p >=? endp)%Z; [cbn; split; [exact HI|lia]|].
    pose proof (t_rd_tlnum r HI) as X1. destruct (g_rd_tlnum r) as [t ok1 r1|w]; [|contradiction]. destruct X1 as [HI1 [Hr1 _]].
    pose proof (t_rd_tlnum r1 HI1) as X2. destruct (g_rd_tlnum r1) as [l2 ok2 r2|w]; [|contradiction]. destruct X2 as [HI2 [Hr2 _]].
    pose proof (H_readbuf r2 (to_int l2) HI2) as X3.
    destruct (r_readbuf r2 (to_int l2)) as [v r3|e r3|w]; cbn in X3; [|cbn; intuition (auto with tot; lia)|contradiction].
    destruct X3 as [HI3 Hr3]. destruct (ok1 && ok2).
    - apply (opspec_trans false r r3); [lia|]. apply IH. exact HI3.
    - cbn. intuition (auto with tot; lia).
  Qed.

  Lemma t_rd_icomps : forall k endp ce r acc, RI r -> opspec false r (g_rd_icomps k endp ce r acc).
  Proof.
    induction k as [|k IH]; intros endp ce r acc HI; cbn [rd_icomps]; [cbn; split; [exact HI|lia]|].
    destruct (H_pos r HI) as [p Hp]. rewrite Hp.
    destruct (p >=? endp)%Z; [cbn; split; [exact HI|lia]|].
    pose proof (t_rd_tlnum r HI) as X1. destruct (g_rd_tlnum r) as [t ok1 r1|w]; [|contradiction]. destruct X1 as [HI1 [Hr1 _]].
    pose proof (t_rd_tlnum r1 HI1) as X2. destruct (g_rd_tlnum r1) as [l2 ok2 r2|w]; [|contradiction]. destruct X2 as [HI2 [Hr2 _]].
    pose proof (H_readbuf r2 (to_int l2) HI2) as X3.
    destruct (r_readbuf r2 (to_int l2)) as [v r3|e r3|w]; cbn in X3; [|cbn; intuition (auto with tot; lia)|contradiction].
    destruct X3 as [HI3 Hr3]. destruct (ok1 && ok2).
    - apply (opspec_trans false r r3); [lia|]. apply IH. exact HI3.
    - cbn. intuition (auto with tot; lia).
  Qed.

  Lemma t_len_guard l r : RI r -> exists b, g_len_guard l r = Ok b.
  Proof. intros HI. unfold len_guard. destruct (H_pos r HI) as [p Hp]. rewrite Hp. eauto. Qed.

  Lemma t_rd_name l r : RI r -> opspec false r (g_rd_name l r).
  Proof.
    intros HI. unfold rd_name. destruct (t_len_guard l r HI) as [b Hb]. rewrite Hb.
    destruct (H_pos r HI) as [p Hp]. rewrite Hp.
    destruct b; [cbn; intuition (auto with tot; lia)|].
    pose proof (t_rd_comps (N.to_nat (l / 2 + 1)) (p + to_int l)%Z r [] HI) as X.
    destruct (g_rd_comps (N.to_nat (l / 2 + 1)) (p + to_int l)%Z r []) as [n r'|e r'|w]; cbn in X; [|exact X|contradiction].
    destruct X as [HI' Hr]. destruct (H_pos r' HI') as [p' Hp']. rewrite Hp'.
    destruct (p' =? p + to_int l)%Z; cbn; intuition (auto with tot; lia).
  Qed.

  Ltac wrap X := (* X : opspec false r (op ...) ; goal: opspec false r (match op with ROk a r' => ROk (f a) r' | RErr e r' => RErr e r' | RPanic w => RPanic w end) *)
    match type of X with
    | opspec _ _ ?t => destruct t; cbn [opspec rgood] in X |- *; try contradiction; exact X
    end.

  Lemma t_rd_leaf k l r : RI r -> opspec false r (g_rd_leaf k l r).
  Proof.
    intros HI. destruct k; cbn [rd_leaf]; try (cbn; split; [exact HI|lia]).
    - pose proof (t_rd_nat two64 l r HI) as X. wrap X.
    - (* KFixed *)
      destruct w as [|[|w]].
      + pose proof (t_rd_nat (256 ^ N.of_nat 0) l r HI) as X. wrap X.
      + destruct opt.
        * pose proof (H_skip r 1%Z HI) as X.
          destruct (r_skip r 1) as [u r'|e r'|w'] eqn:Es; cbn in X; [|cbn; intuition (auto with tot)|contradiction].
          destruct X as [HI' Hr]. destruct (H_pos r' HI') as [p Hp]. rewrite Hp. destruct u.
          destruct (H_skip_range r r' p HI Es Hp) as [x [t Hx]]. rewrite Hx. cbn. split; [exact HI'|exact Hr].
        * pose proof (H_readbyte r HI) as X. destruct (r_readbyte r); cbn [opspec rgood] in X |- *; try contradiction; intuition (auto with tot; lia).
      + pose proof (t_rd_nat (256 ^ N.of_nat (S (S w))) l r HI) as X. wrap X.
    - pose proof (t_rd_nat two64 l r HI) as X. wrap X.
    - destruct (t_len_guard l r HI) as [b Hb]. rewrite Hb. destruct b; [cbn; intuition (auto with tot; lia)|].
      pose proof (H_readn r l HI) as X. wrap X.
    - destruct (to_int l <=? 0)%Z; [cbn; split; [exact HI|lia]|]. pose proof (H_readn r l HI) as X. wrap X.
    - pose proof (H_readwire r (to_int l) HI) as X. wrap X.
    - apply t_rd_name. exact HI.
    - pose proof (H_readwire r (to_int l) HI) as X. wrap X.
  Qed.

  Lemma t_skip_proc i k sp s r : RI r -> rgood (g_skip_proc i k sp s r).
  Proof.
    intros HI.
    destruct k as [o|w o|o| |o| | | |m0|k0|ky vt vl|a b|c| |st cv| ]; cbn [skip_proc];
      try exact I; try (destruct o; cbn [rgood]; auto with tot; exact I).
    cbv zeta. destruct (H_range r (get_ctx st (set_ctx i sp s)) sp HI) as [o Ho]. rewrite Ho. exact I.
  Qed.

  Lemma t_finish : forall fs i sp s r, RI r -> rgood (g_finish i fs sp s r).
  Proof.
    induction fs as [|f fs IH]; intros i sp s r HI; cbn [finish]; [exact I|].
    destruct (nth i (p_hand s) false); [apply IH; exact HI|].
    pose proof (t_skip_proc i (fk f) sp s r HI) as X. destruct (g_skip_proc i (fk f) sp s r); cbn [opspec rgood] in X |- *; try contradiction; auto.
  Qed.

  Lemma t_rd_unknown ic t l r : RI r -> opspec false r (g_rd_unknown ic t l r).
  Proof.
    intros HI. unfold rd_unknown. destruct (negb ic && critical t); [cbn; intuition (auto with tot; lia)|].
    pose proof (H_skip r (to_int l) HI) as X. wrap X.
  Qed.

  Section Sub.
    Variable sub : nat -> bool -> R -> res parse_out.
    Variable bound : nat.
    Hypothesis Hsub : forall m ic sr, RI sr -> (rem sr < bound)%nat -> rgood (sub m ic sr).

    Lemma t_rd_val ic k l r : RI r -> (rem r < bound)%nat -> opspec false r (g_rd_val sub ic k l r).
    Proof.
      intros HI Hb. destruct k; try apply t_rd_leaf; try exact HI.
      cbn [rd_val]. destruct (H_delegate r (to_int l) HI) as [sr [r' [Hd [HIs [HI' [Hrs Hr']]]]]]. rewrite Hd.
      pose proof (Hsub m ic sr HIs) as X. destruct (sub m ic sr) as [[[vs cx] cv]|e|w]; cbn [opspec rgood] in X |- *.
      - split; [exact HI'|exact Hr'].
      - split; [exact HI'|]. split; [exact Hr'|]. apply X. lia.
      - apply X. lia.
    Qed.

    Lemma t_rd_field ic i k l sp s r : RI r -> (rem r < bound)%nat -> opspec false r (g_rd_field sub ic i k l sp s r).
    Proof.
      intros HI Hb. destruct k; unfold rd_field;
        try (match goal with |- context [g_rd_val sub ic ?kk l r] => pose proof (t_rd_val ic kk l r HI Hb) as X;
               destruct (g_rd_val sub ic kk l r); cbn [opspec rgood] in X |- *; try contradiction; exact X end).
      - (* KMap *)
        pose proof (t_rd_val ic k1 l r HI Hb) as X. destruct (g_rd_val sub ic k1 l r) as [kv r1|e r1|w]; cbn [opspec rgood] in X |- *; try contradiction; [|exact X].
        destruct X as [HI1 Hr1].
        pose proof (t_rd_tlnum r1 HI1) as X1. destruct (g_rd_tlnum r1) as [t2 ok1 r2|w]; [|contradiction]. destruct X1 as [HI2 [Hr2 _]].
        destruct ok1; cbn [negb]; [|cbn; intuition (auto with tot; lia)].
        pose proof (t_rd_tlnum r2 HI2) as X2. destruct (g_rd_tlnum r2) as [l2 ok2 r3|w]; [|contradiction]. destruct X2 as [HI3 [Hr3 _]].
        destruct ok2; cbn [negb]; [|cbn; intuition (auto with tot; lia)].
        destruct (negb (t2 =? vt)); [cbn; intuition (auto with tot; lia)|].
        pose proof (t_rd_val ic k2 l2 r3 HI3) as X3.
        destruct (g_rd_val sub ic k2 l2 r3) as [vv r4|e r4|w]; cbn [opspec rgood] in X3 |- *.
        + destruct X3; [lia|]. split; [assumption|lia].
        + destruct X3 as [? [? ?]]; [lia|]. split; [assumption|]. split; [lia|assumption].
        + apply X3. lia.
      - (* KSig *)
        pose proof (t_rd_leaf (KSig start cov) l r HI) as X.
        destruct (g_rd_leaf (KSig start cov) l r) as [v r'|e r'|w]; cbn [opspec rgood] in X |- *; try contradiction; [|exact X].
        destruct X as [HI' Hr]. destruct (H_range r' (get_ctx start (set_hand i s)) sp HI') as [o Ho]. rewrite Ho. cbn [opspec]. split; assumption.
      - (* KIntName *)
        destruct (t_len_guard l r HI) as [b Hgd]. rewrite Hgd. destruct (H_pos r HI) as [p Hp]. rewrite Hp.
        destruct b; [cbn; intuition (auto with tot; lia)|].
        pose proof (t_rd_icomps (N.to_nat (l / 2 + 1)) (p + to_int l)%Z (p + to_int l)%Z r [] HI) as X.
        destruct (g_rd_icomps (N.to_nat (l / 2 + 1)) (p + to_int l)%Z (p + to_int l)%Z r []) as [[n ce] r'|e r'|w]; cbn [opspec rgood] in X |- *; try contradiction; [|exact X].
        destruct X as [HI' Hr]. destruct (H_pos r' HI') as [p' Hp']. rewrite Hp'.
        destruct (p' =? p + to_int l)%Z; [|cbn; intuition (auto with tot; lia)].
        destruct (H_range r' p ce HI') as [o Ho]. rewrite Ho. cbn [opspec]. split; assumption.
      - (* KOffset *) cbn. split; [exact HI|lia].
      - (* KRange *) pose proof (t_skip_proc i (KRange start cov) sp (set_hand i s) r HI) as X.
        destruct (g_skip_proc i (KRange start cov) sp (set_hand i s) r); cbn [opspec rgood] in X |- *; try contradiction; intuition lia.
      - (* KArg *) cbn. split; [exact HI|lia].
    Qed.

    Lemma t_oloop : forall k m ic t l sp s p r, RI r -> (rem r < bound)%nat -> opspec false r (g_oloop sub k m ic t l sp s p r).
    Proof.
      induction k as [|k IH]; intros m ic t l sp s p r HI Hb; cbn [oloop]; [cbn; split; [exact HI|lia]|].
      destruct (p >=? Z.of_nat (length (flds m)))%Z; [cbn; split; [exact HI|lia]|].
      destruct (find_field t 0 (flds m)) as [[i f]|].
      - destruct (p + 1 =? Z.of_nat i)%Z.
        + pose proof (t_rd_field ic i (fk f) l sp s r HI Hb) as X.
          destruct (g_rd_field sub ic i (fk f) l sp s r); cbn [opspec rgood] in X |- *; try contradiction; exact X.
        + destruct (nth_error (flds m) (Z.to_nat (p + 1))) as [g|]; [|apply IH; assumption].
          pose proof (t_skip_proc (Z.to_nat (p + 1)) (fk g) sp (set_hand (Z.to_nat (p + 1)) s) r HI) as X.
          destruct (g_skip_proc (Z.to_nat (p + 1)) (fk g) sp (set_hand (Z.to_nat (p + 1)) s) r); cbn [opspec rgood] in X |- *; try contradiction.
          * apply IH; assumption.
          * split; [exact HI|]. split; [lia|exact X].
      - pose proof (t_rd_unknown ic t l r HI) as X.
        destruct (g_rd_unknown ic t l r); cbn [opspec rgood] in X |- *; try contradiction; exact X.
    Qed.

    Lemma t_ustep m ic t l sp s r : RI r -> (rem r < bound)%nat -> opspec false r (g_ustep sub m ic t l sp s r).
    Proof.
      intros HI Hb. unfold ustep. destruct (find_field t 0 (flds m)) as [[i f]|].
      - apply t_rd_field; assumption.
      - pose proof (t_rd_unknown ic t l r HI) as X.
        destruct (g_rd_unknown ic t l r); cbn [opspec rgood] in X |- *; try contradiction; exact X.
    Qed.

    (* one loop iteration: strictly consumes input when it succeeds *)
    Lemma t_pstep m ic sp s p r : RI r -> (rem r <= bound)%nat -> opspec true r (g_pstep sub m ic sp s p r).
    Proof.
      intros HI Hb. unfold pstep.
      pose proof (t_rd_tlnum r HI) as X1. destruct (g_rd_tlnum r) as [t ok1 r1|w]; [|contradiction]. destruct X1 as [HI1 [Hr1 Hs1]].
      destruct ok1; cbn [negb]; [|cbn; intuition (auto with tot; lia)]. specialize (Hs1 eq_refl).
      pose proof (t_rd_tlnum r1 HI1) as X2. destruct (g_rd_tlnum r1) as [l ok2 r2|w]; [|contradiction]. destruct X2 as [HI2 [Hr2 _]].
      destruct ok2; cbn [negb]; [|cbn; intuition (auto with tot; lia)].
      assert (Hb2 : (rem r2 < bound)%nat) by lia.
      destruct (ordered m).
      - pose proof (t_oloop (S (length (flds m))) m ic t l sp s p r2 HI2 Hb2) as X.
        destruct (g_oloop sub (S (length (flds m))) m ic t l sp s p r2); cbn [opspec rgood] in X |- *; try contradiction; intuition lia.
      - pose proof (t_ustep m ic t l sp s r2 HI2 Hb2) as X.
        destruct (g_ustep sub m ic t l sp s r2); cbn [opspec rgood] in X |- *; try contradiction; intuition lia.
    Qed.

    Lemma t_ploop : forall k m ic s p r, RI r -> (rem r <= bound)%nat -> (rem r < k)%nat -> rgood (g_ploop sub k m ic s p r).
    Proof.
      induction k as [|k IH]; intros m ic s p r HI Hb Hk; [lia|].
      cbn [ploop]. destruct (H_pos r HI) as [sp Hp]. rewrite Hp.
      destruct (sp >=? r_len r)%Z.
      - pose proof (t_finish (flds m) 0 sp s r HI) as X. destruct (g_finish 0 (flds m) sp s r); cbn [opspec rgood] in X |- *; auto.
      - pose proof (t_pstep m ic sp s p r HI Hb) as X.
        destruct (g_pstep sub m ic sp s p r) as [[s' p'] r'|e r'|w]; cbn [opspec rgood] in X |- *; try contradiction.
        + destruct X as [HI' Hr]. apply IH; [exact HI'|lia|lia].
        + intuition.
    Qed.
  End Sub.

  Theorem parse_total : forall d sc mi ic r, RI r -> (rem r < d)%nat -> rgood (g_parse d sc mi ic r).
  Proof.
    induction d as [|d IH]; intros sc mi ic r HI Hd; [lia|].
    cbn [parse]. destruct (nth_error sc mi) as [m|]; [|cbn; discriminate].
    destruct (H_pos r HI) as [p0 Hp0]. rewrite Hp0.
    apply (t_ploop (g_parse d sc) d).
    - intros m' ic' sr HIs Hs. apply IH; assumption.
    - exact HI.
    - lia.
    - pose proof (H_len r p0 HI Hp0). lia.
  Qed.
End Total.
