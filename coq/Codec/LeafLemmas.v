(* Codec/LeafLemmas.v — every single-element field kind: what the encoder emits is a TLV whose payload the
   field reader turns back into the value (BufferReader). *)
From Codec Require Import Schema Readers Model Spec BrLemmas.
From Coq Require Import ZifyBool ZifyN ZifyNat.
Open Scope N_scope.

Notation brd_comps := (rd_comps br b_pos br_readbyte br_readbuf).
Notation brd_icomps := (rd_icomps br b_pos br_readbyte br_readbuf).
Notation brd_name := (rd_name br b_pos br_len br_readbyte br_readbuf).
Notation brd_leaf := (rd_leaf br b_pos br_len br_readbyte br_readn br_readbuf br_readwire br_skip br_range).
Notation b_len_guard := (len_guard br b_pos br_len).

Definition small (b : bytes) : Prop := N.of_nat (length b) < two63.

Lemma tlv_length t pl : length (tlv t pl) = (tl_len t + tl_len (N.of_nat (length pl)) + length pl)%nat.
Proof. unfold tlv. rewrite !app_length, !tl_enc_length. lia. Qed.

Lemma tl_len_pos n : (1 <= tl_len n)%nat.
Proof. unfold tl_len. destruct (n <=? 252); [lia|]. destruct (n <=? 65535); [lia|]. destruct (n <=? 4294967295); lia. Qed.

Lemma tlv_length_ge2 t pl : (2 <= length (tlv t pl))%nat.
Proof. rewrite tlv_length. pose proof (tl_len_pos t). pose proof (tl_len_pos (N.of_nat (length pl))). lia. Qed.

Lemma two63_lt_two64 : two63 < two64. Proof. unfold two63, two64. lia. Qed.

(* reading a TLV header *)
Lemma b_rd_header t pl p rest0 : t < two64 -> small pl ->
  brd_tlnum (mkbr p (tlv t pl ++ rest0)) = TL br t true (mkbr (rev (tl_enc t) ++ p) (tl_enc (N.of_nat (length pl)) ++ pl ++ rest0)) /\
  brd_tlnum (mkbr (rev (tl_enc t) ++ p) (tl_enc (N.of_nat (length pl)) ++ pl ++ rest0)) =
    TL br (N.of_nat (length pl)) true (mkbr (rev (tl_enc (N.of_nat (length pl))) ++ rev (tl_enc t) ++ p) (pl ++ rest0)).
Proof.
  intros Ht Hs. unfold tlv. rewrite <- !app_assoc. split.
  - apply b_rd_tlnum_enc. exact Ht.
  - apply b_rd_tlnum_enc. unfold small in Hs. pose proof two63_lt_two64. lia.
Qed.

(* ---- bytes-like payloads ---- *)
Lemma b_readn_app x t p : br_readn (mkbr p (x ++ t)) (N.of_nat (length x)) = ROk x (mkbr (rev x ++ p) t).
Proof.
  unfold br_readn. rewrite br_rem_mk, app_length.
  destruct (Z.of_N (N.of_nat (length x)) <=? Z.of_nat (length x + length t))%Z eqn:E; [|lia].
  rewrite Nat2N.id. rewrite br_adv_app. cbn [rest]. rewrite firstn_app_exact. reflexivity.
Qed.

Lemma b_readbuf_app x t p : br_readbuf (mkbr p (x ++ t)) (Z.of_nat (length x)) = ROk x (mkbr (rev x ++ p) t).
Proof.
  unfold br_readbuf. rewrite br_rem_mk, app_length.
  destruct ((Z.of_nat (length x) <? 0) || (Z.of_nat (length x) >? Z.of_nat (length x + length t)))%Z eqn:E; [lia|].
  rewrite Nat2Z.id. rewrite br_adv_app. cbn [rest]. rewrite firstn_app_exact. reflexivity.
Qed.

Lemma b_readwire_app x t p : br_readwire (mkbr p (x ++ t)) (Z.of_nat (length x)) = ROk x (mkbr (rev x ++ p) t).
Proof.
  unfold br_readwire. rewrite br_rem_mk, app_length.
  destruct ((Z.of_nat (length x + length t) <=? 0) && (0 <? Z.of_nat (length x)))%Z eqn:E0; [lia|].
  destruct ((Z.of_nat (length x) <? 0) || (Z.of_nat (length x) >? Z.of_nat (length x + length t)))%Z eqn:E; [lia|].
  rewrite Nat2Z.id. rewrite br_adv_app. cbn [rest]. rewrite firstn_app_exact. reflexivity.
Qed.

Lemma b_skip_app x t p : br_skip (mkbr p (x ++ t)) (Z.of_nat (length x)) = ROk tt (mkbr (rev x ++ p) t).
Proof.
  unfold br_skip. rewrite br_rem_mk, app_length.
  destruct ((Z.of_nat (length x) <? 0) || (Z.of_nat (length x) >? Z.of_nat (length x + length t)))%Z eqn:E; [lia|].
  rewrite Nat2Z.id. rewrite br_adv_app. reflexivity.
Qed.

Lemma b_len_guard_ok x t p : b_len_guard (N.of_nat (length x)) (mkbr p (x ++ t)) = Ok false.
Proof.
  unfold len_guard. rewrite br_len_mk, br_pos_mk, app_length. f_equal.
  destruct ((Z.of_nat (length p + (length x + length t)) - Z.of_nat (length p) <? 0)
            || (Z.of_N (N.of_nat (length x)) >? Z.of_nat (length p + (length x + length t)) - Z.of_nat (length p)))%Z eqn:E; [lia|reflexivity].
Qed.

(* ---- names ---- *)
Definition comp_small (c : comp) : Prop := ctyp c < two64 /\ small (cval c).
Definition name_small (n : name) : Prop := Forall comp_small n.

Lemma name_inner_cons c n : name_inner (c :: n) = comp_enc c ++ name_inner n.
Proof. reflexivity. Qed.

Lemma name_inner_len2 n : (2 * length n <= length (name_inner n))%nat.
Proof.
  induction n as [|c n IH]; [cbn; lia|].
  rewrite name_inner_cons, app_length. unfold comp_enc. pose proof (tlv_length_ge2 (ctyp c) (cval c)). cbn [length]. lia.
Qed.

Lemma b_rd_comps : forall n k endp p t acc,
  name_small n -> (length n < k)%nat ->
  endp = Z.of_nat (length p + length (name_inner n)) ->
  brd_comps k endp (mkbr p (name_inner n ++ t)) acc = ROk (rev acc ++ n) (mkbr (rev (name_inner n) ++ p) t).
Proof.
  induction n as [|c n IH]; intros k endp p t acc Hs Hk He.
  - destruct k as [|k]; [cbn in Hk; lia|]. cbn [rd_comps name_inner map concat app rev].
    rewrite br_pos_mk. cbn [name_inner map concat length] in He.
    destruct (Z.of_nat (length p) >=? endp)%Z eqn:E; [|lia]. rewrite app_nil_r. reflexivity.
  - destruct k as [|k]; [cbn in Hk; lia|].
    inversion Hs as [|? ? [Hc1 Hc2] Hs']; subst.
    cbn [rd_comps]. rewrite br_pos_mk.
    rewrite name_inner_cons in *. rewrite app_length.
    pose proof (tlv_length_ge2 (ctyp c) (cval c)) as H2. unfold comp_enc at 1.
    destruct (Z.of_nat (length p) >=? Z.of_nat (length p + (length (tlv (ctyp c) (cval c)) + length (name_inner n))))%Z eqn:E; [lia|].
    rewrite <- app_assoc. unfold comp_enc.
    destruct (b_rd_header (ctyp c) (cval c) p (name_inner n ++ t) Hc1 Hc2) as [H1 H3].
    rewrite H1, H3. rewrite to_int_small by exact Hc2.
    rewrite nat_N_Z. rewrite b_readbuf_app. cbn [andb].
    rewrite IH.
    + cbn [rev]. rewrite <- app_assoc. cbn [app]. destruct c as [ct cv]; cbn [ctyp cval].
      unfold tlv. rewrite !rev_app_distr, <- !app_assoc. reflexivity.
    + exact Hs'.
    + cbn [length] in Hk. lia.
    + rewrite !app_length, !rev_length. unfold tlv. rewrite !app_length. lia.
Qed.

Lemma b_rd_icomps : forall n k endp ce p t acc,
  name_small n -> (length n < k)%nat ->
  endp = Z.of_nat (length p + length (name_inner n)) ->
  exists ce', brd_icomps k endp ce (mkbr p (name_inner n ++ t)) acc = ROk (rev acc ++ n, ce') (mkbr (rev (name_inner n) ++ p) t).
Proof.
  induction n as [|c n IH]; intros k endp ce p t acc Hs Hk He.
  - destruct k as [|k]; [cbn in Hk; lia|]. cbn [rd_icomps name_inner map concat app rev].
    rewrite br_pos_mk. cbn [name_inner map concat length] in He.
    destruct (Z.of_nat (length p) >=? endp)%Z eqn:E; [|lia]. rewrite app_nil_r. eexists; reflexivity.
  - destruct k as [|k]; [cbn in Hk; lia|].
    inversion Hs as [|? ? [Hc1 Hc2] Hs']; subst.
    cbn [rd_icomps]. rewrite br_pos_mk.
    rewrite name_inner_cons in *. rewrite app_length.
    pose proof (tlv_length_ge2 (ctyp c) (cval c)) as H2. unfold comp_enc at 1.
    destruct (Z.of_nat (length p) >=? Z.of_nat (length p + (length (tlv (ctyp c) (cval c)) + length (name_inner n))))%Z eqn:E; [lia|].
    rewrite <- app_assoc. unfold comp_enc.
    destruct (b_rd_header (ctyp c) (cval c) p (name_inner n ++ t) Hc1 Hc2) as [H1 H3].
    rewrite H1, H3. rewrite to_int_small by exact Hc2.
    rewrite nat_N_Z. rewrite b_readbuf_app. cbn [andb].
    edestruct (IH k (Z.of_nat (length p + (length (tlv (ctyp c) (cval c)) + length (name_inner n))))
                 (if ctyp c =? 2 then Z.of_nat (length p) else ce)
                 (rev (cval c) ++ rev (tl_enc (N.of_nat (length (cval c)))) ++ rev (tl_enc (ctyp c)) ++ p) t
                 ({| ctyp := ctyp c; cval := cval c |} :: acc)) as [ce' Hce].
    + exact Hs'.
    + cbn [length] in Hk. lia.
    + rewrite !app_length, !rev_length. unfold tlv. rewrite !app_length. lia.
    + rewrite Hce. exists ce'. cbn [rev]. rewrite <- app_assoc. cbn [app]. destruct c as [ct cv]; cbn [ctyp cval].
      unfold tlv. rewrite !rev_app_distr, <- !app_assoc. reflexivity.
Qed.

Lemma name_fuel n : small (name_inner n) -> (length n < N.to_nat (N.of_nat (length (name_inner n)) / 2 + 1))%nat.
Proof.
  intros _. pose proof (name_inner_len2 n).
  assert (N.of_nat (length n) <= N.of_nat (length (name_inner n)) / 2).
  { apply N.div_le_lower_bound; lia. }
  lia.
Qed.

Lemma b_rd_name n p t : name_small n -> small (name_inner n) ->
  brd_name (N.of_nat (length (name_inner n))) (mkbr p (name_inner n ++ t)) = ROk (VName n) (mkbr (rev (name_inner n) ++ p) t).
Proof.
  intros Hs Hsm. unfold rd_name. rewrite b_len_guard_ok. rewrite br_pos_mk.
  rewrite to_int_small by exact Hsm. rewrite nat_N_Z.
  rewrite b_rd_comps.
  - rewrite br_pos_mk. rewrite app_length, rev_length.
    destruct (Z.of_nat (length (name_inner n) + length p) =? Z.of_nat (length p) + Z.of_nat (length (name_inner n)))%Z eqn:E; [|lia].
    reflexivity.
  - exact Hs.
  - apply name_fuel. exact Hsm.
  - lia.
Qed.

(* ---- numbers ---- *)
Lemma nat_len_cases n : n < two64 ->
  ((nat_len n = 1 \/ nat_len n = 2 \/ nat_len n = 4 \/ nat_len n = 8)%nat) /\ n < 256 ^ N.of_nat (nat_len n).
Proof.
  intros Hn. unfold nat_len, two64 in *.
  destruct (n <=? 255) eqn:E1; [split; [tauto|change (256 ^ N.of_nat 1) with 256; lia]|].
  destruct (n <=? 65535) eqn:E2; [split; [tauto|change (256 ^ N.of_nat 2) with 65536; lia]|].
  destruct (n <=? 4294967295) eqn:E3; [split; [tauto|change (256 ^ N.of_nat 4) with 4294967296; lia]|].
  split; [tauto|change (256 ^ N.of_nat 8) with 18446744073709551616; lia].
Qed.

Lemma small_le8 k : (k <= 8)%nat -> N.of_nat k < two63.
Proof. unfold two63. lia. Qed.

Lemma b_rd_nat_enc n p t : n < two64 ->
  brd_nat two64 (N.of_nat (length (nat_enc n))) (mkbr p (nat_enc n ++ t)) = ROk n (mkbr (rev (nat_enc n) ++ p) t).
Proof.
  intros Hn. rewrite nat_enc_length. unfold nat_enc.
  destruct (nat_len_cases n Hn) as [Hc Hlt].
  apply b_rd_nat_be; try assumption.
  - lia.
  - apply small_le8. lia.
  - unfold two64. lia.
Qed.

Lemma pow256_two64 w : (w = 1 \/ w = 2 \/ w = 4 \/ w = 8)%nat -> 0 < 256 ^ N.of_nat w /\ 256 ^ N.of_nat w <= two64.
Proof.
  unfold two64. intros [-> | [-> | [-> | ->]]].
  - change (256 ^ N.of_nat 1) with 256. lia.
  - change (256 ^ N.of_nat 2) with 65536. lia.
  - change (256 ^ N.of_nat 4) with 4294967296. lia.
  - change (256 ^ N.of_nat 8) with 18446744073709551616. lia.
Qed.

Lemma slice_last x (p t : bytes) :
  slice (Z.of_nat (length p)) (Z.of_nat (length p) + 1) (rev_append (x :: p) t) = [x].
Proof.
  unfold slice. rewrite rev_append_rev. cbn [rev]. rewrite <- app_assoc. cbn [app].
  replace (Z.to_nat (Z.of_nat (length p) + 1 - Z.of_nat (length p))) with 1%nat by lia.
  rewrite Nat2Z.id. rewrite <- (rev_length p). rewrite skipn_app, Nat.sub_diag, skipn_all. reflexivity.
Qed.

Lemma dur_roundtrip d : d < two63 -> d mod 1000000 = 0 -> dur_ms d < two64 /\ dur_of_ms (dur_ms d) = d.
Proof.
  intros Hd Hm. unfold dur_ms, dur_of_ms.
  destruct (d <? two63) eqn:E; [|lia].
  unfold two63, two64 in *. split.
  - apply N.div_lt_upper_bound; lia.
  - pose proof (N.div_mod' d 1000000). rewrite Hm in H.
    replace (d / 1000000 * 1000000) with d by lia. apply N.mod_small. lia.
Qed.

(* ---- payloads of the single-element kinds ---- *)
Definition payload (fuel : nat) (sc : schema) (k : fkind) (v : value) : bytes :=
  match k, v with
  | KNat _, VNat n => nat_enc n
  | KFixed w _, VNat n => be w n
  | KTime _, VNat d => nat_enc (dur_ms d)
  | KBin, VBytes b | KStr _, VBytes b | KWire, VBytes b | KSig _ _, VBytes b => b
  | KName, VName n => name_inner n
  | KIntName _, VName n => name_inner (strip_digest n)
  | KStruct m, VStruct fs => enc_fields fuel sc (flds (the_model sc m)) fs
  | _, _ => []
  end.

(* the kinds whose present value is one TLV *)
Definition single (k : fkind) : bool :=
  match k with
  | KSeq _ | KMap _ _ _ | KOffset | KRange _ _ | KArg => false
  | _ => true
  end.

(* the field is on the wire *)
Definition present (k : fkind) (v : value) : bool :=
  match k, v with
  | KOffset, _ | KRange _ _, _ | KArg, _ => false
  | _, VNone => false
  | KBool, VBool b => b
  | KSig _ _, VBytes [] => false
  | _, _ => true
  end.

Lemma tl_enc_small n : n <= 252 -> tl_enc n = [n].
Proof. intros H. unfold tl_enc. replace (n <=? 252) with true by lia. reflexivity. Qed.

Lemma enc_val_single f sc t k v : single k = true -> wf_val (S f) sc k v = true -> present k v = true ->
  enc_val (S f) sc t k v = tlv t (payload f sc k v).
Proof.
  intros Hs Hw Hp. unfold tlv.
  destruct k; try discriminate Hs; destruct v; try discriminate Hw; try discriminate Hp; cbn [enc_val payload].
  - (* KNat *) rewrite nat_enc_length. rewrite (tl_enc_small (N.of_nat (nat_len n))); [reflexivity|]. unfold nat_len.
    destruct (n <=? 255); [lia|]. destruct (n <=? 65535); [lia|]. destruct (n <=? 4294967295); lia.
  - (* KFixed *) rewrite be_length. rewrite (tl_enc_small (N.of_nat w)); [reflexivity|].
    cbn [wf_val] in Hw. lia.
  - (* KTime *) rewrite nat_enc_length. rewrite (tl_enc_small (N.of_nat (nat_len (dur_ms n)))); [reflexivity|]. unfold nat_len.
    destruct (dur_ms n <=? 255); [lia|]. destruct (dur_ms n <=? 65535); [lia|]. destruct (dur_ms n <=? 4294967295); lia.
  - reflexivity.
  - reflexivity.
  - reflexivity.
  - reflexivity.
  - (* KBool *) destruct b; [|discriminate Hp]. cbn [length]. change (N.of_nat 0) with 0. rewrite (tl_enc_small 0) by lia. reflexivity.
  - (* KStruct *) reflexivity.
  - (* KSig *) destruct b; [discriminate Hp|reflexivity].
  - reflexivity.
Qed.

Definition leafk (k : fkind) : bool :=
  match k with
  | KNat _ | KFixed _ _ | KTime _ | KBin | KStr _ | KWire | KSig _ _ | KName | KBool => true
  | _ => false
  end.

Lemma small_app_l a b : small (a ++ b) -> small a.
Proof. unfold small. rewrite app_length. lia. Qed.
Lemma small_app_r a b : small (a ++ b) -> small b.
Proof. unfold small. rewrite app_length. lia. Qed.

Lemma name_small_of n : name_ok n = true -> small (name_inner n) -> name_small n.
Proof.
  induction n as [|c n IH]; intros Hok Hs; [constructor|].
  cbn [name_ok forallb] in Hok. apply andb_true_iff in Hok as [Hc Hn].
  rewrite name_inner_cons in Hs. constructor.
  - unfold comp_ok in Hc. apply andb_true_iff in Hc as [Hc _]. split; [lia|].
    apply small_app_l in Hs. unfold comp_enc, tlv in Hs. apply small_app_r in Hs. apply small_app_r in Hs. exact Hs.
  - apply IH; [exact Hn|]. apply small_app_r in Hs. exact Hs.
Qed.

Lemma be1 n : n < 256 -> be 1 n = [n].
Proof. intros H. cbn [be]. change (256 ^ N.of_nat 0) with 1. rewrite N.div_1_r, N.mod_small by lia. reflexivity. Qed.

Lemma b_skip1 x t p : br_skip (mkbr p (x :: t)) 1 = ROk tt (mkbr (x :: p) t).
Proof.
  unfold br_skip. rewrite br_rem_mk. cbn [length].
  destruct ((1 <? 0) || (1 >? Z.of_nat (S (length t))))%Z eqn:E; [lia|]. reflexivity.
Qed.

Lemma b_rd_leaf f sc k v p t : leafk k = true -> wf_val (S f) sc k v = true -> present k v = true ->
  small (payload f sc k v) ->
  brd_leaf k (N.of_nat (length (payload f sc k v))) (mkbr p (payload f sc k v ++ t)) =
  ROk v (mkbr (rev (payload f sc k v) ++ p) t).
Proof.
  intros Hl Hw Hp Hs.
  destruct k; try discriminate Hl; destruct v; try discriminate Hw; try discriminate Hp; cbn [payload] in *; cbn [wf_val] in Hw.
  - (* KNat *) cbn [rd_leaf]. rewrite b_rd_nat_enc by lia. reflexivity.
  - (* KFixed *)
    assert (Hn : n < 256 ^ N.of_nat w) by lia.
    destruct w as [|[|w']]; [lia| |].
    + (* one byte *) change (256 ^ N.of_nat 1) with 256 in Hn. rewrite be1 by exact Hn. cbn [length app].
      destruct opt; cbn [rd_leaf].
      * rewrite b_skip1.
        rewrite br_pos_mk. cbn [length]. unfold br_range. rewrite br_len_mk. cbn [length].
        destruct ((Z.of_nat (S (length p)) - 1 <? 0) || (Z.of_nat (S (length p)) >? Z.of_nat (S (length p) + length t))
                  || (Z.of_nat (S (length p)) - 1 >? Z.of_nat (S (length p))))%Z eqn:E; [lia|].
        unfold br_all. cbn [rpre rest].
        replace (Z.of_nat (S (length p)) - 1)%Z with (Z.of_nat (length p)) by lia.
        replace (Z.of_nat (S (length p))) with (Z.of_nat (length p) + 1)%Z by lia.
        rewrite slice_last. reflexivity.
      * rewrite b_readbyte. reflexivity.
    + cbn [rd_leaf]. rewrite be_length.
      rewrite b_rd_nat_be; try lia; try reflexivity; try (unfold two63; lia);
        try (apply N.neq_0_lt_0, N.pow_nonzero; lia).
  - (* KTime *) cbn [rd_leaf]. apply andb_true_iff in Hw as [H1 H2].
    destruct (dur_roundtrip n) as [Hd1 Hd2]; [lia|lia|].
    rewrite b_rd_nat_enc by exact Hd1. rewrite Hd2. reflexivity.
  - (* KBin *) cbn [rd_leaf]. rewrite b_len_guard_ok. rewrite b_readn_app. reflexivity.
  - (* KStr *) cbn [rd_leaf]. rewrite to_int_small by exact Hs.
    destruct (Z.of_N (N.of_nat (length b)) <=? 0)%Z eqn:E.
    + destruct b; [reflexivity|cbn [length] in E; lia].
    + rewrite b_readn_app. reflexivity.
  - (* KWire *) cbn [rd_leaf]. rewrite to_int_small by exact Hs. rewrite nat_N_Z. rewrite b_readwire_app. reflexivity.
  - (* KName *) cbn [rd_leaf]. apply b_rd_name; [apply name_small_of; assumption|exact Hs].
  - (* KBool *) destruct b; [|discriminate Hp]. reflexivity.
  - (* KSig *) cbn [rd_leaf]. rewrite to_int_small by exact Hs. rewrite nat_N_Z. rewrite b_readwire_app. reflexivity.
Qed.
