(* Codec/Nested.v — C13, second sentence, at EVERY nesting depth: unrecognised elements inside nested model values (struct
   fields, elements of sequences of structs, values of maps of structs) are skipped exactly as at the top level, and the
   caller's ignoreCritical flag reaches every nested parser.  Built on the generalised loop lemma Roundtrip.fields_loop_g:
   the value bytes of a struct-typed element may be any bytes the nested parser maps to the nested value. *)
From Codec Require Import Schema Readers Model Spec BrLemmas LeafLemmas StateLemmas FieldLemmas LoopLemmas Roundtrip Theorems13
                          Total TotalBr Mono DecodeThms Sim SimWr WireThms.
From Coq Require Import ZifyBool ZifyN ZifyNat.
Open Scope N_scope.

(* noisy sc ic fuel mi vs x : x is an encoding of the field values vs of model mi (nesting fuel `fuel`, as in wf_value) in
   which runs of unrecognised skippable elements (non-critical ones, or any unrecognised one when ic = true) sit at
   arbitrary element boundaries of the model AND, recursively, of every nested model value: the value bytes of a struct
   field (fuel - 1) and of a struct element of a sequence / struct value of a map (fuel - 2) are again `noisy`. *)
Fixpoint noisy (sc : schema) (ic : bool) (fuel : nat) (mi : nat) (vs : list value) (x : bytes) {struct fuel} : Prop :=
  exists m es, nth_error sc mi = Some m /\ wf_value fuel sc mi vs = true /\
    nelems sc (pred fuel)
      (match fuel with
       | O => fun _ _ _ => False
       | S f => fun m' fs' pl => noisy sc ic f m' fs' pl \/ match f with O => False | S f1 => noisy sc ic f1 m' fs' pl end
       end) (flds m) vs es /\
    mixed m ic false es x.

Definition nq (sc : schema) (ic : bool) (fuel : nat) : nat -> list value -> bytes -> Prop :=
  match fuel with
  | O => fun _ _ _ => False
  | S f => fun m' fs' pl => noisy sc ic f m' fs' pl \/ match f with O => False | S f1 => noisy sc ic f1 m' fs' pl end
  end.

Lemma noisy_unfold sc ic fuel mi vs x :
  noisy sc ic fuel mi vs x <->
  exists m es, nth_error sc mi = Some m /\ wf_value fuel sc mi vs = true /\
               nelems sc (pred fuel) (nq sc ic fuel) (flds m) vs es /\ mixed m ic false es x.
Proof. destruct fuel; reflexivity. Qed.

Lemma sub_exact sc (Hsc : schema_wf sc = true) D :
  forall f2 mi2 vs2 ic2, (S f2 <= D)%nat -> wf_value f2 sc mi2 vs2 = true -> small (encode f2 sc mi2 vs2) ->
  exists cx cv, bparse D sc mi2 ic2 (br_of (encode f2 sc mi2 vs2)) = Ok (vs2, cx, cv).
Proof. intros f2 mi2 vs2 ic2 Hf2 Hw2 Hs2. destruct D as [|D0]; [lia|]. apply bparse_roundtrip; auto. lia. Qed.

Theorem bparse_noisy sc : schema_wf sc = true ->
  forall f D mi vs ic x, (S f < D)%nat -> noisy sc ic f mi vs x ->
  exists cx cv, bparse D sc mi ic (br_of x) = Ok (vs, cx, cv).
Proof.
  intros Hsc. induction f as [f IH] using lt_wf_ind. intros D mi vs ic x HfD Hn.
  apply noisy_unfold in Hn. destruct Hn as [m [es [Hm [Hw [Hnel Hmix]]]]].
  destruct D as [|D]; [lia|].
  rewrite bparse_S, Hm. unfold br_of.
  assert (HQ : forall m' fs' pl, nq sc ic f m' fs' pl -> exists cx cv, bparse D sc m' ic (br_of pl) = Ok (fs', cx, cv)).
  { destruct f as [|f0]; cbn [nq]; [intros ? ? ? []|]. intros m' fs' pl [H|H].
    - apply (IH f0); [lia|lia|exact H].
    - destruct f0 as [|f1]; [destruct H|]. apply (IH f1); [lia|lia|exact H]. }
  assert (Hw' : all2 (fun g x => wf_val (S (pred f)) sc (fk g) x) (flds m) vs = true).
  { destruct f as [|f0].
    - destruct (wf_value_0 sc mi vs Hw) as [m0 [Hm0 [Hfl ->]]]. rewrite Hm in Hm0. inversion Hm0; subst m0.
      rewrite Hfl. reflexivity.
    - cbn [pred]. unfold wf_value in Hw. rewrite Hm in Hw. exact Hw. }
  apply (fields_loop_g sc D D (sub_exact sc Hsc D) m (length sc) (schema_model_wf sc mi m Hsc Hm) ic (pred f) ltac:(lia) vs Hw'
           (nq sc ic f) HQ false (length (flds m)) 0%nat ltac:(lia) ltac:(lia) es x).
  - apply init_inv. symmetry. eapply all2_length; eauto.
  - exact Hnel.
  - exact Hmix.
  - rewrite br_len_mk, br_pos_mk. cbn [length]. lia.
Qed.

(* the same for `decode` itself and for `decode_wire` on any segmentation *)
Theorem decode_noisy sc : schema_wf sc = true ->
  forall f mi vs ic x, noisy sc ic f mi vs x -> exists cx cv, decode sc mi ic x = Ok (vs, cx, cv).
Proof.
  intros Hsc f mi vs ic x Hn. set (D := Nat.max (S (S f)) (length x)).
  rewrite <- (decode_as_deep sc mi ic x D) by lia.
  apply (bparse_noisy sc Hsc f); [lia|exact Hn].
Qed.

Theorem decode_wire_noisy sc : schema_wf sc = true ->
  forall f mi vs ic segs, noisy sc ic f mi vs (concat segs) -> exists cx cv, decode_wire sc mi ic segs = Ok (vs, cx, cv).
Proof.
  intros Hsc f mi vs ic segs Hn. destruct (decode_noisy sc Hsc f mi vs ic (concat segs) Hn) as [cx [cv H]].
  eapply wire_ok; eauto.
Qed.

(* every exact encoding is noisy (no noise) *)
Theorem noisy_exact sc : schema_wf sc = true ->
  forall f mi vs ic, wf_value f sc mi vs = true -> small (encode f sc mi vs) -> noisy sc ic f mi vs (encode f sc mi vs).
Proof.
  intros Hsc. induction f as [f IH] using lt_wf_ind. intros mi vs ic Hw Hs.
  apply noisy_unfold.
  assert (Hm : exists m, nth_error sc mi = Some m).
  { unfold wf_value in Hw. destruct (nth_error sc mi) as [m|]; [eauto|discriminate]. }
  destruct Hm as [m Hm]. exists m.
  destruct f as [|f].
  - destruct (wf_value_0 sc mi vs Hw) as [m0 [Hm0 [Hfl ->]]]. rewrite Hm in Hm0. inversion Hm0; subst m0.
    exists []. split; [exact Hm|]. split; [exact Hw|]. split.
    + rewrite Hfl. constructor.
    + unfold encode, the_model. rewrite (nth_error_nth' sc mi m _ Hm), Hfl. cbn. apply mixed_nil. constructor. reflexivity.
  - exists (elems_fields f sc (flds m) vs). split; [exact Hm|]. split; [exact Hw|].
    pose proof Hw as Hw2. unfold wf_value in Hw2. rewrite Hm in Hw2.
    pose proof Hs as Hs2. unfold encode, the_model in Hs2. rewrite (nth_error_nth' sc mi m _ Hm) in Hs2.
    split.
    + cbn [pred].
      set (D := S (S (S f))).
      assert (HQ : forall m' fs' pl, nq sc ic (S f) m' fs' pl -> exists cx cv, bparse D sc m' ic (br_of pl) = Ok (fs', cx, cv)).
      { cbn [nq]. intros m' fs' pl [H|H].
        - apply (bparse_noisy sc Hsc f); [unfold D; lia|exact H].
        - destruct f as [|f1]; [destruct H|]. apply (bparse_noisy sc Hsc f1); [unfold D; lia|exact H]. }
      apply (nelems_exact sc D D (sub_exact sc Hsc D) m (length sc) (schema_model_wf sc mi m Hsc Hm) ic f ltac:(unfold D; lia) vs Hw2 Hs2
               (nq sc ic (S f)) HQ) with (rem := length (flds m)) (i := 0%nat); try lia.
      * intros m' fs' Hw' Hs'. cbn [nq]. left. apply IH; auto.
      * intros m' fs' Hw' Hs'. cbn [nq]. destruct f as [|f1].
        -- cbn [pred] in *. left. apply IH; auto.
        -- cbn [pred] in *. right. apply IH; auto.
    + unfold encode, the_model. rewrite (nth_error_nth' sc mi m _ Hm).
      rewrite <- (concat_elems_fields f sc (flds m) vs Hw2). apply mixed_concat.
Qed.

(* ---- a concrete instance (non-vacuity): gen_composition.Nested{Val: &Inner{Num: 5}} with the unrecognised CRITICAL element
   09 01 aa inside the nested Inner value, the caller asking to ignore critical elements:  02 06 [09 01 aa] 01 01 05 ---- *)
From Codec Require Import GenSchemas.

Example nested_noisy_example :
  noisy pkg_std_encoding_tests_gen_composition true 2 3 [VStruct [VNat 5]] [2; 6; 9; 1; 170; 1; 1; 5].
Proof.
  set (sc := pkg_std_encoding_tests_gen_composition).
  apply noisy_unfold.
  exists (mkm false false [mkf 2 (KStruct 2)]), [tlv 2 [9; 1; 170; 1; 1; 5]].
  split; [reflexivity|]. split; [reflexivity|]. split.
  - change [tlv 2 [9; 1; 170; 1; 1; 5]] with ([tlv (ftyp (mkf 2 (KStruct 2))) [9; 1; 170; 1; 1; 5]] ++ []).
    apply nel_cons; [|constructor].
    apply ne_single; [reflexivity|reflexivity|unfold small, two63; cbn; lia|].
    cbn [payq fk nq]. left.
    apply noisy_unfold.
    exists (mkm false false [mkf 1 (KNat false)]), [tlv 1 [5]].
    split; [reflexivity|]. split; [reflexivity|]. split.
    + change [tlv 1 [5]] with ([tlv (ftyp (mkf 1 (KNat false))) [5]] ++ []).
      apply nel_cons; [|constructor].
      apply ne_single; [reflexivity|reflexivity|unfold small, two63; cbn; lia|reflexivity].
    + change [9; 1; 170; 1; 1; 5] with ((tlv 9 [170] ++ []) ++ tlv 1 [5] ++ []).
      apply mixed_cons.
      * apply unk_cons; [|unfold small, two63; cbn; lia|apply unk_nil; reflexivity].
        split; [reflexivity|]. split; [left; reflexivity|unfold two64; lia].
      * apply mixed_nil. apply unk_nil. reflexivity.
  - apply (mixed_cons (mkm false false [mkf 2 (KStruct 2)]) true false [] (tlv 2 [9; 1; 170; 1; 1; 5]) [] []);
      [apply unk_nil; reflexivity|apply mixed_nil; apply unk_nil; reflexivity].
Qed.

(* ================================================================================================ *)
(* Rejection at every depth (ignoreCritical = false): an unrecognised CRITICAL element at an element boundary of the model
   — or of a nested model value reached through struct fields and elements of sequences of structs, at any depth — makes
   the parser return ErrUnrecognizedField, whatever follows it; what precedes it may carry skippable noise at every depth. *)
Lemma mixedk_mono m ic (K1 K2 : bytes -> Prop) : (forall x, K1 x -> K2 x) ->
  forall es x, mixedk m ic K1 es x -> mixedk m ic K2 es x.
Proof. intros H es x M. induction M; constructor; auto. Qed.

Fixpoint noisy_crit (sc : schema) (fuel : nat) (mi : nat) (x : bytes) {struct fuel} : Prop :=
  match fuel with
  | O => False
  | S f =>
    exists m vs, nth_error sc mi = Some m /\ wf_value (S f) sc mi vs = true /\
     ((* the critical element is at a boundary of this model *)
      (exists es, nelems sc f (nq sc false (S f)) (flds m) vs es /\ mixed m false true es x) \/
      (* or inside the value of field j: a struct field, or an element of a sequence of structs after good elements *)
      (exists j g es, nth_error (flds m) j = Some g /\
          nelems sc f (nq sc false (S f)) (firstn j (flds m)) (firstn j vs) es /\
          mixedk m false
            (fun y =>
               (exists m' u plb junk, fk g = KStruct m' /\ unk m false false u /\ small plb /\ noisy_crit sc f m' plb /\
                                      y = u ++ tlv (ftyp g) plb ++ junk) \/
               (exists m' (lp : list (value * bytes)), fk g = KSeq (KStruct m') /\
                  (forall e pl, In (e, pl) lp -> is_none e = false /\ wf_val f sc (KStruct m') e = true /\ small pl /\
                                                 payq sc (nq sc false (S f)) (pred f) (KStruct m') e pl) /\
                  mixedk m false
                    (fun z => exists u plb junk, unk m false false u /\ small plb /\
                                match f with O => False | S f1 => noisy_crit sc f1 m' plb end /\
                                z = u ++ tlv (ftyp g) plb ++ junk)
                    (map (fun ep => tlv (ftyp g) (snd ep)) lp) y) \/
               (exists m' key vt (lp : list ((value * value) * bytes)), fk g = KMap key vt (KStruct m') /\
                  (forall kx vx plv, In ((kx, vx), plv) lp ->
                      is_none kx = false /\ is_none vx = false /\ wf_val f sc key kx = true /\
                      wf_val f sc (KStruct m') vx = true /\ small (payload (pred f) sc key kx) /\ small plv /\
                      payq sc (nq sc false (S f)) (pred f) (KStruct m') vx plv) /\
                  keys_nodup (map fst lp) = true /\
                  mixedk m false
                    (fun z => exists kx u plvb junk, unk m false false u /\ is_none kx = false /\ wf_val f sc key kx = true /\
                                small (payload (pred f) sc key kx) /\ small plvb /\
                                match f with O => False | S f1 => noisy_crit sc f1 m' plvb end /\
                                z = u ++ tlv (ftyp g) (payload (pred f) sc key kx) ++ tlv vt plvb ++ junk)
                    (map (map_el sc f g key vt) lp) y))
            es x))
  end.

Theorem bparse_noisy_crit sc : schema_wf sc = true ->
  forall f D mi x, (S f < D)%nat -> noisy_crit sc f mi x -> bparse D sc mi false (br_of x) = Err E_CRITICAL.
Proof.
  intros Hsc. induction f as [f IH] using lt_wf_ind. intros D mi x HfD Hn.
  destruct f as [|f]; [destruct Hn|].
  cbn [noisy_crit] in Hn. destruct Hn as [m [vs [Hm [Hw Hcase]]]].
  destruct D as [|D]; [lia|].
  rewrite bparse_S, Hm. unfold br_of.
  assert (HQ : forall m' fs' pl, nq sc false (S f) m' fs' pl -> exists cx cv, bparse D sc m' false (br_of pl) = Ok (fs', cx, cv)).
  { cbn [nq]. intros m' fs' pl [H|H].
    - apply (bparse_noisy sc Hsc f); [lia|exact H].
    - destruct f as [|f1]; [destruct H|]. apply (bparse_noisy sc Hsc f1); [lia|exact H]. }
  pose proof Hw as Hw'. unfold wf_value in Hw'. rewrite Hm in Hw'.
  assert (Hinv : inv m vs 0 (init_pst m) (-1)%Z) by (apply init_inv; symmetry; eapply all2_length; eauto).
  destruct Hcase as [[es [Hnel Hmix]] | [j [g [es [Hg [Hnel Hmix]]]]]].
  - apply (fields_loop_g sc D D (sub_exact sc Hsc D) m (length sc) (schema_model_wf sc mi m Hsc Hm) false f ltac:(lia) vs Hw'
             (nq sc false (S f)) HQ true (length (flds m)) 0%nat ltac:(lia) ltac:(lia) es x); auto.
    rewrite br_len_mk, br_pos_mk. cbn [length]. lia.
  - apply (fields_loop_bad sc D D (sub_exact sc Hsc D) m (length sc) (schema_model_wf sc mi m Hsc Hm) false f ltac:(lia) vs Hw'
             (nq sc false (S f)) HQ j g Hg es x); auto.
    + eapply mixedk_mono; [|exact Hmix].
      intros y [[m' [u [plb [junk [Ek [Hu [Hs [Hc ->]]]]]]]] | [[m' [lp [Ek [Hl Hmk]]]] | [m' [key [vt [lp [Ek [Hl [Hnd Hmk]]]]]]]]].
      * left. exists m', u, plb, junk. repeat split; auto. apply (IH f); [lia|lia|exact Hc].
      * right. left. exists m', lp. split; [exact Ek|]. split; [exact Hl|].
        eapply mixedk_mono; [|exact Hmk]. intros z [u [plb [junk [Hu [Hs [Hc ->]]]]]].
        exists u, plb, junk. repeat split; auto. destruct f as [|f1]; [destruct Hc|]. apply (IH f1); [lia|lia|exact Hc].
      * right. right. exists m', key, vt, lp. split; [exact Ek|]. split; [exact Hl|]. split; [exact Hnd|].
        eapply mixedk_mono; [|exact Hmk]. intros z [kx [u [plvb [junk [Hu [Hnk [Hwk [Hsk [Hsv [Hc ->]]]]]]]]]].
        exists kx, u, plvb, junk. repeat split; auto. destruct f as [|f1]; [destruct Hc|]. apply (IH f1); [lia|lia|exact Hc].
    + rewrite br_len_mk, br_pos_mk. cbn [length]. lia.
Qed.

Theorem decode_noisy_crit sc : schema_wf sc = true ->
  forall f mi x, noisy_crit sc f mi x -> decode sc mi false x = Err E_CRITICAL.
Proof.
  intros Hsc f mi x Hn. set (D := Nat.max (S (S f)) (length x)).
  rewrite <- (decode_as_deep sc mi false x D) by lia.
  apply (bparse_noisy_crit sc Hsc f); [lia|exact Hn].
Qed.

Theorem decode_wire_noisy_crit sc : schema_wf sc = true ->
  forall f mi segs, noisy_crit sc f mi (concat segs) -> decode_wire sc mi false segs = Err E_CRITICAL.
Proof. intros Hsc f mi segs Hn. apply wire_err. apply (decode_noisy_crit sc Hsc f). exact Hn. Qed.

(* the same concrete input as above, now with ignoreCritical = false: 02 06 [09 01 aa] 01 01 05 is rejected because of the
   critical element inside the nested Inner value *)
Example nested_crit_example :
  noisy_crit pkg_std_encoding_tests_gen_composition 2 3 [2; 6; 9; 1; 170; 1; 1; 5].
Proof.
  cbn [noisy_crit].
  exists (mkm false false [mkf 2 (KStruct 2)]), [VStruct [VNat 5]].
  split; [reflexivity|]. split; [reflexivity|]. right.
  exists 0%nat, (mkf 2 (KStruct 2)), []. split; [reflexivity|]. split; [constructor|].
  apply mk_nil. left. exists 2%nat, [], [9; 1; 170; 1; 1; 5], []. split; [reflexivity|]. split; [apply unk_nil; reflexivity|].
  split; [unfold small, two63; cbn; lia|]. split; [|reflexivity].
  exists (mkm false false [mkf 1 (KNat false)]), [VNat 5].
  split; [reflexivity|]. split; [reflexivity|]. left.
  exists [tlv 1 [5]]. split.
  - change [tlv 1 [5]] with ([tlv (ftyp (mkf 1 (KNat false))) [5]] ++ []).
    apply nel_cons; [|constructor].
    apply ne_single; [reflexivity|reflexivity|unfold small, two63; cbn; lia|reflexivity].
  - apply mixed_stop; [reflexivity|].
    apply (unk_crit (mkm false false [mkf 1 (KNat false)]) false true 9 1 [170; 1; 1; 5]); try reflexivity; unfold two64; lia.
Qed.
