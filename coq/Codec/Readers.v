(* Codec/Readers.v — executable models of std/encoding/readers.go (after the fix commits listed in docs/C04.md).
   BufferReader is a zipper over the input (consumed bytes reversed, remaining bytes).
   WireReader keeps the segment list, the current segment index and the offset in it, exactly like the Go struct
   (accSz is recomputed on demand).  Go `int` arguments are Z.  No proofs here. *)
From Codec Require Export Schema.
Open Scope N_scope.

(* result of a reader operation: value and new reader state / error and the state the Go code leaves / panic *)
Inductive rres (R A : Type) := ROk (a : A) (r : R) | RErr (e : N) (r : R) | RPanic (why : N).
Arguments ROk {R A}. Arguments RErr {R A}. Arguments RPanic {R A}.

(* ------------------------------------------------------------------------------------------------ *)
(* BufferReader *)
Record br := mkbr { rpre : bytes; rest : bytes }.

Definition br_of (b : bytes) : br := mkbr [] b.
Definition br_pos (r : br) : Z := Z.of_nat (length (rpre r)).
Definition br_rem (r : br) : Z := Z.of_nat (length (rest r)).
Definition br_len (r : br) : Z := (br_pos r + br_rem r)%Z.
(* rev_append l l' = rev l ++ l' (List.rev_append_rev), linear time *)
Definition br_adv (n : nat) (r : br) : br := mkbr (rev_append (firstn n (rest r)) (rpre r)) (skipn n (rest r)).
Definition br_all (r : br) : bytes := rev_append (rpre r) (rest r).

Definition br_readbyte (r : br) : rres br byte :=
  match rest r with
  | [] => RErr E_EOF r
  | x :: t => ROk x (mkbr (x :: rpre r) t)
  end.

(* io.ReadFull(reader, make([]byte, n)) / io.CopyN(&builder, reader, n) for n > 0: all n bytes or an error after
   consuming what was there *)
Definition br_readn (r : br) (n : N) : rres br bytes :=
  if (Z.of_N n <=? br_rem r)%Z then ROk (firstn (N.to_nat n) (rest r)) (br_adv (N.to_nat n) r)
  else RErr E_EOF (br_adv (length (rest r)) r).

Definition br_readbuf (r : br) (l : Z) : rres br bytes :=
  if ((l <? 0) || (l >? br_rem r))%Z then RErr E_EOF r
  else ROk (firstn (Z.to_nat l) (rest r)) (br_adv (Z.to_nat l) r).

Definition br_readwire (r : br) (l : Z) : rres br bytes :=
  if ((br_rem r <=? 0) && (0 <? l))%Z then RErr E_EOF r
  else if ((l <? 0) || (l >? br_rem r))%Z then RErr E_EOF r
  else ROk (firstn (Z.to_nat l) (rest r)) (br_adv (Z.to_nat l) r).

Definition br_skip (r : br) (n : Z) : rres br unit :=
  if ((n <? 0) || (n >? br_rem r))%Z then RErr E_EOF r
  else ROk tt (br_adv (Z.to_nat n) r).

Definition slice (s e : Z) (l : bytes) : bytes := firstn (Z.to_nat (e - s)) (skipn (Z.to_nat s) l).

(* Range returns nil (None) on bad bounds, else the bytes (joined) *)
Definition br_range (r : br) (s e : Z) : res (option bytes) :=
  if ((s <? 0) || (e >? br_len r) || (s >? e))%Z then Ok None
  else Ok (Some (slice s e (br_all r))).

(* Delegate returns (sub-reader, advanced reader); an empty reader and no movement on a bad length *)
Definition br_delegate (r : br) (l : Z) : res (br * br) :=
  if ((l <? 0) || (l >? br_rem r))%Z then Ok (br_of [], r)
  else Ok (br_of (firstn (Z.to_nat l) (rest r)), br_adv (Z.to_nat l) r).

(* ------------------------------------------------------------------------------------------------ *)
(* WireReader: wire = list of segments, seg = index of the current segment, wpos = offset in it.
   A delegated reader that shares the outer wire keeps absolute positions (Go: wire[0:seg+1], seg, pos). *)
Record wr := mkwr { wsegs : list bytes; wseg : nat; wpos : nat }.

Definition seg_at (w : wr) (i : nat) : bytes := nth i (wsegs w) [].
Definition acc_sz (segs : list bytes) (i : nat) : nat := length (concat (firstn i segs)).
Definition wr_len (w : wr) : Z := Z.of_nat (length (concat (wsegs w))).
(* Pos(): r.pos + r.accSz[r.seg]; accSz has len(wire)+1 entries *)
Definition wr_pos (w : wr) : res Z :=
  if (wseg w <=? length (wsegs w))%nat then Ok (Z.of_nat (wpos w + acc_sz (wsegs w) (wseg w)))
  else Panic P_INDEX.

(* nextSeg: skip exhausted segments (loop, after fix d0b51ff) *)
Fixpoint next_seg_fuel (k : nat) (w : wr) : wr :=
  match k with
  | O => w
  | S k' =>
    if ((wseg w <? length (wsegs w)) && (length (seg_at w (wseg w)) <=? wpos w))%nat
    then next_seg_fuel k' (mkwr (wsegs w) (S (wseg w)) 0)
    else w
  end.
Definition next_seg (w : wr) : wr * bool :=
  let w' := next_seg_fuel (S (length (wsegs w))) w in (w', (wseg w' <? length (wsegs w'))%nat).

Definition wr_readbyte (w : wr) : rres wr byte :=
  let (w1, more) := next_seg w in
  if more then
    match nth_error (seg_at w1 (wseg w1)) (wpos w1) with
    | Some x => ROk x (mkwr (wsegs w1) (wseg w1) (S (wpos w1)))
    | None => RPanic P_INDEX
    end
  else RErr E_EOF w1.

(* the loops of ReadWire / ReadBuf: collect l bytes across segments *)
Fixpoint wr_collect (k : nat) (l : nat) (w : wr) (acc : bytes) : rres wr bytes :=
  match l with
  | O => ROk acc w
  | _ =>
    match k with
    | O => RErr E_EOF w
    | S k' =>
      if (length (wsegs w) <=? wseg w)%nat then RErr E_EOF w
      else
        let s := seg_at w (wseg w) in
        if (length s <? wpos w + l)%nat
        then (* r.wire[r.seg][r.pos:] : slice panics when pos > len *)
          if (length s <? wpos w)%nat then RPanic P_SLICE
          else wr_collect k' (l - (length s - wpos w)) (mkwr (wsegs w) (S (wseg w)) 0) (acc ++ skipn (wpos w) s)
        else ROk (acc ++ firstn l (skipn (wpos w) s)) (mkwr (wsegs w) (wseg w) (wpos w + l))
    end
  end.

Definition wr_rem (w : wr) : res Z :=
  match wr_pos w with Ok p => Ok (wr_len w - p)%Z | Err e => Err e | Panic y => Panic y end.

Definition wr_readwire (w : wr) (l : Z) : rres wr bytes :=
  let (w1, more) := next_seg w in
  if (negb more && (0 <? l)%Z) then RErr E_EOF w1
  else match wr_rem w1 with
       | Ok rem =>
         if ((l <? 0) || (l >? rem))%Z then RErr E_EOF w1
         else wr_collect (S (length (wsegs w1))) (Z.to_nat l) w1 []
       | _ => RPanic P_INDEX
       end.

Definition wr_readbuf (w : wr) (l : Z) : rres wr bytes :=
  match wr_rem w with
  | Ok rem =>
    if ((l <? 0) || (l >? rem))%Z then RErr E_EOF w
    else
      let (w1, more) := next_seg w in
      if negb more then (if (l =? 0)%Z then ROk [] w1 else RErr E_EOF w1)
      else wr_collect (S (length (wsegs w1))) (Z.to_nat l) w1 []
  | _ => RPanic P_INDEX
  end.

(* io.ReadFull / io.CopyN over Read: Read copies from the current segment only; the loop continues until n bytes *)
Definition wr_readn (w : wr) (n : N) : rres wr bytes :=
  match wr_rem w with
  | Ok rem =>
    if (Z.of_N n <=? rem)%Z then wr_collect (S (length (wsegs w))) (N.to_nat n) (fst (next_seg w)) []
    else RErr E_EOF (mkwr (wsegs w) (length (wsegs w)) 0)
  | _ => RPanic P_INDEX
  end.

(* Skip (after fix 0b7ba2c) *)
Fixpoint wr_skip_loop (k : nat) (w : wr) : wr :=
  match k with
  | O => w
  | S k' =>
    if ((wseg w <? length (wsegs w)) && (length (seg_at w (wseg w)) <? wpos w))%nat
    then wr_skip_loop k' (mkwr (wsegs w) (S (wseg w)) (wpos w - length (seg_at w (wseg w))))
    else w
  end.
Definition wr_skip (w : wr) (n : Z) : rres wr unit :=
  if (n <? 0)%Z then RErr E_EOF w
  else match wr_rem w with
       | Ok rem =>
         if (n >? rem)%Z then RErr E_EOF w
         else ROk tt (wr_skip_loop (S (length (wsegs w))) (mkwr (wsegs w) (wseg w) (wpos w + Z.to_nat n)))
       | _ => RPanic P_INDEX
       end.

(* Range (after fix c461d73): the bytes between two absolute positions, joined *)
Definition wr_range (w : wr) (s e : Z) : res (option bytes) :=
  if ((s <? 0) || (e >? wr_len w) || (s >? e))%Z then Ok None
  else Ok (Some (slice s e (concat (wsegs w)))).

(* a ParseReader value is either kind of reader (Delegate of a WireReader may return a BufferReader) *)
Inductive preader := PB (b : br) | PW (w : wr).

Definition wr_delegate (w : wr) (l : Z) : res (preader * wr) :=
  match wr_rem w with
  | Ok rem =>
    if ((l <? 0) || (length (wsegs w) <=? wseg w)%nat || (l >? rem))%Z then Ok (PB (br_of []), w)
    else
      let s := seg_at w (wseg w) in
      let ln := Z.to_nat l in
      if (wpos w + ln <=? length s)%nat
      then Ok (PB (br_of (firstn ln (skipn (wpos w) s))), mkwr (wsegs w) (wseg w) (wpos w + ln))
      else
        let w' := wr_skip_loop (S (length (wsegs w))) (mkwr (wsegs w) (wseg w) (wpos w + ln)) in
        if (length (wsegs w') <=? wseg w')%nat then Ok (PB (br_of []), w')
        else if (wpos w' =? length (seg_at w' (wseg w')))%nat
        then (* shares the outer wire: wire[0:seg+1], absolute positions *)
          Ok (PW (mkwr (firstn (S (wseg w')) (wsegs w)) (wseg w) (wpos w)), w')
        else (* fresh wire: wire[startSeg:seg+1] with the first segment cut at startPos and the last at r.pos
                (this branch is only reached when the range spans at least two segments) *)
          let first := skipn (wpos w) s in
          let middle := firstn (wseg w' - S (wseg w)) (skipn (S (wseg w)) (wsegs w)) in
          let last := firstn (wpos w') (seg_at w' (wseg w')) in
          let cut := if (wseg w <? wseg w')%nat then first :: middle ++ [last]
                     else [firstn (wpos w') first] in
          Ok (PW (mkwr cut 0 0), w')
  | _ => Panic P_INDEX
  end.

(* ParseReader operations on preader *)
Definition lift_b {A} (x : rres br A) : rres preader A :=
  match x with ROk a r => ROk a (PB r) | RErr e r => RErr e (PB r) | RPanic y => RPanic y end.
Definition lift_w {A} (x : rres wr A) : rres preader A :=
  match x with ROk a r => ROk a (PW r) | RErr e r => RErr e (PW r) | RPanic y => RPanic y end.

Definition pr_pos (r : preader) : res Z := match r with PB b => Ok (br_pos b) | PW w => wr_pos w end.
Definition pr_len (r : preader) : Z := match r with PB b => br_len b | PW w => wr_len w end.
Definition pr_readbyte (r : preader) := match r with PB b => lift_b (br_readbyte b) | PW w => lift_w (wr_readbyte w) end.
Definition pr_readn (r : preader) n := match r with PB b => lift_b (br_readn b n) | PW w => lift_w (wr_readn w n) end.
Definition pr_readbuf (r : preader) l := match r with PB b => lift_b (br_readbuf b l) | PW w => lift_w (wr_readbuf w l) end.
Definition pr_readwire (r : preader) l := match r with PB b => lift_b (br_readwire b l) | PW w => lift_w (wr_readwire w l) end.
Definition pr_skip (r : preader) n := match r with PB b => lift_b (br_skip b n) | PW w => lift_w (wr_skip w n) end.
Definition pr_range (r : preader) s e := match r with PB b => br_range b s e | PW w => wr_range w s e end.
Definition pr_delegate (r : preader) l : res (preader * preader) :=
  match r with
  | PB b => match br_delegate b l with Ok (s, b') => Ok (PB s, PB b') | Err e => Err e | Panic y => Panic y end
  | PW w => match wr_delegate w l with Ok (s, w') => Ok (s, PW w') | Err e => Err e | Panic y => Panic y end
  end.
