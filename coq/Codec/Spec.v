(* Codec/Spec.v — the domain of values the wire format can carry (wf_value) and the decidable statement of C13's
   round-trip clause, evaluated by the runner on the implementation's observations.  No proofs here. *)
From Codec Require Export Model.
Open Scope N_scope.

Definition comp_ok (c : comp) : bool := (ctyp c <? two64) && bytes_okb (cval c).
Definition name_ok (n : name) : bool := forallb comp_ok n.
Definition no_digest_tail (n : name) : bool :=
  match rev n with c :: _ => negb (ctyp c =? 2) | [] => true end.

Definition is_none (v : value) : bool := match v with VNone => true | _ => false end.

Fixpoint keys_nodup (l : list (value * value)) : bool :=
  match l with
  | [] => true
  | (k, _) :: r => negb (existsb (fun kv => value_eqb_key k (fst kv)) r) && keys_nodup r
  end.

Fixpoint all2 {A B} (f : A -> B -> bool) (a : list A) (b : list B) : bool :=
  match a, b with
  | [], [] => true
  | x :: a', y :: b' => f x y && all2 f a' b'
  | _, _ => false
  end.

(* wf_val fuel sc k v: v is a Go value of a field of kind k that the encoder can put on the wire faithfully:
   - required (non-optional) natural/fixedUint/time/string fields are always present (Go value types);
   - fixedUint values fit their width; durations are whole, non-negative milliseconds (the wire unit);
   - elements of sequences and map values are non-nil (a nil element is silently not encoded);
   - a signature value is either absent or non-empty (estLen = 0 means "do not encode");
   - an Interest name given to the encoder does not end in a ParametersSha256Digest component (Init drops it);
   - map keys are distinct (it is a Go map);
   - bytes are bytes and type numbers fit in 64 bits. *)
Fixpoint wf_val (fuel : nat) (sc : schema) (k : fkind) (v : value) : bool :=
  match fuel with
  | O => false
  | S f =>
    match k, v with
    | KNat opt, VNone => opt
    | KNat _, VNat n => n <? two64
    | KFixed _ opt, VNone => opt
    | KFixed w _, VNat n => (n <? 256 ^ N.of_nat w) && (0 <? w)%nat && (w <=? 8)%nat
    | KTime opt, VNone => opt
    | KTime _, VNat d => (d <? two63) && (d mod 1000000 =? 0)
    | KBin, VNone | KWire, VNone | KName, VNone | KStruct _, VNone | KSig _ _, VNone | KIntName _, VNone => true
    | KBin, VBytes b | KWire, VBytes b => bytes_okb b
    | KStr opt, VNone => opt
    | KStr _, VBytes b => bytes_okb b
    | KSig _ _, VBytes b => bytes_okb b && negb (match b with [] => true | _ => false end)
    | KName, VName n => name_ok n
    | KIntName _, VName n => name_ok n && no_digest_tail n
    | KBool, VBool _ => true
    | KStruct m, VStruct fs =>
        match nth_error sc m with
        | Some md => all2 (fun g x => wf_val f sc (fk g) x) (flds md) fs
        | None => false
        end
    | KSeq sub, VSeq l => forallb (fun x => negb (is_none x) && wf_val f sc sub x) l
    | KMap key _ val, VMap l =>
        forallb (fun kv => negb (is_none (fst kv)) && wf_val f sc key (fst kv) &&
                           negb (is_none (snd kv)) && wf_val f sc val (snd kv)) l && keys_nodup l
    | KOffset, VUnit | KRange _ _, VUnit | KArg, VUnit => true
    | _, _ => false
    end
  end.

Definition wf_value (fuel : nat) (sc : schema) (mi : nat) (vs : list value) : bool :=
  match nth_error sc mi with
  | Some m => all2 (fun g x => wf_val fuel sc (fk g) x) (flds m) vs
  | None => false
  end.

(* nesting depth of a value: the fuel encode needs *)
Fixpoint depth_fuel (n : nat) (v : value) : nat :=
  match n with
  | O => O
  | S n' =>
    match v with
    | VStruct fs => S (fold_right (fun x a => Nat.max (depth_fuel n' x) a) O fs)
    | VSeq l => S (fold_right (fun x a => Nat.max (depth_fuel n' x) a) O l)
    | VMap l => S (fold_right (fun kv a => Nat.max (Nat.max (depth_fuel n' (fst kv)) (depth_fuel n' (snd kv))) a) O l)
    | _ => 1%nat
    end
  end.
