(* Property C13 — every generated TLV model round-trips exactly and matches its generator.
   Only theorem statements closed by `exact`, each followed by Print Assumptions. *)
From Codec Require Import Schema Readers Model Spec GenSchemas SchemasWf.
Open Scope N_scope.

(* the schemas the generator front end parses from the current definitions are well formed *)
Theorem schemas_wf : forallb schema_wf all_schemas = true.
Proof. exact all_schemas_wf. Qed.
Print Assumptions schemas_wf.

(* non-vacuity: a Data-like value of spec_2022 (package 7, model Data) is in the wire domain, encodes and decodes *)
Example c13_example :
  wf_value 3 pkg_std_ndn_spec_2022 11
    [VUnit; VUnit; VName [mkc 8 [97]]; VStruct [VNat 0; VNone; VNone]; VBytes [104; 105]; VNone; VNone] = true /\
  decode pkg_std_ndn_spec_2022 11 false
    (encode 3 pkg_std_ndn_spec_2022 11
       [VUnit; VUnit; VName [mkc 8 [97]]; VStruct [VNat 0; VNone; VNone]; VBytes [104; 105]; VNone; VNone])
  = Ok ([VUnit; VUnit; VName [mkc 8 [97]]; VStruct [VNat 0; VNone; VNone]; VBytes [104; 105]; VNone; VNone],
        [0%Z; 0%Z; 0%Z; 0%Z; 0%Z; 0%Z; 0%Z], [[]; []; []; []; []; []; []]).
Proof. split; vm_compute; reflexivity. Qed.
