(* Property C13 — every generated TLV model round-trips exactly and matches its generator.
   Only theorem statements closed by `exact`, each followed by Print Assumptions.
   Subject: `encode` / `bparse` of Codec/Model.v (the schema-interpreting model of the generated Encode / Parse over a
   BufferReader) on the schemas of Codec/GenSchemas.v, which are re-translated from the source on every run.
   The last sentence of the property (generated code = generator output) is a finite direct decision made by the check. *)
From Codec Require Import Schema Readers Model Spec GenSchemas SchemasWf LeafLemmas Roundtrip Theorems13 LengthExact DecodeThms Sim SimWr WireThms WirePlan GenTemplates Tmpl Nested.
Open Scope N_scope.

(* the schemas the generator front end parses from the current definitions are well formed (79 models at pin time) *)
Theorem schemas_wf : forallb schema_wf all_schemas = true.
Proof. exact all_schemas_wf. Qed.
Print Assumptions schemas_wf.

(* decoding an encoding reproduces the value: any well-formed schema, any model, any value of the wire domain
   (Spec.wf_value) at any nesting depth, ignoreCritical set or not; `small` = the encoding is shorter than 2^63 bytes *)
Theorem codec_roundtrip : forall sc, schema_wf sc = true ->
  forall d fuel mi vs ic, (fuel <= d)%nat -> wf_value fuel sc mi vs = true -> small (encode fuel sc mi vs) ->
  exists ctx cov, bparse (S d) sc mi ic (br_of (encode fuel sc mi vs)) = Ok (vs, ctx, cov).
Proof. exact bparse_roundtrip. Qed.
Print Assumptions codec_roundtrip.

(* the same for `decode` itself — nesting fuel = input length + 1, which is what the runner executes against the
   implementation (never exhausted: C04 decode_total; more fuel changes nothing: Mono.v) *)
Theorem codec_roundtrip_decode : forall sc, schema_wf sc = true ->
  forall fuel mi vs ic, wf_value fuel sc mi vs = true -> small (encode fuel sc mi vs) ->
  exists ctx cov, decode sc mi ic (encode fuel sc mi vs) = Ok (vs, ctx, cov).
Proof. exact decode_roundtrip. Qed.
Print Assumptions codec_roundtrip_decode.

(* ... in particular for every model of every generated package of the tree *)
Theorem codec_roundtrip_generated : forall sc, In sc all_schemas ->
  forall d fuel mi vs ic, (fuel <= d)%nat -> wf_value fuel sc mi vs = true -> small (encode fuel sc mi vs) ->
  exists ctx cov, bparse (S d) sc mi ic (br_of (encode fuel sc mi vs)) = Ok (vs, ctx, cov).
Proof.
  exact (fun sc Hin => bparse_roundtrip sc (proj1 (forallb_forall schema_wf all_schemas) all_schemas_wf sc Hin)).
Qed.
Print Assumptions codec_roundtrip_generated.

(* encoding yields exactly the number of bytes the encoder announced (every value, in the wire domain or not) *)
Theorem encode_length_exact : forall fuel sc mi vs, N.of_nat (length (encode fuel sc mi vs)) = enc_len fuel sc mi vs.
Proof. exact encode_length_exact_all. Qed.
Print Assumptions encode_length_exact.

(* an unrecognised element (its type number is no field of the model) that is non-critical — or any unrecognised
   element when the caller asked to ignore critical ones — inserted between any two elements of a valid encoding
   (an element = one TLV, or the key TLV + value TLV of one map entry) is skipped and every field decodes unchanged;
   holds for ordered models too (after fix 419053f) *)
Theorem unknown_noncritical_skipped : forall sc, schema_wf sc = true ->
  forall d f mi vs ic es1 es2 t pl, (S f <= d)%nat -> wf_value (S f) sc mi vs = true -> small (encode (S f) sc mi vs) ->
  elements f sc mi vs = es1 ++ es2 ->
  find_field t 0 (flds (the_model sc mi)) = None -> (ic = true \/ critical t = false) -> t < two64 -> small pl ->
  exists ctx cov, bparse (S d) sc mi ic (br_of (concat es1 ++ tlv t pl ++ concat es2)) = Ok (vs, ctx, cov).
Proof. exact bparse_unknown_skipped. Qed.
Print Assumptions unknown_noncritical_skipped.

Theorem unknown_noncritical_skipped_decode : forall sc, schema_wf sc = true ->
  forall f mi vs ic es1 es2 t pl, wf_value (S f) sc mi vs = true -> small (encode (S f) sc mi vs) ->
  elements f sc mi vs = es1 ++ es2 ->
  find_field t 0 (flds (the_model sc mi)) = None -> (ic = true \/ critical t = false) -> t < two64 -> small pl ->
  exists ctx cov, decode sc mi ic (concat es1 ++ tlv t pl ++ concat es2) = Ok (vs, ctx, cov).
Proof. exact decode_unknown_skipped. Qed.
Print Assumptions unknown_noncritical_skipped_decode.

(* an unrecognised critical element (type number <= 31 or odd) at any element boundary causes rejection
   (ErrUnrecognizedField) when the caller did not ask to ignore critical elements — whatever follows it *)
Theorem unknown_critical_rejected : forall sc, schema_wf sc = true ->
  forall d f mi vs es1 es2 t l junk, (S f <= d)%nat -> wf_value (S f) sc mi vs = true -> small (encode (S f) sc mi vs) ->
  elements f sc mi vs = es1 ++ es2 ->
  find_field t 0 (flds (the_model sc mi)) = None -> critical t = true -> t < two64 -> l < two64 ->
  bparse (S d) sc mi false (br_of (concat es1 ++ tl_enc t ++ tl_enc l ++ junk)) = Err E_CRITICAL.
Proof. exact bparse_unknown_critical_rejected. Qed.
Print Assumptions unknown_critical_rejected.

Theorem unknown_critical_rejected_decode : forall sc, schema_wf sc = true ->
  forall f mi vs es1 es2 t l junk, wf_value (S f) sc mi vs = true -> small (encode (S f) sc mi vs) ->
  elements f sc mi vs = es1 ++ es2 ->
  find_field t 0 (flds (the_model sc mi)) = None -> critical t = true -> t < two64 -> l < two64 ->
  decode sc mi false (concat es1 ++ tl_enc t ++ tl_enc l ++ junk) = Err E_CRITICAL.
Proof. exact decode_unknown_critical_rejected. Qed.
Print Assumptions unknown_critical_rejected_decode.

(* ---- the segmented reader ----
   reader refinement: for every schema, model, flag and every list of buffers (empty ones included), the generated parser
   through the WireReader returns the same value, or the same error, as through a BufferReader on the joined bytes *)
Theorem wirereader_refines_buffer : forall sc mi ic (segs : list bytes),
  match decode_wire sc mi ic segs, decode sc mi ic (concat segs) with
  | Ok (v1, _, _), Ok (v2, _, _) => v1 = v2
  | Err e1, Err e2 => e1 = e2
  | _, _ => False
  end.
Proof. exact SimWr.wirereader_refines_buffer. Qed.
Print Assumptions wirereader_refines_buffer.

Theorem codec_roundtrip_wire : forall sc, schema_wf sc = true ->
  forall fuel mi vs ic segs, wf_value fuel sc mi vs = true -> small (encode fuel sc mi vs) ->
  concat segs = encode fuel sc mi vs ->
  exists ctx cov, decode_wire sc mi ic segs = Ok (vs, ctx, cov).
Proof. exact decode_wire_roundtrip. Qed.
Print Assumptions codec_roundtrip_wire.

Theorem unknown_noncritical_skipped_wire : forall sc, schema_wf sc = true ->
  forall f mi vs ic es1 es2 t pl segs, wf_value (S f) sc mi vs = true -> small (encode (S f) sc mi vs) ->
  elements f sc mi vs = es1 ++ es2 ->
  find_field t 0 (flds (the_model sc mi)) = None -> (ic = true \/ critical t = false) -> t < two64 -> small pl ->
  concat segs = concat es1 ++ tlv t pl ++ concat es2 ->
  exists ctx cov, decode_wire sc mi ic segs = Ok (vs, ctx, cov).
Proof. exact decode_wire_unknown_skipped. Qed.
Print Assumptions unknown_noncritical_skipped_wire.

Theorem unknown_critical_rejected_wire : forall sc, schema_wf sc = true ->
  forall f mi vs es1 es2 t l junk segs, wf_value (S f) sc mi vs = true -> small (encode (S f) sc mi vs) ->
  elements f sc mi vs = es1 ++ es2 ->
  find_field t 0 (flds (the_model sc mi)) = None -> critical t = true -> t < two64 -> l < two64 ->
  concat segs = concat es1 ++ tl_enc t ++ tl_enc l ++ junk ->
  decode_wire sc mi false segs = Err E_CRITICAL.
Proof. exact decode_wire_unknown_critical_rejected. Qed.
Print Assumptions unknown_critical_rejected_wire.

(* ---- the nocopy wire plan ----
   Encode of a nocopy model returns several buffers: those the encoder allocates with the sizes Init planned (wirePlan) and
   the caller's own buffers placed without copying (segments of wire fields, the signature slot).  `encode_wire` models
   GenEncodeInto / `wire_plan` GenEncodingWirePlan for nocopy models incl. struct:T:nocopy members (Packet -> Interest/Data/
   LpPacket); `inc` is the table of such members translated into GenSchemas.
   The joined buffers are exactly `encode` of the value with its wire fields flattened: *)
Theorem encode_wire_concat : forall fuel sc inc mi vs,
  concat (map seg_bytes (encode_wire fuel sc inc mi vs)) = encode fuel sc mi (flat_fields fuel sc (flds (the_model sc mi)) vs).
Proof. exact WirePlan.encode_wire_concat. Qed.
Print Assumptions encode_wire_concat.

(* and every planned size equals the number of bytes written into that buffer (slots are planned 0) *)
Theorem wire_plan_exact : forall fuel sc inc mi vs,
  wire_plan fuel sc inc mi vs = map seg_plan (encode_wire fuel sc inc mi vs).
Proof. exact WirePlan.wire_plan_exact. Qed.
Print Assumptions wire_plan_exact.

(* ---- the second sentence at EVERY nesting depth (Nested.v) ----
   `noisy sc ic fuel mi vs x`: x is an encoding of vs (model mi) in which runs of unrecognised skippable elements —
   non-critical ones, or ANY unrecognised element when the caller asked to ignore critical ones — sit at arbitrary element
   boundaries of the model and, recursively, of every nested model value (struct fields, elements of sequences of structs,
   values of maps of structs).  Such an input decodes to vs: every nested parser skips them too, i.e. the caller's
   ignoreCritical flag reaches every depth.  Both readers, any segmentation.  (Loop lemma Roundtrip.fields_loop_g: the value
   bytes of a struct-typed element may be any bytes the nested parser maps to the nested value.) *)
Theorem unknown_skipped_every_depth : forall sc, schema_wf sc = true ->
  forall fuel mi vs ic x, noisy sc ic fuel mi vs x -> exists ctx cov, decode sc mi ic x = Ok (vs, ctx, cov).
Proof. exact decode_noisy. Qed.
Print Assumptions unknown_skipped_every_depth.

Theorem unknown_skipped_every_depth_wire : forall sc, schema_wf sc = true ->
  forall fuel mi vs ic segs, noisy sc ic fuel mi vs (concat segs) -> exists ctx cov, decode_wire sc mi ic segs = Ok (vs, ctx, cov).
Proof. exact decode_wire_noisy. Qed.
Print Assumptions unknown_skipped_every_depth_wire.

(* `noisy` is inhabited: every exact encoding (no noise) ... *)
Theorem noisy_exact : forall sc, schema_wf sc = true ->
  forall fuel mi vs ic, wf_value fuel sc mi vs = true -> small (encode fuel sc mi vs) -> noisy sc ic fuel mi vs (encode fuel sc mi vs).
Proof. exact Nested.noisy_exact. Qed.
Print Assumptions noisy_exact.

(* ... and e.g. gen_composition.Nested{Val: &Inner{Num: 5}} carrying the unrecognised CRITICAL element 09 01 aa inside the
   nested Inner value, read with ignoreCritical = true:  02 06 [09 01 aa] 01 01 05  (the input of seeded change C13-R7M2) *)
Example nested_noisy_example :
  noisy pkg_std_encoding_tests_gen_composition true 2 3 [VStruct [VNat 5]] [2; 6; 9; 1; 170; 1; 1; 5] /\
  (exists ctx cov, decode pkg_std_encoding_tests_gen_composition 3 true [2; 6; 9; 1; 170; 1; 1; 5] = Ok ([VStruct [VNat 5]], ctx, cov)) /\
  decode pkg_std_encoding_tests_gen_composition 3 false [2; 6; 9; 1; 170; 1; 1; 5] = Err E_CRITICAL.
Proof.
  split; [exact Nested.nested_noisy_example|]. split; [|vm_compute; reflexivity].
  assert (H : schema_wf pkg_std_encoding_tests_gen_composition = true) by (vm_compute; reflexivity).
  exact (decode_noisy pkg_std_encoding_tests_gen_composition H 2%nat 3%nat [VStruct [VNat 5]] true [2; 6; 9; 1; 170; 1; 1; 5]
           Nested.nested_noisy_example).
Qed.

(* ---- rejection at every nesting depth (ignoreCritical = false) ----
   `noisy_crit sc fuel mi x`: x is an input for model mi in which, after elements that may carry skippable noise at every
   depth, an unrecognised CRITICAL element sits at an element boundary of the model — or, recursively, of a nested model
   value reached through struct fields, elements of sequences of structs and values of maps of structs (the bad nested value is the expected next
   element of its enclosing model; anything may follow it).  The parser rejects x with ErrUnrecognizedField: the nested
   parser's error reaches the caller from every depth.  Both readers, any segmentation. *)
Theorem unknown_critical_rejected_every_depth : forall sc, schema_wf sc = true ->
  forall fuel mi x, noisy_crit sc fuel mi x -> decode sc mi false x = Err E_CRITICAL.
Proof. exact decode_noisy_crit. Qed.
Print Assumptions unknown_critical_rejected_every_depth.

Theorem unknown_critical_rejected_every_depth_wire : forall sc, schema_wf sc = true ->
  forall fuel mi segs, noisy_crit sc fuel mi (concat segs) -> decode_wire sc mi false segs = Err E_CRITICAL.
Proof. exact decode_wire_noisy_crit. Qed.
Print Assumptions unknown_critical_rejected_every_depth_wire.

(* non-vacuity: the input of `nested_noisy_example`, read with ignoreCritical = false *)
Example nested_crit_example :
  noisy_crit pkg_std_encoding_tests_gen_composition 2 3 [2; 6; 9; 1; 170; 1; 1; 5] /\
  decode pkg_std_encoding_tests_gen_composition 3 false [2; 6; 9; 1; 170; 1; 1; 5] = Err E_CRITICAL.
Proof.
  split; [exact Nested.nested_crit_example|].
  assert (H : schema_wf pkg_std_encoding_tests_gen_composition = true) by (vm_compute; reflexivity).
  exact (decode_noisy_crit pkg_std_encoding_tests_gen_composition H 2%nat 3%nat [2; 6; 9; 1; 170; 1; 1; 5] Nested.nested_crit_example).
Qed.

(* ---- generator identity, beyond the byte comparison of the regenerated files: the templates themselves ----
   GenTemplates.v is the control skeleton of the generator's ModelParse template (and the `progress` statements of the
   sequence / map field readers), translated expression by expression on every run.  The critical-type test of the
   template's `default:` branch is the NDN rule ... *)
Theorem template_critical_rule : forall t : N,
  t_reject false (Z.of_N t) = ((t <=? 31) || N.odd t).
Proof. exact Tmpl.template_critical_rule. Qed.
Print Assumptions template_critical_rule.

(* ... and the template's loops, run literally with the translated conditions, case tests, `handled` / `progress`
   statements, skip-case numbers and error guards (Tmpl.ploop_t: `for { end test; T; L; for handled := ...; cond; post
   { switch typ {...}; not-handled block; error return } }; final pass`), are the parser all theorems above are about:
   at every nesting level, for both readers, from `progress := t_init`. *)
Theorem template_parse_buffer : forall d sc mi ic r,
  bparse (S d) sc mi ic r =
  match nth_error sc mi with
  | None => Err E_NOMODEL
  | Some m => ploop_t br (fun r => Ok (br_pos r)) br_len br_readbyte br_readn br_readbuf br_readwire br_skip br_range br_delegate
                      (bparse d sc) (S (Z.to_nat (br_len r - br_pos r))) m ic (init_pst m) t_init r
  end.
Proof. exact Tmpl.template_parse_buffer. Qed.
Print Assumptions template_parse_buffer.

Theorem template_parse_wire : forall d sc mi ic r,
  wparse (S d) sc mi ic r =
  match nth_error sc mi with
  | None => Err E_NOMODEL
  | Some m =>
    match pr_pos r with
    | Ok p0 => ploop_t preader pr_pos pr_len pr_readbyte pr_readn pr_readbuf pr_readwire pr_skip pr_range pr_delegate
                       (wparse d sc) (S (Z.to_nat (pr_len r - p0))) m ic (init_pst m) t_init r
    | Err e => Err e
    | Panic w => Panic w
    end
  end.
Proof. exact Tmpl.template_parse_wire. Qed.
Print Assumptions template_parse_wire.

(* the elements are the encoding *)
Theorem elements_are_encoding : forall f sc mi vs, wf_value (S f) sc mi vs = true ->
  concat (elements f sc mi vs) = encode (S f) sc mi vs.
Proof. exact concat_elements. Qed.
Print Assumptions elements_are_encoding.

(* non-vacuity: a Data of spec_2022 (package 7, model 11: ordered, nocopy) is in the wire domain, encodes, decodes,
   and an unknown element 0xF0 after its Name does not disturb MetaInfo and Content *)
Example c13_example :
  schema_wf pkg_std_ndn_spec_2022 = true /\
  wf_value 3 pkg_std_ndn_spec_2022 11
    [VUnit; VUnit; VName [mkc 8 [97]]; VStruct [VNat 0; VNone; VNone]; VBytes [104; 105]; VNone; VNone] = true /\
  decode pkg_std_ndn_spec_2022 11 false
    (encode 3 pkg_std_ndn_spec_2022 11
       [VUnit; VUnit; VName [mkc 8 [97]]; VStruct [VNat 0; VNone; VNone]; VBytes [104; 105]; VNone; VNone])
  = Ok ([VUnit; VUnit; VName [mkc 8 [97]]; VStruct [VNat 0; VNone; VNone]; VBytes [104; 105]; VNone; VNone],
        [0%Z; 0%Z; 0%Z; 0%Z; 0%Z; 0%Z; 0%Z], [[]; []; []; []; []; []; []]) /\
  decode pkg_std_ndn_spec_2022 11 false [7; 3; 8; 1; 97; 240; 1; 0; 20; 3; 24; 1; 0; 21; 2; 104; 105]
  = Ok ([VUnit; VUnit; VName [mkc 8 [97]]; VStruct [VNat 0; VNone; VNone]; VBytes [104; 105]; VNone; VNone],
        [0%Z; 0%Z; 0%Z; 0%Z; 0%Z; 0%Z; 0%Z], [[]; []; []; []; []; []; []]).
Proof. repeat split; vm_compute; reflexivity. Qed.
