(* Codec/Roundtrip.v — the generated parse loop, run on the encoder's output with unrecognised elements inserted
   between the elements, rebuilds the encoded struct (BufferReader).  Main results: bparse_mixed (any nesting),
   and its corollaries codec_roundtrip_b / unknown_skipped_b. *)
From Codec Require Import Schema Readers Model Spec BrLemmas LeafLemmas StateLemmas FieldLemmas LoopLemmas.
From Coq Require Import ZifyBool ZifyN ZifyNat.
Open Scope N_scope.

(* the elements (TLV, or key TLV + value TLV of a map entry) a field contributes; f = fuel of the elements *)
Definition elems_val (f : nat) (sc : schema) (t : N) (k : fkind) (v : value) : list bytes :=
  match k, v with
  | KSeq sub, VSeq l => map (enc_val f sc t sub) l
  | KMap key vt val, VMap l => map (fun kv => enc_val f sc t key (fst kv) ++ enc_val f sc vt val (snd kv)) l
  | KSeq _, _ | KMap _ _ _, _ => []
  | _, _ => if single k && present k v then [enc_val (S f) sc t k v] else []
  end.

Fixpoint elems_fields (f : nat) (sc : schema) (fs : list field) (vs : list value) : list bytes :=
  match fs, vs with
  | g :: fs', v :: vs' => elems_val f sc (ftyp g) (fk g) v ++ elems_fields f sc fs' vs'
  | _, _ => []
  end.

Lemma enc_val_absent f sc t k v : single k = true -> wf_val (S f) sc k v = true -> present k v = false ->
  enc_val (S f) sc t k v = [] /\ v = zero_of k.
Proof.
  intros Hs Hw Hp.
  destruct k; try discriminate Hs; destruct v; try discriminate Hw; try discriminate Hp; cbn [wf_val] in Hw;
    try (destruct opt; try discriminate Hw); try (split; reflexivity).
  - destruct b; [discriminate Hp|split; reflexivity].
  - destruct b; [cbn in Hw; discriminate Hw|discriminate Hp].
Qed.

Lemma concat_elems_val f sc t k v : wf_val (S f) sc k v = true -> concat (elems_val f sc t k v) = enc_val (S f) sc t k v.
Proof.
  intros Hw. destruct (single k) eqn:Es.
  - destruct (present k v) eqn:Ep.
    + replace (elems_val f sc t k v) with [enc_val (S f) sc t k v].
      * cbn [concat]. apply app_nil_r.
      * unfold elems_val. rewrite Es, Ep. destruct k; try discriminate Es; destruct v; reflexivity.
    + destruct (enc_val_absent f sc t k v Es Hw Ep) as [-> _].
      unfold elems_val. rewrite Es, Ep. destruct k; try discriminate Es; destruct v; reflexivity.
  - destruct k; try discriminate Es; destruct v; try discriminate Hw; try reflexivity.
Qed.

Lemma concat_elems_fields f sc : forall fs vs,
  all2 (fun g x => wf_val (S f) sc (fk g) x) fs vs = true ->
  concat (elems_fields f sc fs vs) = enc_fields (S f) sc fs vs.
Proof.
  induction fs as [|g fs IH]; intros [|v vs] H; try reflexivity; try discriminate H.
  cbn [all2] in H. apply andb_true_iff in H as [H1 H2].
  cbn [elems_fields]. rewrite concat_app. rewrite concat_elems_val by exact H1. rewrite IH by exact H2. reflexivity.
Qed.

Lemma elems_nil_zero f sc t k v : wf_val (S f) sc k v = true -> elems_val f sc t k v = [] -> v = zero_of k.
Proof.
  intros Hw He. destruct (single k) eqn:Es.
  - destruct (present k v) eqn:Ep.
    + unfold elems_val in He. rewrite Es, Ep in He. destruct k; try discriminate Es; destruct v; discriminate He.
    + apply (enc_val_absent f sc t k v Es Hw Ep).
  - destruct k; try discriminate Es; destruct v; try discriminate Hw; try reflexivity.
    + destruct l; [reflexivity|discriminate He].
    + destruct l; [reflexivity|discriminate He].
Qed.

Lemma nth_error_skipn_cons {A} : forall (l : list A) i x, nth_error l i = Some x -> skipn i l = x :: skipn (S i) l.
Proof. induction l as [|h t IH]; intros [|i] x H; cbn in *; try discriminate; [congruence|]. apply IH. exact H. Qed.

Lemma firstn_S_nth {A} : forall (l : list A) i x, nth_error l i = Some x -> firstn (S i) l = firstn i l ++ [x].
Proof. induction l as [|h t IH]; intros [|i] x H; cbn in *; try discriminate; [congruence|]. f_equal. apply IH. exact H. Qed.

Lemma all2_length {A B} (f : A -> B -> bool) : forall a b, all2 f a b = true -> length a = length b.
Proof. induction a as [|x a IH]; intros [|y b] H; cbn in *; try discriminate; auto. apply andb_true_iff in H as [_ H]. f_equal. auto. Qed.

Lemma all2_nth {A B} (f : A -> B -> bool) : forall a b i x y, all2 f a b = true -> nth_error a i = Some x -> nth_error b i = Some y -> f x y = true.
Proof.
  induction a as [|x0 a IH]; intros [|y0 b] [|i] x y H Ha Hb; cbn in *; try discriminate.
  - apply andb_true_iff in H as [H _]. congruence.
  - apply andb_true_iff in H as [_ H]. eapply IH; eauto.
Qed.

Lemma tlv_app_nonnil t pl (x : bytes) : tlv t pl ++ x <> [].
Proof. pose proof (tlv_length_ge2 t pl). destruct (tlv t pl); [cbn in *; lia|discriminate]. Qed.

Section RT.
  Variable sc : schema.
  Variable D : nat.
  Variable Fmax : nat.
  Hypothesis Hsub : forall f2 mi vs ic, (S f2 <= Fmax)%nat -> wf_value f2 sc mi vs = true -> small (encode f2 sc mi vs) ->
    exists cx cv, bparse D sc mi ic (br_of (encode f2 sc mi vs)) = Ok (vs, cx, cv).
  Variable m : model.
  Variable nm : nat.
  Hypothesis Hm : model_wf nm m = true.
  Variable ic : bool.
  Variable f : nat.
  Hypothesis Hf : (S f <= Fmax)%nat.
  Variable vs : list value.
  Hypothesis Hwf : all2 (fun g x => wf_val (S f) sc (fk g) x) (flds m) vs = true.

  Notation sub := (bparse D sc).
  Notation fs := (flds m).
  Notation n := (length (flds m)).

  (* a run of unrecognised elements.  c = false: zero or more elements the parser must skip.
     c = true: such a run followed by an unrecognised CRITICAL element (the caller did not ask to ignore critical
     ones) and then arbitrary bytes: the parser must stop there with an error. *)
  Inductive unk (c : bool) : bytes -> Prop :=
  | unk_nil : c = false -> unk c []
  | unk_cons t pl u : is_unk m ic t -> small pl -> unk c u -> unk c (tlv t pl ++ u)
  | unk_crit t l junk : c = true -> find_field t 0 fs = None -> critical t = true -> ic = false ->
                        t < two64 -> l < two64 -> unk c (tl_enc t ++ tl_enc l ++ junk).

  (* the element list with runs of unrecognised elements between, before and after; with c = true the stream stops at
     a critical unrecognised element somewhere (the remaining elements are then irrelevant) *)
  Inductive mixed (c : bool) : list bytes -> bytes -> Prop :=
  | mixed_nil u : unk c u -> mixed c [] u
  | mixed_cons u e es x : unk false u -> mixed c es x -> mixed c (e :: es) (u ++ e ++ x)
  | mixed_stop u es : c = true -> unk true u -> mixed c es u.

  Lemma mixed_concat es : mixed false es (concat es).
  Proof.
    induction es as [|e es IH]; cbn [concat].
    - apply mixed_nil. constructor. reflexivity.
    - apply (mixed_cons false [] e es (concat es)); [constructor; reflexivity|exact IH].
  Qed.

  Lemma b_ploop_unk : forall u, unk false u -> forall k s p pre x, (p < Z.of_nat n)%Z -> (length (u ++ x) < k)%nat ->
    exists k', (length x < k')%nat /\
      b_ploop sub k m ic s p (mkbr pre (u ++ x)) = b_ploop sub k' m ic s p (mkbr (rev u ++ pre) x).
  Proof.
    induction 1 as [_|t pl u Ht Hs Hu IH|t l junk Hc]; intros k s p pre x Hp Hk; [| |discriminate Hc].
    - exists k. split; [exact Hk|reflexivity].
    - destruct k as [|k]; [lia|].
      rewrite <- app_assoc. rewrite (b_ploop_step sub m nm Hm ic).
      2:{ pose proof (tlv_length_ge2 t pl). destruct (tlv t pl); [cbn in *; lia|discriminate]. }
      rewrite (b_pstep_unk sub m nm Hm ic t pl _ s p pre (u ++ x) Ht Hs Hp).
      destruct (IH k s p (rev (tlv t pl) ++ pre) x Hp) as [k' [Hk' E]].
      + rewrite <- app_assoc, app_length in Hk. pose proof (tlv_length_ge2 t pl). cbn [length] in Hk. lia.
      + exists k'. split; [exact Hk'|]. rewrite E. rewrite rev_app_distr, <- app_assoc. reflexivity.
  Qed.

  (* a critical unrecognised element stops the parser with ErrUnrecognizedField *)
  Lemma b_pstep_crit t l junk sp s p pre :
    find_field t 0 fs = None -> critical t = true -> ic = false -> t < two64 -> l < two64 -> (p < Z.of_nat n)%Z ->
    exists r', b_pstep sub m ic sp s p (mkbr pre (tl_enc t ++ tl_enc l ++ junk)) = RErr E_CRITICAL r'.
  Proof.
    intros Hnf Hc Hic Ht Hl Hp. unfold pstep.
    rewrite (b_rd_tlnum_enc t pre (tl_enc l ++ junk) Ht). cbn [negb].
    rewrite (b_rd_tlnum_enc l (rev (tl_enc t) ++ pre) junk Hl). cbn [negb].
    destruct (ordered m).
    - cbn [oloop]. destruct (p >=? Z.of_nat n)%Z eqn:E; [lia|]. rewrite Hnf.
      unfold rd_unknown. rewrite Hic, Hc. cbn [negb andb]. eexists; reflexivity.
    - unfold ustep. rewrite Hnf. unfold rd_unknown. rewrite Hic, Hc. cbn [negb andb]. eexists; reflexivity.
  Qed.

  Lemma b_ploop_unk_crit : forall u, unk true u -> forall k s p pre, (p < Z.of_nat n)%Z -> (length u < k)%nat ->
    b_ploop sub k m ic s p (mkbr pre u) = Err E_CRITICAL.
  Proof.
    induction 1 as [Hc|t pl u Ht Hs Hu IH|t l junk _ Hnf Hc Hic Ht Hl]; intros k s p pre Hp Hk; [discriminate Hc| |].
    - destruct k as [|k]; [lia|].
      rewrite (b_ploop_step sub m nm Hm ic). 2:{ apply tlv_app_nonnil. }
      rewrite (b_pstep_unk sub m nm Hm ic t pl _ s p pre u Ht Hs Hp).
      apply IH; [exact Hp|]. rewrite app_length in Hk. pose proof (tlv_length_ge2 t pl). lia.
    - destruct k as [|k]; [lia|].
      rewrite (b_ploop_step sub m nm Hm ic).
      2:{ pose proof (tl_enc_length t). pose proof (tl_len_pos t). destruct (tl_enc t); [cbn in *; lia|discriminate]. }
      destruct (b_pstep_crit t l junk (Z.of_nat (length pre)) s p pre Hnf Hc Hic Ht Hl Hp) as [r' E]. rewrite E. reflexivity.
  Qed.

  (* ---- the loop invariant: fields before i are done ---- *)
  Definition zeros (l : list field) : list value := map (fun g => zero_of (fk g)) l.

  Record inv_mid (i : nat) (w : value) (s : pst) (p : Z) : Prop := {
    im_vals : p_vals s = firstn i vs ++ w :: zeros (skipn (S i) fs);
    im_hand : forall j g, (j < i)%nat -> nth_error fs j = Some g -> present (fk g) (nth j vs VNone) = true ->
                          is_rep (fk g) = false -> nth j (p_hand s) false = true;
    im_p : (-1 <= p < Z.of_nat i)%Z;
    im_walk : ordered m = true -> forall j g, (p < Z.of_nat j < Z.of_nat i)%Z -> nth_error fs j = Some g -> skippable (fk g) (nth j vs VNone);
    im_len : length (p_hand s) = n;
  }.

  Record inv (i : nat) (s : pst) (p : Z) : Prop := {
    iv_vals : p_vals s = firstn i vs ++ zeros (skipn i fs);
    iv_hand : forall j g, (j < i)%nat -> nth_error fs j = Some g -> present (fk g) (nth j vs VNone) = true ->
                          is_rep (fk g) = false -> nth j (p_hand s) false = true;
    iv_p : (-1 <= p < Z.of_nat i \/ (i = 0%nat /\ p = -1))%Z;
    iv_walk : ordered m = true -> forall j g, (p < Z.of_nat j < Z.of_nat i)%Z -> nth_error fs j = Some g -> skippable (fk g) (nth j vs VNone);
    iv_len : length (p_hand s) = n;
  }.

  Lemma len_vs : length vs = n.
  Proof. symmetry. eapply all2_length; eauto. Qed.

  Lemma wf_at i g : nth_error fs i = Some g -> wf_val (S f) sc (fk g) (nth i vs VNone) = true.
  Proof.
    intros Hg. assert (Hi : (i < length vs)%nat) by (rewrite len_vs; apply nth_error_Some; congruence).
    destruct (nth_error vs i) as [v|] eqn:Ev; [|apply nth_error_None in Ev; lia].
    rewrite (nth_error_nth' vs i v VNone Ev). eapply (all2_nth _ fs vs i g v Hwf Hg Ev).
  Qed.

  Lemma vals_slot i w j : (j < i)%nat -> (i <= length vs)%nat -> nth j (firstn i vs ++ w) VNone = nth j vs VNone.
  Proof.
    intros Hj Hi. rewrite app_nth1 by (rewrite firstn_length; lia).
    rewrite <- (firstn_skipn i vs) at 2. rewrite app_nth1 by (rewrite firstn_length; lia). reflexivity.
  Qed.

  (* walk_ok of LoopLemmas from the invariant *)
  Lemma walk_from_mid i w s p : (i <= length vs)%nat -> inv_mid i w s p -> ordered m = true -> walk_ok sc m s p i.
  Proof.
    intros Hi [Hv _ Hp Hw _] Ho j g Hj Hg. unfold skippable_at. rewrite Hv.
    rewrite vals_slot by lia. split; [exists (S f); apply wf_at; exact Hg|apply Hw; assumption].
  Qed.

  Lemma inv_to_mid i g s p : nth_error fs i = Some g -> inv i s p -> inv_mid i (zero_of (fk g)) s p.
  Proof.
    intros Hg [Hv Hh Hp Hw Hl]. constructor; auto.
    - rewrite Hv. rewrite (nth_error_skipn_cons fs i g Hg). reflexivity.
    - lia.
  Qed.

  Lemma nth_vs i g : nth_error fs i = Some g -> nth_error vs i = Some (nth i vs VNone).
  Proof.
    intros Hg. assert (Hi : (i < length vs)%nat) by (rewrite len_vs; apply nth_error_Some; congruence).
    destruct (nth_error vs i) as [v|] eqn:Ev; [|apply nth_error_None in Ev; lia].
    rewrite (nth_error_nth' vs i v VNone Ev). reflexivity.
  Qed.

  Lemma make_inv i g s p' : nth_error fs i = Some g ->
    p_vals s = firstn i vs ++ nth i vs VNone :: zeros (skipn (S i) fs) ->
    (forall j g', (j < S i)%nat -> nth_error fs j = Some g' -> present (fk g') (nth j vs VNone) = true ->
                  is_rep (fk g') = false -> nth j (p_hand s) false = true) ->
    (-1 <= p' <= Z.of_nat i)%Z ->
    (ordered m = true -> forall j g', (p' < Z.of_nat j < Z.of_nat (S i))%Z -> nth_error fs j = Some g' -> skippable (fk g') (nth j vs VNone)) ->
    length (p_hand s) = n -> inv (S i) s p'.
  Proof.
    intros Hg Hv Hh Hp Hw Hl. constructor; auto.
    - rewrite Hv. rewrite (firstn_S_nth vs i _ (nth_vs i g Hg)). rewrite <- app_assoc. reflexivity.
    - lia.
  Qed.

  Lemma single_is_data k : single k = true -> kind_is_data k = true.
  Proof. destruct k; intros H; try reflexivity; discriminate H. Qed.

  Lemma mixed_inv_cons c e es x : mixed c (e :: es) x ->
    (exists u x1, x = u ++ e ++ x1 /\ unk false u /\ mixed c es x1) \/ (c = true /\ unk true x).
  Proof. intros H. inversion H; subst; [left; eauto|right; auto]. Qed.

  (* the outcome of a run that hits the critical element *)
  Lemma crit_now c x k s p pre : c = true -> unk true x -> (p < Z.of_nat n)%Z -> (length x < k)%nat ->
    c = true /\ b_ploop sub k m ic s p (mkbr pre x) = Err E_CRITICAL.
  Proof. intros Hc Hu Hp Hk. split; [exact Hc|]. apply b_ploop_unk_crit; assumption. Qed.

  Lemma firstn_len_i i : (i <= length vs)%nat -> length (firstn i vs) = i.
  Proof. intros H. apply firstn_length_le. exact H. Qed.

  (* ---- a present single-element field ---- *)
  Lemma step_single i g : nth_error fs i = Some g -> single (fk g) = true -> present (fk g) (nth i vs VNone) = true ->
    small (enc_val (S f) sc (ftyp g) (fk g) (nth i vs VNone)) ->
    forall c es x k s p pre, inv i s p -> mixed c (enc_val (S f) sc (ftyp g) (fk g) (nth i vs VNone) :: es) x -> (length x < k)%nat ->
    (c = true /\ b_ploop sub k m ic s p (mkbr pre x) = Err E_CRITICAL) \/
    exists k' s' p' pre' x', mixed c es x' /\ inv (S i) s' p' /\ (length x' < k')%nat /\
      b_ploop sub k m ic s p (mkbr pre x) = b_ploop sub k' m ic s' p' (mkbr pre' x').
  Proof.
    intros Hg Hs Hp Hsm c es x k s p pre Hinv Hmix Hk.
    assert (Hin0 : (i < n)%nat) by (apply nth_error_Some; congruence).
    set (v := nth i vs VNone) in *.
    pose proof (wf_at i g Hg) as Hw. fold v in Hw.
    pose proof (inv_to_mid i g s p Hg Hinv) as Hmid.
    assert (Hi : (i < length vs)%nat) by (rewrite len_vs; apply nth_error_Some; congruence).
    destruct (mixed_inv_cons _ _ _ _ Hmix) as [[u [x1 [-> [Hu Hm1]]]] | [Hc Hcrit]].
    2:{ left. apply crit_now; auto. destruct Hinv as [_ _ Ip _ _]. lia. }
    right.
    rewrite (enc_val_single f sc (ftyp g) (fk g) v Hs Hw Hp) in *.
    set (pl := payload f sc (fk g) v) in *.
    assert (Hspl : small pl).
    { unfold tlv in Hsm. apply small_app_r in Hsm. apply small_app_r in Hsm. exact Hsm. }
    destruct Hmid as [Mv Mh Mp Mw Ml].
    assert (Hin : (i < n)%nat) by (apply nth_error_Some; congruence).
    destruct (b_ploop_unk u Hu k s p pre (tlv (ftyp g) pl ++ x1)) as [k1 [Hk1 E1]]; [lia|exact Hk|].
    rewrite E1. destruct k1 as [|k2]; [lia|].
    rewrite (b_ploop_step sub m nm Hm ic).
    2:{ pose proof (tlv_length_ge2 (ftyp g) pl). destruct (tlv (ftyp g) pl); [cbn in *; lia|discriminate]. }
    destruct (b_pstep_field sc sub m nm Hm ic i g pl (Z.of_nat (length (rev u ++ pre))) s p (rev u ++ pre) x1 Hg
                (single_is_data _ Hs) Hspl Mp) as [s1 [V1 [H1 E2]]].
    { intros Ho. apply (walk_from_mid i (zero_of (fk g)) s p); [lia| |exact Ho]. constructor; auto. }
    rewrite E2.
    destruct (b_rd_field_single sc D Fmax Hsub f ic i (fk g) v (Z.of_nat (length (rev u ++ pre))) s1
                (rev (tl_enc (N.of_nat (length pl))) ++ rev (tl_enc (ftyp g)) ++ rev u ++ pre) x1 Hf Hs Hw Hp Hspl)
      as [s2 [E3 [V2 H2]]].
    fold pl in E3. rewrite E3.
    eexists k2, s2, _, _, x1. split; [exact Hm1|]. split; [|split; [|reflexivity]].
    - apply (make_inv i g); auto.
      + rewrite V2, V1, Mv. rewrite <- (firstn_len_i i) at 1 by lia. apply upd_app_mid.
      + intros j g' Hj Hg' Hpj Hrj. rewrite H2.
        destruct (Nat.eq_dec j i) as [->|Hne].
        * apply nth_upd_same. destruct H1 as [L1 _]. rewrite <- L1, Ml. apply nth_error_Some. congruence.
        * rewrite nth_upd_other by congruence. apply H1. apply (Mh j g'); auto. lia.
      + destruct (ordered m); destruct (is_rep (fk g)) eqn:Er; lia.
      + intros Ho j g' Hj Hg'. rewrite Ho in Hj.
        assert (Er : is_rep (fk g) = false) by (destruct (fk g); try discriminate Hs; reflexivity).
        rewrite Er in Hj. lia.
      + rewrite H2, upd_length. destruct H1 as [L1 _]. rewrite <- L1. exact Ml.
    - rewrite !app_length in Hk1. pose proof (tlv_length_ge2 (ftyp g) pl). lia.
  Qed.

  (* ---- repeated fields ---- *)
  Lemma mid_update i w w' s s1 s2 p : (i < length vs)%nat -> inv_mid i w s p ->
    p_vals s1 = p_vals s -> hand_le (p_hand s) (p_hand s1) ->
    p_vals s2 = upd i w' (p_vals s1) -> p_hand s2 = upd i true (p_hand s1) ->
    inv_mid i w' s2 (if ordered m then (Z.of_nat i - 1)%Z else p).
  Proof.
    intros Hi [Mv Mh Mp Mw Ml] V1 H1 V2 H2. constructor.
    - rewrite V2, V1, Mv. rewrite <- (firstn_len_i i) at 1 by lia. apply upd_app_mid.
    - intros j g' Hj Hg' Hpj Hrj. rewrite H2. rewrite nth_upd_other by lia. apply H1. apply (Mh j g'); auto.
    - destruct (ordered m); lia.
    - intros Ho j g' Hj Hg'. rewrite Ho in Hj. lia.
    - rewrite H2, upd_length. destruct H1 as [L1 _]. rewrite <- L1. exact Ml.
  Qed.

  Lemma mid_slot i w s p : (i <= length vs)%nat -> inv_mid i w s p -> nth i (p_vals s) VNone = w.
  Proof. intros Hi [Mv _ _ _ _]. rewrite Mv. rewrite <- (firstn_len_i i) at 1 by lia. apply nth_app_mid. Qed.

  Lemma step_seq c i g k0 : nth_error fs i = Some g -> fk g = KSeq k0 -> seq_sub_ok k0 = true ->
    forall l old es x k s p pre,
    (forall e, In e l -> is_none e = false /\ wf_val f sc k0 e = true /\ small (enc_val f sc (ftyp g) k0 e)) ->
    inv_mid i (VSeq old) s p -> mixed c (map (enc_val f sc (ftyp g) k0) l ++ es) x -> (length x < k)%nat ->
    (c = true /\ b_ploop sub k m ic s p (mkbr pre x) = Err E_CRITICAL) \/
    exists k' s' p' pre' x', mixed c es x' /\ inv_mid i (VSeq (old ++ l)) s' p' /\ (length x' < k')%nat /\
      b_ploop sub k m ic s p (mkbr pre x) = b_ploop sub k' m ic s' p' (mkbr pre' x').
  Proof.
    intros Hg Hk Hsub0.
    assert (Hi : (i < length vs)%nat) by (rewrite len_vs; apply nth_error_Some; congruence).
    assert (Hin : (i < n)%nat) by (apply nth_error_Some; congruence).
    assert (Hd : kind_is_data (fk g) = true) by (rewrite Hk; reflexivity).
    induction l as [|e l IH]; intros old es x k s p pre Hl Hmid Hmix Hk0.
    - right. exists k, s, p, pre, x. rewrite app_nil_r. auto.
    - cbn [map app] in Hmix. destruct (mixed_inv_cons _ _ _ _ Hmix) as [[u [x1 [-> [Hu Hm1]]]] | [Hc Hcrit]].
      2:{ left. apply crit_now; auto. destruct Hmid as [_ _ Ip _ _]. lia. }
      destruct (Hl e (or_introl eq_refl)) as [Hne [Hwe Hse]].
      assert (Hf0 : exists f0, f = S f0).
      { destruct f as [|f0]; [discriminate Hwe|exists f0; reflexivity]. }
      destruct Hf0 as [f0 Ef0]. rewrite Ef0 in Hwe, Hse, Hm1, Hk0 |- *.
      destruct (seq_sub_facts k0 e Hsub0 Hne) as [_ [Hsg Hpr]].
      rewrite (enc_val_single f0 sc (ftyp g) k0 e Hsg Hwe Hpr) in *.
      set (pl := payload f0 sc k0 e) in *.
      assert (Hspl : small pl).
      { unfold tlv in Hse. apply small_app_r in Hse. apply small_app_r in Hse. exact Hse. }
      pose proof Hmid as [Mv Mh Mp Mw Ml].
      destruct (b_ploop_unk u Hu k s p pre (tlv (ftyp g) pl ++ x1)) as [k1 [Hk1 E1]]; [lia|exact Hk0|].
      rewrite E1. destruct k1 as [|k2]; [lia|].
      rewrite (b_ploop_step sub m nm Hm ic).
      2:{ pose proof (tlv_length_ge2 (ftyp g) pl). destruct (tlv (ftyp g) pl); [cbn in *; lia|discriminate]. }
      destruct (b_pstep_field sc sub m nm Hm ic i g pl (Z.of_nat (length (rev u ++ pre))) s p (rev u ++ pre) x1 Hg Hd Hspl Mp)
        as [s1 [V1 [H1 E2]]].
      { intros Ho. apply (walk_from_mid i (VSeq old) s p); [lia|exact Hmid|exact Ho]. }
      rewrite E2. rewrite Hk.
      assert (Hf0' : (S f0 <= Fmax)%nat) by lia.
      destruct (b_rd_field_seq sc D Fmax Hsub f0 ic i k0 e old (Z.of_nat (length (rev u ++ pre))) s1
                  (rev (tl_enc (N.of_nat (length pl))) ++ rev (tl_enc (ftyp g)) ++ rev u ++ pre) x1 Hf0' Hsub0 Hne Hwe Hspl)
        as [s2 [E3 [V2 H2]]].
      { rewrite V1. apply (mid_slot i (VSeq old) s p); [lia|exact Hmid]. }
      fold pl in E3. rewrite E3. cbn [is_rep].
      pose proof (mid_update i (VSeq old) (VSeq (old ++ [e])) s s1 s2 p Hi Hmid V1 H1 V2 H2) as Hmid2.
      destruct (IH (old ++ [e]) es x1 k2 s2 (if ordered m then (Z.of_nat i - 1)%Z else p)
                  (rev pl ++ rev (tl_enc (N.of_nat (length pl))) ++ rev (tl_enc (ftyp g)) ++ rev u ++ pre))
        as [[Hc A4] | [k' [s' [p' [pre' [x' [A1 [A2 [A3 A4]]]]]]]]].
      + intros e' He'. apply Hl. right. exact He'.
      + exact Hmid2.
      + rewrite Ef0. exact Hm1.
      + rewrite !app_length in Hk1. pose proof (tlv_length_ge2 (ftyp g) pl). lia.
      + left. split; [exact Hc|]. rewrite <- A4. destruct (ordered m); reflexivity.
      + right. exists k', s', p', pre', x'. rewrite <- app_assoc in A2. cbn [app] in A2.
        split; [exact A1|]. split; [exact A2|]. split; [exact A3|].
        rewrite <- A4. destruct (ordered m); reflexivity.
  Qed.

  Lemma value_eqb_key_sym a b : value_eqb_key a b = value_eqb_key b a.
  Proof.
    destruct a, b; try reflexivity; cbn [value_eqb_key].
    - apply N.eqb_sym.
    - destruct (bytes_eqb b0 b) eqn:E1; destruct (bytes_eqb b b0) eqn:E2; try reflexivity.
      + apply bytes_eqb_spec in E1. subst. rewrite (proj2 (bytes_eqb_spec b b) eq_refl) in E2. discriminate.
      + apply bytes_eqb_spec in E2. subst. rewrite (proj2 (bytes_eqb_spec b0 b0) eq_refl) in E1. discriminate.
  Qed.

  Lemma map_put_fresh k v : forall old, existsb (fun kv => value_eqb_key k (fst kv)) old = false ->
    map_put k v old = old ++ [(k, v)].
  Proof.
    induction old as [|[k' v'] old IH]; intros H; [reflexivity|].
    cbn [existsb fst] in H. apply orb_false_iff in H as [H1 H2].
    cbn [map_put]. rewrite H1. rewrite IH by exact H2. reflexivity.
  Qed.

  Lemma keys_nodup_app : forall a b, keys_nodup (a ++ b) = true ->
    forall o e, In o a -> In e b -> value_eqb_key (fst o) (fst e) = false.
  Proof.
    induction a as [|[k0 v0] a IH]; intros b H o e Ho He; [destruct Ho|].
    cbn [app keys_nodup] in H. apply andb_true_iff in H as [H1 H2]. destruct Ho as [<-|Ho].
    - apply negb_true_iff in H1. cbn [fst].
      destruct (value_eqb_key k0 (fst e)) eqn:E; [|reflexivity].
      assert (existsb (fun kv => value_eqb_key k0 (fst kv)) (a ++ b) = true).
      { apply existsb_exists. exists e. split; [apply in_or_app; right; exact He|exact E]. }
      congruence.
    - eapply IH; eauto.
  Qed.

  Lemma step_map c i g key vt val : nth_error fs i = Some g -> fk g = KMap key vt val ->
    map_key_ok key = true -> map_val_ok val = true -> vt < two64 ->
    forall l old es x k s p pre,
    (forall kv, In kv l -> is_none (fst kv) = false /\ is_none (snd kv) = false /\
                           wf_val f sc key (fst kv) = true /\ wf_val f sc val (snd kv) = true /\
                           small (enc_val f sc (ftyp g) key (fst kv) ++ enc_val f sc vt val (snd kv))) ->
    keys_nodup (old ++ l) = true ->
    inv_mid i (VMap old) s p ->
    mixed c (map (fun kv => enc_val f sc (ftyp g) key (fst kv) ++ enc_val f sc vt val (snd kv)) l ++ es) x -> (length x < k)%nat ->
    (c = true /\ b_ploop sub k m ic s p (mkbr pre x) = Err E_CRITICAL) \/
    exists k' s' p' pre' x', mixed c es x' /\ inv_mid i (VMap (old ++ l)) s' p' /\ (length x' < k')%nat /\
      b_ploop sub k m ic s p (mkbr pre x) = b_ploop sub k' m ic s' p' (mkbr pre' x').
  Proof.
    intros Hg Hk Hkey Hval Hvt.
    assert (Hi : (i < length vs)%nat) by (rewrite len_vs; apply nth_error_Some; congruence).
    assert (Hin : (i < n)%nat) by (apply nth_error_Some; congruence).
    assert (Hd : kind_is_data (fk g) = true) by (rewrite Hk; reflexivity).
    induction l as [|[kx vx] l IH]; intros old es x k s p pre Hl Hnd Hmid Hmix Hk0.
    - right. exists k, s, p, pre, x. rewrite app_nil_r. auto.
    - cbn [map app fst snd] in Hmix. destruct (mixed_inv_cons _ _ _ _ Hmix) as [[u [x1 [-> [Hu Hm1]]]] | [Hc Hcrit]].
      2:{ left. apply crit_now; auto. destruct Hmid as [_ _ Ip _ _]. clear - Ip Hin. lia. }
      destruct (Hl (kx, vx) (or_introl eq_refl)) as [Hnk [Hnv [Hwk [Hwv Hse]]]]. cbn [fst snd] in *.
      assert (Hf0 : exists f0, f = S f0).
      { destruct f as [|f0]; [discriminate Hwk|exists f0; reflexivity]. }
      destruct Hf0 as [f0 Ef0]. rewrite Ef0 in Hwk, Hwv, Hse, Hm1, Hk0 |- *.
      destruct (seq_sub_facts key kx (map_key_seq _ Hkey) Hnk) as [_ [Hsgk Hprk]].
      destruct (seq_sub_facts val vx (map_val_seq _ Hval) Hnv) as [_ [Hsgv Hprv]].
      rewrite (enc_val_single f0 sc (ftyp g) key kx Hsgk Hwk Hprk) in *.
      rewrite (enc_val_single f0 sc vt val vx Hsgv Hwv Hprv) in *.
      set (plk := payload f0 sc key kx) in *. set (plv := payload f0 sc val vx) in *.
      assert (Hsk : small plk).
      { apply small_app_l in Hse. unfold tlv in Hse. apply small_app_r in Hse. apply small_app_r in Hse. exact Hse. }
      assert (Hsv : small plv).
      { apply small_app_r in Hse. unfold tlv in Hse. apply small_app_r in Hse. apply small_app_r in Hse. exact Hse. }
      pose proof Hmid as [Mv Mh Mp Mw Ml].
      assert (Hk0' : (length (u ++ tlv (ftyp g) plk ++ tlv vt plv ++ x1) < k)%nat).
      { clear - Hk0. rewrite !app_length in Hk0 |- *. lia. }
      replace (u ++ (tlv (ftyp g) plk ++ tlv vt plv) ++ x1) with (u ++ tlv (ftyp g) plk ++ tlv vt plv ++ x1)
        by (rewrite <- !app_assoc; reflexivity).
      destruct (b_ploop_unk u Hu k s p pre (tlv (ftyp g) plk ++ tlv vt plv ++ x1)) as [k1 [Hk1 E1]]; [clear - Mp Hin; lia|exact Hk0'|].
      rewrite E1. destruct k1 as [|k2]; [exfalso; clear - Hk1; lia|].
      rewrite (b_ploop_step sub m nm Hm ic).
      2:{ apply tlv_app_nonnil. }
      destruct (b_pstep_field sc sub m nm Hm ic i g plk (Z.of_nat (length (rev u ++ pre))) s p (rev u ++ pre) (tlv vt plv ++ x1) Hg Hd Hsk Mp)
        as [s1 [V1 [H1 E2]]].
      { intros Ho. apply (walk_from_mid i (VMap old) s p); [clear - Hi; lia|exact Hmid|exact Ho]. }
      rewrite E2. rewrite Hk.
      assert (Hf0' : (S f0 <= Fmax)%nat) by (clear - Hf Ef0; lia).
      destruct (b_rd_field_map sc D Fmax Hsub f0 ic i key vt val kx vx old (Z.of_nat (length (rev u ++ pre))) s1
                  (rev (tl_enc (N.of_nat (length plk))) ++ rev (tl_enc (ftyp g)) ++ rev u ++ pre) x1
                  Hf0' Hkey Hval Hvt Hnk Hnv Hwk Hwv Hsk Hsv)
        as [s2 [E3 [V2 H2]]].
      { rewrite V1. apply (mid_slot i (VMap old) s p); [clear - Hi; lia|exact Hmid]. }
      fold plk plv in E3. rewrite E3. cbn [is_rep].
      assert (Hfresh : map_put kx vx old = old ++ [(kx, vx)]).
      { apply map_put_fresh. apply not_true_is_false. intro Hex. apply existsb_exists in Hex as [o [Ho Eo]].
        pose proof (keys_nodup_app old ((kx, vx) :: l) Hnd o (kx, vx) Ho (or_introl eq_refl)) as Hne. cbn [fst] in Hne.
        rewrite value_eqb_key_sym in Hne. congruence. }
      rewrite Hfresh in V2.
      pose proof (mid_update i (VMap old) (VMap (old ++ [(kx, vx)])) s s1 s2 p Hi Hmid V1 H1 V2 H2) as Hmid2.
      destruct (IH (old ++ [(kx, vx)]) es x1 k2 s2 (if ordered m then (Z.of_nat i - 1)%Z else p)
                  (rev (plk ++ tlv vt plv) ++ rev (tl_enc (N.of_nat (length plk))) ++ rev (tl_enc (ftyp g)) ++ rev u ++ pre))
        as [[Hc A4] | [k' [s' [p' [pre' [x' [A1 [A2 [A3 A4]]]]]]]]].
      + intros kv Hkv. apply Hl. right. exact Hkv.
      + rewrite <- app_assoc. exact Hnd.
      + exact Hmid2.
      + rewrite Ef0. exact Hm1.
      + pose proof (tlv_length_ge2 (ftyp g) plk) as Hge. clear - Hk1 Hge. rewrite !app_length in Hk1. lia.
      + left. split; [exact Hc|]. rewrite <- A4. destruct (ordered m); reflexivity.
      + right. exists k', s', p', pre', x'. rewrite <- app_assoc in A2. cbn [app] in A2.
        split; [exact A1|]. split; [exact A2|]. split; [exact A3|].
        rewrite <- A4. destruct (ordered m); reflexivity.
  Qed.

  (* ---- facts extracted from model_wf ---- *)
  Lemma field_wf_at i g : nth_error fs i = Some g -> field_wf nm n g = true.
  Proof.
    intros Hg. unfold model_wf in Hm. apply andb_true_iff in Hm as [Hm' _]. apply andb_true_iff in Hm' as [Hm' _].
    apply andb_true_iff in Hm' as [Hfw _]. rewrite forallb_forall in Hfw. apply Hfw. eapply nth_error_In; eauto.
  Qed.

  Lemma wf_seq_sub i g k0 : nth_error fs i = Some g -> fk g = KSeq k0 -> seq_sub_ok k0 = true.
  Proof.
    intros Hg Hk. pose proof (field_wf_at i g Hg) as H. unfold field_wf in H. apply andb_true_iff in H as [H _].
    rewrite Hk in H. cbn [kind_wf] in H. apply andb_true_iff in H as [_ H].
    destruct k0; try discriminate H; try (destruct opt; try discriminate H); reflexivity.
  Qed.

  Lemma wf_map_sub i g key vt val : nth_error fs i = Some g -> fk g = KMap key vt val ->
    map_key_ok key = true /\ map_val_ok val = true /\ vt < two64.
  Proof.
    intros Hg Hk. pose proof (field_wf_at i g Hg) as H. unfold field_wf in H. apply andb_true_iff in H as [H _].
    rewrite Hk in H. cbn [kind_wf] in H.
    apply andb_true_iff in H as [H Hv]. apply andb_true_iff in H as [H Hkey]. apply andb_true_iff in H as [_ Hvt].
    unfold typ_ok in Hvt. repeat split.
    - destruct key; try discriminate Hkey; destruct opt; try discriminate Hkey; reflexivity.
    - destruct val; try discriminate Hv; try (destruct opt; try discriminate Hv); reflexivity.
    - lia.
  Qed.

  (* ---- sizes ---- *)
  Hypothesis Hsmall : small (enc_fields (S f) sc fs vs).

  Lemma small_field : forall (l : list field) (ws : list value) i g,
    small (enc_fields (S f) sc l ws) -> nth_error l i = Some g ->
    small (enc_val (S f) sc (ftyp g) (fk g) (nth i ws VNone)).
  Proof.
    induction l as [|h l IH]; intros ws i g Hs Hg; [destruct i; discriminate|].
    destruct ws as [|w ws].
    - destruct i; cbn [nth]; destruct (fk g); unfold small; cbn; unfold two63; lia.
    - cbn [enc_fields zipf] in Hs. destruct i as [|i]; cbn in Hg.
      + inversion Hg; subst. cbn [nth]. apply small_app_l in Hs. exact Hs.
      + cbn [nth]. apply (IH ws i g); [|exact Hg]. apply small_app_r in Hs. exact Hs.
  Qed.

  Lemma small_concat_in : forall (l : list bytes) e, small (concat l) -> In e l -> small e.
  Proof.
    induction l as [|h l IH]; intros e Hs He; [destruct He|]. cbn [concat] in Hs. destruct He as [<-|He].
    - apply small_app_l in Hs. exact Hs.
    - apply IH; [apply small_app_r in Hs; exact Hs|exact He].
  Qed.

  (* ---- the whole loop ---- *)
  Lemma mixed_inv_nil c x : mixed c [] x -> unk c x \/ (c = true /\ unk true x).
  Proof. intros H. inversion H; subst; [left; assumption|right; auto]. Qed.

  Lemma fields_loop c : forall rem i, (rem = n - i)%nat -> (i <= n)%nat ->
    forall x k s p pre, inv i s p -> mixed c (elems_fields f sc (skipn i fs) (skipn i vs)) x -> (length x < k)%nat ->
    if c then b_ploop sub k m ic s p (mkbr pre x) = Err E_CRITICAL
    else exists cx cv, b_ploop sub k m ic s p (mkbr pre x) = Ok (vs, cx, cv).
  Proof.
    induction rem as [|rem IH]; intros i Hrem Hi x k s p pre Hinv Hmix Hk.
    - (* all fields done: trailing unrecognised elements, then the final pass *)
      assert (i = n) by lia. subst i.
      rewrite skipn_all in Hmix. cbn [elems_fields] in Hmix.
      destruct Hinv as [Iv Ih Ip Iw Il].
      destruct (mixed_inv_nil _ _ Hmix) as [Hu | [Hc Hu]].
      2:{ subst c. apply b_ploop_unk_crit; [exact Hu|lia|exact Hk]. }
      destruct c; [apply b_ploop_unk_crit; [exact Hu|lia|exact Hk]|].
      destruct (b_ploop_unk x Hu k s p pre []) as [k1 [Hk1 E1]]; [lia|rewrite app_nil_r; exact Hk|].
      rewrite app_nil_r in E1. rewrite E1. destruct k1 as [|k2]; [cbn in Hk1; lia|].
      rewrite (b_ploop_end sub m nm Hm ic).
      rewrite skipn_all in Iv. cbn [zeros map] in Iv. rewrite app_nil_r in Iv.
      rewrite <- len_vs in Iv. rewrite firstn_all in Iv.
      destruct (b_finish_vals sc (S f) fs 0 (Z.of_nat (length (rev x ++ pre))) s (mkbr (rev x ++ pre) [])) as [s' [E2 E3]].
      + intros j g Hg Hh. cbn [plus] in *. rewrite Iv. split; [apply wf_at; exact Hg|].
        unfold skippable. destruct (is_rep (fk g)) eqn:Er; [left; reflexivity|right].
        destruct (present (fk g) (nth j vs VNone)) eqn:Ep; [|reflexivity].
        assert (Hjn : (j < n)%nat) by (apply nth_error_Some; congruence).
        rewrite (Ih j g Hjn Hg Ep Er) in Hh. discriminate Hh.
      + rewrite E2. rewrite E3, Iv. eauto.
    - assert (Hlt : (i < n)%nat) by lia.
      destruct (nth_error fs i) as [g|] eqn:Hg; [|apply nth_error_None in Hg; lia].
      pose proof (nth_vs i g Hg) as Hv. set (v := nth i vs VNone) in *.
      rewrite (nth_error_skipn_cons fs i g Hg), (nth_error_skipn_cons vs i v Hv) in Hmix.
      cbn [elems_fields] in Hmix.
      pose proof (wf_at i g Hg) as Hw. fold v in Hw.
      pose proof (small_field fs vs i g Hsmall Hg) as Hsv. fold v in Hsv.
      assert (Hil : (i < length vs)%nat) by (rewrite len_vs; exact Hlt).
      (* after field i: continue with the induction hypothesis *)
      assert (Hnext : forall k' s' p' pre' x', mixed c (elems_fields f sc (skipn (S i) fs) (skipn (S i) vs)) x' ->
                inv (S i) s' p' -> (length x' < k')%nat ->
                if c then b_ploop sub k' m ic s' p' (mkbr pre' x') = Err E_CRITICAL
                else exists cx cv, b_ploop sub k' m ic s' p' (mkbr pre' x') = Ok (vs, cx, cv)).
      { intros k' s' p' pre' x' A1 A2 A3. apply (IH (S i)); auto; lia. }
      pose proof (inv_to_mid i g s p Hg Hinv) as Hmid0.
      destruct (is_rep (fk g)) eqn:Erep.
      + (* repeated kinds *)
        destruct (fk g) as [o1|w1 o1|o1| |o1| | | |m1|sub0|key vt val|a1 b1|c1| |a1 b1| ] eqn:Ek; try discriminate Erep.
        * (* sequence *)
          destruct v as [| | | | | |l| |] eqn:Ev; try discriminate Hw.
          cbn [elems_val] in Hmix. cbn [zero_of] in Hmid0.
          cbn [wf_val] in Hw. rewrite forallb_forall in Hw.
          destruct (step_seq c i g sub0 Hg Ek (wf_seq_sub i g sub0 Hg Ek) l [] (elems_fields f sc (skipn (S i) fs) (skipn (S i) vs)) x k s p pre) as [[Hc A4] | [k' [s' [p' [pre' [x' [A1 [A2 [A3 A4]]]]]]]]]; auto.
          { intros e He. specialize (Hw e He). apply andb_true_iff in Hw as [W1 W2]. apply negb_true_iff in W1.
            split; [exact W1|]. split; [exact W2|].
            cbn [enc_val] in Hsv. apply (small_concat_in _ _ Hsv). apply in_map. exact He. }
          { subst c. exact A4. }
          rewrite A4. cbn [app] in A2. destruct A2 as [Mv Mh Mp Mw Ml].
          apply Hnext; auto. apply (make_inv i g); auto.
          -- fold v. rewrite Ev. exact Mv.
          -- intros j g' Hj Hg' Hpj Hrj. destruct (Nat.eq_dec j i) as [->|Hne].
             ++ rewrite Hg in Hg'. inversion Hg'; subst g'. rewrite Ek in Hrj. discriminate Hrj.
             ++ apply (Mh j g'); auto. lia.
          -- lia.
          -- intros Ho j g' Hj Hg'. destruct (Nat.eq_dec j i) as [->|Hne].
             ++ rewrite Hg in Hg'. inversion Hg'; subst g'. left. rewrite Ek. reflexivity.
             ++ apply (Mw Ho j g'); auto. lia.
        * (* map *)
          destruct v as [| | | | | | |l|] eqn:Ev; try discriminate Hw.
          cbn [elems_val] in Hmix. cbn [zero_of] in Hmid0.
          cbn [wf_val] in Hw. apply andb_true_iff in Hw as [Hw Hnd]. rewrite forallb_forall in Hw.
          destruct (wf_map_sub i g key vt val Hg Ek) as [Hkey [Hval Hvt]].
          destruct (step_map c i g key vt val Hg Ek Hkey Hval Hvt l [] (elems_fields f sc (skipn (S i) fs) (skipn (S i) vs)) x k s p pre) as [[Hc A4] | [k' [s' [p' [pre' [x' [A1 [A2 [A3 A4]]]]]]]]]; auto.
          { intros kv He. specialize (Hw kv He).
            apply andb_true_iff in Hw as [Hw W4]. apply andb_true_iff in Hw as [Hw W3]. apply andb_true_iff in Hw as [W1 W2].
            apply negb_true_iff in W1. apply negb_true_iff in W3. repeat split; auto.
            cbn [enc_val] in Hsv. apply (small_concat_in _ _ Hsv).
            apply (in_map (fun kv0 => enc_val f sc (ftyp g) key (fst kv0) ++ enc_val f sc vt val (snd kv0)) l kv He). }
          { subst c. exact A4. }
          rewrite A4. cbn [app] in A2. destruct A2 as [Mv Mh Mp Mw Ml].
          apply Hnext; auto. apply (make_inv i g); auto.
          -- fold v. rewrite Ev. exact Mv.
          -- intros j g' Hj Hg' Hpj Hrj. destruct (Nat.eq_dec j i) as [->|Hne].
             ++ rewrite Hg in Hg'. inversion Hg'; subst g'. rewrite Ek in Hrj. discriminate Hrj.
             ++ apply (Mh j g'); auto. lia.
          -- lia.
          -- intros Ho j g' Hj Hg'. destruct (Nat.eq_dec j i) as [->|Hne].
             ++ rewrite Hg in Hg'. inversion Hg'; subst g'. left. rewrite Ek. reflexivity.
             ++ apply (Mw Ho j g'); auto. lia.
      + (* single-element kinds and markers *)
        assert (Hel : elems_val f sc (ftyp g) (fk g) v =
                      if single (fk g) && present (fk g) v then [enc_val (S f) sc (ftyp g) (fk g) v] else []).
        { destruct (fk g); try discriminate Erep; destruct v; reflexivity. }
        rewrite Hel in Hmix.
        destruct (single (fk g) && present (fk g) v) eqn:Esp.
        * apply andb_true_iff in Esp as [Es Ep]. cbn [app] in Hmix.
          destruct (step_single i g Hg Es Ep Hsv c (elems_fields f sc (skipn (S i) fs) (skipn (S i) vs)) x k s p pre Hinv Hmix Hk) as [[Hc A4] | [k' [s' [p' [pre' [x' [A1 [A2 [A3 A4]]]]]]]]].
          { subst c. exact A4. }
          rewrite A4. apply Hnext; auto.
        * cbn [app] in Hmix.
          assert (Hz : v = zero_of (fk g)).
          { apply (elems_nil_zero f sc (ftyp g) (fk g) v Hw). first [exact Hel | rewrite Hel, Esp; reflexivity]. }
          assert (Hnp : single (fk g) = false \/ present (fk g) v = false) by (apply andb_false_iff; exact Esp).
          assert (Hpf : present (fk g) v = false).
          { destruct Hnp as [Hns|Hnp]; [|exact Hnp]. destruct (fk g); try discriminate Hns; try discriminate Erep; reflexivity. }
          destruct Hmid0 as [Mv Mh Mp Mw Ml].
          apply Hnext; auto. apply (make_inv i g); auto.
          -- fold v. rewrite Hz. exact Mv.
          -- intros j g' Hj Hg' Hpj Hrj. destruct (Nat.eq_dec j i) as [->|Hne].
             ++ rewrite Hg in Hg'. inversion Hg'; subst g'. fold v in Hpj. congruence.
             ++ apply (Mh j g'); auto. lia.
          -- lia.
          -- intros Ho j g' Hj Hg'. destruct (Nat.eq_dec j i) as [->|Hne].
             ++ rewrite Hg in Hg'. inversion Hg'; subst g'. right. exact Hpf.
             ++ apply (Mw Ho j g'); auto. lia.
  Qed.
  (* ================================================================================================ *)
  (* Generalisation to every nesting depth: the value bytes of a struct-typed element (a struct field, an element of a
     sequence of structs, the value of a map of structs) may be any bytes `pl` with Q m' fs' pl — bytes the nested parser maps
     to the nested value, e.g. the nested encoding with unrecognised skippable elements inside (Theorems13: Q = noisy). *)
  Variable Q : nat -> list value -> bytes -> Prop.
  Hypothesis HQ : forall m' fs' pl, Q m' fs' pl -> exists cx cv, bparse D sc m' ic (br_of pl) = Ok (fs', cx, cv).

  Definition payq (f0 : nat) (k : fkind) (v : value) (pl : bytes) : Prop :=
    match k with
    | KStruct m' => match v with VStruct fs' => Q m' fs' pl | _ => False end
    | _ => pl = payload f0 sc k v
    end.

  Lemma payq_pay f0 k v pl : payq f0 k v pl -> pay sc D f0 ic k v pl.
  Proof. destruct k; intros H; try exact H. destruct v; try exact H. cbn [payq pay] in *. apply HQ. exact H. Qed.

  Lemma step_single_g i g pl : nth_error fs i = Some g -> single (fk g) = true -> present (fk g) (nth i vs VNone) = true ->
    small pl -> payq f (fk g) (nth i vs VNone) pl ->
    forall c es x k s p pre, inv i s p -> mixed c (tlv (ftyp g) pl :: es) x -> (length x < k)%nat ->
    (c = true /\ b_ploop sub k m ic s p (mkbr pre x) = Err E_CRITICAL) \/
    exists k' s' p' pre' x', mixed c es x' /\ inv (S i) s' p' /\ (length x' < k')%nat /\
      b_ploop sub k m ic s p (mkbr pre x) = b_ploop sub k' m ic s' p' (mkbr pre' x').
  Proof using Hsub Hm Hf Hwf HQ.
    clear Hsmall.
    intros Hg Hs Hp Hspl Hpay c es x k s p pre Hinv Hmix Hk.
    assert (Hin0 : (i < n)%nat) by (apply nth_error_Some; congruence).
    set (v := nth i vs VNone) in *.
    pose proof (wf_at i g Hg) as Hw. fold v in Hw.
    pose proof (inv_to_mid i g s p Hg Hinv) as Hmid.
    assert (Hi : (i < length vs)%nat) by (rewrite len_vs; apply nth_error_Some; congruence).
    destruct (mixed_inv_cons _ _ _ _ Hmix) as [[u [x1 [-> [Hu Hm1]]]] | [Hc Hcrit]].
    2:{ left. apply crit_now; auto. destruct Hinv as [_ _ Ip _ _]. lia. }
    right.
    destruct Hmid as [Mv Mh Mp Mw Ml].
    assert (Hin : (i < n)%nat) by (apply nth_error_Some; congruence).
    destruct (b_ploop_unk u Hu k s p pre (tlv (ftyp g) pl ++ x1)) as [k1 [Hk1 E1]]; [lia|exact Hk|].
    rewrite E1. destruct k1 as [|k2]; [lia|].
    rewrite (b_ploop_step sub m nm Hm ic).
    2:{ pose proof (tlv_length_ge2 (ftyp g) pl). destruct (tlv (ftyp g) pl); [cbn in *; lia|discriminate]. }
    destruct (b_pstep_field sc sub m nm Hm ic i g pl (Z.of_nat (length (rev u ++ pre))) s p (rev u ++ pre) x1 Hg
                (single_is_data _ Hs) Hspl Mp) as [s1 [V1 [H1 E2]]].
    { intros Ho. apply (walk_from_mid i (zero_of (fk g)) s p); [lia| |exact Ho]. constructor; auto. }
    rewrite E2.
    destruct (b_rd_field_single_pay sc D Fmax Hsub f ic i (fk g) v pl (Z.of_nat (length (rev u ++ pre))) s1
                (rev (tl_enc (N.of_nat (length pl))) ++ rev (tl_enc (ftyp g)) ++ rev u ++ pre) x1 Hf Hs Hw Hp Hspl
                (payq_pay f (fk g) v pl Hpay))
      as [s2 [E3 [V2 H2]]].
    rewrite E3.
    eexists k2, s2, _, _, x1. split; [exact Hm1|]. split; [|split; [|reflexivity]].
    - apply (make_inv i g); auto.
      + rewrite V2, V1, Mv. rewrite <- (firstn_len_i i) at 1 by lia. apply upd_app_mid.
      + intros j g' Hj Hg' Hpj Hrj. rewrite H2.
        destruct (Nat.eq_dec j i) as [->|Hne].
        * apply nth_upd_same. destruct H1 as [L1 _]. rewrite <- L1, Ml. apply nth_error_Some. congruence.
        * rewrite nth_upd_other by congruence. apply H1. apply (Mh j g'); auto. lia.
      + destruct (ordered m); destruct (is_rep (fk g)) eqn:Er; lia.
      + intros Ho j g' Hj Hg'. rewrite Ho in Hj.
        assert (Er : is_rep (fk g) = false) by (destruct (fk g); try discriminate Hs; reflexivity).
        rewrite Er in Hj. lia.
      + rewrite H2, upd_length. destruct H1 as [L1 _]. rewrite <- L1. exact Ml.
    - rewrite !app_length in Hk1. pose proof (tlv_length_ge2 (ftyp g) pl). lia.
  Qed.

  Lemma step_seq_g c i g k0 : nth_error fs i = Some g -> fk g = KSeq k0 -> seq_sub_ok k0 = true ->
    forall (lp : list (value * bytes)) old es x k s p pre,
    (forall e pl, In (e, pl) lp -> is_none e = false /\ wf_val f sc k0 e = true /\ small pl /\ payq (pred f) k0 e pl) ->
    inv_mid i (VSeq old) s p -> mixed c (map (fun ep => tlv (ftyp g) (snd ep)) lp ++ es) x -> (length x < k)%nat ->
    (c = true /\ b_ploop sub k m ic s p (mkbr pre x) = Err E_CRITICAL) \/
    exists k' s' p' pre' x', mixed c es x' /\ inv_mid i (VSeq (old ++ map fst lp)) s' p' /\ (length x' < k')%nat /\
      b_ploop sub k m ic s p (mkbr pre x) = b_ploop sub k' m ic s' p' (mkbr pre' x').
  Proof using Hsub Hm Hf Hwf HQ.
    clear Hsmall.
    intros Hg Hk Hsub0.
    assert (Hi : (i < length vs)%nat) by (rewrite len_vs; apply nth_error_Some; congruence).
    assert (Hin : (i < n)%nat) by (apply nth_error_Some; congruence).
    assert (Hd : kind_is_data (fk g) = true) by (rewrite Hk; reflexivity).
    induction lp as [|[e pl] lp IH]; intros old es x k s p pre Hl Hmid Hmix Hk0.
    - right. exists k, s, p, pre, x. cbn [map]. rewrite app_nil_r. auto.
    - cbn [map app snd] in Hmix. destruct (mixed_inv_cons _ _ _ _ Hmix) as [[u [x1 [-> [Hu Hm1]]]] | [Hc Hcrit]].
      2:{ left. apply crit_now; auto. destruct Hmid as [_ _ Ip _ _]. lia. }
      destruct (Hl e pl (or_introl eq_refl)) as [Hne [Hwe [Hspl Hpay]]].
      assert (Hf0 : exists f0, f = S f0).
      { destruct f as [|f0]; [discriminate Hwe|exists f0; reflexivity]. }
      destruct Hf0 as [f0 Ef0]. rewrite Ef0 in Hwe, Hpay. cbn [pred] in Hpay.
      pose proof Hmid as [Mv Mh Mp Mw Ml].
      destruct (b_ploop_unk u Hu k s p pre (tlv (ftyp g) pl ++ x1)) as [k1 [Hk1 E1]]; [lia|exact Hk0|].
      rewrite E1. destruct k1 as [|k2]; [lia|].
      rewrite (b_ploop_step sub m nm Hm ic).
      2:{ pose proof (tlv_length_ge2 (ftyp g) pl). destruct (tlv (ftyp g) pl); [cbn in *; lia|discriminate]. }
      destruct (b_pstep_field sc sub m nm Hm ic i g pl (Z.of_nat (length (rev u ++ pre))) s p (rev u ++ pre) x1 Hg Hd Hspl Mp)
        as [s1 [V1 [H1 E2]]].
      { intros Ho. apply (walk_from_mid i (VSeq old) s p); [lia|exact Hmid|exact Ho]. }
      rewrite E2. rewrite Hk.
      assert (Hf0' : (S f0 <= Fmax)%nat) by lia.
      destruct (b_rd_field_seq_pay sc D Fmax Hsub f0 ic i k0 e pl old (Z.of_nat (length (rev u ++ pre))) s1
                  (rev (tl_enc (N.of_nat (length pl))) ++ rev (tl_enc (ftyp g)) ++ rev u ++ pre) x1 Hf0' Hsub0 Hne Hwe Hspl
                  (payq_pay f0 k0 e pl Hpay))
        as [s2 [E3 [V2 H2]]].
      { rewrite V1. apply (mid_slot i (VSeq old) s p); [lia|exact Hmid]. }
      rewrite E3. cbn [is_rep].
      pose proof (mid_update i (VSeq old) (VSeq (old ++ [e])) s s1 s2 p Hi Hmid V1 H1 V2 H2) as Hmid2.
      destruct (IH (old ++ [e]) es x1 k2 s2 (if ordered m then (Z.of_nat i - 1)%Z else p)
                  (rev pl ++ rev (tl_enc (N.of_nat (length pl))) ++ rev (tl_enc (ftyp g)) ++ rev u ++ pre))
        as [[Hc A4] | [k' [s' [p' [pre' [x' [A1 [A2 [A3 A4]]]]]]]]].
      + intros e' pl' He'. apply Hl. right. exact He'.
      + exact Hmid2.
      + exact Hm1.
      + rewrite !app_length in Hk1. pose proof (tlv_length_ge2 (ftyp g) pl). lia.
      + left. split; [exact Hc|]. rewrite <- A4. destruct (ordered m); reflexivity.
      + right. exists k', s', p', pre', x'. rewrite <- app_assoc in A2. cbn [app] in A2. cbn [map fst].
        split; [exact A1|]. split; [exact A2|]. split; [exact A3|].
        rewrite <- A4. destruct (ordered m); reflexivity.
  Qed.

  Definition map_el (g : field) (key : fkind) (vt : N) (kp : (value * value) * bytes) : bytes :=
    tlv (ftyp g) (payload (pred f) sc key (fst (fst kp))) ++ tlv vt (snd kp).

  Lemma step_map_g c i g key vt val : nth_error fs i = Some g -> fk g = KMap key vt val ->
    map_key_ok key = true -> map_val_ok val = true -> vt < two64 ->
    forall (lp : list ((value * value) * bytes)) old es x k s p pre,
    (forall kx vx plv, In ((kx, vx), plv) lp ->
        is_none kx = false /\ is_none vx = false /\ wf_val f sc key kx = true /\ wf_val f sc val vx = true /\
        small (payload (pred f) sc key kx) /\ small plv /\ payq (pred f) val vx plv) ->
    keys_nodup (old ++ map fst lp) = true ->
    inv_mid i (VMap old) s p ->
    mixed c (map (map_el g key vt) lp ++ es) x -> (length x < k)%nat ->
    (c = true /\ b_ploop sub k m ic s p (mkbr pre x) = Err E_CRITICAL) \/
    exists k' s' p' pre' x', mixed c es x' /\ inv_mid i (VMap (old ++ map fst lp)) s' p' /\ (length x' < k')%nat /\
      b_ploop sub k m ic s p (mkbr pre x) = b_ploop sub k' m ic s' p' (mkbr pre' x').
  Proof using Hsub Hm Hf Hwf HQ.
    clear Hsmall.
    intros Hg Hk Hkey Hval Hvt.
    assert (Hi : (i < length vs)%nat) by (rewrite len_vs; apply nth_error_Some; congruence).
    assert (Hin : (i < n)%nat) by (apply nth_error_Some; congruence).
    assert (Hd : kind_is_data (fk g) = true) by (rewrite Hk; reflexivity).
    induction lp as [|[[kx vx] plv] lp IH]; intros old es x k s p pre Hl Hnd Hmid Hmix Hk0.
    - right. exists k, s, p, pre, x. cbn [map]. rewrite app_nil_r. auto.
    - cbn [map app] in Hmix. unfold map_el at 1 in Hmix. cbn [fst snd] in Hmix.
      destruct (mixed_inv_cons _ _ _ _ Hmix) as [[u [x1 [-> [Hu Hm1]]]] | [Hc Hcrit]].
      2:{ left. apply crit_now; auto. destruct Hmid as [_ _ Ip _ _]. clear - Ip Hin. lia. }
      destruct (Hl kx vx plv (or_introl eq_refl)) as [Hnk [Hnv [Hwk [Hwv [Hsk [Hsv Hpay]]]]]].
      assert (Hf0 : exists f0, f = S f0).
      { destruct f as [|f0]; [discriminate Hwk|exists f0; reflexivity]. }
      destruct Hf0 as [f0 Ef0]. rewrite Ef0 in Hwk, Hwv, Hsk, Hpay, Hk0 |- *. cbn [pred] in Hsk, Hpay, Hk0 |- *.
      set (plk := payload f0 sc key kx) in *.
      pose proof Hmid as [Mv Mh Mp Mw Ml].
      assert (Hk0' : (length (u ++ tlv (ftyp g) plk ++ tlv vt plv ++ x1) < k)%nat).
      { clear - Hk0. rewrite !app_length in Hk0 |- *. lia. }
      replace (u ++ (tlv (ftyp g) plk ++ tlv vt plv) ++ x1) with (u ++ tlv (ftyp g) plk ++ tlv vt plv ++ x1)
        by (rewrite <- !app_assoc; reflexivity).
      destruct (b_ploop_unk u Hu k s p pre (tlv (ftyp g) plk ++ tlv vt plv ++ x1)) as [k1 [Hk1 E1]]; [clear - Mp Hin; lia|exact Hk0'|].
      rewrite E1. destruct k1 as [|k2]; [exfalso; clear - Hk1; lia|].
      rewrite (b_ploop_step sub m nm Hm ic).
      2:{ apply tlv_app_nonnil. }
      destruct (b_pstep_field sc sub m nm Hm ic i g plk (Z.of_nat (length (rev u ++ pre))) s p (rev u ++ pre) (tlv vt plv ++ x1) Hg Hd Hsk Mp)
        as [s1 [V1 [H1 E2]]].
      { intros Ho. apply (walk_from_mid i (VMap old) s p); [clear - Hi; lia|exact Hmid|exact Ho]. }
      rewrite E2. rewrite Hk.
      assert (Hf0' : (S f0 <= Fmax)%nat) by (clear - Hf Ef0; lia).
      destruct (b_rd_field_map_pay sc D Fmax Hsub f0 ic i key vt val kx vx plv old (Z.of_nat (length (rev u ++ pre))) s1
                  (rev (tl_enc (N.of_nat (length plk))) ++ rev (tl_enc (ftyp g)) ++ rev u ++ pre) x1
                  Hf0' Hkey Hval Hvt Hnk Hnv Hwk Hwv Hsk Hsv (payq_pay f0 val vx plv Hpay))
        as [s2 [E3 [V2 H2]]].
      { rewrite V1. apply (mid_slot i (VMap old) s p); [clear - Hi; lia|exact Hmid]. }
      fold plk in E3. rewrite E3. cbn [is_rep].
      assert (Hfresh : map_put kx vx old = old ++ [(kx, vx)]).
      { apply map_put_fresh. apply not_true_is_false. intro Hex. apply existsb_exists in Hex as [o [Ho Eo]].
        pose proof (keys_nodup_app old ((kx, vx) :: map fst lp) Hnd o (kx, vx) Ho (or_introl eq_refl)) as Hne. cbn [fst] in Hne.
        rewrite value_eqb_key_sym in Hne. congruence. }
      rewrite Hfresh in V2.
      pose proof (mid_update i (VMap old) (VMap (old ++ [(kx, vx)])) s s1 s2 p Hi Hmid V1 H1 V2 H2) as Hmid2.
      destruct (IH (old ++ [(kx, vx)]) es x1 k2 s2 (if ordered m then (Z.of_nat i - 1)%Z else p)
                  (rev (plk ++ tlv vt plv) ++ rev (tl_enc (N.of_nat (length plk))) ++ rev (tl_enc (ftyp g)) ++ rev u ++ pre))
        as [[Hc A4] | [k' [s' [p' [pre' [x' [A1 [A2 [A3 A4]]]]]]]]].
      + intros kx' vx' plv' Hkv. apply Hl. right. exact Hkv.
      + rewrite <- app_assoc. exact Hnd.
      + exact Hmid2.
      + exact Hm1.
      + pose proof (tlv_length_ge2 (ftyp g) plk) as Hge. clear - Hk1 Hge. rewrite !app_length in Hk1. lia.
      + left. split; [exact Hc|]. rewrite <- A4. destruct (ordered m); reflexivity.
      + right. exists k', s', p', pre', x'. rewrite <- app_assoc in A2. cbn [app] in A2. cbn [map fst].
        split; [exact A1|]. split; [exact A2|]. split; [exact A3|].
        rewrite <- A4. destruct (ordered m); reflexivity.
  Qed.

  (* ---- the element list of a value whose struct-typed elements carry bytes satisfying Q ---- *)
  Inductive nelem_val (g : field) (v : value) : list bytes -> Prop :=
  | ne_seq k0 (lp : list (value * bytes)) : fk g = KSeq k0 -> v = VSeq (map fst lp) ->
      (forall e pl, In (e, pl) lp -> is_none e = false /\ wf_val f sc k0 e = true /\ small pl /\ payq (pred f) k0 e pl) ->
      nelem_val g v (map (fun ep => tlv (ftyp g) (snd ep)) lp)
  | ne_map key vt val (lp : list ((value * value) * bytes)) : fk g = KMap key vt val -> v = VMap (map fst lp) ->
      (forall kx vx plv, In ((kx, vx), plv) lp ->
          is_none kx = false /\ is_none vx = false /\ wf_val f sc key kx = true /\ wf_val f sc val vx = true /\
          small (payload (pred f) sc key kx) /\ small plv /\ payq (pred f) val vx plv) ->
      nelem_val g v (map (map_el g key vt) lp)
  | ne_single pl : is_rep (fk g) = false -> single (fk g) && present (fk g) v = true -> small pl -> payq f (fk g) v pl ->
      nelem_val g v [tlv (ftyp g) pl]
  | ne_absent : is_rep (fk g) = false -> single (fk g) && present (fk g) v = false -> nelem_val g v [].

  Inductive nelems : list field -> list value -> list bytes -> Prop :=
  | nel_nil ws : nelems [] ws []
  | nel_cons g gs v ws ev es : nelem_val g v ev -> nelems gs ws es -> nelems (g :: gs) (v :: ws) (ev ++ es).

  Lemma mixed_inv_nil0 c x : mixed c [] x -> unk c x \/ (c = true /\ unk true x).
  Proof. intros H. inversion H; subst; [left; assumption|right; auto]. Qed.

  Lemma fields_loop_g c : forall rem i, (rem = n - i)%nat -> (i <= n)%nat ->
    forall es x k s p pre, inv i s p -> nelems (skipn i fs) (skipn i vs) es -> mixed c es x -> (length x < k)%nat ->
    if c then b_ploop sub k m ic s p (mkbr pre x) = Err E_CRITICAL
    else exists cx cv, b_ploop sub k m ic s p (mkbr pre x) = Ok (vs, cx, cv).
  Proof using Hsub Hm Hf Hwf HQ.
    clear Hsmall.
    induction rem as [|rem IH]; intros i Hrem Hi es x k s p pre Hinv Hnel Hmix Hk.
    - (* all fields done: trailing unrecognised elements, then the final pass *)
      assert (i = n) by lia. subst i.
      rewrite skipn_all in Hnel. inversion Hnel; subst. clear Hnel.
      destruct Hinv as [Iv Ih Ip Iw Il].
      destruct (mixed_inv_nil0 _ _ Hmix) as [Hu | [Hc Hu]].
      2:{ subst c. apply b_ploop_unk_crit; [exact Hu|lia|exact Hk]. }
      destruct c; [apply b_ploop_unk_crit; [exact Hu|lia|exact Hk]|].
      destruct (b_ploop_unk x Hu k s p pre []) as [k1 [Hk1 E1]]; [lia|rewrite app_nil_r; exact Hk|].
      rewrite app_nil_r in E1. rewrite E1. destruct k1 as [|k2]; [cbn in Hk1; lia|].
      rewrite (b_ploop_end sub m nm Hm ic).
      rewrite skipn_all in Iv. cbn [zeros map] in Iv. rewrite app_nil_r in Iv.
      rewrite <- len_vs in Iv. rewrite firstn_all in Iv.
      destruct (b_finish_vals sc (S f) fs 0 (Z.of_nat (length (rev x ++ pre))) s (mkbr (rev x ++ pre) [])) as [s' [E2 E3]].
      + intros j g Hg Hh. cbn [plus] in *. rewrite Iv. split; [apply wf_at; exact Hg|].
        unfold skippable. destruct (is_rep (fk g)) eqn:Er; [left; reflexivity|right].
        destruct (present (fk g) (nth j vs VNone)) eqn:Ep; [|reflexivity].
        assert (Hjn : (j < n)%nat) by (apply nth_error_Some; congruence).
        rewrite (Ih j g Hjn Hg Ep Er) in Hh. discriminate Hh.
      + rewrite E2. rewrite E3, Iv. eauto.
    - assert (Hlt : (i < n)%nat) by lia.
      destruct (nth_error fs i) as [g|] eqn:Hg; [|apply nth_error_None in Hg; lia].
      pose proof (nth_vs i g Hg) as Hv. set (v := nth i vs VNone) in *.
      rewrite (nth_error_skipn_cons fs i g Hg), (nth_error_skipn_cons vs i v Hv) in Hnel.
      inversion Hnel as [|g0 gs0 v0 ws0 ev es' Hev Hrest]; subst g0 gs0 v0 ws0 es. clear Hnel.
      pose proof (wf_at i g Hg) as Hw. fold v in Hw.
      assert (Hil : (i < length vs)%nat) by (rewrite len_vs; exact Hlt).
      assert (Hnext : forall k' s' p' pre' x', mixed c es' x' ->
                inv (S i) s' p' -> (length x' < k')%nat ->
                if c then b_ploop sub k' m ic s' p' (mkbr pre' x') = Err E_CRITICAL
                else exists cx cv, b_ploop sub k' m ic s' p' (mkbr pre' x') = Ok (vs, cx, cv)).
      { intros k' s' p' pre' x' A1 A2 A3. apply (IH (S i)) with (es := es'); auto; lia. }
      pose proof (inv_to_mid i g s p Hg Hinv) as Hmid0.
      destruct Hev as [k0 lp Ek Ev Hl | key vt val lp Ek Ev Hl | pl Erep Esp Hspl Hpay | Erep Esp].
      + (* sequence *)
        rewrite Ek in Hmid0. cbn [zero_of] in Hmid0.
        destruct (step_seq_g c i g k0 Hg Ek (wf_seq_sub i g k0 Hg Ek) lp [] es' x k s p pre Hl Hmid0 Hmix Hk)
          as [[Hc A4] | [k' [s' [p' [pre' [x' [A1 [A2 [A3 A4]]]]]]]]].
        { subst c. exact A4. }
        rewrite A4. cbn [app] in A2. destruct A2 as [Mv Mh Mp Mw Ml].
        apply Hnext; auto. apply (make_inv i g); auto.
        -- fold v. rewrite Ev. exact Mv.
        -- intros j g' Hj Hg' Hpj Hrj. destruct (Nat.eq_dec j i) as [->|Hne].
           ++ rewrite Hg in Hg'. inversion Hg'; subst g'. rewrite Ek in Hrj. discriminate Hrj.
           ++ apply (Mh j g'); auto. lia.
        -- lia.
        -- intros Ho j g' Hj Hg'. destruct (Nat.eq_dec j i) as [->|Hne].
           ++ rewrite Hg in Hg'. inversion Hg'; subst g'. left. rewrite Ek. reflexivity.
           ++ apply (Mw Ho j g'); auto. lia.
      + (* map *)
        rewrite Ek in Hmid0. cbn [zero_of] in Hmid0.
        destruct (wf_map_sub i g key vt val Hg Ek) as [Hkey [Hval Hvt]].
        assert (Hnd : keys_nodup ([] ++ map fst lp) = true).
        { cbn [app]. rewrite Ek, Ev in Hw. cbn [wf_val] in Hw. apply andb_true_iff in Hw as [_ Hnd]. exact Hnd. }
        destruct (step_map_g c i g key vt val Hg Ek Hkey Hval Hvt lp [] es' x k s p pre Hl Hnd Hmid0 Hmix Hk)
          as [[Hc A4] | [k' [s' [p' [pre' [x' [A1 [A2 [A3 A4]]]]]]]]].
        { subst c. exact A4. }
        rewrite A4. cbn [app] in A2. destruct A2 as [Mv Mh Mp Mw Ml].
        apply Hnext; auto. apply (make_inv i g); auto.
        -- fold v. rewrite Ev. exact Mv.
        -- intros j g' Hj Hg' Hpj Hrj. destruct (Nat.eq_dec j i) as [->|Hne].
           ++ rewrite Hg in Hg'. inversion Hg'; subst g'. rewrite Ek in Hrj. discriminate Hrj.
           ++ apply (Mh j g'); auto. lia.
        -- lia.
        -- intros Ho j g' Hj Hg'. destruct (Nat.eq_dec j i) as [->|Hne].
           ++ rewrite Hg in Hg'. inversion Hg'; subst g'. left. rewrite Ek. reflexivity.
           ++ apply (Mw Ho j g'); auto. lia.
      + (* a present single-element field *)
        apply andb_true_iff in Esp as [Es Ep]. cbn [app] in Hmix.
        destruct (step_single_g i g pl Hg Es Ep Hspl Hpay c es' x k s p pre Hinv Hmix Hk)
          as [[Hc A4] | [k' [s' [p' [pre' [x' [A1 [A2 [A3 A4]]]]]]]]].
        { subst c. exact A4. }
        rewrite A4. apply Hnext; auto.
      + (* absent / marker *)
        cbn [app] in Hmix.
        assert (Hel : elems_val f sc (ftyp g) (fk g) v =
                      if single (fk g) && present (fk g) v then [enc_val (S f) sc (ftyp g) (fk g) v] else []).
        { destruct (fk g); try discriminate Erep; destruct v; reflexivity. }
        assert (Hz : v = zero_of (fk g)).
        { apply (elems_nil_zero f sc (ftyp g) (fk g) v Hw). rewrite Hel, Esp. reflexivity. }
        assert (Hnp : single (fk g) = false \/ present (fk g) v = false) by (apply andb_false_iff; exact Esp).
        assert (Hpf : present (fk g) v = false).
        { destruct Hnp as [Hns|Hnp]; [|exact Hnp]. destruct (fk g); try discriminate Hns; try discriminate Erep; reflexivity. }
        destruct Hmid0 as [Mv Mh Mp Mw Ml].
        apply Hnext; auto. apply (make_inv i g); auto.
        -- fold v. rewrite Hz. exact Mv.
        -- intros j g' Hj Hg' Hpj Hrj. destruct (Nat.eq_dec j i) as [->|Hne].
           ++ rewrite Hg in Hg'. inversion Hg'; subst g'. fold v in Hpj. congruence.
           ++ apply (Mh j g'); auto. lia.
        -- lia.
        -- intros Ho j g' Hj Hg'. destruct (Nat.eq_dec j i) as [->|Hne].
           ++ rewrite Hg in Hg'. inversion Hg'; subst g'. right. exact Hpf.
           ++ apply (Mw Ho j g'); auto. lia.
  Qed.


  (* ---- exact encodings are a special case ---- *)
  Lemma payq_exact f0 k v :
    (forall m' fs', wf_value f0 sc m' fs' = true -> small (encode f0 sc m' fs') -> Q m' fs' (encode f0 sc m' fs')) ->
    wf_val (S f0) sc k v = true -> present k v = true -> small (payload f0 sc k v) -> payq f0 k v (payload f0 sc k v).
  Proof using.
    intros HQe Hw Hp Hs. destruct k; try reflexivity.
    destruct v; try discriminate Hw; try discriminate Hp. cbn [payq payload] in *.
    match goal with |- Q ?mm ?ff _ =>
      specialize (HQe mm ff); cbn [wf_val] in Hw; unfold wf_value, encode, the_model in *;
      destruct (nth_error sc mm) as [md|] eqn:Em; [|discriminate Hw];
      rewrite (nth_error_nth' sc mm md _ Em) in *; apply HQe; assumption
    end.
  Qed.

  Lemma small_tlv_payload t pl : small (tlv t pl) -> small pl.
  Proof using. intros H. unfold tlv in H. apply small_app_r in H. apply small_app_r in H. exact H. Qed.

  Lemma nelems_exact :
    (forall m' fs', wf_value f sc m' fs' = true -> small (encode f sc m' fs') -> Q m' fs' (encode f sc m' fs')) ->
    (forall m' fs', wf_value (pred f) sc m' fs' = true -> small (encode (pred f) sc m' fs') -> Q m' fs' (encode (pred f) sc m' fs')) ->
    forall rem i, (rem = n - i)%nat -> (i <= n)%nat ->
    nelems (skipn i fs) (skipn i vs) (elems_fields f sc (skipn i fs) (skipn i vs)).
  Proof using Hm Hwf Hsmall Hsub Hf HQ.
    intros HQ1 HQ2. induction rem as [|rem IH]; intros i Hrem Hi.
    - assert (i = n) by lia. subst i. rewrite skipn_all. cbn [elems_fields]. constructor.
    - assert (Hlt : (i < n)%nat) by lia.
      destruct (nth_error fs i) as [g|] eqn:Hg; [|apply nth_error_None in Hg; lia].
      pose proof (nth_vs i g Hg) as Hv. set (v := nth i vs VNone) in *.
      rewrite (nth_error_skipn_cons fs i g Hg), (nth_error_skipn_cons vs i v Hv).
      cbn [elems_fields]. apply nel_cons; [|apply IH; lia].
      pose proof (wf_at i g Hg) as Hw. fold v in Hw.
      pose proof (small_field fs vs i g Hsmall Hg) as Hsv. fold v in Hsv.
      destruct (is_rep (fk g)) eqn:Erep.
      + destruct (fk g) as [o1|w1 o1|o1| |o1| | | |m1|k0|key vt val|a1 b1|c1| |a1 b1| ] eqn:Ek; try discriminate Erep.
        * (* sequence *)
          destruct v as [| | | | | |l| |] eqn:Ev; try discriminate Hw.
          cbn [elems_val]. cbn [wf_val] in Hw. rewrite forallb_forall in Hw.
          pose proof (wf_seq_sub i g k0 Hg Ek) as Hsub0.
          assert (Hall : forall e, In e l -> is_none e = false /\ wf_val f sc k0 e = true /\
                           enc_val f sc (ftyp g) k0 e = tlv (ftyp g) (payload (pred f) sc k0 e) /\
                           small (payload (pred f) sc k0 e) /\ payq (pred f) k0 e (payload (pred f) sc k0 e)).
          { intros e He. specialize (Hw e He). apply andb_true_iff in Hw as [W1 W2]. apply negb_true_iff in W1.
            assert (Hf0 : exists f0, f = S f0) by (destruct f as [|f0]; [discriminate W2|exists f0; reflexivity]).
            destruct Hf0 as [f0 Ef0].
            destruct (seq_sub_facts k0 e Hsub0 W1) as [_ [Hsg Hpr]].
            assert (Ee : enc_val f sc (ftyp g) k0 e = tlv (ftyp g) (payload (pred f) sc k0 e)).
            { rewrite Ef0. cbn [pred]. apply enc_val_single; [exact Hsg|rewrite <- Ef0; exact W2|exact Hpr]. }
            assert (Hse : small (enc_val f sc (ftyp g) k0 e)).
            { cbn [enc_val] in Hsv. apply (small_concat_in _ _ Hsv). apply in_map. exact He. }
            rewrite Ee in Hse. apply small_tlv_payload in Hse.
            repeat split; auto.
            rewrite Ef0 in *. cbn [pred] in *. apply payq_exact; auto. }
          replace (map (enc_val f sc (ftyp g) k0) l)
            with (map (fun ep : value * bytes => tlv (ftyp g) (snd ep)) (map (fun e => (e, payload (pred f) sc k0 e)) l)).
          2:{ rewrite map_map. apply map_ext_in. intros e He. cbn [snd]. symmetry. apply (Hall e He). }
          apply (ne_seq g (VSeq l) k0 (map (fun e => (e, payload (pred f) sc k0 e)) l) Ek).
          -- rewrite map_map. cbn [fst]. rewrite map_id. reflexivity.
          -- intros e pl Hin. apply in_map_iff in Hin as [e0 [E0 He0]]. inversion E0; subst e pl.
             destruct (Hall e0 He0) as [A [B [_ [C Dq]]]]. auto.
        * (* map *)
          destruct v as [| | | | | | |l|] eqn:Ev; try discriminate Hw.
          cbn [elems_val]. cbn [wf_val] in Hw. apply andb_true_iff in Hw as [Hw Hnd]. rewrite forallb_forall in Hw.
          destruct (wf_map_sub i g key vt val Hg Ek) as [Hkey [Hval Hvt]].
          assert (Hall : forall kv, In kv l ->
                    is_none (fst kv) = false /\ is_none (snd kv) = false /\ wf_val f sc key (fst kv) = true /\ wf_val f sc val (snd kv) = true /\
                    enc_val f sc (ftyp g) key (fst kv) ++ enc_val f sc vt val (snd kv) =
                      map_el g key vt (kv, payload (pred f) sc val (snd kv)) /\
                    small (payload (pred f) sc key (fst kv)) /\ small (payload (pred f) sc val (snd kv)) /\
                    payq (pred f) val (snd kv) (payload (pred f) sc val (snd kv))).
          { intros kv He. specialize (Hw kv He).
            apply andb_true_iff in Hw as [Hw W4]. apply andb_true_iff in Hw as [Hw W3]. apply andb_true_iff in Hw as [W1 W2].
            apply negb_true_iff in W1. apply negb_true_iff in W3.
            assert (Hf0 : exists f0, f = S f0) by (destruct f as [|f0]; [discriminate W2|exists f0; reflexivity]).
            destruct Hf0 as [f0 Ef0].
            destruct (seq_sub_facts key (fst kv) (map_key_seq _ Hkey) W1) as [_ [Hsgk Hprk]].
            destruct (seq_sub_facts val (snd kv) (map_val_seq _ Hval) W3) as [_ [Hsgv Hprv]].
            assert (Ek1 : enc_val f sc (ftyp g) key (fst kv) = tlv (ftyp g) (payload (pred f) sc key (fst kv))).
            { rewrite Ef0. cbn [pred]. apply enc_val_single; [exact Hsgk|rewrite <- Ef0; exact W2|exact Hprk]. }
            assert (Ev1 : enc_val f sc vt val (snd kv) = tlv vt (payload (pred f) sc val (snd kv))).
            { rewrite Ef0. cbn [pred]. apply enc_val_single; [exact Hsgv|rewrite <- Ef0; exact W4|exact Hprv]. }
            assert (Hse : small (enc_val f sc (ftyp g) key (fst kv) ++ enc_val f sc vt val (snd kv))).
            { cbn [enc_val] in Hsv. apply (small_concat_in _ _ Hsv).
              apply (in_map (fun kv0 => enc_val f sc (ftyp g) key (fst kv0) ++ enc_val f sc vt val (snd kv0)) l kv He). }
            rewrite Ek1, Ev1 in Hse.
            pose proof (small_tlv_payload _ _ (small_app_l _ _ Hse)) as Hsk.
            pose proof (small_tlv_payload _ _ (small_app_r _ _ Hse)) as Hsv2.
            repeat split; auto.
            - rewrite Ek1, Ev1. reflexivity.
            - rewrite Ef0 in *. cbn [pred] in *. apply payq_exact; auto. }
          replace (map (fun kv => enc_val f sc (ftyp g) key (fst kv) ++ enc_val f sc vt val (snd kv)) l)
            with (map (map_el g key vt) (map (fun kv => (kv, payload (pred f) sc val (snd kv))) l)).
          2:{ rewrite map_map. apply map_ext_in. intros kv He. symmetry. apply (Hall kv He). }
          apply (ne_map g (VMap l) key vt val (map (fun kv => (kv, payload (pred f) sc val (snd kv))) l) Ek).
          -- rewrite map_map. cbn [fst]. rewrite map_id. reflexivity.
          -- intros kx vx plv Hin. apply in_map_iff in Hin as [kv0 [E0 He0]]. inversion E0; subst kv0 plv.
             destruct (Hall (kx, vx) He0) as [A [B [C [Dw [_ [E1 [E2 E3]]]]]]]. cbn [fst snd] in *. repeat split; auto.
      + assert (Hel : elems_val f sc (ftyp g) (fk g) v =
                      if single (fk g) && present (fk g) v then [enc_val (S f) sc (ftyp g) (fk g) v] else []).
        { destruct (fk g); try discriminate Erep; destruct v; reflexivity. }
        rewrite Hel.
        destruct (single (fk g) && present (fk g) v) eqn:Esp.
        * pose proof Esp as Esp'. apply andb_true_iff in Esp' as [Es Ep].
          rewrite (enc_val_single f sc (ftyp g) (fk g) v Es Hw Ep) in *.
          apply ne_single; auto.
          -- apply small_tlv_payload in Hsv. exact Hsv.
          -- apply payq_exact; auto. apply small_tlv_payload in Hsv. exact Hsv.
        * apply ne_absent; auto.
  Qed.

  (* ================================================================================================ *)
  (* Rejection inside a nested value.  mixedk K es x: the elements es interleaved with runs of skippable unrecognised
     elements, followed by a remainder satisfying K.  The step lemmas in continuation form, the loop over a prefix of
     complete fields, and the "bad element" lemmas: a struct-typed element whose value bytes the nested parser rejects
     with ErrUnrecognizedField makes the enclosing parser return that error. *)
  Section Kont.
  Variable K : bytes -> Prop.

  Inductive mixedk : list bytes -> bytes -> Prop :=
  | mk_nil x : K x -> mixedk [] x
  | mk_cons u e es x : unk false u -> mixedk es x -> mixedk (e :: es) (u ++ e ++ x).

  Lemma mixedk_inv_cons e es x : mixedk (e :: es) x -> exists u x1, x = u ++ e ++ x1 /\ unk false u /\ mixedk es x1.
  Proof using. intros H. inversion H; subst. eauto. Qed.

  Lemma step_single_k i g pl : nth_error fs i = Some g -> single (fk g) = true -> present (fk g) (nth i vs VNone) = true ->
    small pl -> payq f (fk g) (nth i vs VNone) pl ->
    forall es x k s p pre, inv i s p -> mixedk (tlv (ftyp g) pl :: es) x -> (length x < k)%nat ->
    exists k' s' p' pre' x', mixedk es x' /\ inv (S i) s' p' /\ (length x' < k')%nat /\
      b_ploop sub k m ic s p (mkbr pre x) = b_ploop sub k' m ic s' p' (mkbr pre' x').
  Proof using Hsub Hm Hf Hwf HQ.
    clear Hsmall.
    intros Hg Hs Hp Hspl Hpay es x k s p pre Hinv Hmix Hk.
    assert (Hin0 : (i < n)%nat) by (apply nth_error_Some; congruence).
    set (v := nth i vs VNone) in *.
    pose proof (wf_at i g Hg) as Hw. fold v in Hw.
    pose proof (inv_to_mid i g s p Hg Hinv) as Hmid.
    assert (Hi : (i < length vs)%nat) by (rewrite len_vs; apply nth_error_Some; congruence).
    destruct (mixedk_inv_cons _ _ _ Hmix) as [u [x1 [-> [Hu Hm1]]]].
    destruct Hmid as [Mv Mh Mp Mw Ml].
    assert (Hin : (i < n)%nat) by (apply nth_error_Some; congruence).
    destruct (b_ploop_unk u Hu k s p pre (tlv (ftyp g) pl ++ x1)) as [k1 [Hk1 E1]]; [lia|exact Hk|].
    rewrite E1. destruct k1 as [|k2]; [lia|].
    rewrite (b_ploop_step sub m nm Hm ic).
    2:{ pose proof (tlv_length_ge2 (ftyp g) pl). destruct (tlv (ftyp g) pl); [cbn in *; lia|discriminate]. }
    destruct (b_pstep_field sc sub m nm Hm ic i g pl (Z.of_nat (length (rev u ++ pre))) s p (rev u ++ pre) x1 Hg
                (single_is_data _ Hs) Hspl Mp) as [s1 [V1 [H1 E2]]].
    { intros Ho. apply (walk_from_mid i (zero_of (fk g)) s p); [lia| |exact Ho]. constructor; auto. }
    rewrite E2.
    destruct (b_rd_field_single_pay sc D Fmax Hsub f ic i (fk g) v pl (Z.of_nat (length (rev u ++ pre))) s1
                (rev (tl_enc (N.of_nat (length pl))) ++ rev (tl_enc (ftyp g)) ++ rev u ++ pre) x1 Hf Hs Hw Hp Hspl
                (payq_pay f (fk g) v pl Hpay))
      as [s2 [E3 [V2 H2]]].
    rewrite E3.
    eexists k2, s2, _, _, x1. split; [exact Hm1|]. split; [|split; [|reflexivity]].
    - apply (make_inv i g); auto.
      + rewrite V2, V1, Mv. rewrite <- (firstn_len_i i) at 1 by lia. apply upd_app_mid.
      + intros j g' Hj Hg' Hpj Hrj. rewrite H2.
        destruct (Nat.eq_dec j i) as [->|Hne].
        * apply nth_upd_same. destruct H1 as [L1 _]. rewrite <- L1, Ml. apply nth_error_Some. congruence.
        * rewrite nth_upd_other by congruence. apply H1. apply (Mh j g'); auto. lia.
      + destruct (ordered m); destruct (is_rep (fk g)) eqn:Er; lia.
      + intros Ho j g' Hj Hg'. rewrite Ho in Hj.
        assert (Er : is_rep (fk g) = false) by (destruct (fk g); try discriminate Hs; reflexivity).
        rewrite Er in Hj. lia.
      + rewrite H2, upd_length. destruct H1 as [L1 _]. rewrite <- L1. exact Ml.
    - rewrite !app_length in Hk1. pose proof (tlv_length_ge2 (ftyp g) pl). lia.
  Qed.


  Lemma step_seq_k i g k0 : nth_error fs i = Some g -> fk g = KSeq k0 -> seq_sub_ok k0 = true ->
    forall (lp : list (value * bytes)) old es x k s p pre,
    (forall e pl, In (e, pl) lp -> is_none e = false /\ wf_val f sc k0 e = true /\ small pl /\ payq (pred f) k0 e pl) ->
    inv_mid i (VSeq old) s p -> mixedk (map (fun ep => tlv (ftyp g) (snd ep)) lp ++ es) x -> (length x < k)%nat ->
    exists k' s' p' pre' x', mixedk es x' /\ inv_mid i (VSeq (old ++ map fst lp)) s' p' /\ (length x' < k')%nat /\
      b_ploop sub k m ic s p (mkbr pre x) = b_ploop sub k' m ic s' p' (mkbr pre' x').
  Proof using Hsub Hm Hf Hwf HQ.
    clear Hsmall.
    intros Hg Hk Hsub0.
    assert (Hi : (i < length vs)%nat) by (rewrite len_vs; apply nth_error_Some; congruence).
    assert (Hin : (i < n)%nat) by (apply nth_error_Some; congruence).
    assert (Hd : kind_is_data (fk g) = true) by (rewrite Hk; reflexivity).
    induction lp as [|[e pl] lp IH]; intros old es x k s p pre Hl Hmid Hmix Hk0.
    - exists k, s, p, pre, x. cbn [map]. rewrite app_nil_r. auto.
    - cbn [map app snd] in Hmix. destruct (mixedk_inv_cons _ _ _ Hmix) as [u [x1 [-> [Hu Hm1]]]].
      destruct (Hl e pl (or_introl eq_refl)) as [Hne [Hwe [Hspl Hpay]]].
      assert (Hf0 : exists f0, f = S f0).
      { destruct f as [|f0]; [discriminate Hwe|exists f0; reflexivity]. }
      destruct Hf0 as [f0 Ef0]. rewrite Ef0 in Hwe, Hpay. cbn [pred] in Hpay.
      pose proof Hmid as [Mv Mh Mp Mw Ml].
      destruct (b_ploop_unk u Hu k s p pre (tlv (ftyp g) pl ++ x1)) as [k1 [Hk1 E1]]; [lia|exact Hk0|].
      rewrite E1. destruct k1 as [|k2]; [lia|].
      rewrite (b_ploop_step sub m nm Hm ic).
      2:{ pose proof (tlv_length_ge2 (ftyp g) pl). destruct (tlv (ftyp g) pl); [cbn in *; lia|discriminate]. }
      destruct (b_pstep_field sc sub m nm Hm ic i g pl (Z.of_nat (length (rev u ++ pre))) s p (rev u ++ pre) x1 Hg Hd Hspl Mp)
        as [s1 [V1 [H1 E2]]].
      { intros Ho. apply (walk_from_mid i (VSeq old) s p); [lia|exact Hmid|exact Ho]. }
      rewrite E2. rewrite Hk.
      assert (Hf0' : (S f0 <= Fmax)%nat) by lia.
      destruct (b_rd_field_seq_pay sc D Fmax Hsub f0 ic i k0 e pl old (Z.of_nat (length (rev u ++ pre))) s1
                  (rev (tl_enc (N.of_nat (length pl))) ++ rev (tl_enc (ftyp g)) ++ rev u ++ pre) x1 Hf0' Hsub0 Hne Hwe Hspl
                  (payq_pay f0 k0 e pl Hpay))
        as [s2 [E3 [V2 H2]]].
      { rewrite V1. apply (mid_slot i (VSeq old) s p); [lia|exact Hmid]. }
      rewrite E3. cbn [is_rep].
      pose proof (mid_update i (VSeq old) (VSeq (old ++ [e])) s s1 s2 p Hi Hmid V1 H1 V2 H2) as Hmid2.
      destruct (IH (old ++ [e]) es x1 k2 s2 (if ordered m then (Z.of_nat i - 1)%Z else p)
                  (rev pl ++ rev (tl_enc (N.of_nat (length pl))) ++ rev (tl_enc (ftyp g)) ++ rev u ++ pre))
        as [k' [s' [p' [pre' [x' [A1 [A2 [A3 A4]]]]]]]].
      + intros e' pl' He'. apply Hl. right. exact He'.
      + exact Hmid2.
      + exact Hm1.
      + rewrite !app_length in Hk1. pose proof (tlv_length_ge2 (ftyp g) pl). lia.
      + exists k', s', p', pre', x'. rewrite <- app_assoc in A2. cbn [app] in A2. cbn [map fst].
        split; [exact A1|]. split; [exact A2|]. split; [exact A3|].
        rewrite <- A4. destruct (ordered m); reflexivity.
  Qed.


  Lemma step_map_k i g key vt val : nth_error fs i = Some g -> fk g = KMap key vt val ->
    map_key_ok key = true -> map_val_ok val = true -> vt < two64 ->
    forall (lp : list ((value * value) * bytes)) old es x k s p pre,
    (forall kx vx plv, In ((kx, vx), plv) lp ->
        is_none kx = false /\ is_none vx = false /\ wf_val f sc key kx = true /\ wf_val f sc val vx = true /\
        small (payload (pred f) sc key kx) /\ small plv /\ payq (pred f) val vx plv) ->
    keys_nodup (old ++ map fst lp) = true ->
    inv_mid i (VMap old) s p ->
    mixedk (map (map_el g key vt) lp ++ es) x -> (length x < k)%nat ->
    exists k' s' p' pre' x', mixedk es x' /\ inv_mid i (VMap (old ++ map fst lp)) s' p' /\ (length x' < k')%nat /\
      b_ploop sub k m ic s p (mkbr pre x) = b_ploop sub k' m ic s' p' (mkbr pre' x').
  Proof using Hsub Hm Hf Hwf HQ.
    clear Hsmall.
    intros Hg Hk Hkey Hval Hvt.
    assert (Hi : (i < length vs)%nat) by (rewrite len_vs; apply nth_error_Some; congruence).
    assert (Hin : (i < n)%nat) by (apply nth_error_Some; congruence).
    assert (Hd : kind_is_data (fk g) = true) by (rewrite Hk; reflexivity).
    induction lp as [|[[kx vx] plv] lp IH]; intros old es x k s p pre Hl Hnd Hmid Hmix Hk0.
    - exists k, s, p, pre, x. cbn [map]. rewrite app_nil_r. auto.
    - cbn [map app] in Hmix. unfold map_el at 1 in Hmix. cbn [fst snd] in Hmix.
      destruct (mixedk_inv_cons _ _ _ Hmix) as [u [x1 [-> [Hu Hm1]]]].
      destruct (Hl kx vx plv (or_introl eq_refl)) as [Hnk [Hnv [Hwk [Hwv [Hsk [Hsv Hpay]]]]]].
      assert (Hf0 : exists f0, f = S f0).
      { destruct f as [|f0]; [discriminate Hwk|exists f0; reflexivity]. }
      destruct Hf0 as [f0 Ef0]. rewrite Ef0 in Hwk, Hwv, Hsk, Hpay, Hk0 |- *. cbn [pred] in Hsk, Hpay, Hk0 |- *.
      set (plk := payload f0 sc key kx) in *.
      pose proof Hmid as [Mv Mh Mp Mw Ml].
      assert (Hk0' : (length (u ++ tlv (ftyp g) plk ++ tlv vt plv ++ x1) < k)%nat).
      { clear - Hk0. rewrite !app_length in Hk0 |- *. lia. }
      replace (u ++ (tlv (ftyp g) plk ++ tlv vt plv) ++ x1) with (u ++ tlv (ftyp g) plk ++ tlv vt plv ++ x1)
        by (rewrite <- !app_assoc; reflexivity).
      destruct (b_ploop_unk u Hu k s p pre (tlv (ftyp g) plk ++ tlv vt plv ++ x1)) as [k1 [Hk1 E1]]; [clear - Mp Hin; lia|exact Hk0'|].
      rewrite E1. destruct k1 as [|k2]; [exfalso; clear - Hk1; lia|].
      rewrite (b_ploop_step sub m nm Hm ic).
      2:{ apply tlv_app_nonnil. }
      destruct (b_pstep_field sc sub m nm Hm ic i g plk (Z.of_nat (length (rev u ++ pre))) s p (rev u ++ pre) (tlv vt plv ++ x1) Hg Hd Hsk Mp)
        as [s1 [V1 [H1 E2]]].
      { intros Ho. apply (walk_from_mid i (VMap old) s p); [clear - Hi; lia|exact Hmid|exact Ho]. }
      rewrite E2. rewrite Hk.
      assert (Hf0' : (S f0 <= Fmax)%nat) by (clear - Hf Ef0; lia).
      destruct (b_rd_field_map_pay sc D Fmax Hsub f0 ic i key vt val kx vx plv old (Z.of_nat (length (rev u ++ pre))) s1
                  (rev (tl_enc (N.of_nat (length plk))) ++ rev (tl_enc (ftyp g)) ++ rev u ++ pre) x1
                  Hf0' Hkey Hval Hvt Hnk Hnv Hwk Hwv Hsk Hsv (payq_pay f0 val vx plv Hpay))
        as [s2 [E3 [V2 H2]]].
      { rewrite V1. apply (mid_slot i (VMap old) s p); [clear - Hi; lia|exact Hmid]. }
      fold plk in E3. rewrite E3. cbn [is_rep].
      assert (Hfresh : map_put kx vx old = old ++ [(kx, vx)]).
      { apply map_put_fresh. apply not_true_is_false. intro Hex. apply existsb_exists in Hex as [o [Ho Eo]].
        pose proof (keys_nodup_app old ((kx, vx) :: map fst lp) Hnd o (kx, vx) Ho (or_introl eq_refl)) as Hne. cbn [fst] in Hne.
        rewrite value_eqb_key_sym in Hne. congruence. }
      rewrite Hfresh in V2.
      pose proof (mid_update i (VMap old) (VMap (old ++ [(kx, vx)])) s s1 s2 p Hi Hmid V1 H1 V2 H2) as Hmid2.
      destruct (IH (old ++ [(kx, vx)]) es x1 k2 s2 (if ordered m then (Z.of_nat i - 1)%Z else p)
                  (rev (plk ++ tlv vt plv) ++ rev (tl_enc (N.of_nat (length plk))) ++ rev (tl_enc (ftyp g)) ++ rev u ++ pre))
        as [k' [s' [p' [pre' [x' [A1 [A2 [A3 A4]]]]]]]].
      + intros kx' vx' plv' Hkv. apply Hl. right. exact Hkv.
      + rewrite <- app_assoc. exact Hnd.
      + exact Hmid2.
      + exact Hm1.
      + pose proof (tlv_length_ge2 (ftyp g) plk) as Hge. clear - Hk1 Hge. rewrite !app_length in Hk1. lia.
      + exists k', s', p', pre', x'. rewrite <- app_assoc in A2. cbn [app] in A2. cbn [map fst].
        split; [exact A1|]. split; [exact A2|]. split; [exact A3|].
        rewrite <- A4. destruct (ordered m); reflexivity.
  Qed.


  Lemma prefix_loop_k : forall rem i jj, (rem = jj - i)%nat -> (i <= jj)%nat -> (jj <= n)%nat ->
    forall es x k s p pre, inv i s p -> nelems (firstn rem (skipn i fs)) (firstn rem (skipn i vs)) es -> mixedk es x -> (length x < k)%nat ->
    exists k' s' p' pre' x', K x' /\ inv jj s' p' /\ (length x' < k')%nat /\
      b_ploop sub k m ic s p (mkbr pre x) = b_ploop sub k' m ic s' p' (mkbr pre' x').
  Proof using Hsub Hm Hf Hwf HQ.
    clear Hsmall.
    induction rem as [|rem IH]; intros i jj Hrem Hi Hjj es x k s p pre Hinv Hnel Hmix Hk.
    - assert (i = jj) by lia. subst jj. cbn [firstn] in Hnel. inversion Hnel; subst.
      inversion Hmix; subst. exists k, s, p, pre, x. auto.
    - assert (Hlt : (i < n)%nat) by lia.
      destruct (nth_error fs i) as [g|] eqn:Hg; [|apply nth_error_None in Hg; lia].
      pose proof (nth_vs i g Hg) as Hv. set (v := nth i vs VNone) in *.
      rewrite (nth_error_skipn_cons fs i g Hg), (nth_error_skipn_cons vs i v Hv) in Hnel. cbn [firstn] in Hnel.
      inversion Hnel as [|g0 gs0 v0 ws0 ev es' Hev Hrest]; subst g0 gs0 v0 ws0 es. clear Hnel.
      pose proof (wf_at i g Hg) as Hw. fold v in Hw.
      assert (Hil : (i < length vs)%nat) by (rewrite len_vs; exact Hlt).
      assert (Hnext : forall k' s' p' pre' x', mixedk es' x' ->
                inv (S i) s' p' -> (length x' < k')%nat ->
                exists k'' s'' p'' pre'' x'', K x'' /\ inv jj s'' p'' /\ (length x'' < k'')%nat /\
                  b_ploop sub k' m ic s' p' (mkbr pre' x') = b_ploop sub k'' m ic s'' p'' (mkbr pre'' x'')).
      { intros k' s' p' pre' x' A1 A2 A3. apply (IH (S i) jj) with (es := es'); auto; lia. }
      pose proof (inv_to_mid i g s p Hg Hinv) as Hmid0.
      destruct Hev as [k0 lp Ek Ev Hl | key vt val lp Ek Ev Hl | pl Erep Esp Hspl Hpay | Erep Esp].
      + (* sequence *)
        rewrite Ek in Hmid0. cbn [zero_of] in Hmid0.
        destruct (step_seq_k i g k0 Hg Ek (wf_seq_sub i g k0 Hg Ek) lp [] es' x k s p pre Hl Hmid0 Hmix Hk)
          as [k' [s' [p' [pre' [x' [A1 [A2 [A3 A4]]]]]]]].
        rewrite A4. cbn [app] in A2. destruct A2 as [Mv Mh Mp Mw Ml].
        apply Hnext; auto. apply (make_inv i g); auto.
        -- fold v. rewrite Ev. exact Mv.
        -- intros j g' Hj Hg' Hpj Hrj. destruct (Nat.eq_dec j i) as [->|Hne].
           ++ rewrite Hg in Hg'. inversion Hg'; subst g'. rewrite Ek in Hrj. discriminate Hrj.
           ++ apply (Mh j g'); auto. lia.
        -- lia.
        -- intros Ho j g' Hj Hg'. destruct (Nat.eq_dec j i) as [->|Hne].
           ++ rewrite Hg in Hg'. inversion Hg'; subst g'. left. rewrite Ek. reflexivity.
           ++ apply (Mw Ho j g'); auto. lia.
      + (* map *)
        rewrite Ek in Hmid0. cbn [zero_of] in Hmid0.
        destruct (wf_map_sub i g key vt val Hg Ek) as [Hkey [Hval Hvt]].
        assert (Hnd : keys_nodup ([] ++ map fst lp) = true).
        { cbn [app]. rewrite Ek, Ev in Hw. cbn [wf_val] in Hw. apply andb_true_iff in Hw as [_ Hnd]. exact Hnd. }
        destruct (step_map_k i g key vt val Hg Ek Hkey Hval Hvt lp [] es' x k s p pre Hl Hnd Hmid0 Hmix Hk)
          as [k' [s' [p' [pre' [x' [A1 [A2 [A3 A4]]]]]]]].
        rewrite A4. cbn [app] in A2. destruct A2 as [Mv Mh Mp Mw Ml].
        apply Hnext; auto. apply (make_inv i g); auto.
        -- fold v. rewrite Ev. exact Mv.
        -- intros j g' Hj Hg' Hpj Hrj. destruct (Nat.eq_dec j i) as [->|Hne].
           ++ rewrite Hg in Hg'. inversion Hg'; subst g'. rewrite Ek in Hrj. discriminate Hrj.
           ++ apply (Mh j g'); auto. lia.
        -- lia.
        -- intros Ho j g' Hj Hg'. destruct (Nat.eq_dec j i) as [->|Hne].
           ++ rewrite Hg in Hg'. inversion Hg'; subst g'. left. rewrite Ek. reflexivity.
           ++ apply (Mw Ho j g'); auto. lia.
      + (* a present single-element field *)
        apply andb_true_iff in Esp as [Es Ep]. cbn [app] in Hmix.
        destruct (step_single_k i g pl Hg Es Ep Hspl Hpay es' x k s p pre Hinv Hmix Hk)
          as [k' [s' [p' [pre' [x' [A1 [A2 [A3 A4]]]]]]]].
        rewrite A4. apply Hnext; auto.
      + (* absent / marker *)
        cbn [app] in Hmix.
        assert (Hel : elems_val f sc (ftyp g) (fk g) v =
                      if single (fk g) && present (fk g) v then [enc_val (S f) sc (ftyp g) (fk g) v] else []).
        { destruct (fk g); try discriminate Erep; destruct v; reflexivity. }
        assert (Hz : v = zero_of (fk g)).
        { apply (elems_nil_zero f sc (ftyp g) (fk g) v Hw). rewrite Hel, Esp. reflexivity. }
        assert (Hnp : single (fk g) = false \/ present (fk g) v = false) by (apply andb_false_iff; exact Esp).
        assert (Hpf : present (fk g) v = false).
        { destruct Hnp as [Hns|Hnp]; [|exact Hnp]. destruct (fk g); try discriminate Hns; try discriminate Erep; reflexivity. }
        destruct Hmid0 as [Mv Mh Mp Mw Ml].
        apply Hnext; auto. apply (make_inv i g); auto.
        -- fold v. rewrite Hz. exact Mv.
        -- intros j g' Hj Hg' Hpj Hrj. destruct (Nat.eq_dec j i) as [->|Hne].
           ++ rewrite Hg in Hg'. inversion Hg'; subst g'. fold v in Hpj. congruence.
           ++ apply (Mh j g'); auto. lia.
        -- lia.
        -- intros Ho j g' Hj Hg'. destruct (Nat.eq_dec j i) as [->|Hne].
           ++ rewrite Hg in Hg'. inversion Hg'; subst g'. right. exact Hpf.
           ++ apply (Mw Ho j g'); auto. lia.
  Qed.

  End Kont.

  Lemma bad_rd_val m' plb p t : small plb -> sub m' ic (br_of plb) = Err E_CRITICAL ->
    exists r', b_rd_val sub ic (KStruct m') (N.of_nat (length plb)) (mkbr p (plb ++ t)) = RErr E_CRITICAL r'.
  Proof using Hsub.
    intros Hs Hb. cbn [rd_val]. rewrite to_int_small by exact Hs. rewrite nat_N_Z. rewrite (b_delegate_app sc D Fmax Hsub). rewrite Hb.
    eexists; reflexivity.
  Qed.

  Lemma bad_single i g m' plb junk : nth_error fs i = Some g -> fk g = KStruct m' -> small plb ->
    sub m' ic (br_of plb) = Err E_CRITICAL ->
    forall u k s p pre, inv i s p -> unk false u -> (length (u ++ tlv (ftyp g) plb ++ junk) < k)%nat ->
    b_ploop sub k m ic s p (mkbr pre (u ++ tlv (ftyp g) plb ++ junk)) = Err E_CRITICAL.
  Proof using Hsub Hm Hf Hwf HQ.
    clear Hsmall.
    intros Hg Ek Hs Hb u k s p pre Hinv Hu Hk.
    assert (Hin : (i < n)%nat) by (apply nth_error_Some; congruence).
    assert (Hi : (i < length vs)%nat) by (rewrite len_vs; exact Hin).
    pose proof (inv_to_mid i g s p Hg Hinv) as Hmid. pose proof Hmid as [Mv Mh Mp Mw Ml].
    destruct (b_ploop_unk u Hu k s p pre (tlv (ftyp g) plb ++ junk)) as [k1 [Hk1 E1]]; [lia|exact Hk|].
    rewrite E1. destruct k1 as [|k2]; [lia|].
    rewrite (b_ploop_step sub m nm Hm ic). 2:{ apply tlv_app_nonnil. }
    destruct (b_pstep_field sc sub m nm Hm ic i g plb (Z.of_nat (length (rev u ++ pre))) s p (rev u ++ pre) junk Hg
                ltac:(rewrite Ek; reflexivity) Hs Mp) as [s1 [V1 [H1 E2]]].
    { intros Ho. apply (walk_from_mid i (zero_of (fk g)) s p); [lia|exact Hmid|exact Ho]. }
    rewrite E2. rewrite Ek. unfold rd_field.
    destruct (bad_rd_val m' plb (rev (tl_enc (N.of_nat (length plb))) ++ rev (tl_enc (ftyp g)) ++ rev u ++ pre) junk Hs Hb) as [r' Er].
    rewrite Er. reflexivity.
  Qed.

  Lemma bad_seq i g m' plb junk old : nth_error fs i = Some g -> fk g = KSeq (KStruct m') -> small plb ->
    sub m' ic (br_of plb) = Err E_CRITICAL ->
    forall u k s p pre, inv_mid i (VSeq old) s p -> unk false u -> (length (u ++ tlv (ftyp g) plb ++ junk) < k)%nat ->
    b_ploop sub k m ic s p (mkbr pre (u ++ tlv (ftyp g) plb ++ junk)) = Err E_CRITICAL.
  Proof using Hsub Hm Hf Hwf HQ.
    clear Hsmall.
    intros Hg Ek Hs Hb u k s p pre Hmid Hu Hk.
    assert (Hin : (i < n)%nat) by (apply nth_error_Some; congruence).
    assert (Hi : (i < length vs)%nat) by (rewrite len_vs; exact Hin).
    pose proof Hmid as [Mv Mh Mp Mw Ml].
    destruct (b_ploop_unk u Hu k s p pre (tlv (ftyp g) plb ++ junk)) as [k1 [Hk1 E1]]; [lia|exact Hk|].
    rewrite E1. destruct k1 as [|k2]; [lia|].
    rewrite (b_ploop_step sub m nm Hm ic). 2:{ apply tlv_app_nonnil. }
    destruct (b_pstep_field sc sub m nm Hm ic i g plb (Z.of_nat (length (rev u ++ pre))) s p (rev u ++ pre) junk Hg
                ltac:(rewrite Ek; reflexivity) Hs Mp) as [s1 [V1 [H1 E2]]].
    { intros Ho. apply (walk_from_mid i (VSeq old) s p); [lia|exact Hmid|exact Ho]. }
    rewrite E2. rewrite Ek. unfold rd_field.
    destruct (bad_rd_val m' plb (rev (tl_enc (N.of_nat (length plb))) ++ rev (tl_enc (ftyp g)) ++ rev u ++ pre) junk Hs Hb) as [r' Er].
    rewrite Er. reflexivity.
  Qed.

  Lemma bad_map i g key vt m' kx plvb junk old : nth_error fs i = Some g -> fk g = KMap key vt (KStruct m') ->
    map_key_ok key = true -> vt < two64 -> is_none kx = false -> wf_val f sc key kx = true ->
    small (payload (pred f) sc key kx) -> small plvb -> sub m' ic (br_of plvb) = Err E_CRITICAL ->
    forall u k s p pre, inv_mid i (VMap old) s p -> unk false u ->
    (length (u ++ tlv (ftyp g) (payload (pred f) sc key kx) ++ tlv vt plvb ++ junk) < k)%nat ->
    b_ploop sub k m ic s p (mkbr pre (u ++ tlv (ftyp g) (payload (pred f) sc key kx) ++ tlv vt plvb ++ junk)) = Err E_CRITICAL.
  Proof using Hsub Hm Hf Hwf HQ.
    clear Hsmall.
    intros Hg Ek Hkey Hvt Hnk Hwk Hsk Hsv Hb u k s p pre Hmid Hu Hk.
    assert (Hin : (i < n)%nat) by (apply nth_error_Some; congruence).
    assert (Hi : (i < length vs)%nat) by (rewrite len_vs; exact Hin).
    assert (Hf0 : exists f0, f = S f0) by (destruct f as [|f0]; [discriminate Hwk|exists f0; reflexivity]).
    destruct Hf0 as [f0 Ef0]. rewrite Ef0 in Hwk, Hsk, Hk |- *. cbn [pred] in Hsk, Hk |- *.
    set (plk := payload f0 sc key kx) in *.
    pose proof Hmid as [Mv Mh Mp Mw Ml].
    destruct (b_ploop_unk u Hu k s p pre (tlv (ftyp g) plk ++ tlv vt plvb ++ junk)) as [k1 [Hk1 E1]]; [clear - Mp Hin; lia|exact Hk|].
    rewrite E1. destruct k1 as [|k2]; [exfalso; clear - Hk1; lia|].
    rewrite (b_ploop_step sub m nm Hm ic). 2:{ apply tlv_app_nonnil. }
    destruct (b_pstep_field sc sub m nm Hm ic i g plk (Z.of_nat (length (rev u ++ pre))) s p (rev u ++ pre) (tlv vt plvb ++ junk) Hg
                ltac:(rewrite Ek; reflexivity) Hsk Mp) as [s1 [V1 [H1 E2]]].
    { intros Ho. apply (walk_from_mid i (VMap old) s p); [clear - Hi; lia|exact Hmid|exact Ho]. }
    rewrite E2. rewrite Ek. unfold rd_field.
    assert (Hf0' : (S f0 <= Fmax)%nat) by (clear - Hf Ef0; lia).
    destruct (seq_sub_facts key kx (map_key_seq _ Hkey) Hnk) as [Hk1' [_ Hk2']].
    rewrite (b_rd_val_payload sc D Fmax Hsub f0 ic key kx _ _ Hf0' Hk1' Hwk Hk2' Hsk).
    destruct (b_rd_header vt plvb (rev plk ++ rev (tl_enc (N.of_nat (length plk))) ++ rev (tl_enc (ftyp g)) ++ rev u ++ pre) junk Hvt Hsv) as [R1 R2].
    fold plk. rewrite R1. cbn [negb]. rewrite R2. cbn [negb]. rewrite N.eqb_refl. cbn [negb].
    destruct (bad_rd_val m' plvb (rev (tl_enc (N.of_nat (length plvb))) ++ rev (tl_enc vt) ++ rev plk ++ rev (tl_enc (N.of_nat (length plk))) ++ rev (tl_enc (ftyp g)) ++ rev u ++ pre) junk Hsv Hb) as [r' Er].
    rewrite Er. reflexivity.
  Qed.

  Definition kbad_tail_map (g : field) (key : fkind) (vt : N) (m' : nat) (z : bytes) : Prop :=
    exists kx u plvb junk, unk false u /\ is_none kx = false /\ wf_val f sc key kx = true /\
      small (payload (pred f) sc key kx) /\ small plvb /\ sub m' ic (br_of plvb) = Err E_CRITICAL /\
      z = u ++ tlv (ftyp g) (payload (pred f) sc key kx) ++ tlv vt plvb ++ junk.

  Definition kbad_tail (g : field) (m' : nat) (z : bytes) : Prop :=
    exists u plb junk, unk false u /\ small plb /\ sub m' ic (br_of plb) = Err E_CRITICAL /\ z = u ++ tlv (ftyp g) plb ++ junk.

  (* what remains of the stream at field j: a bad struct value, or good elements of a sequence of structs and then a bad one *)
  Definition kbad (j : nat) (g : field) (y : bytes) : Prop :=
    (exists m' u plb junk, fk g = KStruct m' /\ unk false u /\ small plb /\ sub m' ic (br_of plb) = Err E_CRITICAL /\
                           y = u ++ tlv (ftyp g) plb ++ junk) \/
    (exists m' (lp : list (value * bytes)), fk g = KSeq (KStruct m') /\
        (forall e pl, In (e, pl) lp -> is_none e = false /\ wf_val f sc (KStruct m') e = true /\ small pl /\ payq (pred f) (KStruct m') e pl) /\
        mixedk (kbad_tail g m') (map (fun ep => tlv (ftyp g) (snd ep)) lp) y) \/
    (exists m' key vt (lp : list ((value * value) * bytes)), fk g = KMap key vt (KStruct m') /\
        (forall kx vx plv, In ((kx, vx), plv) lp ->
            is_none kx = false /\ is_none vx = false /\ wf_val f sc key kx = true /\ wf_val f sc (KStruct m') vx = true /\
            small (payload (pred f) sc key kx) /\ small plv /\ payq (pred f) (KStruct m') vx plv) /\
        keys_nodup (map fst lp) = true /\
        mixedk (kbad_tail_map g key vt m') (map (map_el g key vt) lp) y).

  Lemma fields_loop_bad j g : nth_error fs j = Some g ->
    forall es x k s p pre, inv 0 s p -> nelems (firstn j fs) (firstn j vs) es -> mixedk (kbad j g) es x -> (length x < k)%nat ->
    b_ploop sub k m ic s p (mkbr pre x) = Err E_CRITICAL.
  Proof using Hsub Hm Hf Hwf HQ.
    clear Hsmall.
    intros Hg es x k s p pre Hinv Hnel Hmix Hk.
    assert (Hjn : (j < n)%nat) by (apply nth_error_Some; congruence).
    destruct (prefix_loop_k (kbad j g) j 0%nat j ltac:(lia) ltac:(lia) ltac:(lia) es x k s p pre Hinv Hnel Hmix Hk)
      as [k' [s' [p' [pre' [x' [HK [Hinv' [Hk' E]]]]]]]].
    rewrite E. destruct HK as [[m' [u [plb [junk [Ek [Hu [Hs [Hb ->]]]]]]]] | [[m' [lp [Ek [Hl Hmk]]]] | [m' [key [vt [lp [Ek [Hl [Hnd Hmk]]]]]]]]].
    - apply (bad_single j g m' plb junk Hg Ek Hs Hb); assumption.
    - pose proof (inv_to_mid j g s' p' Hg Hinv') as Hmid0. rewrite Ek in Hmid0. cbn [zero_of] in Hmid0.
      destruct (step_seq_k (kbad_tail g m') j g (KStruct m') Hg Ek eq_refl lp [] [] x' k' s' p' pre' Hl Hmid0) as [k2 [s2 [p2 [pre2 [x2 [A1 [A2 [A3 A4]]]]]]]].
      + rewrite app_nil_r. exact Hmk.
      + exact Hk'.
      + rewrite A4. inversion A1 as [y Hy|]; subst. destruct Hy as [u [plb [junk [Hu [Hs [Hb ->]]]]]].
        apply (bad_seq j g m' plb junk ([] ++ map fst lp) Hg Ek Hs Hb); assumption.
    - pose proof (inv_to_mid j g s' p' Hg Hinv') as Hmid0. rewrite Ek in Hmid0. cbn [zero_of] in Hmid0.
      destruct (wf_map_sub j g key vt (KStruct m') Hg Ek) as [Hkey [Hval Hvt]].
      destruct (step_map_k (kbad_tail_map g key vt m') j g key vt (KStruct m') Hg Ek Hkey Hval Hvt lp [] [] x' k' s' p' pre' Hl Hnd Hmid0)
        as [k2 [s2 [p2 [pre2 [x2 [A1 [A2 [A3 A4]]]]]]]].
      + rewrite app_nil_r. exact Hmk.
      + exact Hk'.
      + rewrite A4. inversion A1 as [y Hy|]; subst. destruct Hy as [kx [u [plvb [junk [Hu [Hnk [Hwk [Hsk [Hsv [Hb ->]]]]]]]]]].
        apply (bad_map j g key vt m' kx plvb junk ([] ++ map fst lp) Hg Ek Hkey Hvt Hnk Hwk Hsk Hsv Hb); assumption.
  Qed.
End RT.
