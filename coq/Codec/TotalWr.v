(* Codec/TotalWr.v — the WireReader model (and ParseReader = BufferReader | WireReader) meets the reader specification
   of Total.v under the invariant  seg <= len(wire) /\ pos <= len(wire[seg]);  hence wparse / decode_wire never panic
   and never exhaust their fuel, for any segmentation (empty segments included) and any schema. *)
From Codec Require Import Schema Readers Model Spec BrLemmas LeafLemmas Total TotalBr.
From Coq Require Import ZifyBool ZifyN ZifyNat.
Open Scope N_scope.

Definition total (segs : list bytes) : nat := length (concat segs).

Lemma acc_sz_cons s segs i : acc_sz (s :: segs) (S i) = (length s + acc_sz segs i)%nat.
Proof. unfold acc_sz. cbn [firstn concat]. apply app_length. Qed.

Lemma acc_sz_S : forall segs i, (i < length segs)%nat -> acc_sz segs (S i) = (acc_sz segs i + length (nth i segs []))%nat.
Proof.
  induction segs as [|s segs IH]; intros i Hi; [cbn in Hi; lia|].
  destruct i as [|i].
  - rewrite acc_sz_cons. unfold acc_sz. cbn. lia.
  - cbn [length] in Hi. rewrite !acc_sz_cons. rewrite IH by lia. cbn [nth]. lia.
Qed.

Lemma acc_sz_all segs i : (length segs <= i)%nat -> acc_sz segs i = total segs.
Proof. intros H. unfold acc_sz, total. rewrite firstn_all2 by exact H. reflexivity. Qed.

Lemma acc_sz_le segs i : (acc_sz segs i <= total segs)%nat.
Proof.
  unfold acc_sz, total. rewrite <- (firstn_skipn i segs) at 2. rewrite concat_app, app_length. lia.
Qed.

Lemma acc_sz_mono segs i j : (i <= j)%nat -> (acc_sz segs i <= acc_sz segs j)%nat.
Proof.
  intros H. unfold acc_sz. replace j with (i + (j - i))%nat by lia.
  rewrite <- (firstn_skipn i (firstn (i + (j - i)) segs)). rewrite firstn_firstn.
  replace (Nat.min i (i + (j - i))) with i by lia. rewrite concat_app, app_length. lia.
Qed.

Lemma nth_overflow_nil (segs : list bytes) i : (length segs <= i)%nat -> nth i segs [] = [].
Proof. apply nth_overflow. Qed.

Definition wr_inv (w : wr) : Prop :=
  (wseg w <= length (wsegs w))%nat /\ (wpos w <= length (seg_at w (wseg w)))%nat.

Definition wP (w : wr) : nat := (wpos w + acc_sz (wsegs w) (wseg w))%nat.
Definition w_rem (w : wr) : nat := (total (wsegs w) - wP w)%nat.

Lemma wP_le w : wr_inv w -> (wP w <= total (wsegs w))%nat.
Proof.
  intros [H1 H2]. unfold wP, seg_at in *.
  destruct (Nat.eq_dec (wseg w) (length (wsegs w))) as [E|E].
  - rewrite nth_overflow in H2 by lia. cbn in H2. rewrite acc_sz_all by lia. lia.
  - pose proof (acc_sz_S (wsegs w) (wseg w)). pose proof (acc_sz_le (wsegs w) (S (wseg w))). lia.
Qed.

(* the state after an operation: invariant kept, same wire, position not before *)
Definition wok (w w' : wr) : Prop := wr_inv w' /\ wsegs w' = wsegs w /\ (wP w <= wP w')%nat.

Lemma wok_refl w : wr_inv w -> wok w w.
Proof. intros H. repeat split; try apply H; lia. Qed.

Lemma wok_trans a b c : wok a b -> wok b c -> wok a c.
Proof. intros [H1 [H2 H3]] [H4 [H5 H6]]. repeat split; try apply H4; [congruence|lia]. Qed.

Lemma wok_rem w w' : wok w w' -> (w_rem w' <= w_rem w)%nat.
Proof. intros [_ [H2 H3]]. unfold w_rem. rewrite H2. lia. Qed.

Lemma wr_pos_ok w : wr_inv w -> wr_pos w = Ok (Z.of_nat (wP w)).
Proof. intros [H1 _]. unfold wr_pos. replace (wseg w <=? length (wsegs w))%nat with true by (symmetry; apply Nat.leb_le; exact H1). reflexivity. Qed.

Lemma wr_rem_ok w : wr_inv w -> wr_rem w = Ok (Z.of_nat (w_rem w)).
Proof.
  intros H. unfold wr_rem. rewrite wr_pos_ok by exact H. unfold wr_len, w_rem. fold (total (wsegs w)).
  pose proof (wP_le w H). f_equal. lia.
Qed.

(* nextSeg *)
Lemma next_seg_fuel_spec : forall k w, wr_inv w ->
  wok w (next_seg_fuel k w) /\ wP (next_seg_fuel k w) = wP w /\
  ((length (wsegs w) - wseg w < k)%nat ->
   (wseg (next_seg_fuel k w) < length (wsegs w))%nat ->
   (wpos (next_seg_fuel k w) < length (seg_at (next_seg_fuel k w) (wseg (next_seg_fuel k w))))%nat).
Proof.
  induction k as [|k IH]; intros w Hi.
  - cbn [next_seg_fuel]. split; [apply wok_refl; exact Hi|]. split; [reflexivity|]. intros Hk. lia.
  - cbn [next_seg_fuel].
    destruct ((wseg w <? length (wsegs w)) && (length (seg_at w (wseg w)) <=? wpos w))%nat eqn:E.
    + apply andb_true_iff in E as [E1 E2]. apply Nat.ltb_lt in E1. apply Nat.leb_le in E2.
      destruct Hi as [Hi1 Hi2].
      assert (Hi' : wr_inv (mkwr (wsegs w) (S (wseg w)) 0)).
      { split; cbn [wseg wsegs wpos]; lia. }
      assert (HP : wP (mkwr (wsegs w) (S (wseg w)) 0) = wP w).
      { unfold wP; cbn [wseg wsegs wpos]. unfold seg_at in *. rewrite acc_sz_S by exact E1. lia. }
      destruct (IH _ Hi') as [[A1 [A2 A3]] [A4 A5]]. cbn [wsegs wseg] in *.
      split; [repeat split; try apply A1; [exact A2|lia]|]. split; [lia|].
      intros Hk Hlt. apply A5; lia.
    + split; [apply wok_refl; exact Hi|]. split; [reflexivity|]. intros _ Hlt.
      apply andb_false_iff in E as [E|E]; [apply Nat.ltb_ge in E; lia|apply Nat.leb_gt in E; exact E].
Qed.

Lemma next_seg_spec w : wr_inv w ->
  let w' := fst (next_seg w) in
  wok w w' /\ wP w' = wP w /\
  (snd (next_seg w) = true -> (wseg w' < length (wsegs w'))%nat /\ (wpos w' < length (seg_at w' (wseg w')))%nat) /\
  (snd (next_seg w) = false -> wseg w' = length (wsegs w')).
Proof.
  intros Hi. unfold next_seg. cbn [fst snd].
  destruct (next_seg_fuel_spec (S (length (wsegs w))) w Hi) as [Hok [HP Hlt]].
  set (w' := next_seg_fuel (S (length (wsegs w))) w) in *.
  destruct Hok as [Hi' [Hs HPle]].
  split; [repeat split; try apply Hi'; [exact Hs|exact HPle]|]. split; [exact HP|]. split.
  - intros Hm. apply Nat.ltb_lt in Hm. split; [exact Hm|]. apply Hlt; [lia|rewrite <- Hs; exact Hm].
  - intros Hm. apply Nat.ltb_ge in Hm. destruct Hi' as [Hi1 _]. lia.
Qed.

Notation w_opspec := (opspec wr wr_inv w_rem).

Lemma w_spec_readbyte w : wr_inv w -> w_opspec true w (wr_readbyte w).
Proof.
  intros Hi. unfold wr_readbyte. pose proof (next_seg_spec w Hi) as H. cbv zeta in H.
  destruct (next_seg w) as [w1 more]. cbn [fst snd] in H. destruct H as [Hok [HP [Ht Hf]]].
  destruct more.
  - destruct (Ht eq_refl) as [H1 H2]. unfold seg_at in *.
    destruct (nth_error (nth (wseg w1) (wsegs w1) []) (wpos w1)) as [x|] eqn:E.
    + cbn [opspec]. destruct Hok as [[Hi1 Hi2] [Hs HPle]].
      assert (Hi' : wr_inv (mkwr (wsegs w1) (wseg w1) (S (wpos w1)))).
      { split; cbn [wseg wsegs wpos seg_at]; unfold seg_at; cbn [wseg wsegs]; lia. }
      split; [exact Hi'|]. unfold w_rem. cbn [wsegs]. rewrite Hs.
      pose proof (wP_le _ Hi') as Hle. cbn [wsegs] in Hle. rewrite Hs in Hle.
      unfold wP in *. cbn [wseg wsegs wpos] in *. rewrite Hs in *. lia.
    + apply nth_error_None in E. lia.
  - cbn [opspec]. split; [apply Hok|]. split; [apply wok_rem; exact Hok|discriminate].
Qed.

(* the segment-crossing loop of ReadWire / ReadBuf / Read *)
Lemma wr_collect_spec : forall k l w acc, wr_inv w ->
  match wr_collect k l w acc with
  | ROk _ w' => wok w w'
  | RErr e w' => wok w w' /\ e <> E_FUEL
  | RPanic _ => False
  end.
Proof.
  induction k as [|k IH]; intros l w acc Hi.
  - destruct l; cbn [wr_collect]; [apply wok_refl; exact Hi|split; [apply wok_refl; exact Hi|discriminate]].
  - destruct l as [|l]; [cbn [wr_collect]; apply wok_refl; exact Hi|].
    cbn [wr_collect].
    destruct (length (wsegs w) <=? wseg w)%nat eqn:E0; [split; [apply wok_refl; exact Hi|discriminate]|].
    apply Nat.leb_gt in E0. destruct Hi as [Hi1 Hi2].
    destruct (length (seg_at w (wseg w)) <? wpos w + S l)%nat eqn:E1.
    + destruct (length (seg_at w (wseg w)) <? wpos w)%nat eqn:E2; [apply Nat.ltb_lt in E2; lia|].
      assert (Hi' : wr_inv (mkwr (wsegs w) (S (wseg w)) 0)) by (split; cbn [wseg wsegs wpos]; lia).
      assert (Hok : wok w (mkwr (wsegs w) (S (wseg w)) 0)).
      { repeat split; try apply Hi'. unfold wP; cbn [wseg wsegs wpos]. unfold seg_at in *. rewrite acc_sz_S by exact E0. lia. }
      specialize (IH (S l - (length (seg_at w (wseg w)) - wpos w))%nat _ (acc ++ skipn (wpos w) (seg_at w (wseg w))) Hi').
      destruct (wr_collect k _ _ _); try contradiction.
      * eapply wok_trans; eauto.
      * destruct IH as [A B]. split; [eapply wok_trans; eauto|exact B].
    + apply Nat.ltb_ge in E1.
      assert (Hi' : wr_inv (mkwr (wsegs w) (wseg w) (wpos w + S l))) by (unfold wr_inv, seg_at in *; cbn [wseg wsegs wpos] in *; lia).
      repeat split; try apply Hi'. unfold wP; cbn [wseg wsegs wpos]. lia.
Qed.

Lemma collect_to_opspec w0 w k l acc : wok w0 w ->
  w_opspec false w0 (wr_collect k l w acc).
Proof.
  intros Hok. pose proof (wr_collect_spec k l w acc (proj1 Hok)) as H.
  destruct (wr_collect k l w acc); cbn [opspec]; try contradiction.
  - pose proof (wok_trans _ _ _ Hok H) as T. split; [apply T|apply wok_rem; exact T].
  - destruct H as [A B]. pose proof (wok_trans _ _ _ Hok A) as T. split; [apply T|]. split; [apply wok_rem; exact T|exact B].
Qed.

Lemma err_opspec w0 w e : wok w0 w -> e <> E_FUEL -> w_opspec false w0 (RErr e w : rres wr bytes).
Proof. intros Hok He. cbn [opspec]. split; [apply Hok|]. split; [apply wok_rem; exact Hok|exact He]. Qed.

Lemma w_spec_readwire w l : wr_inv w -> w_opspec false w (wr_readwire w l).
Proof.
  intros Hi. unfold wr_readwire. pose proof (next_seg_spec w Hi) as H. cbv zeta in H.
  destruct (next_seg w) as [w1 more]. cbn [fst snd] in H. destruct H as [Hok _].
  destruct (negb more && (0 <? l)%Z); [apply err_opspec; [exact Hok|discriminate]|].
  rewrite (wr_rem_ok w1 (proj1 Hok)).
  destruct ((l <? 0) || (l >? Z.of_nat (w_rem w1)))%Z; [apply err_opspec; [exact Hok|discriminate]|].
  apply collect_to_opspec. exact Hok.
Qed.

Lemma w_spec_readbuf w l : wr_inv w -> w_opspec false w (wr_readbuf w l).
Proof.
  intros Hi. unfold wr_readbuf. rewrite (wr_rem_ok w Hi).
  destruct ((l <? 0) || (l >? Z.of_nat (w_rem w)))%Z; [apply err_opspec; [apply wok_refl; exact Hi|discriminate]|].
  pose proof (next_seg_spec w Hi) as H. cbv zeta in H.
  destruct (next_seg w) as [w1 more]. cbn [fst snd] in H. destruct H as [Hok _].
  destruct (negb more).
  - destruct (l =? 0)%Z; [|apply err_opspec; [exact Hok|discriminate]].
    cbn [opspec]. split; [apply Hok|apply wok_rem; exact Hok].
  - apply collect_to_opspec. exact Hok.
Qed.

Lemma w_spec_readn w n : wr_inv w -> w_opspec false w (wr_readn w n).
Proof.
  intros Hi. unfold wr_readn. rewrite (wr_rem_ok w Hi).
  destruct (Z.of_N n <=? Z.of_nat (w_rem w))%Z.
  - pose proof (next_seg_spec w Hi) as H. cbv zeta in H. destruct H as [Hok _].
    apply collect_to_opspec. exact Hok.
  - cbn [opspec].
    assert (Hi' : wr_inv (mkwr (wsegs w) (length (wsegs w)) 0)) by (split; cbn [wseg wsegs wpos]; lia).
    split; [exact Hi'|]. split; [|discriminate].
    unfold w_rem, wP. cbn [wsegs wseg wpos]. rewrite acc_sz_all by lia. lia.
Qed.

(* Skip's normalisation loop *)
Lemma wr_skip_loop_spec : forall k w,
  (wseg w <= length (wsegs w))%nat -> (wP w <= total (wsegs w))%nat -> (length (wsegs w) - wseg w < k)%nat ->
  wr_inv (wr_skip_loop k w) /\ wsegs (wr_skip_loop k w) = wsegs w /\ wP (wr_skip_loop k w) = wP w /\
  (wseg w <= wseg (wr_skip_loop k w))%nat.
Proof.
  induction k as [|k IH]; intros w H1 H2 Hk; [lia|].
  cbn [wr_skip_loop].
  destruct ((wseg w <? length (wsegs w)) && (length (seg_at w (wseg w)) <? wpos w))%nat eqn:E.
  - apply andb_true_iff in E as [E1 E2]. apply Nat.ltb_lt in E1. apply Nat.ltb_lt in E2.
    set (w1 := mkwr (wsegs w) (S (wseg w)) (wpos w - length (seg_at w (wseg w)))).
    assert (HP : wP w1 = wP w).
    { unfold wP, w1; cbn [wseg wsegs wpos]. unfold seg_at in *. rewrite acc_sz_S by exact E1. lia. }
    destruct (IH w1) as [A [B [C D]]]; unfold w1 in *; cbn [wseg wsegs wpos] in *; try lia.
    repeat split; try apply A; try assumption; lia.
  - apply andb_false_iff in E. split; [|repeat split; lia].
    split; [exact H1|]. unfold seg_at, wP in *.
    destruct (Nat.eq_dec (wseg w) (length (wsegs w))) as [Eq|Ne].
    + rewrite nth_overflow by lia. rewrite acc_sz_all in H2 by lia. cbn. lia.
    + destruct E as [E|E]; [apply Nat.ltb_ge in E; lia|apply Nat.ltb_ge in E; exact E].
Qed.

Lemma w_spec_skip w n : wr_inv w -> w_opspec false w (wr_skip w n).
Proof.
  intros Hi. unfold wr_skip.
  destruct (n <? 0)%Z eqn:En; [cbn [opspec]; split; [exact Hi|]; split; [lia|discriminate]|].
  rewrite (wr_rem_ok w Hi).
  destruct (n >? Z.of_nat (w_rem w))%Z eqn:E; [cbn [opspec]; split; [exact Hi|]; split; [lia|discriminate]|].
  pose proof (wP_le w Hi) as Hle.
  destruct (wr_skip_loop_spec (S (length (wsegs w))) (mkwr (wsegs w) (wseg w) (wpos w + Z.to_nat n))) as [A [B [C D]]];
    cbn [wseg wsegs wpos]; try (destruct Hi; lia).
  { unfold wP in *. cbn [wseg wsegs wpos]. unfold w_rem, wP in E. lia. }
  cbn [opspec]. split; [exact A|]. unfold w_rem. rewrite B, C. cbn [wsegs]. unfold wP. cbn [wseg wsegs wpos]. unfold wP. lia.
Qed.

Lemma w_spec_range w s e : exists o, wr_range w s e = Ok o.
Proof. unfold wr_range. destruct ((s <? 0) || (e >? wr_len w) || (s >? e))%Z; eauto. Qed.

Lemma slice_one (l : bytes) p : (1 <= p)%Z -> (p <= Z.of_nat (length l))%Z -> exists x, slice (p - 1) p l = [x].
Proof.
  intros H1 H2. unfold slice. replace (Z.to_nat (p - (p - 1))) with 1%nat by lia.
  destruct (skipn (Z.to_nat (p - 1)) l) as [|x t] eqn:E.
  - pose proof (skipn_length (Z.to_nat (p - 1)) l) as HL. rewrite E in HL. cbn in HL. lia.
  - exists x. reflexivity.
Qed.

Lemma w_spec_skip_range w w' p : wr_inv w -> wr_skip w 1 = ROk tt w' -> wr_pos w' = Ok p ->
  exists x t, wr_range w' (p - 1) p = Ok (Some (x :: t)).
Proof.
  intros Hi Hs Hp. unfold wr_skip in Hs. change (1 <? 0)%Z with false in Hs. cbv iota in Hs.
  rewrite (wr_rem_ok w Hi) in Hs.
  destruct (1 >? Z.of_nat (w_rem w))%Z eqn:E; [discriminate|].
  pose proof (wP_le w Hi) as Hle.
  destruct (wr_skip_loop_spec (S (length (wsegs w))) (mkwr (wsegs w) (wseg w) (wpos w + Z.to_nat 1))) as [A [B [C D]]];
    cbn [wseg wsegs wpos]; try (destruct Hi; lia).
  { unfold wP in *. cbn [wseg wsegs wpos]. unfold w_rem, wP in E. lia. }
  assert (Hw' : w' = wr_skip_loop (S (length (wsegs w))) (mkwr (wsegs w) (wseg w) (wpos w + Z.to_nat 1))) by congruence.
  subst w'. clear Hs. set (w' := wr_skip_loop _ _) in *.
  rewrite (wr_pos_ok w' A) in Hp. inversion Hp; subst p. clear Hp.
  unfold wP in C at 2. cbn [wseg wsegs wpos] in C. fold (wP w) in C.
  unfold wr_range, wr_len. rewrite B. cbn [wsegs]. fold (total (wsegs w)).
  unfold w_rem in E.
  destruct ((Z.of_nat (wP w') - 1 <? 0) || (Z.of_nat (wP w') >? Z.of_nat (total (wsegs w))) || (Z.of_nat (wP w') - 1 >? Z.of_nat (wP w')))%Z eqn:E2.
  { unfold wP in *. lia. }
  destruct (slice_one (concat (wsegs w)) (Z.of_nat (wP w'))) as [x Hx].
  - unfold wP in *. lia.
  - fold (total (wsegs w)). unfold wP in *. lia.
  - exists x, []. rewrite Hx. reflexivity.
Qed.

(* ---- Delegate ---- *)
Definition p_RI (r : preader) : Prop := match r with PB _ => True | PW w => wr_inv w end.
Definition p_rem (r : preader) : nat := match r with PB b => b_rem b | PW w => w_rem w end.

Lemma firstn_add {A} : forall (l : list A) a k, firstn (a + k) l = firstn a l ++ firstn k (skipn a l).
Proof.
  induction l as [|x l IH]; intros a k.
  - rewrite !firstn_nil, skipn_nil, firstn_nil. reflexivity.
  - destruct a as [|a]; [reflexivity|]. cbn [plus firstn skipn app]. f_equal. apply IH.
Qed.

Lemma middle_len segs a k : length (concat (firstn k (skipn a segs))) = (acc_sz segs (a + k) - acc_sz segs a)%nat.
Proof.
  pose proof (firstn_add segs a k) as H. apply (f_equal (fun x => length (concat x))) in H.
  rewrite concat_app, app_length in H. unfold acc_sz. unfold bytes in *. lia.
Qed.

Lemma nth_firstn_lt {A} : forall (l : list A) a i d, (i < a)%nat -> nth i (firstn a l) d = nth i l d.
Proof.
  induction l as [|x l IH]; intros a i d H; [rewrite firstn_nil; reflexivity|].
  destruct a as [|a]; [lia|]. destruct i as [|i]; [reflexivity|]. cbn [firstn nth]. apply IH. lia.
Qed.

Lemma acc_sz_firstn segs a i : (i <= a)%nat -> acc_sz (firstn a segs) i = acc_sz segs i.
Proof. intros H. unfold acc_sz. rewrite firstn_firstn. replace (Nat.min i a) with i by lia. reflexivity. Qed.

Lemma w_spec_delegate w l : wr_inv w ->
  exists sr w', wr_delegate w l = Ok (sr, w') /\ p_RI sr /\ wr_inv w' /\ (p_rem sr <= w_rem w)%nat /\ (w_rem w' <= w_rem w)%nat.
Proof.
  intros Hi. unfold wr_delegate. rewrite (wr_rem_ok w Hi).
  destruct ((l <? 0) || (length (wsegs w) <=? wseg w)%nat || (l >? Z.of_nat (w_rem w)))%Z eqn:E0.
  { exists (PB (br_of [])), w. repeat split; try apply Hi; cbn; lia. }
  apply orb_false_iff in E0 as [E0 E0c]. apply orb_false_iff in E0 as [E0a E0b]. apply Nat.leb_gt in E0b.
  pose proof (wP_le w Hi) as Hle. destruct Hi as [Hi1 Hi2].
  cbv zeta.
  destruct (wpos w + Z.to_nat l <=? length (seg_at w (wseg w)))%nat eqn:E1.
  { apply Nat.leb_le in E1.
    exists (PB (br_of (firstn (Z.to_nat l) (skipn (wpos w) (seg_at w (wseg w)))))), (mkwr (wsegs w) (wseg w) (wpos w + Z.to_nat l)).
    split; [reflexivity|]. split; [exact I|].
    assert (Hi' : wr_inv (mkwr (wsegs w) (wseg w) (wpos w + Z.to_nat l))) by (unfold wr_inv, seg_at in *; cbn [wseg wsegs wpos]; lia).
    split; [exact Hi'|]. split.
    - cbn [p_rem]. unfold b_rem, br_of. cbn [rest]. rewrite firstn_length. lia.
    - unfold w_rem, wP. cbn [wsegs wseg wpos]. lia. }
  apply Nat.leb_gt in E1.
  destruct (wr_skip_loop_spec (S (length (wsegs w))) (mkwr (wsegs w) (wseg w) (wpos w + Z.to_nat l))) as [A [B [C D]]];
    cbn [wseg wsegs wpos]; try lia.
  { unfold wP in *. cbn [wseg wsegs wpos]. unfold w_rem, wP in E0c. lia. }
  set (w' := wr_skip_loop (S (length (wsegs w))) (mkwr (wsegs w) (wseg w) (wpos w + Z.to_nat l))) in *.
  cbn [wsegs wseg] in B, D. unfold wP in C at 2. cbn [wseg wsegs wpos] in C.
  assert (Hrem' : (w_rem w' <= w_rem w)%nat) by (unfold w_rem; rewrite B; unfold wP in *; lia).
  destruct (length (wsegs w') <=? wseg w')%nat eqn:E2.
  { exists (PB (br_of [])), w'. repeat split; try apply A; cbn; try lia. exact Hrem'. }
  apply Nat.leb_gt in E2. rewrite B in E2.
  destruct (wpos w' =? length (seg_at w' (wseg w')))%nat eqn:E3.
  { (* shares the outer wire *)
    exists (PW (mkwr (firstn (S (wseg w')) (wsegs w)) (wseg w) (wpos w))), w'.
    split; [reflexivity|].
    assert (Hfl : length (firstn (S (wseg w')) (wsegs w)) = S (wseg w')) by (apply firstn_length_le; lia).
    split.
    - unfold p_RI, wr_inv, seg_at in *. cbn [wsegs wseg wpos]. rewrite Hfl. split; [lia|].
      rewrite nth_firstn_lt by lia. exact Hi2.
    - split; [exact A|]. split; [|exact Hrem'].
      unfold p_rem, w_rem, wP, total. cbn [wsegs wseg wpos]. rewrite acc_sz_firstn by lia.
      change (length (concat (firstn (S (wseg w')) (wsegs w)))) with (acc_sz (wsegs w) (S (wseg w'))).
      pose proof (acc_sz_le (wsegs w) (S (wseg w'))). unfold total in *. lia. }
  (* fresh wire *)
  eexists (PW (mkwr _ 0 0)), w'. split; [reflexivity|].
  split; [unfold p_RI, wr_inv; cbn [wsegs wseg wpos]; lia|]. split; [exact A|]. split; [|exact Hrem'].
  unfold p_rem, w_rem, wP. cbn [wsegs wseg wpos]. unfold acc_sz at 1. cbn [firstn concat length]. rewrite Nat.sub_0_r.
  unfold total, seg_at in *. rewrite B.
  pose proof (acc_sz_S (wsegs w) (wseg w) E0b) as HS1.
  pose proof (acc_sz_S (wsegs w) (wseg w') E2) as HS2.
  pose proof (acc_sz_le (wsegs w) (S (wseg w'))) as HL. unfold total in HL.
  destruct (wseg w <? wseg w')%nat eqn:E4.
  - apply Nat.ltb_lt in E4. cbn [concat]. rewrite app_length, concat_app, app_length. cbn [concat]. rewrite app_nil_r.
    rewrite skipn_length, firstn_length.
    rewrite middle_len. replace (S (wseg w) + (wseg w' - S (wseg w)))%nat with (wseg w') by lia.
    pose proof (acc_sz_mono (wsegs w) (S (wseg w)) (wseg w')) as Hmono. specialize (Hmono E4).
    pose proof (Nat.le_min_r (wpos w') (length (nth (wseg w') (wsegs w) []))) as Hmin.
    unfold wP. unfold bytes, byte in *.
    set (mn := Init.Nat.min _ _) in *. clearbody mn. lia.
  - cbn [concat]. rewrite app_nil_r, firstn_length, skipn_length. unfold wP.
    pose proof (acc_sz_le (wsegs w) (S (wseg w))) as HL2. unfold total in HL2.
    pose proof (Nat.le_min_r (wpos w') (length (nth (wseg w) (wsegs w) []) - wpos w)) as Hmin.
    unfold bytes, byte in *. set (mn := Init.Nat.min _ _) in *. clearbody mn. lia.
Qed.

(* ---- ParseReader = BufferReader | WireReader ---- *)
Notation p_opspec := (opspec preader p_RI p_rem).

Lemma lift_b_spec {A} s b (x : rres br A) : opspec br b_RI b_rem s b x -> p_opspec s (PB b) (lift_b x).
Proof. destruct x; cbn; auto. Qed.

Lemma lift_w_spec {A} s w (x : rres wr A) : w_opspec s w x -> p_opspec s (PW w) (lift_w x).
Proof. destruct x; cbn; auto. Qed.

Theorem wparse_total : forall d sc mi ic r, p_RI r -> (p_rem r < d)%nat ->
  match wparse d sc mi ic r with Ok _ => True | Err e => e <> E_FUEL | Panic _ => False end.
Proof.
  intros d sc mi ic r HI Hd. unfold wparse.
  apply (parse_total preader pr_pos pr_len pr_readbyte pr_readn pr_readbuf pr_readwire pr_skip pr_range pr_delegate p_RI p_rem); auto.
  - intros [b|w] H; cbn [pr_pos]; [eauto|]. rewrite (wr_pos_ok w H). eauto.
  - intros [b|w] p H Hp; cbn [pr_len p_rem pr_pos] in *; [apply b_spec_len; [exact I|exact Hp]|].
    rewrite (wr_pos_ok w H) in Hp. inversion Hp; subst. unfold wr_len, w_rem. fold (total (wsegs w)). pose proof (wP_le w H). lia.
  - intros [b|w] H; cbn [pr_readbyte]; [apply lift_b_spec, b_spec_readbyte; exact I|apply lift_w_spec, w_spec_readbyte; exact H].
  - intros [b|w] n H; cbn [pr_readn]; [apply lift_b_spec, b_spec_readn; exact I|apply lift_w_spec, w_spec_readn; exact H].
  - intros [b|w] l H; cbn [pr_readbuf]; [apply lift_b_spec, b_spec_readbuf; exact I|apply lift_w_spec, w_spec_readbuf; exact H].
  - intros [b|w] l H; cbn [pr_readwire]; [apply lift_b_spec, b_spec_readwire; exact I|apply lift_w_spec, w_spec_readwire; exact H].
  - intros [b|w] n H; cbn [pr_skip]; [apply lift_b_spec, b_spec_skip; exact I|apply lift_w_spec, w_spec_skip; exact H].
  - intros [b|w] s e H; cbn [pr_range]; [apply b_spec_range; exact I|apply w_spec_range].
  - intros [b|w] r' p H Hs Hp.
    + cbn [pr_skip] in Hs. destruct (br_skip b 1) as [u b'|e b'|y] eqn:Eb; cbn [lift_b] in Hs; try discriminate.
      destruct u. inversion Hs; subst r'. cbn [pr_pos] in Hp. cbn [pr_range].
      apply (b_spec_skip_range b b' p I Eb Hp).
    + cbn [pr_skip] in Hs. destruct (wr_skip w 1) as [u w'|e w'|y] eqn:Ew; cbn [lift_w] in Hs; try discriminate.
      destruct u. inversion Hs; subst r'. cbn [pr_pos] in Hp. cbn [pr_range].
      apply (w_spec_skip_range w w' p H Ew Hp).
  - intros [b|w] l H; cbn [pr_delegate].
    + destruct (b_spec_delegate b l I) as [sr [b' [E [H1 [H2 [H3 H4]]]]]]. rewrite E.
      exists (PB sr), (PB b'). cbn [p_RI p_rem]. auto.
    + destruct (w_spec_delegate w l H) as [sr [w' [E [H1 [H2 [H3 H4]]]]]]. rewrite E.
      exists sr, (PW w'). cbn [p_RI p_rem]. auto.
Qed.

Theorem decode_total_w : forall sc mi ic segs,
  match decode_wire sc mi ic segs with Ok _ => True | Err e => e <> E_FUEL | Panic _ => False end.
Proof.
  intros. unfold decode_wire. apply wparse_total.
  - cbn [p_RI]. unfold wr_inv. cbn [wseg wsegs wpos]. lia.
  - cbn [p_rem]. unfold w_rem, wP, total. cbn [wseg wsegs wpos]. unfold acc_sz. cbn. lia.
Qed.
