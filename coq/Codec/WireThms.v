(* Codec/WireThms.v — the C13 theorems for the WireReader instance: by wirereader_refines_buffer, for ANY segmentation
   (list of buffers, empty ones included) of the bytes in question. *)
From Codec Require Import Schema Readers Model Spec LeafLemmas Roundtrip Theorems13 DecodeThms Sim SimWr.
From Coq Require Import ZifyBool ZifyN ZifyNat.
Open Scope N_scope.

Lemma wire_ok sc mi ic segs vs cx cv : decode sc mi ic (concat segs) = Ok (vs, cx, cv) ->
  exists cx' cv', decode_wire sc mi ic segs = Ok (vs, cx', cv').
Proof.
  intros H. pose proof (wirereader_refines_buffer sc mi ic segs) as X. rewrite H in X.
  destruct (decode_wire sc mi ic segs) as [[[v c] d]|e|w]; cbn in X; try contradiction. subst. eauto.
Qed.

Lemma wire_err sc mi ic segs e : decode sc mi ic (concat segs) = Err e -> decode_wire sc mi ic segs = Err e.
Proof.
  intros H. pose proof (wirereader_refines_buffer sc mi ic segs) as X. rewrite H in X.
  destruct (decode_wire sc mi ic segs) as [[[v c] d]|e'|w]; cbn in X; try contradiction. subst. reflexivity.
Qed.

Theorem decode_wire_roundtrip sc : schema_wf sc = true ->
  forall fuel mi vs ic segs, wf_value fuel sc mi vs = true -> small (encode fuel sc mi vs) ->
  concat segs = encode fuel sc mi vs ->
  exists cx cv, decode_wire sc mi ic segs = Ok (vs, cx, cv).
Proof.
  intros Hsc fuel mi vs ic segs Hw Hs Hc.
  destruct (decode_roundtrip sc Hsc fuel mi vs ic Hw Hs) as [cx [cv H]]. rewrite <- Hc in H. eapply wire_ok; eauto.
Qed.

Theorem decode_wire_unknown_skipped sc : schema_wf sc = true ->
  forall f mi vs ic es1 es2 t pl segs, wf_value (S f) sc mi vs = true -> small (encode (S f) sc mi vs) ->
  elements f sc mi vs = es1 ++ es2 ->
  find_field t 0 (flds (the_model sc mi)) = None -> (ic = true \/ critical t = false) -> t < two64 -> small pl ->
  concat segs = concat es1 ++ tlv t pl ++ concat es2 ->
  exists cx cv, decode_wire sc mi ic segs = Ok (vs, cx, cv).
Proof.
  intros Hsc f mi vs ic es1 es2 t pl segs Hw Hs Hel Hnf Hc Ht Hpl Hcat.
  destruct (decode_unknown_skipped sc Hsc f mi vs ic es1 es2 t pl Hw Hs Hel Hnf Hc Ht Hpl) as [cx [cv H]].
  rewrite <- Hcat in H. eapply wire_ok; eauto.
Qed.

Theorem decode_wire_unknown_critical_rejected sc : schema_wf sc = true ->
  forall f mi vs es1 es2 t l junk segs, wf_value (S f) sc mi vs = true -> small (encode (S f) sc mi vs) ->
  elements f sc mi vs = es1 ++ es2 ->
  find_field t 0 (flds (the_model sc mi)) = None -> critical t = true -> t < two64 -> l < two64 ->
  concat segs = concat es1 ++ tl_enc t ++ tl_enc l ++ junk ->
  decode_wire sc mi false segs = Err E_CRITICAL.
Proof.
  intros Hsc f mi vs es1 es2 t l junk segs Hw Hs Hel Hnf Hc Ht Hl Hcat.
  apply wire_err. rewrite Hcat. eapply decode_unknown_critical_rejected; eauto.
Qed.
